import Comdex.Model.ExtReward
import Comdex.Lemmas.Gauge
import Mathlib.Tactic.Linarith
import Mathlib.Tactic.Ring
import Mathlib.Tactic.Positivity
/-! Lemmas for the external reward programmes (C19): rounding analysis of the share arithmetic, the accumulator invariant of
the lend loop, life-cycle invariants. -/
namespace Comdex.ExtReward
open Comdex Comdex.Gauge

/-! ## Dec helpers -/

theorem quo_ofInt_bounds (a b : Int) (ha : 0 ≤ a) (hb : 0 < b) :
    0 ≤ Dec.quo a (Dec.ofInt b) ∧ 2 * Dec.quo a (Dec.ofInt b) * b ≤ 2 * a + b := by
  have hP := P_pos
  unfold Dec.quo Dec.ofInt Dec.PP
  have hX : 0 ≤ a * (Dec.P * Dec.P) := by positivity
  have hbP : 0 < b * Dec.P := by positivity
  rw [Int.tdiv_eq_ediv_of_nonneg hX]
  have ht0 : 0 ≤ a * (Dec.P * Dec.P) / (b * Dec.P) := Int.ediv_nonneg hX (le_of_lt hbP)
  have h1 := chopRound_upper _ ht0
  have h0 := chopRound_nonneg _ ht0
  have h2 : a * (Dec.P * Dec.P) / (b * Dec.P) * (b * Dec.P) ≤ a * (Dec.P * Dec.P) := Int.ediv_mul_le _ (ne_of_gt hbP)
  refine ⟨h0, ?_⟩
  generalize Dec.chopRound (a * (Dec.P * Dec.P) / (b * Dec.P)) = m at *
  generalize a * (Dec.P * Dec.P) / (b * Dec.P) = t at *
  -- t·b·P ≤ a·P·P  ⇒  t·b ≤ a·P ;  2·m·P ≤ 2·t + P  ⇒  2·m·P·b ≤ 2·t·b + P·b ≤ 2·a·P + P·b
  have h3 : t * b ≤ a * Dec.P := by
    have : Dec.P * (t * b) ≤ Dec.P * (a * Dec.P) := by nlinarith
    exact Int.le_of_mul_le_mul_left this hP
  have h4 : Dec.P * (2 * m * b) ≤ Dec.P * (2 * a + b) := by
    have : 2 * m * Dec.P * b ≤ (2 * t + Dec.P) * b := Int.mul_le_mul_of_nonneg_right h1 (le_of_lt hb)
    nlinarith
  exact Int.le_of_mul_le_mul_left h4 hP

theorem truncateInt_nonneg (x : Int) (hx : 0 ≤ x) : 0 ≤ Dec.truncateInt x := by
  unfold Dec.truncateInt
  rw [Int.tdiv_eq_ediv_of_nonneg hx]
  exact Int.ediv_nonneg hx (by decide)

theorem truncateInt_mul_le (x : Int) (hx : 0 ≤ x) : Dec.truncateInt x * Dec.P ≤ x := by
  unfold Dec.truncateInt
  rw [Int.tdiv_eq_ediv_of_nonneg hx]
  exact Int.ediv_mul_le x (by decide)

theorem lt_truncateInt_succ (x : Int) (hx : 0 ≤ x) : x < (Dec.truncateInt x + 1) * Dec.P := by
  unfold Dec.truncateInt
  rw [Int.tdiv_eq_ediv_of_nonneg hx]
  exact Int.lt_ediv_add_one_mul_self x (by decide)

/-- `trunc(a.Mul(b))` for non-negative operands: `2·r·P² ≤ 2·a·b + P` -/
theorem trunc_mul_bound (a b : Int) (ha : 0 ≤ a) (hb : 0 ≤ b) :
    0 ≤ Dec.truncateInt (Dec.mul a b) ∧ 2 * Dec.truncateInt (Dec.mul a b) * Dec.P * Dec.P ≤ 2 * (a * b) + Dec.P := by
  have hP := P_pos
  have hab : 0 ≤ a * b := Int.mul_nonneg ha hb
  unfold Dec.mul
  have h0 := chopRound_nonneg _ hab
  have h1 := chopRound_upper _ hab
  have h2 := truncateInt_mul_le _ h0
  have h3 := truncateInt_nonneg _ h0
  refine ⟨h3, ?_⟩
  generalize Dec.truncateInt (Dec.chopRound (a * b)) = r at *
  generalize Dec.chopRound (a * b) = m at *
  nlinarith

theorem posPart_eq (r : Int) (h : 0 ≤ r) : posPart r = r := by
  unfold posPart; split <;> omega

theorem posPart_nonneg (r : Int) : 0 ≤ posPart r := by
  unfold posPart; split <;> omega

/-! ## Locker / vault share arithmetic -/

/-- `Dec(net).Quo(Dec(totalShare))` -/
def shareOf (total amt : Int) : Dec := Dec.quo (Dec.ofInt amt) (Dec.ofInt total)

theorem shareOf_bounds (total amt : Int) (ht : 0 < total) (ha : 0 ≤ amt) :
    0 ≤ shareOf total amt ∧ 2 * shareOf total amt * total ≤ 2 * amt * Dec.P + total := by
  have hP := P_pos
  have := quo_ofInt_bounds (Dec.ofInt amt) total (by unfold Dec.ofInt; positivity) ht
  unfold shareOf
  unfold Dec.ofInt at this ⊢
  refine ⟨this.1, ?_⟩
  have h := this.2
  linarith

theorem epochRewards_bounds (p : Prog) (ha : 0 ≤ p.avail) (hd : 0 < p.daysLeft) :
    0 ≤ epochRewards p ∧ 2 * epochRewards p * p.daysLeft ≤ 2 * p.avail * Dec.P + p.daysLeft := by
  have := quo_ofInt_bounds (Dec.ofInt p.avail) p.daysLeft (by unfold Dec.ofInt; have := P_pos; positivity) hd
  unfold epochRewards
  unfold Dec.ofInt at this ⊢
  refine ⟨this.1, ?_⟩
  linarith [this.2]

theorem extShare_eq (p : Prog) (total amt : Int) :
    extShare p.avail p.daysLeft total amt = Dec.truncateInt (Dec.mul (shareOf total amt) (epochRewards p)) := rfl

/-- sum of the shares, number and amount of the eligible positions -/
def eligShares (p : Prog) (now total : Int) : List User → Int
  | [] => 0
  | u :: us => (if eligible p now u then shareOf total u.amt else 0) + eligShares p now total us

def eligCount (p : Prog) (now : Int) : List User → Nat
  | [] => 0
  | u :: us => (if eligible p now u then 1 else 0) + eligCount p now us

def eligAmount (p : Prog) (now : Int) : List User → Int
  | [] => 0
  | u :: us => (if eligible p now u then u.amt else 0) + eligAmount p now us

theorem sumL_map_cons {α : Type} (f : α → Int) (x : α) (xs : List α) : sumL ((x :: xs).map f) = f x + sumL (xs.map f) := rfl

theorem share_sum_bound (p : Prog) (now total : Int) (users : List User)
    (ha : 0 ≤ p.avail) (hd : 0 < p.daysLeft) (ht : 0 < total) (hu : ∀ u ∈ users, 0 ≤ u.amt) :
    (∀ r ∈ users.map (userPay p now total), 0 ≤ r) ∧
    0 ≤ eligShares p now total users ∧
    sumL (users.map (userPay p now total)) * (2 * Dec.P * Dec.P)
      ≤ 2 * eligShares p now total users * epochRewards p + (eligCount p now users : Int) * Dec.P ∧
    2 * eligShares p now total users * total ≤ 2 * eligAmount p now users * Dec.P + (eligCount p now users : Int) * total := by
  have hP := P_pos
  obtain ⟨hE0, _⟩ := epochRewards_bounds p ha hd
  induction users with
  | nil => simp [sumL, eligShares, eligCount, eligAmount]
  | cons u us ih =>
    obtain ⟨i1, i2, i3, i4⟩ := ih (fun v hv => hu v (by simp [hv]))
    have hu0 : 0 ≤ u.amt := hu u (by simp)
    obtain ⟨hs0, hs1⟩ := shareOf_bounds total u.amt ht hu0
    rw [sumL_map_cons]
    simp only [eligShares, eligCount, eligAmount]
    by_cases he : eligible p now u = true
    · obtain ⟨hr0, hr1⟩ := trunc_mul_bound (shareOf total u.amt) (epochRewards p) hs0 hE0
      have hup : userPay p now total u = Dec.truncateInt (Dec.mul (shareOf total u.amt) (epochRewards p)) := by
        unfold userPay; rw [if_pos he, extShare_eq, posPart_eq _ hr0]
      rw [hup]
      simp only [he, if_true]
      refine ⟨?_, by linarith, ?_, ?_⟩
      · intro r hr
        simp only [List.map_cons, List.mem_cons] at hr
        rcases hr with rfl | hr
        · rw [hup]; exact hr0
        · exact i1 r hr
      · generalize Dec.truncateInt (Dec.mul (shareOf total u.amt) (epochRewards p)) = r at *
        push_cast
        nlinarith
      · push_cast
        nlinarith
    · have he' : eligible p now u = false := by simpa using he
      have hup : userPay p now total u = 0 := by unfold userPay; rw [he']; rfl
      rw [hup]
      simp only [he', Bool.false_eq_true, if_false]
      refine ⟨?_, by linarith, ?_, ?_⟩
      · intro r hr
        simp only [List.map_cons, List.mem_cons] at hr
        rcases hr with rfl | hr
        · rw [hup]
        · exact i1 r hr
      · push_cast; linarith
      · push_cast; linarith

theorem eligCount_eq (p : Prog) (now : Int) (users : List User) :
    eligCount p now users = (users.filter (eligible p now)).length := by
  induction users with
  | nil => rfl
  | cons u us ih =>
    simp only [eligCount, List.filter_cons]
    by_cases he : eligible p now u = true
    · simp [he, ih]; omega
    · simp [he, ih]

theorem eligAmount_eq (p : Prog) (now : Int) (users : List User) :
    eligAmount p now users = sumL ((users.filter (eligible p now)).map (·.amt)) := by
  induction users with
  | nil => rfl
  | cons u us ih =>
    simp only [eligAmount, List.filter_cons]
    by_cases he : eligible p now u = true
    · simp [he, ih, sumL]
    · simp [he, ih]

/-- the bound in the decidable form the driver evaluates -/
theorem share_bound (p : Prog) (now total : Int) (users : List User)
    (ha : 0 ≤ p.avail) (hd : 0 < p.daysLeft) (ht : 0 < total) (hu : ∀ u ∈ users, 0 ≤ u.amt)
    (hsum : eligAmount p now users ≤ total) :
    shareBoundOk p (eligCount p now users) (sumL (users.map (userPay p now total))) = true := by
  have hP := P_pos
  obtain ⟨_, h0, h3, h4⟩ := share_sum_bound p now total users ha hd ht hu
  obtain ⟨hE0, _⟩ := epochRewards_bounds p ha hd
  unfold shareBoundOk
  simp only [decide_eq_true_eq]
  generalize eligShares p now total users = S at *
  generalize (eligCount p now users : Int) = n at *
  generalize eligAmount p now users = A at *
  generalize epochRewards p = E at *
  generalize sumL (users.map (userPay p now total)) = paid at *
  -- 2·S·total ≤ 2·A·P + n·total ≤ (2P + n)·total  ⇒  2·S ≤ 2P + n
  have h5 : total * (2 * S) ≤ total * (2 * Dec.P + n) := by nlinarith
  have h6 : 2 * S ≤ 2 * Dec.P + n := Int.le_of_mul_le_mul_left h5 ht
  have h7 : 2 * S * E ≤ (2 * Dec.P + n) * E := Int.mul_le_mul_of_nonneg_right h6 hE0
  linarith

/-! ## Lend arithmetic -/

theorem sumL_append (a b : List Int) : sumL (a ++ b) = sumL a + sumL b := by
  induction a with
  | nil => simp [sumL]
  | cons x xs ih => simp only [List.cons_append, sumL, ih]; omega

theorem lendPays_bound (ws : List Dec) (apr : Dec) (hw : ∀ w ∈ ws, 0 ≤ w) (ha : 0 ≤ apr) :
    (∀ r ∈ ws.map (fun w => posPart (Dec.truncateInt (Dec.mul w apr))), 0 ≤ r) ∧
    sumL (ws.map (fun w => posPart (Dec.truncateInt (Dec.mul w apr)))) * (2 * Dec.P * Dec.P)
      ≤ 2 * apr * sumL ws + (ws.length : Int) * Dec.P := by
  induction ws with
  | nil => simp [sumL]
  | cons w ws ih =>
    obtain ⟨i1, i2⟩ := ih (fun v hv => hw v (by simp [hv]))
    have hw0 : 0 ≤ w := hw w (by simp)
    obtain ⟨hr0, hr1⟩ := trunc_mul_bound w apr hw0 ha
    refine ⟨?_, ?_⟩
    · intro r hr
      simp only [List.map_cons, List.mem_cons] at hr
      rcases hr with rfl | hr
      · exact posPart_nonneg _
      · exact i1 r hr
    · rw [sumL_map_cons, posPart_eq _ hr0]
      simp only [sumL, List.length_cons]
      push_cast
      nlinarith

theorem sum_lt_trunc (ws : List Dec) (hw : ∀ w ∈ ws, 0 ≤ w) :
    sumL ws + (ws.length : Int) ≤ (sumL (ws.map Dec.truncateInt) + (ws.length : Int)) * Dec.P ∧
    sumL (ws.map Dec.truncateInt) * Dec.P ≤ sumL ws ∧ 0 ≤ sumL ws := by
  induction ws with
  | nil => simp [sumL]
  | cons w ws ih =>
    obtain ⟨i1, i2, i3⟩ := ih (fun v hv => hw v (by simp [hv]))
    have hw0 : 0 ≤ w := hw w (by simp)
    have h1 := lt_truncateInt_succ w hw0
    have h2 := truncateInt_mul_le w hw0
    rw [sumL_map_cons]
    simp only [sumL, List.length_cons]
    push_cast
    refine ⟨by nlinarith, by nlinarith, by linarith⟩

theorem lend_bound (ws : List Dec) (tot : Int) (daily : Dec) (hw : ∀ w ∈ ws, 0 ≤ w) (ht : 0 < tot) (hd : 0 ≤ daily) :
    (∀ r ∈ lendPays ws tot daily, 0 ≤ r) ∧ lendBoundOk ws tot daily (sumL (lendPays ws tot daily)) = true := by
  have hP := P_pos
  obtain ⟨ha0, ha1⟩ := quo_ofInt_bounds daily tot hd ht
  obtain ⟨h1, h2⟩ := lendPays_bound ws (Dec.quo daily (Dec.ofInt tot)) hw ha0
  obtain ⟨_, _, hs0⟩ := sum_lt_trunc ws hw
  unfold lendPays
  refine ⟨h1, ?_⟩
  unfold lendBoundOk
  simp only [decide_eq_true_eq]
  generalize sumL (ws.map (fun w => posPart (Dec.truncateInt (Dec.mul w (Dec.quo daily (Dec.ofInt tot)))))) = paid at *
  generalize Dec.quo daily (Dec.ofInt tot) = apr at *
  generalize (ws.length : Int) = n at *
  generalize sumL ws = W at *
  -- paid·2P² ≤ 2·apr·W + nP ; 2·apr·tot ≤ 2·daily + tot
  have e1 : paid * (2 * Dec.P * Dec.P) * tot ≤ (2 * apr * W + n * Dec.P) * tot := Int.mul_le_mul_of_nonneg_right h2 (le_of_lt ht)
  have e2 : 2 * apr * tot * W ≤ (2 * daily + tot) * W := Int.mul_le_mul_of_nonneg_right ha1 hs0
  nlinarith

/-! ## The accumulator of the lend loop -/

def PriceOk (pr : Price) : Prop := 0 ≤ pr.twa ∧ 0 < pr.dec

theorem value_nonneg (pr : Price) (amt : Int) (v : Dec) (hp : PriceOk pr) (ha : 0 ≤ amt) (h : value pr amt = some v) : 0 ≤ v := by
  have hP := P_pos
  unfold value at h
  split at h
  · cases h
  · split at h
    · cases h
    · injection h with h; subst h
      have hm : 0 ≤ Dec.mul (Dec.ofInt amt) (Dec.ofInt pr.twa) := by
        unfold Dec.mul Dec.ofInt
        exact chopRound_nonneg _ (by have := hp.1; positivity)
      exact (quo_ofInt_bounds _ pr.dec hm hp.2).1

def EnvOk (e : LendEnv) : Prop :=
  PriceOk e.asset ∧ PriceOk e.quote ∧ PriceOk e.base ∧ PriceOk e.reward ∧ ∀ b ∈ e.borrowers, 0 ≤ b.amt ∧ 0 ≤ b.x ∧ 0 ≤ b.y

theorem minD_nonneg (a b : Dec) (ha : 0 ≤ a) (hb : 0 ≤ b) : 0 ≤ minD a b := by
  unfold minD; split <;> assumption

theorem borrowerWeight_nonneg (e : LendEnv) (b : Borrower) (w : Dec) (he : EnvOk e) (hb : 0 ≤ b.amt ∧ 0 ≤ b.x ∧ 0 ≤ b.y)
    (h : borrowerWeight e b = some w) : 0 ≤ w := by
  obtain ⟨ha, hq, hbs, _, _⟩ := he
  unfold borrowerWeight at h
  split at h
  · cases h
  · split at h
    · cases h
    · rename_i bv hbv
      split at h
      · cases h
      · split at h
        · rename_i q s hq' hs'
          injection h with h; subst h
          have h1 := value_nonneg _ _ _ ha hb.1 hbv
          have h2 := value_nonneg _ _ _ hq hb.2.1 hq'
          have h3 := value_nonneg _ _ _ hbs hb.2.2 hs'
          exact minD_nonneg _ _ (Int.add_nonneg h2 h3) h1
        · cases h

def AccOk (a : Acc) : Prop := a.tot = sumL (a.ws.map Dec.truncateInt) ∧ ∀ w ∈ a.ws, 0 ≤ w

theorem accOk_iff (a : Acc) : accOk a = true ↔ AccOk a := by
  unfold accOk AccOk
  simp [List.all_eq_true]

theorem AccOk_empty : AccOk Acc.empty := by
  unfold AccOk Acc.empty; simp [sumL]

theorem AccOk_push (a : Acc) (w : Dec) (ha : AccOk a) (hw : 0 ≤ w) : AccOk (a.push w) := by
  obtain ⟨h1, h2⟩ := ha
  unfold Acc.push
  refine ⟨?_, ?_⟩
  · simp only [List.map_append, List.map_cons, List.map_nil, sumL_append, sumL]; omega
  · intro v hv
    simp only [List.mem_append, List.mem_singleton] at hv
    rcases hv with hv | rfl
    · exact h2 v hv
    · exact hw

theorem AccOk_pushAll (e : LendEnv) (he : EnvOk e) (bs : List Borrower) (hbs : ∀ b ∈ bs, 0 ≤ b.amt ∧ 0 ≤ b.x ∧ 0 ≤ b.y)
    (a : Acc) (ha : AccOk a) : AccOk (Acc.pushAll e a bs) := by
  induction bs generalizing a with
  | nil => exact ha
  | cons b bs ih =>
    simp only [Acc.pushAll]
    split
    · rename_i w hw
      exact ih (fun c hc => hbs c (by simp [hc])) _ (AccOk_push a w ha (borrowerWeight_nonneg e b w he (hbs b (by simp)) hw))
    · exact ih (fun c hc => hbs c (by simp [hc])) _ ha

/-- what `lendOne` does, as cases: either nothing is paid and the accumulator only grows consistently, or the payout is
`lendPays` of the NEW accumulator with a positive total and the daily value of the programme's available rewards -/
theorem lendOne_spec (p : Prog) (now : Int) (e : LendEnv) (a : Acc) (he : EnvOk e) (ha : AccOk a) :
    AccOk (lendOne p now e a).1 ∧
    (∀ pays, (lendOne p now e a).2.1 = .pay pays →
      p.active = true ∧ p.start < now ∧ (p.count : Int) < p.days ∧ 0 < (lendOne p now e a).1.tot ∧
      ∃ tr, value e.reward p.avail = some tr ∧
        pays = lendPays (lendOne p now e a).1.ws (lendOne p now e a).1.tot (lendDaily p tr)) ∧
    ((lendOne p now e a).2.1 = .off → p.active = true ∧ p.start < now ∧ ¬ (p.count : Int) < p.days) := by
  have hpush := AccOk_pushAll e he e.borrowers he.2.2.2.2 a ha
  unfold lendOne
  split
  · exact ⟨ha, (by intro _ h; cases h), (by intro h; cases h)⟩
  · split
    · exact ⟨ha, (by intro _ h; cases h), (by intro h; cases h)⟩
    · rename_i hact
      split
      · exact ⟨ha, (by intro _ h; cases h), (by intro h; cases h)⟩
      · rename_i hdue
        split
        · rename_i hc
          refine ⟨ha, (by intro _ h; cases h), ?_⟩
          intro _
          refine ⟨by simpa using hact, by simpa using hdue, hc⟩
        · rename_i hc
          split
          · exact ⟨ha, (by intro _ h; cases h), (by intro h; cases h)⟩
          · simp only
            split
            · exact ⟨hpush, (by intro _ h; cases h), (by intro h; cases h)⟩
            · split
              · exact ⟨hpush, (by intro _ h; cases h), (by intro h; cases h)⟩
              · rename_i tr htr
                split
                · exact ⟨hpush, (by intro _ h; cases h), (by intro h; cases h)⟩
                · rename_i htot
                  refine ⟨hpush, ?_, (by intro h; cases h)⟩
                  intro pays h
                  injection h with h
                  refine ⟨by simpa using hact, by simpa using hdue, by simpa using hc, by simp only; omega, tr, htr, h.symm⟩

/-- **every programme handled in the block pays from a consistent accumulator** -/
theorem lendBlock_spec (now : Int) (pes : List (Prog × LendEnv)) (a0 : Acc) (ha0 : AccOk a0)
    (he : ∀ pe ∈ pes, EnvOk pe.2) :
    ∀ ao ∈ lendBlock now pes a0, AccOk ao.1 ∧
      ∀ pays, ao.2 = .pay pays → ∃ pe ∈ pes, pe.1.active = true ∧ pe.1.start < now ∧ (pe.1.count : Int) < pe.1.days ∧
        0 < ao.1.tot ∧ ∃ tr, value pe.2.reward pe.1.avail = some tr ∧ pays = lendPays ao.1.ws ao.1.tot (lendDaily pe.1 tr) := by
  induction pes generalizing a0 with
  | nil => intro ao h; simp [lendBlock] at h
  | cons pe rest ih =>
    obtain ⟨p, e⟩ := pe
    intro ao hao
    have hs := lendOne_spec p now e a0 (he (p, e) (by simp)) ha0
    simp only [lendBlock] at hao
    split at hao
    · rename_i a' o heq
      rw [heq] at hs
      simp only at hs
      simp only [List.mem_cons, List.mem_map] at hao
      rcases hao with rfl | ⟨_, _, rfl⟩
      · refine ⟨hs.1, ?_⟩
        intro pays hp
        obtain ⟨h1, h2, h3, h4, tr, h5, h6⟩ := hs.2.1 pays hp
        exact ⟨(p, e), by simp, h1, h2, h3, h4, tr, h5, h6⟩
      · exact ⟨hs.1, (by intro _ h; cases h)⟩
    · rename_i a' o heq
      rw [heq] at hs
      simp only at hs
      simp only [List.mem_cons] at hao
      rcases hao with rfl | hao
      · refine ⟨hs.1, ?_⟩
        intro pays hp
        obtain ⟨h1, h2, h3, h4, tr, h5, h6⟩ := hs.2.1 pays hp
        exact ⟨(p, e), by simp, h1, h2, h3, h4, tr, h5, h6⟩
      · obtain ⟨i1, i2⟩ := ih a' hs.1 (fun q hq => he q (by simp [hq])) ao hao
        refine ⟨i1, ?_⟩
        intro pays hp
        obtain ⟨q, hq, rest'⟩ := i2 pays hp
        exact ⟨q, by simp [hq], rest'⟩

theorem lendDaily_nonneg (p : Prog) (tr : Dec) (ht : 0 ≤ tr) (hd : 0 < p.daysLeft) : 0 ≤ lendDaily p tr :=
  (quo_ofInt_bounds tr p.daysLeft ht hd).1

/-! ## A programme's life -/

/-- a visit as the distribution functions can produce it -/
def ValidVisit (p : Prog) (now : Int) : Outcome → Prop
  | .skip => True
  | .off => p.active = true ∧ p.start < now ∧ ¬ (p.count : Int) < p.days
  | .pay pays => p.active = true ∧ p.start < now ∧ (p.count : Int) < p.days ∧ ∀ r ∈ pays, 0 ≤ r

def ValidHist : Prog → List (Int × Outcome) → Prop
  | _, [] => True
  | p, (now, o) :: rest => ValidVisit p now o ∧ ValidHist (p.apply now o) rest

set_option linter.unnecessarySeqFocus false in
theorem runProg_booking (p : Prog) (hist : List (Int × Outcome)) :
    (runProg p hist).avail = p.avail - paidTotal hist ∧ (runProg p hist).total = p.total ∧ (runProg p hist).days = p.days := by
  induction hist generalizing p with
  | nil => simp [runProg, paidTotal]
  | cons v rest ih =>
    obtain ⟨now, o⟩ := v
    obtain ⟨h1, h2, h3⟩ := ih (p.apply now o)
    simp only [runProg]
    rw [h1, h2, h3]
    cases o <;> simp only [Prog.apply, paidTotal] <;> simp <;> omega

theorem runProg_count (p : Prog) (hist : List (Int × Outcome)) (hv : ValidHist p hist) (hc : (p.count : Int) ≤ p.days) :
    ((runProg p hist).count : Int) ≤ p.days ∧ p.count ≤ (runProg p hist).count := by
  induction hist generalizing p with
  | nil => exact ⟨hc, Nat.le_refl _⟩
  | cons v rest ih =>
    obtain ⟨now, o⟩ := v
    obtain ⟨hv1, hv2⟩ := hv
    simp only [runProg]
    cases o with
    | skip => exact ih p hv2 hc
    | off =>
      have := ih _ hv2 (by simpa [Prog.apply] using hc)
      simpa [Prog.apply] using this
    | pay pays =>
      obtain ⟨_, _, h3, _⟩ := hv1
      have := ih _ hv2 (by simp only [Prog.apply]; push_cast; omega)
      simp only [Prog.apply] at this ⊢
      exact ⟨this.1, by omega⟩

theorem sumL_nonneg' (l : List Int) (h : ∀ x ∈ l, 0 ≤ x) : 0 ≤ sumL l := sumL_nonneg l h

/-- every booked epoch within the literal cap ⇒ the programme never goes negative -/
def CapHist : Prog → List (Int × Outcome) → Prop
  | _, [] => True
  | p, (now, .pay pays) :: rest => capOk p (sumL pays) = true ∧ CapHist (p.apply now (.pay pays)) rest
  | p, (now, o) :: rest => CapHist (p.apply now o) rest

theorem capOk_keeps_nonneg (p : Prog) (paid : Int) (ha : 0 ≤ p.avail) (hd : 1 ≤ p.daysLeft) (h : capOk p paid = true) :
    0 ≤ p.avail - paid ∧ paid ≤ p.avail := by
  unfold capOk at h
  simp only [Bool.or_eq_true, Bool.and_eq_true, decide_eq_true_eq] at h
  rcases h with rfl | ⟨h0, h1⟩
  · omega
  · have : paid * 1 ≤ paid * p.daysLeft := Int.mul_le_mul_of_nonneg_left hd h0
    omega

theorem runProg_nonneg (p : Prog) (hist : List (Int × Outcome)) (hv : ValidHist p hist) (hcap : CapHist p hist)
    (ha : 0 ≤ p.avail) : 0 ≤ (runProg p hist).avail := by
  induction hist generalizing p with
  | nil => exact ha
  | cons v rest ih =>
    obtain ⟨now, o⟩ := v
    obtain ⟨hv1, hv2⟩ := hv
    simp only [runProg]
    cases o with
    | skip => exact ih p hv2 hcap ha
    | off => exact ih _ hv2 hcap (by simpa [Prog.apply] using ha)
    | pay pays =>
      obtain ⟨hc1, hc2⟩ := hcap
      obtain ⟨_, _, h3, _⟩ := hv1
      have hd : 1 ≤ p.daysLeft := by unfold Prog.daysLeft; omega
      exact ih _ hv2 hc2 (by simp only [Prog.apply]; exact (capOk_keeps_nonneg p _ ha hd hc1).1)

/-! ## shareOutcome produces valid visits -/

theorem shareOutcome_valid (p : Prog) (now total : Int) (users : List User) (o : Outcome)
    (h : shareOutcome p now total users = .ok o) :
    (o = .off → p.active = true ∧ p.start < now ∧ ¬ (p.count : Int) < p.days) ∧
    (∀ pays, o = .pay pays → p.active = true ∧ p.start < now ∧ (p.count : Int) < p.days ∧
      pays = users.map (userPay p now total)) := by
  unfold shareOutcome at h
  split at h
  · injection h with h; subst h; exact ⟨(by intro h; cases h), (by intro _ h; cases h)⟩
  · rename_i hact
    split at h
    · injection h with h; subst h; exact ⟨(by intro h; cases h), (by intro _ h; cases h)⟩
    · rename_i hdue
      split at h
      · rename_i hc
        injection h with h; subst h
        exact ⟨fun _ => ⟨by simpa using hact, by simpa using hdue, hc⟩, (by intro _ h; cases h)⟩
      · rename_i hc
        split at h
        · cases h
        · injection h with h; subst h
          refine ⟨(by intro h; cases h), ?_⟩
          intro pays hp
          injection hp with hp
          exact ⟨by simpa using hact, by simpa using hdue, by simpa using hc, hp.symm⟩

/-! ## par price: the value of an amount is the amount -/

theorem chopRound_mul_P (x : Int) (hx : 0 ≤ x) : Dec.chopRound (x * Dec.P) = x := by
  have hP := P_pos
  unfold Dec.chopRound
  rw [if_neg (by have : 0 ≤ x * Dec.P := by positivity
                 omega)]
  unfold Dec.chopRoundNonneg
  have h0 : 0 ≤ x * Dec.P := by positivity
  rw [Int.tdiv_eq_ediv_of_nonneg h0, Int.tmod_eq_emod_of_nonneg h0]
  simp [Int.mul_ediv_cancel _ (ne_of_gt hP)]

theorem value_at_par (pr : Price) (amt : Int) (hf : pr.found = true) (ht : 0 < pr.twa) (hpar : pr.twa = pr.dec) (ha : 0 ≤ amt) :
    value pr amt = some (Dec.ofInt amt) := by
  have hP := P_pos
  unfold value
  rw [if_neg (by simp [hf]), if_neg (by omega)]
  congr 1
  unfold Dec.mul Dec.quo Dec.ofInt Dec.PP
  have e1 : amt * Dec.P * (pr.twa * Dec.P) = (amt * pr.twa * Dec.P) * Dec.P := by ring
  rw [e1, chopRound_mul_P _ (by positivity), ← hpar]
  have e2 : amt * pr.twa * Dec.P * (Dec.P * Dec.P) = (amt * Dec.P * Dec.P) * (pr.twa * Dec.P) := by ring
  have hd : pr.twa * Dec.P ≠ 0 := by positivity
  rw [e2, Int.tdiv_eq_ediv_of_nonneg (by positivity), Int.mul_ediv_cancel _ hd]
  exact chopRound_mul_P _ (by positivity)

theorem userPay_nonneg (p : Prog) (now total : Int) (u : User) : 0 ≤ userPay p now total u := by
  unfold userPay; split
  · exact posPart_nonneg _
  · exact Int.le_refl 0

end Comdex.ExtReward
