import Comdex.Model.MapLoops
/-! Helper lemmas for C16: permutation invariance of folds, sorting contract, checked sums. Core Lean only. -/
namespace Comdex.MapLoops

/-- A fold whose body commutes on the entries of the list (for every intermediate state) does not depend on the
iteration order. (Core `List.Perm.foldl_eq'`, restated for `runLoop`.) -/
theorem runLoop_perm_of_comm {σ ε : Type} (body : σ → ε → σ) {l l' : List ε} (h : l.Perm l')
    (comm : ∀ x ∈ l, ∀ y ∈ l, ∀ z, body (body z x) y = body (body z y) x) (init : σ) :
    runLoop body init l = runLoop body init l' :=
  List.Perm.foldl_eq' h comm init

/-- appending a projection of every entry = `map` -/
theorem foldl_append_map {ε α : Type} (f : ε → α) (l : List ε) (acc : List α) :
    l.foldl (fun a e => a ++ [f e]) acc = acc ++ l.map f := by
  induction l generalizing acc with
  | nil => simp
  | cons x xs ih => simp [List.foldl_cons, ih]

/-- two sorted rearrangements of permutation-equivalent inputs are the same list, for an antisymmetric order -/
theorem sort_eq_of_perm {α : Type} {le : α → α → Prop} (antisymm : ∀ a b, le a b → le b a → a = b)
    {sort : List α → List α} (hs : IsSort le sort) {l l' : List α} (h : l.Perm l') : sort l = sort l' :=
  List.Perm.eq_of_pairwise (le := le) (fun a b _ _ => antisymm a b) (hs.sorted l) (hs.sorted l')
    (((hs.perm l).trans h).trans (hs.perm l').symm)

/-! ### core `mergeSort` satisfies the sorting contract (instances used by the driver and the examples) -/

theorem isSort_goSortStrings : IsSort (fun a b : String => a ≤ b) ModuleAccountAddrs.goSortStrings where
  perm l := List.mergeSort_perm l _
  sorted l := by
    have h := List.pairwise_mergeSort (le := fun a b : String => decide (a ≤ b))
      (fun a b c hab hbc => by
        simp only [decide_eq_true_eq] at *
        exact String.le_trans hab hbc)
      (fun a b => by
        simp only [Bool.or_eq_true, decide_eq_true_eq]
        exact String.le_total a b) l
    exact h.imp (fun hab => by simpa using hab)

theorem isSort_goSortDesc : IsSort OrderBookString.le OrderBookString.goSortDesc where
  perm l := List.mergeSort_perm l _
  sorted l := by
    have h := List.pairwise_mergeSort (le := fun a b : Int => decide (a ≥ b))
      (fun a b c hab hbc => by
        simp only [decide_eq_true_eq] at *
        exact Int.le_trans hbc hab)
      (fun a b => by
        simp only [Bool.or_eq_true, decide_eq_true_eq]
        omega) l
    exact h.imp (fun hab => by simpa [OrderBookString.le] using hab)

/-! ### checked sum of non-negative decimals -/

def sumSnd : List (Nat × Int) → Int
  | [] => 0
  | e :: es => e.2 + sumSnd es

theorem sumSnd_perm {l l' : List (Nat × Int)} (h : l.Perm l') : sumSnd l = sumSnd l' := by
  induction h with
  | nil => rfl
  | cons x _ ih => simp only [sumSnd, ih]
  | swap x y l => simp only [sumSnd]; omega
  | trans _ _ ih1 ih2 => exact ih1.trans ih2

theorem sumSnd_nonneg {l : List (Nat × Int)} (h : ∀ e ∈ l, e.2 ≥ 0) : sumSnd l ≥ 0 := by
  induction l with
  | nil => simp [sumSnd]
  | cons x xs ih =>
    have hx := h x (by simp)
    have hxs := ih (fun e he => h e (by simp [he]))
    simp only [sumSnd]
    omega

theorem foldl_body_none (l : List (Nat × Int)) : l.foldl SwapFeeTotal.body none = none := by
  induction l with
  | nil => rfl
  | cons x xs ih => simpa [List.foldl_cons, SwapFeeTotal.body] using ih

theorem body_some (a : Int) (e : Nat × Int) :
    SwapFeeTotal.body (some a) e = if Dec.fits (a + e.2) = true then some (a + e.2) else none := rfl

/-- closed form of the checked sum: with non-negative summands every partial sum is bounded by the total, so the
loop panics iff the TOTAL does not fit -/
theorem foldl_body_closed (l : List (Nat × Int)) (h : ∀ e ∈ l, e.2 ≥ 0) (a : Int) (ha : a ≥ 0)
    (hfa : Dec.fits a = true) :
    l.foldl SwapFeeTotal.body (some a) = if Dec.fits (a + sumSnd l) = true then some (a + sumSnd l) else none := by
  induction l generalizing a with
  | nil => simp [sumSnd, hfa]
  | cons x xs ih =>
    have hx := h x (by simp)
    have hxs : ∀ e ∈ xs, e.2 ≥ 0 := fun e he => h e (by simp [he])
    have hs := sumSnd_nonneg hxs
    have hcons : a + sumSnd (x :: xs) = a + x.2 + sumSnd xs := by simp only [sumSnd]; omega
    rw [List.foldl_cons, body_some, hcons]
    by_cases hf : Dec.fits (a + x.2) = true
    · rw [if_pos hf, ih hxs (a + x.2) (by omega) hf]
    · rw [if_neg hf, foldl_body_none]
      have : ¬ Dec.fits (a + x.2 + sumSnd xs) = true := by
        simp only [Dec.fits, decide_eq_true_eq] at hf ⊢
        omega
      rw [if_neg this]

/-! ### keyed, independent updates -/

/-- in an iteration order of a Go map an entry is determined by its key -/
theorem eq_of_mem_of_distinctKeys {κ ν : Type} {l : List (κ × ν)} (hd : DistinctKeys l) {x y : κ × ν}
    (hx : x ∈ l) (hy : y ∈ l) (hk : x.1 = y.1) : x = y := by
  unfold DistinctKeys at hd
  induction l with
  | nil => cases hx
  | cons a as ih =>
    simp only [List.map_cons, List.nodup_cons, List.mem_map] at hd
    simp only [List.mem_cons] at hx hy
    rcases hx with rfl | hx <;> rcases hy with rfl | hy
    · rfl
    · exact absurd ⟨y, hy, hk.symm⟩ hd.1
    · exact absurd ⟨x, hx, hk⟩ hd.1
    · exact ih hd.2 hx hy

theorem setAt_comm {κ : Type} [DecidableEq κ] (f : κ → FillOrders.Order) {k1 k2 : κ} (hne : k1 ≠ k2)
    (v1 v2 : FillOrders.Order) :
    FillOrders.setAt (FillOrders.setAt f k1 v1) k2 v2 = FillOrders.setAt (FillOrders.setAt f k2 v2) k1 v1 := by
  funext x
  simp only [FillOrders.setAt]
  by_cases h1 : x = k1 <;> by_cases h2 : x = k2
  · exact absurd (h1.symm.trans h2) hne
  · subst h1; simp [hne]
  · subst h2; simp [Ne.symm hne]
  · simp [h1, h2]

theorem setAt_ne {κ : Type} [DecidableEq κ] (f : κ → FillOrders.Order) {k1 k2 : κ} (hne : k1 ≠ k2)
    (v : FillOrders.Order) : FillOrders.setAt f k1 v k2 = f k2 := by
  simp [FillOrders.setAt, Ne.symm hne]

/-- two iterations on DIFFERENT order objects commute, panics included -/
theorem body_comm {κ : Type} [DecidableEq κ] (price : Dec) (z : Option (FillOrders.St κ)) (x y : κ × Int)
    (hne : x.1 ≠ y.1) :
    FillOrders.body price (FillOrders.body price z x) y = FillOrders.body price (FillOrders.body price z y) x := by
  cases z with
  | none => rfl
  | some st =>
    simp only [FillOrders.body]
    cases hx : FillOrders.fillOrder price (st.orders x.1) x.2 with
    | none =>
      cases hy : FillOrders.fillOrder price (st.orders y.1) y.2 with
      | none => rfl
      | some r => simp [setAt_ne st.orders (Ne.symm hne), hx]
    | some r =>
      cases hy : FillOrders.fillOrder price (st.orders y.1) y.2 with
      | none => simp [setAt_ne st.orders hne, hy]
      | some r' =>
        simp only [setAt_ne st.orders hne, setAt_ne st.orders (Ne.symm hne), hx, hy]
        rw [setAt_comm st.orders hne]
        congr 2
        omega

end Comdex.MapLoops
