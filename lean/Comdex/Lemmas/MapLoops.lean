import Comdex.Model.MapLoops
/-! Helper lemmas for C16: permutation invariance of folds, sorting contract, checked sums. Core Lean only. -/
namespace Comdex.MapLoops

/-- A fold whose body commutes on the entries of the list (for every intermediate state) does not depend on the
iteration order. (Core `List.Perm.foldl_eq'`, restated for `runLoop`.) -/
theorem runLoop_perm_of_comm {σ ε : Type} (body : σ → ε → σ) {l l' : List ε} (h : l.Perm l')
    (comm : ∀ x ∈ l, ∀ y ∈ l, ∀ z, body (body z x) y = body (body z y) x) (init : σ) :
    runLoop body init l = runLoop body init l' :=
  List.Perm.foldl_eq' h comm init

/-- appending a projection of every entry = `map` -/
theorem foldl_append_map {ε α : Type} (f : ε → α) (l : List ε) (acc : List α) :
    l.foldl (fun a e => a ++ [f e]) acc = acc ++ l.map f := by
  induction l generalizing acc with
  | nil => simp
  | cons x xs ih => simp [List.foldl_cons, ih]

/-- two sorted rearrangements of permutation-equivalent inputs are the same list, for an antisymmetric order -/
theorem sort_eq_of_perm {α : Type} {le : α → α → Prop} (antisymm : ∀ a b, le a b → le b a → a = b)
    {sort : List α → List α} (hs : IsSort le sort) {l l' : List α} (h : l.Perm l') : sort l = sort l' :=
  List.Perm.eq_of_pairwise (le := le) (fun a b _ _ => antisymm a b) (hs.sorted l) (hs.sorted l')
    (((hs.perm l).trans h).trans (hs.perm l').symm)

/-! ### core `mergeSort` satisfies the sorting contract (instances used by the driver and the examples) -/

theorem isSort_goSortStrings : IsSort (fun a b : String => a ≤ b) ModuleAccountAddrs.goSortStrings where
  perm l := List.mergeSort_perm l _
  sorted l := by
    have h := List.pairwise_mergeSort (le := fun a b : String => decide (a ≤ b))
      (fun a b c hab hbc => by
        simp only [decide_eq_true_eq] at *
        exact String.le_trans hab hbc)
      (fun a b => by
        simp only [Bool.or_eq_true, decide_eq_true_eq]
        exact String.le_total a b) l
    exact h.imp (fun hab => by simpa using hab)

theorem isSort_goSortDesc : IsSort OrderBookString.le OrderBookString.goSortDesc where
  perm l := List.mergeSort_perm l _
  sorted l := by
    have h := List.pairwise_mergeSort (le := fun a b : Int => decide (a ≥ b))
      (fun a b c hab hbc => by
        simp only [decide_eq_true_eq] at *
        exact Int.le_trans hbc hab)
      (fun a b => by
        simp only [Bool.or_eq_true, decide_eq_true_eq]
        omega) l
    exact h.imp (fun hab => by simpa [OrderBookString.le] using hab)

/-! ### `HasPriority` is a strict total order on orders with distinct (kind, id) -/
namespace SortOrders

theorem hasPriority_irrefl (a : Key) : hasPriority a a = false := by
  cases a with
  | mk amt p i => cases p <;> simp [hasPriority]

theorem hasPriority_asymm (a b : Key) (h : hasPriority a b = true) : hasPriority b a = false := by
  cases a with
  | mk aa ap ai =>
  cases b with
  | mk ba bp bi =>
    simp only [hasPriority] at h ⊢
    by_cases hab : aa = ba
    · subst hab
      cases ap <;> cases bp <;> simp_all <;> omega
    · have hba : ba ≠ aa := fun e => hab e.symm
      simp_all
      omega

/-- trichotomy: two orders with different (kind, id) are never tied -/
theorem hasPriority_total (a b : Key) (hne : ident a ≠ ident b) : hasPriority a b = true ∨ hasPriority b a = true := by
  cases a with
  | mk aa ap ai =>
  cases b with
  | mk ba bp bi =>
    simp only [hasPriority, ident] at hne ⊢
    by_cases hab : aa = ba
    · subst hab
      cases ap <;> cases bp <;> simp_all <;> omega
    · have hba : ba ≠ aa := fun e => hab e.symm
      simp_all
      omega

theorem hasPriority_trans (a b c : Key) (hab : hasPriority a b = true) (hbc : hasPriority b c = true) :
    hasPriority a c = true := by
  cases a with
  | mk aa ap ai =>
  cases b with
  | mk ba bp bi =>
  cases c with
  | mk ca cp ci =>
    simp only [hasPriority] at hab hbc ⊢
    by_cases h1 : aa = ba <;> by_cases h2 : ba = ca <;> by_cases h3 : aa = ca
    all_goals (try subst h1) <;> (try subst h2) <;> (try subst h3)
    all_goals cases ap <;> cases bp <;> cases cp <;> simp_all <;> omega

/-- full trichotomy on keys (lexicographic: amount descending, kind, id) -/
theorem hasPriority_trichotomy (a b : Key) : a = b ∨ hasPriority a b = true ∨ hasPriority b a = true := by
  by_cases hi : ident a = ident b
  · by_cases ha : a.amount = b.amount
    · left
      cases a; cases b
      simp only [ident, Prod.mk.injEq] at hi
      simp_all
    · right
      have hb : ¬ b.amount = a.amount := fun e => ha e.symm
      simp only [hasPriority, ne_eq, ha, hb, not_false_eq_true, if_true, decide_eq_true_eq]
      omega
  · right; exact hasPriority_total a b hi

/-- "not after" (the weak order a sort establishes) is transitive -/
theorem notAfter_trans (a b c : Key) (hab : hasPriority b a = false) (hbc : hasPriority c b = false) :
    hasPriority c a = false := by
  cases hca : hasPriority c a
  · rfl
  · exfalso
    rcases hasPriority_trichotomy a b with e | h | h
    · subst e; rw [hca] at hbc; cases hbc
    · rcases hasPriority_trichotomy b c with e | h' | h'
      · subst e; rw [hca] at hab; cases hab
      · have := hasPriority_trans a b c h h'
        have := hasPriority_asymm a c this
        rw [hca] at this; cases this
      · rw [h'] at hbc; cases hbc
    · rw [h] at hab; cases hab

end SortOrders

/-- entries with pairwise distinct images under `f` are determined by their image -/
theorem eq_of_mem_of_nodup_map {α β : Type} (f : α → β) {l : List α} (hd : (l.map f).Nodup) {x y : α}
    (hx : x ∈ l) (hy : y ∈ l) (h : f x = f y) : x = y := by
  induction l with
  | nil => cases hx
  | cons a as ih =>
    simp only [List.map_cons, List.nodup_cons, List.mem_map, not_exists, not_and] at hd
    rcases List.mem_cons.mp hx with rfl | hx' <;> rcases List.mem_cons.mp hy with rfl | hy'
    · rfl
    · exact absurd h.symm (hd.1 y hy')
    · exact absurd h (hd.1 x hx')
    · exact ih hd.2 hx' hy'

/-! ### checked sum of non-negative decimals -/

def sumSnd : List (Nat × Int) → Int
  | [] => 0
  | e :: es => e.2 + sumSnd es

theorem sumSnd_perm {l l' : List (Nat × Int)} (h : l.Perm l') : sumSnd l = sumSnd l' := by
  induction h with
  | nil => rfl
  | cons x _ ih => simp only [sumSnd, ih]
  | swap x y l => simp only [sumSnd]; omega
  | trans _ _ ih1 ih2 => exact ih1.trans ih2

theorem sumSnd_nonneg {l : List (Nat × Int)} (h : ∀ e ∈ l, e.2 ≥ 0) : sumSnd l ≥ 0 := by
  induction l with
  | nil => simp [sumSnd]
  | cons x xs ih =>
    have hx := h x (by simp)
    have hxs := ih (fun e he => h e (by simp [he]))
    simp only [sumSnd]
    omega

theorem foldl_body_none (l : List (Nat × Int)) : l.foldl SwapFeeTotal.body none = none := by
  induction l with
  | nil => rfl
  | cons x xs ih => simpa [List.foldl_cons, SwapFeeTotal.body] using ih

theorem body_some (a : Int) (e : Nat × Int) :
    SwapFeeTotal.body (some a) e = if Dec.fits (a + e.2) = true then some (a + e.2) else none := rfl

/-- closed form of the checked sum: with non-negative summands every partial sum is bounded by the total, so the
loop panics iff the TOTAL does not fit -/
theorem foldl_body_closed (l : List (Nat × Int)) (h : ∀ e ∈ l, e.2 ≥ 0) (a : Int) (ha : a ≥ 0)
    (hfa : Dec.fits a = true) :
    l.foldl SwapFeeTotal.body (some a) = if Dec.fits (a + sumSnd l) = true then some (a + sumSnd l) else none := by
  induction l generalizing a with
  | nil => simp [sumSnd, hfa]
  | cons x xs ih =>
    have hx := h x (by simp)
    have hxs : ∀ e ∈ xs, e.2 ≥ 0 := fun e he => h e (by simp [he])
    have hs := sumSnd_nonneg hxs
    have hcons : a + sumSnd (x :: xs) = a + x.2 + sumSnd xs := by simp only [sumSnd]; omega
    rw [List.foldl_cons, body_some, hcons]
    by_cases hf : Dec.fits (a + x.2) = true
    · rw [if_pos hf, ih hxs (a + x.2) (by omega) hf]
    · rw [if_neg hf, foldl_body_none]
      have : ¬ Dec.fits (a + x.2 + sumSnd xs) = true := by
        simp only [Dec.fits, decide_eq_true_eq] at hf ⊢
        omega
      rw [if_neg this]

/-! ### keyed, independent updates -/

/-- in an iteration order of a Go map an entry is determined by its key -/
theorem eq_of_mem_of_distinctKeys {κ ν : Type} {l : List (κ × ν)} (hd : DistinctKeys l) {x y : κ × ν}
    (hx : x ∈ l) (hy : y ∈ l) (hk : x.1 = y.1) : x = y := by
  unfold DistinctKeys at hd
  induction l with
  | nil => cases hx
  | cons a as ih =>
    simp only [List.map_cons, List.nodup_cons, List.mem_map] at hd
    simp only [List.mem_cons] at hx hy
    rcases hx with rfl | hx <;> rcases hy with rfl | hy
    · rfl
    · exact absurd ⟨y, hy, hk.symm⟩ hd.1
    · exact absurd ⟨x, hx, hk⟩ hd.1
    · exact ih hd.2 hx hy

theorem setAt_comm {κ : Type} [DecidableEq κ] (f : κ → FillOrders.Order) {k1 k2 : κ} (hne : k1 ≠ k2)
    (v1 v2 : FillOrders.Order) :
    FillOrders.setAt (FillOrders.setAt f k1 v1) k2 v2 = FillOrders.setAt (FillOrders.setAt f k2 v2) k1 v1 := by
  funext x
  simp only [FillOrders.setAt]
  by_cases h1 : x = k1 <;> by_cases h2 : x = k2
  · exact absurd (h1.symm.trans h2) hne
  · subst h1; simp [hne]
  · subst h2; simp [Ne.symm hne]
  · simp [h1, h2]

theorem setAt_ne {κ : Type} [DecidableEq κ] (f : κ → FillOrders.Order) {k1 k2 : κ} (hne : k1 ≠ k2)
    (v : FillOrders.Order) : FillOrders.setAt f k1 v k2 = f k2 := by
  simp [FillOrders.setAt, Ne.symm hne]

/-- two iterations on DIFFERENT order objects commute, panics included -/
theorem body_comm {κ : Type} [DecidableEq κ] (price : Dec) (z : Option (FillOrders.St κ)) (x y : κ × Int)
    (hne : x.1 ≠ y.1) :
    FillOrders.body price (FillOrders.body price z x) y = FillOrders.body price (FillOrders.body price z y) x := by
  cases z with
  | none => rfl
  | some st =>
    simp only [FillOrders.body]
    cases hx : FillOrders.fillOrder price (st.orders x.1) x.2 with
    | none =>
      cases hy : FillOrders.fillOrder price (st.orders y.1) y.2 with
      | none => rfl
      | some r => simp [setAt_ne st.orders (Ne.symm hne), hx]
    | some r =>
      cases hy : FillOrders.fillOrder price (st.orders y.1) y.2 with
      | none => simp [setAt_ne st.orders hne, hy]
      | some r' =>
        simp only [setAt_ne st.orders hne, setAt_ne st.orders (Ne.symm hne), hx, hy]
        rw [setAt_comm st.orders hne]
        congr 2
        omega

end Comdex.MapLoops
