import Comdex.Model.VaultAccrual
import Comdex.Lemmas.AccrualErr
/-! Lemmas for the state-level accrual theorems of C18 (vault stability fee). -/
namespace Comdex.VaultAccrual
open Comdex Comdex.Accrual

theorem calcRewards_eq_ok (n : Int) (lsr : Dec) (s : Int) (p : Int) (d : Dec)
    (h : calcRewards n lsr s (some p) = .ok d) : d = interestOfPow p (aF n) ∧ 0 ≤ s := by
  unfold calcRewards at h
  split at h
  · exact absurd h (by simp)
  · rename_i hs
    split at h
    · exact absurd h (by simp)
    · simp only [] at h
      split at h
      · exact absurd h (by simp)
      · split at h
        · injection h with h; exact ⟨h.symm, not_lt.mp hs⟩
        · exact absurd h (by simp)

/-- an active calculation: what it returns, in terms of the accrued amount `x` -/
theorem calcInterest_active (s : St) (ctx : Ctx) (debt bh bt : Int) (pw : Option Int) (s' : St) (ha : Active s)
    (h : calcInterest s ctx debt bh bt pw = .ok s') :
    ∃ x, calcRewards debt s.pair.fee (ctx.now - since s.pair.bt bh bt) pw = .ok x ∧
      s' = { s with vault := (book s.vault s.tracker x ctx.height ctx.now).1,
                    tracker := some (book s.vault s.tracker x ctx.height ctx.now).2 } := by
  obtain ⟨a1, a2, a3⟩ := ha
  unfold calcInterest at h
  simp only [a1, a3, Bool.not_true, Bool.false_eq_true, if_false, Bool.or_false, decide_eq_true_eq, a2] at h
  split at h
  · rename_i x hx
    injection h with h
    exact ⟨x, hx, by rw [← h, a1]⟩
  · exact absurd h (by simp)
  · exact absurd h (by simp)

/-- booking conserves: whole units on the vault plus the tracker grow by exactly the accrued amount; the tracker stays in [0,1) -/
theorem book_spec (v : Vault) (tr : Option Dec) (x : Dec) (h t : Int) (h0 : 0 ≤ tr.getD 0 + x) :
    (book v tr x h t).1.ia * Dec.P + (book v tr x h t).2 = v.ia * Dec.P + tr.getD 0 + x ∧
    0 ≤ (book v tr x h t).2 ∧ (book v tr x h t).2 < Dec.one ∧
    (book v tr x h t).1.bh = h ∧ (book v tr x h t).1.bt = t ∧ (book v tr x h t).1.amountOut = v.amountOut ∧
    v.ia ≤ (book v tr x h t).1.ia := by
  obtain ⟨a, b, c, d⟩ := trackerStep_spec (tr.getD 0) x h0
  unfold book
  simp only []
  refine ⟨?_, b, c, trivial, trivial, trivial, by linarith⟩
  have : (v.ia + (trackerStep (tr.getD 0) x).1) * Dec.P = v.ia * Dec.P + (trackerStep (tr.getD 0) x).1 * Dec.P := by ring
  rw [this]; linarith

/-- one active calculation with the power function of `ops`: it books exactly `interest`, renews the stamp, leaves the rest -/
theorem calcWith_active (ops : FloatOps) (s : St) (ctx : Ctx) (debt bh bt : Int) (s' : St)
    (ha : Active s) (hf : 0 ≤ s.pair.fee) (hd : 0 ≤ debt) (htr : 0 ≤ s.tracker.getD 0)
    (h : calcWith ops s ctx debt bh bt = .ok s') :
    0 ≤ ctx.now - since s.pair.bt bh bt ∧
    booked s' = booked s + interest ops debt s.pair.fee (ctx.now - since s.pair.bt bh bt) ∧
    s'.vault.bh = ctx.height ∧ s'.vault.bt = ctx.now ∧ s'.pair = s.pair ∧ s'.appWl = s.appWl ∧
    s'.vault.amountOut = s.vault.amountOut ∧ s.vault.ia ≤ s'.vault.ia ∧
    0 ≤ s'.tracker.getD 0 ∧ s'.tracker.getD 0 < Dec.one := by
  obtain ⟨x, hx, hs'⟩ := calcInterest_active s ctx debt bh bt _ s' ha h
  obtain ⟨ex, hsec⟩ := calcRewards_eq_ok _ _ _ _ _ hx
  have hx0 : 0 ≤ x := by
    rw [ex]; exact interestOfPow_nonneg _ _ (ops.pow_ge_one _ _ hf hsec) (aF_nonneg debt hd)
  obtain ⟨b1, b2, b3, b4, b5, b6, b7⟩ := book_spec s.vault s.tracker x ctx.height ctx.now (Int.add_nonneg htr hx0)
  subst hs'
  refine ⟨hsec, ?_, b4, b5, rfl, rfl, b6, b7, b2, b3⟩
  unfold booked interest
  simp only [Option.getD_some]
  rw [← ex]; linarith

/-- after an active calculation at a non-zero height the flag is consumed: the next interval starts where this one ended -/
theorem next_interval_starts_here (ops : FloatOps) (s : St) (ctx : Ctx) (debt bh bt : Int) (s' : St)
    (ha : Active s) (hf : 0 ≤ s.pair.fee) (hd : 0 ≤ debt) (htr : 0 ≤ s.tracker.getD 0) (hh : ctx.height ≠ 0)
    (h : calcWith ops s ctx debt bh bt = .ok s') :
    since s'.pair.bt s'.vault.bh s'.vault.bt = ctx.now ∧ Active s' := by
  obtain ⟨_, _, c3, c4, c5, c6, _⟩ := calcWith_active ops s ctx debt bh bt s' ha hf hd htr h
  refine ⟨?_, ?_⟩
  · unfold since; rw [c3, c4]; simp [hh]
  · obtain ⟨a1, a2, a3⟩ := ha
    exact ⟨by rw [c6]; exact a1, by rw [c5]; exact a2, by rw [c5]; exact a3⟩

/-- **two consecutive calculations against one** (any debts `n`, `n2` handed in by the caller) -/
theorem two_calcs_le_one (ops : FloatOps) (s s1 s2 s' : St) (c1 c2 : Ctx) (n n2 : Int)
    (ha : Active s) (hf : 0 ≤ s.pair.fee) (hn : 0 ≤ n) (hn63 : n ≤ 2 ^ 63) (hn2 : 0 ≤ n2)
    (htr : 0 ≤ s.tracker.getD 0) (hh : c1.height ≠ 0) (h12 : c1.now ≤ c2.now)
    (e1 : calcWith ops s c1 n s.vault.bh s.vault.bt = .ok s1)
    (e2 : calcWith ops s1 c2 n2 s1.vault.bh s1.vault.bt = .ok s2)
    (e' : calcWith ops s c2 n s.vault.bh s.vault.bt = .ok s') :
    ((booked s2 : Int) : ℚ) ≤ ((booked s' : Int) : ℚ)
      + subaddErr ops.E (aF n) (ops.pow (xF s.pair.fee) (yF (c2.now - since s.pair.bt s.vault.bh s.vault.bt)))
      + ((interest ops n2 s.pair.fee (c2.now - c1.now) - interest ops n s.pair.fee (c2.now - c1.now) : Int) : ℚ) := by
  obtain ⟨t1, k1, _, _, p1, _, _, _, tr1, _⟩ := calcWith_active ops s c1 n _ _ s1 ha hf hn htr e1
  obtain ⟨hs1, ha1⟩ := next_interval_starts_here ops s c1 n _ _ s1 ha hf hn htr hh e1
  obtain ⟨_, k2, _⟩ := calcWith_active ops s1 c2 n2 _ _ s2 ha1 (by rw [p1]; exact hf) hn2 tr1 e2
  obtain ⟨_, k', _⟩ := calcWith_active ops s c2 n _ _ s' ha hf hn htr e'
  rw [hs1, p1] at k2
  generalize since s.pair.bt s.vault.bh s.vault.bt = base at *
  have hsum : (c1.now - base) + (c2.now - c1.now) = c2.now - base := by ring
  have key := two_interval ops n s.pair.fee (c1.now - base) (c2.now - c1.now) hn hn63 hf t1 (by linarith)
  rw [hsum] at key
  rw [k2, k1, k']
  push_cast at key ⊢
  linarith

/-- switching the fee off (sweep books the interest up to now, vault flagged 0) and on again: the vault's next interval
starts at the moment the fee was switched on — the span without fee is not accrued -/
theorem toggle_restarts_clock (s sa sb : St) (ca cb : Ctx) (f : Dec) (pw pw' : Option Int) (x : Dec)
    (hwl : s.appWl = true) (hst : s.pair.stable = false) (hf : f ≠ 0)
    (hx : calcRewards s.vault.amountOut s.pair.fee (ca.now - since s.pair.bt s.vault.bh s.vault.bt) pw = .ok x)
    (ua : updateFee s ca 0 pw = some sa) (ub : updateFee sa cb f pw' = some sb) :
    sa.vault.bh = 0 ∧ sa.pair.fee = 0 ∧ sb.pair.fee = f ∧ sb.vault.bh = 0 ∧ sb.pair.bt = cb.now ∧
    since sb.pair.bt sb.vault.bh sb.vault.bt = cb.now := by
  unfold updateFee at ua
  simp only [hwl, hst, Bool.not_false, Bool.and_self, if_true, iter, hx, Option.map_some] at ua
  injection ua with ua
  subst ua
  unfold updateFee at ub
  simp only [Bool.not_false, Bool.and_self, if_true, hf, if_false] at ub
  injection ub with ub
  subst ub
  simp [since, book]

end Comdex.VaultAccrual
