import Comdex.Model.AmmRanged
import Comdex.Lemmas.AmmPool
/-!
Lemmas for C05, part 11: the ranged pool's side of a batch.  `X = xComp = rx + transX`, `Y = yComp = ry + transY` are the virtual
reserves (Dec raws); the pool's curve is `X·Y = const`.  `RangedPool.BuyAmountOver` / `SellAmountUnder` stay on that curve (up to
the last decimal that `Dec.Mul` / `QuoRoundUp` round) and within the REAL reserves; the tick loops of `PoolBuyOrders` /
`PoolSellOrders` only place such orders.
-/
namespace Comdex.Amm
open Comdex

/-- banker's rounding to 18 decimals is at most half a unit below -/
theorem chopRound_ge (x : Int) (hx : 0 ≤ x) : x ≤ Dec.chopRound x * Dec.P + Dec.half := by
  unfold Dec.chopRound
  rw [if_neg (by omega)]
  unfold Dec.chopRoundNonneg
  simp only
  rw [Int.tdiv_eq_ediv_of_nonneg hx, Int.tmod_eq_emod_of_nonneg hx]
  have h1 := Int.emod_add_mul_ediv x Dec.P
  have h2 := Int.emod_nonneg x (by decide : Dec.P ≠ 0)
  have h3 := Int.emod_lt_of_pos x P_pos
  have hh : Dec.half * 2 = Dec.P := by decide
  have e : Dec.P * (x / Dec.P) = x / Dec.P * Dec.P := Int.mul_comm _ _
  split
  · omega
  · split
    · omega
    · split
      · have : (x / Dec.P + 1) * Dec.P = x / Dec.P * Dec.P + Dec.P := by ring
        omega
      · split
        · omega
        · have : (x / Dec.P + 1) * Dec.P = x / Dec.P * Dec.P + Dec.P := by ring
          omega

theorem truncQuo_nonneg (X t : Int) (hX : 0 ≤ X) (ht : 0 ≤ t) : 0 ≤ Dec.truncateInt (Dec.quoTruncate X t) := by
  unfold Dec.truncateInt Dec.quoTruncate Dec.chopTrunc
  have hX' : 0 ≤ X * Dec.PP := Int.mul_nonneg hX (by decide)
  rw [Int.tdiv_eq_ediv_of_nonneg hX']
  have h1 := Int.ediv_nonneg hX' ht
  rw [Int.tdiv_eq_ediv_of_nonneg h1]
  have h2 := Int.ediv_nonneg h1 (by decide : (0:Int) ≤ Dec.P)
  rw [Int.tdiv_eq_ediv_of_nonneg h2]
  exact Int.ediv_nonneg h2 (by decide)

/-- what an amount `b ≤ ⌊dx / t⌋` with `dx ≤ rx` (as Dec) and `dx ≤ X − Mul(p, Y)`, `t ≤ p`, costs -/
theorem buy_core (X Y rx t p dx b : Int) (hY : 0 ≤ Y) (ht0 : 0 < t) (htp : t ≤ p) (hdx0 : 0 ≤ dx)
    (hdx1 : dx ≤ Dec.ofInt rx) (hdx2 : dx ≤ X - Dec.mul p Y)
    (hb : b ≤ Dec.truncateInt (Dec.quoTruncate dx t)) (hb0 : 0 < b) :
    quoteCeil t b ≤ rx ∧ t * (Y + b * Dec.P) ≤ X * Dec.P + Dec.half := by
  have hs := quoTruncate_spec dx t b hdx0 ht0 hb
  have hP := P_pos
  constructor
  · have htb : 0 ≤ t * b := Int.mul_nonneg (by omega) (by omega)
    rw [quoteCeil_eq t b htb]
    unfold Dec.ofInt at hdx1
    have : (t * b + (Dec.P - 1)) / Dec.P < rx + 1 :=
      Int.ediv_lt_of_lt_mul P_pos (by linarith)
    omega
  · have hpY : 0 ≤ p * Y := Int.mul_nonneg (by omega) hY
    have hr := chopRound_ge (p * Y) hpY
    have hm : Dec.mul p Y = Dec.chopRound (p * Y) := rfl
    have htY : t * Y ≤ p * Y := Int.mul_le_mul_of_nonneg_right htp hY
    have h1 : t * b * Dec.P ≤ (X - Dec.mul p Y) * Dec.P := Int.mul_le_mul_of_nonneg_right (by omega) (by omega)
    have e1 : t * (Y + b * Dec.P) = t * Y + t * b * Dec.P := by ring
    have e2 : (X - Dec.mul p Y) * Dec.P = X * Dec.P - Dec.mul p Y * Dec.P := by ring
    rw [hm] at e2 h1
    omega

/-- **`RangedPool.BuyAmountOver`**: the amount `a` offered at price `t` costs at most the REAL quote reserve, and
`t·(Y + a) ≤ X` up to half a unit of the 18th decimal: buying `a` at `t` does not decrease `X·Y` on the virtual curve -/
theorem rBuyAmountOver_spec (pl : RPool) (t a : Int) (hrx : 0 ≤ pl.rx) (hY : 0 ≤ pl.yComp) (ht0 : 0 < t)
    (h : pl.buyAmountOver t = some a) :
    0 ≤ a ∧ (0 < a → quoteCeil t a ≤ pl.rx ∧ t * (pl.yComp + a * Dec.P) ≤ pl.xComp * Dec.P + Dec.half) := by
  unfold RPool.buyAmountOver at h
  cases hp : pl.price with
  | none => rw [hp] at h; cases h
  | some pp =>
    rw [hp] at h
    simp only at h
    generalize hpd : (if t < pl.minPrice then pl.minPrice else t) = p at h
    have htp : t ≤ p := by rw [← hpd]; split <;> omega
    by_cases hge : p ≥ pp
    · rw [if_pos hge] at h; cases h; exact ⟨Int.le_refl _, fun h0 => absurd h0 (by decide)⟩
    · rw [if_neg hge] at h
      by_cases hdx : pl.xComp - Dec.mul p pl.yComp ≤ 0
      · rw [if_pos hdx] at h; cases h; exact ⟨Int.le_refl _, fun h0 => absurd h0 (by decide)⟩
      · rw [if_neg hdx] at h
        rw [if_neg (by omega : ¬ t = 0)] at h
        have hrxP : 0 ≤ Dec.ofInt pl.rx := by unfold Dec.ofInt; exact Int.mul_nonneg hrx (by decide)
        have hex : ∃ dx, (if pl.xComp - Dec.mul p pl.yComp > Dec.ofInt pl.rx then Dec.ofInt pl.rx
            else pl.xComp - Dec.mul p pl.yComp) = dx ∧ 0 ≤ dx ∧ dx ≤ Dec.ofInt pl.rx ∧ dx ≤ pl.xComp - Dec.mul p pl.yComp := by
          by_cases hc : pl.xComp - Dec.mul p pl.yComp > Dec.ofInt pl.rx
          · exact ⟨Dec.ofInt pl.rx, if_pos hc, hrxP, Int.le_refl _, Int.le_of_lt hc⟩
          · exact ⟨pl.xComp - Dec.mul p pl.yComp, if_neg hc, Int.le_of_lt (Int.not_le.mp hdx), Int.not_lt.mp hc, Int.le_refl _⟩
        obtain ⟨dx, hdd, hdx0, hd1, hd2⟩ := hex
        rw [hdd] at h
        have hnn := truncQuo_nonneg dx t hdx0 (by omega)
        simp only [Option.some.injEq] at h
        split at h
        · subst h
          exact ⟨by decide, fun h0 => buy_core _ _ _ t p dx _ hY ht0 htp hdx0 hd1 hd2 (by omega) h0⟩
        · subst h
          exact ⟨hnn, fun h0 => buy_core _ _ _ t p dx _ hY ht0 htp hdx0 hd1 hd2 (Int.le_refl _) h0⟩

/-- what an amount `0 < b ≤ ⌊Y − QuoRoundUp(X, p)⌋` satisfies: `X/p ≤ Y − b` up to `p·10⁻³⁶` -/
theorem sell_core (X Y p b : Int) (hX : 0 ≤ X) (hp0 : 0 < p) (hb0 : 0 < b)
    (hb : b ≤ Dec.truncateInt (Y - Dec.quoRoundUp X p)) :
    0 ≤ Y - b * Dec.P ∧ X * Dec.PP ≤ p * (Y - b * Dec.P) * Dec.P + p := by
  have hP := P_pos
  unfold Dec.quoRoundUp Dec.chopRoundUp at hb
  have hXP : 0 ≤ X * Dec.PP := Int.mul_nonneg hX (by decide)
  have hneg : ¬ (X * Dec.PP).tdiv p < 0 := by
    rw [Int.tdiv_eq_ediv_of_nonneg hXP]; have := Int.ediv_nonneg hXP (by omega : 0 ≤ p); omega
  rw [if_neg hneg] at hb
  rw [Int.tdiv_eq_ediv_of_nonneg hXP] at hb
  have hf0 : 0 ≤ X * Dec.PP / p := Int.ediv_nonneg hXP (by omega)
  have hfp : X * Dec.PP < (X * Dec.PP / p + 1) * p := Int.lt_ediv_add_one_mul_self (X * Dec.PP) hp0
  generalize X * Dec.PP / p = f at *
  rw [Int.tdiv_eq_ediv_of_nonneg hf0, Int.tmod_eq_emod_of_nonneg hf0] at hb
  generalize hc : (if f % Dec.P = 0 then f / Dec.P else f / Dec.P + 1) = c at *
  have hcP : f ≤ c * Dec.P := by
    rw [← hc]; split <;> simp only [Dec.P] at * <;> omega
  have hc0 : 0 ≤ c := by
    rw [← hc]; have := Int.ediv_nonneg hf0 (by decide : (0:Int) ≤ Dec.P); split <;> omega
  unfold Dec.truncateInt at hb
  have hd0 : 0 ≤ Y - c := by
    by_contra hn
    have : (Y - c).tdiv Dec.P ≤ 0 := by
      have e : (Y - c) = -(-(Y - c)) := by omega
      rw [e, Int.neg_tdiv]
      have := Int.tdiv_nonneg (a := -(Y - c)) (b := Dec.P) (by omega) (by decide)
      omega
    omega
  rw [Int.tdiv_eq_ediv_of_nonneg hd0] at hb
  have haP : (Y - c) / Dec.P * Dec.P ≤ Y - c := Int.ediv_mul_le _ (by decide)
  have hbP : b * Dec.P ≤ (Y - c) / Dec.P * Dec.P := Int.mul_le_mul_of_nonneg_right hb (by omega)
  have h1 : c ≤ Y - b * Dec.P := by omega
  refine ⟨by omega, ?_⟩
  have h2 : c * Dec.P ≤ (Y - b * Dec.P) * Dec.P := Int.mul_le_mul_of_nonneg_right h1 (by omega)
  have h3 : f * p ≤ (Y - b * Dec.P) * Dec.P * p := Int.mul_le_mul_of_nonneg_right (by omega) (by omega)
  have e1 : (f + 1) * p = f * p + p := by ring
  have e2 : (Y - b * Dec.P) * Dec.P * p = p * (Y - b * Dec.P) * Dec.P := by ring
  omega

/-- **`RangedPool.SellAmountUnder`**: the amount `a` offered at price `t` is covered by the REAL base reserve, and
`X/t ≤ Y − a` up to `t·10⁻³⁶`: selling `a` at `t` does not decrease `X·Y` on the virtual curve -/
theorem rSellAmountUnder_spec (pl : RPool) (t a : Int) (hX : 0 ≤ pl.xComp) (hY : 0 ≤ pl.yComp)
    (h : pl.sellAmountUnder t = some a) :
    0 ≤ a ∧ (0 < a → 0 < t ∧ a ≤ pl.ry ∧ 0 ≤ pl.yComp - a * Dec.P ∧
      pl.xComp * Dec.PP ≤ t * (pl.yComp - a * Dec.P) * Dec.P + t) := by
  unfold RPool.sellAmountUnder at h
  cases hp : pl.price with
  | none => rw [hp] at h; cases h
  | some pp =>
    rw [hp] at h
    simp only at h
    have hpp : 0 ≤ pp := by
      unfold RPool.price at hp
      split at hp
      · cases hp
      · unfold dquo at hp
        split at hp
        · cases hp
        · cases hp; exact decQuo_nonneg _ _ hX hY
    generalize hpd : (if t > pl.maxPrice then pl.maxPrice else t) = p at h
    have htp : p ≤ t := by rw [← hpd]; split <;> omega
    by_cases hle : p ≤ pp
    · rw [if_pos hle] at h; cases h; exact ⟨Int.le_refl _, fun h0 => absurd h0 (by decide)⟩
    · rw [if_neg hle] at h
      have hp0 : 0 < p := by omega
      rw [if_neg (by omega : ¬ p = 0)] at h
      simp only [Option.some.injEq] at h
      generalize hA : Dec.truncateInt (pl.yComp - Dec.quoRoundUp pl.xComp p) = A at h
      by_cases hpos : (if A > pl.ry then pl.ry else A) > 0
      · rw [if_pos hpos] at h
        subst h
        refine ⟨by omega, fun h0 => ?_⟩
        have hle2 : (if A > pl.ry then pl.ry else A) ≤ A := by split <;> omega
        have hle3 : (if A > pl.ry then pl.ry else A) ≤ pl.ry := by split <;> omega
        obtain ⟨c1, c2⟩ := sell_core pl.xComp pl.yComp p _ hX hp0 h0 (by rw [hA]; exact hle2)
        refine ⟨by omega, hle3, c1, ?_⟩
        have h4 : p * (pl.yComp - (if A > pl.ry then pl.ry else A) * Dec.P) ≤ t * (pl.yComp - (if A > pl.ry then pl.ry else A) * Dec.P) :=
          Int.mul_le_mul_of_nonneg_right htp c1
        have h5 := Int.mul_le_mul_of_nonneg_right h4 (by decide : (0:Int) ≤ Dec.P)
        omega
      · rw [if_neg hpos] at h
        subst h
        exact ⟨Int.le_refl _, fun h0 => absurd h0 (by decide)⟩

/-- **the tick loop of `PoolBuyOrders` over a ranged pool**: every order it places is covered by the running REAL quote reserve
and is not above the pool's virtual curve (`monRPoolBuys`, replayed on the running reserves, translation fixed) -/
theorem rBuyLoop_ok (fuel : Nat) (pl : RPool) (pp lowest tick : Int) (prec : Nat) (acc os : List (Int × Int))
    (hrx : 0 ≤ pl.rx) (hY : 0 ≤ pl.yComp) (hlow : 0 < lowest) (h : rBuyLoop fuel pl pp lowest tick prec acc = some os) :
    ∃ new, os = acc ++ new ∧ monRPoolBuys pl new = true := by
  induction fuel generalizing pl tick acc with
  | zero => unfold rBuyLoop at h; cases h; exact ⟨[], by simp, rfl⟩
  | succ fuel ih =>
    unfold rBuyLoop at h
    by_cases hlt : tick < lowest
    · rw [if_pos hlt] at h; cases h; exact ⟨[], by simp, rfl⟩
    · rw [if_neg hlt] at h
      cases hb : pl.buyAmountOver tick with
      | none => rw [hb] at h; cases h
      | some amt =>
        rw [hb] at h
        simp only at h
        by_cases hmin : amt < minCoinAmount
        · rw [if_pos hmin] at h; exact ih pl _ acc hrx hY h
        · rw [if_neg hmin] at h
          have hamt : 0 < amt := by unfold minCoinAmount at hmin; omega
          obtain ⟨_, hs⟩ := rBuyAmountOver_spec pl tick amt hrx hY (by omega) hb
          obtain ⟨s1, s2⟩ := hs hamt
          have hhead : (decide (0 < amt) && decide (quoteCeil tick amt ≤ pl.rx) &&
              decide (tick * (pl.yComp + amt * Dec.P) ≤ pl.xComp * Dec.P + Dec.half)) = true := by simp [hamt, s1, s2]
          have hY' : 0 ≤ ({ pl with rx := pl.rx - quoteCeil tick amt, ry := pl.ry + amt } : RPool).yComp := by
            unfold RPool.yComp Dec.ofInt at hY ⊢
            simp only
            have : (pl.ry + amt) * Dec.P = pl.ry * Dec.P + amt * Dec.P := by ring
            have : 0 ≤ amt * Dec.P := Int.mul_nonneg (by omega) (by decide)
            omega
          by_cases hbrk : ¬ (pl.rx - quoteCeil tick amt > 0)
          · rw [if_pos hbrk] at h; cases h
            refine ⟨[(tick, amt)], rfl, ?_⟩
            unfold monRPoolBuys; rw [hhead]; rfl
          · rw [if_neg hbrk] at h
            obtain ⟨new, hn1, hn2⟩ := ih { pl with rx := pl.rx - quoteCeil tick amt, ry := pl.ry + amt } _ _
              (by simp only; omega) hY' h
            refine ⟨(tick, amt) :: new, by rw [hn1]; simp, ?_⟩
            unfold monRPoolBuys; rw [hhead, hn2]; rfl

/-- **the tick loop of `PoolSellOrders` over a ranged pool** -/
theorem rSellLoop_ok (fuel : Nat) (pl : RPool) (pp highest tick : Int) (prec : Nat) (acc os : List (Int × Int))
    (hX : 0 ≤ pl.xComp) (hY : 0 ≤ pl.yComp) (h : rSellLoop fuel pl pp highest tick prec acc = some os) :
    ∃ new, os = acc ++ new ∧ monRPoolSells pl new = true := by
  induction fuel generalizing pl tick acc with
  | zero => unfold rSellLoop at h; cases h; exact ⟨[], by simp, rfl⟩
  | succ fuel ih =>
    unfold rSellLoop at h
    by_cases hgt : tick > highest
    · rw [if_pos hgt] at h; cases h; exact ⟨[], by simp, rfl⟩
    · rw [if_neg hgt] at h
      cases hb : pl.sellAmountUnder tick with
      | none => rw [hb] at h; cases h
      | some amt =>
        rw [hb] at h
        simp only at h
        by_cases hmin : amt < minCoinAmount ∨ quoteFloor tick amt = 0
        · rw [if_pos hmin] at h; exact ih pl _ acc hX hY h
        · rw [if_neg hmin] at h
          have hamt : 0 < amt := by unfold minCoinAmount at hmin; omega
          obtain ⟨_, hs⟩ := rSellAmountUnder_spec pl tick amt hX hY hb
          obtain ⟨ht0, s1, s2, s3⟩ := hs hamt
          have hhead : (decide (0 < amt) && decide (amt ≤ pl.ry) &&
              decide (pl.xComp * Dec.PP ≤ tick * (pl.yComp - amt * Dec.P) * Dec.P + tick)) = true := by simp [hamt, s1, s3]
          have hq := quoteFloor_nonneg tick amt (by omega) (by omega)
          have hX' : 0 ≤ ({ pl with rx := pl.rx + quoteFloor tick amt, ry := pl.ry - amt } : RPool).xComp := by
            unfold RPool.xComp Dec.ofInt at hX ⊢
            simp only
            have : (pl.rx + quoteFloor tick amt) * Dec.P = pl.rx * Dec.P + quoteFloor tick amt * Dec.P := by ring
            have : 0 ≤ quoteFloor tick amt * Dec.P := Int.mul_nonneg hq (by decide)
            omega
          have hY' : 0 ≤ ({ pl with rx := pl.rx + quoteFloor tick amt, ry := pl.ry - amt } : RPool).yComp := by
            unfold RPool.yComp Dec.ofInt at s2 ⊢
            simp only
            have : (pl.ry - amt) * Dec.P = pl.ry * Dec.P - amt * Dec.P := by ring
            omega
          by_cases hbrk : ¬ (pl.ry - amt > minCoinAmount)
          · rw [if_pos hbrk] at h; cases h
            refine ⟨[(tick, amt)], rfl, ?_⟩
            unfold monRPoolSells; rw [hhead]; rfl
          · rw [if_neg hbrk] at h
            obtain ⟨new, hn1, hn2⟩ := ih { pl with rx := pl.rx + quoteFloor tick amt, ry := pl.ry - amt } _ _ hX' hY' h
            refine ⟨(tick, amt) :: new, by rw [hn1]; simp, ?_⟩
            unfold monRPoolSells; rw [hhead, hn2]; rfl

/-- the quote coin of all tick-loop buy orders together is covered by the REAL quote reserve -/
theorem monRPoolBuys_total (pl : RPool) (l : List (Int × Int)) (h : monRPoolBuys pl l = true) :
    sumInt (l.map fun pa => quoteCeil pa.1 pa.2) ≤ pl.rx ∨ l = [] := by
  induction l generalizing pl with
  | nil => right; rfl
  | cons x rest ih =>
    left
    obtain ⟨p, a⟩ := x
    unfold monRPoolBuys at h
    simp only [Bool.and_eq_true, decide_eq_true_eq] at h
    obtain ⟨⟨⟨_, h2⟩, _⟩, h4⟩ := h
    simp only [List.map_cons, sumInt]
    rcases ih _ h4 with h5 | h5
    · simp only at h5; omega
    · subst h5; simp [sumInt]; omega

/-- the base coin of all tick-loop sell orders together is covered by the REAL base reserve -/
theorem monRPoolSells_total (pl : RPool) (l : List (Int × Int)) (h : monRPoolSells pl l = true) :
    sumInt (l.map fun pa => pa.2) ≤ pl.ry ∨ l = [] := by
  induction l generalizing pl with
  | nil => right; rfl
  | cons x rest ih =>
    left
    obtain ⟨p, a⟩ := x
    unfold monRPoolSells at h
    simp only [Bool.and_eq_true, decide_eq_true_eq] at h
    obtain ⟨⟨⟨_, h2⟩, _⟩, h4⟩ := h
    simp only [List.map_cons, sumInt]
    rcases ih _ h4 with h5 | h5
    · simp only at h5; omega
    · subst h5; simp [sumInt]; omega

theorem rBuyLoop_append (fuel : Nat) (pl : RPool) (pp lowest tick : Int) (prec : Nat) (acc os : List (Int × Int))
    (h : rBuyLoop fuel pl pp lowest tick prec acc = some os) : ∃ new, os = acc ++ new := by
  induction fuel generalizing pl tick acc with
  | zero => unfold rBuyLoop at h; cases h; exact ⟨[], by simp⟩
  | succ fuel ih =>
    unfold rBuyLoop at h
    split at h
    · cases h; exact ⟨[], by simp⟩
    · cases hb : pl.buyAmountOver tick with
      | none => rw [hb] at h; cases h
      | some amt =>
        rw [hb] at h
        simp only at h
        split at h
        · exact ih _ _ _ h
        · split at h
          · cases h; exact ⟨_, rfl⟩
          · obtain ⟨new, hn⟩ := ih _ _ _ h
            exact ⟨(tick, amt) :: new, by rw [hn]; simp⟩

theorem rSellLoop_append (fuel : Nat) (pl : RPool) (pp highest tick : Int) (prec : Nat) (acc os : List (Int × Int))
    (h : rSellLoop fuel pl pp highest tick prec acc = some os) : ∃ new, os = acc ++ new := by
  induction fuel generalizing pl tick acc with
  | zero => unfold rSellLoop at h; cases h; exact ⟨[], by simp⟩
  | succ fuel ih =>
    unfold rSellLoop at h
    split at h
    · cases h; exact ⟨[], by simp⟩
    · cases hb : pl.sellAmountUnder tick with
      | none => rw [hb] at h; cases h
      | some amt =>
        rw [hb] at h
        simp only at h
        split at h
        · exact ih _ _ _ h
        · split at h
          · cases h; exact ⟨_, rfl⟩
          · obtain ⟨new, hn⟩ := ih _ _ _ h
            exact ⟨(tick, amt) :: new, by rw [hn]; simp⟩

/-- what `PoolBuyOrders` of a ranged pool must satisfy: apart from the one order at the upper price limit that `BuyAmountTo`
contributes when the pool price is above the limit (`first`; approximate square roots; afterwards the translation is derived
again — state `pl1`), every order is covered by the running real quote reserve and not above the virtual curve, provided the
reserves the loop starts from (real quote, virtual base) are non-negative -/
def RBuysOk (pl : RPool) (highest : Int) (l : List (Int × Int)) : Prop :=
  ∃ first rest pl1, l = first ++ rest ∧ (0 ≤ pl1.rx → 0 ≤ pl1.yComp → monRPoolBuys pl1 rest = true) ∧
    ((first = [] ∧ pl1 = pl) ∨
     (∃ amt, pl.buyAmountTo highest = some amt ∧ minCoinAmount ≤ amt ∧ first = [(highest, amt)] ∧
        pl.setBalances (pl.rx - quoteCeil highest amt) (pl.ry + amt) true = some pl1))

/-- the loop of `PoolBuyOrders` from any state, in the shape `RBuysOk` needs -/
theorem rBuyLoop_rest (fuel : Nat) (pl1 : RPool) (pp lowest tick : Int) (prec : Nat) (acc os : List (Int × Int))
    (hlow : 0 < lowest) (h : rBuyLoop fuel pl1 pp lowest tick prec acc = some os) :
    ∃ rest, os = acc ++ rest ∧ (0 ≤ pl1.rx → 0 ≤ pl1.yComp → monRPoolBuys pl1 rest = true) := by
  obtain ⟨new, hn⟩ := rBuyLoop_append fuel pl1 pp lowest tick prec acc os h
  refine ⟨new, hn, ?_⟩
  intro hr hy
  obtain ⟨new', hn1, hn2⟩ := rBuyLoop_ok fuel pl1 pp lowest tick prec acc os hr hy hlow h
  have : new' = new := List.append_cancel_left (hn1.symm.trans hn)
  rw [← this]; exact hn2

/-- **`PoolBuyOrders` of a ranged pool** (lower price limit positive) -/
theorem rPoolBuyOrders_ok (pl : RPool) (lowest highest : Int) (prec : Nat) (hlow : 0 < lowest) :
    RBuysOk pl highest (rPoolBuyOrders pl lowest highest prec) := by
  have triv : RBuysOk pl highest [] := ⟨[], [], pl, rfl, fun _ _ => rfl, Or.inl ⟨rfl, rfl⟩⟩
  unfold rPoolBuyOrders
  cases hp : pl.price with
  | none => exact triv
  | some pp =>
    simp only
    by_cases h1 : pp ≤ lowest
    · rw [if_pos h1]; exact triv
    · rw [if_neg h1]
      cases hf : rBuyFirst pl pp highest with
      | none => exact triv
      | some r =>
        obtain ⟨pl1, acc⟩ := r
        simp only
        cases hp1 : pl1.price with
        | none => exact triv
        | some p1 =>
          simp only
          cases hl : rBuyLoop _ pl1 pp lowest (priceToDownTick (if highest < p1 then highest else p1) prec) prec acc with
          | none => exact triv
          | some os =>
            simp only
            obtain ⟨rest, hr1, hr2⟩ := rBuyLoop_rest _ pl1 pp lowest _ prec acc os hlow hl
            unfold rBuyFirst at hf
            by_cases h2 : pp > highest
            · rw [if_pos h2] at hf
              cases hbt : pl.buyAmountTo highest with
              | none => rw [hbt] at hf; cases hf
              | some amt =>
                rw [hbt] at hf
                simp only at hf
                by_cases h3 : amt ≥ minCoinAmount
                · rw [if_pos h3] at hf
                  cases hsb : pl.setBalances (pl.rx - quoteCeil highest amt) (pl.ry + amt) true with
                  | none => rw [hsb] at hf; cases hf
                  | some pl2 =>
                    rw [hsb] at hf
                    simp only [Option.some.injEq, Prod.mk.injEq] at hf
                    obtain ⟨rfl, rfl⟩ := hf
                    exact ⟨[(highest, amt)], rest, pl2, hr1, hr2, Or.inr ⟨amt, hbt, h3, rfl, hsb⟩⟩
                · rw [if_neg h3] at hf
                  simp only [Option.some.injEq, Prod.mk.injEq] at hf
                  obtain ⟨rfl, rfl⟩ := hf
                  exact ⟨[], rest, pl, hr1, hr2, Or.inl ⟨rfl, rfl⟩⟩
            · rw [if_neg h2] at hf
              simp only [Option.some.injEq, Prod.mk.injEq] at hf
              obtain ⟨rfl, rfl⟩ := hf
              exact ⟨[], rest, pl, hr1, hr2, Or.inl ⟨rfl, rfl⟩⟩

def RSellsOk (pl : RPool) (lowest : Int) (l : List (Int × Int)) : Prop :=
  ∃ first rest pl1, l = first ++ rest ∧ (0 ≤ pl1.xComp → 0 ≤ pl1.yComp → monRPoolSells pl1 rest = true) ∧
    ((first = [] ∧ pl1 = pl) ∨
     (∃ amt, pl.sellAmountTo lowest = some amt ∧ minCoinAmount ≤ amt ∧ first = [(lowest, amt)] ∧
        pl.setBalances (pl.rx + quoteFloor lowest amt) (pl.ry - amt) true = some pl1))

theorem rSellLoop_rest (fuel : Nat) (pl1 : RPool) (pp highest tick : Int) (prec : Nat) (acc os : List (Int × Int))
    (h : rSellLoop fuel pl1 pp highest tick prec acc = some os) :
    ∃ rest, os = acc ++ rest ∧ (0 ≤ pl1.xComp → 0 ≤ pl1.yComp → monRPoolSells pl1 rest = true) := by
  obtain ⟨new, hn⟩ := rSellLoop_append fuel pl1 pp highest tick prec acc os h
  refine ⟨new, hn, ?_⟩
  intro hx hy
  obtain ⟨new', hn1, hn2⟩ := rSellLoop_ok fuel pl1 pp highest tick prec acc os hx hy h
  have : new' = new := List.append_cancel_left (hn1.symm.trans hn)
  rw [← this]; exact hn2

/-- **`PoolSellOrders` of a ranged pool** -/
theorem rPoolSellOrders_ok (pl : RPool) (lowest highest : Int) (prec : Nat) :
    RSellsOk pl lowest (rPoolSellOrders pl lowest highest prec) := by
  have triv : RSellsOk pl lowest [] := ⟨[], [], pl, rfl, fun _ _ => rfl, Or.inl ⟨rfl, rfl⟩⟩
  unfold rPoolSellOrders
  cases hp : pl.price with
  | none => exact triv
  | some pp =>
    simp only
    by_cases h1 : pp ≥ highest
    · rw [if_pos h1]; exact triv
    · rw [if_neg h1]
      cases hf : rSellFirst pl pp lowest with
      | none => exact triv
      | some r =>
        obtain ⟨pl1, acc⟩ := r
        simp only
        cases hp1 : pl1.price with
        | none => exact triv
        | some p1 =>
          simp only
          cases hl : rSellLoop _ pl1 pp highest (priceToUpTick (if lowest > p1 then lowest else p1) prec) prec acc with
          | none => exact triv
          | some os =>
            simp only
            obtain ⟨rest, hr1, hr2⟩ := rSellLoop_rest _ pl1 pp highest _ prec acc os hl
            unfold rSellFirst at hf
            by_cases h2 : pp < lowest
            · rw [if_pos h2] at hf
              cases hbt : pl.sellAmountTo lowest with
              | none => rw [hbt] at hf; cases hf
              | some amt =>
                rw [hbt] at hf
                simp only at hf
                by_cases h3 : amt ≥ minCoinAmount ∧ quoteFloor lowest amt > 0
                · rw [if_pos h3] at hf
                  cases hsb : pl.setBalances (pl.rx + quoteFloor lowest amt) (pl.ry - amt) true with
                  | none => rw [hsb] at hf; cases hf
                  | some pl2 =>
                    rw [hsb] at hf
                    simp only [Option.some.injEq, Prod.mk.injEq] at hf
                    obtain ⟨rfl, rfl⟩ := hf
                    exact ⟨[(lowest, amt)], rest, pl2, hr1, hr2, Or.inr ⟨amt, hbt, h3.1, rfl, hsb⟩⟩
                · rw [if_neg h3] at hf
                  simp only [Option.some.injEq, Prod.mk.injEq] at hf
                  obtain ⟨rfl, rfl⟩ := hf
                  exact ⟨[], rest, pl, hr1, hr2, Or.inl ⟨rfl, rfl⟩⟩
            · rw [if_neg h2] at hf
              simp only [Option.some.injEq, Prod.mk.injEq] at hf
              obtain ⟨rfl, rfl⟩ := hf
              exact ⟨[], rest, pl, hr1, hr2, Or.inl ⟨rfl, rfl⟩⟩

/-- the order `BuyAmountTo` contributes is covered by the REAL quote reserve (the `dx > rx` cap of the code) -/
theorem rBuyAmountTo_covered (pl : RPool) (t a : Int) (hrx : 0 ≤ pl.rx) (ht0 : 0 < t) (h : pl.buyAmountTo t = some a) :
    0 ≤ a ∧ (0 < a → quoteCeil t a ≤ pl.rx) := by
  unfold RPool.buyAmountTo at h
  cases hp : pl.price with
  | none => rw [hp] at h; cases h
  | some pp =>
    rw [hp] at h
    simp only at h
    generalize hpd : (if t < pl.minPrice then pl.minPrice else t) = p at h
    by_cases hge : p ≥ pp
    · rw [if_pos hge] at h; cases h; exact ⟨Int.le_refl _, fun h0 => absurd h0 (by decide)⟩
    · rw [if_neg hge] at h
      generalize hD : Dec.ofInt pl.rx - (Dec.mul (rsqrt p) (Dec.mul (rsqrt pl.xComp) (rsqrt pl.yComp)) - pl.transX) = D at h
      by_cases hdx : D ≤ 0
      · rw [if_pos hdx] at h; cases h; exact ⟨Int.le_refl _, fun h0 => absurd h0 (by decide)⟩
      · rw [if_neg hdx] at h
        rw [if_neg (by omega : ¬ t = 0)] at h
        have hrxP : 0 ≤ Dec.ofInt pl.rx := by unfold Dec.ofInt; exact Int.mul_nonneg hrx (by decide)
        have hex : ∃ dx, (if D > Dec.ofInt pl.rx then Dec.ofInt pl.rx else D) = dx ∧ 0 ≤ dx ∧ dx ≤ Dec.ofInt pl.rx := by
          by_cases hc : D > Dec.ofInt pl.rx
          · exact ⟨Dec.ofInt pl.rx, if_pos hc, hrxP, Int.le_refl _⟩
          · exact ⟨D, if_neg hc, Int.le_of_lt (Int.not_le.mp hdx), Int.not_lt.mp hc⟩
        obtain ⟨dx, hdd, hdx0, hd1⟩ := hex
        rw [hdd] at h
        have hnn := truncQuo_nonneg dx t hdx0 (by omega)
        have key : ∀ b, b ≤ Dec.truncateInt (Dec.quoTruncate dx t) → 0 < b → quoteCeil t b ≤ pl.rx := by
          intro b hb hb0
          have hs := quoTruncate_spec dx t b hdx0 ht0 hb
          have htb : 0 ≤ t * b := Int.mul_nonneg (by omega) (by omega)
          rw [quoteCeil_eq t b htb]
          unfold Dec.ofInt at hd1
          have hP := P_pos
          have : (t * b + (Dec.P - 1)) / Dec.P < pl.rx + 1 := Int.ediv_lt_of_lt_mul P_pos (by linarith)
          omega
        simp only [Option.some.injEq] at h
        split at h
        · subst h; exact ⟨by decide, fun h0 => key _ (by omega) h0⟩
        · subst h; exact ⟨hnn, fun h0 => key _ (Int.le_refl _) h0⟩

/-- the order `SellAmountTo` contributes is covered by the REAL base reserve (the `amt > ry` cap of the code) -/
theorem rSellAmountTo_covered (pl : RPool) (t a : Int) (hry : 0 ≤ pl.ry) (h : pl.sellAmountTo t = some a) :
    0 ≤ a ∧ a ≤ pl.ry := by
  unfold RPool.sellAmountTo at h
  cases hp : pl.price with
  | none => rw [hp] at h; cases h
  | some pp =>
    rw [hp] at h
    simp only at h
    generalize hpd : (if t > pl.maxPrice then pl.maxPrice else t) = p at h
    by_cases hle : p ≤ pp
    · rw [if_pos hle] at h; cases h; exact ⟨Int.le_refl _, hry⟩
    · rw [if_neg hle] at h
      by_cases hz : rsqrt p = 0
      · rw [if_pos hz] at h; cases h
      · rw [if_neg hz] at h
        simp only [Option.some.injEq] at h
        generalize Dec.truncateInt (Dec.ofInt pl.ry - (Dec.quoRoundUp (Dec.mul (rsqrt pl.xComp) (rsqrt pl.yComp)) (rsqrt p) - pl.transY)) = A at h
        subst h
        by_cases h1 : A > pl.ry
        · simp only [h1, if_true]
          split <;> omega
        · simp only [h1, if_false]
          split <;> omega

end Comdex.Amm
