import Comdex.Model.Lend
/-!
Lemmas for the lending-books model: the keyed-store law `sumBy f (put k v s) = sumBy f s + f v − f old`,
how the two-level sum `lendSum` and `borrowedSum` move under each elementary book transition, and the
preservation of the book invariant `InvB` by every message handler of `Model/Lend.lean`.  Core Lean only.
-/
namespace Comdex.Lend
open Comdex

/-! ## `sumBy` and keyed stores -/

theorem sumBy_append {α} (f : α → Int) (l : List α) (x : α) : sumBy f (l ++ [x]) = sumBy f l + f x := by
  induction l with
  | nil => simp [sumBy]
  | cons a l ih => simp only [List.cons_append, sumBy, ih]; omega

theorem sumBy_congr {α} (f g : α → Int) (l : List α) (h : ∀ x ∈ l, f x = g x) : sumBy f l = sumBy g l := by
  induction l with
  | nil => rfl
  | cons a l ih =>
    simp only [sumBy]
    rw [h a (by simp), ih (fun x hx => h x (by simp [hx]))]

theorem sumBy_add {α} (f g : α → Int) (l : List α) : sumBy (fun x => f x + g x) l = sumBy f l + sumBy g l := by
  induction l with
  | nil => rfl
  | cons a l ih => simp only [sumBy, ih]; omega

theorem sumBy_zero {α} (f : α → Int) (l : List α) (h : ∀ x ∈ l, f x = 0) : sumBy f l = 0 := by
  induction l with
  | nil => rfl
  | cons a l ih =>
    simp only [sumBy]
    rw [h a (by simp), ih (fun x hx => h x (by simp [hx]))]; rfl

/-- keys of a list are pairwise different -/
def Uniq {α} (key : α → Nat) (l : List α) : Prop := l.Pairwise fun a b => key a ≠ key b

theorem Uniq.tail {α} {key : α → Nat} {a : α} {l : List α} (h : Uniq key (a :: l)) : Uniq key l :=
  (List.pairwise_cons.mp h).2

theorem Uniq.head {α} {key : α → Nat} {a : α} {l : List α} (h : Uniq key (a :: l)) : ∀ b ∈ l, key a ≠ key b :=
  (List.pairwise_cons.mp h).1

/-- put: replace the record with the key of `v` -/
def put {α} (key : α → Nat) (l : List α) (v : α) : List α := l.map fun x => if key x = key v then v else x
/-- delete the record with key `k` -/
def del {α} (key : α → Nat) (l : List α) (k : Nat) : List α := l.filter fun x => key x != k

theorem put_noop {α} (key : α → Nat) (l : List α) (v : α) (h : ∀ x ∈ l, key x ≠ key v) : put key l v = l := by
  induction l with
  | nil => rfl
  | cons a l ih =>
    have ha : key a ≠ key v := h a (by simp)
    simp only [put, List.map_cons, ha, if_false]
    congr 1
    exact ih (fun x hx => h x (by simp [hx]))

/-- **keyed-store law**: `sumBy f (put k v s) = sumBy f s + f v − f old`. -/
theorem sumBy_put {α} (key : α → Nat) (f : α → Int) (l : List α) (old v : α)
    (hu : Uniq key l) (hm : old ∈ l) (hk : key old = key v) :
    sumBy f (put key l v) = sumBy f l + f v - f old := by
  induction l with
  | nil => cases hm
  | cons a l ih =>
    rcases List.mem_cons.mp hm with rfl | hm'
    · have hrest : put key l v = l := put_noop key l v (fun x hx => by rw [← hk]; exact fun e => hu.head x hx e.symm)
      have : put key (old :: l) v = v :: put key l v := by simp [put, hk]
      rw [this, hrest]; simp only [sumBy]; omega
    · have hne : key a ≠ key v := by rw [← hk]; exact hu.head old hm'
      have : put key (a :: l) v = a :: put key l v := by simp [put, hne]
      rw [this]; simp only [sumBy]; rw [ih hu.tail hm']; omega

theorem del_noop {α} (key : α → Nat) (l : List α) (k : Nat) (h : ∀ x ∈ l, key x ≠ k) : del key l k = l := by
  induction l with
  | nil => rfl
  | cons a l ih =>
    have ha : key a ≠ k := h a (by simp)
    have : del key (a :: l) k = a :: del key l k := by simp [del, ha]
    rw [this, ih (fun x hx => h x (by simp [hx]))]

theorem sumBy_del {α} (key : α → Nat) (f : α → Int) (l : List α) (old : α)
    (hu : Uniq key l) (hm : old ∈ l) :
    sumBy f (del key l (key old)) = sumBy f l - f old := by
  induction l with
  | nil => cases hm
  | cons a l ih =>
    rcases List.mem_cons.mp hm with rfl | hm'
    · have hrest : del key l (key old) = l := del_noop key l _ (fun x hx e => hu.head x hx e.symm)
      have : del key (old :: l) (key old) = del key l (key old) := by simp [del]
      rw [this, hrest]; simp only [sumBy]; omega
    · have hne : key a ≠ key old := hu.head old hm'
      have : del key (a :: l) (key old) = a :: del key l (key old) := by simp [del, hne]
      rw [this]; simp only [sumBy]; rw [ih hu.tail hm']; omega

/-- a sum of an indicator on a unique key picks the one record -/
theorem sumBy_pick {α} (key : α → Nat) (c : α → Int) (l : List α) (old : α) (hu : Uniq key l) (hm : old ∈ l) :
    sumBy (fun x => if key x = key old then c x else 0) l = c old := by
  induction l with
  | nil => cases hm
  | cons a l ih =>
    rcases List.mem_cons.mp hm with rfl | hm'
    · simp only [sumBy, if_true]
      rw [sumBy_zero _ l (fun x hx => by
        have : key x ≠ key old := fun e => hu.head x hx e.symm
        simp [this])]; omega
    · have hne : key a ≠ key old := hu.head old hm'
      simp only [sumBy, hne, if_false]; rw [ih hu.tail hm']; omega

theorem sumBy_pick_none {α} (key : α → Nat) (c : α → Int) (l : List α) (k : Nat) (h : ∀ x ∈ l, key x ≠ k) :
    sumBy (fun x => if key x = k then c x else 0) l = 0 :=
  sumBy_zero _ l (fun x hx => by simp [h x hx])

theorem find_mem {α} (key : α → Nat) (l : List α) (k : Nat) (v : α) (h : l.find? (fun x => key x == k) = some v) :
    v ∈ l ∧ key v = k := by
  have h1 := List.find?_some h
  exact ⟨List.mem_of_find?_eq_some h, by simpa using h1⟩

theorem find_none {α} (key : α → Nat) (l : List α) (k : Nat) (h : l.find? (fun x => key x == k) = none) :
    ∀ x ∈ l, key x ≠ k := by
  intro x hx
  have := List.find?_eq_none.mp h x hx
  simpa using this

theorem uniq_put {α} (key : α → Nat) (l : List α) (v : α) (hu : Uniq key l) : Uniq key (put key l v) := by
  unfold Uniq put
  rw [List.pairwise_map]
  refine hu.imp ?_
  intro a b hab
  by_cases ha : key a = key v <;> by_cases hb : key b = key v <;> simp [ha, hb] <;> omega

theorem uniq_del {α} (key : α → Nat) (l : List α) (k : Nat) (hu : Uniq key l) : Uniq key (del key l k) :=
  List.Pairwise.filter _ hu

theorem uniq_append {α} (key : α → Nat) (l : List α) (v : α) (hu : Uniq key l) (h : ∀ x ∈ l, key x ≠ key v) :
    Uniq key (l ++ [v]) := by
  unfold Uniq
  rw [List.pairwise_append]
  refine ⟨hu, by simp, ?_⟩
  intro a ha b hb
  simp at hb; subst hb; exact h a ha

theorem mem_put {α} (key : α → Nat) (l : List α) (v x : α) (h : x ∈ put key l v) : x = v ∨ (x ∈ l ∧ key x ≠ key v) := by
  unfold put at h
  obtain ⟨y, hy, rfl⟩ := List.mem_map.mp h
  by_cases hk : key y = key v
  · simp [hk]
  · simp [hk, hy]

theorem mem_del {α} (key : α → Nat) (l : List α) (k : Nat) (x : α) (h : x ∈ del key l k) : x ∈ l ∧ key x ≠ k := by
  unfold del at h
  have := List.mem_filter.mp h
  exact ⟨this.1, by simpa using this.2⟩

/-! ## The model's stores are keyed stores -/

abbrev lid (l : Lend) : Nat := l.id
abbrev bid (b : Borrow) : Nat := b.id

theorem setLend_eq (ls : List Lend) (v : Lend) : setLend ls v = put lid ls v := rfl
theorem delLend_eq (ls : List Lend) (k : Nat) : delLend ls k = del lid ls k := rfl
theorem setBorrow_eq (bs : List Borrow) (v : Borrow) : setBorrow bs v = put bid bs v := rfl
theorem delBorrow_eq (bs : List Borrow) (k : Nat) : delBorrow bs k = del bid bs k := rfl

theorem getLend_mem {ls : List Lend} {k : Nat} {l : Lend} (h : getLend ls k = some l) : l ∈ ls ∧ l.id = k :=
  find_mem lid ls k l h
theorem getBorrow_mem {bs : List Borrow} {k : Nat} {b : Borrow} (h : getBorrow bs k = some b) : b ∈ bs ∧ b.id = k :=
  find_mem bid bs k b h

theorem put_self {α} (key : α → Nat) (l : List α) (v : α) (hu : Uniq key l) (hm : v ∈ l) : put key l v = l := by
  induction l with
  | nil => rfl
  | cons a l ih =>
    rcases List.mem_cons.mp hm with rfl | hm'
    · have hrest : put key l v = l := put_noop key l v (fun x hx e => hu.head x hx e.symm)
      have : put key (v :: l) v = v :: put key l v := by simp [put]
      rw [this, hrest]
    · have hne : key a ≠ key v := hu.head v hm'
      have : put key (a :: l) v = a :: put key l v := by simp [put, hne]
      rw [this, ih hu.tail hm']

/-- get after put -/
theorem find_put {α} (key : α → Nat) (l : List α) (old v : α) (hm : old ∈ l) (hk : key old = key v) :
    (put key l v).find? (fun x => key x == key v) = some v := by
  induction l with
  | nil => cases hm
  | cons a l ih =>
    by_cases ha : key a = key v
    · simp [put, ha]
    · rcases List.mem_cons.mp hm with rfl | hm'
      · exact absurd hk ha
      · have : put key (a :: l) v = a :: put key l v := by simp [put, ha]
        rw [this, List.find?_cons]
        have hb : (key a == key v) = false := by simp [ha]
        rw [hb]
        exact ih hm'

/-! ## The two-level sum -/

/-- contribution of one borrow to the pledge of lend `k` -/
def pl (k : Nat) (b : Borrow) : Int := if b.lendingId = k ∧ b.liq = false then b.amountIn else 0
/-- contribution of one lend to the (pool, asset) sum -/
def lc (bs : List Borrow) (p a : Nat) (l : Lend) : Int := if l.pool = p ∧ l.asset = a then l.avail + pledgedOf bs l.id else 0
/-- contribution of one borrow to the borrowed sum -/
def bo (cfg : Cfg) (p a : Nat) (stable : Bool) (b : Borrow) : Int :=
  if b.liq = false ∧ b.stable = stable ∧ cfg.pairOut b.pairId = some (p, a) then b.amountOut else 0

theorem pledgedOf_eq (bs : List Borrow) (k : Nat) : pledgedOf bs k = sumBy (pl k) bs := rfl
theorem lendSum_eq (ls : List Lend) (bs : List Borrow) (p a : Nat) : lendSum ls bs p a = sumBy (lc bs p a) ls := rfl
theorem borrowedSum_eq (cfg : Cfg) (bs : List Borrow) (p a : Nat) (st : Bool) :
    borrowedSum cfg bs p a st = sumBy (bo cfg p a st) bs := rfl

/-- lends unchanged, pledges shifted by `x` on lend `k` -/
theorem lendSum_shift (ls : List Lend) (bs bs' : List Borrow) (k : Nat) (x : Int) (hu : Uniq lid ls)
    (hpl : ∀ j, pledgedOf bs' j = pledgedOf bs j + if j = k then x else 0) (p a : Nat) :
    lendSum ls bs' p a = lendSum ls bs p a +
      match getLend ls k with
      | some l => if l.pool = p ∧ l.asset = a then x else 0
      | none => 0 := by
  rw [lendSum_eq, lendSum_eq]
  have h1 : sumBy (lc bs' p a) ls = sumBy (fun l => lc bs p a l + (if lid l = k then (if l.pool = p ∧ l.asset = a then x else 0) else 0)) ls := by
    apply sumBy_congr
    intro l _
    unfold lc
    rw [hpl l.id]
    by_cases hk : l.id = k <;> by_cases hc : l.pool = p ∧ l.asset = a <;> simp [hk, hc, lid] <;> omega
  rw [h1, sumBy_add]
  congr 1
  cases hg : getLend ls k with
  | none => exact sumBy_pick_none lid _ ls k (find_none lid ls k hg)
  | some l =>
    obtain ⟨hm, hid⟩ := getLend_mem hg
    subst hid
    exact sumBy_pick lid (fun l => if l.pool = p ∧ l.asset = a then x else 0) ls l hu hm

/-- one lend replaced (same id, pool, asset), pledges shifted by `x` on that lend -/
theorem lendSum_set (ls : List Lend) (bs bs' : List Borrow) (l l' : Lend) (x : Int) (hu : Uniq lid ls)
    (hg : getLend ls l.id = some l) (hid : l'.id = l.id) (hp : l'.pool = l.pool) (ha : l'.asset = l.asset)
    (hpl : ∀ j, pledgedOf bs' j = pledgedOf bs j + if j = l.id then x else 0) (p a : Nat) :
    lendSum (setLend ls l') bs' p a = lendSum ls bs p a + if l.pool = p ∧ l.asset = a then (l'.avail - l.avail) + x else 0 := by
  obtain ⟨hm, _⟩ := getLend_mem hg
  rw [lendSum_eq, setLend_eq, sumBy_put lid (lc bs' p a) ls l l' hu hm (by simp [lid, hid]), ← lendSum_eq,
    lendSum_shift ls bs bs' l.id x hu hpl p a, hg]
  unfold lc
  rw [hid, hp, ha]
  by_cases hc : l.pool = p ∧ l.asset = a <;> simp [hc] <;> omega

theorem lendSum_append (ls : List Lend) (bs : List Borrow) (l : Lend) (p a : Nat) (h0 : pledgedOf bs l.id = 0) :
    lendSum (ls ++ [l]) bs p a = lendSum ls bs p a + if l.pool = p ∧ l.asset = a then l.avail else 0 := by
  rw [lendSum_eq, sumBy_append, ← lendSum_eq]; unfold lc; rw [h0]
  by_cases hc : l.pool = p ∧ l.asset = a <;> simp [hc]

theorem lendSum_del (ls : List Lend) (bs : List Borrow) (l : Lend) (hu : Uniq lid ls) (hg : getLend ls l.id = some l) (p a : Nat) :
    lendSum (delLend ls l.id) bs p a = lendSum ls bs p a - if l.pool = p ∧ l.asset = a then l.avail + pledgedOf bs l.id else 0 := by
  obtain ⟨hm, _⟩ := getLend_mem hg
  rw [lendSum_eq, delLend_eq]
  have := sumBy_del lid (lc bs p a) ls l hu hm
  simp only [lid] at this
  rw [this, ← lendSum_eq]; rfl

/-! ### pledges under borrow-store updates -/

theorem pledged_put (bs : List Borrow) (b b' : Borrow) (hu : Uniq bid bs) (hg : getBorrow bs b.id = some b)
    (hid : b'.id = b.id) (hl : b'.lendingId = b.lendingId) (j : Nat) :
    pledgedOf (setBorrow bs b') j = pledgedOf bs j +
      if j = b.lendingId then (if b'.liq = false then b'.amountIn else 0) - (if b.liq = false then b.amountIn else 0) else 0 := by
  obtain ⟨hm, _⟩ := getBorrow_mem hg
  rw [pledgedOf_eq, setBorrow_eq, sumBy_put bid (pl j) bs b b' hu hm (by simp [bid, hid]), ← pledgedOf_eq]
  unfold pl; rw [hl]
  by_cases hj : j = b.lendingId
  · subst hj; by_cases h1 : b'.liq = false <;> by_cases h2 : b.liq = false <;> simp [h1, h2] <;> omega
  · have : ¬ b.lendingId = j := fun e => hj e.symm
    simp [hj, this]

theorem pledged_append (bs : List Borrow) (b : Borrow) (j : Nat) :
    pledgedOf (bs ++ [b]) j = pledgedOf bs j + if j = b.lendingId then (if b.liq = false then b.amountIn else 0) else 0 := by
  rw [pledgedOf_eq, sumBy_append, ← pledgedOf_eq]; unfold pl
  by_cases hj : j = b.lendingId
  · subst hj; by_cases h1 : b.liq = false <;> simp [h1]
  · have : ¬ b.lendingId = j := fun e => hj e.symm
    simp [hj, this]

theorem pledged_del (bs : List Borrow) (b : Borrow) (hu : Uniq bid bs) (hg : getBorrow bs b.id = some b) (j : Nat) :
    pledgedOf (delBorrow bs b.id) j = pledgedOf bs j + if j = b.lendingId then - (if b.liq = false then b.amountIn else 0) else 0 := by
  obtain ⟨hm, _⟩ := getBorrow_mem hg
  rw [pledgedOf_eq, delBorrow_eq]
  have := sumBy_del bid (pl j) bs b hu hm
  simp only [bid] at this
  rw [this, ← pledgedOf_eq]; unfold pl
  by_cases hj : j = b.lendingId
  · subst hj; by_cases h1 : b.liq = false <;> simp [h1] <;> omega
  · have : ¬ b.lendingId = j := fun e => hj e.symm
    simp [hj, this]

/-- no borrow refers to lend `k` ⇒ nothing is pledged on it -/
theorem pledged_none (bs : List Borrow) (k : Nat) (h : ∀ b ∈ bs, b.lendingId ≠ k) : pledgedOf bs k = 0 := by
  rw [pledgedOf_eq]; apply sumBy_zero; intro b hb; unfold pl; simp [h b hb]

/-! ### borrowed sums under borrow-store updates -/

theorem borrowed_put (cfg : Cfg) (bs : List Borrow) (b b' : Borrow) (hu : Uniq bid bs) (hg : getBorrow bs b.id = some b)
    (hid : b'.id = b.id) (p a : Nat) (st : Bool) :
    borrowedSum cfg (setBorrow bs b') p a st = borrowedSum cfg bs p a st + bo cfg p a st b' - bo cfg p a st b := by
  obtain ⟨hm, _⟩ := getBorrow_mem hg
  rw [borrowedSum_eq, setBorrow_eq, sumBy_put bid (bo cfg p a st) bs b b' hu hm (by simp [bid, hid]), ← borrowedSum_eq]

theorem borrowed_append (cfg : Cfg) (bs : List Borrow) (b : Borrow) (p a : Nat) (st : Bool) :
    borrowedSum cfg (bs ++ [b]) p a st = borrowedSum cfg bs p a st + bo cfg p a st b := by
  rw [borrowedSum_eq, sumBy_append, ← borrowedSum_eq]

theorem borrowed_del (cfg : Cfg) (bs : List Borrow) (b : Borrow) (hu : Uniq bid bs) (hg : getBorrow bs b.id = some b) (p a : Nat) (st : Bool) :
    borrowedSum cfg (delBorrow bs b.id) p a st = borrowedSum cfg bs p a st - bo cfg p a st b := by
  obtain ⟨hm, _⟩ := getBorrow_mem hg
  rw [borrowedSum_eq, delBorrow_eq]
  have := sumBy_del bid (bo cfg p a st) bs b hu hm
  simp only [bid] at this
  rw [this, ← borrowedSum_eq]

/-! ### totals -/

theorem mem_modStats {ss : List Stats} {p a : Nat} {f : Stats → Stats} {st : Stats} (h : st ∈ modStats ss p a f) :
    ∃ s0 ∈ ss, st = if s0.pool = p ∧ s0.asset = a then f s0 else s0 := by
  unfold modStats at h
  obtain ⟨y, hy, rfl⟩ := List.mem_map.mp h
  exact ⟨y, hy, rfl⟩

/-- a totals projection that tracks `F` keeps tracking `F'` when both move by `d` on the key `(p, a)` -/
theorem stats_mod (proj : Stats → Int) (F F' : Nat → Nat → Int) (ss : List Stats) (p a : Nat) (f : Stats → Stats) (d : Int)
    (hkey : ∀ st, (f st).pool = st.pool ∧ (f st).asset = st.asset)
    (hproj : ∀ st, proj (f st) = proj st + d)
    (hF : ∀ p' a', F' p' a' = F p' a' + if p' = p ∧ a' = a then d else 0)
    (h : ∀ st ∈ ss, proj st = F st.pool st.asset) :
    ∀ st ∈ modStats ss p a f, proj st = F' st.pool st.asset := by
  intro st hst
  obtain ⟨s0, hs0, rfl⟩ := mem_modStats hst
  by_cases hc : s0.pool = p ∧ s0.asset = a
  · simp only [hc, and_self, if_true]
    rw [hproj, (hkey s0).1, (hkey s0).2, hF, h s0 hs0]; simp [hc]
  · simp only [hc, if_false]
    rw [hF, h s0 hs0]; simp [hc]

/-! ## The book invariant -/

/-- the published borrowed total of the given kind (`true` = stable) -/
def projB (sf : Bool) (st : Stats) : Int := if sf then st.totalStable else st.totalBorrowed

/-- Well-formedness of the stores plus the two borrowed-total identities. -/
structure Core (cfg : Cfg) (ls : List Lend) (bs : List Borrow) (ss : List Stats) (lc bc : Nat) : Prop where
  lu : Uniq lid ls
  ll : ∀ l ∈ ls, l.id ≤ lc
  bu : Uniq bid bs
  bl : ∀ b ∈ bs, b.id ≤ bc
  br : ∀ b ∈ bs, b.lendingId ≤ lc
  tbs : ∀ sf, ∀ st ∈ ss, projB sf st = borrowedSum cfg bs st.pool st.asset sf

/-- the lent-total identity -/
def TL (ls : List Lend) (bs : List Borrow) (ss : List Stats) : Prop :=
  ∀ st ∈ ss, st.totalLend = lendSum ls bs st.pool st.asset

theorem pairOut_of_pair {cfg : Cfg} {k : Nat} {pair : PairCfg} (h : cfg.pair? k = some pair) :
    cfg.pairOut k = some (pair.outPool, pair.assetOut) := by
  unfold Cfg.pairOut; rw [h]

/-! ### how the three stat modifiers act on the three identities -/

theorem tl_of_addTotalLend (ls ls' : List Lend) (bs bs' : List Borrow) (ss : List Stats) (p a : Nat) (d : Int) (h : TL ls bs ss)
    (hF : ∀ p' a', lendSum ls' bs' p' a' = lendSum ls bs p' a' + if p' = p ∧ a' = a then d else 0) :
    TL ls' bs' (addTotalLend ss p a d) :=
  stats_mod (fun st => st.totalLend) (lendSum ls bs) (lendSum ls' bs') ss p a _ d (fun _ => ⟨rfl, rfl⟩) (fun _ => rfl) hF h

theorem tl_of_addBorrowed (ls ls' : List Lend) (bs bs' : List Borrow) (ss : List Stats) (p a : Nat) (sb : Bool) (d : Int) (h : TL ls bs ss)
    (hF : ∀ p' a', lendSum ls' bs' p' a' = lendSum ls bs p' a') :
    TL ls' bs' (addBorrowed ss p a sb d) :=
  stats_mod (fun st => st.totalLend) (lendSum ls bs) (lendSum ls' bs') ss p a _ 0
    (fun st => by cases sb <;> exact ⟨rfl, rfl⟩) (fun st => by cases sb <;> simp) (fun p' a' => by simp [hF]) h

theorem tl_of_addTotalInterest (ls : List Lend) (bs : List Borrow) (ss : List Stats) (p a : Nat) (d : Int) (h : TL ls bs ss) :
    TL ls bs (addTotalInterest ss p a d) :=
  stats_mod (fun st => st.totalLend) (lendSum ls bs) (lendSum ls bs) ss p a _ 0
    (fun _ => ⟨rfl, rfl⟩) (fun _ => by simp) (fun p' a' => by simp) h

theorem tl_congr (ls ls' : List Lend) (bs bs' : List Borrow) (ss : List Stats) (h : TL ls bs ss)
    (hF : ∀ p' a', lendSum ls' bs' p' a' = lendSum ls bs p' a') : TL ls' bs' ss := by
  intro st hst; rw [hF]; exact h st hst

theorem tbs_of_addTotalLend (cfg : Cfg) (bs : List Borrow) (ss : List Stats) (p a : Nat) (d : Int)
    (h : ∀ sf, ∀ st ∈ ss, projB sf st = borrowedSum cfg bs st.pool st.asset sf) :
    ∀ sf, ∀ st ∈ addTotalLend ss p a d, projB sf st = borrowedSum cfg bs st.pool st.asset sf := fun sf =>
  stats_mod (projB sf) (fun p a => borrowedSum cfg bs p a sf) (fun p a => borrowedSum cfg bs p a sf) ss p a _ 0
    (fun _ => ⟨rfl, rfl⟩) (fun st => by cases sf <;> simp [projB]) (fun p' a' => by simp) (h sf)

theorem tbs_of_addTotalInterest (cfg : Cfg) (bs : List Borrow) (ss : List Stats) (p a : Nat) (d : Int)
    (h : ∀ sf, ∀ st ∈ ss, projB sf st = borrowedSum cfg bs st.pool st.asset sf) :
    ∀ sf, ∀ st ∈ addTotalInterest ss p a d, projB sf st = borrowedSum cfg bs st.pool st.asset sf := fun sf =>
  stats_mod (projB sf) (fun p a => borrowedSum cfg bs p a sf) (fun p a => borrowedSum cfg bs p a sf) ss p a _ 0
    (fun _ => ⟨rfl, rfl⟩) (fun st => by cases sf <;> simp [projB]) (fun p' a' => by simp) (h sf)

theorem tbs_of_addBorrowed (cfg : Cfg) (bs bs' : List Borrow) (ss : List Stats) (p a : Nat) (sb : Bool) (d : Int)
    (h : ∀ sf, ∀ st ∈ ss, projB sf st = borrowedSum cfg bs st.pool st.asset sf)
    (hF : ∀ sf p' a', borrowedSum cfg bs' p' a' sf = borrowedSum cfg bs p' a' sf + if p' = p ∧ a' = a then (if sb = sf then d else 0) else 0) :
    ∀ sf, ∀ st ∈ addBorrowed ss p a sb d, projB sf st = borrowedSum cfg bs' st.pool st.asset sf := fun sf =>
  stats_mod (projB sf) (fun p a => borrowedSum cfg bs p a sf) (fun p a => borrowedSum cfg bs' p a sf) ss p a _ (if sb = sf then d else 0)
    (fun st => by cases sb <;> exact ⟨rfl, rfl⟩) (fun st => by cases sb <;> cases sf <;> simp [projB]) (hF sf) (h sf)

theorem tbs_congr (cfg : Cfg) (bs bs' : List Borrow) (ss : List Stats)
    (h : ∀ sf, ∀ st ∈ ss, projB sf st = borrowedSum cfg bs st.pool st.asset sf)
    (hF : ∀ sf p' a', borrowedSum cfg bs' p' a' sf = borrowedSum cfg bs p' a' sf) :
    ∀ sf, ∀ st ∈ ss, projB sf st = borrowedSum cfg bs' st.pool st.asset sf := by
  intro sf st hst; rw [hF]; exact h sf st hst

/-! ### id-list updates leave the totals alone -/

/-- a stats modifier that keeps the key and the three published totals the identities speak about (the id-list updates) -/
def IdsOnly (f : Stats → Stats) : Prop :=
  ∀ st, (f st).pool = st.pool ∧ (f st).asset = st.asset ∧ (f st).totalLend = st.totalLend ∧
    (f st).totalBorrowed = st.totalBorrowed ∧ (f st).totalStable = st.totalStable

theorem idsOnly_addLend (id : Nat) : IdsOnly fun s => { s with lendIds := s.lendIds ++ [id] } := fun _ => ⟨rfl, rfl, rfl, rfl, rfl⟩
theorem idsOnly_delLend (id : Nat) : IdsOnly fun s => { s with lendIds := delId s.lendIds id } := fun _ => ⟨rfl, rfl, rfl, rfl, rfl⟩
theorem idsOnly_addBorrow (id : Nat) : IdsOnly fun s => { s with borrowIds := s.borrowIds ++ [id] } := fun _ => ⟨rfl, rfl, rfl, rfl, rfl⟩
theorem idsOnly_delBorrow (id : Nat) : IdsOnly fun s => { s with borrowIds := delId s.borrowIds id } := fun _ => ⟨rfl, rfl, rfl, rfl, rfl⟩

theorem tl_modIds {ls : List Lend} {bs : List Borrow} {ss : List Stats} (p a : Nat) {f : Stats → Stats} (hf : IdsOnly f) (h : TL ls bs ss) :
    TL ls bs (modStats ss p a f) :=
  stats_mod (fun st => st.totalLend) (lendSum ls bs) (lendSum ls bs) ss p a f 0 (fun st => ⟨(hf st).1, (hf st).2.1⟩)
    (fun st => by simp [(hf st).2.2.1]) (fun _ _ => by simp) h

theorem tbs_modIds (cfg : Cfg) (bs : List Borrow) (ss : List Stats) (p a : Nat) {f : Stats → Stats} (hf : IdsOnly f)
    (h : ∀ sf, ∀ st ∈ ss, projB sf st = borrowedSum cfg bs st.pool st.asset sf) :
    ∀ sf, ∀ st ∈ modStats ss p a f, projB sf st = borrowedSum cfg bs st.pool st.asset sf := fun sf =>
  stats_mod (projB sf) (fun p a => borrowedSum cfg bs p a sf) (fun p a => borrowedSum cfg bs p a sf) ss p a f 0
    (fun st => ⟨(hf st).1, (hf st).2.1⟩) (fun st => by cases sf <;> simp [projB, (hf st).2.2.2.1, (hf st).2.2.2.2]) (fun _ _ => by simp) (h sf)

/-! ## Elementary book transitions preserve the invariant -/

section transitions
variable {cfg : Cfg} {ls : List Lend} {bs : List Borrow} {ss : List Stats} {lc bc : Nat}

/-- T1: interest bookkeeping only -/
theorem core_interest (h : Core cfg ls bs ss lc bc) (p a : Nat) (d : Int) : Core cfg ls bs (addTotalInterest ss p a d) lc bc :=
  { h with tbs := tbs_of_addTotalInterest cfg bs ss p a d h.tbs }

/-- T1b: an id-list update -/
theorem core_modIds (h : Core cfg ls bs ss lc bc) (p a : Nat) {f : Stats → Stats} (hf : IdsOnly f) : Core cfg ls bs (modStats ss p a f) lc bc :=
  { h with tbs := tbs_modIds cfg bs ss p a hf h.tbs }

/-- T2: one lend's availability (and principal) moves by `d`, the lent total with it (deposit, withdraw, reward) -/
theorem core_lendDelta (h : Core cfg ls bs ss lc bc) {l l' : Lend} (hg : getLend ls l.id = some l) (hid : l'.id = l.id) (d : Int) :
    Core cfg (setLend ls l') bs (addTotalLend ss l.pool l.asset d) lc bc := by
  obtain ⟨hm, _⟩ := getLend_mem hg
  refine { h with lu := uniq_put lid ls l' h.lu, ll := ?_, tbs := tbs_of_addTotalLend cfg bs ss _ _ d h.tbs }
  intro x hx
  rcases mem_put lid ls l' x hx with rfl | ⟨hx', _⟩
  · rw [hid]; exact h.ll l hm
  · exact h.ll x hx'

theorem tl_lendDelta (h : Core cfg ls bs ss lc bc) (t : TL ls bs ss) {l l' : Lend} (hg : getLend ls l.id = some l) (hid : l'.id = l.id)
    (hp : l'.pool = l.pool) (ha : l'.asset = l.asset) (d : Int) (hd : l'.avail = l.avail + d) :
    TL (setLend ls l') bs (addTotalLend ss l.pool l.asset d) := by
  apply tl_of_addTotalLend ls _ bs bs ss _ _ d t
  intro p' a'
  rw [lendSum_set ls bs bs l l' 0 h.lu hg hid hp ha (fun j => by simp) p' a', hd]
  by_cases hc : l.pool = p' ∧ l.asset = a'
  · obtain ⟨rfl, rfl⟩ := hc
    simp; omega
  · have hc' : ¬ (p' = l.pool ∧ a' = l.asset) := fun e => hc ⟨e.1.symm, e.2.symm⟩
    rw [if_neg hc, if_neg hc']; try omega

/-- T3: a fresh lend position -/
theorem core_lendNew (h : Core cfg ls bs ss lc bc) (l : Lend) (hid : l.id = lc + 1) (d : Int) :
    Core cfg (ls ++ [l]) bs (addTotalLend ss l.pool l.asset d) (lc + 1) bc := by
  refine { lu := uniq_append lid ls l h.lu ?_, ll := ?_, bu := h.bu, bl := h.bl, br := ?_, tbs := tbs_of_addTotalLend cfg bs ss _ _ d h.tbs }
  · intro x hx; have := h.ll x hx; simp only [lid]; omega
  · intro x hx
    rcases List.mem_append.mp hx with hx | hx
    · have := h.ll x hx; omega
    · simp at hx; subst hx; omega
  · intro b hb; have := h.br b hb; omega

theorem tl_lendNew (h : Core cfg ls bs ss lc bc) (t : TL ls bs ss) (l : Lend) (hid : l.id = lc + 1) :
    TL (ls ++ [l]) bs (addTotalLend ss l.pool l.asset l.avail) := by
  apply tl_of_addTotalLend ls _ bs bs ss _ _ _ t
  intro p' a'
  rw [lendSum_append ls bs l p' a' (pledged_none bs l.id (fun b hb => by have := h.br b hb; omega))]
  by_cases hc : l.pool = p' ∧ l.asset = a'
  · obtain ⟨rfl, rfl⟩ := hc
    simp
  · have hc' : ¬ (p' = l.pool ∧ a' = l.asset) := fun e => hc ⟨e.1.symm, e.2.symm⟩
    rw [if_neg hc, if_neg hc']; try omega

/-- T4: closing a lend position nobody borrows against -/
theorem core_lendClose (h : Core cfg ls bs ss lc bc) (k : Nat) (p a : Nat) (d : Int) :
    Core cfg (delLend ls k) bs (addTotalLend ss p a d) lc bc := by
  refine { h with lu := uniq_del lid ls k h.lu, ll := ?_, tbs := tbs_of_addTotalLend cfg bs ss _ _ d h.tbs }
  intro x hx; exact h.ll x (mem_del lid ls k x hx).1

theorem borrowsOfLend_empty {bs : List Borrow} {k : Nat} (h : (borrowsOfLend bs k).isEmpty = true) : ∀ b ∈ bs, b.lendingId ≠ k := by
  intro b hb e
  have : b ∈ borrowsOfLend bs k := by unfold borrowsOfLend; exact List.mem_filter.mpr ⟨hb, by simp [e]⟩
  rw [List.isEmpty_iff.mp h] at this
  cases this

theorem tl_lendClose (h : Core cfg ls bs ss lc bc) (t : TL ls bs ss) {l : Lend} (hg : getLend ls l.id = some l)
    (he : (borrowsOfLend bs l.id).isEmpty = true) :
    TL (delLend ls l.id) bs (addTotalLend ss l.pool l.asset (-l.avail)) := by
  apply tl_of_addTotalLend ls _ bs bs ss _ _ _ t
  intro p' a'
  rw [lendSum_del ls bs l h.lu hg p' a', pledged_none bs l.id (borrowsOfLend_empty he)]
  by_cases hc : l.pool = p' ∧ l.asset = a'
  · obtain ⟨rfl, rfl⟩ := hc
    simp; omega
  · have hc' : ¬ (p' = l.pool ∧ a' = l.asset) := fun e => hc ⟨e.1.symm, e.2.symm⟩
    rw [if_neg hc, if_neg hc']; try omega

theorem bo_val {b : Borrow} {pair : PairCfg} (hp : cfg.pair? b.pairId = some pair) (hq : b.liq = false) (p' a' : Nat) (sf : Bool) :
    bo cfg p' a' sf b = if p' = pair.outPool ∧ a' = pair.assetOut then (if b.stable = sf then b.amountOut else 0) else 0 := by
  unfold bo; rw [pairOut_of_pair hp]
  by_cases hc : p' = pair.outPool ∧ a' = pair.assetOut
  · obtain ⟨rfl, rfl⟩ := hc
    by_cases hs : b.stable = sf <;> simp [hq, hs]
  · rw [if_neg hc]
    have : ¬ (some (pair.outPool, pair.assetOut) = some (p', a')) := by
      intro e; injection e with e; injection e with e1 e2; exact hc ⟨e1.symm, e2.symm⟩
    simp [this]

theorem bo_liq {b : Borrow} (hq : b.liq = true) (p' a' : Nat) (sf : Bool) : bo cfg p' a' sf b = 0 := by
  unfold bo; simp [hq]

/-- T5: a new borrow against lend `l` -/
theorem core_borrowNew (h : Core cfg ls bs ss lc bc) {l l' : Lend} (hg : getLend ls l.id = some l) (hid : l'.id = l.id)
    {pair : PairCfg} (b : Borrow) (hp : cfg.pair? b.pairId = some pair) (hb : b.id = bc + 1) (hl : b.lendingId = l.id) (hq : b.liq = false) :
    Core cfg (setLend ls l') (bs ++ [b]) (addBorrowed ss pair.outPool pair.assetOut b.stable b.amountOut) lc (bc + 1) := by
  obtain ⟨hm, _⟩ := getLend_mem hg
  refine { lu := uniq_put lid ls l' h.lu, ll := ?_, bu := uniq_append bid bs b h.bu ?_, bl := ?_, br := ?_, tbs := ?_ }
  · intro x hx
    rcases mem_put lid ls l' x hx with rfl | ⟨hx', _⟩
    · rw [hid]; exact h.ll l hm
    · exact h.ll x hx'
  · intro x hx; have := h.bl x hx; simp only [bid]; omega
  · intro x hx
    rcases List.mem_append.mp hx with hx | hx
    · have := h.bl x hx; omega
    · simp at hx; subst hx; omega
  · intro x hx
    rcases List.mem_append.mp hx with hx | hx
    · exact h.br x hx
    · simp at hx; subst hx; rw [hl]; exact h.ll l hm
  · apply tbs_of_addBorrowed cfg bs _ ss _ _ _ _ h.tbs
    intro sf p' a'
    rw [borrowed_append, bo_val hp hq]

theorem tl_borrowNew (h : Core cfg ls bs ss lc bc) (t : TL ls bs ss) {l l' : Lend} (hg : getLend ls l.id = some l) (hid : l'.id = l.id)
    (hpo : l'.pool = l.pool) (has : l'.asset = l.asset) (b : Borrow) (hl : b.lendingId = l.id) (hq : b.liq = false)
    (hav : l'.avail = l.avail - b.amountIn) (p a : Nat) (sb : Bool) (d : Int) :
    TL (setLend ls l') (bs ++ [b]) (addBorrowed ss p a sb d) := by
  apply tl_of_addBorrowed ls _ bs _ ss _ _ _ _ t
  intro p' a'
  rw [lendSum_set ls bs (bs ++ [b]) l l' b.amountIn h.lu hg hid hpo has (fun j => by rw [pledged_append, hl]; simp [hq]) p' a', hav]
  by_cases hc : l.pool = p' ∧ l.asset = a'
  · rw [if_pos hc]; omega
  · rw [if_neg hc]; omega

/-- T6: more collateral pledged to an open borrow -/
theorem core_borrowSet (h : Core cfg ls bs ss lc bc) {b b' : Borrow} (hg : getBorrow bs b.id = some b) (hid : b'.id = b.id)
    (hl : b'.lendingId = b.lendingId) (hF : ∀ sf p' a', bo cfg p' a' sf b' = bo cfg p' a' sf b) :
    Core cfg ls (setBorrow bs b') ss lc bc := by
  obtain ⟨hm, _⟩ := getBorrow_mem hg
  refine { h with bu := uniq_put bid bs b' h.bu, bl := ?_, br := ?_, tbs := ?_ }
  · intro x hx
    rcases mem_put bid bs b' x hx with rfl | ⟨hx', _⟩
    · rw [hid]; exact h.bl b hm
    · exact h.bl x hx'
  · intro x hx
    rcases mem_put bid bs b' x hx with rfl | ⟨hx', _⟩
    · rw [hl]; exact h.br b hm
    · exact h.br x hx'
  · apply tbs_congr cfg bs _ ss h.tbs
    intro sf p' a'
    rw [borrowed_put cfg bs b b' h.bu hg hid, hF]; omega

theorem core_setLend (h : Core cfg ls bs ss lc bc) {l l' : Lend} (hg : getLend ls l.id = some l) (hid : l'.id = l.id) :
    Core cfg (setLend ls l') bs ss lc bc := by
  obtain ⟨hm, _⟩ := getLend_mem hg
  refine { h with lu := uniq_put lid ls l' h.lu, ll := ?_ }
  intro x hx
  rcases mem_put lid ls l' x hx with rfl | ⟨hx', _⟩
  · rw [hid]; exact h.ll l hm
  · exact h.ll x hx'

theorem bo_same {b b' : Borrow} (h1 : b'.liq = b.liq) (h2 : b'.stable = b.stable) (h3 : b'.pairId = b.pairId) (h4 : b'.amountOut = b.amountOut)
    (sf : Bool) (p' a' : Nat) : bo cfg p' a' sf b' = bo cfg p' a' sf b := by
  unfold bo; rw [h1, h2, h3, h4]

theorem tl_borrowPledge (h : Core cfg ls bs ss lc bc) (t : TL ls bs ss) {b b' : Borrow} {l l' : Lend} (hg : getBorrow bs b.id = some b)
    (hid : b'.id = b.id) (hl : b'.lendingId = b.lendingId) (hq : b.liq = false) (hq' : b'.liq = false)
    (hgl : getLend ls b.lendingId = some l) (hlid : l'.id = l.id) (hpo : l'.pool = l.pool) (has : l'.asset = l.asset)
    (x : Int) (hx : b'.amountIn = b.amountIn + x) (hav : l'.avail = l.avail - x) :
    TL (setLend ls l') (setBorrow bs b') ss := by
  have hlk : l.id = b.lendingId := (getLend_mem hgl).2
  apply tl_congr ls _ bs _ ss t
  intro p' a'
  rw [lendSum_set ls bs (setBorrow bs b') l l' x h.lu (by rw [hlk]; exact hgl) hlid hpo has
    (fun j => by rw [pledged_put bs b b' h.bu hg hid hl j, hlk, hq, hq', hx]; by_cases hj : j = b.lendingId <;> simp [hj] <;> omega) p' a', hav]
  by_cases hc : l.pool = p' ∧ l.asset = a'
  · rw [if_pos hc]; omega
  · rw [if_neg hc]; omega

/-- T7: a borrow record changes without touching pledge, principal, flags (interest accrual, interest repayment) -/
theorem tl_borrowTouch (h : Core cfg ls bs ss lc bc) (t : TL ls bs ss) {b b' : Borrow} (hg : getBorrow bs b.id = some b)
    (hid : b'.id = b.id) (hl : b'.lendingId = b.lendingId) (hq : b'.liq = b.liq) (hx : b'.amountIn = b.amountIn) :
    TL ls (setBorrow bs b') ss := by
  apply tl_congr ls _ bs _ ss t
  intro p' a'
  rw [lendSum_shift ls bs (setBorrow bs b') b.lendingId 0 h.lu
    (fun j => by rw [pledged_put bs b b' h.bu hg hid hl j, hq, hx]; simp) p' a']
  cases getLend ls b.lendingId <;> simp

/-- T8: the principal of an open borrow moves by `y`, the borrowed total with it (draw, repayment of principal) -/
theorem core_borrowOut (h : Core cfg ls bs ss lc bc) {b b' : Borrow} {pair : PairCfg} (hg : getBorrow bs b.id = some b) (hid : b'.id = b.id)
    (hl : b'.lendingId = b.lendingId) (hq : b.liq = false) (hq' : b'.liq = false) (hs : b'.stable = b.stable) (hpi : b'.pairId = b.pairId)
    (hp : cfg.pair? b.pairId = some pair) (y : Int) (hy : b'.amountOut = b.amountOut + y) :
    Core cfg ls (setBorrow bs b') (addBorrowed ss pair.outPool pair.assetOut b.stable y) lc bc := by
  obtain ⟨hm, _⟩ := getBorrow_mem hg
  refine { h with bu := uniq_put bid bs b' h.bu, bl := ?_, br := ?_, tbs := ?_ }
  · intro x hx
    rcases mem_put bid bs b' x hx with rfl | ⟨hx', _⟩
    · rw [hid]; exact h.bl b hm
    · exact h.bl x hx'
  · intro x hx
    rcases mem_put bid bs b' x hx with rfl | ⟨hx', _⟩
    · rw [hl]; exact h.br b hm
    · exact h.br x hx'
  · apply tbs_of_addBorrowed cfg bs _ ss _ _ _ _ h.tbs
    intro sf p' a'
    rw [borrowed_put cfg bs b b' h.bu hg hid, bo_val hp hq, bo_val (by rw [hpi]; exact hp) hq', hs, hy]
    by_cases hc : p' = pair.outPool ∧ a' = pair.assetOut <;> by_cases hs' : b.stable = sf <;>
      simp only [hc, hs', if_true, if_false, and_self] <;> omega

theorem tl_stats_borrowed (t : TL ls bs ss) (p a : Nat) (sb : Bool) (d : Int) : TL ls bs (addBorrowed ss p a sb d) :=
  tl_of_addBorrowed ls ls bs bs ss p a sb d t (fun _ _ => rfl)

/-- T9: closing a borrow: the pledge returns to the lend's availability, the principal leaves the borrowed total -/
theorem core_borrowClose (h : Core cfg ls bs ss lc bc) {b : Borrow} {l l' : Lend} {pair : PairCfg} (hg : getBorrow bs b.id = some b)
    (hq : b.liq = false) (hp : cfg.pair? b.pairId = some pair) (hgl : getLend ls l.id = some l) (hlid : l'.id = l.id) :
    Core cfg (setLend ls l') (delBorrow bs b.id) (addBorrowed ss pair.outPool pair.assetOut b.stable (-b.amountOut)) lc bc := by
  obtain ⟨hm, _⟩ := getLend_mem hgl
  refine { lu := uniq_put lid ls l' h.lu, ll := ?_, bu := uniq_del bid bs b.id h.bu, bl := ?_, br := ?_, tbs := ?_ }
  · intro x hx
    rcases mem_put lid ls l' x hx with rfl | ⟨hx', _⟩
    · rw [hlid]; exact h.ll l hm
    · exact h.ll x hx'
  · intro x hx; exact h.bl x (mem_del bid bs b.id x hx).1
  · intro x hx; exact h.br x (mem_del bid bs b.id x hx).1
  · apply tbs_of_addBorrowed cfg bs _ ss _ _ _ _ h.tbs
    intro sf p' a'
    rw [borrowed_del cfg bs b h.bu hg, bo_val hp hq]
    by_cases hc : p' = pair.outPool ∧ a' = pair.assetOut <;> by_cases hs' : b.stable = sf <;>
      simp only [hc, hs', if_true, if_false, and_self] <;> omega

theorem tl_borrowClose (h : Core cfg ls bs ss lc bc) (t : TL ls bs ss) {b : Borrow} {l l' : Lend} (hg : getBorrow bs b.id = some b)
    (hq : b.liq = false) (hgl : getLend ls b.lendingId = some l) (hlid : l'.id = l.id) (hpo : l'.pool = l.pool) (has : l'.asset = l.asset)
    (hav : l'.avail = l.avail + b.amountIn) :
    TL (setLend ls l') (delBorrow bs b.id) ss := by
  have hlk : l.id = b.lendingId := (getLend_mem hgl).2
  apply tl_congr ls _ bs _ ss t
  intro p' a'
  rw [lendSum_set ls bs (delBorrow bs b.id) l l' (-b.amountIn) h.lu (by rw [hlk]; exact hgl) hlid hpo has
    (fun j => by rw [pledged_del bs b h.bu hg j, hlk, hq]; simp) p' a', hav]
  by_cases hc : l.pool = p' ∧ l.asset = a'
  · rw [if_pos hc]; omega
  · rw [if_neg hc]; omega

/-- T10a: a borrow is handed over to a liquidation auction: it leaves the borrowed total -/
theorem core_borrowLiq (h : Core cfg ls bs ss lc bc) {b b' : Borrow} {pair : PairCfg} (hg : getBorrow bs b.id = some b) (hid : b'.id = b.id)
    (hl : b'.lendingId = b.lendingId) (hq : b.liq = false) (hq' : b'.liq = true) (hp : cfg.pair? b.pairId = some pair) :
    Core cfg ls (setBorrow bs b') (addBorrowed ss pair.outPool pair.assetOut b.stable (-b.amountOut)) lc bc := by
  obtain ⟨hm, _⟩ := getBorrow_mem hg
  refine { h with bu := uniq_put bid bs b' h.bu, bl := ?_, br := ?_, tbs := ?_ }
  · intro x hx
    rcases mem_put bid bs b' x hx with rfl | ⟨hx', _⟩
    · rw [hid]; exact h.bl b hm
    · exact h.bl x hx'
  · intro x hx
    rcases mem_put bid bs b' x hx with rfl | ⟨hx', _⟩
    · rw [hl]; exact h.br b hm
    · exact h.br x hx'
  · apply tbs_of_addBorrowed cfg bs _ ss _ _ _ _ h.tbs
    intro sf p' a'
    rw [borrowed_put cfg bs b b' h.bu hg hid, bo_val hp hq, bo_liq hq']
    by_cases hc : p' = pair.outPool ∧ a' = pair.assetOut <;> by_cases hs' : b.stable = sf <;>
      simp only [hc, hs', if_true, if_false, and_self] <;> omega

/-- T10b: hand-over, the lend position survives: its pledge leaves the lent total -/
theorem tl_handoverKeep (h : Core cfg ls bs ss lc bc) (t : TL ls bs ss) {b b' : Borrow} {l l' : Lend} (hg : getBorrow bs b.id = some b)
    (hid : b'.id = b.id) (hl : b'.lendingId = b.lendingId) (hq : b.liq = false) (hq' : b'.liq = true)
    (hgl : getLend ls b.lendingId = some l) (hlid : l'.id = l.id) (hpo : l'.pool = l.pool) (has : l'.asset = l.asset)
    (hav : l'.avail = l.avail) (p a : Nat) (sb : Bool) (d : Int) :
    TL (setLend ls l') (setBorrow bs b') (addTotalLend (addBorrowed ss p a sb d) l.pool l.asset (-b.amountIn)) := by
  have hlk : l.id = b.lendingId := (getLend_mem hgl).2
  apply tl_of_addTotalLend ls _ bs _ _ _ _ _ (tl_stats_borrowed t p a sb d)
  intro p' a'
  rw [lendSum_set ls bs (setBorrow bs b') l l' (-b.amountIn) h.lu (by rw [hlk]; exact hgl) hlid hpo has
    (fun j => by rw [pledged_put bs b b' h.bu hg hid hl j, hlk, hq, hq']; by_cases hj : j = b.lendingId <;> simp [hj]) p' a', hav]
  by_cases hc : l.pool = p' ∧ l.asset = a'
  · obtain ⟨rfl, rfl⟩ := hc
    simp
  · have hc' : ¬ (p' = l.pool ∧ a' = l.asset) := fun e => hc ⟨e.1.symm, e.2.symm⟩
    rw [if_neg hc, if_neg hc']

/-- T10c: hand-over that deletes the lend position: sound only when nothing else is left in the position -/
theorem tl_handoverDel (h : Core cfg ls bs ss lc bc) (t : TL ls bs ss) {b b' : Borrow} {l : Lend} (hg : getBorrow bs b.id = some b)
    (hid : b'.id = b.id) (hl : b'.lendingId = b.lendingId) (hq : b.liq = false) (hq' : b'.liq = true)
    (hgl : getLend ls b.lendingId = some l) (hclean : l.avail + pledgedOf bs l.id = b.amountIn) (p a : Nat) (sb : Bool) (d : Int) :
    TL (delLend ls l.id) (setBorrow bs b') (addTotalLend (addBorrowed ss p a sb d) l.pool l.asset (-b.amountIn)) := by
  have hlk : l.id = b.lendingId := (getLend_mem hgl).2
  have hgl' : getLend ls l.id = some l := by rw [hlk]; exact hgl
  apply tl_of_addTotalLend ls _ bs _ _ _ _ _ (tl_stats_borrowed t p a sb d)
  intro p' a'
  have hpl : ∀ j, pledgedOf (setBorrow bs b') j = pledgedOf bs j + if j = b.lendingId then -b.amountIn else 0 := fun j => by
    rw [pledged_put bs b b' h.bu hg hid hl j, hq, hq']; by_cases hj : j = b.lendingId <;> simp [hj]
  rw [lendSum_del ls (setBorrow bs b') l h.lu hgl' p' a', lendSum_shift ls bs (setBorrow bs b') b.lendingId (-b.amountIn) h.lu hpl p' a',
    hgl, hpl l.id, hlk]
  show lendSum ls bs p' a' + (if l.pool = p' ∧ l.asset = a' then -b.amountIn else 0) - _ = _
  by_cases hc : l.pool = p' ∧ l.asset = a'
  · obtain ⟨rfl, rfl⟩ := hc
    simp; rw [hlk] at hclean; omega
  · have hc' : ¬ (p' = l.pool ∧ a' = l.asset) := fun e => hc ⟨e.1.symm, e.2.symm⟩
    rw [if_neg hc, if_neg hc', if_neg hc]; omega

/-- T11: a handed-over borrow is deleted (auction close): it was in no sum -/
theorem core_borrowDelLiq (h : Core cfg ls bs ss lc bc) {b : Borrow} (hg : getBorrow bs b.id = some b) (hq : b.liq = true) :
    Core cfg ls (delBorrow bs b.id) ss lc bc := by
  refine { h with bu := uniq_del bid bs b.id h.bu, bl := ?_, br := ?_, tbs := ?_ }
  · intro x hx; exact h.bl x (mem_del bid bs b.id x hx).1
  · intro x hx; exact h.br x (mem_del bid bs b.id x hx).1
  · apply tbs_congr cfg bs _ ss h.tbs
    intro sf p' a'
    rw [borrowed_del cfg bs b h.bu hg, bo_liq hq]; omega

theorem tl_borrowDelLiq (h : Core cfg ls bs ss lc bc) (t : TL ls bs ss) {b : Borrow} (hg : getBorrow bs b.id = some b) (hq : b.liq = true) :
    TL ls (delBorrow bs b.id) ss := by
  apply tl_congr ls _ bs _ ss t
  intro p' a'
  rw [lendSum_shift ls bs (delBorrow bs b.id) b.lendingId 0 h.lu (fun j => by rw [pledged_del bs b h.bu hg j, hq]; simp) p' a']
  cases getLend ls b.lendingId <;> simp

end transitions
/-! ## Every handler preserves the book invariant -/

def CoreS (cfg : Cfg) (s : State) : Prop := Core cfg s.lends s.borrows s.stats s.lendCtr s.borrowCtr

/-- what a handler preserves: the core invariant (stores well-formed, borrowed totals), and on top of it the lent total -/
def Pres (cfg : Cfg) (s s' : State) : Prop :=
  (CoreS cfg s → CoreS cfg s') ∧ (CoreS cfg s → TotalLendEq s → TotalLendEq s')

theorem Pres.refl (cfg : Cfg) (s : State) : Pres cfg s s := ⟨id, fun _ h => h⟩
theorem Pres.trans {cfg : Cfg} {s1 s2 s3 : State} (a : Pres cfg s1 s2) (b : Pres cfg s2 s3) : Pres cfg s1 s3 :=
  ⟨fun h => b.1 (a.1 h), fun h t => b.2 (a.1 h) (a.2 h t)⟩

@[simp] theorem orErr_ok_iff {α} {o : Option α} {e : String} {v : α} : orErr o e = .ok v ↔ o = some v := by
  cases o <;> simp [orErr]
@[simp] theorem check_ok_iff {c : Bool} {e : String} {u : Unit} : check c e = .ok u ↔ c = true := by
  cases c <;> simp [check]

theorem getLend_id {ls : List Lend} {k : Nat} {l : Lend} (h : getLend ls k = some l) : getLend ls l.id = some l := by
  rw [(getLend_mem h).2]; exact h
theorem getBorrow_id {bs : List Borrow} {k : Nat} {b : Borrow} (h : getBorrow bs k = some b) : getBorrow bs b.id = some b := by
  rw [(getBorrow_mem h).2]; exact h

/-- unfold a handler applied to a successful result into its guard facts -/
macro "invert " h:ident : tactic =>
  `(tactic| (simp only [bind, Except.bind, pure, Except.pure] at $h:ident
             repeat' (split at $h:ident <;> try cases $h:ident)
             all_goals try simp only [orErr_ok_iff, check_ok_iff] at *))

theorem iterLends_pres {cfg : Cfg} {s s' : State} {k : Nat} {r : Int} (h : iterLends cfg s k r = .ok s') : Pres cfg s s' := by
  unfold iterLends at h
  invert h
  · have hg := getLend_id ‹getLend s.lends k = some _›
    exact ⟨fun c => core_lendDelta c hg (by rfl) r, fun c t => tl_lendDelta c t hg (by rfl) (by rfl) (by rfl) r (by rfl)⟩
  · have hg := getLend_id ‹getLend s.lends k = some _›
    exact ⟨fun c => core_lendDelta (core_interest c _ _ _) hg (by rfl) r,
           fun c t => tl_lendDelta (core_interest c _ _ _) (tl_of_addTotalInterest _ _ _ _ _ _ t) hg (by rfl) (by rfl) (by rfl) r (by rfl)⟩
  · exact Pres.refl _ _

theorem deposit_pres {cfg : Cfg} {s s' : State} {u k d : Nat} {amt r : Int} (h : deposit cfg s u k d amt r = .ok s') : Pres cfg s s' := by
  unfold deposit at h
  invert h
  refine Pres.trans (iterLends_pres (by assumption)) ⟨fun c => ?_, fun c t => ?_⟩
  · exact core_lendDelta c (getLend_id (by assumption)) (by rfl) amt
  · exact tl_lendDelta c t (getLend_id (by assumption)) (by rfl) (by rfl) (by rfl) amt (by rfl)

theorem lendNew_pres {cfg : Cfg} {s s' : State} {u a : Nat} {amt : Int} {pool : PoolCfg} {app : Nat} (h : lendNew cfg s u a amt pool app = .ok s') :
    Pres cfg s s' := by
  unfold lendNew at h
  invert h
  refine ⟨fun c => ?_, fun c t => ?_⟩
  · exact core_modIds (core_lendNew c { id := s.lendCtr + 1, owner := u, pool := pool.id, asset := a, amountIn := amt, avail := amt, app := app } rfl amt)
      _ _ (idsOnly_addLend _)
  · exact tl_modIds _ _ (idsOnly_addLend _)
      (tl_lendNew c t { id := s.lendCtr + 1, owner := u, pool := pool.id, asset := a, amountIn := amt, avail := amt, app := app } rfl)

theorem lend_pres {cfg : Cfg} {s s' : State} {u a d : Nat} {amt : Int} {p app : Nat} {r : Int} (h : lend cfg s u a d amt p app r = .ok s') :
    Pres cfg s s' := by
  unfold lend at h
  invert h
  · exact deposit_pres (by assumption)
  · exact lendNew_pres (by assumption)

theorem closeLend_pres {cfg : Cfg} {s s' : State} {u k : Nat} {r : Int} (h : closeLend cfg s u k r = .ok s') : Pres cfg s s' := by
  unfold closeLend at h
  invert h
  refine Pres.trans (iterLends_pres (by assumption)) ⟨fun c => ?_, fun c t => ?_⟩
  · exact core_modIds (core_lendClose c _ _ _ _) _ _ (idsOnly_delLend _)
  · have hg := getLend_mem ‹getLend _ k = some _›
    have := tl_lendClose c t (getLend_id ‹getLend _ k = some _›) (by rw [hg.2]; assumption)
    rw [hg.2] at this
    exact tl_modIds _ _ (idsOnly_delLend _) this

theorem withdraw_pres {cfg : Cfg} {s s' : State} {u k d : Nat} {w r : Int} (h : withdraw cfg s u k d w r = .ok s') : Pres cfg s s' := by
  unfold withdraw at h
  invert h
  · exact closeLend_pres (by assumption)
  · refine Pres.trans (iterLends_pres (by assumption)) ⟨fun c => ?_, fun c t => ?_⟩
    · exact core_lendDelta c (getLend_id (by assumption)) (by split <;> rfl) (-w)
    · exact tl_lendDelta c t (getLend_id (by assumption)) (by split <;> rfl) (by split <;> rfl) (by split <;> rfl) (-w)
        (by split <;> simp <;> omega)

/-! ### borrow side -/

theorem iterBorrow_rel {s s1 : State} {k : Nat} {x : ExtB} {b0 b : Borrow} (h : iterBorrow s k x = .ok s1)
    (h0 : getBorrow s.borrows k = some b0) (h1 : getBorrow s1.borrows k = some b) :
    s1.lends = s.lends ∧ b.liq = b0.liq ∧ b.lendingId = b0.lendingId ∧ b.pairId = b0.pairId ∧ b.stable = b0.stable ∧
      b.amountIn = b0.amountIn ∧ b.amountOut = b0.amountOut ∧ b.id = b0.id := by
  obtain ⟨hm, hk⟩ := getBorrow_mem h0
  have key : ∀ b', b'.id = b0.id → getBorrow (setBorrow s.borrows b') k = some b' := fun b' hb' => by
    have := find_put bid s.borrows b0 b' hm (by simp [bid, hb'])
    simp only [bid, hb', hk] at this; exact this
  unfold iterBorrow at h
  split at h
  · cases h
  · cases h
  · rw [h0] at h
    simp only [Except.ok.injEq] at h
    subst h
    dsimp only at h1
    rw [key] at h1
    · cases h1
      exact ⟨rfl, rfl, rfl, rfl, rfl, rfl, rfl, rfl⟩
    · rfl

/-- identity, used to let unification pick the post-accrual record out of the context -/
theorem after_iterBorrow {s s1 : State} {k : Nat} {x : ExtB} {b : Borrow} (_ : iterBorrow s k x = .ok s1)
    (h1 : getBorrow s1.borrows k = some b) : getBorrow s1.borrows k = some b := h1

theorem iterBorrow_pres {cfg : Cfg} {s s1 : State} {k : Nat} {x : ExtB} (h : iterBorrow s k x = .ok s1) : Pres cfg s s1 := by
  unfold iterBorrow at h
  split at h
  · cases h
  · cases h
  · split at h
    · cases h
    · cases h
      rename_i hb
      refine ⟨fun c => ?_, fun c t => ?_⟩
      · exact core_borrowSet c (getBorrow_id hb) (by rfl) (by rfl) (fun sf p' a' => bo_same rfl rfl rfl rfl sf p' a')
      · exact tl_borrowTouch c t (getBorrow_id hb) (by rfl) (by rfl) (by rfl) (by rfl)

theorem bnot_true {b : Bool} (h : (!b) = true) : b = false := by cases b <;> simp_all

theorem draw_pres {cfg : Cfg} {s s' : State} {u k d : Nat} {y : Int} {ext : ExtB} (h : draw cfg s u k d y ext = .ok s') : Pres cfg s s' := by
  unfold draw at h
  invert h
  have hb0 := ‹getBorrow s.borrows k = some _›
  have hit := ‹iterBorrow s k ext = .ok _›
  have hb1 := after_iterBorrow hit (by assumption)
  obtain ⟨_, hq, hl, hpi, hs, hai, hao, hid⟩ := iterBorrow_rel hit hb0 hb1
  have hq0 := bnot_true ‹(!Borrow.liq _) = true›
  refine Pres.trans (iterBorrow_pres hit) ⟨fun c => ?_, fun c t => ?_⟩
  · exact core_borrowOut c (getBorrow_id hb1) (by rfl) (by rfl) (by rw [hq, hq0]) (by show _ = false; rw [hq, hq0]) (by rfl) (by rfl)
      (by rw [hpi]; assumption) y (by rfl)
  · exact tl_stats_borrowed (tl_borrowTouch c t (getBorrow_id hb1) (by rfl) (by rfl) (by rfl) (by rfl)) _ _ _ _

theorem depositBorrow_pres {cfg : Cfg} {s s' : State} {u k d : Nat} {x : Int} {ext : ExtB} (h : depositBorrow cfg s u k d x ext = .ok s') :
    Pres cfg s s' := by
  unfold depositBorrow at h
  invert h
  all_goals
    have hb0 := ‹getBorrow s.borrows k = some _›
    have hit := ‹iterBorrow s k ext = .ok _›
    have hb1 := after_iterBorrow hit (by assumption)
    obtain ⟨hls, hq, hl, hpi, hs, hai, hao, hid⟩ := iterBorrow_rel hit hb0 hb1
    have hq0 := bnot_true ‹(!Borrow.liq _) = true›
    have hgl := ‹getLend s.lends _ = some _›
    rw [← hl, ← hls] at hgl
    refine Pres.trans (iterBorrow_pres hit) ⟨fun c => ?_, fun c t => ?_⟩
    · exact core_borrowSet (core_setLend c (getLend_id hgl) (by rfl)) (getBorrow_id hb1) (by rfl) (by rfl)
        (fun sf p' a' => bo_same rfl rfl rfl rfl sf p' a')
    · exact tl_borrowPledge c t (getBorrow_id hb1) (by rfl) (by rfl) (by rw [hq, hq0]) (by show _ = false; rw [hq, hq0]) hgl
        (by rfl) (by rfl) (by rfl) x (by rfl) (by rfl)

theorem pair_id {cfg : Cfg} {k : Nat} {pair : PairCfg} (h : cfg.pair? k = some pair) : pair.id = k := by
  unfold Cfg.pair? at h
  have := List.find?_some h
  simpa using this

theorem openBorrow_pres {cfg : Cfg} {s : State} {l : Lend} {pair : PairCfg} {stable : Bool} {dIn : Nat} {aIn : Int} {dOut : Nat} {aOut : Int}
    {brd : Nat} {br : Int} {bank : Bank} (hgl : getLend s.lends l.id = some l) (hp : cfg.pair? pair.id = some pair) :
    Pres cfg s (openBorrow s l pair stable dIn aIn dOut aOut brd br bank) := by
  unfold openBorrow
  refine ⟨fun c => ?_, fun c t => ?_⟩
  · exact core_modIds (core_borrowNew c hgl (by rfl) _ hp (by rfl) (by rfl) (by rfl)) _ _ (idsOnly_addBorrow _)
  · exact tl_modIds _ _ (idsOnly_addBorrow _) (tl_borrowNew c t hgl (by rfl) (by rfl) (by rfl) _ (by rfl) (by rfl) (by rfl) _ _ _ _)

theorem borrowNew_pres {cfg : Cfg} {s s' : State} {u : Nat} {l : Lend} {pair : PairCfg} {rates : RatesCfg} {stable : Bool} {dIn : Nat} {aIn : Int}
    {dOut : Nat} {aOut : Int} (hgl : getLend s.lends l.id = some l) (hp : cfg.pair? pair.id = some pair)
    (h : borrowNew cfg s u l pair rates stable dIn aIn dOut aOut = .ok s') : Pres cfg s s' := by
  unfold borrowNew at h
  invert h
  all_goals exact openBorrow_pres hgl hp

theorem borrow_pres {cfg : Cfg} {s s' : State} {u k pid : Nat} {stable : Bool} {dIn : Nat} {aIn : Int} {dOut : Nat} {aOut : Int} {e1 e2 : ExtB}
    (h : borrow cfg s u k pid stable dIn aIn dOut aOut e1 e2 = .ok s') : Pres cfg s s' := by
  unfold borrow at h
  invert h
  · exact Pres.trans (depositBorrow_pres (by assumption)) (draw_pres (by assumption))
  · have hp := ‹cfg.pair? pid = some _›
    have := pair_id hp
    exact borrowNew_pres (getLend_id ‹getLend s.lends k = some _›) (by rw [this]; exact hp) (by assumption)

theorem borrowAlternate_pres {cfg : Cfg} {s s' : State} {u a p d : Nat} {amt : Int} {pid : Nat} {stable : Bool} {dOut : Nat} {aOut : Int}
    {app : Nat} {r : Int} {e1 e2 : ExtB} (h : borrowAlternate cfg s u a p d amt pid stable dOut aOut app r e1 e2 = .ok s') : Pres cfg s s' := by
  unfold borrowAlternate at h
  invert h
  · exact Pres.trans (deposit_pres (by assumption)) (borrow_pres (by assumption))
  · exact Pres.trans (lendNew_pres (by assumption)) (borrow_pres (by assumption))

theorem closeBorrow_pres {cfg : Cfg} {s s' : State} {u k : Nat} {ext : ExtB} (h : closeBorrow cfg s u k ext = .ok s') : Pres cfg s s' := by
  unfold closeBorrow at h
  invert h
  all_goals
    have hb0 := ‹getBorrow s.borrows k = some _›
    have hit := ‹iterBorrow s k ext = .ok _›
    have hb1 := after_iterBorrow hit (by assumption)
    obtain ⟨hls, hq, hl, hpi, hs, hai, hao, hid⟩ := iterBorrow_rel hit hb0 hb1
    have hq0 := bnot_true ‹(!Borrow.liq _) = true›
    have hgl := ‹getLend s.lends _ = some _›
    rw [← hl, ← hls] at hgl
    have hp := ‹cfg.pair? _ = some _›
    rw [← hpi] at hp
    have hk := (getBorrow_mem hb1).2
    subst hk
    refine Pres.trans (iterBorrow_pres hit) ⟨fun c => ?_, fun c t => ?_⟩
    · refine core_modIds ?_ _ _ (idsOnly_delBorrow _)
      first
      | exact core_borrowClose (core_interest c _ _ _) (getBorrow_id hb1) (by rw [hq, hq0]) hp (getLend_id hgl) (by rfl)
      | exact core_borrowClose c (getBorrow_id hb1) (by rw [hq, hq0]) hp (getLend_id hgl) (by rfl)
    · refine tl_modIds _ _ (idsOnly_delBorrow _) ?_
      first
      | exact tl_stats_borrowed (tl_borrowClose (core_interest c _ _ _) (tl_of_addTotalInterest _ _ _ _ _ _ t) (getBorrow_id hb1)
          (by rw [hq, hq0]) hgl (by rfl) (by rfl) (by rfl) (by rfl)) _ _ _ _
      | exact tl_stats_borrowed (tl_borrowClose c t (getBorrow_id hb1) (by rw [hq, hq0]) hgl (by rfl) (by rfl) (by rfl) (by rfl)) _ _ _ _

theorem repay_pres {cfg : Cfg} {s s' : State} {u k d : Nat} {p : Int} {ext : ExtB} (h : repay cfg s u k d p ext = .ok s') : Pres cfg s s' := by
  unfold repay at h
  invert h
  · exact closeBorrow_pres (by assumption)
  all_goals
    have hb0 := ‹getBorrow s.borrows k = some _›
    have hit := ‹iterBorrow s k ext = .ok _›
    have hb1 := after_iterBorrow hit (by assumption)
    obtain ⟨hls, hq, hl, hpi, hs, hai, hao, hid⟩ := iterBorrow_rel hit hb0 hb1
    have hq0 := bnot_true ‹(!Borrow.liq _) = true›
    have hp := ‹cfg.pair? _ = some _›
    rw [← hpi] at hp
    refine Pres.trans (iterBorrow_pres hit) ⟨fun c => ?_, fun c t => ?_⟩
    · first
      | exact core_borrowSet c (getBorrow_id hb1) (by rfl) (by rfl) (fun sf p' a' => bo_same rfl rfl rfl rfl sf p' a')
      | exact core_borrowSet (core_interest c _ _ _) (getBorrow_id hb1) (by rfl) (by rfl) (fun sf p' a' => bo_same rfl rfl rfl rfl sf p' a')
      | exact core_borrowOut (core_interest c _ _ _) (getBorrow_id hb1) (by rfl) (by rfl) (by rw [hq, hq0]) (by show _ = false; rw [hq, hq0])
          (by rfl) (by rfl) hp _ (by show _ - _ = _ + -_; omega)
      | exact core_borrowOut c (getBorrow_id hb1) (by rfl) (by rfl) (by rw [hq, hq0]) (by show _ = false; rw [hq, hq0])
          (by rfl) (by rfl) hp _ (by show _ - _ = _ + -_; omega)
    · first
      | exact tl_borrowTouch c t (getBorrow_id hb1) (by rfl) (by rfl) (by rfl) (by rfl)
      | exact tl_borrowTouch (core_interest c _ _ _) (tl_of_addTotalInterest _ _ _ _ _ _ t) (getBorrow_id hb1) (by rfl) (by rfl) (by rfl) (by rfl)
      | exact tl_stats_borrowed (tl_borrowTouch (core_interest c _ _ _) (tl_of_addTotalInterest _ _ _ _ _ _ t) (getBorrow_id hb1)
          (by rfl) (by rfl) (by rfl) (by rfl)) _ _ _ _
      | exact tl_stats_borrowed (tl_borrowTouch c t (getBorrow_id hb1) (by rfl) (by rfl) (by rfl) (by rfl)) _ _ _ _

theorem repayWithdraw_pres {cfg : Cfg} {s s' : State} {u k : Nat} {ext : ExtB} {r : Int} (h : repayWithdraw cfg s u k ext r = .ok s') :
    Pres cfg s s' := by
  unfold repayWithdraw at h
  invert h
  exact Pres.trans (closeBorrow_pres (by assumption)) (withdraw_pres (by assumption))

theorem calcBorrow_pres {cfg : Cfg} {s s' : State} {u k : Nat} {ext : ExtB} (h : calcBorrow s u k ext = .ok s') : Pres cfg s s' := by
  unfold calcBorrow at h
  invert h
  exact iterBorrow_pres (by assumption)

theorem calcBorrows_pres {cfg : Cfg} {u : Nat} (l : List (Nat × ExtB)) {s s' : State} (h : calcBorrows s u l = .ok s') : Pres cfg s s' := by
  induction l generalizing s with
  | nil => simp only [calcBorrows, Except.ok.injEq] at h; subst h; exact Pres.refl _ _
  | cons x l ih =>
    obtain ⟨k, ext⟩ := x
    simp only [calcBorrows] at h
    split at h
    · exact Pres.trans (calcBorrow_pres (by assumption)) (ih h)
    · split at h
      · cases h
      · exact ih h

theorem calcLends_pres {cfg : Cfg} {u : Nat} (l : List (Nat × Int)) {s s' : State} (h : calcLends cfg s u l = .ok s') : Pres cfg s s' := by
  induction l generalizing s with
  | nil => simp only [calcLends, Except.ok.injEq] at h; subst h; exact Pres.refl _ _
  | cons x l ih =>
    obtain ⟨k, r⟩ := x
    simp only [calcLends] at h
    invert h
    exact Pres.trans (iterLends_pres (by assumption)) (ih (by assumption))

theorem calcMsg_pres {cfg : Cfg} {s s' : State} {u : Nat} {bs : List (Nat × ExtB)} {ls : List (Nat × Int)}
    (h : calcMsg cfg s u bs ls = .ok s') : Pres cfg s s' := by
  unfold calcMsg at h
  invert h
  exact Pres.trans (calcBorrows_pres _ (by assumption)) (calcLends_pres _ (by assumption))

theorem fundModule_pres {cfg : Cfg} {s s' : State} {u p a d : Nat} {amt : Int} (h : fundModule cfg s u p a d amt = .ok s') : Pres cfg s s' := by
  unfold fundModule at h
  invert h
  exact ⟨fun c => c, fun _ t => t⟩

theorem fundReserve_pres {cfg : Cfg} {s s' : State} {u a d : Nat} {amt : Int} (h : fundReserve cfg s u a d amt = .ok s') : Pres cfg s s' := by
  unfold fundReserve at h
  invert h
  exact ⟨fun c => c, fun _ t => t⟩

theorem setPrice_pres {cfg : Cfg} {s : State} {a : Nat} {t : Option Nat} : Pres cfg s (setPrice s a t) := by
  unfold setPrice
  cases t <;> exact ⟨fun c => c, fun _ t => t⟩

/-! ### liquidation hand-over -/

/-- The hand-over of borrow `k` is *clean* when the lend position survives it, or when the handed-over pledge is all that
was left in the position. `UpdateLockedBorrows` deletes the position whenever `AmountIn − pledge ≤ 0` without looking at
`AvailableToBorrow` or at the other borrows (see `C08.totalLend_handover_counterexample`). -/
def HandoverClean (s : State) (k : Nat) : Prop :=
  match getBorrow s.borrows k with
  | none => True
  | some b =>
    match getLend s.lends b.lendingId with
    | none => True
    | some l => l.amountIn - b.amountIn > 0 ∨ l.avail + pledgedOf s.borrows l.id = b.amountIn

instance (s : State) (k : Nat) : Decidable (HandoverClean s k) := by
  unfold HandoverClean; split
  · infer_instance
  · split <;> infer_instance

theorem HandoverClean.use {s : State} {k : Nat} (hc : HandoverClean s k) {b : Borrow} {l : Lend} (hb : getBorrow s.borrows k = some b)
    (hl : getLend s.lends b.lendingId = some l) : l.amountIn - b.amountIn > 0 ∨ l.avail + pledgedOf s.borrows l.id = b.amountIn := by
  unfold HandoverClean at hc
  rw [hb] at hc
  simp only at hc
  rw [hl] at hc
  exact hc

/-- the side condition of one step: only hand-overs have one -/
def cleanStep (s : State) : Op → Prop
  | .handover k _ => HandoverClean s k
  | _ => True

instance (s : State) (op : Op) : Decidable (cleanStep s op) := by
  cases op <;> unfold cleanStep <;> infer_instance

theorem handover_core {cfg : Cfg} {s s' : State} {k : Nat} {ni : Dec} (h : handover cfg s k ni = .ok s') (c : CoreS cfg s) : CoreS cfg s' := by
  unfold handover at h
  invert h
  all_goals
    have hb := ‹getBorrow s.borrows k = some _›
    have hq0 := bnot_true ‹(!Borrow.liq _) = true›
    have hgl := ‹getLend s.lends _ = some _›
    have hp := ‹cfg.pair? _ = some _›
  · exact core_modIds (core_lendClose (core_borrowLiq c (getBorrow_id hb) (by rfl) (by rfl) hq0 (by rfl) hp) _ _ _ _) _ _ (idsOnly_delLend _)
  · exact core_lendDelta (core_borrowLiq c (getBorrow_id hb) (by rfl) (by rfl) hq0 (by rfl) hp) (getLend_id hgl) (by rfl) _

theorem handover_tl {cfg : Cfg} {s s' : State} {k : Nat} {ni : Dec} (h : handover cfg s k ni = .ok s') (c : CoreS cfg s)
    (t : TotalLendEq s) (hc : HandoverClean s k) : TotalLendEq s' := by
  unfold handover at h
  invert h
  all_goals
    have hb := ‹getBorrow s.borrows k = some _›
    have hq0 := bnot_true ‹(!Borrow.liq _) = true›
    have hgl := ‹getLend s.lends _ = some _›
    have hcl := hc.use hb hgl
  · have hclean := hcl.resolve_left ‹¬ (_ : Int) > 0›
    exact tl_modIds _ _ (idsOnly_delLend _) (tl_handoverDel c t (getBorrow_id hb) (by rfl) (by rfl) hq0 (by rfl) hgl hclean _ _ _ _)
  · exact tl_handoverKeep c t (getBorrow_id hb) (by rfl) (by rfl) hq0 (by rfl) hgl
      (by rfl) (by rfl) (by rfl) (by rfl) _ _ _ _

/-! ### after the hand-over: bids and the auction close -/

theorem auctionBid_pres {cfg : Cfg} {s s' : State} {u k : Nat} {paid recv : Int} (h : auctionBid cfg s u k paid recv = .ok s') : Pres cfg s s' := by
  unfold auctionBid at h
  invert h
  exact ⟨fun c => c, fun _ t => t⟩

theorem auctionClose_pres {cfg : Cfg} {s s' : State} {u k : Nat} {paid recv left topUp : Int}
    (h : auctionClose cfg s u k paid recv left topUp = .ok s') : Pres cfg s s' := by
  unfold auctionClose at h
  invert h
  all_goals
    have hb := ‹getBorrow s.borrows k = some _›
    have hq : Borrow.liq _ = true := ‹Borrow.liq _ = true›
    have hk := (getBorrow_mem hb).2
    subst hk
    refine ⟨fun c => core_modIds ?_ _ _ (idsOnly_delBorrow _), fun c t => tl_modIds _ _ (idsOnly_delBorrow _) ?_⟩
    · first
      | exact core_borrowDelLiq (core_interest c _ _ _) (getBorrow_id hb) hq
      | exact core_borrowDelLiq c (getBorrow_id hb) hq
    · first
      | exact tl_borrowDelLiq (core_interest c _ _ _) (tl_of_addTotalInterest _ _ _ _ _ _ t) (getBorrow_id hb) hq
      | exact tl_borrowDelLiq c t (getBorrow_id hb) hq

/-! ### the block hook: only balances, reserve records and the deleted-pools list move -/

/-- positions, totals and counters are the same -/
def SameBooks (s s' : State) : Prop :=
  s'.lends = s.lends ∧ s'.borrows = s.borrows ∧ s'.stats = s.stats ∧ s'.lendCtr = s.lendCtr ∧ s'.borrowCtr = s.borrowCtr ∧ s'.locked = s.locked

theorem pres_of_frame {cfg : Cfg} {s s' : State} (f : SameBooks s s') : Pres cfg s s' := by
  obtain ⟨h1, h2, h3, h4, h5, _⟩ := f
  refine ⟨fun c => ?_, fun _ t => ?_⟩
  · unfold CoreS at *; rw [h1, h2, h3, h4, h5]; exact c
  · unfold TotalLendEq at *; rw [h1, h2, h3]; exact t

theorem sweepPool_frame {cfg : Cfg} {s s' : State} {p : Nat} (h : sweepPool cfg s p = .ok s') : SameBooks s s' := by
  unfold sweepPool at h
  invert h
  all_goals exact ⟨rfl, rfl, rfl, rfl, rfl, rfl⟩

theorem sweepPools_frame {cfg : Cfg} (ps : List Nat) {s s' : State} (h : sweepPools cfg s ps = .ok s') : SameBooks s s' := by
  induction ps generalizing s with
  | nil => unfold sweepPools at h; cases h; exact ⟨rfl, rfl, rfl, rfl, rfl, rfl⟩
  | cons p ps ih =>
    simp only [sweepPools] at h
    invert h
    obtain ⟨a1, a2, a3, a4, a5, a6⟩ := sweepPool_frame ‹sweepPool cfg s p = .ok _›
    obtain ⟨b1, b2, b3, b4, b5, b6⟩ := ih ‹sweepPools cfg _ ps = .ok s'›
    exact ⟨by rw [b1, a1], by rw [b2, a2], by rw [b3, a3], by rw [b4, a4], by rw [b5, a5], by rw [b6, a6]⟩

theorem beginBlock_frame {cfg : Cfg} {s s' : State} (h : beginBlock cfg s = .ok s') : SameBooks s s' := sweepPools_frame _ h

/-! ### one step -/

def Op.isHandover : Op → Bool
  | .handover .. => true
  | _ => false

theorem step_pres {cfg : Cfg} {s s' : State} {op : Op} (h : step cfg s op = .ok s') (hn : op.isHandover = false) : Pres cfg s s' := by
  unfold step at h
  split at h
  · cases h
  · cases op with
    | handover k ni => cases hn
    | lend => exact lend_pres h
    | deposit => exact deposit_pres h
    | withdraw => exact withdraw_pres h
    | closeLend => exact closeLend_pres h
    | borrow => exact borrow_pres h
    | borrowAlternate => exact borrowAlternate_pres h
    | depositBorrow => exact depositBorrow_pres h
    | draw => exact draw_pres h
    | repay => exact repay_pres h
    | closeBorrow => exact closeBorrow_pres h
    | repayWithdraw => exact repayWithdraw_pres h
    | calcAll => exact calcMsg_pres h
    | fundModule => exact fundModule_pres h
    | fundReserve => exact fundReserve_pres h
    | setPrice a t => simp only [Except.ok.injEq] at h; subst h; exact setPrice_pres
    | setKill a on => simp only [Except.ok.injEq] at h; subst h; exact ⟨fun c => c, fun _ t => t⟩
    | setDepreciated p f => simp only [Except.ok.injEq] at h; subst h; exact ⟨fun c => c, fun _ t => t⟩
    | beginBlock => exact pres_of_frame (beginBlock_frame h)
    | bid => exact auctionBid_pres h
    | auctionClose => exact auctionClose_pres h

theorem step_core {cfg : Cfg} {s s' : State} {op : Op} (h : step cfg s op = .ok s') (c : CoreS cfg s) : CoreS cfg s' := by
  cases hop : op.isHandover
  · exact (step_pres h hop).1 c
  · cases op <;> try cases hop
    unfold step at h
    split at h
    · cases h
    · exact handover_core h c

theorem step_tl {cfg : Cfg} {s s' : State} {op : Op} (h : step cfg s op = .ok s') (c : CoreS cfg s) (t : TotalLendEq s)
    (hc : cleanStep s op) : TotalLendEq s' := by
  cases hop : op.isHandover
  · exact (step_pres h hop).2 c t
  · cases op <;> try cases hop
    rename_i k ni
    unfold step at h
    split at h
    · cases h
    · exact handover_tl h c t hc

/-! ## Guards: LTV, pool funds, availability -/

theorem verifyCR_ok {cfg : Cfg} {prices : List (Nat × Nat)} {aIn : Int} {assetIn : Nat} {aOut : Int} {assetOut : Nat} {ltv : Dec} {u : Unit}
    (h : verifyCR cfg prices aIn assetIn aOut assetOut ltv = .ok u) :
    ∃ r, collRatio cfg prices aIn assetIn aOut assetOut = .ok r ∧ r ≤ ltv := by
  unfold verifyCR at h
  split at h
  · cases h
  · rename_i r hr
    split at h
    · cases h
    · exact ⟨r, hr, Int.not_lt.mp ‹_›⟩

theorem collRatio_ok {cfg : Cfg} {prices : List (Nat × Nat)} {aIn : Int} {assetIn : Nat} {aOut : Int} {assetOut : Nat} {r : Dec}
    (h : collRatio cfg prices aIn assetIn aOut assetOut = .ok r) :
    ∃ vin vout, calcPrice cfg prices assetIn aIn = .ok vin ∧ calcPrice cfg prices assetOut aOut = .ok vout ∧ vin ≠ 0 ∧ r = Dec.quo vout vin := by
  unfold collRatio at h
  split at h
  · cases h
  · split at h
    · cases h
    · split at h
      · cases h
      · simp only [Except.ok.injEq] at h
        exact ⟨_, _, ‹_›, ‹_›, ‹_›, h.symm⟩

theorem decide_not_gt {a b : Int} (h : decide (¬ a > b) = true) : a ≤ b := by
  have := of_decide_eq_true h
  omega

/-- half-even chopping of a non-negative number loses at most half a unit -/
theorem chopRound_lower (x : Int) (hx : 0 ≤ x) : 2 * x - Dec.P ≤ 2 * (Dec.chopRound x * Dec.P) := by
  unfold Dec.chopRound Dec.chopRoundNonneg
  have h1 : ¬ x < 0 := by omega
  simp only [h1, if_false, Int.tdiv_eq_ediv_of_nonneg hx, Int.tmod_eq_emod_of_nonneg hx, Dec.P, Dec.half]
  repeat' split
  all_goals omega

/-- **Exact-rational reading of the `Dec` comparison**: if the quotient the chain computes, `Quo(vout, vin)`, is at most `ltv`
(all raw 10⁻¹⁸ integers, `vin > 0`, `vout ≥ 0`) then `vout / vin < ltv·10⁻¹⁸ + ½·10⁻¹⁸ + 10⁻³⁶` as rationals:
`2·vout·10³⁶ < ((2·ltv + 1)·10¹⁸ + 2)·vin`. -/
theorem quo_le_exact (vout vin ltv : Int) (ho : 0 ≤ vout) (hi : 0 < vin) (h : Dec.quo vout vin ≤ ltv) :
    2 * (vout * Dec.PP) < ((2 * ltv + 1) * Dec.P + 2) * vin := by
  unfold Dec.quo at h
  have hpp : 0 ≤ vout * Dec.PP := Int.mul_nonneg ho (by decide)
  rw [Int.tdiv_eq_ediv_of_nonneg hpp] at h
  have hx : 0 ≤ vout * Dec.PP / vin := Int.ediv_nonneg hpp (Int.le_of_lt hi)
  have h1 := chopRound_lower _ hx
  have h2 := Int.lt_ediv_add_one_mul_self (vout * Dec.PP) hi
  have hP : (0 : Int) < Dec.P := by decide
  -- 2x ≤ (2·ltv + 1)·P
  have h3 : 2 * (vout * Dec.PP / vin) ≤ (2 * ltv + 1) * Dec.P := by
    have : Dec.chopRound (vout * Dec.PP / vin) * Dec.P ≤ ltv * Dec.P := Int.mul_le_mul_of_nonneg_right h (Int.le_of_lt hP)
    have e : (2 * ltv + 1) * Dec.P = 2 * (ltv * Dec.P) + Dec.P := by rw [Int.add_mul, Int.mul_assoc, Int.one_mul]
    omega
  have h4 : (2 * (vout * Dec.PP / vin) + 2) * vin ≤ ((2 * ltv + 1) * Dec.P + 2) * vin :=
    Int.mul_le_mul_of_nonneg_right (by omega) (Int.le_of_lt hi)
  have e2 : (2 * (vout * Dec.PP / vin) + 2) * vin = 2 * ((vout * Dec.PP / vin + 1) * vin) := by
    rw [Int.add_mul, Int.add_mul, Int.mul_assoc, Int.one_mul, Int.mul_add]
  omega

theorem iterLends_borrows {cfg : Cfg} {s s1 : State} {k : Nat} {r : Int} (h : iterLends cfg s k r = .ok s1) : s1.borrows = s.borrows := by
  unfold iterLends at h
  invert h <;> rfl

theorem iterBorrow_frame {s s1 : State} {k : Nat} {x : ExtB} (h : iterBorrow s k x = .ok s1) :
    s1.bank = s.bank ∧ s1.prices = s.prices ∧ s1.lends = s.lends ∧ s1.stats = s.stats := by
  unfold iterBorrow at h
  split at h
  · cases h
  · cases h
  · split at h
    · cases h
    · cases h; exact ⟨rfl, rfl, rfl, rfl⟩

theorem find_del {α} (key : α → Nat) (l : List α) (k : Nat) : (del key l k).find? (fun x => key x == k) = none := by
  apply List.find?_eq_none.mpr
  intro x hx
  have := (mem_del key l k x hx).2
  simp [this]

theorem getLend_setLend {ls : List Lend} {l l' : Lend} (hg : getLend ls l.id = some l) (hid : l'.id = l.id) :
    getLend (setLend ls l') l.id = some l' := by
  have := find_put lid ls l l' (getLend_mem hg).1 (by simp [lid, hid])
  simp only [lid, hid] at this
  exact this

theorem getLend_delLend (ls : List Lend) (k : Nat) : getLend (delLend ls k) k = none := find_del lid ls k

/-! ## Where the interest a borrower pays goes -/

/-- whole tokens of interest = whole tokens of reserve share + whole tokens of lender share + at most one token of dust -/
theorem interest_split (interest reserve : Int) (hr : 0 ≤ reserve) (hle : reserve ≤ interest) :
    ∃ dust, 0 ≤ dust ∧ dust ≤ 1 ∧
      Dec.truncateInt interest = Dec.truncateInt reserve + Dec.truncateInt (interest - reserve) + dust := by
  unfold Dec.truncateInt
  rw [Int.tdiv_eq_ediv_of_nonneg (by omega : 0 ≤ interest), Int.tdiv_eq_ediv_of_nonneg hr,
    Int.tdiv_eq_ediv_of_nonneg (by omega : 0 ≤ interest - reserve)]
  refine ⟨interest / Dec.P - reserve / Dec.P - (interest - reserve) / Dec.P, ?_, ?_, by omega⟩ <;> simp only [Dec.P] <;> omega

theorem truncateInt_ofInt (k : Int) : Dec.truncateInt (Dec.ofInt k) = k := by
  unfold Dec.truncateInt Dec.ofInt
  exact Int.mul_tdiv_cancel k (by decide)

end Comdex.Lend
