import Comdex.Model.Liquidation
/-! Helper lemmas for C09 (core Lean only: `omega`, `simp`, `split`, induction). -/
namespace Comdex.Liquidation
open Comdex

/-! ### slice arithmetic -/

theorem sliceBoundsI_bounds (len off batch : Int) (hl : 0 ≤ len) :
    0 ≤ (sliceBoundsI len off batch).1 ∧ (sliceBoundsI len off batch).1 ≤ (sliceBoundsI len off batch).2 ∧
    (sliceBoundsI len off batch).2 ≤ len := by
  unfold sliceBoundsI
  split
  · simp; omega
  · split
    · simp; omega
    · simp; omega

theorem sweepBoundsI_bounds (cnt off batch : Int) (hl : 0 ≤ cnt) :
    0 ≤ (sweepBoundsI cnt off batch).1 ∧ (sweepBoundsI cnt off batch).1 ≤ (sweepBoundsI cnt off batch).2 ∧
    (sweepBoundsI cnt off batch).2 ≤ cnt := by
  unfold sweepBoundsI
  simp only
  split
  · exact sliceBoundsI_bounds cnt 0 batch hl
  · exact sliceBoundsI_bounds cnt off batch hl

/-- closed form of the end of a sweep's range for non-negative arguments -/
theorem sweepBoundsI_end (cnt off batch : Int) (hc : 0 ≤ cnt) (ho : 0 ≤ off) (hb : 0 < batch) :
    (sweepBoundsI cnt off batch).2 = if off < cnt then min (off + batch) cnt else min batch cnt := by
  unfold sweepBoundsI sliceBoundsI
  simp only
  by_cases h1 : off < cnt
  · rw [if_pos h1]
    have h3 : ¬ (off ≥ cnt ∨ off < 0 ∨ batch < 0) := by omega
    rw [if_neg h3]
    by_cases h2 : off + batch ≥ cnt
    · rw [if_pos h2]
      have : ¬ (off = cnt) := by omega
      simp only [this, if_false]; omega
    · rw [if_neg h2]
      have hb0 : ¬ (off = off + batch) := by omega
      simp only [hb0, if_false]; omega
  · rw [if_neg h1]
    have h3 : (off ≥ cnt ∨ off < 0 ∨ batch < 0) := by omega
    rw [if_pos h3]
    simp only [if_true]
    by_cases hc0 : (0:Int) ≥ cnt
    · have : ((0:Int) ≥ cnt ∨ (0:Int) < 0 ∨ batch < 0) := by omega
      rw [if_pos this]; omega
    · have : ¬ ((0:Int) ≥ cnt ∨ (0:Int) < 0 ∨ batch < 0) := by omega
      rw [if_neg this]
      by_cases h5 : 0 + batch ≥ cnt
      · rw [if_pos h5]; omega
      · rw [if_neg h5]; omega

theorem sliceBounds_cast (len off batch : Nat) :
    sliceBoundsI len off batch = (((sliceBounds len off batch).1 : Int), ((sliceBounds len off batch).2 : Int)) := by
  unfold sliceBoundsI sliceBounds
  by_cases h1 : off ≥ len
  · have : ((off:Int) ≥ len ∨ (off:Int) < 0 ∨ (batch:Int) < 0) := by omega
    rw [if_pos this, if_pos h1]
  · have h1' : ¬ ((off:Int) ≥ len ∨ (off:Int) < 0 ∨ (batch:Int) < 0) := by omega
    rw [if_neg h1', if_neg h1]
    by_cases h2 : off + batch ≥ len
    · have : (off:Int) + batch ≥ len := by omega
      rw [if_pos this, if_pos h2]
    · have : ¬ ((off:Int) + batch ≥ len) := by omega
      rw [if_neg this, if_neg h2]; simp

theorem sweepBounds_cast (cnt off batch : Nat) :
    sweepBoundsI cnt off batch = (((sweepBounds cnt off batch).1 : Int), ((sweepBounds cnt off batch).2 : Int)) := by
  unfold sweepBoundsI sweepBounds
  simp only
  rw [sliceBounds_cast cnt off batch]
  have h0 := sliceBounds_cast cnt 0 batch
  by_cases h : (sliceBounds cnt off batch).1 = (sliceBounds cnt off batch).2
  · have h' : ((sliceBounds cnt off batch).1 : Int) = ((sliceBounds cnt off batch).2 : Int) := by omega
    rw [if_pos h', if_pos h]
    exact h0
  · have h' : ¬ (((sliceBounds cnt off batch).1 : Int) = ((sliceBounds cnt off batch).2 : Int)) := by omega
    rw [if_neg h', if_neg h]

theorem sliceBounds_bounds (len off batch : Nat) :
    (sliceBounds len off batch).1 ≤ (sliceBounds len off batch).2 ∧ (sliceBounds len off batch).2 ≤ len := by
  unfold sliceBounds
  split
  · simp
  · split <;> simp <;> omega

theorem sweepBounds_bounds (cnt off batch : Nat) :
    (sweepBounds cnt off batch).1 ≤ (sweepBounds cnt off batch).2 ∧ (sweepBounds cnt off batch).2 ≤ cnt := by
  unfold sweepBounds
  simp only
  split
  · exact sliceBounds_bounds cnt 0 batch
  · exact sliceBounds_bounds cnt off batch

/-- the range of a block when the stored offset is still inside the list: it starts at the offset -/
theorem sweepBounds_inside (n off batch : Nat) (h : off < n) (hb : 0 < batch) :
    sweepBounds n off batch = (off, min (off + batch) n) := by
  unfold sweepBounds sliceBounds
  have h1 : ¬ (off ≥ n) := by omega
  simp only [h1, if_false]
  by_cases h2 : off + batch ≥ n
  · simp only [h2, if_true]
    have : ¬ (off = n) := by omega
    simp only [this, if_false]
    congr 1; omega
  · simp only [h2, if_false]
    have : ¬ (off = off + batch) := by omega
    simp only [this, if_false]
    congr 1; omega

/-- … and when it is not, the block starts a new sweep at index 0 -/
theorem sweepBounds_wrap (n off batch : Nat) (h : n ≤ off) :
    sweepBounds n off batch = (0, min batch n) := by
  unfold sweepBounds sliceBounds
  have h1 : (off ≥ n) := by omega
  simp only [h1, if_true]
  by_cases h0 : 0 ≥ n
  · have : n = 0 := by omega
    subst this; simp
  · simp only [h0, if_false]
    by_cases h2 : 0 + batch ≥ n
    · simp only [h2, if_true]; congr 1; omega
    · simp only [h2, if_false]; congr 1; omega


/-! ### the abstract sweep: liveness -/


/-- offsets evolve as the code stores them: the next block's offset is this block's range end -/
def Evolves (batch : Nat) (r : Nat → Sw) : Prop :=
  ∀ k, (r (k+1)).off = (sweepBounds (r k).l.length (r k).off batch).2

theorem starts_bounds (batch : Nat) (hb : 0 < batch) (s : Sw) (h : s.starts batch = true) (_hn : 0 < s.l.length) :
    sweepBounds s.l.length s.off batch = (0, min batch s.l.length) := by
  unfold Sw.starts at h
  by_cases ho : s.off < s.l.length
  · rw [sweepBounds_inside _ _ _ ho hb] at h ⊢
    simp at h
    rw [h]; simp
  · exact sweepBounds_wrap _ _ _ (by omega)

/-- while nothing before index `i` moves, a sweep that started at block `t` marches in steps of `batch` -/
theorem march (batch : Nat) (hb : 0 < batch) (r : Nat → Sw) (hev : Evolves batch r) (t i : Nat)
    (hstart : (r t).starts batch = true) (K : Nat) (hK : K * batch ≤ i)
    (hlen : ∀ k, k ≤ K → i < (r (t+k)).l.length) :
    ∀ k, k ≤ K → sweepBounds (r (t+k)).l.length (r (t+k)).off batch
        = (k * batch, min (k * batch + batch) (r (t+k)).l.length) := by
  intro k
  induction k with
  | zero =>
    intro _
    have h0 := hlen 0 (by omega)
    have := starts_bounds batch hb (r t) hstart (by simp at h0; omega)
    simp only [Nat.add_zero, Nat.zero_mul, Nat.zero_add]
    exact this
  | succ k ih =>
    intro hk
    have ihk := ih (by omega)
    have hoff : (r (t + (k+1))).off = min (k * batch + batch) (r (t+k)).l.length := by
      have := hev (t+k)
      rw [ihk] at this
      simpa [Nat.add_assoc] using this
    have h1 : (k+1) * batch ≤ K * batch := Nat.mul_le_mul_right _ hk
    have h2 := hlen k (by omega)
    have h3 := hlen (k+1) hk
    have hsucc : (k+1) * batch = k * batch + batch := Nat.succ_mul k batch
    have : (r (t + (k+1))).off = (k+1) * batch := by rw [hoff, hsucc]; omega
    rw [sweepBounds_inside _ _ _ (by omega) hb, this]

theorem mem_slice {α} (l : List α) (s e i : Nat) (p : α) (hi : l[i]? = some p) (hs : s ≤ i) (he : i < e) :
    p ∈ (l.drop s).take (e - s) := by
  have : ((l.drop s).take (e - s))[i - s]? = some p := by
    rw [List.getElem?_take]
    have : i - s < e - s := by omega
    simp only [this, if_true]
    rw [List.getElem?_drop]
    have : s + (i - s) = i := by omega
    rw [this]; exact hi
  exact List.mem_of_getElem? this

/-- **Liveness, the part that is true.** If block `t` starts a sweep (its range begins at index 0) and position `p`
stays at index `i` during the `i / batch + 1` blocks `t … t + i / batch` — i.e. `p` persists and during these blocks
no position BEFORE it is deleted, neither closed by its owner nor seized — then `p` is handed to the per-position
step in block `t + i / batch`.  Appends at the end and deletions behind `p` are unrestricted. -/
theorem sweep_live_partial_aux (batch : Nat) (hb : 0 < batch) (r : Nat → Sw) (hev : Evolves batch r)
    (t i p : Nat) (hstart : (r t).starts batch = true)
    (hpos : ∀ k, k ≤ i / batch → (r (t+k)).l[i]? = some p) :
    p ∈ (r (t + i / batch)).processed batch := by
  have hlen : ∀ k, k ≤ i / batch → i < (r (t+k)).l.length := by
    intro k hk
    have := hpos k hk
    exact (List.getElem?_eq_some_iff.mp this).1
  have hm := march batch hb r hev t i hstart (i / batch) (Nat.div_mul_le_self i batch) hlen (i / batch) (Nat.le_refl _)
  unfold Sw.processed
  simp only
  rw [hm]
  simp only
  apply mem_slice _ _ _ i p (hpos _ (Nat.le_refl _)) (Nat.div_mul_le_self i batch)
  have h1 : i < batch * (i / batch + 1) := Nat.lt_mul_div_succ i hb
  have h2 : batch * (i / batch + 1) = i / batch * batch + batch := by
    rw [Nat.mul_add, Nat.mul_one, Nat.mul_comm]
  have := hlen (i / batch) (Nat.le_refl _)
  omega


theorem idx_stable (idx : Nat → Nat) (d T w : Nat) (hshift : ∀ k, k < T → k ≠ d → idx (k+1) = idx k)
    (n : Nat) (hT : w + n ≤ T) (hd : ∀ k, k < n → w + k ≠ d) : ∀ k, k ≤ n → idx (w + k) = idx w := by
  intro k
  induction k with
  | zero => intro _; rfl
  | succ k ih =>
    intro hk
    have := hshift (w + k) (by omega) (hd k (by omega))
    rw [← ih (by omega), ← this, Nat.add_assoc]

/-- **Two sweeps suffice when positions before `p` are deleted in at most one block.**  `idx k` is the index of the
persisting position `p` before block `k`; `d` is the only block (up to the horizon `T`) in which its index changes.
Then for any two sweep starts `w1 < w2`, `p` is handed to the per-position step in the sweep started at `w1` or in the
one started at `w2`. -/
theorem two_sweeps_if_one_shift_aux (batch : Nat) (hb : 0 < batch) (r : Nat → Sw) (hev : Evolves batch r)
    (p : Nat) (idx : Nat → Nat) (T : Nat) (hidx : ∀ k, k ≤ T → (r k).l[idx k]? = some p)
    (d : Nat) (hshift : ∀ k, k < T → k ≠ d → idx (k+1) = idx k)
    (w1 w2 : Nat) (h12 : w1 < w2) (hs1 : (r w1).starts batch = true) (hs2 : (r w2).starts batch = true)
    (hT1 : w1 + idx w1 / batch ≤ T) (hT2 : w2 + idx w2 / batch ≤ T) :
    p ∈ (r (w1 + idx w1 / batch)).processed batch ∨ p ∈ (r (w2 + idx w2 / batch)).processed batch := by
  by_cases hA : ∀ k, k < idx w1 / batch → w1 + k ≠ d
  · left
    have hst := idx_stable idx d T w1 hshift (idx w1 / batch) hT1 hA
    apply sweep_live_partial_aux batch hb r hev w1 (idx w1) p hs1
    intro k hk
    have := hidx (w1 + k) (by omega)
    rw [hst k hk] at this; exact this
  · right
    have hB : ∃ k0, k0 < idx w1 / batch ∧ w1 + k0 = d := by
      apply Classical.byContradiction
      intro hne
      apply hA
      intro k hk hkd
      exact hne ⟨k, hk, hkd⟩
    obtain ⟨k0, hk0, hk0d⟩ := hB
    -- the index is stable up to block d, so the sweep started at w1 marches and there is no start in (w1, d]
    have hst := idx_stable idx d T w1 hshift k0 (by omega) (by intro k hk; omega)
    have hlen : ∀ k, k ≤ k0 → idx w1 < (r (w1+k)).l.length := by
      intro k hk
      have := hidx (w1 + k) (by omega)
      rw [hst k hk] at this
      exact (List.getElem?_eq_some_iff.mp this).1
    have hK : k0 * batch ≤ idx w1 :=
      Nat.le_trans (Nat.mul_le_mul_right _ (Nat.le_of_lt hk0)) (Nat.div_mul_le_self _ _)
    have hm := march batch hb r hev w1 (idx w1) hs1 k0 hK hlen
    have hw2 : d < w2 := by
      apply Classical.byContradiction
      intro hle
      have hle : w2 ≤ d := by omega
      have hj : w2 - w1 ≤ k0 := by omega
      have hb2 := hm (w2 - w1) hj
      have e : w1 + (w2 - w1) = w2 := by omega
      rw [e] at hb2
      unfold Sw.starts at hs2
      rw [hb2] at hs2
      simp at hs2
      have : 0 < w2 - w1 := by omega
      have : 0 < (w2 - w1) * batch := Nat.mul_pos this hb
      omega
    have hst2 := idx_stable idx d T w2 hshift (idx w2 / batch) hT2 (by intro k hk; omega)
    apply sweep_live_partial_aux batch hb r hev w2 (idx w2) p hs2
    intro k hk
    have := hidx (w2 + k) (by omega)
    rw [hst2 k hk] at this; exact this


/-! ### only unsafe vaults are removed -/


/-- ids are store keys: no two vaults share one -/
def NodupIds (w : World) : Prop := (w.vaults.map (·.id)).Nodup

/-- `w'` arises from `w` by removing vaults only, and every removed vault was on the unsafe side -/
def Removes (e : Env) (w w' : World) : Prop :=
  (∀ q, q ∈ w'.vaults → q ∈ w.vaults) ∧ (∀ q, q ∈ w.vaults → q ∉ w'.vaults → vaultUnsafe e q = true)

theorem Removes.refl (e : Env) (w : World) : Removes e w w := ⟨fun _ h => h, fun _ h h' => absurd h h'⟩

theorem Removes.trans {e : Env} {a b c : World} (h1 : Removes e a b) (h2 : Removes e b c) : Removes e a c := by
  refine ⟨fun q h => h1.1 q (h2.1 q h), fun q hq hn => ?_⟩
  by_cases hb : q ∈ b.vaults
  · exact h2.2 q hb hn
  · exact h1.2 q hq hb

theorem nodup_filter (w : World) (f : Vault → Bool) (h : NodupIds w) :
    ((w.vaults.filter f).map (·.id)).Nodup := by
  unfold NodupIds at h
  exact List.Nodup.sublist (List.Sublist.map _ List.filter_sublist) h

theorem find_id_eq {l : List Vault} {id : Nat} {v : Vault} (h : l.find? (·.id == id) = some v) : v.id = id ∧ v ∈ l := by
  have h1 := List.find?_some h
  have h2 := List.mem_of_find?_eq_some h
  simp at h1
  exact ⟨h1, h2⟩

theorem same_id_eq {l : List Vault} (hn : (l.map (·.id)).Nodup) {a b : Vault} (ha : a ∈ l) (hb : b ∈ l) (h : a.id = b.id) : a = b := by
  induction l with
  | nil => cases ha
  | cons x xs ih =>
    simp only [List.map_cons, List.nodup_cons] at hn
    cases ha with
    | head =>
      cases hb with
      | head => rfl
      | tail _ hb' => exact absurd (List.mem_map_of_mem (f := (·.id)) hb') (by rw [← h]; exact hn.1)
    | tail _ ha' =>
      cases hb with
      | head => exact absurd (List.mem_map_of_mem (f := (·.id)) ha') (by rw [h]; exact hn.1)
      | tail _ hb' => exact ih hn.2 ha' hb'

/-- the hand-over removes exactly the vault `v` (`L`: any duplicate-free list containing `v` and the current vaults) -/
theorem handOver_spec (L : List Vault) (hL : (L.map (·.id)).Nodup) (w w' : World) (v : Vault) (a : Nat)
    (hsub : ∀ q, q ∈ w.vaults → q ∈ L) (hv : v ∈ L) (h : handOver w v a = some w') :
    ∀ q, q ∈ w'.vaults ↔ (q ∈ w.vaults ∧ q ≠ v) := by
  unfold handOver at h
  split at h
  · cases h
  · simp only [Option.some.injEq] at h
    subst h
    intro q
    simp only [List.mem_filter, bne_iff_ne, ne_eq]
    constructor
    · rintro ⟨hq, hne⟩
      exact ⟨hq, fun he => hne (by rw [he])⟩
    · rintro ⟨hq, hne⟩
      exact ⟨hq, fun he => hne (same_id_eq hL (hsub q hq) hv he)⟩

theorem vaultUnsafe_of_cr (e : Env) (v : Vault) (p : Product) (cr : Dec) (hp : e.product? v.prod = some p)
    (hcr : vaultCR e p v.amountIn v.totalOut = some cr) (hlt : cr < p.minCr) : vaultUnsafe e v = true := by
  unfold vaultUnsafe vaultCRof
  simp [hp, hcr, hlt]

theorem removes_of_handOver (e : Env) (L : List Vault) (hL : (L.map (·.id)).Nodup) (w w' : World) (v : Vault) (a : Nat)
    (hsub : ∀ q, q ∈ w.vaults → q ∈ L) (hv : v ∈ L) (hu : vaultUnsafe e v = true) (h : handOver w v a = some w') :
    Removes e w w' := by
  have hm := handOver_spec L hL w w' v a hsub hv h
  refine ⟨fun q hq => ((hm q).1 hq).1, fun q hq hnq => ?_⟩
  have : q = v := by
    apply Classical.byContradiction
    intro hne
    exact hnq ((hm q).2 ⟨hq, hne⟩)
  subst this
  exact hu

/-- generation 2, one position: only the addressed vault can disappear, and only when it is unsafe -/
theorem liquidateVaultV2_removes (e : Env) (L : List Vault) (hL : (L.map (·.id)).Nodup) (id : Nat) (w w' : World)
    (hsub : ∀ q, q ∈ w.vaults → q ∈ L) (h : liquidateVaultV2 e id w = some w') : Removes e w w' := by
  unfold liquidateVaultV2 at h
  split at h
  · cases h
  · rename_i v hf
    obtain ⟨_, hv⟩ := find_id_eq hf
    simp only at h
    split at h
    · cases h
    · split at h
      · cases h
      · split at h
        · cases h
        · rename_i p hp
          split at h
          · cases h
          · rename_i cr hcr
            split at h
            · rename_i hlt
              split at h
              · cases h
              · split at h
                · cases h
                · exact removes_of_handOver e L hL w w' v p.assetIn hsub (hsub v hv)
                    (vaultUnsafe_of_cr e v p cr hp hcr hlt) h
            · simp only [Option.some.injEq] at h
              subst h
              exact Removes.refl e w

/-- generation 1, one position of the sweep (the decision is taken on the snapshot `v` of the pass) -/
theorem liquidateVaultV1_removes (e : Env) (L : List Vault) (hL : (L.map (·.id)).Nodup) (a : Nat) (v : Vault) (w w' : World)
    (hsub : ∀ q, q ∈ w.vaults → q ∈ L) (hv : v ∈ L) (h : liquidateVaultV1 e a v w = some w') : Removes e w w' := by
  unfold liquidateVaultV1 at h
  split at h
  · cases h
  · split at h
    · cases h
    · rename_i p hp
      split at h
      · cases h
      · rename_i cr hcr
        split at h
        · rename_i hlt
          split at h
          · cases h
          · split at h
            · cases h
            · split at h
              · cases h
              · exact removes_of_handOver e L hL w w' v p.assetIn hsub hv (vaultUnsafe_of_cr e v p cr hp hcr hlt) h
        · simp only [Option.some.injEq] at h
          subst h
          exact Removes.refl e w

/-- a pass: every step removes only unsafe vaults ⇒ so does the fold with `ApplyFuncIfNoError` around each step -/
theorem fold_removes (e : Env) (L : List Vault) (f : Vault → World → Option World)
    (hf : ∀ v, v ∈ L → ∀ w w', (∀ q, q ∈ w.vaults → q ∈ L) → f v w = some w' → Removes e w w')
    (sl : List Vault) (hsl : ∀ v, v ∈ sl → v ∈ L) (w : World) (hsub : ∀ q, q ∈ w.vaults → q ∈ L) :
    Removes e w (sl.foldl (fun acc v => applyIfNoError (f v) acc) w) := by
  induction sl generalizing w with
  | nil => exact Removes.refl e w
  | cons v rest ih =>
    simp only [List.foldl_cons]
    have hstep : Removes e w (applyIfNoError (f v) w) := by
      unfold applyIfNoError
      cases hfv : f v w with
      | none => exact Removes.refl e w
      | some w1 => exact hf v (hsl v (by simp)) w w1 hsub hfv
    have hsub1 : ∀ q, q ∈ (applyIfNoError (f v) w).vaults → q ∈ L := fun q hq => hsub q (hstep.1 q hq)
    exact Removes.trans hstep (ih (fun x hx => hsl x (by simp [hx])) _ hsub1)

theorem goSlice_sub {α} (l sl : List α) (s e : Int) (h : goSlice l s e = some sl) : ∀ x, x ∈ sl → x ∈ l := by
  unfold goSlice at h
  split at h
  · simp only [Option.some.injEq] at h
    subst h
    intro x hx
    exact List.mem_of_mem_drop (List.mem_of_mem_take hx)
  · cases h

theorem vaultPass_removes (e : Env) (L : List Vault) (batch key off : Nat) (f : Vault → World → Option World)
    (hf : ∀ v, v ∈ L → ∀ w w', (∀ q, q ∈ w.vaults → q ∈ L) → f v w = some w' → Removes e w w')
    (w w' : World) (hsub : ∀ q, q ∈ w.vaults → q ∈ L) (h : vaultPass batch key off f w = some w') : Removes e w w' := by
  unfold vaultPass at h
  simp only at h
  split at h
  · cases h
  · rename_i sl hsl
    simp only [Option.some.injEq] at h
    subst h
    exact fold_removes e L f hf sl (fun v hv => hsub v (goSlice_sub _ _ _ _ hsl v hv)) w hsub


/-! ### borrows -/


def StepR.world : StepR → World
  | .ok w => w
  | .err w => w

def flag (id : Nat) (l : List Borrow) : List Borrow := l.map (fun x => if x.id == id then { x with liquidated := true } else x)

theorem flag_ids (id : Nat) (l : List Borrow) : (flag id l).map (·.id) = l.map (·.id) := by
  unfold flag
  induction l with
  | nil => rfl
  | cons x xs ih =>
    simp only [List.map_cons, List.map_map] at ih ⊢
    congr 1
    · by_cases h : (x.id == id) = true <;> simp [h]

/-- the borrow step leaves the vault list alone and changes the borrow list at most by flagging borrow `id` -/
theorem liquidateBorrowV2_frame (e : Env) (id : Nat) (w : World) :
    (liquidateBorrowV2 e id w).world.vaults = w.vaults ∧
    ((liquidateBorrowV2 e id w).world.borrows = w.borrows ∨
     (∃ b, w.borrows.find? (·.id == id) = some b ∧ b.liquidated = false ∧ borrowUnsafe e b = true ∧
        (liquidateBorrowV2 e id w).world.borrows = flag id w.borrows)) := by
  unfold liquidateBorrowV2
  split
  · exact ⟨rfl, Or.inl rfl⟩
  · rename_i b hb
    split
    · exact ⟨rfl, Or.inl rfl⟩
    · rename_i hl
      split
      · exact ⟨rfl, Or.inl rfl⟩
      · split
        · exact ⟨rfl, Or.inl rfl⟩
        · rename_i r hr
          split
          · rename_i hgt
            have hu : borrowUnsafe e b = true := by
              unfold borrowUnsafe; simp [hr, hgt]
            have hl' : b.liquidated = false := by simpa using hl
            simp only
            split
            · exact ⟨rfl, Or.inl rfl⟩
            · split
              · exact ⟨rfl, Or.inr ⟨b, hb, hl', hu, rfl⟩⟩
              · split
                · exact ⟨rfl, Or.inr ⟨b, hb, hl', hu, rfl⟩⟩
                · split
                  · exact ⟨rfl, Or.inr ⟨b, hb, hl', hu, rfl⟩⟩
                  · exact ⟨rfl, Or.inr ⟨b, hb, hl', hu, rfl⟩⟩
          · exact ⟨rfl, Or.inl rfl⟩

def NodupB (w : World) : Prop := (w.borrows.map (·.id)).Nodup

/-- an unflagged borrow on the safe side keeps its record, flag included -/
def KeepsB (e : Env) (w w' : World) : Prop :=
  ∀ b, b ∈ w.borrows → b.liquidated = false → borrowUnsafe e b = false → b ∈ w'.borrows

theorem same_id_eqB {l : List Borrow} (hn : (l.map (·.id)).Nodup) {a b : Borrow} (ha : a ∈ l) (hb : b ∈ l) (h : a.id = b.id) : a = b := by
  induction l with
  | nil => cases ha
  | cons x xs ih =>
    simp only [List.map_cons, List.nodup_cons] at hn
    cases ha with
    | head =>
      cases hb with
      | head => rfl
      | tail _ hb' => exact absurd (List.mem_map_of_mem (f := (·.id)) hb') (by rw [← h]; exact hn.1)
    | tail _ ha' =>
      cases hb with
      | head => exact absurd (List.mem_map_of_mem (f := (·.id)) ha') (by rw [h]; exact hn.1)
      | tail _ hb' => exact ih hn.2 ha' hb'

theorem liquidateBorrowV2_keeps (e : Env) (id : Nat) (w : World) (hn : NodupB w) :
    KeepsB e w (liquidateBorrowV2 e id w).world ∧ NodupB (liquidateBorrowV2 e id w).world := by
  obtain ⟨_, hb⟩ := liquidateBorrowV2_frame e id w
  cases hb with
  | inl h => unfold KeepsB NodupB; rw [h]; exact ⟨fun b hb _ _ => hb, hn⟩
  | inr h =>
    obtain ⟨b0, hf, _, hu, hfl⟩ := h
    unfold KeepsB NodupB
    rw [hfl]
    refine ⟨fun b hb _ hs => ?_, by rw [flag_ids]; exact hn⟩
    have h0 := List.find?_some hf
    have hm0 := List.mem_of_find?_eq_some hf
    simp at h0
    have hne : ¬ (b.id = id) := by
      intro he
      have : b = b0 := same_id_eqB hn hb hm0 (by rw [he, h0])
      subst this
      rw [hu] at hs; cases hs
    unfold flag
    apply List.mem_map.mpr
    exact ⟨b, hb, by simp [hne]⟩

theorem borrowLoopV2_spec (e : Env) (ids : List Nat) (w : World) (hn : NodupB w) :
    (borrowLoopV2 e ids w).world.vaults = w.vaults ∧ KeepsB e w (borrowLoopV2 e ids w).world := by
  induction ids generalizing w with
  | nil => exact ⟨rfl, fun b hb _ _ => hb⟩
  | cons id rest ih =>
    have hfr := liquidateBorrowV2_frame e id w
    have hk := liquidateBorrowV2_keeps e id w hn
    unfold borrowLoopV2
    cases hstep : liquidateBorrowV2 e id w with
    | err leak =>
      rw [hstep] at hfr hk
      exact ⟨hfr.1, hk.1⟩
    | ok w1 =>
      rw [hstep] at hfr hk
      simp only
      have := ih w1 hk.2
      refine ⟨by rw [this.1]; exact hfr.1, fun b hb hl hs => this.2 b (hk.1 b hb hl hs) hl hs⟩


end Comdex.Liquidation
