import Comdex.Model.Liquidation
/-! Helper lemmas for C09 (core Lean only: `omega`, `simp`, `split`, induction). -/
namespace Comdex.Liquidation
open Comdex

/-! ### slice arithmetic -/

theorem toGoInt_small (x : Nat) (h : x < 2 ^ 63) : toGoInt x = (x : Int) := by
  unfold toGoInt; rw [if_pos h]

theorem wrapInt_eq {x : Int} (h1 : -9223372036854775808 ≤ x) (h2 : x < 9223372036854775808) : wrapInt x = x := by
  unfold wrapInt; omega

/-- without the int64 wrap of `off + batch` the function is the ideal one -/
theorem sliceBoundsI_nowrap (len off batch : Int) (hw : off + batch < 9223372036854775808) :
    sliceBoundsI len off batch =
      if off ≥ len ∨ off < 0 ∨ batch < 0 then (len, len)
      else if off + batch ≥ len then (off, len) else (off, off + batch) := by
  unfold sliceBoundsI
  by_cases h : off ≥ len ∨ off < 0 ∨ batch < 0
  · rw [if_pos h, if_pos h]
  · rw [if_neg h, if_neg h, wrapInt_eq (by omega) hw]

theorem sliceBoundsI_bounds (len off batch : Int) (hl : 0 ≤ len) (hw : off + batch < 9223372036854775808) :
    0 ≤ (sliceBoundsI len off batch).1 ∧ (sliceBoundsI len off batch).1 ≤ (sliceBoundsI len off batch).2 ∧
    (sliceBoundsI len off batch).2 ≤ len := by
  rw [sliceBoundsI_nowrap len off batch hw]
  split
  · simp; omega
  · split
    · simp; omega
    · simp; omega

theorem sweepBoundsI_bounds (cnt off batch : Int) (hl : 0 ≤ cnt) (hb : batch < 9223372036854775808)
    (hw : off + batch < 9223372036854775808) :
    0 ≤ (sweepBoundsI cnt off batch).1 ∧ (sweepBoundsI cnt off batch).1 ≤ (sweepBoundsI cnt off batch).2 ∧
    (sweepBoundsI cnt off batch).2 ≤ cnt := by
  unfold sweepBoundsI
  simp only
  split
  · exact sliceBoundsI_bounds cnt 0 batch hl (by omega)
  · exact sliceBoundsI_bounds cnt off batch hl hw

/-- closed form of the end of a sweep's range for non-negative arguments -/
theorem sweepBoundsI_end (cnt off batch : Int) (hc : 0 ≤ cnt) (ho : 0 ≤ off) (hb : 0 < batch)
    (hw : off + batch < 9223372036854775808) :
    (sweepBoundsI cnt off batch).2 = if off < cnt then min (off + batch) cnt else min batch cnt := by
  unfold sweepBoundsI
  rw [sliceBoundsI_nowrap cnt off batch hw, sliceBoundsI_nowrap cnt 0 batch (by omega)]
  simp only
  by_cases h1 : off < cnt
  · rw [if_pos h1]
    have h3 : ¬ (off ≥ cnt ∨ off < 0 ∨ batch < 0) := by omega
    rw [if_neg h3]
    by_cases h2 : off + batch ≥ cnt
    · rw [if_pos h2]
      have : ¬ (off = cnt) := by omega
      simp only [this, if_false]; omega
    · rw [if_neg h2]
      have hb0 : ¬ (off = off + batch) := by omega
      simp only [hb0, if_false]; omega
  · rw [if_neg h1]
    have h3 : (off ≥ cnt ∨ off < 0 ∨ batch < 0) := by omega
    rw [if_pos h3]
    simp only [if_true]
    by_cases hc0 : (0:Int) ≥ cnt
    · have : ((0:Int) ≥ cnt ∨ (0:Int) < 0 ∨ batch < 0) := by omega
      rw [if_pos this]; omega
    · have : ¬ ((0:Int) ≥ cnt ∨ (0:Int) < 0 ∨ batch < 0) := by omega
      rw [if_neg this]
      by_cases h5 : 0 + batch ≥ cnt
      · rw [if_pos h5]; omega
      · rw [if_neg h5]; omega

theorem sliceBounds_cast (len off batch : Nat) (hw : (off : Int) + batch < 9223372036854775808) :
    sliceBoundsI len off batch = (((sliceBounds len off batch).1 : Int), ((sliceBounds len off batch).2 : Int)) := by
  rw [sliceBoundsI_nowrap _ _ _ hw]
  unfold sliceBounds
  by_cases h1 : off ≥ len
  · have : ((off:Int) ≥ len ∨ (off:Int) < 0 ∨ (batch:Int) < 0) := by omega
    rw [if_pos this, if_pos h1]
  · have h1' : ¬ ((off:Int) ≥ len ∨ (off:Int) < 0 ∨ (batch:Int) < 0) := by omega
    rw [if_neg h1', if_neg h1]
    by_cases h2 : off + batch ≥ len
    · have : (off:Int) + batch ≥ len := by omega
      rw [if_pos this, if_pos h2]
    · have : ¬ ((off:Int) + batch ≥ len) := by omega
      rw [if_neg this, if_neg h2]; simp

theorem sweepBounds_cast (cnt off batch : Nat) (hw : (off : Int) + batch < 9223372036854775808) :
    sweepBoundsI cnt off batch = (((sweepBounds cnt off batch).1 : Int), ((sweepBounds cnt off batch).2 : Int)) := by
  unfold sweepBoundsI sweepBounds
  simp only
  rw [sliceBounds_cast cnt off batch hw]
  have h0 := sliceBounds_cast cnt 0 batch (by omega)
  by_cases h : (sliceBounds cnt off batch).1 = (sliceBounds cnt off batch).2
  · have h' : ((sliceBounds cnt off batch).1 : Int) = ((sliceBounds cnt off batch).2 : Int) := by omega
    rw [if_pos h', if_pos h]
    exact h0
  · have h' : ¬ (((sliceBounds cnt off batch).1 : Int) = ((sliceBounds cnt off batch).2 : Int)) := by omega
    rw [if_neg h', if_neg h]

theorem sliceBounds_bounds (len off batch : Nat) :
    (sliceBounds len off batch).1 ≤ (sliceBounds len off batch).2 ∧ (sliceBounds len off batch).2 ≤ len := by
  unfold sliceBounds
  split
  · simp
  · split <;> simp <;> omega

theorem sweepBounds_bounds (cnt off batch : Nat) :
    (sweepBounds cnt off batch).1 ≤ (sweepBounds cnt off batch).2 ∧ (sweepBounds cnt off batch).2 ≤ cnt := by
  unfold sweepBounds
  simp only
  split
  · exact sliceBounds_bounds cnt 0 batch
  · exact sliceBounds_bounds cnt off batch

/-- the range of a block when the stored offset is still inside the list: it starts at the offset -/
theorem sweepBounds_inside (n off batch : Nat) (h : off < n) (hb : 0 < batch) :
    sweepBounds n off batch = (off, min (off + batch) n) := by
  unfold sweepBounds sliceBounds
  have h1 : ¬ (off ≥ n) := by omega
  simp only [h1, if_false]
  by_cases h2 : off + batch ≥ n
  · simp only [h2, if_true]
    have : ¬ (off = n) := by omega
    simp only [this, if_false]
    congr 1; omega
  · simp only [h2, if_false]
    have : ¬ (off = off + batch) := by omega
    simp only [this, if_false]
    congr 1; omega

/-- … and when it is not, the block starts a new sweep at index 0 -/
theorem sweepBounds_wrap (n off batch : Nat) (h : n ≤ off) :
    sweepBounds n off batch = (0, min batch n) := by
  unfold sweepBounds sliceBounds
  have h1 : (off ≥ n) := by omega
  simp only [h1, if_true]
  by_cases h0 : 0 ≥ n
  · have : n = 0 := by omega
    subst this; simp
  · simp only [h0, if_false]
    by_cases h2 : 0 + batch ≥ n
    · simp only [h2, if_true]; congr 1; omega
    · simp only [h2, if_false]; congr 1; omega


/-! ### the abstract sweep: liveness -/


/-- offsets evolve as the code stores them: the next block's offset is this block's range end -/
def Evolves (batch : Nat) (r : Nat → Sw) : Prop :=
  ∀ k, (r (k+1)).off = (sweepBounds (r k).l.length (r k).off batch).2

theorem starts_bounds (batch : Nat) (hb : 0 < batch) (s : Sw) (h : s.starts batch = true) (_hn : 0 < s.l.length) :
    sweepBounds s.l.length s.off batch = (0, min batch s.l.length) := by
  unfold Sw.starts at h
  by_cases ho : s.off < s.l.length
  · rw [sweepBounds_inside _ _ _ ho hb] at h ⊢
    simp at h
    rw [h]; simp
  · exact sweepBounds_wrap _ _ _ (by omega)

/-- while nothing before index `i` moves, a sweep that started at block `t` marches in steps of `batch` -/
theorem march (batch : Nat) (hb : 0 < batch) (r : Nat → Sw) (hev : Evolves batch r) (t i : Nat)
    (hstart : (r t).starts batch = true) (K : Nat) (hK : K * batch ≤ i)
    (hlen : ∀ k, k ≤ K → i < (r (t+k)).l.length) :
    ∀ k, k ≤ K → sweepBounds (r (t+k)).l.length (r (t+k)).off batch
        = (k * batch, min (k * batch + batch) (r (t+k)).l.length) := by
  intro k
  induction k with
  | zero =>
    intro _
    have h0 := hlen 0 (by omega)
    have := starts_bounds batch hb (r t) hstart (by simp at h0; omega)
    simp only [Nat.add_zero, Nat.zero_mul, Nat.zero_add]
    exact this
  | succ k ih =>
    intro hk
    have ihk := ih (by omega)
    have hoff : (r (t + (k+1))).off = min (k * batch + batch) (r (t+k)).l.length := by
      have := hev (t+k)
      rw [ihk] at this
      simpa [Nat.add_assoc] using this
    have h1 : (k+1) * batch ≤ K * batch := Nat.mul_le_mul_right _ hk
    have h2 := hlen k (by omega)
    have h3 := hlen (k+1) hk
    have hsucc : (k+1) * batch = k * batch + batch := Nat.succ_mul k batch
    have : (r (t + (k+1))).off = (k+1) * batch := by rw [hoff, hsucc]; omega
    rw [sweepBounds_inside _ _ _ (by omega) hb, this]

theorem mem_slice {α} (l : List α) (s e i : Nat) (p : α) (hi : l[i]? = some p) (hs : s ≤ i) (he : i < e) :
    p ∈ (l.drop s).take (e - s) := by
  have : ((l.drop s).take (e - s))[i - s]? = some p := by
    rw [List.getElem?_take]
    have : i - s < e - s := by omega
    simp only [this, if_true]
    rw [List.getElem?_drop]
    have : s + (i - s) = i := by omega
    rw [this]; exact hi
  exact List.mem_of_getElem? this

/-- **Liveness, the part that is true.** If block `t` starts a sweep (its range begins at index 0) and position `p`
stays at index `i` during the `i / batch + 1` blocks `t … t + i / batch` — i.e. `p` persists and during these blocks
no position BEFORE it is deleted, neither closed by its owner nor seized — then `p` is handed to the per-position
step in block `t + i / batch`.  Appends at the end and deletions behind `p` are unrestricted. -/
theorem sweep_live_partial_aux (batch : Nat) (hb : 0 < batch) (r : Nat → Sw) (hev : Evolves batch r)
    (t i p : Nat) (hstart : (r t).starts batch = true)
    (hpos : ∀ k, k ≤ i / batch → (r (t+k)).l[i]? = some p) :
    p ∈ (r (t + i / batch)).processed batch := by
  have hlen : ∀ k, k ≤ i / batch → i < (r (t+k)).l.length := by
    intro k hk
    have := hpos k hk
    exact (List.getElem?_eq_some_iff.mp this).1
  have hm := march batch hb r hev t i hstart (i / batch) (Nat.div_mul_le_self i batch) hlen (i / batch) (Nat.le_refl _)
  unfold Sw.processed
  simp only
  rw [hm]
  simp only
  apply mem_slice _ _ _ i p (hpos _ (Nat.le_refl _)) (Nat.div_mul_le_self i batch)
  have h1 : i < batch * (i / batch + 1) := Nat.lt_mul_div_succ i hb
  have h2 : batch * (i / batch + 1) = i / batch * batch + batch := by
    rw [Nat.mul_add, Nat.mul_one, Nat.mul_comm]
  have := hlen (i / batch) (Nat.le_refl _)
  omega


theorem idx_stable (idx : Nat → Nat) (d T w : Nat) (hshift : ∀ k, k < T → k ≠ d → idx (k+1) = idx k)
    (n : Nat) (hT : w + n ≤ T) (hd : ∀ k, k < n → w + k ≠ d) : ∀ k, k ≤ n → idx (w + k) = idx w := by
  intro k
  induction k with
  | zero => intro _; rfl
  | succ k ih =>
    intro hk
    have := hshift (w + k) (by omega) (hd k (by omega))
    rw [← ih (by omega), ← this, Nat.add_assoc]

/-- **Two sweeps suffice when positions before `p` are deleted in at most one block.**  `idx k` is the index of the
persisting position `p` before block `k`; `d` is the only block (up to the horizon `T`) in which its index changes.
Then for any two sweep starts `w1 < w2`, `p` is handed to the per-position step in the sweep started at `w1` or in the
one started at `w2`. -/
theorem two_sweeps_if_one_shift_aux (batch : Nat) (hb : 0 < batch) (r : Nat → Sw) (hev : Evolves batch r)
    (p : Nat) (idx : Nat → Nat) (T : Nat) (hidx : ∀ k, k ≤ T → (r k).l[idx k]? = some p)
    (d : Nat) (hshift : ∀ k, k < T → k ≠ d → idx (k+1) = idx k)
    (w1 w2 : Nat) (h12 : w1 < w2) (hs1 : (r w1).starts batch = true) (hs2 : (r w2).starts batch = true)
    (hT1 : w1 + idx w1 / batch ≤ T) (hT2 : w2 + idx w2 / batch ≤ T) :
    p ∈ (r (w1 + idx w1 / batch)).processed batch ∨ p ∈ (r (w2 + idx w2 / batch)).processed batch := by
  by_cases hA : ∀ k, k < idx w1 / batch → w1 + k ≠ d
  · left
    have hst := idx_stable idx d T w1 hshift (idx w1 / batch) hT1 hA
    apply sweep_live_partial_aux batch hb r hev w1 (idx w1) p hs1
    intro k hk
    have := hidx (w1 + k) (by omega)
    rw [hst k hk] at this; exact this
  · right
    have hB : ∃ k0, k0 < idx w1 / batch ∧ w1 + k0 = d := by
      apply Classical.byContradiction
      intro hne
      apply hA
      intro k hk hkd
      exact hne ⟨k, hk, hkd⟩
    obtain ⟨k0, hk0, hk0d⟩ := hB
    -- the index is stable up to block d, so the sweep started at w1 marches and there is no start in (w1, d]
    have hst := idx_stable idx d T w1 hshift k0 (by omega) (by intro k hk; omega)
    have hlen : ∀ k, k ≤ k0 → idx w1 < (r (w1+k)).l.length := by
      intro k hk
      have := hidx (w1 + k) (by omega)
      rw [hst k hk] at this
      exact (List.getElem?_eq_some_iff.mp this).1
    have hK : k0 * batch ≤ idx w1 :=
      Nat.le_trans (Nat.mul_le_mul_right _ (Nat.le_of_lt hk0)) (Nat.div_mul_le_self _ _)
    have hm := march batch hb r hev w1 (idx w1) hs1 k0 hK hlen
    have hw2 : d < w2 := by
      apply Classical.byContradiction
      intro hle
      have hle : w2 ≤ d := by omega
      have hj : w2 - w1 ≤ k0 := by omega
      have hb2 := hm (w2 - w1) hj
      have e : w1 + (w2 - w1) = w2 := by omega
      rw [e] at hb2
      unfold Sw.starts at hs2
      rw [hb2] at hs2
      simp at hs2
      have : 0 < w2 - w1 := by omega
      have : 0 < (w2 - w1) * batch := Nat.mul_pos this hb
      omega
    have hst2 := idx_stable idx d T w2 hshift (idx w2 / batch) hT2 (by intro k hk; omega)
    apply sweep_live_partial_aux batch hb r hev w2 (idx w2) p hs2
    intro k hk
    have := hidx (w2 + k) (by omega)
    rw [hst2 k hk] at this; exact this


/-! ### only unsafe vaults are removed -/


/-- ids are store keys: no two vaults share one -/
def NodupIds (w : World) : Prop := (w.vaults.map (·.id)).Nodup

/-- no emergency control is on for the app and liquidation is whitelisted for it in one of the generations -/
def GuardsOff (e : Env) (app : Nat) : Prop :=
  (e.app app).esm = false ∧ (e.app app).kill = false ∧ ((e.app app).wl2 = true ∨ (e.app app).wl1 = true)

/-- `w'` arises from `w` by removing vaults only, and every removed vault was on the unsafe side -/
def Removes (e : Env) (w w' : World) : Prop :=
  (∀ q, q ∈ w'.vaults → q ∈ w.vaults) ∧ (∀ q, q ∈ w.vaults → q ∉ w'.vaults → vaultUnsafe e q = true ∧ GuardsOff e q.app)

theorem Removes.refl (e : Env) (w : World) : Removes e w w := ⟨fun _ h => h, fun _ h h' => absurd h h'⟩

theorem Removes.trans {e : Env} {a b c : World} (h1 : Removes e a b) (h2 : Removes e b c) : Removes e a c := by
  refine ⟨fun q h => h1.1 q (h2.1 q h), fun q hq hn => ?_⟩
  by_cases hb : q ∈ b.vaults
  · exact h2.2 q hb hn
  · exact h1.2 q hq hb

theorem nodup_filter (w : World) (f : Vault → Bool) (h : NodupIds w) :
    ((w.vaults.filter f).map (·.id)).Nodup := by
  unfold NodupIds at h
  exact List.Nodup.sublist (List.Sublist.map _ List.filter_sublist) h

theorem find_id_eq {l : List Vault} {id : Nat} {v : Vault} (h : l.find? (·.id == id) = some v) : v.id = id ∧ v ∈ l := by
  have h1 := List.find?_some h
  have h2 := List.mem_of_find?_eq_some h
  simp at h1
  exact ⟨h1, h2⟩

theorem same_id_eq {l : List Vault} (hn : (l.map (·.id)).Nodup) {a b : Vault} (ha : a ∈ l) (hb : b ∈ l) (h : a.id = b.id) : a = b := by
  induction l with
  | nil => cases ha
  | cons x xs ih =>
    simp only [List.map_cons, List.nodup_cons] at hn
    cases ha with
    | head =>
      cases hb with
      | head => rfl
      | tail _ hb' => exact absurd (List.mem_map_of_mem (f := (·.id)) hb') (by rw [← h]; exact hn.1)
    | tail _ ha' =>
      cases hb with
      | head => exact absurd (List.mem_map_of_mem (f := (·.id)) ha') (by rw [h]; exact hn.1)
      | tail _ hb' => exact ih hn.2 ha' hb'

/-- the hand-over removes exactly the vault `v` (`L`: any duplicate-free list containing `v` and the current vaults) -/
theorem handOver_spec (L : List Vault) (hL : (L.map (·.id)).Nodup) (w w' : World) (v : Vault) (a : Nat) (k : Amounts)
    (hsub : ∀ q, q ∈ w.vaults → q ∈ L) (hv : v ∈ L) (h : handOver w v a k = some w') :
    ∀ q, q ∈ w'.vaults ↔ (q ∈ w.vaults ∧ q ≠ v) := by
  unfold handOver at h
  split at h
  · cases h
  · simp only [Option.some.injEq] at h
    subst h
    intro q
    simp only [List.mem_filter, bne_iff_ne, ne_eq]
    constructor
    · rintro ⟨hq, hne⟩
      exact ⟨hq, fun he => hne (by rw [he])⟩
    · rintro ⟨hq, hne⟩
      exact ⟨hq, fun he => hne (same_id_eq hL (hsub q hq) hv he)⟩

theorem vaultUnsafe_of_cr (e : Env) (v : Vault) (p : Product) (cr : Dec) (hp : e.product? v.prod = some p)
    (hcr : vaultCR e p v.amountIn v.totalOut = some cr) (hlt : cr < p.minCr) : vaultUnsafe e v = true := by
  unfold vaultUnsafe vaultCRof
  simp [hp, hcr, hlt]

theorem removes_of_handOver (e : Env) (L : List Vault) (hL : (L.map (·.id)).Nodup) (w w' : World) (v : Vault) (a : Nat) (k : Amounts)
    (hsub : ∀ q, q ∈ w.vaults → q ∈ L) (hv : v ∈ L) (hu : vaultUnsafe e v = true ∧ GuardsOff e v.app) (h : handOver w v a k = some w') :
    Removes e w w' := by
  have hm := handOver_spec L hL w w' v a k hsub hv h
  refine ⟨fun q hq => ((hm q).1 hq).1, fun q hq hnq => ?_⟩
  have : q = v := by
    apply Classical.byContradiction
    intro hne
    exact hnq ((hm q).2 ⟨hq, hne⟩)
  subst this
  exact hu

/-- a pass: every step removes only unsafe vaults ⇒ so does the fold with `ApplyFuncIfNoError` around each step -/
theorem fold_removes (e : Env) (L : List Vault) (f : Vault → World → Option World)
    (hf : ∀ v, v ∈ L → ∀ w w', (∀ q, q ∈ w.vaults → q ∈ L) → f v w = some w' → Removes e w w')
    (sl : List Vault) (hsl : ∀ v, v ∈ sl → v ∈ L) (w : World) (hsub : ∀ q, q ∈ w.vaults → q ∈ L) :
    Removes e w (sl.foldl (fun acc v => applyIfNoError (f v) acc) w) := by
  induction sl generalizing w with
  | nil => exact Removes.refl e w
  | cons v rest ih =>
    simp only [List.foldl_cons]
    have hstep : Removes e w (applyIfNoError (f v) w) := by
      unfold applyIfNoError
      cases hfv : f v w with
      | none => exact Removes.refl e w
      | some w1 => exact hf v (hsl v (by simp)) w w1 hsub hfv
    have hsub1 : ∀ q, q ∈ (applyIfNoError (f v) w).vaults → q ∈ L := fun q hq => hsub q (hstep.1 q hq)
    exact Removes.trans hstep (ih (fun x hx => hsl x (by simp [hx])) _ hsub1)

theorem goSlice_sub {α} (l sl : List α) (s e : Int) (h : goSlice l s e = some sl) : ∀ x, x ∈ sl → x ∈ l := by
  unfold goSlice at h
  split at h
  · simp only [Option.some.injEq] at h
    subst h
    intro x hx
    exact List.mem_of_mem_drop (List.mem_of_mem_take hx)
  · cases h

theorem vaultPass_removes (e : Env) (L : List Vault) (batch key off : Nat) (f : Vault → World → Option World)
    (hf : ∀ v, v ∈ L → ∀ w w', (∀ q, q ∈ w.vaults → q ∈ L) → f v w = some w' → Removes e w w')
    (w w' : World) (hsub : ∀ q, q ∈ w.vaults → q ∈ L) (h : vaultPass batch key off f w = some w') : Removes e w w' := by
  unfold vaultPass at h
  simp only at h
  split at h
  · cases h
  · rename_i sl hsl
    simp only [Option.some.injEq] at h
    subst h
    exact fold_removes e L f hf sl (fun v hv => hsub v (goSlice_sub _ _ _ _ hsl v hv)) w hsub


/-! ### custody and auction book -/


/-! balances -/
theorem Bal.find_append_none (b : Bal) (k : Nat) (d : Int) (h : b.any (·.1 == k) = false) :
    (b ++ [(k, d)]).find? (·.1 == k) = some (k, d) := by
  induction b with
  | nil => simp
  | cons x xs ih =>
    simp only [List.any_cons, Bool.or_eq_false_iff] at h
    simp only [List.cons_append, List.find?_cons, h.1]
    exact ih h.2

theorem Bal.find_map_self (b : Bal) (k : Nat) (d : Int) (h : b.any (·.1 == k) = true) :
    ((b.map (fun x => if x.1 == k then (x.1, x.2 + d) else x)).find? (·.1 == k)).map (·.2)
      = (b.find? (·.1 == k)).map (fun x => x.2 + d) := by
  induction b with
  | nil => simp at h
  | cons x xs ih =>
    simp only [List.map_cons, List.find?_cons]
    cases hx : (x.1 == k) with
    | true => simp [hx]
    | false =>
      simp only [List.any_cons, hx, Bool.false_or] at h
      simp only [Bool.false_eq_true, if_false, hx]
      exact ih h

theorem Bal.get_add_self (b : Bal) (k : Nat) (d : Int) : (Bal.add b k d).get k = b.get k + d := by
  unfold Bal.add Bal.get
  by_cases h : b.any (·.1 == k) = true
  · simp only [h, if_true]
    rw [Bal.find_map_self b k d h]
    have : ∃ y, b.find? (·.1 == k) = some y := by
      cases hf : b.find? (·.1 == k) with
      | some y => exact ⟨y, rfl⟩
      | none =>
        rw [List.find?_eq_none] at hf
        obtain ⟨x, hx, hxk⟩ := List.any_eq_true.mp h
        exact absurd hxk (hf x hx)
    obtain ⟨y, hy⟩ := this
    simp [hy]
  · simp only [Bool.not_eq_true] at h
    simp only [h, Bool.false_eq_true, if_false]
    rw [Bal.find_append_none b k d h]
    have : b.find? (·.1 == k) = none := by
      rw [List.find?_eq_none]
      intro x hx
      have := List.any_eq_false.mp h x hx
      simpa using this
    simp [this]

theorem Bal.find_map_other (b : Bal) (k k' : Nat) (d : Int) (hne : k' ≠ k) :
    ((b.map (fun x => if x.1 == k then (x.1, x.2 + d) else x)).find? (·.1 == k'))
      = (b.find? (·.1 == k')) := by
  induction b with
  | nil => rfl
  | cons x xs ih =>
    simp only [List.map_cons, List.find?_cons]
    by_cases hx : (x.1 == k) = true
    · have hk : x.1 = k := by simpa using hx
      have h1 : (x.1 == k') = false := by
        simp only [beq_eq_false_iff_ne, ne_eq, hk]; exact fun h => hne h.symm
      simp only [hx, if_true, h1]
      exact ih
    · simp only [Bool.not_eq_true] at hx
      simp only [hx, Bool.false_eq_true, if_false]
      cases hk' : (x.1 == k') with
      | true => rfl
      | false => exact ih

theorem Bal.get_add_other (b : Bal) (k k' : Nat) (d : Int) (hne : k' ≠ k) : (Bal.add b k d).get k' = b.get k' := by
  unfold Bal.add Bal.get
  by_cases h : b.any (·.1 == k) = true
  · simp only [h, if_true]
    rw [Bal.find_map_other b k k' d hne]
  · simp only [Bool.not_eq_true] at h
    simp only [h, Bool.false_eq_true, if_false]
    rw [List.find?_append]
    have : ([(k, d)] : Bal).find? (·.1 == k') = none := by
      simp only [List.find?_cons, List.find?_nil]
      have : (k == k') = false := by simp only [beq_eq_false_iff_ne, ne_eq]; exact fun h => hne h.symm
      simp [this]
    rw [this]; simp

/-- effect of the hand-over on custody and on the auction book -/
theorem handOver_effect (w w' : World) (v : Vault) (a : Nat) (k : Amounts) (hnn : 0 ≤ v.amountIn) (h : handOver w v a k = some w') :
    w'.auctionBal.get a = w.auctionBal.get a + v.amountIn ∧
    w'.vaultBal.get a = w.vaultBal.get a - v.amountIn ∧
    (∀ a', a' ≠ a → w'.auctionBal.get a' = w.auctionBal.get a' ∧ w'.vaultBal.get a' = w.vaultBal.get a') ∧
    w'.poolBal = w.poolBal ∧
    w'.auctionId = w.auctionId + 1 ∧ w'.lockedId = w.lockedId + 1 ∧
    w'.newAuctions = w.newAuctions ++ [{ id := w.auctionId + 1, locked := w.lockedId + 1, asset := a, amount := v.amountIn, target := k.target }] ∧
    w'.newLocked = w.newLocked ++ [{ id := w.lockedId + 1, orig := v.id, app := v.app, amountIn := v.amountIn, isBorrow := false,
                                     debt := k.debt, target := k.target, fee := k.fee, bonus := k.bonus, cr := k.cr, collValue := k.collValue }] ∧
    w'.counter = decU64 w.counter ∧ w'.borrows = w.borrows ∧ w'.offsets = w.offsets ∧
    w'.lendBal = w.lendBal ∧ w'.totalLend = w.totalLend ∧ w'.totalBorrowed = w.totalBorrowed ∧
    (v.amountIn ≤ w.vaultBal.get a ∨ v.amountIn = 0) := by
  unfold handOver at h
  split at h
  · cases h
  · rename_i hc
    simp only [Option.some.injEq] at h
    subst h
    simp only
    by_cases hp : v.amountIn > 0
    · simp only [hp, if_true]
      refine ⟨Bal.get_add_self _ _ _, ?_, fun a' hne => ⟨Bal.get_add_other _ _ _ _ hne, Bal.get_add_other _ _ _ _ hne⟩, ?_⟩
      · rw [Bal.get_add_self]; omega
      · simp only [true_and]
        exact Or.inl (by omega)
    · have h0 : v.amountIn = 0 := by omega
      simp [h0]


/-! ### case analysis of the per-position steps, offsets, slicing -/


theorem vaultUnsafe_iff (e : Env) (v : Vault) (p : Product) (hp : e.product? v.prod = some p) :
    vaultUnsafe e v = true ↔ ∃ cr, vaultCR e p v.amountIn v.totalOut = some cr ∧ cr < p.minCr := by
  unfold vaultUnsafe vaultCRof
  simp only [hp]
  cases h : vaultCR e p v.amountIn v.totalOut with
  | none => simp
  | some cr => simp

/-- generation 2: what a successful step did — nothing, or the hand-over of the addressed vault, which then was unsafe on
its RECORDED debt, with every guard off (no ESM, no kill switch, whitelisted, Dutch auctions activated) -/
theorem liquidateVaultV2_cases (e : Env) (id : Nat) (w w' : World) (h : liquidateVaultV2 e id w = some w') :
    w' = w ∨ ∃ v p k, w.vaults.find? (·.id == id) = some v ∧ e.product? v.prod = some p ∧ vaultUnsafe e v = true ∧
      GuardsOff e v.app ∧ (e.app v.app).dutch2 = true ∧ amountsV2 e p v = some k ∧ handOver w v p.assetIn k = some w' := by
  unfold liquidateVaultV2 at h
  split at h
  · cases h
  · rename_i v hf
    simp only at h
    split at h
    · cases h
    · rename_i hg1
      split at h
      · cases h
      · rename_i hg2
        split at h
        · cases h
        · rename_i p hp
          split at h
          · cases h
          · rename_i cr hcr
            split at h
            · rename_i hlt
              split at h
              · cases h
              · rename_i hd
                split at h
                · cases h
                · split at h
                  · cases h
                  · rename_i k hk
                    have hg : GuardsOff e v.app := by
                      simp only [Bool.or_eq_true, not_or, Bool.not_eq_true] at hg1
                      simp only [Bool.not_eq_true', Bool.not_eq_false] at hg2
                      exact ⟨hg1.1, hg1.2, Or.inl hg2⟩
                    have hd' : (e.app v.app).dutch2 = true := by simpa using hd
                    exact Or.inr ⟨v, p, k, hf, hp, vaultUnsafe_of_cr e v p cr hp hcr hlt, hg, hd', hk, h⟩
            · simp only [Option.some.injEq] at h
              exact Or.inl h.symm

theorem liquidateVaultV1_cases (e : Env) (a : Nat) (v : Vault) (w w' : World) (h : liquidateVaultV1 e a v w = some w') :
    w' = w ∨ ∃ p k, v.app = a ∧ e.product? v.prod = some p ∧ vaultUnsafe e v = true ∧ (e.app a).auc1 = true ∧
      amountsV1 e p v = some k ∧ handOver w v p.assetIn k = some w' := by
  unfold liquidateVaultV1 at h
  split at h
  · cases h
  · rename_i happ
    split at h
    · cases h
    · rename_i p hp
      split at h
      · cases h
      · rename_i cr hcr
        split at h
        · rename_i hlt
          split at h
          · cases h
          · split at h
            · cases h
            · rename_i hauc
              split at h
              · cases h
              · split at h
                · cases h
                · rename_i k hk
                  have ha : v.app = a := by simpa using happ
                  have hauc' : (e.app a).auc1 = true := by simpa using hauc
                  exact Or.inr ⟨p, k, ha, hp, vaultUnsafe_of_cr e v p cr hp hcr hlt, hauc', hk, h⟩
        · simp only [Option.some.injEq] at h
          exact Or.inl h.symm

/-- generation 2, one position: only the addressed vault can disappear, and only when it is unsafe and unguarded -/
theorem liquidateVaultV2_removes (e : Env) (L : List Vault) (hL : (L.map (·.id)).Nodup) (id : Nat) (w w' : World)
    (hsub : ∀ q, q ∈ w.vaults → q ∈ L) (h : liquidateVaultV2 e id w = some w') : Removes e w w' := by
  cases liquidateVaultV2_cases e id w w' h with
  | inl h => rw [h]; exact Removes.refl e w
  | inr h =>
    obtain ⟨v, p, k, hf, _, hu, hg, _, _, ho⟩ := h
    exact removes_of_handOver e L hL w w' v p.assetIn k hsub (hsub v (find_id_eq hf).2) ⟨hu, hg⟩ ho

/-- generation 1, one position (the decision is taken on the snapshot `v` of the pass); the caller has checked the app's guards -/
theorem liquidateVaultV1_removes (e : Env) (L : List Vault) (hL : (L.map (·.id)).Nodup) (a : Nat) (v : Vault) (w w' : World)
    (hga : GuardsOff e a) (hsub : ∀ q, q ∈ w.vaults → q ∈ L) (hv : v ∈ L) (h : liquidateVaultV1 e a v w = some w') : Removes e w w' := by
  cases liquidateVaultV1_cases e a v w w' h with
  | inl h => rw [h]; exact Removes.refl e w
  | inr h =>
    obtain ⟨p, k, ha, _, hu, _, _, ho⟩ := h
    exact removes_of_handOver e L hL w w' v p.assetIn k hsub hv ⟨hu, by rw [ha]; exact hga⟩ ho

theorem handOver_removes_id (w w' : World) (v : Vault) (a : Nat) (k : Amounts) (h : handOver w v a k = some w') :
    ∀ q, q ∈ w'.vaults → q.id ≠ v.id := by
  unfold handOver at h
  split at h
  · cases h
  · simp only [Option.some.injEq] at h
    subst h
    intro q hq
    simp only [List.mem_filter, bne_iff_ne, ne_eq] at hq
    exact hq.2

theorem handOver_some (w : World) (v : Vault) (a : Nat) (k : Amounts) (hb : v.amountIn ≤ w.vaultBal.get a) :
    ∃ w', handOver w v a k = some w' := by
  unfold handOver
  have : ¬ (v.amountIn > 0 ∧ w.vaultBal.get a < v.amountIn) := by omega
  simp only [this, if_false]
  exact ⟨_, rfl⟩

/-- generation 2: a processed unsafe vault IS seized when liquidation and the Dutch auction are enabled for its app,
no emergency control is on, both prices are active and the vault module holds the recorded collateral -/
theorem liquidateVaultV2_seizes (e : Env) (id : Nat) (w : World) (v : Vault) (p : Product)
    (hf : w.vaults.find? (·.id == id) = some v) (hp : e.product? v.prod = some p)
    (hesm : (e.app v.app).esm = false) (hkill : (e.app v.app).kill = false)
    (hwl : (e.app v.app).wl2 = true) (hdutch : (e.app v.app).dutch2 = true)
    (hpi : e.priceActive p.assetIn = true) (hpo : e.priceActive p.assetOut = true)
    (hb : v.amountIn ≤ w.vaultBal.get p.assetIn) (hu : vaultUnsafe e v = true) (k : Amounts) (hk : amountsV2 e p v = some k) :
    ∃ w', liquidateVaultV2 e id w = some w' ∧ handOver w v p.assetIn k = some w' ∧ ∀ q, q ∈ w'.vaults → q.id ≠ v.id := by
  obtain ⟨cr, hcr, hlt⟩ := (vaultUnsafe_iff e v p hp).1 hu
  obtain ⟨w', hw'⟩ := handOver_some w v p.assetIn k hb
  refine ⟨w', ?_, hw', handOver_removes_id w w' v _ k hw'⟩
  unfold liquidateVaultV2
  simp [hf, hesm, hkill, hwl, hdutch, hp, hcr, hlt, hpi, hpo, hk, hw']

/-- generation 1 likewise (the app is whitelisted and has auction parameters; the debt price is needed only when the
product prices its debt by the oracle) -/
theorem liquidateVaultV1_seizes (e : Env) (a : Nat) (w : World) (v : Vault) (p : Product)
    (happ : v.app = a) (hp : e.product? v.prod = some p) (hauc : (e.app a).auc1 = true)
    (hpi : e.priceActive p.assetIn = true) (hpo : p.outOracle = true → e.priceActive p.assetOut = true)
    (hb : v.amountIn ≤ w.vaultBal.get p.assetIn) (hu : vaultUnsafe e v = true) (k : Amounts) (hk : amountsV1 e p v = some k) :
    ∃ w', liquidateVaultV1 e a v w = some w' ∧ handOver w v p.assetIn k = some w' ∧ ∀ q, q ∈ w'.vaults → q.id ≠ v.id := by
  obtain ⟨cr, hcr, hlt⟩ := (vaultUnsafe_iff e v p hp).1 hu
  obtain ⟨w', hw'⟩ := handOver_some w v p.assetIn k hb
  refine ⟨w', ?_, hw', handOver_removes_id w w' v _ k hw'⟩
  unfold liquidateVaultV1
  have h1 : (v.app != a) = false := by simp [happ]
  have h2 : (p.outOracle && !e.priceActive p.assetOut) = false := by
    cases ho : p.outOracle with
    | false => simp
    | true => simp [hpo ho]
  simp [h1, hp, hcr, hlt, h2, hauc, hpi, hk, hw']

/-! offsets -/
theorem Offsets.get?_set_self (o : Offsets) (k v : Nat) : (Offsets.set o k v).get? k = some v := by
  unfold Offsets.set Offsets.get?
  by_cases h : o.any (·.1 == k) = true
  · simp only [h, if_true]
    induction o with
    | nil => simp at h
    | cons x xs ih =>
      simp only [List.map_cons, List.find?_cons]
      cases hx : (x.1 == k) with
      | true => simp
      | false =>
        simp only [List.any_cons, hx, Bool.false_or] at h
        simp only [Bool.false_eq_true, if_false, hx]
        exact ih h
  · simp only [Bool.not_eq_true] at h
    simp only [h, Bool.false_eq_true, if_false]
    have : (o ++ [(k, v)]).find? (·.1 == k) = some (k, v) := by
      induction o with
      | nil => simp
      | cons x xs ih =>
        simp only [List.any_cons, Bool.or_eq_false_iff] at h
        simp only [List.cons_append, List.find?_cons, h.1]
        exact ih h.2
    rw [this]; rfl

/-- the pass stores the end of its range as the new offset — computed from the COUNTER, whatever the list is -/
theorem vaultPass_offset (batch key off : Nat) (f : Vault → World → Option World) (w w' : World)
    (h : vaultPass batch key off f w = some w') :
    w'.offsets.get? key = some (sweepBoundsI (toGoInt w.counter) (toGoInt off) (toGoInt batch)).2.toNat := by
  unfold vaultPass at h
  simp only at h
  split at h
  · cases h
  · simp only [Option.some.injEq] at h
    subst h
    exact Offsets.get?_set_self _ _ _

/-- … and panics exactly when the range computed from the counter does not fit the list -/
theorem vaultPass_none_iff (batch key off : Nat) (f : Vault → World → Option World) (w : World) :
    vaultPass batch key off f w = none ↔
      goSlice w.vaults (sweepBoundsI (toGoInt w.counter) (toGoInt off) (toGoInt batch)).1
        (sweepBoundsI (toGoInt w.counter) (toGoInt off) (toGoInt batch)).2 = none := by
  unfold vaultPass
  simp only
  split
  · rename_i h; simp [h]
  · rename_i sl h; simp [h]

theorem goSlice_none_iff {α} (l : List α) (cnt off batch : Int) (hc : 0 ≤ cnt) (hb' : batch < 9223372036854775808)
    (hw : off + batch < 9223372036854775808) :
    goSlice l (sweepBoundsI cnt off batch).1 (sweepBoundsI cnt off batch).2 = none ↔
      (l.length : Int) < (sweepBoundsI cnt off batch).2 := by
  have hb := sweepBoundsI_bounds cnt off batch hc hb' hw
  unfold goSlice
  constructor
  · intro h
    split at h
    · cases h
    · rename_i hn; omega
  · intro h
    have : ¬ (0 ≤ (sweepBoundsI cnt off batch).1 ∧ (sweepBoundsI cnt off batch).1 ≤ (sweepBoundsI cnt off batch).2 ∧
        (sweepBoundsI cnt off batch).2 ≤ (l.length : Int)) := by omega
    simp only [this, if_false]

theorem goSlice_neg {α} (l : List α) (cnt off batch : Int) (hc : cnt < 0) :
    goSlice l (sweepBoundsI cnt off batch).1 (sweepBoundsI cnt off batch).2 = none := by
  have h1 : ∀ o, sliceBoundsI cnt o batch = (cnt, cnt) := by
    intro o
    unfold sliceBoundsI
    have h : o ≥ cnt ∨ o < 0 ∨ batch < 0 := by omega
    simp [h]
  have : (sweepBoundsI cnt off batch).1 < 0 := by
    unfold sweepBoundsI
    simp only [h1, if_true]
    exact hc
  unfold goSlice
  have : ¬ (0 ≤ (sweepBoundsI cnt off batch).1 ∧ (sweepBoundsI cnt off batch).1 ≤ (sweepBoundsI cnt off batch).2 ∧
        (sweepBoundsI cnt off batch).2 ≤ (l.length : Int)) := by omega
  simp only [this, if_false]




/-! ### borrows (generation 2, after fixes 16be2e4 / c15713f) -/


def flag (id : Nat) (l : List Borrow) : List Borrow := l.map (fun x => if x.id == id then { x with liquidated := true } else x)

theorem flag_ids (id : Nat) (l : List Borrow) : (flag id l).map (·.id) = l.map (·.id) := by
  unfold flag
  induction l with
  | nil => rfl
  | cons x xs ih =>
    simp only [List.map_cons, List.map_map] at ih ⊢
    congr 1
    · by_cases h : (x.id == id) = true <;> simp [h]

def NodupB (w : World) : Prop := (w.borrows.map (·.id)).Nodup

/-- an unflagged borrow keeps its record, flag included, when it is on the safe side (ratio AFTER the accrual ≤ applicable
threshold) — or when the kill switch of its app is on, or its app is not whitelisted -/
def KeepsB (e : Env) (w w' : World) : Prop :=
  ∀ b, b ∈ w.borrows → b.liquidated = false →
    (borrowUnsafe e b = false ∨ (e.app b.app).kill = true ∨ (e.app b.app).wl2 = false) → b ∈ w'.borrows

theorem same_id_eqB {l : List Borrow} (hn : (l.map (·.id)).Nodup) {a b : Borrow} (ha : a ∈ l) (hb : b ∈ l) (h : a.id = b.id) : a = b := by
  induction l with
  | nil => cases ha
  | cons x xs ih =>
    simp only [List.map_cons, List.nodup_cons] at hn
    cases ha with
    | head =>
      cases hb with
      | head => rfl
      | tail _ hb' => exact absurd (List.mem_map_of_mem (f := (·.id)) hb') (by rw [← h]; exact hn.1)
    | tail _ ha' =>
      cases hb with
      | head => exact absurd (List.mem_map_of_mem (f := (·.id)) ha') (by rw [h]; exact hn.1)
      | tail _ hb' => exact ih hn.2 ha' hb'


/-- what a successful borrow step did: nothing, or the complete seizure of the addressed, unflagged, unsafe borrow -/
def borrowSeized (e : Env) (w : World) (id : Nat) (b : Borrow) (r : Dec) : World :=
  let fee := Dec.truncateInt (Dec.mul (Dec.ofInt b.principal) b.pen)
  let bonus := Dec.truncateInt (Dec.mul (Dec.ofInt b.principal) b.bon)
  { w with
    borrows := flag id w.borrows
    poolBal := (w.poolBal.add b.assetIn (- b.amountIn)).add b.cAsset (- b.amountIn)
    auctionBal := w.auctionBal.add b.assetIn b.amountIn
    lockedId := w.lockedId + 1
    auctionId := w.auctionId + 1
    newLocked := w.newLocked ++ [{ id := w.lockedId + 1, orig := b.id, app := b.app, amountIn := b.amountIn, isBorrow := true,
                                   debt := b.principal, target := b.principal + fee, fee := fee, bonus := bonus, cr := r, collValue := b.amountIn }]
    newAuctions := w.newAuctions ++ [{ id := w.auctionId + 1, locked := w.lockedId + 1, asset := b.assetIn, amount := b.amountIn,
                                       target := b.principal + fee, dutch := (e.app b.app).dutch2 }]
    totalBorrowed := w.totalBorrowed.add (statKey b.outPool b.assetOut) (- b.principal)
    totalLend := w.totalLend.add (statKey b.pool b.assetIn) (- b.amountIn)
    lendBal := if w.lendBal.get b.lendId - b.amountIn > 0 then w.lendBal.add b.lendId (- b.amountIn) else w.lendBal.remove b.lendId }

theorem liquidateBorrowV2_cases (e : Env) (id : Nat) (w w' : World) (h : liquidateBorrowV2 e id w = some w') :
    w' = w ∨ ∃ b r, w.borrows.find? (·.id == id) = some b ∧ b.liquidated = false ∧ borrowRatio e b = some r ∧ borrowUnsafe e b = true ∧
      (e.app b.app).kill = false ∧ (e.app b.app).wl2 = true ∧ ((e.app b.app).dutch2 = true ∨ (e.app b.app).english2 = true) ∧
      b.amountIn ≤ w.poolBal.get b.assetIn ∧ b.amountIn ≤ w.poolBal.get b.cAsset ∧ w' = borrowSeized e w id b r := by
  unfold liquidateBorrowV2 at h
  split at h
  · cases h
  · rename_i b hb
    split at h
    · simp only [Option.some.injEq] at h; exact Or.inl h.symm
    · rename_i hl
      split at h
      · cases h
      · rename_i hkill
        split at h
        · cases h
        · rename_i r hr
          split at h
          · rename_i hgt
            have hu : borrowUnsafe e b = true := by
              unfold borrowUnsafe; simp [hr, hgt]
            have hl' : b.liquidated = false := by simpa using hl
            have hk' : (e.app b.app).kill = false := by simpa using hkill
            simp only at h
            split at h
            · cases h
            · rename_i hwl
              split at h
              · cases h
              · rename_i hbal
                split at h
                · cases h
                · rename_i hbal2
                  split at h
                  · cases h
                  · rename_i hd
                    split at h
                    · cases h
                    · simp only [Option.some.injEq] at h
                      have hwl' : (e.app b.app).wl2 = true := by simpa using hwl
                      have hd' : (e.app b.app).dutch2 = true ∨ (e.app b.app).english2 = true := by
                        cases h1 : (e.app b.app).dutch2 <;> cases h2 : (e.app b.app).english2 <;> simp_all
                      exact Or.inr ⟨b, r, hb, hl', hr, hu, hk', hwl', hd', by omega, by omega, by rw [← h]; rfl⟩
          · simp only [Option.some.injEq] at h; exact Or.inl h.symm

theorem liquidateBorrowV2_keeps (e : Env) (id : Nat) (w w' : World) (hn : NodupB w)
    (h : liquidateBorrowV2 e id w = some w') : KeepsB e w w' ∧ NodupB w' := by
  cases liquidateBorrowV2_cases e id w w' h with
  | inl h => rw [h]; exact ⟨fun b hb _ _ => hb, hn⟩
  | inr h =>
    obtain ⟨b0, r0, hf, _, _, hu, hk0, hwl0, _, _, _, hw⟩ := h
    subst hw
    unfold KeepsB NodupB borrowSeized
    simp only
    refine ⟨fun b hb _ hs => ?_, by rw [flag_ids]; exact hn⟩
    have h0 := List.find?_some hf
    have hm0 := List.mem_of_find?_eq_some hf
    simp at h0
    have hne : ¬ (b.id = id) := by
      intro he
      have : b = b0 := same_id_eqB hn hb hm0 (by rw [he, h0])
      subst this
      rcases hs with hs | hs | hs
      · rw [hu] at hs; cases hs
      · rw [hk0] at hs; cases hs
      · rw [hwl0] at hs; cases hs
    unfold flag
    apply List.mem_map.mpr
    exact ⟨b, hb, by simp [hne]⟩

/-- the books only grow by appending -/
def Grows (w w' : World) : Prop :=
  (∃ x, w'.newLocked = w.newLocked ++ x) ∧ (∃ y, w'.newAuctions = w.newAuctions ++ y)

/-- every flagged borrow of `w'` was flagged in `w` already or is backed by a new locked vault and a new auction for it -/
def Backed (w w' : World) : Prop :=
  ∀ b', b' ∈ w'.borrows → b'.liquidated = true →
    (∃ b, b ∈ w.borrows ∧ b.id = b'.id ∧ b.liquidated = true) ∨
    (∃ l, l ∈ w'.newLocked ∧ l.orig = b'.id ∧ l.isBorrow = true ∧ ∃ a, a ∈ w'.newAuctions ∧ a.locked = l.id ∧ a.amount = l.amountIn)

/-- the relation the block hook preserves step by step -/
def StepRel (e : Env) (w w' : World) : Prop :=
  Removes e w w' ∧ KeepsB e w w' ∧ Grows w w' ∧ Backed w w' ∧ (NodupB w → NodupB w')

theorem Grows.trans {a b c : World} (h1 : Grows a b) (h2 : Grows b c) : Grows a c := by
  obtain ⟨⟨x1, hx1⟩, ⟨y1, hy1⟩⟩ := h1
  obtain ⟨⟨x2, hx2⟩, ⟨y2, hy2⟩⟩ := h2
  exact ⟨⟨x1 ++ x2, by rw [hx2, hx1, List.append_assoc]⟩, ⟨y1 ++ y2, by rw [hy2, hy1, List.append_assoc]⟩⟩

theorem Backed.trans {a b c : World} (h1 : Backed a b) (g2 : Grows b c) (h2 : Backed b c) : Backed a c := by
  intro b'' hb'' hl''
  cases h2 b'' hb'' hl'' with
  | inr h => exact Or.inr h
  | inl h =>
    obtain ⟨b', hb', hid, hl'⟩ := h
    cases h1 b' hb' hl' with
    | inl h => obtain ⟨b0, hb0, hid0, hl0⟩ := h; exact Or.inl ⟨b0, hb0, by rw [hid0, hid], hl0⟩
    | inr h =>
      obtain ⟨l, hl, ho, hib, a, ha, hal, ham⟩ := h
      obtain ⟨⟨x, hx⟩, ⟨y, hy⟩⟩ := g2
      exact Or.inr ⟨l, by rw [hx]; exact List.mem_append_left _ hl, by rw [ho, hid], hib,
        a, by rw [hy]; exact List.mem_append_left _ ha, hal, ham⟩

theorem KeepsB.trans {e : Env} {a b c : World} (h1 : KeepsB e a b) (h2 : KeepsB e b c) : KeepsB e a c :=
  fun x hx hl hs => h2 x (h1 x hx hl hs) hl hs

theorem StepRel.refl (e : Env) (w : World) : StepRel e w w :=
  ⟨Removes.refl e w, fun _ h _ _ => h, ⟨⟨[], by simp⟩, ⟨[], by simp⟩⟩, fun b hb hl => Or.inl ⟨b, hb, rfl, hl⟩, fun h => h⟩

theorem StepRel.trans {e : Env} {a b c : World} (h1 : StepRel e a b) (h2 : StepRel e b c) : StepRel e a c :=
  ⟨Removes.trans h1.1 h2.1, KeepsB.trans h1.2.1 h2.2.1, Grows.trans h1.2.2.1 h2.2.2.1,
   Backed.trans h1.2.2.2.1 h2.2.2.1 h2.2.2.2.1, fun h => h2.2.2.2.2 (h1.2.2.2.2 h)⟩

/-- a successful borrow step is in the relation (given unique borrow ids) -/
theorem liquidateBorrowV2_rel (e : Env) (id : Nat) (w w' : World) (hn : NodupB w)
    (h : liquidateBorrowV2 e id w = some w') : StepRel e w w' := by
  have hk := liquidateBorrowV2_keeps e id w w' hn h
  cases liquidateBorrowV2_cases e id w w' h with
  | inl h => rw [h]; exact StepRel.refl e w
  | inr hc =>
    obtain ⟨b0, r0, hf, _, _, _, _, _, _, _, _, hw⟩ := hc
    have h0 := List.find?_some hf
    simp at h0
    refine ⟨?_, hk.1, ?_, ?_, fun _ => hk.2⟩
    · subst hw; exact Removes.refl e w
    · subst hw; exact ⟨⟨_, rfl⟩, ⟨_, rfl⟩⟩
    · subst hw
      intro b' hb' hl'
      unfold borrowSeized flag at hb'
      simp only [List.mem_map] at hb'
      obtain ⟨x, hx, hxe⟩ := hb'
      by_cases hid : (x.id == id) = true
      · right
        simp only [hid, if_true] at hxe
        refine ⟨{ id := w.lockedId + 1, orig := b0.id, app := b0.app, amountIn := b0.amountIn, isBorrow := true,
                  debt := b0.principal, target := b0.principal + Dec.truncateInt (Dec.mul (Dec.ofInt b0.principal) b0.pen),
                  fee := Dec.truncateInt (Dec.mul (Dec.ofInt b0.principal) b0.pen),
                  bonus := Dec.truncateInt (Dec.mul (Dec.ofInt b0.principal) b0.bon), cr := r0, collValue := b0.amountIn }, ?_, ?_, rfl,
          { id := w.auctionId + 1, locked := w.lockedId + 1, asset := b0.assetIn, amount := b0.amountIn,
            target := b0.principal + Dec.truncateInt (Dec.mul (Dec.ofInt b0.principal) b0.pen), dutch := (e.app b0.app).dutch2 }, ?_, rfl, rfl⟩
        · unfold borrowSeized; simp
        · have hxi : x.id = id := by simpa using hid
          rw [← hxe]; simp only; rw [h0, hxi]
        · unfold borrowSeized; simp
      · left
        simp only [hid, Bool.false_eq_true, if_false] at hxe
        exact ⟨x, hx, by rw [hxe], by rw [hxe]; exact hl'⟩



/-! ### block hooks and messages -/


def Outcome.world? : Outcome → Option World
  | .ok w => some w
  | .panic => none

theorem handOver_books (w w' : World) (v : Vault) (a : Nat) (k : Amounts) (h : handOver w v a k = some w') :
    w'.borrows = w.borrows ∧ w'.offsets = w.offsets ∧ Grows w w' := by
  unfold handOver at h
  split at h
  · cases h
  · simp only [Option.some.injEq] at h; subst h
    exact ⟨rfl, rfl, ⟨_, rfl⟩, ⟨_, rfl⟩⟩

theorem stepRel_of_vault_step (e : Env) (w w' : World) (hr : Removes e w w')
    (hc : w' = w ∨ ∃ v a k, handOver w v a k = some w') : StepRel e w w' := by
  cases hc with
  | inl h => subst h; exact StepRel.refl e _
  | inr h =>
    obtain ⟨v, a, k, ho⟩ := h
    obtain ⟨hb, _, hg⟩ := handOver_books w w' v a k ho
    refine ⟨hr, fun b hbm _ _ => by rw [hb]; exact hbm, hg, fun b' hb' hl' => Or.inl ⟨b', by rw [← hb]; exact hb', rfl, hl'⟩,
      fun hn => by unfold NodupB; rw [hb]; exact hn⟩

theorem liquidateVaultV2_rel (e : Env) (L : List Vault) (hL : (L.map (·.id)).Nodup) (id : Nat) (w w' : World)
    (hsub : ∀ q, q ∈ w.vaults → q ∈ L) (h : liquidateVaultV2 e id w = some w') : StepRel e w w' :=
  stepRel_of_vault_step e w w' (liquidateVaultV2_removes e L hL id w w' hsub h)
    (match liquidateVaultV2_cases e id w w' h with
     | Or.inl h => Or.inl h
     | Or.inr ⟨v, p, k, _, _, _, _, _, _, ho⟩ => Or.inr ⟨v, p.assetIn, k, ho⟩)

theorem liquidateVaultV1_rel (e : Env) (L : List Vault) (hL : (L.map (·.id)).Nodup) (a : Nat) (v : Vault) (w w' : World)
    (hga : GuardsOff e a) (hsub : ∀ q, q ∈ w.vaults → q ∈ L) (hv : v ∈ L) (h : liquidateVaultV1 e a v w = some w') : StepRel e w w' :=
  stepRel_of_vault_step e w w' (liquidateVaultV1_removes e L hL a v w w' hga hsub hv h)
    (match liquidateVaultV1_cases e a v w w' h with
     | Or.inl h => Or.inl h
     | Or.inr ⟨p, k, _, _, _, _, _, ho⟩ => Or.inr ⟨v, p.assetIn, k, ho⟩)

theorem fold_rel (e : Env) (L : List Vault) (f : Vault → World → Option World)
    (hf : ∀ v, v ∈ L → ∀ w w', (∀ q, q ∈ w.vaults → q ∈ L) → f v w = some w' → StepRel e w w')
    (sl : List Vault) (hsl : ∀ v, v ∈ sl → v ∈ L) (w : World) (hsub : ∀ q, q ∈ w.vaults → q ∈ L) :
    StepRel e w (sl.foldl (fun acc v => applyIfNoError (f v) acc) w) := by
  induction sl generalizing w with
  | nil => exact StepRel.refl e w
  | cons v rest ih =>
    simp only [List.foldl_cons]
    have hstep : StepRel e w (applyIfNoError (f v) w) := by
      unfold applyIfNoError
      cases hfv : f v w with
      | none => exact StepRel.refl e w
      | some w1 => exact hf v (hsl v (by simp)) w w1 hsub hfv
    have hsub1 : ∀ q, q ∈ (applyIfNoError (f v) w).vaults → q ∈ L := fun q hq => hsub q (hstep.1.1 q hq)
    exact StepRel.trans hstep (ih (fun x hx => hsl x (by simp [hx])) _ hsub1)

theorem vaultPass_rel (e : Env) (L : List Vault) (batch key off : Nat) (f : Vault → World → Option World)
    (hf : ∀ v, v ∈ L → ∀ w w', (∀ q, q ∈ w.vaults → q ∈ L) → f v w = some w' → StepRel e w w')
    (w w' : World) (hsub : ∀ q, q ∈ w.vaults → q ∈ L) (h : vaultPass batch key off f w = some w') : StepRel e w w' := by
  unfold vaultPass at h
  simp only at h
  split at h
  · cases h
  · rename_i sl hsl
    simp only [Option.some.injEq] at h
    subst h
    exact fold_rel e L f hf sl (fun v hv => hsub v (goSlice_sub _ _ _ _ hsl v hv)) w hsub

theorem foldB_rel (e : Env) (ids : List Nat) (w : World) (hn : NodupB w) :
    StepRel e w (ids.foldl (fun acc id => applyIfNoError (liquidateBorrowV2 e id) acc) w) := by
  induction ids generalizing w with
  | nil => exact StepRel.refl e w
  | cons id rest ih =>
    simp only [List.foldl_cons]
    have hstep : StepRel e w (applyIfNoError (liquidateBorrowV2 e id) w) := by
      unfold applyIfNoError
      cases hfv : liquidateBorrowV2 e id w with
      | none => exact StepRel.refl e w
      | some w1 => exact liquidateBorrowV2_rel e id w w1 hn hfv
    exact StepRel.trans hstep (ih _ (hstep.2.2.2.2 hn))

/-- generation 2 block hook: removed vaults were unsafe, safe unflagged borrows untouched, the books only grow, every
newly flagged borrow is backed by a locked vault and an auction -/
theorem blockV2_rel (e : Env) (batch : Nat) (w w' : World) (hn : NodupIds w) (hb : NodupB w)
    (h : (blockV2 e batch w).world? = some w') : StepRel e w w' := by
  unfold blockV2 at h
  simp only at h
  split at h
  · cases h
  · rename_i w1 hvp
    have hr1 : StepRel e w w1 :=
      vaultPass_rel e w.vaults batch 0 _ (fun v => liquidateVaultV2 e v.id)
        (fun v _ a b hsub hfv => liquidateVaultV2_rel e w.vaults hn v.id a b hsub hfv) w w1 (fun _ h => h) hvp
    unfold borrowPassV2 at h
    simp only at h
    split at h
    · cases h
    · simp only [Outcome.world?, Option.some.injEq] at h
      subst h
      exact StepRel.trans hr1 (foldB_rel e _ w1 (hr1.2.2.2.2 hb))

/-- the app records of the environment are keyed by their id -/
def AppsUnique (e : Env) : Prop := ∀ a, a ∈ e.apps → e.app a.id = a

theorem appsLoopV1_rel (e : Env) (batch : Nat) (L : List Vault) (hL : (L.map (·.id)).Nodup) (apps : List App) (w w' : World)
    (hA : ∀ a, a ∈ apps → e.app a.id = a ∧ a.wl1 = true)
    (hsub : ∀ q, q ∈ w.vaults → q ∈ L) (h : appsLoopV1 e batch apps w = some w') : StepRel e w w' := by
  induction apps generalizing w with
  | nil =>
    unfold appsLoopV1 at h
    simp only [Option.some.injEq] at h; subst h; exact StepRel.refl e w
  | cons a rest ih =>
    unfold appsLoopV1 at h
    have hA' : ∀ a', a' ∈ rest → e.app a'.id = a' ∧ a'.wl1 = true := fun a' ha' => hA a' (by simp [ha'])
    split at h
    · exact ih w hA' hsub h
    · rename_i hoff
      simp only at h
      split at h
      · cases h
      · rename_i w1 hvp
        have hga : GuardsOff e a.id := by
          obtain ⟨he, hw⟩ := hA a (by simp)
          simp only [Bool.or_eq_true, not_or, Bool.not_eq_true] at hoff
          unfold GuardsOff; rw [he]; exact ⟨hoff.2, hoff.1, Or.inr hw⟩
        have hr1 : StepRel e w w1 :=
          vaultPass_rel e L batch a.id _ (fun v => liquidateVaultV1 e a.id v)
            (fun v hv x y hs hfv => liquidateVaultV1_rel e L hL a.id v x y hga hs hv hfv) w w1 hsub hvp
        exact StepRel.trans hr1 (ih w1 hA' (fun q hq => hsub q (hr1.1.1 q hq)) h)

/-! ### generation 1 borrows (sweep body and message) -/

/-- an unflagged borrow keeps its record when it is on the safe side of the applicable threshold (e-mode aware, three bridge
cases, ratio after the accrual — the ONE test of sweep and message since fix f18ae51) or the kill switch of its app is on.
Generation 1 has no whitelisting for borrows. -/
def KeepsB1 (e : Env) (w w' : World) : Prop :=
  ∀ b, b ∈ w.borrows → b.liquidated = false → (borrowUnsafe e b = false ∨ (e.app b.app).kill = true) → b ∈ w'.borrows

def flagV1 (id : Nat) (n : Int) (l : List Borrow) : List Borrow :=
  l.map (fun x => if x.id == id then { x with liquidated := true, amountIn := n } else x)

theorem flagV1_ids (id : Nat) (n : Int) (l : List Borrow) : (flagV1 id n l).map (·.id) = l.map (·.id) := by
  unfold flagV1
  induction l with
  | nil => rfl
  | cons x xs ih =>
    simp only [List.map_cons, List.map_map] at ih ⊢
    congr 1
    · by_cases h : (x.id == id) = true <;> simp [h]

/-- the complete effect of a generation-1 borrow seizure -/
structure SeizedV1 (e : Env) (sweep : Bool) (b : Borrow) (r : Dec) (w w' : World) (i : SellOffIn) (o : SellOffOut) : Prop where
  hin : b.sellOffIn e = some i
  hout : sellOffV1 i = some o
  auc : (e.app b.app).lendAuc1 = true
  pool1 : o.toAuction + o.toReserve ≤ w.poolBal.get b.assetIn
  pool2 : o.totalDeduction ≤ w.poolBal.get b.cAsset
  vaults : w'.vaults = w.vaults
  counter : w'.counter = w.counter
  vaultBal : w'.vaultBal = w.vaultBal
  offsets : w'.offsets = w.offsets
  borrows : w'.borrows = flagV1 b.id o.newAmountIn w.borrows
  poolBal : w'.poolBal = (w.poolBal.add b.assetIn (- (o.toAuction + o.toReserve))).add b.cAsset (- o.totalDeduction)
  auctionBal : w'.auctionBal = w.auctionBal.add b.assetIn o.toAuction
  reserveBal : w'.reserveBal = w.reserveBal.add b.assetIn o.toReserve
  lockedId : w'.lockedId = w.lockedId + 1
  lendAuctionId : w'.lendAuctionId = w.lendAuctionId + 1
  auctionId : w'.auctionId = w.auctionId
  lendBal : w'.lendBal = w.lendBal.add b.lendId (- o.lendReduction)
  totalLend : w'.totalLend = w.totalLend.add (statKey b.pool b.assetIn) (- o.lendReduction)
  books : ∃ l a, w'.newLocked = w.newLocked ++ [l] ∧ w'.newAuctions = w.newAuctions ++ [a] ∧ l.orig = b.id ∧ l.isBorrow = true ∧
    l.id = w.lockedId + 1 ∧ a.locked = l.id ∧ a.id = w.lendAuctionId + 1 ∧ a.asset = b.assetIn ∧ l.amountIn = o.newAmountIn ∧
    l.collValue = o.selloff ∧ a.target = l.target ∧ l.debt = b.principal ∧ l.cr = r ∧ a.dutch = true ∧
    a.amount = Dec.truncateInt (Dec.quo o.selloff (assetValue 1 i.pIn i.dIn)) ∧
    a.target = Dec.truncateInt (Dec.quo o.selloff (assetValue 1 i.pOut i.dOut)) ∧ 0 ≤ a.amount ∧ 0 ≤ a.target

theorem seizeBorrowV1_spec (e : Env) (sweep : Bool) (b : Borrow) (r : Dec) (w w' : World)
    (h : seizeBorrowV1 e sweep b r w = some w') : ∃ i o, SeizedV1 e sweep b r w w' i o := by
  unfold seizeBorrowV1 at h
  split at h
  · cases h
  · rename_i i hi
    split at h
    · cases h
    · rename_i o ho
      split at h
      · cases h
      · rename_i hp1
        split at h
        · cases h
        · rename_i hp2
          simp only at h
          split at h
          · cases h
          · split at h
            · cases h
            · rename_i hauc
              split at h
              · cases h
              · rename_i hneg
                simp only [Option.some.injEq] at h
                subst h
                refine ⟨i, o, ⟨hi, ho, by simpa using hauc, by omega, by omega, rfl, rfl, rfl, rfl, rfl, rfl, rfl, rfl, rfl, rfl, rfl, rfl, rfl,
                  ⟨_, _, rfl, rfl, rfl, rfl, rfl, rfl, rfl, rfl, rfl, rfl, rfl, rfl, rfl, rfl, rfl, rfl, by simp only; omega, by simp only; omega⟩⟩⟩

theorem liquidateBorrowV1_cases (e : Env) (sweep : Bool) (id : Nat) (w w' : World) (h : liquidateBorrowV1 e sweep id w = some w') :
    w' = w ∨ ∃ b r, w.borrows.find? (·.id == id) = some b ∧ b.liquidated = false ∧ (e.app b.app).kill = false ∧
      borrowRatio e b = some r ∧ r > borrowThreshold b ∧
      seizeBorrowV1 e sweep b r w = some w' := by
  unfold liquidateBorrowV1 at h
  split at h
  · split at h
    · simp only [Option.some.injEq] at h; exact Or.inl h.symm
    · cases h
  · rename_i b hb
    split at h
    · split at h
      · simp only [Option.some.injEq] at h; exact Or.inl h.symm
      · cases h
    · rename_i hl
      split at h
      · cases h
      · rename_i hk
        cases hin : e.valueOf b.assetIn b.amountIn with
        | none =>
          simp only [hin] at h
          split at h
          · simp only [Option.some.injEq] at h; exact Or.inl h.symm
          · cases h
        | some tin =>
          cases hout : e.valueOf b.assetOut b.debt with
          | none =>
            simp only [hin, hout] at h
            split at h
            · simp only [Option.some.injEq] at h; exact Or.inl h.symm
            · cases h
          | some tout =>
            simp only [hin, hout] at h
            by_cases h0 : tin = 0
            · simp only [h0, if_true] at h; cases h
            · simp only [h0, if_false] at h
              by_cases hgt : Dec.quo tout tin > borrowThreshold b
              · simp only [hgt, if_true] at h
                refine Or.inr ⟨b, _, hb, by simpa using hl, by simpa using hk, ?_, hgt, h⟩
                unfold borrowRatio
                simp only [hin, hout, h0, if_false]
              · simp only [hgt, if_false, Option.some.injEq] at h; exact Or.inl h.symm

theorem borrowUnsafe_of_gt (e : Env) (b : Borrow) (r : Dec) (hr : borrowRatio e b = some r)
    (hgt : r > borrowThreshold b) : borrowUnsafe e b = true := by
  unfold borrowUnsafe; simp [hr, hgt]

theorem liquidateBorrowV1_keeps (e : Env) (sweep : Bool) (id : Nat) (w w' : World) (hn : NodupB w)
    (h : liquidateBorrowV1 e sweep id w = some w') :
    (∀ b, b ∈ w.borrows → b.liquidated = false →
      (borrowUnsafe e b = false ∨ (e.app b.app).kill = true) → b ∈ w'.borrows) ∧
    NodupB w' ∧ w'.vaults = w.vaults ∧ w'.counter = w.counter ∧ w'.vaultBal = w.vaultBal ∧ w'.offsets = w.offsets := by
  cases liquidateBorrowV1_cases e sweep id w w' h with
  | inl h => rw [h]; exact ⟨fun b hb _ _ => hb, hn, rfl, rfl, rfl, rfl⟩
  | inr h =>
    obtain ⟨b0, r0, hf, _, hk0, hr0, hgt, hs⟩ := h
    obtain ⟨i, o, S⟩ := seizeBorrowV1_spec e sweep b0 r0 w w' hs
    have hm0 := List.mem_of_find?_eq_some hf
    have hu0 := borrowUnsafe_of_gt e b0 r0 hr0 hgt
    refine ⟨fun b hb _ hsafe => ?_, by unfold NodupB; rw [S.borrows, flagV1_ids]; exact hn, S.vaults, S.counter, S.vaultBal, S.offsets⟩
    have hne : ¬ (b.id = b0.id) := by
      intro he
      have : b = b0 := same_id_eqB hn hb hm0 he
      subst this
      rcases hsafe with hsafe | hsafe
      · rw [hu0] at hsafe; cases hsafe
      · rw [hk0] at hsafe; cases hsafe
    rw [S.borrows]
    unfold flagV1
    apply List.mem_map.mpr
    exact ⟨b, hb, by simp [hne]⟩

theorem liquidateBorrowV1_vaults (e : Env) (sweep : Bool) (id : Nat) (w w' : World) (h : liquidateBorrowV1 e sweep id w = some w') :
    w'.vaults = w.vaults := by
  cases liquidateBorrowV1_cases e sweep id w w' h with
  | inl h => rw [h]
  | inr h =>
    obtain ⟨b0, r0, _, _, _, _, _, hsz⟩ := h
    obtain ⟨_, _, S⟩ := seizeBorrowV1_spec e sweep b0 r0 w w' hsz
    exact S.vaults

theorem foldB1_vaults (e : Env) (ids : List Nat) (w : World) :
    (ids.foldl (fun acc id => applyIfNoError (liquidateBorrowV1 e true id) acc) w).vaults = w.vaults := by
  induction ids generalizing w with
  | nil => rfl
  | cons id rest ih =>
    simp only [List.foldl_cons]
    rw [ih]
    unfold applyIfNoError
    cases hs : liquidateBorrowV1 e true id w with
    | none => rfl
    | some x1 => exact liquidateBorrowV1_vaults e true id w x1 hs

theorem Removes.of_vaults_eq (e : Env) (w w' : World) (h : w'.vaults = w.vaults) : Removes e w w' :=
  ⟨fun _ hq => by rw [← h]; exact hq, fun q hq hn => absurd (by rw [h]; exact hq) hn⟩

theorem KeepsB1.trans {e : Env} {a b c : World} (h1 : KeepsB1 e a b) (h2 : KeepsB1 e b c) : KeepsB1 e a c :=
  fun x hx hl hs => h2 x (h1 x hx hl hs) hl hs

/-- the generation-1 borrow fold: vault side untouched, safe borrows kept -/
theorem foldB1_rel (e : Env) (ids : List Nat) (w : World) (hn : NodupB w) :
    let w' := ids.foldl (fun acc id => applyIfNoError (liquidateBorrowV1 e true id) acc) w
    KeepsB1 e w w' ∧ NodupB w' ∧ w'.vaults = w.vaults ∧ w'.counter = w.counter ∧ w'.vaultBal = w.vaultBal ∧ w'.offsets = w.offsets := by
  induction ids generalizing w with
  | nil => exact ⟨fun _ h _ _ => h, hn, rfl, rfl, rfl, rfl⟩
  | cons id rest ih =>
    simp only [List.foldl_cons]
    have step : KeepsB1 e w (applyIfNoError (liquidateBorrowV1 e true id) w) ∧ NodupB (applyIfNoError (liquidateBorrowV1 e true id) w) ∧
        (applyIfNoError (liquidateBorrowV1 e true id) w).vaults = w.vaults ∧ (applyIfNoError (liquidateBorrowV1 e true id) w).counter = w.counter ∧
        (applyIfNoError (liquidateBorrowV1 e true id) w).vaultBal = w.vaultBal ∧ (applyIfNoError (liquidateBorrowV1 e true id) w).offsets = w.offsets := by
      unfold applyIfNoError
      cases hs : liquidateBorrowV1 e true id w with
      | none => exact ⟨fun _ h _ _ => h, hn, rfl, rfl, rfl, rfl⟩
      | some w1 =>
        have hk := liquidateBorrowV1_keeps e true id w w1 hn hs
        exact ⟨fun b hb hl hsafe => hk.1 b hb hl hsafe, hk.2⟩
    have r := ih _ step.2.1
    exact ⟨KeepsB1.trans step.1 r.1, r.2.1, by rw [r.2.2.1, step.2.2.1], by rw [r.2.2.2.1, step.2.2.2.1],
      by rw [r.2.2.2.2.1, step.2.2.2.2.1], by rw [r.2.2.2.2.2, step.2.2.2.2.2]⟩

/-- generation-1 borrow pass -/
theorem borrowPassV1_rel (e : Env) (batch : Nat) (w w' : World) (hn : NodupB w) (h : (borrowPassV1 e batch w).world? = some w') :
    KeepsB1 e w w' ∧ NodupB w' ∧ w'.vaults = w.vaults ∧ w'.counter = w.counter ∧ w'.vaultBal = w.vaultBal := by
  unfold borrowPassV1 at h
  simp only at h
  split at h
  · cases h
  · rename_i sl _
    simp only [Outcome.world?, Option.some.injEq] at h
    subst h
    have r := foldB1_rel e sl w hn
    exact ⟨r.1, r.2.1, r.2.2.1, r.2.2.2.1, r.2.2.2.2.1⟩

/-- generation 1 block hook: the vault sweep's relation, then the borrow sweep leaves the vault side untouched -/
theorem blockV1_rel (e : Env) (batch : Nat) (w w' : World) (hU : AppsUnique e) (hn : NodupIds w)
    (h : (blockV1 e batch w).world? = some w') : Removes e w w' := by
  unfold blockV1 at h
  split at h
  · cases h
  · rename_i w1 hl
    have hr := appsLoopV1_rel e batch w.vaults hn _ w w1
      (fun a ha => by
        simp only [List.mem_filter] at ha
        exact ⟨hU a ha.1, ha.2⟩) (fun _ h => h) hl
    -- the borrow pass keeps the vault list whatever the borrow list looks like
    have hv : w'.vaults = w1.vaults := by
      unfold borrowPassV1 at h
      simp only at h
      split at h
      · cases h
      · rename_i sl _
        simp only [Outcome.world?, Option.some.injEq] at h
        subst h
        exact foldB1_vaults e sl w1
    exact Removes.trans hr.1 (Removes.of_vaults_eq e w1 w' hv)

/-- generation 1 block hook, borrow side: safe (or kill-switched) unflagged borrows keep their record -/
theorem blockV1_keepsB1 (e : Env) (batch : Nat) (w w' : World) (hU : AppsUnique e) (hn : NodupIds w) (hb : NodupB w)
    (h : (blockV1 e batch w).world? = some w') : KeepsB1 e w w' ∧ NodupB w' := by
  unfold blockV1 at h
  split at h
  · cases h
  · rename_i w1 hl
    have hr := appsLoopV1_rel e batch w.vaults hn _ w w1
      (fun a ha => by
        simp only [List.mem_filter] at ha
        exact ⟨hU a ha.1, ha.2⟩) (fun _ h => h) hl
    have h1 : KeepsB1 e w w1 := fun b hb' hl' hs => hr.2.1 b hb' hl' (by
      rcases hs with hs | hs
      · exact Or.inl hs
      · exact Or.inr (Or.inl hs))
    have r := borrowPassV1_rel e batch w1 w' (hr.2.2.2.2 hb) h
    exact ⟨KeepsB1.trans h1 r.1, r.2.1⟩

/-- generation 1 `MsgLiquidateBorrow` (since fix f18ae51 the same test as the sweep): what it keeps, and the vault side is untouched -/
theorem msgLiquidateBorrowV1_rel (e : Env) (id : Nat) (w w' : World) (hb : NodupB w)
    (h : msgLiquidateBorrowV1 e id w = some w') : KeepsB1 e w w' ∧ Removes e w w' ∧ NodupB w' := by
  unfold msgLiquidateBorrowV1 at h
  have hk := liquidateBorrowV1_keeps e false id w w' hb h
  exact ⟨fun b hb' hl hs => hk.1 b hb' hl hs, Removes.of_vaults_eq e w w' hk.2.2.1, hk.2.1⟩

/-- generation 2 liquidate message (any sender, any type, any target) -/
theorem msgLiquidateV2_rel (e : Env) (liqType id : Nat) (w w' : World) (hn : NodupIds w) (hb : NodupB w)
    (h : msgLiquidateV2 e liqType id w = some w') : StepRel e w w' := by
  unfold msgLiquidateV2 at h
  split at h
  · exact liquidateVaultV2_rel e w.vaults hn id w w' (fun _ h => h) h
  · split at h
    · exact liquidateBorrowV2_rel e id w w' hb h
    · simp only [Option.some.injEq] at h; subst h; exact StepRel.refl e w

/-- generation 1 liquidate-vault message -/
theorem msgLiquidateVaultV1_rel (e : Env) (app id : Nat) (w w' : World) (hn : NodupIds w)
    (h : msgLiquidateVaultV1 e app id w = some w') : StepRel e w w' := by
  unfold msgLiquidateVaultV1 at h
  simp only at h
  split at h
  · cases h
  · rename_i hwl
    split at h
    · cases h
    · rename_i hoff
      split at h
      · cases h
      · rename_i v hf
        have hga : GuardsOff e app := by
          simp only [Bool.or_eq_true, not_or, Bool.not_eq_true] at hoff
          simp only [Bool.not_eq_true', Bool.not_eq_false] at hwl
          exact ⟨hoff.2, hoff.1, Or.inr hwl⟩
        exact liquidateVaultV1_rel e w.vaults hn app v w w' hga (fun _ h => h) (find_id_eq hf).2 h

/-! offsets: the borrow pass does not touch the vault sweep's offset -/
theorem Offsets.get?_set_other (o : Offsets) (k k' v : Nat) (hne : k' ≠ k) : (Offsets.set o k v).get? k' = o.get? k' := by
  unfold Offsets.set Offsets.get?
  have hkk : (k == k') = false := by simp only [beq_eq_false_iff_ne, ne_eq]; exact fun h => hne h.symm
  by_cases h : o.any (·.1 == k) = true
  · simp only [h, if_true]
    congr 1
    induction o with
    | nil => rfl
    | cons x xs ih =>
      simp only [List.map_cons, List.find?_cons]
      cases hx : (x.1 == k) with
      | true =>
        have hxk : x.1 = k := by simpa using hx
        have h1 : (x.1 == k') = false := by rw [hxk]; exact hkk
        simp only [if_true, hkk, h1]
        by_cases hr : xs.any (·.1 == k) = true
        · exact ih hr
        · -- no later entry has key k: mapping changes nothing that `find? (· == k')` can see; prove by a direct induction
          clear ih h
          induction xs with
          | nil => rfl
          | cons y ys ih2 =>
            simp only [Bool.not_eq_true, List.any_cons, Bool.or_eq_false_iff] at hr
            simp only [List.map_cons, List.find?_cons, hr.1, Bool.false_eq_true, if_false]
            cases (y.1 == k') with
            | true => rfl
            | false => exact ih2 (by rw [hr.2]; exact Bool.false_ne_true)
      | false =>
        simp only [List.any_cons, hx, Bool.false_or] at h
        simp only [Bool.false_eq_true, if_false]
        cases (x.1 == k') with
        | true => rfl
        | false => exact ih h
  · simp only [Bool.not_eq_true] at h
    simp only [h, Bool.false_eq_true, if_false]
    rw [List.find?_append]
    have : ([(k, v)] : Offsets).find? (·.1 == k') = none := by
      simp only [List.find?_cons, List.find?_nil, hkk]
    rw [this]; simp

theorem liquidateBorrowV2_offsets (e : Env) (id : Nat) (w w' : World) (h : liquidateBorrowV2 e id w = some w') :
    w'.offsets = w.offsets := by
  cases liquidateBorrowV2_cases e id w w' h with
  | inl h => rw [h]
  | inr h => obtain ⟨b, r, _, _, _, _, _, _, _, _, _, hw⟩ := h; rw [hw]; rfl

theorem foldB_offsets (e : Env) (ids : List Nat) (w : World) :
    (ids.foldl (fun acc id => applyIfNoError (liquidateBorrowV2 e id) acc) w).offsets = w.offsets := by
  induction ids generalizing w with
  | nil => rfl
  | cons id rest ih =>
    simp only [List.foldl_cons]
    rw [ih]
    unfold applyIfNoError
    cases hfv : liquidateBorrowV2 e id w with
    | none => rfl
    | some w1 => exact liquidateBorrowV2_offsets e id w w1 hfv

/-- a generation-2 borrow step touches neither the vault list nor the vault counter (`LengthOfVault`) -/
theorem liquidateBorrowV2_vaultSide (e : Env) (id : Nat) (w w' : World) (h : liquidateBorrowV2 e id w = some w') :
    w'.vaults = w.vaults ∧ w'.counter = w.counter ∧ w'.vaultBal = w.vaultBal := by
  cases liquidateBorrowV2_cases e id w w' h with
  | inl h => rw [h]; exact ⟨rfl, rfl, rfl⟩
  | inr h => obtain ⟨b, r, _, _, _, _, _, _, _, _, _, hw⟩ := h; rw [hw]; exact ⟨rfl, rfl, rfl⟩

theorem foldB_vaultSide (e : Env) (ids : List Nat) (w : World) :
    let w' := ids.foldl (fun acc id => applyIfNoError (liquidateBorrowV2 e id) acc) w
    w'.vaults = w.vaults ∧ w'.counter = w.counter ∧ w'.vaultBal = w.vaultBal := by
  induction ids generalizing w with
  | nil => exact ⟨rfl, rfl, rfl⟩
  | cons id rest ih =>
    simp only [List.foldl_cons]
    have r := ih (applyIfNoError (liquidateBorrowV2 e id) w)
    have st : (applyIfNoError (liquidateBorrowV2 e id) w).vaults = w.vaults ∧ (applyIfNoError (liquidateBorrowV2 e id) w).counter = w.counter ∧
        (applyIfNoError (liquidateBorrowV2 e id) w).vaultBal = w.vaultBal := by
      unfold applyIfNoError
      cases hfv : liquidateBorrowV2 e id w with
      | none => exact ⟨rfl, rfl, rfl⟩
      | some w1 => exact liquidateBorrowV2_vaultSide e id w w1 hfv
    exact ⟨by rw [r.1, st.1], by rw [r.2.1, st.2.1], by rw [r.2.2, st.2.2]⟩

/-- the whole generation-2 borrow pass: vault list, vault counter and vault custody as before; only its OWN offset (key 1) moves -/
theorem borrowPassV2_vaultSide (e : Env) (batch : Nat) (w w' : World) (h : borrowPassV2 e batch w = .ok w') :
    w'.vaults = w.vaults ∧ w'.counter = w.counter ∧ w'.vaultBal = w.vaultBal ∧ w'.offsets.get? 0 = w.offsets.get? 0 := by
  unfold borrowPassV2 at h
  simp only at h
  split at h
  · cases h
  · rename_i sl _
    simp only [Outcome.ok.injEq] at h
    subst h
    have r := foldB_vaultSide e sl w
    refine ⟨r.1, r.2.1, r.2.2, ?_⟩
    simp only
    rw [Offsets.get?_set_other _ 1 0 _ (by decide), foldB_offsets]

/-- the vault offset after a generation-2 block is the vault pass's own range end: the borrow pass cannot move it -/
theorem blockV2_vault_offset (e : Env) (batch : Nat) (w w' : World) (h : blockV2 e batch w = .ok w') :
    w'.offsets.get? 0 =
      some (sweepBoundsI (toGoInt w.counter) (toGoInt ((w.offsets.get? 0).getD 0)) (toGoInt batch)).2.toNat := by
  unfold blockV2 at h
  simp only at h
  split at h
  · cases h
  · rename_i w1 hvp
    have h0 := vaultPass_offset batch 0 _ _ w w1 hvp
    unfold borrowPassV2 at h
    simp only at h
    split at h
    · cases h
    · simp only [Outcome.ok.injEq] at h
      subst h
      simp only
      rw [Offsets.get?_set_other _ 1 0 _ (by omega), foldB_offsets]
      exact h0



/-- generation 2: an unflagged borrow that is unsafe AFTER the accrual and is handed to the step IS seized when the kill
switch is off, the lend app is whitelisted with Dutch auctions, prices are active and the pool holds collateral and cTokens -/
theorem liquidateBorrowV2_seizes (e : Env) (id : Nat) (w : World) (b : Borrow) (r : Dec)
    (hf : w.borrows.find? (·.id == id) = some b) (hl : b.liquidated = false) (hr : borrowRatio e b = some r)
    (hu : borrowUnsafe e b = true) (hkill : (e.app b.app).kill = false) (hwl : (e.app b.app).wl2 = true)
    (hd : (e.app b.app).dutch2 = true) (hpi : e.priceActive b.assetIn = true) (hpo : e.priceActive b.assetOut = true)
    (hb1 : b.amountIn ≤ w.poolBal.get b.assetIn) (hb2 : b.amountIn ≤ w.poolBal.get b.cAsset) :
    liquidateBorrowV2 e id w = some (borrowSeized e w id b r) := by
  have hgt : r > borrowThreshold b := by
    unfold borrowUnsafe at hu; simp [hr] at hu; exact hu
  have n1 : ¬ (w.poolBal.get b.assetIn < b.amountIn) := by omega
  have n2 : ¬ (w.poolBal.get b.cAsset < b.amountIn) := by omega
  unfold liquidateBorrowV2 borrowSeized flag
  simp [hf, hl, hkill, hr, hgt, hwl, hd, hpi, hpo, n1, n2]

/-! ### liveness when governance changes the batch size between blocks (any positive sizes) -/

/-- offsets evolve as the code stores them, block `k` running with batch size `bt k` -/
def EvolvesV (bt : Nat → Nat) (r : Nat → Sw) : Prop :=
  ∀ k, (r (k+1)).off = (sweepBounds (r k).l.length (r k).off (bt k)).2

/-- number of positions covered by the first `k` blocks of the sweep that starts at block `t` -/
def covered (bt : Nat → Nat) (t : Nat) : Nat → Nat
  | 0 => 0
  | k+1 => covered bt t k + bt (t+k)

theorem covered_mono (bt : Nat → Nat) (t : Nat) {a b : Nat} (h : a ≤ b) : covered bt t a ≤ covered bt t b := by
  induction b with
  | zero => have : a = 0 := by omega
            subst this; exact Nat.le_refl _
  | succ b ih =>
    by_cases hab : a = b + 1
    · subst hab; exact Nat.le_refl _
    · have := ih (by omega)
      show covered bt t a ≤ covered bt t b + bt (t+b)
      omega

theorem covered_ge (bt : Nat → Nat) (hb : ∀ k, 0 < bt k) (t k : Nat) : k ≤ covered bt t k := by
  induction k with
  | zero => exact Nat.le_refl _
  | succ k ih =>
    show k + 1 ≤ covered bt t k + bt (t+k)
    have := hb (t+k)
    omega

/-- the block of the sweep in which index `i` is covered exists and is at most `i` blocks after the start -/
theorem covered_block_exists (bt : Nat → Nat) (hb : ∀ k, 0 < bt k) (t i : Nat) :
    ∃ K, K ≤ i ∧ covered bt t K ≤ i ∧ i < covered bt t (K+1) := by
  have key : ∀ m, i < covered bt t m → ∃ K, K < m ∧ covered bt t K ≤ i ∧ i < covered bt t (K+1) := by
    intro m
    induction m with
    | zero => intro h; exact absurd h (by show ¬ (i < 0); omega)
    | succ m ih =>
      intro h
      by_cases hm : covered bt t m ≤ i
      · exact ⟨m, by omega, hm, h⟩
      · obtain ⟨K, hK, h1, h2⟩ := ih (by omega)
        exact ⟨K, by omega, h1, h2⟩
  obtain ⟨K, hK, h1, h2⟩ := key (i+1) (by have := covered_ge bt hb t (i+1); omega)
  exact ⟨K, by omega, h1, h2⟩

theorem marchV (bt : Nat → Nat) (hb : ∀ k, 0 < bt k) (r : Nat → Sw) (hev : EvolvesV bt r) (t i : Nat)
    (hstart : (r t).starts (bt t) = true) (K : Nat) (hK : covered bt t K ≤ i)
    (hlen : ∀ k, k ≤ K → i < (r (t+k)).l.length) :
    ∀ k, k ≤ K → sweepBounds (r (t+k)).l.length (r (t+k)).off (bt (t+k))
        = (covered bt t k, min (covered bt t k + bt (t+k)) (r (t+k)).l.length) := by
  intro k
  induction k with
  | zero =>
    intro _
    have h0 := hlen 0 (by omega)
    have := starts_bounds (bt t) (hb t) (r t) hstart (by simp at h0; omega)
    simp only [Nat.add_zero]
    show _ = (0, min (0 + bt t) _)
    rw [Nat.zero_add]
    exact this
  | succ k ih =>
    intro hk
    have ihk := ih (by omega)
    have hoff : (r (t + (k+1))).off = min (covered bt t k + bt (t+k)) (r (t+k)).l.length := by
      have := hev (t+k)
      rw [ihk] at this
      simpa [Nat.add_assoc] using this
    have h1 : covered bt t (k+1) ≤ covered bt t K := covered_mono bt t hk
    have h2 := hlen k (by omega)
    have h3 := hlen (k+1) hk
    have hsucc : covered bt t (k+1) = covered bt t k + bt (t+k) := rfl
    have : (r (t + (k+1))).off = covered bt t (k+1) := by rw [hoff, hsucc]; omega
    rw [sweepBounds_inside _ _ _ (by omega) (hb _), this]

/-- **Liveness under a changing batch size.** Block `t` starts a sweep; the blocks run with arbitrary positive batch sizes
`bt`. If `p` stays at index `i` up to the block `t + K` whose range `[covered K, covered (K+1))` contains `i`, it is handed to
the step in that block — and such a `K ≤ i` always exists (`covered_block_exists`). -/
theorem sweep_live_varbatch_aux (bt : Nat → Nat) (hb : ∀ k, 0 < bt k) (r : Nat → Sw) (hev : EvolvesV bt r)
    (t i p K : Nat) (hstart : (r t).starts (bt t) = true)
    (hK1 : covered bt t K ≤ i) (hK2 : i < covered bt t (K+1))
    (hpos : ∀ k, k ≤ K → (r (t+k)).l[i]? = some p) :
    p ∈ (r (t + K)).processed (bt (t+K)) := by
  have hlen : ∀ k, k ≤ K → i < (r (t+k)).l.length := by
    intro k hk
    have := hpos k hk
    exact (List.getElem?_eq_some_iff.mp this).1
  have hm := marchV bt hb r hev t i hstart K hK1 hlen K (Nat.le_refl _)
  unfold Sw.processed
  simp only
  rw [hm]
  simp only
  apply mem_slice _ _ _ i p (hpos _ (Nat.le_refl _)) hK1
  have := hlen K (Nat.le_refl _)
  have h2 : covered bt t (K+1) = covered bt t K + bt (t+K) := rfl
  omega


end Comdex.Liquidation
