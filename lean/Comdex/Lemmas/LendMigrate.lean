import Comdex.Lemmas.LendIds
import Comdex.Lemmas.LendReserve
/-!
The store migration 2 → 3 of x/lend as a configuration change: every book invariant of a state survives it (`migrate_core`,
`migrate_ids`, `migrate_own`), because the invariants read the configuration only through a pair's out pool / out asset and the
reserve account, which the migration keeps.
-/
namespace Comdex.Lend
open Comdex

theorem find_migratePairs (c : Bool) (ps : List PairCfg) (id : Nat) :
    ((migratePairs c ps).find? (fun a => a.id == id)).map (fun p => (p.id, p.assetIn, p.assetOut, p.outPool)) =
      (ps.find? (fun a => a.id == id)).map (fun p => (p.id, p.assetIn, p.assetOut, p.outPool)) := by
  induction ps generalizing c with
  | nil => rfl
  | cons p ps ih =>
    simp only [migratePairs, List.find?_cons]
    cases h : p.id == id
    · simpa using ih _
    · simp

theorem migrate_pairOut (cfg : Cfg) (id : Nat) : (migrateCfg cfg).pairOut id = cfg.pairOut id := by
  have h := find_migratePairs false cfg.pairs id
  unfold Cfg.pairOut Cfg.pair? migrateCfg
  simp only
  cases h1 : (migratePairs false cfg.pairs).find? (fun a => a.id == id) <;> cases h2 : cfg.pairs.find? (fun a => a.id == id) <;>
    simp [h1, h2] at h ⊢
  exact ⟨h.2.2.2, h.2.2.1⟩

theorem migrate_pair_assetOut {cfg : Cfg} {id : Nat} {p' : PairCfg} (h : (migrateCfg cfg).pair? id = some p') :
    ∃ p, cfg.pair? id = some p ∧ p'.assetOut = p.assetOut := by
  have hf := find_migratePairs false cfg.pairs id
  unfold Cfg.pair? migrateCfg at h
  simp only at h
  rw [h] at hf
  unfold Cfg.pair?
  cases h2 : cfg.pairs.find? (fun a => a.id == id) with
  | none => simp [h2] at hf
  | some p => simp [h2] at hf; exact ⟨p, rfl, hf.2.2.1⟩

theorem migrate_borrowedSum (cfg : Cfg) (bs : List Borrow) (p a : Nat) (st : Bool) :
    borrowedSum (migrateCfg cfg) bs p a st = borrowedSum cfg bs p a st := by
  unfold borrowedSum
  apply sumBy_congr
  intro b _
  rw [migrate_pairOut]

theorem migrate_borrowIdsOf (cfg : Cfg) (bs : List Borrow) (p a : Nat) : borrowIdsOf (migrateCfg cfg) bs p a = borrowIdsOf cfg bs p a := by
  unfold borrowIdsOf
  congr 1
  apply List.filter_congr
  intro b _
  rw [migrate_pairOut]

/-- the stores stay well-formed and the borrowed totals stay right under the migrated configuration -/
theorem migrate_core {cfg : Cfg} {s : State} (c : CoreS cfg s) : CoreS (migrateCfg cfg) s :=
  { lu := c.lu, ll := c.ll, bu := c.bu, bl := c.bl, br := c.br,
    tbs := fun sf st hst => by rw [migrate_borrowedSum]; exact c.tbs sf st hst }

theorem migrate_ids {cfg : Cfg} {s : State} (i : IdsS cfg s) : IdsS (migrateCfg cfg) s :=
  { la := i.la, ba := i.ba,
    ok := fun st hst => by rw [migrate_borrowIdsOf]; exact i.ok st hst,
    lr := i.lr,
    br := fun b hb => by obtain ⟨p, a, e, r⟩ := i.br b hb; exact ⟨p, a, by rw [migrate_pairOut]; exact e, r⟩ }

theorem migrate_own {cfg : Cfg} {s : State} (o : Own cfg s) : Own (migrateCfg cfg) s :=
  ⟨o.own, o.lown, fun b hb pair hp => by
    obtain ⟨p, hp0, e⟩ := migrate_pair_assetOut hp
    rw [e]; exact o.bden b hb p hp0⟩

theorem migrate_cfgOk {cfg : Cfg} (ok : CfgOk cfg) : CfgOk (migrateCfg cfg) := ⟨ok.pools, ok.auction⟩

theorem migrate_ledger {cfg : Cfg} {bank0 : Bank} {s : State} (l : ResLedger cfg bank0 s) : ResLedger (migrateCfg cfg) bank0 s := l

end Comdex.Lend
