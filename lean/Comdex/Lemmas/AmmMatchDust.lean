import Comdex.Lemmas.AmmMatchExact
import Comdex.Model.AmmDust
/-!
Lemmas for C05, part 10: the COMPOSED dust bound.  For every distribution the engine makes at a price `p` (one `applyPlan`):
the buyers of a buy tick pay between `p·filled` and `p·filled + #fills·(1 − 10⁻¹⁸)`, the sellers of a sell tick receive between
`p·filled − #fills·(1 − 10⁻¹⁸)` and `p·filled`.  Composed over `distributeToTicks`, `MatchAtSinglePrice`, the two-sided loop and
`Match`, with `L` = base coin received by buyers − base coin paid by sellers (`≥ 0`; `> 0` only through defect D2):

  `lo·L ≤ quoteCoinDiff·10¹⁸ ≤ hi·L + #fills·(10¹⁸ − 1)`.
-/
namespace Comdex.Amm
open Comdex

/-- number of `FillOrder` calls that touched the orders of a list between two states (ghost) -/
def fillsOf (os os' : List Order) : Int := sumInt (List.zipWith (fun o o' => (o'.fills : Int) - o.fills) os os')

def ticksFills (ts ts' : List Tick) : Int := sumInt (List.zipWith (fun t t' => fillsOf t.orders t'.orders) ts ts')

theorem fillsOf_self (os : List Order) : fillsOf os os = 0 := by
  induction os with
  | nil => rfl
  | cons o os ih => simp only [fillsOf, List.zipWith_cons_cons, sumInt] at *; omega

theorem ticksFills_self (ts : List Tick) : ticksFills ts ts = 0 := by
  induction ts with
  | nil => rfl
  | cons t ts ih => simp only [ticksFills, List.zipWith_cons_cons, sumInt, fillsOf_self] at *; omega

theorem ticksFills_cons (t t' : Tick) (ts ts' : List Tick) :
    ticksFills (t :: ts) (t' :: ts') = fillsOf t.orders t'.orders + ticksFills ts ts' := by
  simp [ticksFills, sumInt]

/-- the dust law of one side of one distribution at price `p`: `q` = what the call added to `quoteCoinDiff` -/
def SideDust (d : Dir) (p F n q : Int) : Prop :=
  0 ≤ n ∧
  (d = .buy → p * F ≤ q * Dec.P ∧ q * Dec.P ≤ p * F + n * (Dec.P - 1)) ∧
  (d = .sell → (-q) * Dec.P ≤ p * F ∧ p * F ≤ (-q) * Dec.P + n * (Dec.P - 1))

theorem SideDust.zero (d : Dir) (p : Int) : SideDust d p 0 0 0 := by
  refine ⟨by omega, fun _ => by simp, fun _ => by simp⟩

theorem SideDust.add {d : Dir} {p F₁ n₁ q₁ F₂ n₂ q₂ : Int} (h₁ : SideDust d p F₁ n₁ q₁) (h₂ : SideDust d p F₂ n₂ q₂) :
    SideDust d p (F₁ + F₂) (n₁ + n₂) (q₁ + q₂) := by
  obtain ⟨a0, a1, a2⟩ := h₁
  obtain ⟨b0, b1, b2⟩ := h₂
  refine ⟨by omega, ?_, ?_⟩
  · intro hd
    obtain ⟨x1, x2⟩ := a1 hd
    obtain ⟨y1, y2⟩ := b1 hd
    constructor <;> nlinarith
  · intro hd
    obtain ⟨x1, x2⟩ := a2 hd
    obtain ⟨y1, y2⟩ := b2 hd
    constructor <;> nlinarith

/-- **one `applyPlan`** (the `FillOrder` loop of a distribution) on orders of one side, every planned amount `≥ 0` -/
theorem applyPlan_dust (d : Dir) (os : List Order) (plan : List (Order × Int)) (p : Int) (hp : 0 ≤ p)
    (hd : ∀ o ∈ os, o.dir = d) (hg : ∀ oa ∈ plan, 0 ≤ oa.2) (os' : List Order) (q : Int)
    (h : applyPlan os plan p = some (os', q)) :
    SideDust d p (filledOf os os') (fillsOf os os') q := by
  induction os generalizing os' q with
  | nil =>
    simp [applyPlan] at h; obtain ⟨rfl, rfl⟩ := h
    exact SideDust.zero d p
  | cons o os ih =>
    unfold applyPlan at h
    cases h1 : applyPlan os plan p with
    | none => rw [h1] at h; simp at h
    | some r =>
      obtain ⟨os1, q1⟩ := r
      have i := ih (fun x hx => hd x (by simp [hx])) os1 q1 h1
      rw [h1] at h
      simp only at h
      cases hl : plan.lookup o with
      | none =>
        rw [hl] at h
        simp only [Option.some.injEq, Prod.mk.injEq] at h
        obtain ⟨rfl, rfl⟩ := h
        have e1 : filledOf (o :: os) (o :: os1) = 0 + filledOf os os1 := by
          simp [filledOf, sumInt]
        have e2 : fillsOf (o :: os) (o :: os1) = 0 + fillsOf os os1 := by
          simp [fillsOf, sumInt]
        rw [e1, e2]
        have := (SideDust.zero d p).add i
        simp only [Int.zero_add] at this ⊢
        exact this
      | some a =>
        rw [hl] at h
        simp only at h
        unfold fillOrder at h
        by_cases hgt : a > matchableAmount o p
        · simp [hgt] at h
        · simp only [hgt, if_false, Option.some.injEq, Prod.mk.injEq] at h
          obtain ⟨rfl, rfl⟩ := h
          have ha : 0 ≤ a := hg (o, a) (lookup_mem hl)
          have hpa : 0 ≤ p * a := Int.mul_nonneg hp ha
          have hod := hd o (by simp)
          have e1 : filledOf (o :: os) ((fillRaw o a p).1 :: os1) = a + filledOf os os1 := by
            simp only [filledOf, List.zipWith_cons_cons, sumInt]
            unfold fillRaw; cases o.dir <;> simp
          have e2 : fillsOf (o :: os) ((fillRaw o a p).1 :: os1) = 1 + fillsOf os os1 := by
            simp only [fillsOf, List.zipWith_cons_cons, sumInt]
            unfold fillRaw; cases o.dir <;> simp
          have e3 : q1 + (fillRaw o a p).2 = (fillRaw o a p).2 + q1 := by omega
          rw [e1, e2, e3]
          refine SideDust.add ?_ i
          refine ⟨by omega, ?_, ?_⟩
          · intro hb
            have : (fillRaw o a p).2 = quoteCeil p a := by unfold fillRaw; rw [hod, hb]
            rw [this]
            have := quoteCeil_mul_le p a hpa
            have := le_quoteCeil_mul p a hpa
            constructor <;> omega
          · intro hs
            have : (fillRaw o a p).2 = - quoteFloor p a := by unfold fillRaw; rw [hod, hs]
            rw [this, Int.neg_neg]
            have := quoteFloor_mul_le p a hpa
            have := le_quoteFloor_mul p a hpa
            constructor <;> omega

/-- **`DistributeOrderAmountToTick`** on a tick of one side at a price within the orders' limits -/
theorem distributeToTick_dust (d : Dir) (os : List Order) (amt p : Int) (hp : 0 < p) (hamt : 0 ≤ amt)
    (hw : ∀ o ∈ os, Wf o ∧ Within o p) (hd : ∀ o ∈ os, o.dir = d) (os' : List Order) (q : Int)
    (h : distributeToTick os amt p = some (os', q)) :
    SideDust d p (filledOf os os') (fillsOf os os') q := by
  obtain ⟨plan, hpl, hgood⟩ := planGroups_good (groupOrders os) os amt p hp hamt (mem_groupOrders os) hw
  unfold distributeToTick at h
  rw [hpl] at h
  exact applyPlan_dust d os plan p (by omega) hd (fun oa hoa => by have := (hgood oa hoa).2.pos; omega) os' q h

/-- **`FulfillOrders`** likewise -/
theorem fulfillOrders_dust (d : Dir) (os : List Order) (p : Int) (hp : 0 < p)
    (hw : ∀ o ∈ os, Wf o ∧ Within o p) (hd : ∀ o ∈ os, o.dir = d) (os' : List Order) (q : Int)
    (h : fulfillOrders os p = some (os', q)) :
    SideDust d p (filledOf os os') (fillsOf os os') q := by
  unfold fulfillOrders at h
  exact applyPlan_dust d os _ p (by omega) hd
    (fun oa hoa => by have := (fulfillPlan_good os p hp hw oa hoa).2.pos; omega) os' q h

theorem tickOk_dir {d : Dir} {t : Tick} (hok : TickOk d t) : ∀ o ∈ t.orders, o.dir = d := fun o ho => (hok o ho).2.1

/-- **`distributeToTicks`** of `MatchAtSinglePrice` on one side of the book -/
theorem distTicks_dust (d : Dir) (ts : List Tick) (x p : Int) (hp : 0 < p) (hx : 0 < x)
    (hok : ∀ t ∈ ts, TickOk d t) (hle : x ≤ sumInt (buildSide (d == .sell) p ts)) (ts' : List Tick) (q : Int)
    (h : distTicks ts x p = some (ts', q)) :
    SideDust d p (ticksFilled ts ts') (ticksFills ts ts') q := by
  induction ts generalizing x ts' q with
  | nil => simp [buildSide, sumInt] at hle; omega
  | cons t ts ih =>
    unfold buildSide at hle
    split at hle
    · simp [sumInt] at hle; omega
    · rename_i hlim
      have hwithin : ∀ o ∈ t.orders, Wf o ∧ Within o p := by
        apply within_of_tickOk (hok t (by simp)) p
        · intro hd; subst hd
          have e : (Dir.buy == Dir.sell) = false := rfl
          simp [e] at hlim; exact hlim
        · intro hd; subst hd
          have e : (Dir.sell == Dir.sell) = true := rfl
          simp [e] at hlim; exact hlim
      have hdir := tickOk_dir (hok t (by simp))
      simp only [sumInt] at hle
      unfold distTicks at h
      simp only at h
      split at h
      · cases hf : fulfillOrders t.orders p with
        | none => rw [hf] at h; cases h
        | some r =>
          obtain ⟨os', q1⟩ := r
          rw [hf] at h
          simp only at h
          have f := fulfillOrders_dust d t.orders p hp hwithin hdir os' q1 hf
          split at h
          · simp only [Option.some.injEq, Prod.mk.injEq] at h
            obtain ⟨rfl, rfl⟩ := h
            rw [ticksFilled_cons, ticksFills_cons, ticksFilled_self, ticksFills_self]
            simpa using f
          · cases hr : distTicks ts (x - totalMatchable t.orders p) p with
            | none => rw [hr] at h; cases h
            | some r2 =>
              obtain ⟨ts2, q2⟩ := r2
              rw [hr] at h
              simp only [Option.some.injEq, Prod.mk.injEq] at h
              obtain ⟨rfl, rfl⟩ := h
              have i := ih (x - totalMatchable t.orders p) (by omega) (fun t' ht' => hok t' (by simp [ht'])) (by omega) ts2 q2 hr
              rw [ticksFilled_cons, ticksFills_cons]
              exact f.add i
      · cases hdd : distributeToTick t.orders x p with
        | none => rw [hdd] at h; cases h
        | some r =>
          obtain ⟨os', q1⟩ := r
          rw [hdd] at h
          simp only [Option.some.injEq, Prod.mk.injEq] at h
          obtain ⟨rfl, rfl⟩ := h
          have f := distributeToTick_dust d t.orders x p hp (by omega) hwithin hdir os' q1 hdd
          rw [ticksFilled_cons, ticksFills_cons, ticksFilled_self, ticksFills_self]
          simpa using f

/-! ## both sides together -/

/-- the composed law: `L` = base coin received by buyers − base coin paid by sellers, `n` fills, `q` the quote difference,
all trades at prices in `[lo, hi]` -/
def DustBound (lo hi L n q : Int) : Prop :=
  0 ≤ n ∧ 0 ≤ L ∧ lo * L ≤ q * Dec.P ∧ q * Dec.P ≤ hi * L + n * (Dec.P - 1)

theorem DustBound.zero (lo hi : Int) : DustBound lo hi 0 0 0 := by
  refine ⟨by omega, by omega, by simp, by simp⟩

theorem DustBound.add {lo hi L₁ n₁ q₁ L₂ n₂ q₂ : Int} (h₁ : DustBound lo hi L₁ n₁ q₁) (h₂ : DustBound lo hi L₂ n₂ q₂) :
    DustBound lo hi (L₁ + L₂) (n₁ + n₂) (q₁ + q₂) := by
  obtain ⟨a0, a1, a2, a3⟩ := h₁
  obtain ⟨b0, b1, b2, b3⟩ := h₂
  refine ⟨by omega, by omega, by nlinarith, by nlinarith⟩

/-- a buy-side and a sell-side distribution at the same price `p ∈ [lo, hi]`, the sell side moving at most what the buy
side moved -/
theorem DustBound.of_sides {lo hi p Fb nb qb Fs ns qs : Int} (hb : SideDust .buy p Fb nb qb) (hs : SideDust .sell p Fs ns qs)
    (hle : Fs ≤ Fb) (hlo : lo ≤ p) (hhi : p ≤ hi) : DustBound lo hi (Fb - Fs) (nb + ns) (qb + qs) := by
  obtain ⟨a0, a1, _⟩ := hb
  obtain ⟨b0, _, b2⟩ := hs
  obtain ⟨x1, x2⟩ := a1 rfl
  obtain ⟨y1, y2⟩ := b2 rfl
  have h1 : lo * (Fb - Fs) ≤ p * (Fb - Fs) := Int.mul_le_mul_of_nonneg_right hlo (by omega)
  have h2 : p * (Fb - Fs) ≤ hi * (Fb - Fs) := Int.mul_le_mul_of_nonneg_right hhi (by omega)
  refine ⟨by omega, by omega, by nlinarith, by nlinarith⟩

theorem DustBound.congr {lo hi L n q L' n' q' : Int} (h : DustBound lo hi L n q) (e1 : L' = L) (e2 : n' = n) (e3 : q' = q) :
    DustBound lo hi L' n' q' := by subst e1 e2 e3; exact h

/-- the head ticks of the sides that `FindMatchableAmountAtSinglePrice` looks at are within the match price -/
theorem buildSide_head (incr : Bool) (p : Int) (ts : List Tick) (h : 0 < sumInt (buildSide incr p ts)) :
    ∃ t rest, ts = t :: rest ∧ (if incr then t.price ≤ p else p ≤ t.price) := by
  cases ts with
  | nil => simp [buildSide, sumInt] at h
  | cons t rest =>
    refine ⟨t, rest, rfl, ?_⟩
    unfold buildSide at h
    split at h
    · simp [sumInt] at h
    · rename_i hc
      cases incr <;> simp at hc ⊢ <;> omega

/-- **`MatchAtSinglePrice`: the composed dust bound**, exact in the price: with `L` the base coin the sell side failed to
deliver (D2) the returned `quoteCoinDiff` lies between `p·L` and `p·L` + less than one quote unit per fill -/
theorem matchAtSinglePrice_dust (b : Book) (p : Int) (hp : 0 < p) (hb : BookOk b)
    (hnd : (∀ t ∈ b.buys, t.orders.Nodup) ∧ (∀ t ∈ b.sells, t.orders.Nodup))
    (b' : Book) (q : Int) (h : matchAtSinglePrice b p = .ok b' q) :
    DustBound p p (ticksFilled b.buys b'.buys - ticksFilled b.sells b'.sells)
      (ticksFills b.buys b'.buys + ticksFills b.sells b'.sells) q := by
  obtain ⟨x, hx1, hx2, hx3, _⟩ := matchAtSinglePrice_exact b p hp hb hnd b' q h
  unfold matchAtSinglePrice at h
  rw [hx1] at h
  simp only at h
  obtain ⟨hx, hxb, hxs⟩ := findMatchableAmount_bound b p hp hb x hx1
  cases h1 : distTicks b.buys x p with
  | none => rw [h1] at h; cases h
  | some r1 =>
    obtain ⟨buys', q1⟩ := r1
    rw [h1] at h
    simp only at h
    cases h2 : distTicks b.sells x p with
    | none => rw [h2] at h; cases h
    | some r2 =>
      obtain ⟨sells', q2⟩ := r2
      rw [h2] at h
      simp only [SRes.ok.injEq] at h
      obtain ⟨rfl, rfl⟩ := h
      have d1 := distTicks_dust .buy b.buys x p hp hx hb.1 (by rw [show (Dir.buy == Dir.sell) = false from rfl]; exact hxb) buys' q1 h1
      have d2 := distTicks_dust .sell b.sells x p hp hx hb.2 (by rw [show (Dir.sell == Dir.sell) = true from rfl]; exact hxs) sells' q2 h2
      exact DustBound.of_sides d1 d2 (by
        have a : ticksFilled b.buys buys' = x := hx2
        have c : ticksFilled b.sells sells' ≤ x := hx3
        omega) (Int.le_refl _) (Int.le_refl _)

/-! ## the two-sided loop -/

theorem fillsOf_trans {R S : Order → Order → Prop} {a b c : List Order} (h1 : All2 R a b) (h2 : All2 S b c) :
    fillsOf a c = fillsOf a b + fillsOf b c := by
  induction a generalizing b c with
  | nil =>
    cases b with
    | nil => cases c with
      | nil => rfl
      | cons _ _ => exact h2.elim
    | cons _ _ => exact h1.elim
  | cons x xs ih =>
    cases b with
    | nil => exact h1.elim
    | cons y ys =>
      cases c with
      | nil => exact h2.elim
      | cons z zs =>
        have := ih h1.2 h2.2
        simp only [fillsOf, List.zipWith_cons_cons, sumInt] at *
        omega

theorem ticks_head_fills (t : Tick) (os₁ : List Order) (ts r : List Tick) (h1 : All2 Reach t.orders os₁)
    (h2 : All2 TickReach ({ t with orders := os₁ } :: ts) r) :
    ticksFills (t :: ts) r = fillsOf t.orders os₁ + ticksFills ({ t with orders := os₁ } :: ts) r := by
  cases r with
  | nil => exact h2.elim
  | cons t2 r' =>
    rw [ticksFills_cons, ticksFills_cons]
    have e1 := fillsOf_trans h1 h2.1.2
    simp only at e1 ⊢
    omega

theorem ticks_trans_fills {a b c : List Tick} (h1 : All2 TickReach a b) (h2 : All2 TickReach b c) :
    ticksFills a c = ticksFills a b + ticksFills b c := by
  induction a generalizing b c with
  | nil =>
    cases b with
    | nil => cases c with
      | nil => simp [ticksFills, sumInt]
      | cons _ _ => exact h2.elim
    | cons _ _ => exact h1.elim
  | cons x xs ih =>
    cases b with
    | nil => exact h1.elim
    | cons y ys =>
      cases c with
      | nil => exact h2.elim
      | cons z zs =>
        have i := ih h1.2 h2.2
        have e1 := fillsOf_trans h1.1.2 h2.1.2
        simp only [ticksFills_cons]
        omega

/-- **the two-sided loop of `Match`: the composed dust bound.**  Every iteration trades at the sell tick's or the buy tick's
price of a crossing pair, hence at a price between the lowest sell tick and the highest buy tick. -/
theorem matchLoop_dust (lo hi : Int) (fuel : Nat) (incr : Bool) (bs ss : List Tick)
    (hb : ∀ t ∈ bs, TickOk .buy t) (hs : ∀ t ∈ ss, TickOk .sell t)
    (hbn : ∀ t ∈ bs, (t.orders.map (·.id)).Nodup) (hsn : ∀ t ∈ ss, (t.orders.map (·.id)).Nodup)
    (hhi : ∀ t ∈ bs, t.price ≤ hi) (hlo : ∀ t ∈ ss, lo ≤ t.price)
    (r : LoopRes) (h : matchLoop fuel incr bs ss = some r) :
    DustBound lo hi (ticksFilled bs r.buys - ticksFilled ss r.sells) (ticksFills bs r.buys + ticksFills ss r.sells) r.q := by
  have base : ∀ (bs ss : List Tick),
      DustBound lo hi (ticksFilled bs bs - ticksFilled ss ss) (ticksFills bs bs + ticksFills ss ss) 0 := by
    intro bs ss
    simp only [ticksFilled_self, ticksFills_self]
    exact DustBound.zero lo hi
  induction fuel generalizing bs ss r with
  | zero => unfold matchLoop at h; cases h; exact base bs ss
  | succ fuel ih =>
    cases bs with
    | nil => unfold matchLoop at h; cases h; exact base _ _
    | cons bt bts =>
      cases ss with
      | nil => unfold matchLoop at h; cases h; exact base _ _
      | cons st sts =>
        have hbt := hb bt (by simp)
        have hst := hs st (by simp)
        have hbts : ∀ t ∈ bts, TickOk .buy t := fun t ht => hb t (by simp [ht])
        have hsts : ∀ t ∈ sts, TickOk .sell t := fun t ht => hs t (by simp [ht])
        have hbnt := hbn bt (by simp)
        have hsnt := hsn st (by simp)
        have hbnts : ∀ t ∈ bts, (t.orders.map (·.id)).Nodup := fun t ht => hbn t (by simp [ht])
        have hsnts : ∀ t ∈ sts, (t.orders.map (·.id)).Nodup := fun t ht => hsn t (by simp [ht])
        have hhit := hhi bt (by simp)
        have hlot := hlo st (by simp)
        have hhits : ∀ t ∈ bts, t.price ≤ hi := fun t ht => hhi t (by simp [ht])
        have hlots : ∀ t ∈ sts, lo ≤ t.price := fun t ht => hlo t (by simp [ht])
        unfold matchLoop at h
        simp only at h
        generalize hpd : (if incr = true then st.price else bt.price) = p at *
        split at h
        · cases h; exact base _ _
        · rename_i hcross
          split at h
          · cases hr : matchLoop fuel incr bts (st :: sts) with
            | none => rw [hr] at h; cases h
            | some r' =>
              rw [hr] at h
              cases h
              have i := ih bts (st :: sts) hbts hs hbnts hsn hhits hlo r' hr
              simp only [ticksFilled_cons, ticksFills_cons, filledOf_self, fillsOf_self]
              exact i.congr (by omega) (by omega) rfl
          · rename_i hbo
            split at h
            · cases hr : matchLoop fuel incr (bt :: bts) sts with
              | none => rw [hr] at h; cases h
              | some r' =>
                rw [hr] at h
                cases h
                have i := ih (bt :: bts) sts hb hsts hbn hsnts hhi hlots r' hr
                simp only [ticksFilled_cons, ticksFills_cons, filledOf_self, fillsOf_self]
                exact i.congr (by omega) (by omega) rfl
            · rename_i hso
              have hbo' : 0 < totalMatchable bt.orders p := by omega
              have hso' : 0 < totalMatchable st.orders p := by omega
              have hbp := tick_price_pos hbt p hbo'
              have hsp := tick_price_pos hst p hso'
              have hp : 0 < p := by rw [← hpd]; split <;> assumption
              have hpb : p ≤ bt.price := by rw [← hpd]; split <;> omega
              have hps : st.price ≤ p := by rw [← hpd]; split <;> omega
              have hwb := within_of_tickOk hbt p (fun _ => hpb) (fun h => by cases h)
              have hws := within_of_tickOk hst p (fun h => by cases h) (fun _ => hps)
              generalize hXb : (if totalMatchable bt.orders p ≤ totalMatchable st.orders p then totalMatchable bt.orders p
                 else totalMatchable st.orders p) = Xb at *
              generalize hXs : (if totalMatchable st.orders p ≤ totalMatchable bt.orders p then totalMatchable st.orders p
                 else totalMatchable bt.orders p) = Xs at *
              have hXb0 : 0 ≤ Xb := by rw [← hXb]; split <;> omega
              have hXs0 : 0 ≤ Xs := by rw [← hXs]; split <;> omega
              have hXeq : Xb = Xs := by rw [← hXb, ← hXs]; split <;> split <;> omega
              have hXble : Xb ≤ totalMatchable bt.orders p := by rw [← hXb]; split <;> omega
              obtain ⟨bos, q1, hd1, rb⟩ := distributeToTick_ok bt.orders Xb p hp hXb0 hwb
              obtain ⟨sos, q2, hd2, rs⟩ := distributeToTick_ok st.orders Xs p hp hXs0 hws
              rw [hd1] at h; simp only at h; rw [hd2] at h; simp only at h
              obtain ⟨_, _, a2⟩ := distributeToTick_exact bt.orders Xb p hp hXb0 (fun o ho => (hwb o ho).1)
                (nodup_of_ids hbnt) bos q1 hd1
              obtain ⟨_, c0, _⟩ := distributeToTick_exact st.orders Xs p hp hXs0 (fun o ho => (hws o ho).1)
                (nodup_of_ids hsnt) sos q2 hd2
              have hbl : groupsLossless (groupOrders bt.orders) Xb p = true := by
                apply groupsLossless_buys _ Xb p hp hXb0
                · intro g hg o ho
                  have := hbt o (mem_groupOrders bt.orders g hg o ho)
                  exact ⟨this.1, this.2.1⟩
                · rw [sum_groupOrders]; exact hXble
              have hbf := a2.mpr hbl
              have sd1 := distributeToTick_dust .buy bt.orders Xb p hp hXb0 hwb (tickOk_dir hbt) bos q1 hd1
              have sd2 := distributeToTick_dust .sell st.orders Xs p hp hXs0 hws (tickOk_dir hst) sos q2 hd2
              have step := DustBound.of_sides (lo := lo) (hi := hi) sd1 sd2 (by omega) (by omega) (by omega)
              have rbt : TickReach bt { bt with orders := bos } := ⟨rfl, rb⟩
              have rst : TickReach st { st with orders := sos } := ⟨rfl, rs⟩
              have hbt' := tickOk_of_reach hbt rbt
              have hst' := tickOk_of_reach hst rst
              have hbn' := tickIds_of_reach hbt rbt hbnt
              have hsn' := tickIds_of_reach hst rst hsnt
              by_cases k1 : totalMatchable bt.orders p ≤ totalMatchable st.orders p
              · by_cases k2 : totalMatchable st.orders p ≤ totalMatchable bt.orders p
                · simp only [k1, k2, if_true] at h
                  cases hr : matchLoop fuel incr bts sts with
                  | none => rw [hr] at h; cases h
                  | some r' =>
                    rw [hr] at h
                    cases h
                    have i := ih bts sts hbts hsts hbnts hsnts hhits hlots r' hr
                    simp only [ticksFilled_cons, ticksFills_cons]
                    exact (step.add i).congr (by omega) (by omega) (by omega)
                · simp only [k1, k2, if_true, if_false] at h
                  cases hr : matchLoop fuel incr bts ({ st with orders := sos } :: sts) with
                  | none => rw [hr] at h; cases h
                  | some r' =>
                    rw [hr] at h
                    cases h
                    have hs2 : ∀ t ∈ ({ st with orders := sos } : Tick) :: sts, TickOk .sell t := by
                      intro t ht; rcases List.mem_cons.mp ht with rfl | ht; exact hst'; exact hsts t ht
                    have hsn2 : ∀ t ∈ ({ st with orders := sos } : Tick) :: sts, (t.orders.map (·.id)).Nodup := by
                      intro t ht; rcases List.mem_cons.mp ht with rfl | ht; exact hsn'; exact hsnts t ht
                    have hlo2 : ∀ t ∈ ({ st with orders := sos } : Tick) :: sts, lo ≤ t.price := by
                      intro t ht; rcases List.mem_cons.mp ht with rfl | ht; exact hlot; exact hlots t ht
                    have i := ih bts _ hbts hs2 hbnts hsn2 hhits hlo2 r' hr
                    obtain ⟨r'', hr'', _, rr2⟩ := matchLoop_ok fuel incr bts _ hbts hs2
                    rw [hr] at hr''; cases hr''
                    obtain ⟨t1, _⟩ := ticks_head_trans st sos sts r'.sells hst rs rr2
                    have t3 := ticks_head_fills st sos sts r'.sells rs rr2
                    simp only [ticksFilled_cons, ticksFills_cons]
                    exact (step.add i).congr (by omega) (by omega) (by omega)
              · have k2 : totalMatchable st.orders p ≤ totalMatchable bt.orders p := by omega
                simp only [k1, k2, if_true, if_false] at h
                cases hr : matchLoop fuel incr ({ bt with orders := bos } :: bts) sts with
                | none => rw [hr] at h; cases h
                | some r' =>
                  rw [hr] at h
                  cases h
                  have hb2 : ∀ t ∈ ({ bt with orders := bos } : Tick) :: bts, TickOk .buy t := by
                    intro t ht; rcases List.mem_cons.mp ht with rfl | ht; exact hbt'; exact hbts t ht
                  have hbn2 : ∀ t ∈ ({ bt with orders := bos } : Tick) :: bts, (t.orders.map (·.id)).Nodup := by
                    intro t ht; rcases List.mem_cons.mp ht with rfl | ht; exact hbn'; exact hbnts t ht
                  have hhi2 : ∀ t ∈ ({ bt with orders := bos } : Tick) :: bts, t.price ≤ hi := by
                    intro t ht; rcases List.mem_cons.mp ht with rfl | ht; exact hhit; exact hhits t ht
                  have i := ih _ sts hb2 hsts hbn2 hsnts hhi2 hlots r' hr
                  obtain ⟨r'', hr'', rr1, _⟩ := matchLoop_ok fuel incr _ sts hb2 hsts
                  rw [hr] at hr''; cases hr''
                  obtain ⟨t1, _⟩ := ticks_head_trans bt bos bts r'.buys hbt rb rr1
                  have t3 := ticks_head_fills bt bos bts r'.buys rb rr1
                  simp only [ticksFilled_cons, ticksFills_cons]
                  exact (step.add i).congr (by omega) (by omega) (by omega)

theorem DustBound.widen {lo hi lo' hi' L n q : Int} (h : DustBound lo hi L n q) (h1 : lo' ≤ lo) (h2 : hi ≤ hi') :
    DustBound lo' hi' L n q := by
  obtain ⟨a0, a1, a2, a3⟩ := h
  have e1 : lo' * L ≤ lo * L := Int.mul_le_mul_of_nonneg_right h1 a1
  have e2 : hi * L ≤ hi' * L := Int.mul_le_mul_of_nonneg_right h2 a1
  exact ⟨a0, a1, by omega, by omega⟩

/-- when `MatchAtSinglePrice` finds something at `p`, the best buy tick is at or above and the best sell tick at or below `p` -/
theorem single_price_between (b : Book) (p : Int) (hp : 0 < p) (hb : BookOk b) (x : Int)
    (h : findMatchableAmount b p = some x) (lo hi : Int)
    (hhi : ∀ t ∈ b.buys, t.price ≤ hi) (hlo : ∀ t ∈ b.sells, lo ≤ t.price) : lo ≤ p ∧ p ≤ hi := by
  obtain ⟨hx, hxb, hxs⟩ := findMatchableAmount_bound b p hp hb x h
  obtain ⟨t1, r1, e1, c1⟩ := buildSide_head false p b.buys (by omega)
  obtain ⟨t2, r2, e2, c2⟩ := buildSide_head true p b.sells (by omega)
  have := hhi t1 (by rw [e1]; simp)
  have := hlo t2 (by rw [e2]; simp)
  simp only [if_true, Bool.false_eq_true, if_false] at c1 c2
  constructor <;> omega

/-- **`OrderBook.Match`: the composed dust bound.**  With `L` = base coin received by the buyers − base coin paid by the
sellers (`0 ≤ L`; `L > 0` only where defect D2 drops a remainder), `n` the number of individual fills, `lo` / `hi` any bounds
of the sell / buy tick prices of the book:  `lo·L ≤ quoteCoinDiff·10¹⁸ ≤ hi·L + n·(10¹⁸ − 1)`. -/
theorem matchBook_dust (lo hi : Int) (b : Book) (lp : Int) (hlp : 0 < lp) (hb : BookOk b)
    (hn : (∀ t ∈ b.buys, (t.orders.map (·.id)).Nodup) ∧ (∀ t ∈ b.sells, (t.orders.map (·.id)).Nodup))
    (hhi : ∀ t ∈ b.buys, t.price ≤ hi) (hlo : ∀ t ∈ b.sells, lo ≤ t.price)
    (b' : Book) (mp q : Int) (h : matchBook b lp = .ok b' mp q) :
    DustBound lo hi (ticksFilled b.buys b'.buys - ticksFilled b.sells b'.sells)
      (ticksFills b.buys b'.buys + ticksFills b.sells b'.sells) q := by
  have hnd : (∀ t ∈ b.buys, t.orders.Nodup) ∧ (∀ t ∈ b.sells, t.orders.Nodup) :=
    ⟨fun t ht => nodup_of_ids (hn.1 t ht), fun t ht => nodup_of_ids (hn.2 t ht)⟩
  unfold matchBook at h
  split at h
  · cases h
  · rcases matchAtSinglePrice_ok b lp hlp hb with hs | ⟨b1, q0, hs, r0⟩
    · rw [hs] at h
      simp only at h
      split at h
      · cases h
      · cases hr : matchLoop (b.buys.length + b.sells.length) (priceDirection b lp == PDir.increasing) b.buys b.sells with
        | none => rw [hr] at h; cases h
        | some r =>
          rw [hr] at h
          simp only at h
          have a := matchLoop_dust lo hi _ _ b.buys b.sells hb.1 hb.2 hn.1 hn.2 hhi hlo r hr
          cases hl : r.last with
          | none => rw [hl] at h; simp at h
          | some m =>
            rw [hl] at h
            simp only [MRes.ok.injEq] at h
            obtain ⟨rfl, rfl, rfl⟩ := h
            exact a.congr rfl rfl (by omega)
    · have d0 := matchAtSinglePrice_dust b lp hlp hb hnd b1 q0 hs
      have hbetween : lo ≤ lp ∧ lp ≤ hi := by
        obtain ⟨x, hx1, _⟩ := matchAtSinglePrice_exact b lp hlp hb hnd b1 q0 hs
        exact single_price_between b lp hlp hb x hx1 lo hi hhi hlo
      have d0' := d0.widen hbetween.1 hbetween.2
      rw [hs] at h
      simp only at h
      split at h
      · simp only [MRes.ok.injEq] at h
        obtain ⟨rfl, rfl, rfl⟩ := h
        exact d0'
      · have hb1 := bookOk_of_reach hb r0
        have hn1 : (∀ t ∈ b1.buys, (t.orders.map (·.id)).Nodup) ∧ (∀ t ∈ b1.sells, (t.orders.map (·.id)).Nodup) := by
          constructor
          · intro t' ht'
            obtain ⟨t, ht, r⟩ := all2_mem_right r0.1 ht'
            exact tickIds_of_reach (hb.1 t ht) r (hn.1 t ht)
          · intro t' ht'
            obtain ⟨t, ht, r⟩ := all2_mem_right r0.2 ht'
            exact tickIds_of_reach (hb.2 t ht) r (hn.2 t ht)
        have hhi1 : ∀ t ∈ b1.buys, t.price ≤ hi := by
          intro t' ht'
          obtain ⟨t, ht, r⟩ := all2_mem_right r0.1 ht'
          rw [r.1]; exact hhi t ht
        have hlo1 : ∀ t ∈ b1.sells, lo ≤ t.price := by
          intro t' ht'
          obtain ⟨t, ht, r⟩ := all2_mem_right r0.2 ht'
          rw [r.1]; exact hlo t ht
        cases hr : matchLoop (b1.buys.length + b1.sells.length) (priceDirection b lp == PDir.increasing) b1.buys b1.sells with
        | none => rw [hr] at h; cases h
        | some r =>
          rw [hr] at h
          simp only at h
          have a := matchLoop_dust lo hi _ _ b1.buys b1.sells hb1.1 hb1.2 hn1.1 hn1.2 hhi1 hlo1 r hr
          obtain ⟨r', hr', rr1, rr2⟩ := matchLoop_ok (b1.buys.length + b1.sells.length)
            (priceDirection b lp == PDir.increasing) b1.buys b1.sells hb1.1 hb1.2
          rw [hr] at hr'; cases hr'
          obtain ⟨tb1, _⟩ := ticks_trans hb.1 r0.1 rr1
          obtain ⟨ts1, _⟩ := ticks_trans hb.2 r0.2 rr2
          have tb3 := ticks_trans_fills r0.1 rr1
          have ts3 := ticks_trans_fills r0.2 rr2
          have hfin : (match r.last with
              | some mp => MRes.ok ⟨r.buys, r.sells⟩ mp (q0 + r.q)
              | none => if true = true then MRes.ok ⟨r.buys, r.sells⟩ lp (q0 + r.q) else MRes.noMatch) = MRes.ok b' mp q →
              b' = ⟨r.buys, r.sells⟩ ∧ q = q0 + r.q := by
            intro hh
            cases hl : r.last with
            | none => rw [hl] at hh; simp at hh; exact ⟨hh.1.symm, hh.2.2.symm⟩
            | some m => rw [hl] at hh; simp at hh; exact ⟨hh.1.symm, hh.2.2.symm⟩
          obtain ⟨rfl, rfl⟩ := hfin h
          exact (d0'.add a).congr (by simp only; omega) (by simp only; omega) rfl

/-! ## the same in the monitor's vocabulary: sums over the flat order list of the book -/

theorem zsum_append (g : Order × Order → Int) (l₁ l₂ l₁' l₂' : List Order) (h : l₁.length = l₁'.length) :
    sumInt (((l₁ ++ l₂).zip (l₁' ++ l₂')).map g) = sumInt ((l₁.zip l₁').map g) + sumInt ((l₂.zip l₂').map g) := by
  rw [List.zip_append h, List.map_append, sumInt_append]

/-- the orders of a list of ticks, in book order -/
def flatOrders (ts : List Tick) : List Order := (ts.map (·.orders)).flatten

theorem flatOrders_cons (t : Tick) (ts : List Tick) : flatOrders (t :: ts) = t.orders ++ flatOrders ts := by
  simp [flatOrders]

/-- per list of one side: the monitor's sums are the lemmas' sums -/
theorem side_sums (d : Dir) (os os' : List Order) (hok : ∀ o ∈ os, Wf o ∧ o.dir = d) (hr : All2 Reach os os') :
    fillCount os os' = fillsOf os os' ∧
    (d = .buy → buyPaid os os' = quoteOf os os' ∧ sellReceived os os' = 0 ∧
      buyReceived os os' = filledOf os os' ∧ sellPaid os os' = 0) ∧
    (d = .sell → buyPaid os os' = 0 ∧ sellReceived os os' = - quoteOf os os' ∧
      buyReceived os os' = 0 ∧ sellPaid os os' = filledOf os os') := by
  induction os generalizing os' with
  | nil =>
    cases os' with
    | nil => simp [fillCount, fillsOf, buyPaid, sellReceived, buyReceived, sellPaid, quoteOf, filledOf, sumInt]
    | cons _ _ => exact hr.elim
  | cons o os ih =>
    cases os' with
    | nil => exact hr.elim
    | cons o' os' =>
      obtain ⟨i0, i1, i2⟩ := ih os' (fun x hx => hok x (by simp [hx])) hr.2
      obtain ⟨hw, hd⟩ := hok o (by simp)
      have dl := reach_delta hr.1 hw
      refine ⟨?_, ?_, ?_⟩
      · simp only [fillCount, fillsOf, List.zip_cons_cons, List.map_cons, List.zipWith_cons_cons, sumInt] at i0 ⊢
        omega
      · intro hb
        obtain ⟨j1, j2, j3, j4⟩ := i1 hb
        have hob : o.dir = .buy := by rw [hd, hb]
        have := dl.buy_recv hob
        simp only [buyPaid, sellReceived, buyReceived, sellPaid, quoteOf, filledOf, List.zip_cons_cons, List.map_cons,
          List.zipWith_cons_cons, sumInt, hob, if_true] at j1 j2 j3 j4 ⊢
        simp only [reduceCtorEq, if_false] at j2 j4 ⊢
        refine ⟨by omega, by omega, by omega, by omega⟩
      · intro hs
        obtain ⟨j1, j2, j3, j4⟩ := i2 hs
        have hos : o.dir = .sell := by rw [hd, hs]
        have := dl.sell_paid hos
        simp only [buyPaid, sellReceived, buyReceived, sellPaid, quoteOf, filledOf, List.zip_cons_cons, List.map_cons,
          List.zipWith_cons_cons, sumInt, hos, if_true] at j1 j2 j3 j4 ⊢
        simp only [reduceCtorEq, if_false] at j1 j2 j3 ⊢
        refine ⟨by omega, by omega, by omega, by omega⟩

theorem flat_length {ts ts' : List Tick} (hr : All2 TickReach ts ts') : (flatOrders ts).length = (flatOrders ts').length := by
  induction ts generalizing ts' with
  | nil => cases ts' with
    | nil => rfl
    | cons _ _ => exact hr.elim
  | cons t ts ih => cases ts' with
    | nil => exact hr.elim
    | cons t' ts' =>
      rw [flatOrders_cons, flatOrders_cons, List.length_append, List.length_append, ih hr.2, all2_length hr.1.2]

/-- one side of the book: the monitor's sums over the flat order list are the lemmas' sums over the ticks -/
theorem ticks_sums (d : Dir) (ts ts' : List Tick) (hok : ∀ t ∈ ts, TickOk d t) (hr : All2 TickReach ts ts') :
    fillCount (flatOrders ts) (flatOrders ts') = ticksFills ts ts' ∧
    (d = .buy → buyPaid (flatOrders ts) (flatOrders ts') = ticksQuote ts ts' ∧ sellReceived (flatOrders ts) (flatOrders ts') = 0 ∧
      buyReceived (flatOrders ts) (flatOrders ts') = ticksFilled ts ts' ∧ sellPaid (flatOrders ts) (flatOrders ts') = 0) ∧
    (d = .sell → buyPaid (flatOrders ts) (flatOrders ts') = 0 ∧ sellReceived (flatOrders ts) (flatOrders ts') = - ticksQuote ts ts' ∧
      buyReceived (flatOrders ts) (flatOrders ts') = 0 ∧ sellPaid (flatOrders ts) (flatOrders ts') = ticksFilled ts ts') := by
  induction ts generalizing ts' with
  | nil =>
    cases ts' with
    | nil => simp [flatOrders, fillCount, buyPaid, sellReceived, buyReceived, sellPaid, ticksFills, ticksQuote, ticksFilled, sumInt]
    | cons _ _ => exact hr.elim
  | cons t ts ih =>
    cases ts' with
    | nil => exact hr.elim
    | cons t' ts' =>
      obtain ⟨i0, i1, i2⟩ := ih ts' (fun x hx => hok x (by simp [hx])) hr.2
      have hl := all2_length hr.1.2
      obtain ⟨s0, s1, s2⟩ := side_sums d t.orders t'.orders (fun o ho => ⟨(hok t (by simp) o ho).1, (hok t (by simp) o ho).2.1⟩) hr.1.2
      rw [flatOrders_cons, flatOrders_cons, ticksFills_cons, ticksQuote_cons, ticksFilled_cons]
      have e0 : fillCount (t.orders ++ flatOrders ts) (t'.orders ++ flatOrders ts') =
          fillCount t.orders t'.orders + fillCount (flatOrders ts) (flatOrders ts') := zsum_append _ _ _ _ _ hl
      have e1 : buyPaid (t.orders ++ flatOrders ts) (t'.orders ++ flatOrders ts') =
          buyPaid t.orders t'.orders + buyPaid (flatOrders ts) (flatOrders ts') := zsum_append _ _ _ _ _ hl
      have e2 : sellReceived (t.orders ++ flatOrders ts) (t'.orders ++ flatOrders ts') =
          sellReceived t.orders t'.orders + sellReceived (flatOrders ts) (flatOrders ts') := zsum_append _ _ _ _ _ hl
      have e3 : buyReceived (t.orders ++ flatOrders ts) (t'.orders ++ flatOrders ts') =
          buyReceived t.orders t'.orders + buyReceived (flatOrders ts) (flatOrders ts') := zsum_append _ _ _ _ _ hl
      have e4 : sellPaid (t.orders ++ flatOrders ts) (t'.orders ++ flatOrders ts') =
          sellPaid t.orders t'.orders + sellPaid (flatOrders ts) (flatOrders ts') := zsum_append _ _ _ _ _ hl
      rw [e0, e1, e2, e3, e4]
      refine ⟨by omega, ?_, ?_⟩
      · intro hb
        obtain ⟨a1, a2, a3, a4⟩ := s1 hb
        obtain ⟨b1, b2, b3, b4⟩ := i1 hb
        refine ⟨by omega, by omega, by omega, by omega⟩
      · intro hs
        obtain ⟨a1, a2, a3, a4⟩ := s2 hs
        obtain ⟨b1, b2, b3, b4⟩ := i2 hs
        refine ⟨by omega, by omega, by omega, by omega⟩

/-- the whole book -/
theorem book_sums (b b' : Book) (hb : BookOk b) (hr : BookReach b b') :
    fillCount b.orders b'.orders = ticksFills b.buys b'.buys + ticksFills b.sells b'.sells ∧
    buyPaid b.orders b'.orders - sellReceived b.orders b'.orders = ticksQuote b.buys b'.buys + ticksQuote b.sells b'.sells ∧
    buyReceived b.orders b'.orders = ticksFilled b.buys b'.buys ∧
    sellPaid b.orders b'.orders = ticksFilled b.sells b'.sells := by
  obtain ⟨x0, x1, _⟩ := ticks_sums .buy b.buys b'.buys hb.1 hr.1
  obtain ⟨y0, _, y2⟩ := ticks_sums .sell b.sells b'.sells hb.2 hr.2
  obtain ⟨a1, a2, a3, a4⟩ := x1 rfl
  obtain ⟨c1, c2, c3, c4⟩ := y2 rfl
  have hl := flat_length hr.1
  have ef : ∀ (bk : Book), bk.orders = flatOrders bk.buys ++ flatOrders bk.sells := fun _ => rfl
  rw [ef b, ef b']
  have e0 : fillCount (flatOrders b.buys ++ flatOrders b.sells) (flatOrders b'.buys ++ flatOrders b'.sells) =
      fillCount (flatOrders b.buys) (flatOrders b'.buys) + fillCount (flatOrders b.sells) (flatOrders b'.sells) :=
    zsum_append _ _ _ _ _ hl
  have e1 : buyPaid (flatOrders b.buys ++ flatOrders b.sells) (flatOrders b'.buys ++ flatOrders b'.sells) =
      buyPaid (flatOrders b.buys) (flatOrders b'.buys) + buyPaid (flatOrders b.sells) (flatOrders b'.sells) :=
    zsum_append _ _ _ _ _ hl
  have e2 : sellReceived (flatOrders b.buys ++ flatOrders b.sells) (flatOrders b'.buys ++ flatOrders b'.sells) =
      sellReceived (flatOrders b.buys) (flatOrders b'.buys) + sellReceived (flatOrders b.sells) (flatOrders b'.sells) :=
    zsum_append _ _ _ _ _ hl
  have e3 : buyReceived (flatOrders b.buys ++ flatOrders b.sells) (flatOrders b'.buys ++ flatOrders b'.sells) =
      buyReceived (flatOrders b.buys) (flatOrders b'.buys) + buyReceived (flatOrders b.sells) (flatOrders b'.sells) :=
    zsum_append _ _ _ _ _ hl
  have e4 : sellPaid (flatOrders b.buys ++ flatOrders b.sells) (flatOrders b'.buys ++ flatOrders b'.sells) =
      sellPaid (flatOrders b.buys) (flatOrders b'.buys) + sellPaid (flatOrders b.sells) (flatOrders b'.sells) :=
    zsum_append _ _ _ _ _ hl
  rw [e0, e1, e2, e3, e4]
  refine ⟨by omega, by omega, by omega, by omega⟩

/-! ## price bounds of a book built by `NewOrderBook` -/

theorem maxList_ge (l : List Int) (x : Int) (h : x ∈ l) : x ≤ maxList l := by
  induction l with
  | nil => simp at h
  | cons y ys ih =>
    unfold maxList
    rcases List.mem_cons.mp h with rfl | h
    · omega
    · have := ih h; omega

theorem minList_le (l : List Int) (x : Int) (h : x ∈ l) : minList l ≤ x := by
  induction l with
  | nil => simp at h
  | cons y ys ih =>
    cases ys with
    | nil => simp at h; subst h; simp [minList]
    | cons z zs =>
      unfold minList
      rcases List.mem_cons.mp h with rfl | h
      · omega
      · have := ih h; omega

theorem insertTick_nonempty (incr : Bool) (o : Order) (ts : List Tick) (h : ∀ t ∈ ts, t.orders ≠ []) :
    ∀ t ∈ insertTick incr o ts, t.orders ≠ [] := by
  induction ts with
  | nil => intro t ht; simp only [insertTick, List.mem_singleton] at ht; subst ht; simp
  | cons t0 ts ih =>
    have h0 := h t0 (by simp)
    have hrest : ∀ t ∈ ts, t.orders ≠ [] := fun t ht => h t (by simp [ht])
    unfold insertTick
    split
    · intro t ht
      rcases List.mem_cons.mp ht with rfl | ht
      · simp
      · exact hrest t ht
    · by_cases hc : (if incr = true then decide (t0.price > o.price) else decide (t0.price < o.price)) = true
      · rw [if_pos hc]
        intro t ht
        rcases List.mem_cons.mp ht with rfl | ht
        · simp
        · exact h t ht
      · rw [if_neg hc]
        intro t ht
        rcases List.mem_cons.mp ht with rfl | ht
        · exact h0
        · exact ih hrest t ht

/-- `NewOrderBook` makes no empty tick -/
theorem newBook_nonempty (os : List Order) :
    (∀ t ∈ (newBook os).buys, t.orders ≠ []) ∧ (∀ t ∈ (newBook os).sells, t.orders ≠ []) := by
  unfold newBook
  have : ∀ (b : Book), ((∀ t ∈ b.buys, t.orders ≠ []) ∧ (∀ t ∈ b.sells, t.orders ≠ [])) →
      ((∀ t ∈ (os.foldl addOrder b).buys, t.orders ≠ []) ∧ (∀ t ∈ (os.foldl addOrder b).sells, t.orders ≠ [])) := by
    induction os with
    | nil => intro b hb; exact hb
    | cons o os ih =>
      intro b hb
      apply ih
      unfold addOrder
      split
      · cases o.dir with
        | buy => exact ⟨insertTick_nonempty false o b.buys hb.1, hb.2⟩
        | sell => exact ⟨hb.1, insertTick_nonempty true o b.sells hb.2⟩
      · exact hb
  exact this _ ⟨by simp, by simp⟩

/-- the tick prices of a well-formed book without empty ticks lie between `priceLo` and `priceHi` of its orders -/
theorem book_price_bounds (b : Book) (hb : BookOk b)
    (hne : (∀ t ∈ b.buys, t.orders ≠ []) ∧ (∀ t ∈ b.sells, t.orders ≠ [])) :
    (∀ t ∈ b.buys, t.price ≤ priceHi b.orders) ∧ (∀ t ∈ b.sells, priceLo b.orders ≤ t.price) := by
  constructor
  · intro t ht
    cases ho : t.orders with
    | nil => exact absurd ho (hne.1 t ht)
    | cons o rest =>
      have hmem : o ∈ t.orders := by rw [ho]; simp
      obtain ⟨_, hd, hpr⟩ := hb.1 t ht o hmem
      rw [← hpr]
      apply maxList_ge
      rw [List.mem_map]
      refine ⟨o, ?_, rfl⟩
      rw [List.mem_filter]
      exact ⟨by unfold Book.orders; exact List.mem_append_left _ (mem_flatten_ticks_of ht hmem), by simp [hd]⟩
  · intro t ht
    cases ho : t.orders with
    | nil => exact absurd ho (hne.2 t ht)
    | cons o rest =>
      have hmem : o ∈ t.orders := by rw [ho]; simp
      obtain ⟨_, hd, hpr⟩ := hb.2 t ht o hmem
      rw [← hpr]
      apply minList_le
      rw [List.mem_map]
      refine ⟨o, ?_, rfl⟩
      rw [List.mem_filter]
      exact ⟨by unfold Book.orders; exact List.mem_append_right _ (mem_flatten_ticks_of ht hmem), by simp [hd]⟩

/-- `DustBound` on the sums of the monitor is the monitor -/
theorem monQuoteDustAt_of (pre post : List Order) (q lo hi : Int)
    (hq : q = buyPaid pre post - sellReceived pre post)
    (h : DustBound lo hi (baseLost pre post) (fillCount pre post) q) (hlo : 0 ≤ lo) :
    monQuoteDustAt pre post q lo hi = true := by
  obtain ⟨a0, a1, a2, a3⟩ := h
  have hP := P_pos
  have hq0 : 0 ≤ q := by
    have h1 : 0 ≤ lo * baseLost pre post := Int.mul_nonneg hlo a1
    have h2 : 0 ≤ q * Dec.P := by omega
    by_contra hneg
    have : q * Dec.P < 0 := Int.mul_neg_of_neg_of_pos (by omega) hP
    omega
  unfold monQuoteDustAt
  simp only [Bool.and_eq_true, beq_iff_eq, decide_eq_true_eq]
  exact ⟨⟨⟨⟨⟨hq, hq0⟩, a1⟩, a0⟩, a2⟩, a3⟩

/-- **the dust clause on every result of `OrderBook.Match`**, in the form the driver evaluates on the real result -/
theorem matchBook_monDust (b : Book) (lp : Int) (hlp : 0 < lp) (hb : BookOk b)
    (hn : (∀ t ∈ b.buys, (t.orders.map (·.id)).Nodup) ∧ (∀ t ∈ b.sells, (t.orders.map (·.id)).Nodup))
    (hne : (∀ t ∈ b.buys, t.orders ≠ []) ∧ (∀ t ∈ b.sells, t.orders ≠ []))
    (b' : Book) (mp q : Int) (h : matchBook b lp = .ok b' mp q) :
    monQuoteDustAt b.orders b'.orders q (priceLo b.orders) (priceHi b.orders) = true := by
  obtain ⟨hhi, hlo⟩ := book_price_bounds b hb hne
  have hd := matchBook_dust (priceLo b.orders) (priceHi b.orders) b lp hlp hb hn hhi hlo b' mp q h
  obtain ⟨hq, _⟩ := matchBook_account b lp hlp hb hn b' mp q h
  rcases matchBook_ok b lp hlp hb with h0 | ⟨b2, mp2, q2, h2, hr⟩
  · rw [h0] at h; cases h
  · rw [h2] at h; cases h
    obtain ⟨s0, s1, s2, s3⟩ := book_sums b b' hb hr
    apply monQuoteDustAt_of
    · rw [s1]; exact hq
    · unfold baseLost; rw [s0, s2, s3]; exact hd
    · -- priceLo ≥ 0: a minimum of positive prices (or 0)
      unfold priceLo
      have : ∀ (l : List Int), (∀ x ∈ l, 0 ≤ x) → 0 ≤ minList l := by
        intro l
        induction l with
        | nil => intro _; simp [minList]
        | cons y ys ih =>
          intro hl
          cases ys with
          | nil => simp [minList]; exact hl y (by simp)
          | cons z zs =>
            unfold minList
            have := ih (fun x hx => hl x (by simp [hx]))
            have := hl y (by simp)
            omega
      apply this
      intro x hx
      rw [List.mem_map] at hx
      obtain ⟨o, ho, rfl⟩ := hx
      have ho' := (List.mem_filter.mp ho).1
      unfold Book.orders at ho'
      rcases List.mem_append.mp ho' with hm | hm
      · obtain ⟨t, ht, hot⟩ := mem_flatten_ticks hm
        have := (hb.1 t ht o hot).1.price_pos; omega
      · obtain ⟨t, ht, hot⟩ := mem_flatten_ticks hm
        have := (hb.2 t ht o hot).1.price_pos; omega

/-- the same for `MatchAtSinglePrice` (`lo = hi = p`: exact in the price) -/
theorem matchAtSinglePrice_monDust (b : Book) (p : Int) (hp : 0 < p) (hb : BookOk b)
    (hnd : (∀ t ∈ b.buys, t.orders.Nodup) ∧ (∀ t ∈ b.sells, t.orders.Nodup))
    (b' : Book) (q : Int) (h : matchAtSinglePrice b p = .ok b' q) :
    monQuoteDustAt b.orders b'.orders q p p = true := by
  have hd := matchAtSinglePrice_dust b p hp hb hnd b' q h
  obtain ⟨x, _, _, hq, _⟩ := matchAtSinglePrice_account b p hp hb hnd b' q h
  rcases matchAtSinglePrice_ok b p hp hb with h0 | ⟨b2, q2, h2, hr⟩
  · rw [h0] at h; cases h
  · rw [h2] at h; cases h
    obtain ⟨s0, s1, s2, s3⟩ := book_sums b b' hb hr
    apply monQuoteDustAt_of
    · rw [s1]; exact hq
    · unfold baseLost; rw [s0, s2, s3]; exact hd
    · omega

end Comdex.Amm
