import Comdex.Lemmas.AmmMatchAccount
import Comdex.Lemmas.LiqDeficit
/-!
Bridge between C05's executable model of the matching engine (`Comdex.Amm`, `Model/AmmMatch.lean`) and the liquidity
ledger (`Comdex.LiqLedger`): the ledger input (`MatchIn`: per-order fills, per-pool flows, dust) of a match computed by
the MODELLED matcher on any well-formed book, and what C05 proves about it in the ledger's terms:

* quote side: exactly conserved — buyers' payments = sellers' receipts + the returned `quoteCoinDiff` (the dust);
* base side: buyers receive exactly what the sellers pay **plus** `lostBase` = the remainder dropped by the re-runs of the
  pro-rata distribution (defect D2), which is 0 whenever C05's decidable ghost `matchLossless` holds.
-/
namespace Comdex.LiqBridge
open Comdex Comdex.Amm

abbrev OP := Amm.Order × Amm.Order

/-- orders of the book before / after matching, position by position -/
def tickPairs : List Tick → List Tick → List OP
  | t :: ts, t' :: ts' => List.zip t.orders t'.orders ++ tickPairs ts ts'
  | _, _ => []

def bookPairs (b b' : Book) : List OP := tickPairs b.buys b'.buys ++ tickPairs b.sells b'.sells

def dPaid (x : OP) : Nat := (x.2.paid - x.1.paid).toNat
def dRecv (x : OP) : Nat := (x.2.received - x.1.received).toNat
def dOpn (x : OP) : Nat := (x.1.opn - x.2.opn).toNat
def isBuy (x : OP) : Bool := decide (x.1.dir = Dir.buy)

def toFill (x : OP) : LiqLedger.Fill := { id := x.1.oid, buy := isBuy x, paid := dPaid x, recv := dRecv x, matched := dOpn x }
def toFlow (x : OP) : LiqLedger.PoolFlow := { pool := x.1.oid, buy := isBuy x, paid := dPaid x, recv := dRecv x }

/-- the ledger input of a modelled match: one fill per changed user order, one flow per changed pool order, the returned
quote difference as dust -/
def matchInOf (pair : Nat) (b b' : Book) (q : Int) : LiqLedger.MatchIn :=
  let ps := (bookPairs b b').filter fun x => decide (x.1 ≠ x.2)
  { pair := pair, fills := (ps.filter fun x => x.1.kind != 1).map toFill,
    pools := (ps.filter fun x => x.1.kind == 1).map toFlow, dust := q.toNat }

/-- the remainder dropped on the sell side (D2): base coin received by buyers − base coin paid by sellers -/
def lostBase (b b' : Book) : Int := ticksFilled b.buys b'.buys - ticksFilled b.sells b'.sells

open Comdex.LiqLedger (sumOver)

theorem sumOver_filter_map {α β : Type} (F : β → Nat) (c : α → Bool) (h : α → β) (l : List α) :
    sumOver F ((l.filter c).map h) = sumOver (fun x => if c x then F (h x) else 0) l := by
  induction l with
  | nil => rfl
  | cons x t ih => by_cases hx : c x = true <;> simp [List.filter, hx, sumOver, ih]

theorem sumOver_add {α : Type} (F G : α → Nat) (l : List α) :
    sumOver F l + sumOver G l = sumOver (fun x => F x + G x) l := by
  induction l with
  | nil => rfl
  | cons x t ih => simp only [sumOver]; omega

/-- sum over the fills and the pool flows of `matchInOf` = sum over all order pairs -/
theorem split_sum (G : OP → Nat) (hG : ∀ x : OP, x.1 = x.2 → G x = 0) (l : List OP) :
    sumOver G (((l.filter fun x => decide (x.1 ≠ x.2)).filter fun x => x.1.kind == 1)) +
    sumOver G (((l.filter fun x => decide (x.1 ≠ x.2)).filter fun x => x.1.kind != 1)) = sumOver G l := by
  induction l with
  | nil => rfl
  | cons x t ih =>
    by_cases hx : x.1 = x.2
    · have : decide (x.1 ≠ x.2) = false := by simp [hx]
      simp only [List.filter, this, sumOver, hG x hx]
      omega
    · have : decide (x.1 ≠ x.2) = true := by simp [hx]
      by_cases hk : x.1.kind = 1
      · have k1 : (x.1.kind == 1) = true := by simp [hk]
        have k2 : (x.1.kind != 1) = false := by simp [hk]
        simp only [List.filter, this, k1, k2, sumOver]; omega
      · have k1 : (x.1.kind == 1) = false := by simp [hk]
        have k2 : (x.1.kind != 1) = true := by simp [hk]
        simp only [List.filter, this, k1, k2, sumOver]; omega

/-! ### one tick -/

def gA (x : OP) : Nat := if isBuy x then dPaid x else 0     -- quote paid in
def gB (x : OP) : Nat := if isBuy x then 0 else dRecv x     -- quote handed out (without dust)
def gC (x : OP) : Nat := if isBuy x then dRecv x else 0     -- base handed out
def gD (x : OP) : Nat := if isBuy x then 0 else dPaid x     -- base paid in

theorem g_unchanged (x : OP) (h : x.1 = x.2) : gA x = 0 ∧ gB x = 0 ∧ gC x = 0 ∧ gD x = 0 := by
  simp [gA, gB, gC, gD, dPaid, dRecv, h]

theorem zip_side (d : Dir) : ∀ (os os' : List Amm.Order), All2 Reach os os' → (∀ o ∈ os, Wf o ∧ o.dir = d) →
    ((sumOver gA (List.zip os os') : Nat) : Int) - sumOver gB (List.zip os os') = quoteOf os os' ∧
    (match d with
     | .buy => ((sumOver gC (List.zip os os') : Nat) : Int) = filledOf os os' ∧ sumOver gD (List.zip os os') = 0
     | .sell => ((sumOver gD (List.zip os os') : Nat) : Int) = filledOf os os' ∧ sumOver gC (List.zip os os') = 0) := by
  intro os
  induction os with
  | nil =>
    intro os' h _
    cases os' with
    | nil => cases d <;> simp [sumOver, quoteOf, filledOf, sumInt]
    | cons _ _ => exact h.elim
  | cons o t ih =>
    intro os' h hw
    cases os' with
    | nil => exact h.elim
    | cons o' t' =>
      obtain ⟨hr, ht⟩ := h
      obtain ⟨how, hod⟩ := hw o (by simp)
      have dl := reach_delta hr how
      obtain ⟨i1, i2⟩ := ih t' ht (fun x hx => hw x (by simp [hx]))
      have p1 := dl.paid_ge
      have p2 := dl.recv_ge
      have p3 := dl.opn_le
      simp only [List.zip_cons_cons, sumOver, quoteOf, filledOf, List.zipWith_cons_cons, sumInt] at *
      cases d with
      | buy =>
        have hb : isBuy (o, o') = true := by simp [isBuy, hod]
        have hbr := dl.buy_recv hod
        simp only [hod, if_true] at *
        simp only [gA, gB, gC, gD, hb, if_true, dPaid, dRecv] at *
        refine ⟨?_, ?_, ?_⟩
        · push_cast; rw [Int.toNat_of_nonneg (by omega)]; omega
        · push_cast; rw [Int.toNat_of_nonneg (by omega)]; omega
        · simpa using i2.2
      | sell =>
        have hb : isBuy (o, o') = false := by simp [isBuy, hod]
        have hsp := dl.sell_paid hod
        have hne : ¬ (o.dir = Dir.buy) := by rw [hod]; decide
        simp only [hne, if_false] at *
        simp only [gA, gB, gC, gD, hb, dPaid, dRecv] at *
        refine ⟨?_, ?_, ?_⟩
        · push_cast; rw [Int.toNat_of_nonneg (by omega)]; omega
        · push_cast; rw [Int.toNat_of_nonneg (by omega)]; omega
        · simpa using i2.2

theorem sumOver_append' {α : Type} (F : α → Nat) (l m : List α) : sumOver F (l ++ m) = sumOver F l + sumOver F m :=
  LiqLedger.sumOver_append F l m

/-! ### one side of the book -/

theorem ticks_side (d : Dir) : ∀ (ts ts' : List Tick), All2 TickReach ts ts' → (∀ t ∈ ts, TickOk d t) →
    ((sumOver gA (tickPairs ts ts') : Nat) : Int) - sumOver gB (tickPairs ts ts') = ticksQuote ts ts' ∧
    (match d with
     | .buy => ((sumOver gC (tickPairs ts ts') : Nat) : Int) = ticksFilled ts ts' ∧ sumOver gD (tickPairs ts ts') = 0
     | .sell => ((sumOver gD (tickPairs ts ts') : Nat) : Int) = ticksFilled ts ts' ∧ sumOver gC (tickPairs ts ts') = 0) := by
  intro ts
  induction ts with
  | nil =>
    intro ts' h _
    cases ts' with
    | nil => cases d <;> simp [tickPairs, sumOver, ticksQuote, ticksFilled, sumInt]
    | cons _ _ => exact h.elim
  | cons t ts ih =>
    intro ts' h hok
    cases ts' with
    | nil => exact h.elim
    | cons t' ts' =>
      obtain ⟨hr, ht⟩ := h
      obtain ⟨i1, i2⟩ := ih ts' ht (fun x hx => hok x (by simp [hx]))
      have hto := hok t (by simp)
      obtain ⟨z1, z2⟩ := zip_side d t.orders t'.orders hr.2 (fun o ho => ⟨(hto o ho).1, (hto o ho).2.1⟩)
      simp only [tickPairs, sumOver_append', ticksQuote_cons, ticksFilled_cons]
      cases d with
      | buy =>
        simp only at i2 z2 ⊢
        refine ⟨by push_cast; omega, by push_cast; omega, by omega⟩
      | sell =>
        simp only at i2 z2 ⊢
        refine ⟨by push_cast; omega, by push_cast; omega, by omega⟩

/-! ### the whole book -/

structure BookSums (b b' : Book) (q : Int) : Prop where
  quote : ((sumOver gA (bookPairs b b') : Nat) : Int) - sumOver gB (bookPairs b b') = q
  baseOut : ((sumOver gC (bookPairs b b') : Nat) : Int) = ticksFilled b.buys b'.buys
  baseIn : ((sumOver gD (bookPairs b b') : Nat) : Int) = ticksFilled b.sells b'.sells

theorem book_sums (b : Book) (lp : Int) (hlp : 0 < lp) (hb : BookOk b)
    (hn : (∀ t ∈ b.buys, (t.orders.map (·.id)).Nodup) ∧ (∀ t ∈ b.sells, (t.orders.map (·.id)).Nodup))
    (b' : Book) (mp q : Int) (h : matchBook b lp = .ok b' mp q) : BookSums b b' q := by
  have hacc := (matchBook_account b lp hlp hb hn b' mp q h).1
  have hreach : BookReach b b' := by
    rcases matchBook_ok b lp hlp hb with h0 | ⟨b2, mp2, q2, h2, r⟩
    · rw [h0] at h; cases h
    · rw [h2] at h; cases h; exact r
  obtain ⟨x1, x2⟩ := ticks_side .buy b.buys b'.buys hreach.1 hb.1
  obtain ⟨y1, y2⟩ := ticks_side .sell b.sells b'.sells hreach.2 hb.2
  simp only at x2 y2
  refine ⟨?_, ?_, ?_⟩ <;> simp only [bookPairs, sumOver_append'] <;> push_cast <;> omega

/-! ### the ledger's sums of `matchInOf` -/

theorem inQ_matchInOf (pair : Nat) (b b' : Book) (q : Int) :
    LiqLedger.inQ (matchInOf pair b b' q) = sumOver gA (bookPairs b b') := by
  unfold LiqLedger.inQ matchInOf
  have := split_sum gA (fun x hx => (g_unchanged x hx).1) (bookPairs b b')
  rw [← this]
  have c : ∀ l : List OP, sumOver (fun f : LiqLedger.Fill => if f.buy = true then f.paid else 0) (l.map toFill) = sumOver gA l := by
    intro l; induction l with
    | nil => rfl
    | cons x t ih => simp only [List.map, sumOver, ih]; rfl
  have c2 : ∀ l : List OP, sumOver (fun f : LiqLedger.PoolFlow => if f.buy = true then f.paid else 0) (l.map toFlow) = sumOver gA l := by
    intro l; induction l with
    | nil => rfl
    | cons x t ih => simp only [List.map, sumOver, ih]; rfl
  simp only [c, c2]

theorem outQ_matchInOf (pair : Nat) (b b' : Book) (q : Int) :
    LiqLedger.outQ (matchInOf pair b b' q) = sumOver gB (bookPairs b b') + q.toNat := by
  unfold LiqLedger.outQ matchInOf
  have := split_sum gB (fun x hx => (g_unchanged x hx).2.1) (bookPairs b b')
  rw [← this]
  have c : ∀ l : List OP, sumOver (fun f : LiqLedger.Fill => if f.buy = true then 0 else f.recv) (l.map toFill) = sumOver gB l := by
    intro l; induction l with
    | nil => rfl
    | cons x t ih => simp only [List.map, sumOver, ih]; rfl
  have c2 : ∀ l : List OP, sumOver (fun f : LiqLedger.PoolFlow => if f.buy = true then 0 else f.recv) (l.map toFlow) = sumOver gB l := by
    intro l; induction l with
    | nil => rfl
    | cons x t ih => simp only [List.map, sumOver, ih]; rfl
  simp only [c, c2]; omega

theorem outB_matchInOf (pair : Nat) (b b' : Book) (q : Int) :
    LiqLedger.outB (matchInOf pair b b' q) = sumOver gC (bookPairs b b') := by
  unfold LiqLedger.outB matchInOf
  have := split_sum gC (fun x hx => (g_unchanged x hx).2.2.1) (bookPairs b b')
  rw [← this]
  have c : ∀ l : List OP, sumOver (fun f : LiqLedger.Fill => if f.buy = true then f.recv else 0) (l.map toFill) = sumOver gC l := by
    intro l; induction l with
    | nil => rfl
    | cons x t ih => simp only [List.map, sumOver, ih]; rfl
  have c2 : ∀ l : List OP, sumOver (fun f : LiqLedger.PoolFlow => if f.buy = true then f.recv else 0) (l.map toFlow) = sumOver gC l := by
    intro l; induction l with
    | nil => rfl
    | cons x t ih => simp only [List.map, sumOver, ih]; rfl
  simp only [c, c2]; omega

theorem inB_matchInOf (pair : Nat) (b b' : Book) (q : Int) :
    LiqLedger.inB (matchInOf pair b b' q) = sumOver gD (bookPairs b b') := by
  unfold LiqLedger.inB matchInOf
  have := split_sum gD (fun x hx => (g_unchanged x hx).2.2.2) (bookPairs b b')
  rw [← this]
  have c : ∀ l : List OP, sumOver (fun f : LiqLedger.Fill => if f.buy = true then 0 else f.paid) (l.map toFill) = sumOver gD l := by
    intro l; induction l with
    | nil => rfl
    | cons x t ih => simp only [List.map, sumOver, ih]; rfl
  have c2 : ∀ l : List OP, sumOver (fun f : LiqLedger.PoolFlow => if f.buy = true then 0 else f.paid) (l.map toFlow) = sumOver gD l := by
    intro l; induction l with
    | nil => rfl
    | cons x t ih => simp only [List.map, sumOver, ih]; rfl
  simp only [c, c2]


/-! ### what C05 proves, in the ledger's terms -/

/-- hypotheses under which C05's accounting theorems apply: a book of well-formed orders with distinct ids per tick, a
positive last price, and a successful run of the modelled `OrderBook.Match` -/
structure ModelledRun (b : Book) (lp : Int) (b' : Book) (mp q : Int) : Prop where
  ok : BookOk b
  ids : (∀ t ∈ b.buys, (t.orders.map (·.id)).Nodup) ∧ (∀ t ∈ b.sells, (t.orders.map (·.id)).Nodup)
  lp_pos : 0 < lp
  run : matchBook b lp = .ok b' mp q

/-- **quote side, exact**: buyers' payments − sellers' receipts = the returned quote difference; with a non-negative
difference (the code sends it to the dust collector as a coin) the ledger's quote flows balance exactly -/
theorem modelled_quote_exact {b b' : Book} {lp mp q : Int} (h : ModelledRun b lp b' mp q) (pair : Nat) :
    ((LiqLedger.inQ (matchInOf pair b b' q) : Nat) : Int) + q.toNat = LiqLedger.outQ (matchInOf pair b b' q) + q ∧
    (0 ≤ q → LiqLedger.outQ (matchInOf pair b b' q) = LiqLedger.inQ (matchInOf pair b b' q)) := by
  have bs := book_sums b lp h.lp_pos h.ok h.ids b' mp q h.run
  rw [inQ_matchInOf, outQ_matchInOf]
  have := bs.quote
  refine ⟨by push_cast; omega, fun hq => ?_⟩
  have : ((q.toNat : Nat) : Int) = q := Int.toNat_of_nonneg hq
  omega

/-- **base side with the D2 offset made explicit**: base handed to buyers = base paid by sellers + `lostBase` -/
theorem modelled_base_offset {b b' : Book} {lp mp q : Int} (h : ModelledRun b lp b' mp q) (pair : Nat) :
    ((LiqLedger.outB (matchInOf pair b b' q) : Nat) : Int) = LiqLedger.inB (matchInOf pair b b' q) + lostBase b b' ∧
    (matchLossless b lp = true → LiqLedger.outB (matchInOf pair b b' q) = LiqLedger.inB (matchInOf pair b b' q)) := by
  have bs := book_sums b lp h.lp_pos h.ok h.ids b' mp q h.run
  rw [outB_matchInOf, inB_matchInOf]
  unfold lostBase
  refine ⟨by rw [bs.baseOut, bs.baseIn]; omega, fun hl => ?_⟩
  have := (matchBook_account b lp h.lp_pos h.ok h.ids b' mp q h.run).2 hl
  have e1 := bs.baseOut
  have e2 := bs.baseIn
  omega

/-- a lossless modelled match with non-negative dust satisfies the ledger's conservation law -/
theorem modelled_conserving {b b' : Book} {lp mp q : Int} (h : ModelledRun b lp b' mp q) (hq : 0 ≤ q)
    (hl : matchLossless b lp = true) (pair : Nat) : LiqLedger.MatchConserving (matchInOf pair b b' q) := by
  have a := (modelled_quote_exact h pair).2 hq
  have c := (modelled_base_offset h pair).2 hl
  exact ⟨Nat.le_of_eq a, Nat.le_of_eq c⟩

/-- the deficits of a modelled match: none on the quote side; exactly the dropped remainder on the base side -/
theorem modelled_deficit {b b' : Book} {lp mp q : Int} (h : ModelledRun b lp b' mp q) (hq : 0 ≤ q) (pair : Nat) :
    LiqLedger.defQ (matchInOf pair b b' q) = 0 ∧ LiqLedger.defB (matchInOf pair b b' q) = (lostBase b b').toNat := by
  have a := (modelled_quote_exact h pair).2 hq
  have c := (modelled_base_offset h pair).1
  unfold LiqLedger.defQ LiqLedger.defB
  refine ⟨by omega, ?_⟩
  omega

end Comdex.LiqBridge
