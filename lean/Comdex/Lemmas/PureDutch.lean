import Comdex.Lemmas.GoSem
import Comdex.Model.DutchPrice
/-!
`GoSem.M` → `Except Unit`: the Dutch price model (`Model/DutchPrice.lean`) has a single failure ("the step panics,
`ApplyFuncIfNoError` writes nothing"), so the panic class of the translation is forgotten.  `forget` is a monad
morphism; the image of every primitive the price functions use is given.  Used by `Props/C10Pure.lean`.
-/
namespace Comdex.PureDutch
open Comdex Comdex.GoSem

def forget {α : Type} : M α → Except Unit α
  | .ok a => .ok a
  | .error _ => .error ()

theorem forget_bind {α β : Type} (x : M α) (f : α → M β) :
    forget (x >>= f) = forget x >>= fun a => forget (f a) := by
  cases x <;> rfl
theorem forget_pure {α : Type} (a : α) : forget (pure a : M α) = pure a := rfl
theorem forget_ok {α : Type} (a : α) : forget (Except.ok a : M α) = pure a := rfl

theorem forget_chkDec (x : Dec) : forget (chkDec x) = DutchPrice.chk x := by
  unfold chkDec DutchPrice.chk; split <;> rfl
theorem forget_decMul (a b : Dec) : forget (decMul a b) = DutchPrice.chk (Dec.mul a b) := forget_chkDec _
theorem forget_decQuo (a b : Dec) :
    forget (decQuo a b) = if b = 0 then .error () else DutchPrice.chk (Dec.quo a b) := by
  unfold decQuo; split
  · rfl
  · exact forget_chkDec _
theorem forget_intInt64 (a : Int) : forget (intInt64 a) = if DutchPrice.fitsI64 a then pure a else .error () := by
  unfold intInt64
  change forget (if DutchPrice.fitsI64 a = true then _ else _) = _
  split <;> rfl
theorem forget_intSub (a b : Int) : forget (intSub a b) = if Dec.fitsInt (a - b) then pure (a - b) else .error () := by
  unfold intSub chkInt; split <;> rfl

/-- with a one-point error type a computation that ends in an error is that error -/
theorem bind_error_unit {α β : Type} (x : Except Unit α) : (x >>= fun _ => (Except.error () : Except Unit β)) = .error () := by
  cases x <;> rfl

theorem error_bind_unit {α β : Type} (f : α → Except Unit β) : ((Except.error () : Except Unit α) >>= f) = .error () := rfl

theorem fitsInt_of_fitsI64 {x : Int} (h : DutchPrice.fitsI64 x = true) : Dec.fitsInt x = true := by
  unfold DutchPrice.fitsI64 at h
  unfold Dec.fitsInt
  simp only [Bool.and_eq_true, decide_eq_true_eq] at h ⊢
  omega

theorem decNew_eq_zero (i : Int) : decNew i = 0 ↔ i = 0 := by
  show i * 1000000000000000000 = 0 ↔ i = 0
  omega

end Comdex.PureDutch
