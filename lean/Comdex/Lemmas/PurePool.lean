import Comdex.Lemmas.GoSem
import Comdex.Model.Pool
/-!
The monad of `Model/Pool.lean` (`Pool.M = Except Pool.Fail`) embeds into `GoSem.M`; every checked primitive of the
model is the image of the `GoSem` primitive of the same Go method.  Used by `Props/C06Pure.lean`.
-/
namespace Comdex.PurePool
open Comdex Comdex.GoSem

/-- `Pool.Fail` ↦ `GoSem.Fail`, constructor by constructor -/
def lift {α : Type} : Pool.M α → M α
  | .ok a => .ok a
  | .error .overflow => .error .overflow
  | .error .panic => .error .panic

theorem lift_bind {α β : Type} (x : Pool.M α) (f : α → Pool.M β) :
    lift (x >>= f) = lift x >>= fun a => lift (f a) := by
  cases x with
  | ok a => rfl
  | error e => cases e <;> rfl

theorem lift_pure {α : Type} (a : α) : lift (pure a : Pool.M α) = pure a := rfl
theorem lift_ite {α : Type} (c : Prop) [Decidable c] (a b : Pool.M α) :
    lift (if c then a else b) = if c then lift a else lift b := by
  split <;> rfl

theorem lift_chk (x : Dec) : lift (Pool.chk x) = chkDec x := by
  unfold Pool.chk chkDec; split <;> rfl
theorem lift_chkInt (x : Int) : lift (Pool.chkInt x) = chkInt x := by
  unfold Pool.chkInt chkInt; split <;> rfl
theorem lift_add (a b : Dec) : lift (Pool.add a b) = decAdd a b := lift_chk _
theorem lift_sub (a b : Dec) : lift (Pool.sub a b) = decSub a b := lift_chk _
theorem lift_mul (a b : Dec) : lift (Pool.mul a b) = decMul a b := lift_chk _
theorem lift_mulTruncate (a b : Dec) : lift (Pool.mulTruncate a b) = decMulTruncate a b := lift_chk _
theorem lift_quo (a b : Dec) : lift (Pool.quo a b) = decQuo a b := by
  unfold Pool.quo decQuo; split
  · rfl
  · exact lift_chk _
theorem lift_quoTruncate (a b : Dec) : lift (Pool.quoTruncate a b) = decQuoTruncate a b := by
  unfold Pool.quoTruncate decQuoTruncate; split
  · rfl
  · exact lift_chk _
theorem lift_truncateInt (a : Dec) : lift (Pool.truncateInt a) = decTruncateInt a := lift_chkInt _

/-- the model's rendering of `SafeMath`: overflow ↦ the zero result, other panics ↦ `none` -/
def handle {α : Type} (c : Pool.M α) (z : α) : Option α :=
  match c with
  | .ok r => some r
  | .error .overflow => some z
  | .error .panic => none

theorem ofOption_handle {α : Type} (c : Pool.M α) (z : α) :
    ofOption (handle c z) = safeMath (lift c) (pure z) := by
  cases c with
  | ok a => rfl
  | error e => cases e <;> rfl

theorem withdraw_eq_handle (rx ry ps pc : Int) (fee : Dec) :
    Pool.withdraw rx ry ps pc fee
      = if pc = ps then some (rx, ry) else handle (Pool.withdrawCore rx ry ps pc fee) (0, 0) := by
  unfold Pool.withdraw handle
  split
  · rfl
  · cases Pool.withdrawCore rx ry ps pc fee with
    | ok a => rfl
    | error e => cases e <;> rfl

theorem deposit_eq_handle (rx ry ps x y : Int) :
    Pool.deposit rx ry ps x y = handle (Pool.depositCore rx ry ps x y) (0, 0, 0) := by
  unfold Pool.deposit handle
  cases Pool.depositCore rx ry ps x y with
  | ok a => rfl
  | error e => cases e <;> rfl

end Comdex.PurePool
