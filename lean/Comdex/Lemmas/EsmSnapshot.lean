import Comdex.Model.EsmSnapshot
/-! Lemmas about the ESM price snapshot model: what one walk of `SnapshotOfPrices` can add, that entries persist, and when
the walk reaches its end. All by induction over the asset list. -/
namespace Comdex.EsmSnapshot

theorem lookup_append_single (es : Entries) (k v a : Nat) :
    lookup (es ++ [(k, v)]) a =
      match lookup es a with
      | some p => some p
      | none => if k = a then some v else none := by
  induction es with
  | nil => simp [lookup]
  | cons e r ih =>
    obtain ⟨k', v'⟩ := e
    simp only [List.cons_append, lookup]
    by_cases h : k' = a
    · simp [h]
    · simp [h, ih]

theorem lookup_mem {es : Entries} {a p : Nat} (h : lookup es a = some p) : (a, p) ∈ es := by
  induction es with
  | nil => simp [lookup] at h
  | cons e r ih =>
    obtain ⟨k', v'⟩ := e
    simp only [lookup] at h
    by_cases hk : k' = a
    · simp only [hk, if_true, Option.some.injEq] at h
      simp [hk, h]
    · simp only [hk, if_false] at h
      exact List.mem_cons_of_mem _ (ih h)

theorem lookup_none_not_mem {es : Entries} {a : Nat} (h : lookup es a = none) (p : Nat) : (a, p) ∉ es := by
  induction es with
  | nil => simp
  | cons e r ih =>
    obtain ⟨k', v'⟩ := e
    simp only [lookup] at h
    by_cases hk : k' = a
    · simp [hk] at h
    · simp only [hk, if_false] at h
      intro hm
      rcases List.mem_cons.mp hm with heq | hr
      · exact hk (by simp only [Prod.mk.injEq] at heq; exact heq.1.symm)
      · exact ih h hr

theorem mem_lookup_isSome {es : Entries} {a p : Nat} (h : (a, p) ∈ es) : (lookup es a).isSome = true := by
  cases hl : lookup es a with
  | some q => rfl
  | none => exact absurd h (lookup_none_not_mem hl p)

/-- the entries after writing the asset of an active feed (if it has none yet) -/
def put (es : Entries) (f : Feed) : Entries := if (lookup es f.asset).isNone then es ++ [(f.asset, f.twa)] else es

theorem walk_cons (f : Feed) (fs : List Feed) (es : Entries) :
    walk (f :: fs) es = if f.found = false then walk fs es else if f.active = true then walk fs (put es f) else (es, false) := by
  cases hf : f.found <;> cases ha : f.active <;> simp [walk, put, hf, ha]

theorem put_mem {es : Entries} {f : Feed} {a p : Nat} (h : (a, p) ∈ put es f) : (a, p) ∈ es ∨ (f.asset = a ∧ f.twa = p) := by
  unfold put at h
  split at h
  · rcases List.mem_append.mp h with h | h
    · exact Or.inl h
    · simp only [List.mem_singleton, Prod.mk.injEq] at h
      exact Or.inr ⟨h.1.symm, h.2.symm⟩
  · exact Or.inl h

theorem put_lookup_stable {es : Entries} {f : Feed} {a p : Nat} (h : lookup es a = some p) : lookup (put es f) a = some p := by
  unfold put
  split
  · rw [lookup_append_single, h]
  · exact h

theorem put_lookup_self (es : Entries) (f : Feed) : (lookup (put es f) f.asset).isSome = true := by
  unfold put
  cases hl : lookup es f.asset with
  | none => simp [lookup_append_single, hl]
  | some q => simp [hl]

/-- whatever a walk leaves in the snapshot was there before or is the TWA of a found, ACTIVE feed of this block -/
theorem walk_mem (fs : List Feed) (es : Entries) (a p : Nat) (h : (a, p) ∈ (walk fs es).1) :
    (a, p) ∈ es ∨ ∃ f ∈ fs, f.asset = a ∧ f.found = true ∧ f.active = true ∧ f.twa = p := by
  induction fs generalizing es with
  | nil => exact Or.inl h
  | cons f fs ih =>
    rw [walk_cons] at h
    by_cases hf : f.found = false
    · simp only [hf, if_true] at h
      rcases ih es h with h | ⟨g, hg, hh⟩
      · exact Or.inl h
      · exact Or.inr ⟨g, List.mem_cons_of_mem _ hg, hh⟩
    · simp only [hf] at h
      have hf' : f.found = true := by cases hx : f.found <;> simp_all
      by_cases ha : f.active = true
      · simp only [ha, if_true] at h
        rcases ih (put es f) h with h | ⟨g, hg, hh⟩
        · rcases put_mem h with h | ⟨h1, h2⟩
          · exact Or.inl h
          · exact Or.inr ⟨f, List.mem_cons_self, h1, hf', ha, h2⟩
        · exact Or.inr ⟨g, List.mem_cons_of_mem _ hg, hh⟩
      · simp only [ha] at h
        exact Or.inl h

/-- an entry, once written, is never changed by a walk -/
theorem walk_lookup_stable (fs : List Feed) (es : Entries) (a p : Nat) (h : lookup es a = some p) :
    lookup (walk fs es).1 a = some p := by
  induction fs generalizing es with
  | nil => exact h
  | cons f fs ih =>
    rw [walk_cons]
    by_cases hf : f.found = false
    · simp only [hf, if_true]; exact ih es h
    · simp only [hf]
      by_cases ha : f.active = true
      · simp only [ha, if_true]; exact ih _ (put_lookup_stable h)
      · simp only [ha]; exact h

theorem walk_isSome_stable (fs : List Feed) (es : Entries) (a : Nat) (h : (lookup es a).isSome = true) :
    (lookup (walk fs es).1 a).isSome = true := by
  cases hl : lookup es a with
  | none => simp [hl] at h
  | some p => simp [walk_lookup_stable fs es a p hl]

/-- a walk reaches its end only when no found feed is inactive; then every found feed has an entry -/
theorem walk_done (fs : List Feed) (es : Entries) (h : (walk fs es).2 = true) :
    ∀ f ∈ fs, f.found = true → f.active = true ∧ (lookup (walk fs es).1 f.asset).isSome = true := by
  induction fs generalizing es with
  | nil => intro f hf; simp at hf
  | cons g fs ih =>
    rw [walk_cons] at h ⊢
    by_cases hg : g.found = false
    · simp only [hg, if_true] at h ⊢
      intro f hf hfound
      rcases List.mem_cons.mp hf with rfl | hf
      · simp [hg] at hfound
      · exact ih es h f hf hfound
    · simp only [hg] at h ⊢
      by_cases ha : g.active = true
      · simp only [ha, if_true] at h ⊢
        intro f hf hfound
        rcases List.mem_cons.mp hf with rfl | hf
        · exact ⟨ha, walk_isSome_stable fs _ _ (put_lookup_self es f)⟩
        · exact ih _ h f hf hfound
      · simp only [ha] at h
        exact absurd h (by simp)

theorem walk_inactive (fs : List Feed) (es : Entries) (h : ∃ f ∈ fs, f.found = true ∧ f.active = false) :
    (walk fs es).2 = false := by
  obtain ⟨f, hf, hfound, hina⟩ := h
  cases hw : (walk fs es).2 with
  | false => rfl
  | true => have := (walk_done fs es hw f hf hfound).1; simp [hina] at this

/-! ## one block, all blocks -/

theorem step_mem (st : St) (fs : List Feed) (a p : Nat) (h : (a, p) ∈ (snapshotStep st fs).entries) :
    (a, p) ∈ st.entries ∨ ∃ f ∈ fs, f.asset = a ∧ f.found = true ∧ f.active = true ∧ f.twa = p := by
  unfold snapshotStep at h
  split at h
  · exact Or.inl h
  · exact walk_mem fs st.entries a p h

theorem step_lookup_stable (st : St) (fs : List Feed) (a p : Nat) (h : lookup st.entries a = some p) :
    lookup (snapshotStep st fs).entries a = some p := by
  unfold snapshotStep
  split
  · exact h
  · exact walk_lookup_stable fs st.entries a p h

theorem step_status_stable (st : St) (fs : List Feed) (h : st.status = true) : snapshotStep st fs = st := by
  simp [snapshotStep, h]

theorem run_lookup_stable (blocks : List (List Feed)) (st : St) (a p : Nat) (h : lookup st.entries a = some p) :
    lookup (run st blocks).entries a = some p := by
  induction blocks generalizing st with
  | nil => exact h
  | cons fs bs ih => exact ih _ (step_lookup_stable st fs a p h)

theorem run_status_stable (blocks : List (List Feed)) (st : St) (h : st.status = true) : run st blocks = st := by
  induction blocks generalizing st with
  | nil => rfl
  | cons fs bs ih =>
    show run (snapshotStep st fs) bs = st
    rw [step_status_stable st fs h]; exact ih st h

theorem run_mem (blocks : List (List Feed)) (st : St) (a p : Nat) (h : (a, p) ∈ (run st blocks).entries) :
    (a, p) ∈ st.entries ∨ ∃ fs ∈ blocks, ∃ f ∈ fs, f.asset = a ∧ f.found = true ∧ f.active = true ∧ f.twa = p := by
  induction blocks generalizing st with
  | nil => exact Or.inl h
  | cons fs bs ih =>
    rcases ih (snapshotStep st fs) h with h | ⟨gs, hgs, hh⟩
    · rcases step_mem st fs a p h with h | hh
      · exact Or.inl h
      · exact Or.inr ⟨fs, List.mem_cons_self, hh⟩
    · exact Or.inr ⟨gs, List.mem_cons_of_mem _ hgs, hh⟩

/-- the status is set in a block in which no found feed is inactive, and from then on every found feed of that block has an
entry -/
theorem run_status (blocks : List (List Feed)) (st : St) (h : (run st blocks).status = true) :
    st.status = true ∨ ∃ fs ∈ blocks, ∀ f ∈ fs, f.found = true →
      f.active = true ∧ (lookup (run st blocks).entries f.asset).isSome = true := by
  induction blocks generalizing st with
  | nil => exact Or.inl h
  | cons fs bs ih =>
    rcases ih (snapshotStep st fs) h with hs | ⟨gs, hgs, hh⟩
    · by_cases hst : st.status = true
      · exact Or.inl hst
      · refine Or.inr ⟨fs, List.mem_cons_self, ?_⟩
        have hw : (walk fs st.entries).2 = true := by simpa [snapshotStep, hst] using hs
        intro f hf hfound
        obtain ⟨hact, hsome⟩ := walk_done fs st.entries hw f hf hfound
        refine ⟨hact, ?_⟩
        have he : (snapshotStep st fs).entries = (walk fs st.entries).1 := by simp [snapshotStep, hst]
        cases hl : lookup (walk fs st.entries).1 f.asset with
        | none => simp [hl] at hsome
        | some p =>
          have := run_lookup_stable bs (snapshotStep st fs) f.asset p (by rw [he]; exact hl)
          show (lookup (run (snapshotStep st fs) bs).entries f.asset).isSome = true
          simp [this]
    · exact Or.inr ⟨gs, List.mem_cons_of_mem _ hgs, hh⟩

end Comdex.EsmSnapshot
