import Comdex.Lemmas.DutchV2
/-!
# What the second-generation Dutch auction keeps for EVERY history — also with several limit bids at one premium (D7)

`Lemmas/DutchV2.lean` proves the exact ledger `Inv` under the hypothesis "at most one limit bid per premium bucket", because
`LimitOrderBid` passes the auction value it read BEFORE its loop to every `PlaceDutchAuctionBid` (D7).  This file proves the part
of the ledger that survives without that hypothesis.  The key observation: every write of the auction record is
`value passed in − own fill`, and the value passed in (`a`, possibly stale) always satisfies `paid so far + a.debt ≥ target`
(`Stale.cover`), because `paid` only grows.  So

* while open:  `module debt balance + short + esmOut = otherD + booked + paid`            (nothing leaves before the close,
                                                                                            except through `TriggerEsm`)
* once closed: `module debt balance + short + esmOut + target = otherD + booked + paid + need`, and `paid + need ≥ target`

where `need` is what closing bids asked from the app reserve (`short` of it was silently not delivered, D23).  The remainder
`paid + need − target ≥ 0` that stays in the module account after a close is exactly what D7 collects twice; it is 0 under `Inv`.
The collateral side has no such invariant (with D7 the module hands out other positions' collateral — C10 counterexample).
-/
namespace Comdex.DutchV2
open Comdex Comdex.Dec Comdex.DutchPrice

theorem withdraw_need {s s1 : St} {need : Int} (h : withdrawReserve s need = .ok s1) :
    s1.need = s.need + need ∧ (s1.short = s.short ∨ s1.short = s.short + need) ∧ s1.esmOut = s.esmOut := by
  unfold withdrawReserve at h
  split at h
  · cases h
  · split at h
    · split at h
      · cases h; exact ⟨rfl, Or.inl rfl, rfl⟩
      · cases h
    · cases h; exact ⟨rfl, Or.inr rfl, rfl⟩

/-- `distribute` never touches the ghosts `need` and `esmOut` -/
theorem distribute_ghosts {e : Env} {s s3 : St} (h : distribute e s = .ok s3) : s3.need = s.need ∧ s3.esmOut = s.esmOut := by
  unfold distribute at h
  split at h
  · cases h
  · split at h
    · simp only [] at h
      split at h
      · cases h
      · split at h
        · cases h
        · split at h
          · cases h
          · split at h
            · cases h
            · cases h; exact ⟨rfl, rfl⟩
    · simp only [] at h
      split at h
      · cases h
      · split at h
        · cases h
        · split at h
          · cases h
          · cases h; exact ⟨rfl, rfl⟩
    · split at h
      · cases h
      · split at h
        · cases h
        · split at h
          · cases h
          · split at h
            · cases h
            · cases h; exact ⟨rfl, rfl⟩

/-- what must be true of an auction VALUE handed to `PlaceDutchAuctionBid` (stored or stale) -/
structure Stale (e : Env) (s : St) (a : Auc) : Prop where
  cover : e.target ≤ s.paid + a.debt
  debt_nonneg : 0 ≤ a.debt
  bonus : 0 ≤ a.bonus
  price : (0 : Int) ≤ a.price
  init : (0 : Int) ≤ a.init
  window : a.end_ = a.start + e.T

/-- the debt-side ledger that holds for every history -/
structure InvW (e : Env) (s : St) : Prop where
  paid_nonneg : 0 ≤ s.paid
  short_nonneg : 0 ≤ s.short
  short_le : s.short ≤ s.need
  booked_nonneg : 0 ≤ s.booked
  esm_nonneg : 0 ≤ s.esmOut
  open_ : ∀ a, s.auc = some a → s.need = 0 ∧ Stale e s a ∧
      s.bank.get .auction .debt + s.short + s.esmOut = s.otherD + s.booked + s.paid
  closed : s.auc = none → e.target ≤ s.paid + s.need ∧
      s.bank.get .auction .debt + s.short + s.esmOut + e.target = s.otherD + s.booked + s.paid + s.need

theorem Stale.mono {e : Env} {s s' : St} {a : Auc} (h : Stale e s a) (hp : s.paid ≤ s'.paid) : Stale e s' a :=
  ⟨by have := h.cover; omega, h.debt_nonneg, h.bonus, h.price, h.init, h.window⟩

/-- one `PlaceDutchAuctionBid` with ANY auction value `a` that covers the target -/
theorem apply_w {e : Env} {s s' : St} {a : Auc} {who : Nat} {p : Plan} {auto : Bool}
    (hi : InvW e s) (hst : Stale e s a) (hp : PlanOK a p) (h : apply e s a who p auto = .ok s') :
    InvW e s' ∧ s'.paid = s.paid + p.pay ∧ s'.otherD = (if auto then s.otherD - p.pay else s.otherD) ∧
    s'.esmOut = s.esmOut := by
  unfold apply at h
  split at h
  · cases h
  · rename_i hopen
    obtain ⟨a0, ha0⟩ : ∃ a0, s.auc = some a0 := by
      cases hs : s.auc with
      | none => simp [hs] at hopen
      | some a0 => exact ⟨a0, rfl⟩
    obtain ⟨on, _, oled⟩ := hi.open_ a0 ha0
    split at h
    · cases h
    · rename_i s1 hs1
      have w : s1.auc = s.auc ∧ s1.paid = s.paid ∧ s1.otherD = s.otherD ∧ s1.booked = s.booked ∧
          s1.bank.get .auction .debt + s1.short = s.bank.get .auction .debt + s.short + (if p.clipped then p.need else 0) ∧
          s1.need = s.need + (if p.clipped then p.need else 0) ∧ s.short ≤ s1.short ∧
          s1.short ≤ s.short + (if p.clipped then p.need else 0) ∧ s1.esmOut = s.esmOut := by
        by_cases hc : p.clipped = true
        · simp only [hc, if_true] at hs1 ⊢
          obtain ⟨_, hneed, _⟩ := hp.clipped_close hc
          have hn0 : 0 ≤ p.need := by have := hp.pay_le; omega
          obtain ⟨w1, w2, _, _, w5, w6, _, _, _, _, w11, w12⟩ := withdraw_ok hs1 hn0
          obtain ⟨n1, n2, n3⟩ := withdraw_need hs1
          exact ⟨w1, w2, w5, w6, w11, n1, w12, by rcases n2 with n2 | n2 <;> omega, n3⟩
        · simp only [hc, if_false, Bool.false_eq_true] at hs1 ⊢
          cases hs1
          exact ⟨rfl, rfl, rfl, rfl, by omega, by omega, by omega, by omega, rfl⟩
      obtain ⟨w1, w2, w5, w6, w8, wn, ws, ws2, we⟩ := w
      split at h
      · cases h
      · rename_i b1 hb1
        have p1 : b1.get .auction .debt = s1.bank.get .auction .debt + (if auto then 0 else p.pay) := by
          by_cases hau : auto = true
          · simp only [hau, if_true] at hb1 ⊢
            cases hb1; omega
          · simp only [hau, if_false, Bool.false_eq_true] at hb1 ⊢
            have d := sendPos_ok hb1 (by simp)
            rw [d]
            simp [posPart_of_nonneg hp.pay_nonneg]
        split at h
        · cases h
        · rename_i b2 hb2
          have d2 := sendPos_ok hb2 (by simp)
          have p2d : b2.get .auction .debt = b1.get .auction .debt := by rw [d2]; simp
          have hclipnn : 0 ≤ (if p.clipped then p.need else 0) := by
            by_cases hc : p.clipped = true
            · obtain ⟨_, hneed, _⟩ := hp.clipped_close hc
              simp only [hc, if_true]; have := hp.pay_le; omega
            · simp [hc]
          by_cases hcl : p.close = true
          · simp only [hcl, if_true] at h
            split at h
            · cases h
            · rename_i s3 hs3
              obtain ⟨q1, q2, q3, q4, q5, q6, q7, q8, q9, _, _, _, _⟩ := distribute_ok hs3
              obtain ⟨q10, q11⟩ := distribute_ghosts hs3
              split at h
              · cases h
              · rename_i b4 hb4
                cases h
                have d4 := sendPos_ok hb4 (by decide)
                have hneedpay : (if p.clipped then p.need else 0) + p.pay = a.debt := by
                  by_cases hc : p.clipped = true
                  · obtain ⟨_, hneed, _⟩ := hp.clipped_close hc
                    simp only [hc, if_true]; omega
                  · have := hp.unclipped_close hcl (by simpa using hc)
                    simp only [hc, if_false, Bool.false_eq_true]; omega
                have r2 : s3.paid = s1.paid + p.pay := q2
                have r5 : s3.otherD = (if auto then s1.otherD - p.pay else s1.otherD) := q5
                have r6 : s3.short = s1.short := q6
                have r7 : s1.booked ≤ s3.booked := q7
                have r9 : s3.bank.get .auction .debt + e.target = b2.get .auction .debt + (s3.booked - s1.booked) := q9
                have r10 : s3.need = s1.need := q10
                have r12 : s3.esmOut = s1.esmOut := q11
                have r11 : b4.get .auction .debt = s3.bank.get .auction .debt := by rw [d4]; simp
                clear q1 q2 q3 q4 q5 q6 q7 q8 q9 q10 q11
                refine ⟨⟨?_, ?_, ?_, ?_, ?_, ?_, ?_⟩, ?_, ?_, ?_⟩
                · show 0 ≤ s3.paid
                  have := hp.pay_nonneg; have := hi.paid_nonneg; omega
                · show 0 ≤ s3.short
                  have := hi.short_nonneg; omega
                · show s3.short ≤ s3.need
                  have := hi.short_le; omega
                · show 0 ≤ s3.booked
                  have := hi.booked_nonneg; omega
                · show 0 ≤ s3.esmOut
                  have := hi.esm_nonneg; omega
                · intro a' ha'; simp at ha'
                · intro _
                  refine ⟨?_, ?_⟩
                  · show e.target ≤ s3.paid + s3.need
                    have := hst.cover; omega
                  · show b4.get .auction .debt + s3.short + s3.esmOut + e.target = s3.otherD + s3.booked + s3.paid + s3.need
                    by_cases hau : auto = true
                    · simp only [hau, if_true] at p1 r5; omega
                    · simp only [hau, if_false, Bool.false_eq_true] at p1 r5; omega
                · show s3.paid = s.paid + p.pay
                  omega
                · show s3.otherD = (if auto then s.otherD - p.pay else s.otherD)
                  rw [r5, w5]
                · show s3.esmOut = s.esmOut
                  omega
          · simp only [hcl, if_false, Bool.false_eq_true] at h
            cases h
            have hncl : p.clipped = false := hp.partial_unclipped (by simpa using hcl)
            have hlt := hp.pay_lt (by simpa using hcl)
            simp only [hncl, if_false, Bool.false_eq_true] at w8 wn ws2
            refine ⟨⟨?_, ?_, ?_, ?_, ?_, ?_, ?_⟩, ?_, ?_, ?_⟩
            · simp only; have := hp.pay_nonneg; have := hi.paid_nonneg; omega
            · simp only; have := hi.short_nonneg; omega
            · simp only; have := hi.short_le; omega
            · simp only [w6]; exact hi.booked_nonneg
            · simp only [we]; exact hi.esm_nonneg
            · intro a' ha'
              simp only [Option.some.injEq] at ha'
              subst ha'
              refine ⟨by simp only; omega, ⟨?_, ?_, ?_, hst.price, hst.init, hst.window⟩, ?_⟩
              · simp only; have := hst.cover; omega
              · simp only; omega
              · simp only; have := hp.share_le; omega
              · simp only [w6, w5, w2, we]
                rw [p2d, p1]
                by_cases hau : auto = true
                · simp only [hau, if_true]; omega
                · simp only [hau, if_false, Bool.false_eq_true]; omega
            · intro hn; simp at hn
            · simp only [w2]
            · simp only [w5]
            · simp only [we]

theorem placeBid_w {e : Env} {s s' : St} {a : Auc} {who : Nat} {amt dt : Int} {auto : Bool}
    (hw : WfEnv e) (hi : InvW e s) (hst : Stale e s a) (hdt : 0 ≤ dt)
    (h : placeBid e s a who amt dt auto = .ok s') :
    InvW e s' ∧ s.paid ≤ s'.paid ∧ s'.paid ≤ s.paid + a.debt ∧
    s'.otherD = (if auto then s.otherD - (s'.paid - s.paid) else s.otherD) := by
  unfold placeBid at h
  split at h
  · rename_i p hp
    have hpo := plan_ok hp hst.bonus (debtPrice_nonneg e dt hdt) hw.decD_pos hst.price hw.decC_pos
    obtain ⟨i, e1, e2, _⟩ := apply_w hi hst hpo h
    refine ⟨i, by rw [e1]; have := hpo.pay_nonneg; omega, by rw [e1]; have := hpo.pay_le; omega, ?_⟩
    rw [e2, e1]
    by_cases hau : auto = true
    · simp only [hau, if_true]; omega
    · simp [hau]
  · cases h

theorem tickIter_w {e : Env} {s : St} {now twaC twaD : Int} {actC actD : Bool}
    (hw : WfEnv e) (hi : InvW e s) (htw : 0 ≤ twaC) : InvW e (tickIter e s now twaC actC twaD actD) := by
  unfold tickIter
  split
  · exact hi
  · rename_i a ha
    split
    · rename_i a' ha'
      obtain ⟨on, ost, oled⟩ := hi.open_ a ha
      obtain ⟨i1, i2, i3, i4, i5, i6⟩ := iterate_ok hw ha' htw ost.init ost.window
      refine ⟨hi.paid_nonneg, hi.short_nonneg, hi.short_le, hi.booked_nonneg, hi.esm_nonneg, ?_, ?_⟩
      · intro a'' h''
        simp only [Option.some.injEq] at h''
        subst h''
        refine ⟨on, ⟨?_, ?_, ?_, i4, i5, i6⟩, oled⟩
        · simp only; rw [i2]; exact ost.cover
        · rw [i2]; exact ost.debt_nonneg
        · rw [i3]; exact ost.bonus
      · intro hn; simp at hn
    · exact hi

/-- the loop of `LimitOrderBid` with ANY number of limit bids in the bucket: the value `a` read before the loop stays `Stale` -/
theorem fillLoop_w {e : Env} {a : Auc} {dt : Int} (hw : WfEnv e) (hdt : 0 ≤ dt) :
    ∀ (l : List LBid) (s s' : St), InvW e s → Stale e s a → fillLoop e a dt s l = .ok s' → InvW e s' ∧ s.paid ≤ s'.paid := by
  intro l
  induction l with
  | nil => intro s s' hi _ h; unfold fillLoop at h; cases h; exact ⟨hi, Int.le_refl _⟩
  | cons hd tl ih =>
    intro s s' hi hst h
    obtain ⟨pr, who, amt⟩ := hd
    unfold fillLoop at h
    simp only [bind, Except.bind] at h
    split at h
    · cases h
    · rename_i s1 hs1
      obtain ⟨i1, m1, _, _⟩ := placeBid_w hw hi hst hdt hs1
      split at h
      · cases h; exact ⟨i1, m1⟩
      · obtain ⟨i2, m2⟩ := ih s1 s' i1 (hst.mono m1) h
        exact ⟨i2, by omega⟩

theorem fill_w {e : Env} {s s' : St} {dt : Int} {lbids : List LBid}
    (hw : WfEnv e) (hi : InvW e s) (hdt : 0 ≤ dt) (h : fill e s dt lbids = .ok s') : InvW e s' := by
  unfold fill at h
  split at h
  · cases h; exact hi
  · rename_i a ha
    simp only [bind, Except.bind] at h
    split at h
    · cases h
    · split at h
      · cases h; exact hi
      · exact (fillLoop_w hw hdt _ _ _ hi (hi.open_ a ha).2.1 h).1

/-- well-formed operation WITHOUT the "one limit bid per premium" clause -/
def WfOpW (_e : Env) : Op → Prop
  | .bid _ _ dt => 0 ≤ dt
  | .tick _ twaC _ twaD _ _ => 0 ≤ twaC ∧ 0 ≤ twaD
  | .tickEsm _ twaC _ twaD _ _ => 0 ≤ twaC ∧ 0 ≤ twaD
  | .reserve _ _ => True
  | .limit _ _ _ => True

/-- `TriggerEsm` keeps the ledger: what it pays out is booked under `esmOut` -/
theorem triggerEsm_w {e : Env} {s s' : St} {a : Auc} (hi : InvW e s) (ha : s.auc = some a) (h : triggerEsm e s a = .ok s') :
    InvW e s' := by
  have hauc : s'.auc = s.auc := by
    unfold triggerEsm at h
    simp only [] at h
    iterate 8 (all_goals (try (split at h)))
    all_goals (first | (cases h; rfl) | cases h)
  have hrest : s'.paid = s.paid ∧ s'.short = s.short ∧ s'.need = s.need ∧ s'.booked = s.booked ∧ s'.otherD = s.otherD ∧
      0 ≤ e.target - a.debt ∧ s'.esmOut = s.esmOut + (e.target - a.debt) ∧
      s'.bank.get .auction .debt = s.bank.get .auction .debt - (e.target - a.debt) := by
    unfold triggerEsm at h
    simp only [] at h
    by_cases hneg : e.target - a.debt < 0
    · simp [hneg] at h
    · simp only [hneg, if_false] at h
      by_cases hgt : e.target - a.debt > e.fee
      · simp only [hgt, if_true] at h
        by_cases hf : e.fee < 0
        · simp [hf] at h
        · simp only [hf, if_false] at h
          have hb : e.target - a.debt - e.fee > 0 := by omega
          simp only [hb, if_true] at h
          split at h
          · cases h
          · rename_i b1 hb1
            split at h
            · cases h
            · rename_i b2 hb2
              cases h
              obtain ⟨_, d1⟩ := burn_ok hb1
              have d2 := sendPos_ok hb2 (by decide)
              have hf0 : 0 ≤ e.fee := by omega
              refine ⟨rfl, rfl, rfl, rfl, rfl, by omega, by simp only; omega, ?_⟩
              simp only; rw [d2, d1]; simp [posPart_of_nonneg hf0]; omega
      · simp only [hgt, if_false] at h
        simp only [hneg, if_false] at h
        have hb : ¬ (0 : Int) > 0 := by omega
        simp only [hb, if_false] at h
        split at h
        · cases h
        · rename_i b2 hb2
          cases h
          have d2 := sendPos_ok hb2 (by decide)
          have hc0 : 0 ≤ e.target - a.debt := by omega
          refine ⟨rfl, rfl, rfl, rfl, rfl, hc0, by simp only; omega, ?_⟩
          simp only; rw [d2]; simp [posPart_of_nonneg hc0]
  obtain ⟨r1, r2, r3, r4, r5, r6, r7, r8⟩ := hrest
  obtain ⟨on, ost, oled⟩ := hi.open_ a ha
  refine ⟨by rw [r1]; exact hi.paid_nonneg, by rw [r2]; exact hi.short_nonneg, by rw [r2, r3]; exact hi.short_le,
    by rw [r4]; exact hi.booked_nonneg, by rw [r7]; have := hi.esm_nonneg; omega, ?_, ?_⟩
  · intro a' ha'
    rw [hauc, ha] at ha'
    simp only [Option.some.injEq] at ha'
    subst ha'
    refine ⟨by rw [r3]; exact on, ⟨by rw [r1]; exact ost.cover, ost.debt_nonneg, ost.bonus, ost.price, ost.init, ost.window⟩, ?_⟩
    rw [r8, r2, r7, r5, r4, r1]; omega
  · intro hn; rw [hauc, ha] at hn; cases hn

theorem tickIterEsm_w {e : Env} {s : St} {now twaC twaD : Int} {actC actD : Bool}
    (hw : WfEnv e) (hi : InvW e s) (htw : 0 ≤ twaC) :
    InvW e (tickIterEsm e s now twaC actC twaD actD) := by
  unfold tickIterEsm
  split
  · exact hi
  · rename_i a ha
    split
    · split
      · unfold orElse
        split
        · rename_i s' hs'; exact triggerEsm_w hi ha hs'
        · exact hi
      · exact hi
    · have := tickIter_w (now := now) (twaD := twaD) (actC := actC) (actD := actD) hw hi htw
      unfold tickIter at this
      rw [ha] at this
      exact this

theorem step_w {e : Env} {s : St} {op : Op} (hw : WfEnv e) (hi : InvW e s) (hop : WfOpW e op) : InvW e (step e s op) := by
  cases op with
  | tickEsm now twaC actC twaD actD lbids =>
    obtain ⟨h1, h2⟩ := hop
    simp only [step, orElse]
    have hi1 := tickIterEsm_w (now := now) (twaD := twaD) (actC := actC) (actD := actD) hw hi h1
    split
    · rename_i s' hs'
      exact fill_w hw hi1 h2 hs'
    · exact hi1
  | bid who amt dt =>
    simp only [step, orElse]
    split
    · rename_i s' hs'
      unfold bidE at hs'
      split at hs'
      · cases hs'
      · split at hs'
        · cases hs'
        · rename_i a ha
          exact (placeBid_w hw hi (hi.open_ a ha).2.1 hop hs').1
    · exact hi
  | tick now twaC actC twaD actD lbids =>
    obtain ⟨h1, h2⟩ := hop
    simp only [step, orElse]
    have hi1 := tickIter_w (now := now) (twaD := twaD) (actC := actC) (actD := actD) hw hi h1
    split
    · rename_i s' hs'
      exact fill_w hw hi1 h2 hs'
    · exact hi1
  | reserve who amt =>
    simp only [step]
    split
    · exact hi
    · split
      · rename_i b hb
        obtain ⟨_, _, d⟩ := send_ok hb (by simp)
        refine ⟨hi.paid_nonneg, hi.short_nonneg, hi.short_le, hi.booked_nonneg, hi.esm_nonneg, ?_, ?_⟩
        · intro a ha
          obtain ⟨on, ost, oled⟩ := hi.open_ a ha
          refine ⟨on, ⟨ost.cover, ost.debt_nonneg, ost.bonus, ost.price, ost.init, ost.window⟩, ?_⟩
          simp only; rw [d]; simpa using oled
        · intro hn
          obtain ⟨c1, c2⟩ := hi.closed hn
          refine ⟨c1, ?_⟩
          simp only; rw [d]; simpa using c2
      · exact hi
  | limit who prem amt =>
    simp only [step]
    split
    · exact hi
    · split
      · rename_i b hb
        obtain ⟨_, _, d⟩ := send_ok hb (by simp)
        refine ⟨hi.paid_nonneg, hi.short_nonneg, hi.short_le, hi.booked_nonneg, hi.esm_nonneg, ?_, ?_⟩
        · intro a ha
          obtain ⟨on, ost, oled⟩ := hi.open_ a ha
          refine ⟨on, ⟨ost.cover, ost.debt_nonneg, ost.bonus, ost.price, ost.init, ost.window⟩, ?_⟩
          simp only; rw [d]; simp; omega
        · intro hn
          obtain ⟨c1, c2⟩ := hi.closed hn
          refine ⟨c1, ?_⟩
          simp only; rw [d]; simp; omega
      · exact hi

theorem run_w {e : Env} (hw : WfEnv e) (ops : List Op) (s : St) (hi : InvW e s) (hops : ∀ op ∈ ops, WfOpW e op) :
    InvW e (run e s ops) := by
  induction ops generalizing s with
  | nil => exact hi
  | cons op ops ih =>
    simp only [run, List.foldl_cons]
    exact ih _ (step_w hw hi (hops op (by simp))) (fun o ho => hops o (by simp [ho]))

/-- the strong ledger implies the weak one (so the two agree where both apply); `need`, `short`, `booked` are ghosts the strong
invariant says nothing about, hence the side facts -/
theorem Inv.remainder_zero {e : Env} {s : St} (hi : Inv e s) (hw : InvW e s) (hc : s.auc = none) (he : s.esmOut = 0) :
    s.paid + s.need = e.target := by
  obtain ⟨_, _, _, c4⟩ := hi.closed hc
  obtain ⟨_, w2⟩ := hw.closed hc
  omega

end Comdex.DutchV2
