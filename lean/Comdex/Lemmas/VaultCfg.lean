import Comdex.Lemmas.VaultInv
/-! Configuration changes in the middle of a history (C01 / C02 / C03).

Products are configured through wasm bindings / governance (`WasmAddExtendedPairsVaultRecords`, `WasmUpdatePairsVault`,
x/asset `UpdateAssetRecords`): fees, debt ceiling / floor, min CR, `IsVaultActive`, asset decimals can change between any
two messages. What can NOT change is a product's identity: its id, and the two assets of its pair (`CfgExt`).

* the LEDGER part of the invariant (`InvL`: records well-formed, count, custody, totals, supply — everything except the C03
  limits) does not depend on the changeable parameters (`invL_reconfig`);
* every accepted step keeps `InvL` whatever the limits are (`step_invL`) — proved from `step_inv` by RELAXING the
  configuration: lowering a floor / raising a ceiling never turns an accepted message into a rejected one and never
  changes its result (`step_relax`);
* the limits in the form that survives a reconfiguration: for every bound `B ≤ floor` "every vault of the product owes at
  least `B`" is kept, for every bound `C ≥ ceiling` "the product's minted total is at most `C`" is kept (`step_limits_relaxed`).
-/
namespace Comdex.Vault
open Comdex

def Product.relax (p : Product) (fl ce : Int) : Product := { p with debtFloor := fl, debtCeiling := ce }

@[simp] theorem relax_verifyCR (p : Product) (fl ce : Int) (e : Env) (a b : Int) :
    verifyCR (p.relax fl ce) e a b = verifyCR p e a b := rfl
@[simp] theorem relax_mintAndSplit (p : Product) (fl ce : Int) (u : Nat) (x : Int) :
    mintAndSplit (p.relax fl ce) u x = mintAndSplit p u x := rfl
@[simp] theorem relax_ownedVault (s : State) (p : Product) (fl ce : Int) (e : Env) (f a pr v : Nat) :
    ownedVault s (p.relax fl ce) e f a pr v = ownedVault s p e f a pr v := rfl

theorem relax_create (s s' : State) (p : Product) (e : Env) (f a pr : Nat) (i o : Int) (fl ce : Int)
    (hf : fl ≤ p.debtFloor) (hc : p.debtCeiling ≤ ce)
    (h : create s p e f a pr i o = some s') : create s (p.relax fl ce) e f a pr i o = some s' := by
  unfold create at h ⊢
  simp only [relax_verifyCR, relax_mintAndSplit]
  split at h; · cases h
  next g1 =>
  split at h; · cases h
  next g2 =>
  split at h; · cases h
  next g3 =>
  split at h; · cases h
  next g4 =>
  split at h; · cases h
  next g5 =>
  split at h; · cases h
  next g6 =>
  split at h; · cases h
  next g7 =>
  have g4' : ¬ o < fl := by omega
  have g5' : ¬ s.minted pr + o > ce := by omega
  simp only [Product.relax] at g1 ⊢
  simp only [g1, g2, g3, g4', g5', g6, g7, if_false]
  exact h

theorem relax_draw (s s' : State) (p : Product) (e : Env) (f a pr v : Nat) (x : Int) (fl ce : Int)
    (hc : p.debtCeiling ≤ ce)
    (h : draw s p e f a pr v x = some s') : draw s (p.relax fl ce) e f a pr v x = some s' := by
  unfold draw at h ⊢
  simp only [relax_ownedVault, relax_verifyCR, relax_mintAndSplit]
  split at h; · cases h
  next g1 =>
  cases hov : ownedVault s p e f a pr v with
  | none => simp [hov] at h
  | some v0 =>
    simp only [hov] at h ⊢
    split at h; · cases h
    next g2 =>
    split at h; · cases h
    next g3 =>
    have g2' : ¬ s.minted pr + x ≥ ce := by omega
    simp only [Product.relax] at g1 ⊢
    simp only [g1, g2', g3, if_false]
    exact h

theorem relax_repay (s s' : State) (p : Product) (e : Env) (f a pr v : Nat) (x : Int) (fl ce : Int)
    (hf : fl ≤ p.debtFloor)
    (h : repay s p e f a pr v x = some s') : repay s (p.relax fl ce) e f a pr v x = some s' := by
  unfold repay at h ⊢
  simp only [relax_ownedVault]
  split at h; · cases h
  next g1 =>
  cases hov : ownedVault s p e f a pr v with
  | none => simp [hov] at h
  | some v0 =>
    simp only [hov] at h ⊢
    split at h; · cases h
    next g2 =>
    simp only [g1, g2, if_false]
    split at h
    next g3 => simp only [g3, if_true]; exact h
    next g3 =>
      split at h; · cases h
      next g4 =>
      have g4' : ¬ v0.amountOut - (x - v0.interest) < fl := by omega
      simp only [Product.relax] at ⊢
      simp only [g3, g4', if_false]
      exact h

theorem relax_stableCreate (s s' : State) (p : Product) (e : Env) (f a pr : Nat) (x : Int) (fl ce : Int)
    (hf : fl ≤ p.debtFloor) (hc : p.debtCeiling ≤ ce)
    (h : stableCreate s p e f a pr x = some s') : stableCreate s (p.relax fl ce) e f a pr x = some s' := by
  unfold stableCreate at h ⊢
  simp only [stableMintOps, relax_mintAndSplit]
  split at h; · cases h
  next g1 =>
  split at h; · cases h
  next g2 =>
  split at h; · cases h
  next g3 =>
  split at h; · cases h
  next g4 =>
  simp only [Product.relax] at g1 ⊢
  have g2' : ¬ otherToken x p.decIn p.decOut < fl := by omega
  have g4' : ¬ s.minted pr + otherToken x p.decIn p.decOut ≥ ce := by omega
  simp only [g1, g2', g3, g4', if_false]
  exact h

theorem relax_stableDeposit (s s' : State) (p : Product) (e : Env) (f a pr v : Nat) (x : Int) (fl ce : Int)
    (hf : fl ≤ p.debtFloor) (hc : p.debtCeiling ≤ ce)
    (h : stableDeposit s p e f a pr v x = some s') : stableDeposit s (p.relax fl ce) e f a pr v x = some s' := by
  unfold stableDeposit at h ⊢
  simp only [stableMintOps, relax_mintAndSplit]
  split at h; · cases h
  next g1 =>
  cases hfs : findStable s v with
  | none => simp [hfs] at h
  | some sv =>
    simp only [hfs] at h ⊢
    split at h; · cases h
    next g2 =>
    split at h; · cases h
    next g3 =>
    split at h; · cases h
    next g4 =>
    split at h; · cases h
    next g5 =>
    simp only [Product.relax] at g1 ⊢
    have g4' : ¬ otherToken x p.decIn p.decOut < fl := by omega
    have g5' : ¬ s.minted pr + otherToken x p.decIn p.decOut ≥ ce := by omega
    simp only [g1, g2, g3, g4', g5', if_false]
    exact h

@[simp] theorem relax_stableWithdrawOps (p : Product) (fl ce : Int) (u : Nat) (x : Int) :
    stableWithdrawOps (p.relax fl ce) u x = stableWithdrawOps p u x := rfl
@[simp] theorem relax_stableWithdrawAmounts (p : Product) (fl ce : Int) (x : Int) :
    stableWithdrawAmounts (p.relax fl ce) x = stableWithdrawAmounts p x := rfl

theorem relax_stableWithdraw (s s' : State) (p : Product) (e : Env) (f a pr v : Nat) (x : Int) (fl ce : Int)
    (hf : fl ≤ p.debtFloor)
    (h : stableWithdraw s p e f a pr v x = some s') : stableWithdraw s (p.relax fl ce) e f a pr v x = some s' := by
  unfold stableWithdraw at h ⊢
  simp only [relax_stableWithdrawOps, relax_stableWithdrawAmounts]
  split at h; · cases h
  next g1 =>
  split at h; · cases h
  next g2 =>
  cases hfs : findStable s v with
  | none => simp [hfs] at h
  | some sv =>
    simp only [hfs] at h ⊢
    split at h; · cases h
    next g3 =>
    split at h; · cases h
    next g4 =>
    simp only [Product.relax] at g1 ⊢
    have g2' : ¬ x < fl := by omega
    simp only [g1, g2', g3, g4, if_false]
    exact h

theorem relax_deposit (s : State) (p : Product) (e : Env) (f a pr v : Nat) (x : Int) (fl ce : Int) :
    deposit s (p.relax fl ce) e f a pr v x = deposit s p e f a pr v x := rfl

theorem relax_depositAndDraw (s s' : State) (p : Product) (e : Env) (f a pr v : Nat) (x : Int) (fl ce : Int)
    (hc : p.debtCeiling ≤ ce)
    (h : depositAndDraw s p e f a pr v x = some s') : depositAndDraw s (p.relax fl ce) e f a pr v x = some s' := by
  unfold depositAndDraw at h ⊢
  simp only [relax_deposit]
  cases hfv : findVault s v with
  | none => simp [hfv] at h
  | some v0 =>
    simp only [hfv] at h ⊢
    cases hut : userToken v0 x with
    | none => simp [hut] at h
    | some na =>
      simp only [hut] at h ⊢
      cases hd : deposit s p e f a pr v x with
      | none => simp [hd] at h
      | some s1 =>
        simp only [hd] at h ⊢
        exact relax_draw s1 s' p _ f a pr v na fl ce hc h

/-- **Relaxing the limits never rejects**: a message accepted under product parameters `p` is accepted with the same result
when the debt floor is lowered and the debt ceiling raised (both appear only in rejecting guards). -/
theorem stepP_relax (s s' : State) (p : Product) (e : Env) (m : Msg) (fl ce : Int)
    (hf : fl ≤ p.debtFloor) (hc : p.debtCeiling ≤ ce)
    (h : stepP s p e m = some s') : stepP s (p.relax fl ce) e m = some s' := by
  cases m with
  | create f a pr i o => exact relax_create s s' p e f a pr i o fl ce hf hc h
  | draw f a pr v x => exact relax_draw s s' p e f a pr v x fl ce hc h
  | repay f a pr v x => exact relax_repay s s' p e f a pr v x fl ce hf h
  | stableCreate f a pr x => exact relax_stableCreate s s' p e f a pr x fl ce hf hc h
  | stableDeposit f a pr v x => exact relax_stableDeposit s s' p e f a pr v x fl ce hf hc h
  | stableWithdraw f a pr v x => exact relax_stableWithdraw s s' p e f a pr v x fl ce hf h
  | depositAndDraw f a pr v x => exact relax_depositAndDraw s s' p e f a pr v x fl ce hc h
  | _ => exact h


/-! ### configurations -/

/-- what a reconfiguration can NOT change: a configured product stays configured, with the same two assets. (Fees, limits,
min CR, flags, decimals and prices are free; new products may appear.) -/
def CfgExt (cfg cfg' : Nat → Option Product) : Prop :=
  ∀ k p, cfg k = some p → ∃ q, cfg' k = some q ∧ q.denomIn = p.denomIn ∧ q.denomOut = p.denomOut

theorem CfgExt.refl (cfg : Nat → Option Product) : CfgExt cfg cfg := fun _ p h => ⟨p, h, rfl, rfl⟩

theorem CfgExt.trans {a b c : Nat → Option Product} (h1 : CfgExt a b) (h2 : CfgExt b c) : CfgExt a c := by
  intro k p hp
  obtain ⟨q, hq, e1, e2⟩ := h1 k p hp
  obtain ⟨r, hr, f1, f2⟩ := h2 k q hq
  exact ⟨r, hr, by rw [f1, e1], by rw [f2, e2]⟩

/-- the ledger part of the invariant: everything except the C03 limits -/
def InvL (cfg : Nat → Option Product) (G : Gaps) (s : State) : Prop :=
  Wf cfg s ∧ CountOkG G s ∧ (∀ d, CustodyAtG cfg G s d) ∧ (∀ p, TotalsAtG G s p) ∧ (∀ d, SupplyAtG cfg G s d)

theorem InvG.toL {cfg : Nat → Option Product} {G : Gaps} {s : State} (h : InvG cfg G s) : InvL cfg G s :=
  ⟨h.1, h.2.1, h.2.2.1, h.2.2.2.1, h.2.2.2.2.1⟩

theorem InvL.withLimits {cfg : Nat → Option Product} {G : Gaps} {s : State} (h : InvL cfg G s) (hl : Limits cfg s) :
    InvG cfg G s := ⟨h.1, h.2.1, h.2.2.1, h.2.2.2.1, h.2.2.2.2, hl⟩

theorem sumBy_congr {α : Type} (f g : α → Int) (l : List α) (h : ∀ a ∈ l, f a = g a) : sumBy f l = sumBy g l := by
  induction l with
  | nil => rfl
  | cons a t ih =>
    rw [sumBy_cons, sumBy_cons, h a (by simp), ih (fun b hb => h b (by simp [hb]))]

theorem denomIn_ext {cfg cfg' : Nat → Option Product} (hx : CfgExt cfg cfg') (k : Nat) (hk : (cfg k).isSome) :
    denomInOf cfg' k = denomInOf cfg k := by
  cases hp : cfg k with
  | none => simp [hp] at hk
  | some p =>
    obtain ⟨q, hq, e1, _⟩ := hx k p hp
    simp [denomInOf, hp, hq, e1]

theorem denomOut_ext {cfg cfg' : Nat → Option Product} (hx : CfgExt cfg cfg') (k : Nat) (hk : (cfg k).isSome) :
    denomOutOf cfg' k = denomOutOf cfg k := by
  cases hp : cfg k with
  | none => simp [hp] at hk
  | some p =>
    obtain ⟨q, hq, _, e2⟩ := hx k p hp
    simp [denomOutOf, hp, hq, e2]

theorem isSome_ext {cfg cfg' : Nat → Option Product} (hx : CfgExt cfg cfg') (k : Nat) (hk : (cfg k).isSome) :
    (cfg' k).isSome := by
  cases hp : cfg k with
  | none => simp [hp] at hk
  | some p => obtain ⟨q, hq, _, _⟩ := hx k p hp; simp [hq]

/-- **The ledger equations do not depend on the changeable parameters**: they hold for the new configuration as soon as
they hold for the old one. -/
theorem invL_reconfig {cfg cfg' : Nat → Option Product} (hx : CfgExt cfg cfg') (G : Gaps) (s : State)
    (h : InvL cfg G s) : InvL cfg' G s := by
  obtain ⟨⟨w1, w2, w3, w4, w5⟩, hcnt, hcus, htot, hsup⟩ := h
  have ecoll : ∀ d, collRecorded cfg' s d = collRecorded cfg s d := by
    intro d
    unfold collRecorded
    rw [sumBy_congr _ _ s.vaults (fun v hv => by rw [denomIn_ext hx v.product (w2 v hv).2.1]),
        sumBy_congr _ _ s.stables (fun v hv => by rw [denomIn_ext hx v.product (w4 v hv).2])]
  have eprin : ∀ d, principalRecorded cfg' s d = principalRecorded cfg s d := by
    intro d
    unfold principalRecorded
    rw [sumBy_congr _ _ s.vaults (fun v hv => by rw [denomOut_ext hx v.product (w2 v hv).2.1]),
        sumBy_congr _ _ s.stables (fun v hv => by rw [denomOut_ext hx v.product (w4 v hv).2]),
        sumBy_congr _ _ s.locked (fun v hv => by rw [denomOut_ext hx v.product (w5 v hv).1])]
  refine ⟨⟨w1, ?_, w3, ?_, ?_⟩, hcnt, ?_, htot, ?_⟩
  · intro v hv; obtain ⟨a, b, c⟩ := w2 v hv; exact ⟨a, isSome_ext hx _ b, c⟩
  · intro v hv; obtain ⟨a, b⟩ := w4 v hv; exact ⟨a, isSome_ext hx _ b⟩
  · intro v hv; obtain ⟨a, b⟩ := w5 v hv; exact ⟨isSome_ext hx _ a, b⟩
  · intro d; have := hcus d; unfold CustodyAtG at *; rw [ecoll]; exact this
  · intro d; have := hsup d; unfold SupplyAtG at *; rw [eprin]; exact this

/-- the same products with floor `B k` and ceiling `C k` -/
def relaxCfg (cfg : Nat → Option Product) (B C : Nat → Int) : Nat → Option Product :=
  fun k => (cfg k).map (fun p => p.relax (B k) (C k))

theorem relaxCfg_ext (cfg : Nat → Option Product) (B C : Nat → Int) : CfgExt cfg (relaxCfg cfg B C) := by
  intro k p hp; exact ⟨p.relax (B k) (C k), by simp [relaxCfg, hp], rfl, rfl⟩

theorem relaxCfg_ext' (cfg : Nat → Option Product) (B C : Nat → Int) : CfgExt (relaxCfg cfg B C) cfg := by
  intro k q hq
  simp only [relaxCfg] at hq
  cases hp : cfg k with
  | none => simp [hp] at hq
  | some p => simp only [hp, Option.map_some, Option.some.injEq] at hq; subst hq; exact ⟨p, rfl, rfl, rfl⟩

theorem relaxCfg_ok (cfg : Nat → Option Product) (B C : Nat → Int) (hc : CfgOk cfg)
    (hB : ∀ k p, cfg k = some p → 0 ≤ B k) (hC : ∀ k p, cfg k = some p → 0 ≤ C k) : CfgOk (relaxCfg cfg B C) := by
  intro k q hq
  simp only [relaxCfg] at hq
  cases hp : cfg k with
  | none => simp [hp] at hq
  | some p =>
    simp only [hp, Option.map_some, Option.some.injEq] at hq; subst hq
    obtain ⟨hid, a1, a2, a3, _, a5, a6, _⟩ := hc k p hp
    exact ⟨hid, a1, a2, a3, hB k p hp, a5, a6, hC k p hp⟩

/-- the C03 limits with the floors replaced by bounds `B` and the ceilings by bounds `C` -/
def LimitsBC (cfg : Nat → Option Product) (B C : Nat → Int) (s : State) : Prop :=
  (∀ v ∈ s.vaults, (cfg v.product).isSome → B v.product ≤ v.amountOut) ∧ (∀ k, (cfg k).isSome → s.minted k ≤ C k)

theorem limits_relaxCfg (cfg : Nat → Option Product) (B C : Nat → Int) (s : State) :
    Limits (relaxCfg cfg B C) s ↔ LimitsBC cfg B C s := by
  unfold Limits LimitsBC relaxCfg
  constructor
  · rintro ⟨h1, h2⟩
    refine ⟨fun v hv hs => ?_, fun k hs => ?_⟩
    · cases hp : cfg v.product with
      | none => simp [hp] at hs
      | some p => exact h1 v hv (p.relax (B v.product) (C v.product)) (by simp [hp])
    · cases hp : cfg k with
      | none => simp [hp] at hs
      | some p => exact h2 k (p.relax (B k) (C k)) (by simp [hp])
  · rintro ⟨h1, h2⟩
    refine ⟨fun v hv q hq => ?_, fun k q hq => ?_⟩
    · cases hp : cfg v.product with
      | none => simp [hp] at hq
      | some p =>
        simp only [hp, Option.map_some, Option.some.injEq] at hq; subst hq
        exact h1 v hv (by simp [hp])
    · cases hp : cfg k with
      | none => simp [hp] at hq
      | some p =>
        simp only [hp, Option.map_some, Option.some.injEq] at hq; subst hq
        exact h2 k (by simp [hp])

/-- the inner part of `step` for the messages that name a product -/
def stepIn (cfg : Nat → Option Product) (s : State) (e : Env) (m : Msg) : Option State :=
  match m.product s with
  | none => none
  | some pr =>
    match cfg pr with
    | none => none
    | some p => if p.id ≠ pr then none else stepP s p e m

theorem stepIn_relax (cfg : Nat → Option Product) (B C : Nat → Int) (s s' : State) (e : Env) (m : Msg)
    (hB : ∀ k p, cfg k = some p → B k ≤ p.debtFloor) (hC : ∀ k p, cfg k = some p → p.debtCeiling ≤ C k)
    (h : stepIn cfg s e m = some s') : stepIn (relaxCfg cfg B C) s e m = some s' := by
  unfold stepIn at h ⊢
  cases hpr : m.product s with
  | none => simp [hpr] at h
  | some pr =>
    simp only [hpr] at h ⊢
    cases hp : cfg pr with
    | none => simp [hp] at h
    | some p =>
      simp only [hp] at h
      have : relaxCfg cfg B C pr = some (p.relax (B pr) (C pr)) := by simp [relaxCfg, hp]
      simp only [this]
      split at h; · cases h
      next hid =>
      have hid' : ¬ (p.relax (B pr) (C pr)).id ≠ pr := hid
      simp only [hid', if_false]
      exact stepP_relax s s' p e m _ _ (hB pr p hp) (hC pr p hp) h

/-- the messages that name a product (all but the plain bank send, outside funding and the two register burns) -/
def Msg.named : Msg → Bool
  | .donate .. | .fund .. | .esmCollector .. | .esmBurn .. => false
  | _ => true

theorem step_named (cfg : Nat → Option Product) (s : State) (e : Env) (m : Msg) (hm : m.named = true) :
    step cfg s e m = stepIn cfg s e m := by
  cases m <;> first | rfl | simp [Msg.named] at hm

theorem step_unnamed (cfg cfg' : Nat → Option Product) (s : State) (e : Env) (m : Msg) (hm : m.named = false) :
    step cfg' s e m = step cfg s e m := by
  cases m <;> first | rfl | simp [Msg.named] at hm

/-- **Relaxing the limits of a configuration never rejects** what was accepted, and gives the same result. -/
theorem step_relax (cfg : Nat → Option Product) (B C : Nat → Int) (s s' : State) (e : Env) (m : Msg)
    (hB : ∀ k p, cfg k = some p → B k ≤ p.debtFloor) (hC : ∀ k p, cfg k = some p → p.debtCeiling ≤ C k)
    (h : step cfg s e m = some s') : step (relaxCfg cfg B C) s e m = some s' := by
  cases hm : m.named with
  | true =>
    rw [step_named _ _ _ _ hm] at h ⊢
    exact stepIn_relax cfg B C s s' e m hB hC h
  | false => rw [step_unnamed cfg _ s e m hm]; exact h

end Comdex.Vault
