import Comdex.Lemmas.AmmFindPrice
import Comdex.Lemmas.AmmMatchEngine
/-!
Lemmas for C05, part 7: the view of `NewOrderBook(os…)` is well-formed (ticks strictly sorted, sums non-decreasing, prices
on the grid); `MatchAtSinglePrice` fills every order at most once and at the single match price (`FillAt`).
-/
namespace Comdex.Amm
open Comdex

/-! ## `MakeView(NewOrderBook(os…))` is a well-formed view -/

def Rdir (incr : Bool) (p q : Int) : Prop := if incr then p < q else p > q

theorem mem_prices_insertTick (incr : Bool) (x : Order) (ts : List Tick) (q : Int)
    (h : q ∈ (insertTick incr x ts).map (·.price)) : q = x.price ∨ q ∈ ts.map (·.price) := by
  induction ts with
  | nil => simp [insertTick] at h; left; exact h
  | cons t ts ih =>
    unfold insertTick at h
    split at h
    · right; simpa using h
    · by_cases hc : (if incr = true then decide (t.price > x.price) else decide (t.price < x.price)) = true
      · rw [if_pos hc] at h
        simp only [List.map_cons, List.mem_cons] at h ⊢
        rcases h with h | h | h
        · left; exact h
        · right; left; exact h
        · right; right; exact h
      · rw [if_neg hc] at h
        simp only [List.map_cons, List.mem_cons] at h ⊢
        rcases h with h | h
        · right; left; exact h
        · rcases ih h with h | h
          · left; exact h
          · right; right; exact h

theorem insertTick_sorted (incr : Bool) (x : Order) (ts : List Tick)
    (h : (ts.map (·.price)).Pairwise (Rdir incr)) : ((insertTick incr x ts).map (·.price)).Pairwise (Rdir incr) := by
  induction ts with
  | nil => simp [insertTick]
  | cons t ts ih =>
    simp only [List.map_cons, List.pairwise_cons] at h
    unfold insertTick
    split
    · simp only [List.map_cons, List.pairwise_cons]; exact h
    · rename_i hne
      by_cases hc : (if incr = true then decide (t.price > x.price) else decide (t.price < x.price)) = true
      · rw [if_pos hc]
        simp only [List.map_cons, List.pairwise_cons, List.mem_cons]
        have hxt : Rdir incr x.price t.price := by
          unfold Rdir; cases incr <;> simp_all <;> omega
        refine ⟨?_, h⟩
        intro q hq
        rcases hq with rfl | hq
        · exact hxt
        · have := h.1 q hq
          unfold Rdir at *; cases incr <;> simp_all <;> omega
      · rw [if_neg hc]
        simp only [List.map_cons, List.pairwise_cons]
        refine ⟨?_, ih h.2⟩
        intro q hq
        rcases mem_prices_insertTick incr x ts q hq with rfl | hq
        · unfold Rdir; cases incr <;> simp_all <;> omega
        · exact h.1 q hq

theorem newBook_sorted (os : List Order) :
    ((newBook os).buys.map (·.price)).Pairwise (Rdir false) ∧ ((newBook os).sells.map (·.price)).Pairwise (Rdir true) := by
  unfold newBook
  have : ∀ (b : Book), ((b.buys.map (·.price)).Pairwise (Rdir false) ∧ (b.sells.map (·.price)).Pairwise (Rdir true)) →
      (((os.foldl addOrder b).buys.map (·.price)).Pairwise (Rdir false) ∧
       ((os.foldl addOrder b).sells.map (·.price)).Pairwise (Rdir true)) := by
    induction os with
    | nil => intro b hb; exact hb
    | cons x xs ih =>
      intro b hb
      apply ih
      unfold addOrder
      split
      · cases x.dir with
        | buy => exact ⟨insertTick_sorted false x b.buys hb.1, hb.2⟩
        | sell => exact ⟨hb.1, insertTick_sorted true x b.sells hb.2⟩
      · exact hb
  exact this _ ⟨by simp, by simp⟩

theorem accSums_prices (ts : List Tick) (prev : Int) : (accSums ts prev).map (·.1) = ts.map (·.price) := by
  induction ts generalizing prev with
  | nil => rfl
  | cons t ts ih => simp [accSums, ih]

theorem accSums_ok (incr : Bool) (ts : List Tick) (prev : Int)
    (hs : (ts.map (·.price)).Pairwise (Rdir incr)) (hn : ∀ t ∈ ts, 0 ≤ totalMatchable t.orders t.price) :
    AccOk (Rdir incr) prev (accSums ts prev) := by
  induction ts generalizing prev with
  | nil => trivial
  | cons t ts ih =>
    simp only [List.map_cons, List.pairwise_cons] at hs
    unfold accSums
    simp only
    refine ⟨by have := hn t (by simp); omega, ?_, ih _ hs.2 (fun t' ht' => hn t' (by simp [ht']))⟩
    rw [accSums_prices]; exact hs.1

/-- every tick of the book carries the price of one of the given orders -/
theorem tick_price_newBook (os : List Order) :
    ∀ t ∈ (newBook os).buys ++ (newBook os).sells, ∃ o ∈ os, t.price = o.price := by
  unfold newBook
  have : ∀ (b : Book), (∀ t ∈ b.buys ++ b.sells, ∃ o ∈ os, t.price = o.price) →
      ∀ (l : List Order), (∀ o ∈ l, o ∈ os) →
      ∀ t ∈ (l.foldl addOrder b).buys ++ (l.foldl addOrder b).sells, ∃ o ∈ os, t.price = o.price := by
    intro b hb l
    induction l generalizing b with
    | nil => intro _; exact hb
    | cons x xs ih =>
      intro hl
      apply ih
      · intro t ht
        unfold addOrder at ht
        split at ht
        · cases hd : x.dir with
          | buy =>
            rw [hd] at ht
            simp only [List.mem_append] at ht
            rcases ht with ht | ht
            · have hq := mem_prices_insertTick false x b.buys t.price (List.mem_map.mpr ⟨t, ht, rfl⟩)
              rcases hq with hq | hq
              · exact ⟨x, hl x (by simp), hq⟩
              · rw [List.mem_map] at hq
                obtain ⟨t', ht', he⟩ := hq
                obtain ⟨o, ho, hp⟩ := hb t' (by simp [ht'])
                exact ⟨o, ho, by rw [← he, hp]⟩
            · exact hb t (by simp [ht])
          | sell =>
            rw [hd] at ht
            simp only [List.mem_append] at ht
            rcases ht with ht | ht
            · exact hb t (by simp [ht])
            · have hq := mem_prices_insertTick true x b.sells t.price (List.mem_map.mpr ⟨t, ht, rfl⟩)
              rcases hq with hq | hq
              · exact ⟨x, hl x (by simp), hq⟩
              · rw [List.mem_map] at hq
                obtain ⟨t', ht', he⟩ := hq
                obtain ⟨o, ho, hp⟩ := hb t' (by simp [ht'])
                exact ⟨o, ho, by rw [← he, hp]⟩
        · exact hb t ht
      · intro o ho; exact hl o (by simp [ho])
  exact this ⟨[], []⟩ (by simp) os (fun o ho => ho)

/-- **the view of `NewOrderBook(os…)`** for well-formed orders whose prices are ticks of precision `prec` up to the highest tick -/
theorem makeView_ok (os : List Order) (prec : Nat) (hw : ∀ o ∈ os, Wf o)
    (ht : ∀ o ∈ os, ∃ k, k ≤ hiIdx prec ∧ o.price = ((T prec k : Nat) : Int)) :
    ViewOk (makeView (newBook os)) prec := by
  have hok := newBook_ok os hw
  obtain ⟨s1, s2⟩ := newBook_sorted os
  have hpr := tick_price_newBook os
  have hpos : ∀ t ∈ (newBook os).buys ++ (newBook os).sells, 0 < t.price := by
    intro t htm
    obtain ⟨o, ho, he⟩ := hpr t htm
    rw [he]; exact (hw o ho).price_pos
  have hnb : ∀ t ∈ (newBook os).buys, 0 ≤ totalMatchable t.orders t.price := fun t htm =>
    totalMatchable_nonneg _ _ (hpos t (by simp [htm])) (fun o ho => (hok.1 t htm o ho).1)
  have hns : ∀ t ∈ (newBook os).sells, 0 ≤ totalMatchable t.orders t.price := fun t htm =>
    totalMatchable_nonneg _ _ (hpos t (by simp [htm])) (fun o ho => (hok.2 t htm o ho).1)
  refine ⟨?_, ?_, ?_, ?_⟩
  · have := accSums_ok false (newBook os).buys 0 s1 hnb
    unfold Rdir at this; simpa [makeView] using this
  · have := accSums_ok true (newBook os).sells 0 s2 hns
    unfold Rdir at this; simpa [makeView] using this
  · intro q hq
    simp only [makeView, accSums_prices, List.mem_map] at hq
    obtain ⟨t, htm, rfl⟩ := hq
    obtain ⟨o, ho, he⟩ := hpr t (by simp [htm])
    rw [he]; exact ht o ho
  · intro q hq
    simp only [makeView, accSums_prices, List.mem_map] at hq
    obtain ⟨t, htm, rfl⟩ := hq
    obtain ⟨o, ho, he⟩ := hpr t (by simp [htm])
    rw [he]; exact ht o ho


/-! ## one price: every order is untouched or filled exactly once at the match price -/

/-- `o'` is `o`, or `o` after ONE allowed fill at price `p` -/
def FillAt (p : Int) (o o' : Order) : Prop := o' = o ∨ ∃ a, GoodFill o a p ∧ o' = (fillRaw o a p).1

theorem FillAt.reach {p : Int} {o o' : Order} (h : FillAt p o o') : Reach o o' := by
  rcases h with rfl | ⟨a, g, rfl⟩
  · exact Reach.refl _
  · exact Reach.one a p g

theorem all2_fillAt_refl (p : Int) (os : List Order) : All2 (FillAt p) os os := by
  induction os with
  | nil => trivial
  | cons o os ih => exact ⟨Or.inl rfl, ih⟩

theorem applyPlan_at (os : List Order) (plan : List (Order × Int)) (p : Int)
    (h : ∀ oa ∈ plan, GoodFill oa.1 oa.2 p) :
    ∃ os' q, applyPlan os plan p = some (os', q) ∧ All2 (FillAt p) os os' := by
  induction os with
  | nil => exact ⟨[], 0, rfl, trivial⟩
  | cons o os ih =>
    obtain ⟨os', q, h1, h2⟩ := ih
    unfold applyPlan
    rw [h1]
    cases hl : plan.lookup o with
    | none => exact ⟨o :: os', q, rfl, Or.inl rfl, h2⟩
    | some a =>
      have g := h (o, a) (lookup_mem hl)
      simp only [fillOrder_good o a p g]
      exact ⟨(fillRaw o a p).1 :: os', q + (fillRaw o a p).2, rfl, Or.inr ⟨a, g, rfl⟩, h2⟩

theorem distributeToTick_at (os : List Order) (amt p : Int) (hp : 0 < p) (hamt : 0 ≤ amt)
    (hw : ∀ o ∈ os, Wf o ∧ Within o p) :
    ∃ os' q, distributeToTick os amt p = some (os', q) ∧ All2 (FillAt p) os os' := by
  obtain ⟨plan, hpl, hgood⟩ := planGroups_good (groupOrders os) os amt p hp hamt (mem_groupOrders os) hw
  unfold distributeToTick
  rw [hpl]
  exact applyPlan_at os plan p (fun oa hoa => (hgood oa hoa).2)

theorem fulfillOrders_at (os : List Order) (p : Int) (hp : 0 < p) (hw : ∀ o ∈ os, Wf o ∧ Within o p) :
    ∃ os' q, fulfillOrders os p = some (os', q) ∧ All2 (FillAt p) os os' := by
  unfold fulfillOrders
  exact applyPlan_at os _ p (fun oa hoa => (fulfillPlan_good os p hp hw oa hoa).2)

def TickAt (p : Int) (t t' : Tick) : Prop := t'.price = t.price ∧ All2 (FillAt p) t.orders t'.orders

theorem all2_tickAt_refl (p : Int) (ts : List Tick) : All2 (TickAt p) ts ts := by
  induction ts with
  | nil => trivial
  | cons t ts ih => exact ⟨⟨rfl, all2_fillAt_refl p _⟩, ih⟩

theorem distTicks_at (d : Dir) (ts : List Tick) (x p : Int) (hp : 0 < p) (hx : 0 < x)
    (hok : ∀ t ∈ ts, TickOk d t) (hle : x ≤ sumInt (buildSide (d == .sell) p ts)) :
    ∃ ts' q, distTicks ts x p = some (ts', q) ∧ All2 (TickAt p) ts ts' := by
  induction ts generalizing x with
  | nil => simp [buildSide, sumInt] at hle; omega
  | cons t ts ih =>
    unfold buildSide at hle
    split at hle
    · simp [sumInt] at hle; omega
    · rename_i hlim
      have hwithin : ∀ o ∈ t.orders, Wf o ∧ Within o p := by
        apply within_of_tickOk (hok t (by simp)) p
        · intro hd; subst hd
          have e : (Dir.buy == Dir.sell) = false := rfl
          simp [e] at hlim; exact hlim
        · intro hd; subst hd
          have e : (Dir.sell == Dir.sell) = true := rfl
          simp at hlim; exact hlim
      simp only [sumInt] at hle
      unfold distTicks
      simp only
      split
      · obtain ⟨os', q, hf, hr⟩ := fulfillOrders_at t.orders p hp hwithin
        rw [hf]
        simp only
        split
        · exact ⟨_, _, rfl, ⟨rfl, hr⟩, all2_tickAt_refl p ts⟩
        · obtain ⟨ts', q', hd', hr'⟩ := ih (x - totalMatchable t.orders p) (by omega)
            (fun t' ht' => hok t' (by simp [ht'])) (by omega)
          rw [hd']
          exact ⟨_, _, rfl, ⟨rfl, hr⟩, hr'⟩
      · obtain ⟨os', q, hf, hr⟩ := distributeToTick_at t.orders x p hp (by omega) hwithin
        rw [hf]
        exact ⟨_, _, rfl, ⟨rfl, hr⟩, all2_tickAt_refl p ts⟩

/-- **`MatchAtSinglePrice` fills every order at most once, and at the match price** -/
theorem matchAtSinglePrice_at (b : Book) (p : Int) (hp : 0 < p) (hb : BookOk b) :
    matchAtSinglePrice b p = .noMatch ∨
    ∃ b' q, matchAtSinglePrice b p = .ok b' q ∧ All2 (TickAt p) b.buys b'.buys ∧ All2 (TickAt p) b.sells b'.sells := by
  unfold matchAtSinglePrice
  cases hf : findMatchableAmount b p with
  | none => left; rfl
  | some x =>
    right
    obtain ⟨hx, hxb, hxs⟩ := findMatchableAmount_bound b p hp hb x hf
    obtain ⟨buys', q1, h1, r1⟩ := distTicks_at .buy b.buys x p hp hx hb.1
      (by rw [show (Dir.buy == Dir.sell) = false from rfl]; exact hxb)
    obtain ⟨sells', q2, h2, r2⟩ := distTicks_at .sell b.sells x p hp hx hb.2
      (by rw [show (Dir.sell == Dir.sell) = true from rfl]; exact hxs)
    simp only [h1, h2]
    exact ⟨_, _, rfl, r1, r2⟩

theorem ticksAt_orders {p : Int} {ts ts' : List Tick} (h : All2 (TickAt p) ts ts') {o' : Order}
    (ho' : o' ∈ (ts'.map (·.orders)).flatten) : ∃ o ∈ (ts.map (·.orders)).flatten, FillAt p o o' := by
  obtain ⟨t', ht', hot'⟩ := mem_flatten_ticks ho'
  obtain ⟨t, ht, r⟩ := all2_mem_right h ht'
  obtain ⟨o, ho, ro⟩ := all2_mem_right r.2 hot'
  exact ⟨o, mem_flatten_ticks_of ht ho, ro⟩

end Comdex.Amm
