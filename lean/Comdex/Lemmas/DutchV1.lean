import Mathlib.Tactic.Linarith
import Comdex.Model.DutchV1
import Comdex.Lemmas.DutchV2
/-!
Lemmas for the first-generation Dutch auction model: what a bid plan guarantees, what `apply`/`close` do to
the balances, the ledger/custody invariant and its preservation by every operation.
-/
namespace Comdex.DutchV1
open Comdex Comdex.Dec Comdex.DutchPrice
open Comdex.DutchV2 (Acct Denom Bank send sendPos burn conv usdValue get_set send_ok sendPos_ok burn_ok posPart
  conv_ok convVal convVal_zero two_conv_bound convVal_lower')

structure PlanOK (e : Env) (a : Auc) (p : Plan) : Prop where
  in_nonneg : 0 ≤ p.inAmt
  in_le_tab : p.inAmt ≤ e.target - a.inCur
  slice_nonneg : 0 ≤ p.slice
  slice_le : p.slice ≤ a.outCur

theorem plan_ok {e : Env} {a : Auc} {slice0 : Int} {p : Plan} (h : plan e a slice0 = .ok p) : PlanOK e a p := by
  unfold plan at h
  split at h
  · cases h
  · split at h
    · cases h
    · split at h
      · cases h
      · rename_i owe0 in0 hc0
        split at h
        · cases h
        · rename_i hin0
          simp only [] at h
          split at h
          · cases h
          · rename_i flag inAmt owe slice hsel
            have hfacts : inAmt ≤ e.target - a.inCur := by
              split at hsel
              · split at hsel
                · cases hsel; omega
                · cases hsel
              · rename_i hgt
                cases hsel; omega
            split at h
            · cases h
            · rename_i hneg
              split at h
              · split at h
                · cases h
                · split at h
                  · cases h
                  · split at h
                    · cases h
                    · split at h
                      · cases h
                      · cases h
                        exact ⟨by simp only; omega, by simp only; exact hfacts, by simp only; omega, by simp only; omega⟩
              · cases h

/-! ### invariant -/

structure Inv (e : Env) (s : St) : Prop where
  paid_nonneg : 0 ≤ s.paid
  recv_nonneg : 0 ≤ s.recv
  open_ : ∀ a, s.auc = some a →
      s.paid = a.inCur ∧ a.inCur ≤ e.target ∧ s.recv + a.outCur = e.coll0 ∧ 0 ≤ a.outCur ∧
      s.bank.get .auction .coll = s.otherC + a.outCur ∧ s.bank.get .auction .debt = s.otherD + a.inCur
  closed : s.auc = none →
      s.paid ≤ e.target ∧ s.recv ≤ e.coll0 ∧
      s.bank.get .auction .coll = s.otherC ∧ s.bank.get .auction .debt = s.otherD

/-- `close`: the module account pays out exactly `target`: principal burned, the rest to the collector -/
theorem close_ok {e : Env} {s s' : St} (hpr : 0 ≤ e.principal) (h : close e s = .ok s') :
    s'.auc = none ∧ s'.paid = s.paid ∧ s'.recv = s.recv ∧ s'.otherC = s.otherC ∧ s'.otherD = s.otherD ∧
    s'.bank.get .auction .coll = s.bank.get .auction .coll ∧
    s'.bank.get .auction .debt = s.bank.get .auction .debt - e.target ∧
    (s'.burned - s.burned) + (s'.bank.get .collector .debt - s.bank.get .collector .debt) = e.target ∧
    s'.bank.get .owner .coll = s.bank.get .owner .coll ∧
    (∀ n, s'.bank.get (.bidder n) .coll = s.bank.get (.bidder n) .coll ∧ s'.bank.get (.bidder n) .debt = s.bank.get (.bidder n) .debt) := by
  unfold close at h
  split at h
  · cases h
  · rename_i b1 hb1
    split at h
    · cases h
    · rename_i b2 hb2
      split at h
      · cases h
      · rename_i hpen
        cases h
        have d2 := sendPos_ok hb2 (by decide)
        rw [DutchV2.posPart_of_nonneg (by omega : 0 ≤ e.target - e.principal)] at d2
        have d1 : ∀ a' d', b1.get a' d' = s.bank.get a' d' - (if a' = Acct.auction ∧ d' = Denom.debt then (if e.principal > 0 then e.principal else 0) else 0) := by
          split at hb1
          · rename_i hp
            intro a' d'; rw [(burn_ok hb1).2]; simp [hp]
          · rename_i hp
            cases hb1
            intro a' d'; simp [hp]
        refine ⟨rfl, rfl, rfl, rfl, rfl, ?_, ?_, ?_, ?_, ?_⟩
        · simp only; rw [d2, d1]; simp
        · simp only; rw [d2, d1]; simp; split <;> omega
        · simp only; rw [d2, d1]; simp; split <;> omega
        · simp only; rw [d2, d1]; simp
        · intro n; simp only; rw [d2, d1, d2, d1]; simp

theorem fromCollector_ok {s s' : St} {amt : Int} (h : fromCollector s amt = .ok s') :
    0 ≤ amt ∧ s'.auc = s.auc ∧ s'.paid = s.paid ∧ s'.recv = s.recv ∧ s'.otherC = s.otherC ∧ s'.otherD = s.otherD ∧
    s'.burned = s.burned ∧
    s'.bank.get .auction .coll = s.bank.get .auction .coll ∧
    s'.bank.get .auction .debt = s.bank.get .auction .debt + amt ∧
    s'.bank.get .collector .debt = s.bank.get .collector .debt - amt ∧
    s'.bank.get .owner .coll = s.bank.get .owner .coll ∧
    (∀ n, s'.bank.get (.bidder n) .coll = s.bank.get (.bidder n) .coll ∧ s'.bank.get (.bidder n) .debt = s.bank.get (.bidder n) .debt) := by
  unfold fromCollector at h
  split at h
  · cases h
  · split at h
    · cases h
    · rename_i hneg
      split at h
      · cases h
      · split at h
        · cases h
        · rename_i b hb
          cases h
          obtain ⟨_, _, d⟩ := send_ok hb (by decide)
          refine ⟨by omega, rfl, rfl, rfl, rfl, rfl, rfl, ?_, ?_, ?_, ?_, ?_⟩
          · simp only; rw [d]; simp
          · simp only; rw [d]; simp
          · simp only; rw [d]; simp
          · simp only; rw [d]; simp
          · intro n; simp only; rw [d, d]; simp

/-- what one accepted bid moves and that it keeps the invariant -/
theorem apply_ok {e : Env} {s s' : St} {a : Auc} {who : Nat} {p : Plan}
    (hpr : 0 ≤ e.principal) (hi : Inv e s) (ha : s.auc = some a) (hp : PlanOK e a p) (h : apply e s a who p = .ok s') :
    Inv e s' ∧ s'.paid = s.paid + p.inAmt ∧ s'.recv = s.recv + p.slice ∧
    s'.bank.get (.bidder who) .debt = s.bank.get (.bidder who) .debt - p.inAmt ∧
    s'.bank.get (.bidder who) .coll = s.bank.get (.bidder who) .coll + p.slice ∧
    (∀ n, n ≠ who → s'.bank.get (.bidder n) .coll = s.bank.get (.bidder n) .coll ∧
                    s'.bank.get (.bidder n) .debt = s.bank.get (.bidder n) .debt) ∧
    (s'.auc = none →
      (s'.burned - s.burned) + (s'.bank.get .collector .debt - s.bank.get .collector .debt) = s'.paid ∧
      s'.bank.get .owner .coll - s.bank.get .owner .coll = e.coll0 - s'.recv) := by
  obtain ⟨o1, o2, o3, o4, o5, o6⟩ := hi.open_ a ha
  unfold apply at h
  split at h
  · cases h
  · rename_i b1 hb1
    have d1 := sendPos_ok hb1 (by simp)
    rw [DutchV2.posPart_of_nonneg hp.in_nonneg] at d1
    split at h
    · cases h
    · rename_i b2 hb2
      have d2 := sendPos_ok hb2 (by simp)
      rw [DutchV2.posPart_of_nonneg hp.slice_nonneg] at d2
      simp only [] at h
      have hin := hp.in_le_tab
      have hsl := hp.slice_le
      have hin0 := hp.in_nonneg
      have hsl0 := hp.slice_nonneg
      have hp0 := hi.paid_nonneg
      have hr0 := hi.recv_nonneg
      split at h
      · -- target reached
        rename_i hreach
        split at h
        · cases h
        · rename_i b3 hb3
          have d3 := sendPos_ok hb3 (by decide)
          rw [DutchV2.posPart_of_nonneg (by omega : 0 ≤ a.outCur - p.slice)] at d3
          obtain ⟨c1, c2, c3, c4, c5, c6, c7, c8, c9, c10⟩ := close_ok hpr h
          simp only at c2 c3 c4 c5 c6 c7 c8 c9 c10
          have hb : ∀ n, s'.bank.get (.bidder n) .coll = b2.get (.bidder n) .coll ∧ s'.bank.get (.bidder n) .debt = b2.get (.bidder n) .debt := by
            intro n; rw [(c10 n).1, (c10 n).2, d3, d3]; simp
          refine ⟨⟨by rw [c2]; omega, by rw [c3]; omega, ?_, ?_⟩, c2, c3, ?_, ?_, ?_, ?_⟩
          · intro a' ha'; rw [c1] at ha'; cases ha'
          · intro _
            refine ⟨by rw [c2]; omega, by rw [c3]; omega, ?_, ?_⟩
            · rw [c6, c4, d3, d2, d1]; simp; omega
            · rw [c7, c5, d3, d2, d1]; simp; omega
          · rw [(hb who).2, d2, d1]; simp
          · rw [(hb who).1, d2, d1]; simp
          · intro n hn; rw [(hb n).1, (hb n).2, d2, d1, d2, d1]; simp [hn]
          · intro _
            constructor
            · rw [c2]
              have e1 : b3.get .collector .debt = s.bank.get .collector .debt := by rw [d3, d2, d1]; simp
              rw [e1] at c8
              omega
            · rw [c9, c3, d3, d2, d1]; simp; omega
      · rename_i hnreach
        split at h
        · -- collateral sold out
          rename_i hzero
          split at h
          · cases h
          · rename_i s2 hs2
            obtain ⟨f0, f1, f2, f3, f4, f5, f6, f7, f8, f9, f10, f11⟩ := fromCollector_ok hs2
            simp only at f2 f3 f4 f5 f6 f7 f8 f9 f10 f11
            obtain ⟨c1, c2, c3, c4, c5, c6, c7, c8, c9, c10⟩ := close_ok hpr h
            have hb : ∀ n, s'.bank.get (.bidder n) .coll = b2.get (.bidder n) .coll ∧ s'.bank.get (.bidder n) .debt = b2.get (.bidder n) .debt := by
              intro n; rw [(c10 n).1, (c10 n).2, (f11 n).1, (f11 n).2]; exact ⟨rfl, rfl⟩
            refine ⟨⟨by rw [c2, f2]; omega, by rw [c3, f3]; omega, ?_, ?_⟩, by rw [c2, f2], by rw [c3, f3], ?_, ?_, ?_, ?_⟩
            · intro a' ha'; rw [c1] at ha'; cases ha'
            · intro _
              refine ⟨by rw [c2, f2]; omega, by rw [c3, f3]; omega, ?_, ?_⟩
              · rw [c6, c4, f7, f4, d2, d1]; simp; omega
              · rw [c7, c5, f8, f5, d2, d1]; simp; omega
            · rw [(hb who).2, d2, d1]; simp
            · rw [(hb who).1, d2, d1]; simp
            · intro n hn; rw [(hb n).1, (hb n).2, d2, d1, d2, d1]; simp [hn]
            · intro _
              constructor
              · rw [c2, f2]
                have e1 : b2.get .collector .debt = s.bank.get .collector .debt := by rw [d2, d1]; simp
                rw [f9, e1, f6] at c8
                omega
              · rw [c9, f10, c3, f3, d2, d1]; simp; omega
        · -- stays open
          rename_i hnz
          cases h
          refine ⟨⟨by simp only; omega, by simp only; omega, ?_, ?_⟩, rfl, rfl, ?_, ?_, ?_, ?_⟩
          · intro a' ha'
            simp only [Option.some.injEq] at ha'
            subst ha'
            simp only
            refine ⟨by omega, by omega, by omega, by omega, ?_, ?_⟩
            · rw [d2, d1]; simp; omega
            · rw [d2, d1]; simp; omega
          · intro hn; simp at hn
          · simp only; rw [d2, d1]; simp
          · simp only; rw [d2, d1]; simp
          · intro n hn; simp only; rw [d2, d1, d2, d1]; simp [hn]
          · intro hn; simp at hn

theorem bidE_inv {e : Env} {s s' : St} {who : Nat} {sl : Int} (hpr : 0 ≤ e.principal) (hi : Inv e s) (h : bidE e s who sl = .ok s') : Inv e s' := by
  unfold bidE at h
  split at h
  · cases h
  · rename_i a ha
    split at h
    · rename_i p hp
      exact (apply_ok hpr hi ha (plan_ok hp) h).1
    · cases h

/-- the block hook touches only prices and times -/
theorem iterate_fields {e : Env} {a a' : Auc} {now twaC twaD : Int} {actC actD : Bool}
    (h : iterate e a now twaC actC twaD actD = .ok a') : a'.outCur = a.outCur ∧ a'.inCur = a.inCur := by
  unfold iterate at h
  simp only [bind, Except.bind, pure, Except.pure] at h
  split at h
  · cases h
  · split at h
    · cases h
    · split at h
      · split at h
        · cases h
        · split at h
          · cases h
          · split at h
            · cases h
            · cases h; exact ⟨rfl, rfl⟩
      · cases h; exact ⟨rfl, rfl⟩

theorem priceUpdate_fields {e : Env} {a a' : Auc} {now twaD : Int} {actD : Bool}
    (h : priceUpdate e a now twaD actD = .ok a') : a'.outCur = a.outCur ∧ a'.inCur = a.inCur := by
  unfold priceUpdate at h
  simp only [bind, Except.bind, pure, Except.pure] at h
  split at h
  · cases h
  · split at h
    · cases h
    · cases h; exact ⟨rfl, rfl⟩

/-- **emergency-shutdown wind-down**: whatever branch is taken, the module account gives up exactly the unsold collateral (to the
vault module or to the ESM module) and exactly what was collected (burned, the excess over the principal to the collector) -/
theorem windDown_ok {e : Env} {s s' : St} {a : Auc} {snapshot : Bool} (hpr : 0 ≤ e.principal) (hout : 0 ≤ a.outCur) (hin : 0 ≤ a.inCur)
    (h : windDown e s a snapshot = .ok s') :
    s'.auc = none ∧ s'.paid = s.paid ∧ s'.recv = s.recv ∧ s'.otherC = s.otherC ∧ s'.otherD = s.otherD ∧
    s'.bank.get .auction .coll = s.bank.get .auction .coll - a.outCur ∧
    s'.bank.get .auction .debt = s.bank.get .auction .debt - a.inCur ∧
    (s'.bank.get .vaultMod .coll - s.bank.get .vaultMod .coll) + (s'.bank.get .esm .coll - s.bank.get .esm .coll) = a.outCur ∧
    (s'.burned - s.burned) + (s'.bank.get .collector .debt - s.bank.get .collector .debt) = a.inCur ∧
    (a.inCur < e.principal → s'.bank.get .vaultMod .coll = s.bank.get .vaultMod .coll + a.outCur ∧ s'.burned = s.burned + a.inCur) ∧
    (e.principal ≤ a.inCur → s'.bank.get .esm .coll = s.bank.get .esm .coll + a.outCur ∧ s'.burned = s.burned + e.principal ∧
        s'.bank.get .collector .debt = s.bank.get .collector .debt + (a.inCur - e.principal)) := by
  unfold windDown at h
  split at h
  · rename_i hlt
    split at h
    · cases h
    · rename_i b1 hb1
      have d1 := sendPos_ok hb1 (by decide)
      rw [DutchV2.posPart_of_nonneg hout] at d1
      split at h
      · cases h
      · rename_i b2 hb2
        cases h
        have d2 : ∀ a' d', b2.get a' d' = b1.get a' d' - (if a' = Acct.auction ∧ d' = Denom.debt then a.inCur else 0) := by
          split at hb2
          · exact (burn_ok hb2).2
          · rename_i hz
            cases hb2
            intro a' d'
            have : a.inCur = 0 := by omega
            rw [this]; simp
        refine ⟨rfl, rfl, rfl, rfl, rfl, ?_, ?_, ?_, ?_, ?_, ?_⟩
        · simp only; rw [d2, d1]; simp
        · simp only; rw [d2, d1]; simp
        · simp only; rw [d2, d1, d2, d1]; simp
        · simp only; rw [d2, d1]; simp; omega
        · intro _; refine ⟨?_, ?_⟩
          · simp only; rw [d2, d1]; simp
          · simp only; split <;> omega
        · intro hc; omega
  · rename_i hge
    split at h
    · cases h
    · rename_i b1 hb1
      split at h
      · cases h
      · rename_i b2 hb2
        have d2 := sendPos_ok hb2 (by decide)
        rw [DutchV2.posPart_of_nonneg (by omega : 0 ≤ a.inCur - e.principal)] at d2
        split at h
        · cases h
        · split at h
          · cases h
          · rename_i b3 hb3
            cases h
            obtain ⟨_, _, d3⟩ := send_ok hb3 (by decide)
            have d1 : ∀ a' d', b1.get a' d' = s.bank.get a' d' - (if a' = Acct.auction ∧ d' = Denom.debt then e.principal else 0) := by
              split at hb1
              · exact (burn_ok hb1).2
              · rename_i hz
                cases hb1
                intro a' d'
                have : e.principal = 0 := by omega
                rw [this]; simp
            refine ⟨rfl, rfl, rfl, rfl, rfl, ?_, ?_, ?_, ?_, ?_, ?_⟩
            · simp only; rw [d3, d2, d1]; simp
            · simp only; rw [d3, d2, d1]; simp
            · simp only; rw [d3, d2, d1, d3, d2, d1]; simp
            · simp only; rw [d3, d2, d1]; simp; split <;> omega
            · intro hc; omega
            · intro _; refine ⟨?_, ?_, ?_⟩
              · simp only; rw [d3, d2, d1]; simp
              · simp only; split <;> omega
              · simp only; rw [d3, d2, d1]; simp

theorem step_inv {e : Env} {s : St} (hpr : 0 ≤ e.principal) (op : Op) (hi : Inv e s) : Inv e (step e s op) := by
  cases op with
  | bid who sl =>
    simp only [step]
    split
    · rename_i s' hs'; exact bidE_inv hpr hi hs'
    · exact hi
  | tick now twaC actC twaD actD =>
    simp only [step]
    split
    · exact hi
    · rename_i a ha
      split
      · rename_i a' ha'
        obtain ⟨i1, i2⟩ := iterate_fields ha'
        obtain ⟨o1, o2, o3, o4, o5, o6⟩ := hi.open_ a ha
        refine ⟨hi.paid_nonneg, hi.recv_nonneg, ?_, ?_⟩
        · intro a'' h''
          simp only [Option.some.injEq] at h''
          subst h''
          simp only
          rw [i1, i2]
          exact ⟨o1, o2, o3, o4, o5, o6⟩
        · intro hn; simp at hn
      · exact hi

  | tickEsm now twaC actC twaD actD snapshot =>
    simp only [step]
    split
    · exact hi
    · rename_i a ha
      split
      · exact hi
      · rename_i a1 ha1
        obtain ⟨i1, i2⟩ := priceUpdate_fields ha1
        obtain ⟨o1, o2, o3, o4, o5, o6⟩ := hi.open_ a ha
        -- the state with the updated price still satisfies the invariant
        have hi1 : Inv e { s with auc := some a1 } := by
          refine ⟨hi.paid_nonneg, hi.recv_nonneg, ?_, ?_⟩
          · intro a'' h''
            simp only [Option.some.injEq] at h''
            subst h''
            simp only
            rw [i1, i2]
            exact ⟨o1, o2, o3, o4, o5, o6⟩
          · intro hn; simp at hn
        split
        · split
          · rename_i s' hs'
            have hin0 : 0 ≤ a1.inCur := by rw [i2, ← o1]; exact hi.paid_nonneg
            obtain ⟨w1, w2, w3, w4, w5, w6, w7, _⟩ := windDown_ok hpr (by rw [i1]; exact o4) hin0 hs'
            simp only at w2 w3 w4 w5 w6 w7
            refine ⟨by rw [w2]; exact hi.paid_nonneg, by rw [w3]; exact hi.recv_nonneg, ?_, ?_⟩
            · intro a' ha'; rw [w1] at ha'; cases ha'
            · intro _
              refine ⟨by rw [w2]; omega, by rw [w3]; omega, ?_, ?_⟩
              · rw [w6, w4, i1]; omega
              · rw [w7, w5, i2]; omega
          · exact hi
        · exact hi1

theorem run_inv {e : Env} (hpr : 0 ≤ e.principal) (ops : List Op) (s : St) (hi : Inv e s) : Inv e (run e s ops) := by
  induction ops generalizing s with
  | nil => exact hi
  | cons op ops ih =>
    simp only [run, List.foldl_cons]
    exact ih _ (step_inv hpr op hi)

/-- **first generation, each bid at the posted price**: the collateral handed out is at most one unit above what the
debt charged plus two debt units buys at the posted price (the bidder names the collateral; the debt is computed from it
and truncated, `dutch.go:192`; when the target is reached the collateral is recomputed from the remaining target, `:205`). -/
theorem plan_posted {e : Env} {a : Auc} {slice0 : Int} {p : Plan} (h : plan e a slice0 = .ok p)
    (hdC : 0 < e.decC) (hdD : 0 < e.decD) (hpr : (0 : Int) ≤ a.price) (hip : (0 : Int) ≤ a.inPrice)
    (hs : e.decC * (a.price + P) ≤ a.price * P)
    (hsb : e.decD * (a.inPrice + P) * (P + 2) ≤ a.inPrice * (P * P)) :
    (p.slice - 1) * (e.decD * a.price) ≤ (p.inAmt + 2) * a.inPrice * e.decC := by
  unfold plan at h
  split at h
  · cases h
  · split at h
    · cases h
    · split at h
      · cases h
      · rename_i owe0 in0 hc0
        obtain ⟨e0, _, hr2⟩ := conv_ok hc0
        have hr2' : (a.inPrice : Int) ≠ 0 := hr2
        have hippos : (0 : Int) < a.inPrice := by omega
        split at h
        · cases h
        · rename_i hin0
          simp only [] at h
          split at h
          · cases h
          · rename_i flag inAmt owe slice hsel
            have hpos : 0 ≤ e.decD * a.price := by positivity
            have key : 0 ≤ slice → 0 ≤ inAmt → (slice - 1) * (e.decD * a.price) ≤ (inAmt + 2) * a.inPrice * e.decC := by
              intro hsl0 hin
              split at hsel
              · split at hsel
                · rename_i o sl hc1
                  cases hsel
                  obtain ⟨e1, _, hr2b⟩ := conv_ok hc1
                  have hr2b' : (a.price : Int) ≠ 0 := hr2b
                  have hprpos : (0 : Int) < a.price := by omega
                  have := two_conv_bound (e.target - a.inCur) 0 a.inPrice e.decD a.price e.decC hin (le_refl 0) hip hdD hprpos (by omega) hs
                  rw [convVal_zero, ← e1] at this
                  have h2 : 0 ≤ 2 * a.inPrice * e.decC := by positivity
                  nlinarith
                · cases hsel
              · cases hsel
                have := convVal_lower' slice0 a.price e.decC a.inPrice e.decD hsl0 hpr hdC hippos (by omega) hsb
                rw [← e0] at this
                nlinarith
            split at h
            · cases h
            · rename_i hneg
              split at h
              · split at h
                · cases h
                · split at h
                  · cases h
                  · split at h
                    · cases h
                    · split at h
                      · cases h
                      · cases h
                        simp only
                        exact key (by omega) (by omega)
              · cases h
end Comdex.DutchV1
