import Comdex.Model.PoolKeeper
import Comdex.Lemmas.Pool
/-!
Lemmas for the keeper level of property C06 (`Model/PoolKeeper.lean`): what a returned `execDeposit` /
`execWithdraw` looked like (peeling of the guards), what "not depleted" gives, the arithmetic of chaining
reserves-per-share bounds, frame facts about `findPool` / `setPool`.
-/
namespace Comdex.PoolKeeper
open Comdex Comdex.Pool

/-! ## `isDepleted` -/

theorem isDepleted_false {p : KPool} (h : isDepleted p = some false) :
    p.ps ≠ 0 ∧ (p.rx ≠ 0 ∨ p.ry ≠ 0) ∧ (p.ranged = false → p.rx ≠ 0 ∧ p.ry ≠ 0) := by
  unfold isDepleted at h
  split at h
  · rename_i hr
    split at h
    · have h' := Option.some.inj h
      have hn : ¬ (p.ps = 0 ∨ (p.rx = 0 ∧ p.ry = 0)) := of_decide_eq_false h'
      refine ⟨fun e => hn (Or.inl e), ?_, fun e => by rw [hr] at e; cases e⟩
      by_cases hx : p.rx = 0
      · right; intro hy; exact hn (Or.inr ⟨hx, hy⟩)
      · left; exact hx
    · cases h
  · have h' := Option.some.inj h
    have hn : ¬ (p.ps = 0 ∨ p.rx = 0 ∨ p.ry = 0) := of_decide_eq_false h'
    exact ⟨fun e => hn (Or.inl e), Or.inl (fun e => hn (Or.inr (Or.inl e))),
      fun _ => ⟨fun e => hn (Or.inr (Or.inl e)), fun e => hn (Or.inr (Or.inr e))⟩⟩

theorem isDepleted_true {p : KPool} (h : isDepleted p = some true) :
    p.ps = 0 ∨ (p.ranged = true ∧ p.rx = 0 ∧ p.ry = 0) ∨ (p.ranged = false ∧ (p.rx = 0 ∨ p.ry = 0)) := by
  unfold isDepleted at h
  split at h
  · rename_i hr
    split at h
    · have h' := Option.some.inj h
      have hn : (p.ps = 0 ∨ (p.rx = 0 ∧ p.ry = 0)) := of_decide_eq_true h'
      rcases hn with a | a
      · exact Or.inl a
      · exact Or.inr (Or.inl ⟨hr, a⟩)
    · cases h
  · rename_i hr
    have h' := Option.some.inj h
    have hn : (p.ps = 0 ∨ p.rx = 0 ∨ p.ry = 0) := of_decide_eq_true h'
    rcases hn with a | a
    · exact Or.inl a
    · exact Or.inr (Or.inr ⟨by simpa using hr, a⟩)

/-- a basic pool's `AMMPool` constructor cannot fail -/
theorem isDepleted_basic_some {p : KPool} (h : p.ranged = false) : ∃ b, isDepleted p = some b := by
  unfold isDepleted; rw [h]; exact ⟨_, rfl⟩

/-- with zero supply every pool is depleted (if its constructor returns) -/
theorem isDepleted_ps_zero {p : KPool} (h : p.ps = 0) : isDepleted p = some true ∨ isDepleted p = none := by
  unfold isDepleted
  split
  · split
    · left; simp [h]
    · right; rfl
  · left; simp [h]

/-! ## Peeling `execDeposit` -/

/-- every returned deposit execution is either a clean failure (all refunded) or the result of `amm.Deposit` on
the pool's OWN reserves and supply and the request's coins, moved exactly -/
theorem execDeposit_cases {p : KPool} {x y : Int} {o : DepOut} (h : execDeposit p x y = some o) :
    (∃ dis, o = depFail x y dis ∧
        (dis = true → p.disabled = false ∧ isDepleted p = some true)) ∨
    (p.disabled = false ∧ isDepleted p = some false ∧
      ∃ ax ay pc, deposit p.rx p.ry p.ps x y = some (ax, ay, pc) ∧ 0 < pc ∧ 0 ≤ ax ∧ 0 ≤ ay ∧ ax ≤ x ∧ ay ≤ y ∧
        o = { status := .succeeded, ax := ax, ay := ay, mint := pc, rfx := x - ax, rfy := y - ay, disable := false }) := by
  unfold execDeposit at h
  split at h
  · exact Or.inl ⟨false, (Option.some.inj h).symm, by intro e; cases e⟩
  · rename_i hd
    have hd' : p.disabled = false := by simpa using hd
    split at h
    · cases h
    · rename_i hdep
      exact Or.inl ⟨true, (Option.some.inj h).symm, fun _ => ⟨hd', hdep⟩⟩
    · rename_i hdep
      split at h
      · cases h
      · rename_i ax ay pc hdp
        split at h
        · exact Or.inl ⟨false, (Option.some.inj h).symm, by intro e; cases e⟩
        · rename_i hpc0
          split at h
          · cases h
          · rename_i hneg
            split at h
            · cases h
            · rename_i hle
              refine Or.inr ⟨hd', hdep, ax, ay, pc, hdp, ?_, ?_, ?_, ?_, ?_, (Option.some.inj h).symm⟩ <;> omega

/-! ## Peeling `execWithdraw` -/

theorem execWithdraw_cases {fee : Dec} {p : KPool} {pc : Int} {o : WdrOut} (h : execWithdraw fee p pc = some o) :
    (∃ dis, o = wdrFail pc dis ∧ (dis = true → p.disabled = false ∧ isDepleted p = some true)) ∨
    (p.disabled = false ∧ isDepleted p = some false ∧
      ∃ x y, withdraw p.rx p.ry p.ps pc fee = some (x, y) ∧ ¬ (x = 0 ∧ y = 0) ∧ 0 ≤ x ∧ 0 ≤ y ∧ x ≤ p.rx ∧ y ≤ p.ry ∧
        o = { status := .succeeded, x := x, y := y, burn := pc, rfpc := 0, disable := decide (pc = p.ps) }) := by
  unfold execWithdraw at h
  split at h
  · exact Or.inl ⟨false, (Option.some.inj h).symm, by intro e; cases e⟩
  · rename_i hd
    have hd' : p.disabled = false := by simpa using hd
    split at h
    · cases h
    · rename_i hdep
      exact Or.inl ⟨true, (Option.some.inj h).symm, fun _ => ⟨hd', hdep⟩⟩
    · rename_i hdep
      split at h
      · cases h
      · rename_i x y hw
        split at h
        · exact Or.inl ⟨false, (Option.some.inj h).symm, by intro e; cases e⟩
        · rename_i hz
          split at h
          · cases h
          · rename_i hneg
            split at h
            · cases h
            · rename_i hle
              refine Or.inr ⟨hd', hdep, x, y, hw, hz, ?_, ?_, ?_, ?_, (Option.some.inj h).symm⟩ <;> omega

/-! ## Chaining reserves-per-share bounds -/

/-- `r0/s0 · (a/b) ≤ r1/s1` and `r1/s1 · (a'/b') ≤ r2/s2` give `r0/s0 · (aa'/bb') ≤ r2/s2` (cross-multiplied),
also when an intermediate reserve or supply is zero — provided a zero supply stays zero. -/
theorem perShare_chain {a b a' b' r0 r1 r2 s0 s1 s2 : Int}
    (ha : 0 < a) (ha' : 0 ≤ a') (hb : 0 ≤ b) (hb' : 0 ≤ b')
    (hr0 : 0 ≤ r0) (hr1 : 0 ≤ r1) (hr2 : 0 ≤ r2) (hs0 : 0 ≤ s0) (hs1 : 0 ≤ s1) (hs2 : 0 ≤ s2)
    (h1 : a * (r0 * s1) ≤ b * (r1 * s0)) (h2 : a' * (r1 * s2) ≤ b' * (r2 * s1))
    (hz : s1 = 0 → s2 = 0) :
    (a * a') * (r0 * s2) ≤ (b * b') * (r2 * s0) := by
  have hR : 0 ≤ (b * b') * (r2 * s0) :=
    Int.mul_nonneg (Int.mul_nonneg hb hb') (Int.mul_nonneg hr2 hs0)
  by_cases hs : s1 = 0
  · rw [hz hs]; simpa using hR
  have hs1p : 0 < s1 := by omega
  by_cases hr : r1 = 0
  · -- then r0 = 0
    rw [hr] at h1
    have h1' : a * (r0 * s1) ≤ 0 := by simpa using h1
    have : r0 * s1 ≤ 0 := by
      by_contra hc
      have : 0 < a * (r0 * s1) := Int.mul_pos ha (by omega)
      omega
    have hr00 : r0 = 0 := by
      by_contra hc
      have : 0 < r0 * s1 := Int.mul_pos (by omega) hs1p
      omega
    rw [hr00]; simpa using hR
  have hr1p : 0 < r1 := by omega
  have hc : 0 < r1 * s1 := Int.mul_pos hr1p hs1p
  have hm : (a * (r0 * s1)) * (a' * (r1 * s2)) ≤ (b * (r1 * s0)) * (b' * (r2 * s1)) :=
    Int.mul_le_mul h1 h2 (Int.mul_nonneg ha' (Int.mul_nonneg hr1 hs2))
      (Int.mul_nonneg hb (Int.mul_nonneg hr1 hs0))
  have e1 : (a * (r0 * s1)) * (a' * (r1 * s2)) = ((a * a') * (r0 * s2)) * (r1 * s1) := by ring
  have e2 : (b * (r1 * s0)) * (b' * (r2 * s1)) = ((b * b') * (r2 * s0)) * (r1 * s1) := by ring
  rw [e1, e2] at hm
  exact Int.le_of_mul_le_mul_right hm hc

theorem perShareGe_refl (k : Nat) {p : KPool} (h : KInv p) : PerShareGe k p p := by
  obtain ⟨hx, hy, hs⟩ := h
  have hpow : ((100000000000000000 - 1 : Int)) ^ k ≤ (100000000000000000 : Int) ^ k :=
    pow_le_pow_left₀ (by decide) (by decide) k
  exact ⟨Int.mul_le_mul_of_nonneg_right hpow (Int.mul_nonneg hx hs),
         Int.mul_le_mul_of_nonneg_right hpow (Int.mul_nonneg hy hs)⟩

/-- chaining two `PerShareGe` facts through an intermediate pool whose zero supply stays zero -/
theorem perShareGe_trans {j k : Nat} {p q r : KPool} (hp : KInv p) (hq : KInv q) (hr : KInv r)
    (h1 : PerShareGe j p q) (h2 : PerShareGe k q r) (hz : q.ps = 0 → r.ps = 0) : PerShareGe (j + k) p r := by
  obtain ⟨px, py, pps⟩ := hp
  obtain ⟨qx, qy, qps⟩ := hq
  obtain ⟨rx, ry, rps⟩ := hr
  have a0 : (0:Int) < (100000000000000000 - 1) ^ j := pow_pos (by decide) j
  have a1 : (0:Int) ≤ (100000000000000000 - 1) ^ k := le_of_lt (pow_pos (by decide) k)
  have b0 : (0:Int) ≤ 100000000000000000 ^ j := le_of_lt (pow_pos (by decide) j)
  have b1 : (0:Int) ≤ 100000000000000000 ^ k := le_of_lt (pow_pos (by decide) k)
  unfold PerShareGe
  rw [pow_add, pow_add]
  exact ⟨perShare_chain a0 a1 b0 b1 px qx rx pps qps rps h1.1 h2.1 hz,
         perShare_chain a0 a1 b0 b1 py qy ry pps qps rps h1.2 h2.2 hz⟩

/-! ## `findPool` / `setPool` -/

theorem findPool_id {pools : List KPool} {id : Nat} {p : KPool} (h : findPool pools id = some p) : p.id = id := by
  unfold findPool at h
  have := List.find?_some h
  simpa using this

theorem findPool_mem {pools : List KPool} {id : Nat} {p : KPool} (h : findPool pools id = some p) : p ∈ pools := by
  unfold findPool at h
  exact List.mem_of_find?_eq_some h

/-- frame: updating pool `q.id` does not change what is found under another id -/
theorem findPool_setPool_ne {pools : List KPool} {q : KPool} {id : Nat} (h : id ≠ q.id) :
    findPool (setPool pools q) id = findPool pools id := by
  unfold findPool setPool
  induction pools with
  | nil => rfl
  | cons a as ih =>
    simp only [List.map_cons, List.find?_cons]
    by_cases ha : a.id = q.id
    · have hne : ¬ a.id = id := fun e => h (e ▸ ha ▸ rfl)
      have hq : ¬ q.id = id := fun e => h e.symm
      simp [ha, hq, ih]
    · simp only [if_neg ha]
      by_cases hi : a.id = id
      · simp [hi]
      · simp [hi, ih]

/-- updating a pool that is present: it is found afterwards (with the same id) -/
theorem findPool_setPool_eq {pools : List KPool} {p q : KPool} (hf : findPool pools q.id = some p) :
    findPool (setPool pools q) q.id = some q := by
  unfold findPool setPool at *
  induction pools with
  | nil => simp at hf
  | cons a as ih =>
    simp only [List.map_cons, List.find?_cons] at *
    by_cases ha : a.id = q.id
    · simp [ha]
    · have hf' : List.find? (fun p => decide (p.id = q.id)) as = some p := by simpa [ha] using hf
      have := ih hf'
      simpa [ha] using this

end Comdex.PoolKeeper
