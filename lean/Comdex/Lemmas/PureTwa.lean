import Comdex.Lemmas.GoSem
import Comdex.Model.Twa
/-!
The 128-bit accumulation loop of `CalculateTwa` (`bits.Add64` with carry into `hi`, then `bits.Div64`) computes the
exact sum of the window and its mean.  Used by `Props/C17Pure.lean`.  Core Lean only.
-/
namespace Comdex.PureTwa
open Comdex Comdex.GoSem

/-- 2^64 -/
local notation "W" => (18446744073709551616 : Nat)

/-- one round of the loop of `CalculateTwa` on the state `(hi, lo, carry)` (the shape `do`-notation gives it) -/
def twaBody (vs : List Nat) (i : Int) (s : Nat × Nat × Nat) : M (ForInStep (Nat × Nat × Nat)) := do
  let x ← indexI vs i
  let r := bitsAdd64 s.2.1 x 0
  pure (ForInStep.yield (u64Add s.1 r.2, r.1, r.2))

theorem indexI_ofNat_lt {vs : List Nat} {a : Nat} (h : a < vs.length) : indexI vs (a : Int) = .ok vs[a] := by
  unfold indexI
  have : ¬ ((a : Int) < 0) := by omega
  simp only [this, if_false, Int.toNat_natCast, List.getElem?_eq_getElem h]

theorem indexI_ofNat_ge {vs : List Nat} {a : Nat} (h : vs.length ≤ a) : indexI vs (a : Int) = .error .panic := by
  unfold indexI
  have : ¬ ((a : Int) < 0) := by omega
  simp only [this, if_false, Int.toNat_natCast, List.getElem?_eq_none h]

/-- the loop over indices `a, …, a+n-1` from a state with `lo < 2^64` whose `hi` cannot wrap -/
theorem twaLoop (vs : List Nat) (hv : ∀ v ∈ vs, v < W) :
    ∀ (n a hi lo c : Nat), lo < W → hi + n < W →
      (a + n ≤ vs.length → ∃ c',
        forIn ((List.range' a n).map (fun (k : Nat) => (k : Int))) (hi, lo, c) (twaBody vs)
          = .ok ((hi * W + lo + ((vs.drop a).take n).sum) / W, (hi * W + lo + ((vs.drop a).take n).sum) % W, c')) ∧
      (a ≤ vs.length → vs.length < a + n →
        forIn ((List.range' a n).map (fun (k : Nat) => (k : Int))) (hi, lo, c) (twaBody vs) = .error .panic) := by
  intro n
  induction n with
  | zero =>
    intro a hi lo c hlo _
    constructor
    · intro _
      refine ⟨c, ?_⟩
      simp only [List.range'_zero, List.map_nil, List.forIn_nil, List.take_zero, List.sum_nil, Nat.add_zero]
      have e1 : (hi * W + lo) / W = hi := by omega
      have e2 : (hi * W + lo) % W = lo := by omega
      rw [e1, e2]; rfl
    · intro h1 h2; omega
  | succ n ih =>
    intro a hi lo c hlo hhi
    simp only [List.range'_succ, List.map_cons, List.forIn_cons]
    by_cases ha : a < vs.length
    · have hva : vs[a] < W := hv _ (List.getElem_mem ha)
      have hstep : twaBody vs (a : Int) (hi, lo, c)
          = .ok (ForInStep.yield (hi + (lo + vs[a]) / W, (lo + vs[a]) % W, (lo + vs[a]) / W)) := by
        unfold twaBody
        rw [indexI_ofNat_lt ha]
        have hc : (lo + vs[a]) / W ≤ 1 := by omega
        have : u64Add hi ((lo + vs[a] + 0) / two64) = hi + (lo + vs[a]) / W := by
          rw [Nat.add_zero]
          exact u64Add_of_fits (by show hi + (lo + vs[a]) / W < W; omega)
        simp only [ok_bind, bitsAdd64, this]
        rfl
      rw [hstep]
      simp only [ok_bind]
      have hlo' : (lo + vs[a]) % W < W := Nat.mod_lt _ (by decide)
      have hhi' : hi + (lo + vs[a]) / W + n < W := by
        have : (lo + vs[a]) / W ≤ 1 := by omega
        omega
      obtain ⟨ihS, ihF⟩ := ih (a + 1) (hi + (lo + vs[a]) / W) ((lo + vs[a]) % W) ((lo + vs[a]) / W) hlo' hhi'
      constructor
      · intro hlen
        obtain ⟨c', hc'⟩ := ihS (by omega)
        refine ⟨c', ?_⟩
        rw [hc']
        have hd : (vs.drop a).take (n + 1) = vs[a] :: (vs.drop (a + 1)).take n := by
          rw [List.drop_eq_getElem_cons ha, List.take_succ_cons]
        rw [hd, List.sum_cons]
        have e : (hi + (lo + vs[a]) / W) * W + (lo + vs[a]) % W = hi * W + lo + vs[a] := by omega
        rw [e, Nat.add_assoc (hi * W + lo)]
      · intro _ hlen
        exact ihF (by omega) (by omega)
    · have hstep : twaBody vs (a : Int) (hi, lo, c) = .error .panic := by
        unfold twaBody
        rw [indexI_ofNat_ge (by omega)]
        rfl
      rw [hstep]
      constructor
      · intro hlen; omega
      · intro _ _; rfl

theorem sum_le_of_lt_W (l : List Nat) (h : ∀ v ∈ l, v < W) : l.sum ≤ l.length * (W - 1) := by
  induction l with
  | nil => simp
  | cons x xs ih =>
    have hx : x < W := h x (List.mem_cons_self ..)
    have := ih (fun v hv => h v (List.mem_cons_of_mem _ hv))
    simp only [List.sum_cons, List.length_cons]
    have : (xs.length + 1) * (W - 1) = xs.length * (W - 1) + (W - 1) := by
      rw [Nat.add_mul, Nat.one_mul]
    omega

/-- the model's failures are both run-time panics of the Go function -/
def twaOutcome (r : Except Twa.Panic Nat) : M Nat :=
  match r with
  | .ok v => .ok v
  | .error _ => .error .panic

end Comdex.PureTwa
