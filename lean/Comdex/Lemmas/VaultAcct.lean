import Comdex.Lemmas.Vault
/-! Effect of the handlers' bank calls on an arbitrary account (used by C02 `mint_delivers`). -/
namespace Comdex.Vault
open Comdex

def BankOp.dAcct (a : Nat) : BankOp → Nat → Int
  | .send src dst d0 x, d => if d = d0 then (if dst = a then x else 0) - (if src = a then x else 0) else 0
  | .sendPos src dst d0 x, d => if x > 0 ∧ d = d0 then (if dst = a then x else 0) - (if src = a then x else 0) else 0
  | .mint d0 x, d => if d = d0 ∧ a = vm then x else 0
  | .burn d0 x, d => if d = d0 ∧ a = vm then -x else 0
  | .burnPos d0 x, d => if x > 0 ∧ d = d0 ∧ a = vm then -x else 0

def netAcct (a : Nat) (ops : List BankOp) (d : Nat) : Int := (ops.map (fun o => o.dAcct a d)).sum

theorem sendRaw_acct (s s' : State) (src dst d0 : Nat) (x : Int) (h : sendRaw s src dst d0 x = some s') (a d : Nat) :
    s'.bal a d = s.bal a d + BankOp.dAcct a (.send src dst d0 x) d := by
  unfold sendRaw at h
  split at h; · cases h
  split at h; · cases h
  cases h
  simp only [upd2, BankOp.dAcct]
  by_cases hd : d = d0
  · subst hd
    by_cases ha : a = src
    · subst ha
      by_cases hb : dst = a
      · subst hb; simp
      · have hb' : ¬ a = dst := fun h => hb h.symm
        simp [hb, hb']; omega
    · have ha' : ¬ src = a := fun h => ha h.symm
      by_cases hb : dst = a
      · subst hb; simp [ha, ha']
      · have hb' : ¬ a = dst := fun h => hb h.symm
        simp [ha, ha', hb, hb']
  · simp [hd]

theorem op_acct (s s' : State) (op : BankOp) (h : op.run s = some s') (a d : Nat) :
    s'.bal a d = s.bal a d + op.dAcct a d := by
  cases op with
  | send src dst d0 x => exact sendRaw_acct s s' src dst d0 x h a d
  | sendPos src dst d0 x =>
    simp only [BankOp.run] at h
    by_cases hx : x > 0
    · simp only [hx, if_true] at h
      rw [sendRaw_acct s s' src dst d0 x h a d]; simp [BankOp.dAcct, hx]
    · simp only [hx, if_false] at h; cases h; simp [BankOp.dAcct, hx]
  | mint d0 x =>
    simp only [BankOp.run, mintRaw] at h
    split at h; · cases h
    cases h
    simp only [upd2, BankOp.dAcct]
    by_cases hd : d = d0 <;> by_cases ha : a = vm <;> simp [hd, ha]
  | burn d0 x =>
    simp only [BankOp.run, burnRaw] at h
    split at h; · cases h
    split at h; · cases h
    cases h
    simp only [upd2, BankOp.dAcct]
    by_cases hd : d = d0 <;> by_cases ha : a = vm <;> simp [hd, ha] <;> omega
  | burnPos d0 x =>
    simp only [BankOp.run] at h
    by_cases hx : x > 0
    · simp only [hx, if_true, burnRaw] at h
      split at h; · cases h
      split at h; · cases h
      cases h
      simp only [upd2, BankOp.dAcct]
      by_cases hd : d = d0 <;> by_cases ha : a = vm <;> simp [hd, ha, hx] <;> omega
    · simp only [hx, if_false] at h; cases h; simp [BankOp.dAcct, hx]

theorem runBank_acct (ops : List BankOp) (s s' : State) (h : runBank s ops = some s') (a d : Nat) :
    s'.bal a d = s.bal a d + netAcct a ops d := by
  induction ops generalizing s with
  | nil => simp [runBank] at h; cases h; simp [netAcct]
  | cons op ops ih =>
    obtain ⟨s1, h1, h2⟩ := runBank_cons _ _ _ _ h
    rw [ih s1 h2, op_acct s s1 op h1]; simp [netAcct]; omega

/-- what mint-and-split delivers: the user receives the minted amount less the fee, the collector the fee -/
theorem mintAndSplit_delivers (p : Product) (user : Nat) (amt : Int) (hu : user ≠ vm) (huc : user ≠ cm)
    (hp : ProductOk p) (ha : 0 < amt) :
    netAcct user (mintAndSplit p user amt) p.denomOut = amt - feeOf amt p.drawDownFee ∧
    netAcct cm (mintAndSplit p user amt) p.denomOut = feeOf amt p.drawDownFee := by
  obtain ⟨h0, h1, _, _, _, _, _⟩ := hp
  have hs0 := feeOf_nonneg amt p.drawDownFee (Int.le_of_lt ha) h0
  have hs1 := feeOf_lt amt p.drawDownFee ha h0 h1
  have hcm : cm ≠ vm := by decide
  have hvu : ¬ vm = user := fun h => hu h.symm
  have hcu : ¬ cm = user := fun h => huc h.symm
  have hvc : ¬ vm = cm := by decide
  unfold mintAndSplit
  by_cases hf : p.drawDownFee = 0
  · have hz : feeOf amt 0 = 0 := by
      rw [feeOf_eq amt 0 (Int.le_of_lt ha) (by omega)]; simp
    simp [hf, ha, netAcct, BankOp.dAcct, hu, hcm, hvu, hcu, hvc, huc, hz]
  · simp only [hf, false_and, if_false, netAcct, List.map_cons, List.map_nil, List.sum_cons, List.sum_nil, BankOp.dAcct,
      hu, hcm, hvu, hcu, hvc, huc, and_false, and_true, if_true, if_false]
    have hrest : amt - feeOf amt p.drawDownFee > 0 := by omega
    by_cases hsp : feeOf amt p.drawDownFee > 0
    · simp [hsp, hrest]; intro h; omega
    · have hz : feeOf amt p.drawDownFee = 0 := by omega
      simp [hz, ha]

end Comdex.Vault
