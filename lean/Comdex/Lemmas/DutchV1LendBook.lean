import Comdex.Lemmas.DutchV1Lend
import Comdex.Model.DutchV1LendBook
/-!
Lemmas for the first-generation lend auction with the lend-side book-keeping: what `closeBook` decides (interest to the reserve,
cTokens minted, the four outcomes for locked vault and borrow) and what the closing bid moves between auction module, pool and
reserve on top of `DutchV1Lend.apply`.
-/
namespace Comdex.DutchV1LendBook
open Comdex Comdex.Dec
open Comdex.DutchV2 (Acct Denom Bank send sendPos get_set send_ok sendPos_ok)
open Comdex.DutchV1Lend (Env Auc Plan plan apply PlanOK plan_ok apply_ok Inv)

theorem riOf_nonneg (k : Book) : 0 ≤ riOf k := by unfold riOf; split <;> omega
theorem mintOf_nonneg (k : Book) : 0 ≤ mintOf k := by unfold mintOf; split <;> omega

theorem reliq_nonneg {e : Env} {r : Rates} {x : Ext} {amtIn updOut : Int} {q : Reliq}
    (h : reliq e r x amtIn updOut = .ok (some q)) : 0 ≤ q.toAuction ∧ 0 ≤ q.toReserve ∧ 0 ≤ q.deduction := by
  unfold reliq at h
  split at h
  · cases h
  · cases h
  · split at h
    · simp only [] at h
      split at h
      · cases h
      · split at h
        · cases h
        · rename_i hneg
          cases h
          simp only
          omega
    · cases h

/-- the outcome of the book-keeping of one close -/
inductive Outcome (e : Env) (k : Book) (lv0 : LV) (cp : ClosePlan) : Prop
  /-- the debt is repaid in full: records deleted, the borrower's collateral cTokens returned -/
  | repaid : max0 (lv0.amtOut - e.target) = 0 → cp.k.lv = none → cp.k.borrow = none →
      cp.k.cOwnerColl = k.cOwnerColl + lv0.amtIn → cp.k.cPoolColl = k.cPoolColl - lv0.amtIn → cp.redep = 0 → cp.pen2 = 0 →
      Outcome e k lv0 cp
  /-- no collateral left: records deleted -/
  | exhausted : max0 (lv0.amtOut - e.target) ≠ 0 → lv0.amtIn = 0 → cp.k.lv = none → cp.k.borrow = none →
      cp.k.cOwnerColl = k.cOwnerColl → cp.k.cPoolColl = k.cPoolColl → cp.redep = 0 → cp.pen2 = 0 → Outcome e k lv0 cp
  /-- healthy again: the borrow is restored with the locked vault's amounts -/
  | restored : max0 (lv0.amtOut - e.target) ≠ 0 → cp.k.lv = none →
      cp.k.borrow = some (lv0.amtIn, max0 (lv0.amtOut - e.target)) → cp.k.liquidated = false →
      cp.k.cOwnerColl = k.cOwnerColl → cp.k.cPoolColl = k.cPoolColl → cp.redep = 0 → cp.pen2 = 0 → Outcome e k lv0 cp
  /-- still unhealthy: liquidated again — fresh collateral to the auction module, penalty to the reserve, cTokens burned -/
  | reliquidated (ded : Int) : max0 (lv0.amtOut - e.target) ≠ 0 → 0 ≤ ded →
      cp.k.lv = some { amtIn := if ded ≥ lv0.amtIn then 0 else lv0.amtIn - ded, amtOut := max0 (lv0.amtOut - e.target),
                       updOut := max0 (lv0.updOut - e.target) } →
      cp.k.cPoolColl = k.cPoolColl - ded → cp.k.cOwnerColl = k.cOwnerColl → Outcome e k lv0 cp
  /-- the re-liquidation could not value the position (a price went inactive between two reads): nothing moves -/
  | stuck : max0 (lv0.amtOut - e.target) ≠ 0 →
      cp.k.lv = some { amtIn := lv0.amtIn, amtOut := max0 (lv0.amtOut - e.target), updOut := max0 (lv0.updOut - e.target) } →
      cp.k.cPoolColl = k.cPoolColl → cp.k.cOwnerColl = k.cOwnerColl → cp.redep = 0 → cp.pen2 = 0 → Outcome e k lv0 cp

theorem closeBook_ok {e : Env} {r : Rates} {k : Book} {x : Ext} {cp : ClosePlan} (h : closeBook e r k x = .ok cp) :
    ∃ lv0, k.lv = some lv0 ∧ cp.ri = riOf k ∧ 0 ≤ cp.redep ∧ 0 ≤ cp.pen2 ∧
      cp.k.cPoolDebt = k.cPoolDebt + mintOf k ∧ cp.k.minted = k.minted + mintOf k ∧ cp.k.toRes = k.toRes + riOf k ∧
      cp.k.redep = k.redep + cp.redep ∧ cp.k.pen2 = k.pen2 + cp.pen2 ∧ cp.k.fromRes = k.fromRes ∧
      Outcome e k lv0 cp := by
  unfold closeBook at h
  split at h
  · cases h
  · rename_i lv0 hlv
    refine ⟨lv0, hlv, ?_⟩
    simp only [] at h
    split at h
    · rename_i hz
      split at h
      · cases h
      · cases h
        refine ⟨rfl, Int.le_refl 0, Int.le_refl 0, rfl, rfl, rfl, by simp, by simp, rfl, ?_⟩
        exact Outcome.repaid hz rfl rfl rfl rfl rfl rfl
    · rename_i hnz
      split at h
      · rename_i hin
        cases h
        refine ⟨rfl, Int.le_refl 0, Int.le_refl 0, rfl, rfl, rfl, by simp, by simp, rfl, ?_⟩
        exact Outcome.exhausted hnz hin rfl rfl rfl rfl rfl rfl
      · split at h
        · cases h
        · rename_i cr hcr
          by_cases hgt : crVal cr > r.thr
          · rw [if_pos hgt] at h
            split at h
            · cases h
            · cases h
              refine ⟨rfl, Int.le_refl 0, Int.le_refl 0, rfl, rfl, rfl, by simp, by simp, rfl, ?_⟩
              exact Outcome.stuck hnz rfl rfl rfl rfl rfl
            · rename_i q hq
              obtain ⟨q1, q2, q3⟩ := reliq_nonneg hq
              split at h
              · cases h
              · cases h
                refine ⟨rfl, q1, q2, rfl, rfl, rfl, rfl, rfl, rfl, ?_⟩
                exact Outcome.reliquidated q.deduction hnz q3 rfl rfl rfl
          · rw [if_neg hgt] at h
            cases h
            refine ⟨rfl, Int.le_refl 0, Int.le_refl 0, rfl, rfl, rfl, by simp, by simp, rfl, ?_⟩
            exact Outcome.restored hnz rfl rfl rfl rfl rfl rfl rfl

/-- a bank in which only pool / reserve balances differ from `b` looks the same to everybody else -/
theorem three_sends {b b1 b2 b3 : Bank} {req ri pen2 : Int}
    (h1 : sendPos b .lendres .pool .debt req = .ok b1) (h2 : sendPos b1 .pool .lendres .debt ri = .ok b2)
    (h3 : sendPos b2 .pool .lendres .coll pen2 = .ok b3) :
    (∀ a d, a ≠ Acct.pool → a ≠ Acct.lendres → b3.get a d = b.get a d) ∧
    b3.get .pool .debt = b.get .pool .debt + DutchV2.posPart req - DutchV2.posPart ri ∧
    b3.get .lendres .debt = b.get .lendres .debt - DutchV2.posPart req + DutchV2.posPart ri ∧
    b3.get .pool .coll = b.get .pool .coll - DutchV2.posPart pen2 ∧
    b3.get .lendres .coll = b.get .lendres .coll + DutchV2.posPart pen2 := by
  have d1 := sendPos_ok h1 (by decide)
  have d2 := sendPos_ok h2 (by decide)
  have d3 := sendPos_ok h3 (by decide)
  refine ⟨?_, ?_, ?_, ?_, ?_⟩
  · intro a d ha hb
    rw [d3, d2, d1]; simp [ha, hb]
  · rw [d3, d2, d1]; simp
  · rw [d3, d2, d1]; simp
  · rw [d3, d2, d1]; simp
  · rw [d3, d2, d1]; simp

/-- what `DutchV1Lend.apply` does to the accounts the auction invariant does not speak about: the reserve is never touched, and a
CLOSING bid takes `redep` of the collateral out of the pool (into the auction module, counted as not this auction's) -/
theorem apply_lendside {e : Env} {s s' : DutchV1Lend.St} {a : Auc} {who : Nat} {p : Plan} {redep resBal : Int}
    (hp : PlanOK e a p) (h : apply e s a who p redep resBal = .ok s') :
    (∀ d, s'.bank.get .lendres d = s.bank.get .lendres d) ∧
    (s'.auc = none → 0 ≤ redep ∧ s'.bank.get .pool .coll = s.bank.get .pool .coll - redep ∧ s'.otherC = s.otherC + redep ∧
        (a.inCur + p.inAmt ≥ e.target ∨ (a.outCur - p.slice = 0 ∧ e.target - (a.inCur + p.inAmt) ≤ resBal))) ∧
    (s'.auc ≠ none → s'.bank.get .pool .coll = s.bank.get .pool .coll ∧ s'.otherC = s.otherC) := by
  have hsl := hp.slice_le
  unfold apply at h
  split at h
  · cases h
  · rename_i b1 hb1
    obtain ⟨_, _, d1⟩ := send_ok hb1 (by simp)
    split at h
    · cases h
    · rename_i b2 hb2
      obtain ⟨_, _, d2⟩ := send_ok hb2 (by decide)
      simp only [] at h
      split at h
      · rename_i hreach
        split at h
        · cases h
        · rename_i b3 hb3
          have d3 := sendPos_ok hb3 (by decide)
          split at h
          · cases h
          · rename_i b4 hb4
            obtain ⟨_, _, d4⟩ := send_ok hb4 (by simp)
            split at h
            · cases h
            · rename_i hrd
              split at h
              · cases h
              · rename_i b5 hb5
                have d5 := sendPos_ok hb5 (by decide)
                rw [DutchV2.posPart_of_nonneg (by omega : 0 ≤ redep)] at d5
                cases h
                refine ⟨?_, ?_, ?_⟩
                · intro d; simp only; rw [d5, d4, d3, d2, d1]; simp
                · intro _
                  refine ⟨by omega, ?_, rfl, Or.inl hreach⟩
                  simp only; rw [d5, d4, d3, d2, d1]; simp
                · intro hn; simp at hn
      · split at h
        · rename_i hzero
          split at h
          · cases h
          · rename_i hres
            split at h
            · cases h
            · rename_i b3 hb3
              obtain ⟨_, _, d3⟩ := send_ok hb3 (by simp)
              split at h
              · cases h
              · rename_i hrd
                split at h
                · cases h
                · rename_i b4 hb4
                  have d4 := sendPos_ok hb4 (by decide)
                  rw [DutchV2.posPart_of_nonneg (by omega : 0 ≤ redep)] at d4
                  cases h
                  refine ⟨?_, ?_, ?_⟩
                  · intro d; simp only; rw [d4, d3, d2, d1]; simp
                  · intro _
                    refine ⟨by omega, ?_, rfl, Or.inr ⟨hzero, by omega⟩⟩
                    simp only; rw [d4, d3, d2, d1]; simp
                  · intro hn; simp at hn
        · split at h
          · cases h
          · rename_i b3 hb3
            obtain ⟨_, _, d3⟩ := send_ok hb3 (by simp)
            cases h
            refine ⟨?_, ?_, ?_⟩
            · intro d; simp only; rw [d3, d2, d1]; simp
            · intro hn; simp at hn
            · intro _
              refine ⟨?_, rfl⟩
              simp only; rw [d3, d2, d1]; simp

/-- a bid never writes `otherD` -/
theorem apply_otherD {e : Env} {s s' : DutchV1Lend.St} {a : Auc} {who : Nat} {p : Plan} {redep resBal : Int}
    (h : apply e s a who p redep resBal = .ok s') : s'.otherD = s.otherD := by
  unfold apply at h
  simp only [] at h
  iterate 12 (all_goals (try (split at h)))
  all_goals (first | (cases h; rfl) | cases h)

/-- **the closing bid of a first-generation lend auction, account by account and record by record** -/
theorem bidE_close {e : Env} {r : Rates} {s s' : BSt} {who : Nat} {slice : Int} {x : Ext} {a : Auc}
    (hb : (0 : Int) ≤ e.bonus) (hi : Inv e s.s) (ha : s.s.auc = some a)
    (h : bidE e r s who slice x = .ok s') (hc : s'.s.auc = none) :
    ∃ p cp lv0, plan e a slice = .ok p ∧ closeBook e r s.k x = .ok cp ∧ s.k.lv = some lv0 ∧ Outcome e s.k lv0 cp ∧
      Inv e s'.s ∧ s'.s.paid = s.s.paid + p.inAmt ∧ s'.s.otherD = s.s.otherD ∧
      (∃ req, 0 ≤ req ∧ (a.inCur + p.inAmt ≥ e.target → req = 0) ∧ (a.inCur + p.inAmt < e.target → req = e.target - (a.inCur + p.inAmt)) ∧
        s'.s.bank.get .pool .debt = s.s.bank.get .pool .debt + p.inAmt + req - riOf s.k ∧
        s'.s.bank.get .lendres .debt = s.s.bank.get .lendres .debt - req + riOf s.k ∧
        s'.k.fromRes = s.k.fromRes + req) ∧
      s'.s.bank.get .pool .coll = s.s.bank.get .pool .coll - cp.redep - cp.pen2 ∧
      s'.s.bank.get .lendres .coll = s.s.bank.get .lendres .coll + cp.pen2 ∧
      s'.s.otherC = s.s.otherC + cp.redep ∧
      s'.k.lv = cp.k.lv ∧ s'.k.borrow = cp.k.borrow ∧ s'.k.liquidated = cp.k.liquidated ∧
      s'.k.cPoolDebt = s.k.cPoolDebt + mintOf s.k ∧ s'.k.cPoolColl = cp.k.cPoolColl ∧ s'.k.cOwnerColl = cp.k.cOwnerColl ∧
      s'.k.toRes = s.k.toRes + riOf s.k ∧
      (∀ n, s'.s.bank.get (.bidder n) .debt = s.s.bank.get (.bidder n) .debt - (if n = who then p.inAmt else 0)) ∧
      s'.s.bank.get .owner .coll - s.s.bank.get .owner .coll = e.coll0 - (s'.s.recv - s'.s.bonusPaid) := by
  unfold bidE at h
  split at h
  · cases h
  · rename_i a2 ha2
    rw [ha] at ha2
    have hEq : a = a2 := Option.some.inj ha2
    subst hEq
    split at h
    · cases h
    · rename_i p hp
      have hpo := plan_ok hb hp
      simp only [] at h
      split at h
      · rename_i hclose
        split at h
        · cases h
        · rename_i cp hcp
          obtain ⟨lv0, hlv, c1, c2, c3, c4, c5, c6, c7, c8, c9, hout⟩ := closeBook_ok hcp
          split at h
          · cases h
          · rename_i s1 hs1
            obtain ⟨i1, m1, m2, m3, m4, m5, m6, m7⟩ := apply_ok hb hi ha hpo hs1
            obtain ⟨l1, l2, _⟩ := apply_lendside hpo hs1
            split at h
            · cases h
            · rename_i b1 hb1
              split at h
              · cases h
              · rename_i b2 hb2
                split at h
                · cases h
                · rename_i b3 hb3
                  cases h
                  obtain ⟨t0, t1, t2, t3, t4⟩ := three_sends hb1 hb2 hb3
                  have hs1c : s1.auc = none := by simpa using hc
                  obtain ⟨r0, r1, r2, _⟩ := l2 hs1c
                  have hri : 0 ≤ cp.ri := by rw [c1]; exact riOf_nonneg _
                  refine ⟨p, cp, lv0, hp, hcp, hlv, hout, ?_, m1, (apply_otherD hs1 : s1.otherD = s.s.otherD), ?_, ?_, ?_, ?_, rfl, rfl, rfl, c4, rfl, rfl, ?_, ?_, ?_⟩
                  · -- the invariant speaks about the auction module only
                    refine ⟨i1.paid_nonneg, i1.bonus_nonneg, i1.sold_nonneg, i1.bonus_le, ?_, ?_, ?_⟩
                    · show b3.get .auction .debt = s1.otherD
                      rw [t0 _ _ (by decide) (by decide)]; exact i1.debt_custody
                    · intro a' ha'; rw [show ({ s1 with bank := b3 } : DutchV1Lend.St).auc = s1.auc from rfl, hs1c] at ha'; cases ha'
                    · intro _
                      obtain ⟨q1, q2, q3⟩ := i1.closed hs1c
                      refine ⟨q1, q2, ?_⟩
                      show b3.get .auction .coll = _
                      rw [t0 _ _ (by decide) (by decide)]; exact q3
                  · by_cases hreach : a.inCur + p.inAmt ≥ e.target
                    · refine ⟨0, Int.le_refl 0, fun _ => rfl, fun hlt => by omega, ?_, ?_, ?_⟩
                      · show b3.get .pool .debt = _
                        simp only [hreach, if_true] at t1
                        rw [t1, m6, DutchV2.posPart_of_nonneg hri, c1]; simp [DutchV2.posPart]
                      · show b3.get .lendres .debt = _
                        simp only [hreach, if_true] at t2
                        rw [t2, l1, DutchV2.posPart_of_nonneg hri, c1]; simp [DutchV2.posPart]
                      · show cp.k.fromRes + _ = _
                        simp only [hreach, if_true]; rw [c9]
                    · have hlt : a.inCur + p.inAmt < e.target := by omega
                      have hreq : 0 ≤ e.target - (a.inCur + p.inAmt) := by omega
                      refine ⟨e.target - (a.inCur + p.inAmt), hreq, fun hge => by omega, fun _ => rfl, ?_, ?_, ?_⟩
                      · show b3.get .pool .debt = _
                        simp only [hreach, if_false] at t1
                        rw [t1, m6, DutchV2.posPart_of_nonneg hri, DutchV2.posPart_of_nonneg hreq, c1]
                      · show b3.get .lendres .debt = _
                        simp only [hreach, if_false] at t2
                        rw [t2, l1, DutchV2.posPart_of_nonneg hri, DutchV2.posPart_of_nonneg hreq, c1]
                      · show cp.k.fromRes + _ = _
                        simp only [hreach, if_false]; rw [c9]
                  · show b3.get .pool .coll = _
                    rw [t3, r1, DutchV2.posPart_of_nonneg c3]
                  · show b3.get .lendres .coll = _
                    rw [t4, l1, DutchV2.posPart_of_nonneg c3]
                  · exact r2
                  · show cp.k.toRes = _
                    exact c6
                  · intro n
                    show b3.get (.bidder n) .debt = _
                    rw [t0 _ _ (by simp) (by simp)]
                    by_cases hn : n = who
                    · subst hn; simp [m3]
                    · simp [hn, (m5 n hn).2]
                  · show b3.get .owner .coll - _ = _
                    rw [t0 _ _ (by decide) (by decide)]
                    exact m7 hs1c
      · rename_i hnc
        split at h
        · cases h
        · rename_i s1 hs1
          cases h
          -- a bid that does not meet the closing condition leaves the auction open
          exfalso
          obtain ⟨i1, _⟩ := apply_ok hb hi ha hpo hs1
          have hopen : s1.auc ≠ none := by
            unfold apply at hs1
            split at hs1
            · cases hs1
            · split at hs1
              · cases hs1
              · simp only [] at hs1
                have h1 : ¬ (a.inCur + p.inAmt ≥ e.target) := by intro hx; exact hnc (Or.inl hx)
                have h2 : ¬ (a.outCur - p.slice = 0) := by intro hx; exact hnc (Or.inr hx)
                simp only [h1, h2, if_false] at hs1
                split at hs1
                · cases hs1
                · cases hs1; simp
          exact hopen hc


end Comdex.DutchV1LendBook