import Comdex.Lemmas.LiqSolvent
/-!
The matching flows of the liquidity ledger without any premise on the match results: what a batch adds to the ghost
accounts exactly, and the bound `mOut ≤ mIn + lost`, where `lost` sums — over the history — what each observed match
result handed out beyond what it took in (0 for a conserving result; the dropped remainder of defect D2 otherwise).
Core Lean only.
-/
namespace Comdex.LiqLedger

/-- what a match result handed out beyond what it took in, quote side / base side -/
def defQ (m : MatchIn) : Nat := outQ m - inQ m
def defB (m : MatchIn) : Nat := outB m - inB m

theorem deficit_zero_of_conserving {m : MatchIn} (h : MatchConserving m) : defQ m = 0 ∧ defB m = 0 := by
  unfold defQ defB; obtain ⟨h1, h2⟩ := h; omega

/-- **exact effect of `ApplyMatchResult` on the flow accounts** of every pair and denom -/
theorem applyMatch_ghost {cfg : Cfg} {s s' : State} {p : Pair} {m : MatchIn} (h : applyMatch cfg s p m = some s')
    (a q : Nat) (d : Denom) :
    s'.bal (.mIn a q) d = s.bal (.mIn a q) d +
      (if p.app = a ∧ p.id = q then (if p.quote = d then inQ m else 0) + (if p.base = d then inB m else 0) else 0) ∧
    s'.bal (.mOut a q) d = s.bal (.mOut a q) d +
      (if p.app = a ∧ p.id = q then (if p.quote = d then outQ m else 0) + (if p.base = d then outB m else 0) else 0) := by
  unfold applyMatch at h
  split at h; · cases h
  rename_i s1 h1
  split at h; · cases h
  rename_i s2 h2
  split at h; · cases h
  rename_i s3 h3
  split at h; · cases h
  rename_i s4 h4
  split at h; · cases h
  rename_i s5 h5
  cases h
  have e1 := fold_ghost (fun (f : PoolFlow) a q d => if (p.app = a ∧ p.id = q) ∧ sideIn p f.buy = d then f.paid else 0) (fun _ _ _ _ => 0)
    (fun s x s' hh => ghost_poolPayIn hh) _ _ _ h1 a q d
  have e2 := fold_ghost (fun (f : Fill) a q d => if (p.app = a ∧ p.id = q) ∧ sideIn p f.buy = d then f.paid else 0) (fun _ _ _ _ => 0)
    (fun s x s' hh => ghost_fillOrder hh) _ _ _ h2 a q d
  have e3 := fold_ghost (fun _ _ _ _ => 0) (fun (f : Fill) a q d => if (p.app = a ∧ p.id = q) ∧ sideOut p f.buy = d then f.recv else 0)
    (fun s x s' hh => ghost_fillPayOut hh) _ _ _ h3 a q d
  have e4 := fold_ghost (fun _ _ _ _ => 0) (fun (f : PoolFlow) a q d => if (p.app = a ∧ p.id = q) ∧ sideOut p f.buy = d then f.recv else 0)
    (fun s x s' hh => ghost_poolPayOut hh) _ _ _ h4 a q d
  have g5 := gs_send (by ng) (by ng) h5 a q d
  have c5 := ghost_credit_out s5 p.app p.id p.quote m.dust a q d
  rw [c5.1, c5.2, g5.1, g5.2]
  simp only [sumOver_zero, Nat.add_zero] at e1 e2 e3 e4
  by_cases hk : p.app = a ∧ p.id = q
  · simp only [hk, true_and] at e1 e2 e3 e4 ⊢
    unfold sideIn at e1 e2
    unfold sideOut at e3 e4
    rw [sumOver_side] at e1 e2 e3 e4
    unfold inQ inB outQ outB
    by_cases hX : p.quote = d <;> by_cases hY : p.base = d <;> simp [hX, hY] at e1 e2 e3 e4 ⊢ <;> omega
  · have z : ∀ (α : Type) (F : α → Nat) (l : List α) (c : α → Prop) [∀ x, Decidable (c x)],
        sumOver (fun x => if (p.app = a ∧ p.id = q) ∧ c x then F x else 0) l = 0 := by
      intro α F l c _
      have : (fun x => if (p.app = a ∧ p.id = q) ∧ c x then F x else 0) = fun _ => 0 := by
        funext x; simp [hk]
      rw [this, sumOver_zero]
    rw [z] at e1 e2 e3 e4
    simp [hk]
    omega

/-- deficit of the match results given for pair id `p` in one EndBlocker call -/
def batchLost (ms : List MatchIn) (p : Nat) : Nat := sumOver (fun m => if m.pair = p then defQ m + defB m else 0) ms

theorem used_match_le (ms : List MatchIn) (p : Nat) :
    defQ ((ms.find? (·.pair == p)).getD (emptyMatch p)) + defB ((ms.find? (·.pair == p)).getD (emptyMatch p)) ≤ batchLost ms p := by
  cases hf : ms.find? (·.pair == p) with
  | none => simp [emptyMatch, defQ, defB, inQ, inB, outQ, outB, sumOver]
  | some m =>
    have hm := List.mem_of_find?_eq_some hf
    have hp : m.pair = p := by simpa using List.find?_some hf
    have := sumOver_le_of_mem (fun m => if m.pair = p then defQ m + defB m else 0) hm
    simpa [batchLost, hp] using this

/-- one pair's matching step: the slack between `mOut` and `mIn` grows by at most the deficit of that pair's result -/
theorem execMatching_slack {cfg : Cfg} {ms : List MatchIn} {s s' : State} {pk : Nat × Nat}
    (h : execMatching cfg ms s pk = some s') (a q : Nat) (d : Denom) (K : Nat)
    (hK : s.bal (.mOut a q) d ≤ s.bal (.mIn a q) d + K) :
    s'.bal (.mOut a q) d ≤ s'.bal (.mIn a q) d + K + (if pk = (a, q) then batchLost ms q else 0) := by
  unfold execMatching at h
  split at h; · cases h
  rename_i p hp
  simp only [] at h
  split at h; · cases h
  rename_i s1 h1
  split at h; · cases h
  rename_i s3 h3
  cases h
  obtain ⟨-, hpa, hpi⟩ := pair?_some hp
  have g1 := gs_fold (fun s x s' hh => gs_prePass hh) _ _ _ h1 a q d
  have e := applyMatch_ghost h3 a q d
  have hu := used_match_le ms p.id
  show s3.bal _ _ ≤ s3.bal _ _ + K + _
  rw [e.1, e.2]
  have b1 : (markDepleted s1 p).bal (.mIn a q) d = s.bal (.mIn a q) d := g1.1
  have b2 : (markDepleted s1 p).bal (.mOut a q) d = s.bal (.mOut a q) d := g1.2
  rw [b1, b2]
  generalize (ms.find? (·.pair == p.id)).getD (emptyMatch p.id) = m at hu ⊢
  unfold defQ defB at hu
  by_cases hk : p.app = a ∧ p.id = q
  · have hpk : pk = (a, q) := by
      obtain ⟨x, y⟩ := pk
      simp only at hpa hpi
      rw [← hpa, ← hpi, hk.1, hk.2]
    obtain ⟨rfl, rfl⟩ := hk
    simp only [hpk, and_self, if_true]
    by_cases hX : p.quote = d <;> by_cases hY : p.base = d <;> simp [hX, hY] <;> omega
  · have hpk : ¬ pk = (a, q) := by
      intro e; apply hk
      obtain ⟨x, y⟩ := pk
      simp only [Prod.mk.injEq] at e
      simp only at hpa hpi
      exact ⟨hpa.trans e.1, hpi.trans e.2⟩
    simp [hk, hpk]
    exact hK

theorem dedupKeys_nodup : ∀ l : List (Nat × Nat), (dedupKeys l).Nodup := by
  intro l
  induction l with
  | nil => simp [dedupKeys]
  | cons x t ih =>
    simp only [dedupKeys]
    split
    · exact ih
    · rename_i hx; exact List.nodup_cons.mpr ⟨hx, ih⟩

theorem fold_execMatching_slack {cfg : Cfg} {ms : List MatchIn} :
    ∀ (pks : List (Nat × Nat)), pks.Nodup → ∀ (s s' : State), foldOpt (execMatching cfg ms) s pks = some s' →
    ∀ (a q : Nat) (d : Denom) (K : Nat), s.bal (.mOut a q) d ≤ s.bal (.mIn a q) d + K →
      s'.bal (.mOut a q) d ≤ s'.bal (.mIn a q) d + K + (if (a, q) ∈ pks then batchLost ms q else 0) := by
  intro pks
  induction pks with
  | nil => intro _ s s' h a q d K hK; simp [foldOpt] at h; subst h; simpa using hK
  | cons pk t ih =>
    intro hnd s s' h a q d K hK
    simp only [foldOpt] at h
    cases hx : execMatching cfg ms s pk with
    | none => simp [hx] at h
    | some s1 =>
      simp [hx] at h
      obtain ⟨hnot, hndt⟩ := List.nodup_cons.mp hnd
      have e1 := execMatching_slack hx a q d K hK
      have e2 := ih hndt s1 s' h a q d (K + (if pk = (a, q) then batchLost ms q else 0)) (by omega)
      by_cases hpk : pk = (a, q)
      · have : (a, q) ∉ t := by rw [← hpk]; exact hnot
        simp only [hpk, if_true, this, if_false, List.mem_cons, true_or] at e2 ⊢
        omega
      · have hpk' : ¬ (a, q) = pk := fun e => hpk e.symm
        simp only [hpk, if_false, List.mem_cons, hpk', false_or] at e2 ⊢
        omega

/-- one app's EndBlocker: the slack of pair `(a, q)` grows by at most that pair's deficit in this call -/
theorem endBlock_slack {cfg : Cfg} {s s' : State} {app : Nat} {ms : List MatchIn} {dins : List DepIn} {wins : List WdrIn}
    (h : endBlock cfg s app ms dins wins = some s') (a q : Nat) (d : Denom) (K : Nat)
    (hK : s.bal (.mOut a q) d ≤ s.bal (.mIn a q) d + K) :
    s'.bal (.mOut a q) d ≤ s'.bal (.mIn a q) d + K + (if app = a then batchLost ms q else 0) := by
  unfold endBlock at h
  split at h; · cases h
  split at h
  · cases h; omega
  simp only [] at h
  split at h; · cases h
  rename_i s1 h1
  split at h; · cases h
  rename_i s2 h2
  split at h; · cases h
  rename_i s3 h3
  split at h; · cases h
  rename_i s4 h4
  cases h
  have i1 := fold_execMatching_slack _ (dedupKeys_nodup _) _ _ h1 a q d K hK
  have g2 := gs_fold (fun s x s' hh => gs_sweep hh) _ _ _ h2 a q d
  have g3 := gs_fold (f := execDepStep dins) (fun s x s' hh => by unfold execDepStep at hh; exact gs_execDeposit hh) _ _ _ h3 a q d
  have g4 := gs_fold (f := execWdrStep wins) (fun s x s' hh => by unfold execWdrStep at hh; exact gs_execWithdraw hh) _ _ _ h4 a q d
  show s4.bal _ _ ≤ s4.bal _ _ + K + _
  rw [g4.1, g4.2, g3.1, g3.2, g2.1, g2.2]
  have hmem : (a, q) ∈ dedupKeys ((s.pairs.filter (·.app == app)).map fun p => (p.app, p.id)) → app = a := by
    intro hm
    have sub : ∀ (l : List (Nat × Nat)) x, x ∈ dedupKeys l → x ∈ l := by
      intro l
      induction l with
      | nil => intro x hx; simp [dedupKeys] at hx
      | cons y t ih =>
        intro x hx
        simp only [dedupKeys] at hx
        split at hx
        · exact List.mem_cons_of_mem _ (ih x hx)
        · rcases List.mem_cons.mp hx with rfl | hx
          · simp
          · exact List.mem_cons_of_mem _ (ih x hx)
    have := sub _ _ hm
    simp only [List.mem_map, List.mem_filter] at this
    obtain ⟨p, ⟨_, hp⟩, he⟩ := this
    have hpa : p.app = app := by simpa using hp
    simp only [Prod.mk.injEq] at he
    exact hpa.symm.trans he.1
  by_cases happ : app = a
  · simp only [happ, if_true]
    split at i1 <;> omega
  · have : ¬ (a, q) ∈ dedupKeys ((s.pairs.filter (·.app == app)).map fun p => (p.app, p.id)) := fun hm => happ (hmem hm)
    simp only [this, if_false, happ] at i1 ⊢
    omega

/-- what the observed match results of pair `(a, p)` handed out beyond what they took in, over a whole history -/
def lostOf (a p : Nat) : List Op → Nat
  | [] => 0
  | .endBlock a' ms _ _ :: t => (if a' = a then batchLost ms p else 0) + lostOf a p t
  | _ :: t => lostOf a p t

theorem lostOf_zero_of_conserving (a p : Nat) : ∀ (ops : List Op), (∀ op ∈ ops, OpConserving op) → lostOf a p ops = 0 := by
  intro ops
  induction ops with
  | nil => intro _; rfl
  | cons op t ih =>
    intro h
    have iht := ih (fun o ho => h o (by simp [ho]))
    cases op <;> simp only [lostOf, iht] <;> try rfl
    rename_i a' ms ds ws
    have hc : ∀ m ∈ ms, MatchConserving m := h (.endBlock a' ms ds ws) (by simp)
    have : batchLost ms p = 0 := by
      unfold batchLost
      have : sumOver (fun m => if m.pair = p then defQ m + defB m else 0) ms = sumOver (fun _ : MatchIn => 0) ms := by
        apply sumOver_congr
        intro m hm
        obtain ⟨z1, z2⟩ := deficit_zero_of_conserving (hc m hm)
        simp [z1, z2]
      rw [this, sumOver_zero]
    simp [this]

theorem stepT_slack {cfg : Cfg} (s : State) (op : Op) (a q : Nat) (d : Denom) (K : Nat)
    (hK : s.bal (.mOut a q) d ≤ s.bal (.mIn a q) d + K) :
    (stepT cfg s op).bal (.mOut a q) d ≤ (stepT cfg s op).bal (.mIn a q) d + K + lostOf a q [op] := by
  unfold stepT
  cases h : step cfg s op with
  | none => simp only [Option.getD_none]; omega
  | some s' =>
    simp only [Option.getD_some]
    have same : GhostSame s s' → s'.bal (.mOut a q) d ≤ s'.bal (.mIn a q) d + K + lostOf a q [op] := by
      intro g; rw [(g a q d).1, (g a q d).2]; omega
    cases op with
    | block ht t => simp only [step, Option.some.injEq] at h; subst h; exact same (GhostSame.of_bank rfl)
    | createPair a' c b q' e => exact same (gs_createPair h)
    | createPool a' c p r dx dy ps e => exact same (gs_createPool h)
    | deposit a' u p dx dy e =>
      simp only [step] at h
      cases hd : depositReq cfg s a' u p dx dy e with
      | none => simp [hd] at h
      | some r => obtain ⟨s1, id⟩ := r; simp [hd] at h; subst h; exact same (gs_depositReq hd)
    | withdraw a' u p pc e =>
      simp only [step] at h
      cases hd : withdrawReq cfg s a' u p pc e with
      | none => simp [hd] at h
      | some r => obtain ⟨s1, id⟩ := r; simp [hd] at h; subst h; exact same (gs_withdrawReq hd)
    | order a' u p t b od dd mo mp am l => obtain ⟨_, _, h⟩ := placeOrderMsg_core h; exact same (gs_placeOrder h)
    | mmOrder a' u p xs ns sa xb nb ba l => obtain ⟨_, _, h⟩ := mmOrderMsg_core h; exact same (gs_mmOrder h)
    | cancel a' u p i => exact same (gs_cancelOrder h)
    | cancelAll a' u ps => exact same (gs_cancelAll h)
    | cancelMM a' u p => exact same (gs_cancelMM h)
    | farm a' u p n e => exact same (gs_farm h)
    | unfarm a' u p n e => exact same (gs_unfarm h)
    | depositAndFarm a' u p dx dy ax ay pc e => exact same (gs_depositAndFarm h)
    | unfarmAndWithdraw a' u p n x y e => exact same (gs_unfarmAndWithdraw h)
    | endBlock a' ms ds ws =>
      have := endBlock_slack h a q d K hK
      simp only [lostOf, Nat.add_zero]
      exact this
    | beginBlock a' => simp only [step, Option.some.injEq] at h; subst h; exact same (GhostSame.of_bank rfl)
    | migrate => exact same (gs_migrate h)

theorem lostOf_cons (a p : Nat) (op : Op) (ops : List Op) : lostOf a p (op :: ops) = lostOf a p [op] + lostOf a p ops := by
  cases op <;> simp [lostOf]

/-- **over any history** the matching flows of a pair satisfy `mOut ≤ mIn + lost`, no premise on the match results -/
theorem runT_slack {cfg : Cfg} (a q : Nat) (d : Denom) : ∀ (ops : List Op) (s : State) (K : Nat),
    s.bal (.mOut a q) d ≤ s.bal (.mIn a q) d + K →
    (runT cfg s ops).bal (.mOut a q) d ≤ (runT cfg s ops).bal (.mIn a q) d + K + lostOf a q ops := by
  intro ops
  induction ops with
  | nil => intro s K h; simpa [runT, lostOf] using h
  | cons op ops ih =>
    intro s K h
    have h1 := stepT_slack (cfg := cfg) s op a q d K h
    have h2 := ih (stepT cfg s op) (K + lostOf a q [op]) (by omega)
    rw [lostOf_cons]
    show (runT cfg (stepT cfg s op) ops).bal _ _ ≤ (runT cfg (stepT cfg s op) ops).bal _ _ + K + _
    omega

/-- escrow ≥ claims of the live orders − lost -/
theorem escrow_ge_live_offset {cfg : Cfg} {s : State} (hi : Inv cfg s) (a p : Nat) (d : Denom) (L : Nat)
    (hL : s.bal (.mOut a p) d ≤ s.bal (.mIn a p) d + L) :
    liveSum cfg a p d s.orders ≤ s.bal (.pairEscrow a p) d + L := by
  have := hi.pairEsc a p d
  omega

end Comdex.LiqLedger
