import Comdex.Model.AmmKeeper
import Comdex.Lemmas.AmmFindPriceBook
import Comdex.Lemmas.AmmMatchExact
/-!
Lemmas for C05, part 10: the keeper's glue. A stored order stays within its amount, its offer coin and its limit price through
`NewUserOrder` → matcher → `ApplyMatchResult` → expiry, for any number of batches.
-/
namespace Comdex.Amm
open Comdex

/-! ## the invariant of a stored order -/

/-- what every stored order satisfies at every moment of every run (`SInv`): the amounts the property speaks about -/
structure SInv (prec : Nat) (so : SOrder) : Prop where
  price_pos : 0 < so.price
  grid : ∃ k, k ≤ hiIdx prec ∧ so.price = ((T prec k : Nat) : Int)
  open_nonneg : 0 ≤ so.openAmt
  open_le : so.openAmt ≤ so.amount
  rem_nonneg : 0 ≤ so.remaining
  rem_le : so.remaining ≤ so.offer
  recv_nonneg : 0 ≤ so.received
  buy_recv : so.dir = .buy → so.received = so.amount - so.openAmt
  sell_paid : so.dir = .sell → so.offer - so.remaining = so.amount - so.openAmt ∧ so.openAmt ≤ so.remaining
  buy_limit : so.dir = .buy →
    (so.offer - so.remaining) * Dec.P ≤ so.price * (so.amount - so.openAmt) + (so.fills : Int) * (Dec.P - 1)
  sell_limit : so.dir = .sell →
    so.price * (so.amount - so.openAmt) ≤ so.received * Dec.P + (so.fills : Int) * (Dec.P - 1)

theorem SInv.monitors {prec : Nat} {so : SOrder} (h : SInv prec so) :
    monOrderWithinAmount so = true ∧ monOrderLimit so = true := by
  unfold monOrderWithinAmount monOrderLimit
  have h1 := h.open_nonneg; have h2 := h.open_le; have h3 := h.rem_nonneg; have h4 := h.rem_le; have h5 := h.recv_nonneg
  cases hd : so.dir with
  | buy =>
    have h6 := h.buy_recv hd
    have h7 := h.buy_limit hd
    simp only [Bool.and_eq_true, decide_eq_true_eq]
    exact ⟨⟨⟨⟨⟨⟨h1, h2⟩, h3⟩, h4⟩, h5⟩, by omega, h6⟩, h7⟩
  | sell =>
    have h6 := (h.sell_paid hd).1
    have h7 := h.sell_limit hd
    simp only [Bool.and_eq_true, decide_eq_true_eq]
    exact ⟨⟨⟨⟨⟨⟨h1, h2⟩, h3⟩, h4⟩, h5⟩, h6⟩, h7⟩

/-- the amm order `NewUserOrder` builds from a stored order is well-formed -/
theorem newUserOrder_wf {prec : Nat} {so : SOrder} (h : SInv prec so) : Wf (newUserOrder so) := by
  have haff := affordable_nonneg so.remaining so.price h.rem_nonneg h.price_pos
  have h1 := h.open_nonneg
  unfold newUserOrder
  cases hd : so.dir with
  | buy =>
    refine ⟨h.price_pos, Int.le_refl _, ?_, Int.le_refl _, ?_⟩
    · simp only; omega
    · simp only; have := h.rem_nonneg; simp [hd]; omega
  | sell =>
    have := (h.sell_paid hd).2
    refine ⟨h.price_pos, Int.le_refl _, ?_, Int.le_refl _, ?_⟩
    · simp only; exact h1
    · simp only; simp [hd]; omega

theorem newUserOrder_fields (so : SOrder) :
    (newUserOrder so).id = so.id ∧ (newUserOrder so).dir = so.dir ∧ (newUserOrder so).price = so.price ∧
    (newUserOrder so).offer = so.remaining ∧ (newUserOrder so).paid = 0 ∧ (newUserOrder so).received = 0 ∧
    (newUserOrder so).fills = 0 ∧ (newUserOrder so).opn = (newUserOrder so).amount ∧
    (newUserOrder so).amount ≤ so.openAmt := by
  unfold newUserOrder
  refine ⟨rfl, rfl, rfl, rfl, rfl, rfl, rfl, rfl, ?_⟩
  cases so.dir <;> simp only <;> omega

/-- **the write-back of a match result keeps the stored order within its amount and its limit**: `o'` is the amm order built from
`so` after allowed fills (`Delta`) -/
theorem writeBack_inv {prec : Nat} {so : SOrder} (h : SInv prec so) (res : List Order)
    (hres : ∀ o' ∈ res, o'.id = so.id → Delta (newUserOrder so) o') : SInv prec (writeBack so res) := by
  unfold writeBack
  cases hf : res.find? (fun o => o.id == so.id) with
  | none => exact h
  | some o' =>
    simp only
    have hmem := List.mem_of_find?_eq_some hf
    have hid : o'.id = so.id := by
      have := List.find?_some hf
      simpa using this
    have d := hres o' hmem hid
    obtain ⟨f1, f2, f3, f4, f5, f6, f7, f8, f9⟩ := newUserOrder_fields so
    by_cases hm : o'.isMatched = true
    · rw [if_pos hm]
      have w := d.wf
      have e_amt := d.amount_eq
      have e_off := d.offer_eq
      have e_dir := d.dir_eq
      have hopn0 := w.opn_nonneg
      have hopn1 := d.opn_le
      have hpaid0 := d.paid_ge
      have hrecv0 := d.recv_ge
      have hfill := d.fills_ge
      rw [f5] at hpaid0; rw [f6] at hrecv0; rw [f8] at hopn1
      have hpl := w.paid_le
      rw [e_off, f4] at hpl
      have g1 := h.open_nonneg; have g2 := h.open_le; have g3 := h.rem_nonneg; have g4 := h.rem_le; have g5 := h.recv_nonneg
      cases hd : so.dir with
      | buy =>
        have hb : (newUserOrder so).dir = .buy := by rw [f2]; exact hd
        have hbr := d.buy_recv hb
        have hbp := d.buy_price hb
        rw [f6, f8] at hbr
        rw [f5, f3, f8, f7] at hbp
        have hb' : o'.dir = .buy := by rw [e_dir]; exact hb
        simp only [hb', if_neg, reduceCtorEq] at hpl
        have g6 := h.buy_recv hd
        have g7 := h.buy_limit hd
        refine ⟨h.price_pos, h.grid, ?_, ?_, ?_, ?_, ?_, ?_, ?_, ?_, ?_⟩
        · simp only; omega
        · simp only; omega
        · simp only; omega
        · simp only; omega
        · simp only; omega
        · intro _; simp only; omega
        · intro hs; simp only [hd] at hs; cases hs
        · intro _
          simp only
          push_cast
          rw [e_amt]
          have e1 : so.price * (so.amount - (so.openAmt - ((newUserOrder so).amount - o'.opn))) =
              so.price * (so.amount - so.openAmt) + so.price * ((newUserOrder so).amount - o'.opn) := by ring
          have e2 : (so.offer - (so.remaining - o'.paid)) * Dec.P =
              (so.offer - so.remaining) * Dec.P + (o'.paid - 0) * Dec.P := by ring
          have e3 : ((so.fills : Int) + (o'.fills : Int)) * (Dec.P - 1) =
              (so.fills : Int) * (Dec.P - 1) + ((o'.fills : Int) - ((0 : Nat) : Int)) * (Dec.P - 1) := by push_cast; ring
          rw [e1, e2, e3]
          linarith
        · intro hs; simp only [hd] at hs; cases hs
      | sell =>
        have hs : (newUserOrder so).dir = .sell := by rw [f2]; exact hd
        have hsp := d.sell_paid hs
        have hsl := d.sell_price hs
        rw [f5, f8] at hsp
        rw [f6, f3, f8, f7] at hsl
        have g6 := h.sell_paid hd
        have g7 := h.sell_limit hd
        refine ⟨h.price_pos, h.grid, ?_, ?_, ?_, ?_, ?_, ?_, ?_, ?_, ?_⟩
        · simp only; omega
        · simp only; omega
        · simp only; omega
        · simp only; omega
        · simp only; omega
        · intro hb; simp only [hd] at hb; cases hb
        · intro _; simp only; omega
        · intro hb; simp only [hd] at hb; cases hb
        · intro _
          simp only
          push_cast
          rw [e_amt]
          have e1 : so.price * (so.amount - (so.openAmt - ((newUserOrder so).amount - o'.opn))) =
              so.price * (so.amount - so.openAmt) + so.price * ((newUserOrder so).amount - o'.opn) := by ring
          have e2 : (so.received + o'.received) * Dec.P = so.received * Dec.P + (o'.received - 0) * Dec.P := by ring
          have e3 : ((so.fills : Int) + (o'.fills : Int)) * (Dec.P - 1) =
              (so.fills : Int) * (Dec.P - 1) + ((o'.fills : Int) - ((0 : Nat) : Int)) * (Dec.P - 1) := by push_cast; ring
          rw [e1, e2, e3]
          linarith
    · rw [if_neg hm]; exact h


/-! ## the matcher as the keeper calls it -/

/-- the price of the last matching iteration of the two-sided loop is positive -/
theorem matchLoop_last_pos (fuel : Nat) (incr : Bool) (bs ss : List Tick)
    (hb : ∀ t ∈ bs, TickOk .buy t) (hs : ∀ t ∈ ss, TickOk .sell t)
    (r : LoopRes) (h : matchLoop fuel incr bs ss = some r) : ∀ m : Int, r.last = some m → 0 < m := by
  induction fuel generalizing bs ss r with
  | zero => unfold matchLoop at h; cases h; intro m hm; cases hm
  | succ fuel ih =>
    cases bs with
    | nil => unfold matchLoop at h; cases h; intro m hm; cases hm
    | cons bt bts =>
      cases ss with
      | nil => unfold matchLoop at h; cases h; intro m hm; cases hm
      | cons st sts =>
        have hbt := hb bt (by simp)
        have hst := hs st (by simp)
        have hbts : ∀ t ∈ bts, TickOk .buy t := fun t ht => hb t (by simp [ht])
        have hsts : ∀ t ∈ sts, TickOk .sell t := fun t ht => hs t (by simp [ht])
        unfold matchLoop at h
        simp only at h
        generalize hpd : (if incr = true then st.price else bt.price) = p at *
        split at h
        · cases h; intro m hm; cases hm
        · rename_i hcross
          split at h
          · cases hr : matchLoop fuel incr bts (st :: sts) with
            | none => rw [hr] at h; cases h
            | some r' => rw [hr] at h; cases h; exact ih bts (st :: sts) hbts hs r' hr
          · rename_i hbo
            split at h
            · cases hr : matchLoop fuel incr (bt :: bts) sts with
              | none => rw [hr] at h; cases h
              | some r' => rw [hr] at h; cases h; exact ih (bt :: bts) sts hb hsts r' hr
            · rename_i hso
              have hbo' : 0 < totalMatchable bt.orders p := by omega
              have hso' : 0 < totalMatchable st.orders p := by omega
              have hbp := tick_price_pos hbt p hbo'
              have hsp := tick_price_pos hst p hso'
              have hp : 0 < p := by rw [← hpd]; split <;> assumption
              have hpb : p ≤ bt.price := by rw [← hpd]; split <;> omega
              have hps : st.price ≤ p := by rw [← hpd]; split <;> omega
              have hwb := within_of_tickOk hbt p (fun _ => hpb) (fun h => by cases h)
              have hws := within_of_tickOk hst p (fun h => by cases h) (fun _ => hps)
              obtain ⟨bos, q1, hd1, rb⟩ := distributeToTick_ok bt.orders
                (if totalMatchable bt.orders p ≤ totalMatchable st.orders p then totalMatchable bt.orders p
                 else totalMatchable st.orders p) p hp (by split <;> omega) hwb
              obtain ⟨sos, q2, hd2, rs⟩ := distributeToTick_ok st.orders
                (if totalMatchable st.orders p ≤ totalMatchable bt.orders p then totalMatchable st.orders p
                 else totalMatchable bt.orders p) p hp (by split <;> omega) hws
              rw [hd1] at h; simp only at h; rw [hd2] at h; simp only at h
              have hbt' := tickOk_of_reach hbt (⟨rfl, rb⟩ : TickReach bt { bt with orders := bos })
              have hst' := tickOk_of_reach hst (⟨rfl, rs⟩ : TickReach st { st with orders := sos })
              have fin : ∀ (bs' ss' : List Tick), (∀ t ∈ bs', TickOk .buy t) → (∀ t ∈ ss', TickOk .sell t) →
                  ∀ r', matchLoop fuel incr bs' ss' = some r' → ∀ m', (some (r'.last.getD p) : Option Int) = some m' → 0 < m' := by
                intro bs' ss' hb' hs' r' hr' m' hm'
                cases hl : r'.last with
                | none => rw [hl] at hm'; simp at hm'; omega
                | some x => rw [hl] at hm'; simp at hm'; have := ih bs' ss' hb' hs' r' hr' x hl; omega
              by_cases c1 : totalMatchable bt.orders p ≤ totalMatchable st.orders p
              · by_cases c2 : totalMatchable st.orders p ≤ totalMatchable bt.orders p
                · simp only [c1, c2, if_true] at h
                  cases hr : matchLoop fuel incr bts sts with
                  | none => rw [hr] at h; cases h
                  | some r' => rw [hr] at h; cases h; exact fin bts sts hbts hsts r' hr
                · simp only [c1, c2, if_true, if_false] at h
                  cases hr : matchLoop fuel incr bts ({ st with orders := sos } :: sts) with
                  | none => rw [hr] at h; cases h
                  | some r' =>
                    rw [hr] at h; cases h
                    exact fin bts _ hbts
                      (fun t ht => by rcases List.mem_cons.mp ht with rfl | ht; exact hst'; exact hsts t ht) r' hr
              · have c2 : totalMatchable st.orders p ≤ totalMatchable bt.orders p := by omega
                simp only [c1, c2, if_true, if_false] at h
                cases hr : matchLoop fuel incr ({ bt with orders := bos } :: bts) sts with
                | none => rw [hr] at h; cases h
                | some r' =>
                  rw [hr] at h; cases h
                  exact fin _ sts
                    (fun t ht => by rcases List.mem_cons.mp ht with rfl | ht; exact hbt'; exact hbts t ht) hsts r' hr

/-- the match price `Match` reports is positive (it is the last price or the price of a tick that traded) -/
theorem matchBook_price_pos (b : Book) (lp : Int) (hlp : 0 < lp) (hb : BookOk b) (b' : Book) (mp q : Int)
    (h : matchBook b lp = .ok b' mp q) : 0 < mp := by
  unfold matchBook at h
  split at h
  · cases h
  · rcases matchAtSinglePrice_ok b lp hlp hb with hs | ⟨b1, q0, hs, r0⟩
    · rw [hs] at h
      simp only at h
      split at h
      · cases h
      · cases hr : matchLoop (b.buys.length + b.sells.length) (priceDirection b lp == PDir.increasing) b.buys b.sells with
        | none => rw [hr] at h; cases h
        | some r =>
          rw [hr] at h
          simp only at h
          cases hl : r.last with
          | none => rw [hl] at h; simp at h
          | some m =>
            rw [hl] at h
            simp only [MRes.ok.injEq] at h
            obtain ⟨_, rfl, _⟩ := h
            exact matchLoop_last_pos _ _ _ _ hb.1 hb.2 r hr m hl
    · rw [hs] at h
      simp only at h
      split at h
      · simp only [MRes.ok.injEq] at h
        obtain ⟨_, rfl, _⟩ := h
        exact hlp
      · have hb1 := bookOk_of_reach hb r0
        cases hr : matchLoop (b1.buys.length + b1.sells.length) (priceDirection b lp == PDir.increasing) b1.buys b1.sells with
        | none => rw [hr] at h; cases h
        | some r =>
          rw [hr] at h
          simp only at h
          cases hl : r.last with
          | none =>
            rw [hl] at h
            simp at h
            obtain ⟨_, rfl, _⟩ := h
            exact hlp
          | some m =>
            rw [hl] at h
            simp only [MRes.ok.injEq] at h
            obtain ⟨_, rfl, _⟩ := h
            exact matchLoop_last_pos _ _ _ _ hb1.1 hb1.2 r hr m hl

/-- prices of a list of amm orders are ticks of the precision -/
def GridOrders (os : List Order) (prec : Nat) : Prop :=
  ∀ o ∈ os, ∃ k, k ≤ hiIdx prec ∧ o.price = ((T prec k : Nat) : Int)

/-- **whatever the keeper's `Match` returns** (first batch: `FindMatchPrice` + `MatchAtSinglePrice`; later: `OrderBook.Match` at the
positive last price): the reported price is positive and every order of the resulting book is an input order after allowed fills -/
theorem runMatcher_delta (prec : Nat) (hprec : 10 ^ prec < 2 ^ 300 - 1) (os : List Order) (hw : ∀ o ∈ os, Wf o)
    (hg : GridOrders os prec) (lp : Option Int) (hlp : ∀ x, lp = some x → 0 < x) (b' : Book) (mp : Int)
    (h : runMatcher (newBook os) lp prec = some (b', mp)) :
    0 < mp ∧ ∀ o' ∈ b'.orders, ∃ o ∈ os, Delta o o' := by
  have hok := newBook_ok os hw
  have conv : ∀ b2, BookReach (newBook os) b2 → ∀ o' ∈ b2.orders, ∃ o ∈ os, Delta o o' := by
    intro b2 r o' ho'
    obtain ⟨o, ho, ro⟩ := bookReach_orders r ho'
    have hos := mem_newBook os o ho
    exact ⟨o, hos, reach_delta ro (hw o hos)⟩
  unfold runMatcher at h
  cases lp with
  | none =>
    simp only at h
    cases hf : findMatchPrice (makeView (newBook os)) prec with
    | none => rw [hf] at h; cases h
    | some p =>
      rw [hf] at h
      simp only at h
      obtain ⟨hbp, lsp, hhb, hls, hc⟩ := findMatchPrice_some_inv _ prec p hf
      obtain ⟨k, _, _, hfk, _⟩ := findMatchPrice_crossing _ prec hprec (makeView_ok os prec hw hg) hbp lsp hhb hls hc
      rw [hf] at hfk
      cases hfk
      have hp : (0 : Int) < ((T prec k : Nat) : Int) := by
        have := T_pos prec k
        have : 0 < T prec k := Nat.lt_of_lt_of_le (Nat.pow_pos (by omega)) this
        exact_mod_cast this
      rcases matchAtSinglePrice_ok (newBook os) _ hp hok with h0 | ⟨b2, q2, h2, r2⟩
      · rw [h0] at h; cases h
      · rw [h2] at h
        simp only [Option.some.injEq, Prod.mk.injEq] at h
        obtain ⟨rfl, rfl⟩ := h
        exact ⟨hp, conv _ r2⟩
  | some l =>
    simp only at h
    have hl := hlp l rfl
    rcases matchBook_ok (newBook os) l hl hok with h0 | ⟨b2, mp2, q2, h2, r2⟩
    · rw [h0] at h; cases h
    · have hpos := matchBook_price_pos (newBook os) l hl hok b2 mp2 q2 h2
      rw [h2] at h
      simp only [Option.some.injEq, Prod.mk.injEq] at h
      obtain ⟨rfl, rfl⟩ := h
      exact ⟨hpos, conv _ r2⟩


/-! ## batches -/

theorem SInv.status {prec : Nat} {so : SOrder} (h : SInv prec so) (st : OStatus) : SInv prec { so with status := st } :=
  ⟨h.price_pos, h.grid, h.open_nonneg, h.open_le, h.rem_nonneg, h.rem_le, h.recv_nonneg, h.buy_recv, h.sell_paid,
   h.buy_limit, h.sell_limit⟩

theorem expireBefore_eq (now : Int) (so : SOrder) : ∃ st, expireBefore now so = { so with status := st } := by
  unfold expireBefore; split
  · exact ⟨_, rfl⟩
  · exact ⟨so.status, rfl⟩

theorem markExecuted_eq (so : SOrder) : ∃ st, markExecuted so = { so with status := st } := by
  unfold markExecuted; split
  · exact ⟨_, rfl⟩
  · exact ⟨so.status, rfl⟩

theorem expireAfter_eq (now : Int) (so : SOrder) : ∃ st, expireAfter now so = { so with status := st } := by
  unfold expireAfter; split
  · exact ⟨_, rfl⟩
  · split
    · exact ⟨_, rfl⟩
    · exact ⟨so.status, rfl⟩

theorem newUserOrder_status (so : SOrder) (st : OStatus) : newUserOrder { so with status := st } = newUserOrder so := rfl

theorem writeBack_id (so : SOrder) (res : List Order) : (writeBack so res).id = so.id := by
  unfold writeBack
  split
  · rfl
  · split <;> rfl

theorem eq_of_nodup_ids {l : List SOrder} (hn : (l.map (·.id)).Nodup) {a b : SOrder} (ha : a ∈ l) (hb : b ∈ l)
    (hab : a.id = b.id) : a = b := by
  induction l with
  | nil => simp at ha
  | cons x xs ih =>
    simp only [List.map_cons, List.nodup_cons] at hn
    rcases List.mem_cons.mp ha with rfl | ha' <;> rcases List.mem_cons.mp hb with rfl | hb'
    · rfl
    · exact absurd (List.mem_map.mpr ⟨b, hb', hab.symm⟩) hn.1
    · exact absurd (List.mem_map.mpr ⟨a, ha', hab⟩) hn.1
    · exact ih hn.2 ha' hb'

/-- the invariant of the keeper state of one pair -/
structure KInv (prec : Nat) (s : KState) : Prop where
  inv : ∀ so ∈ s.orders, SInv prec so
  ids : (s.orders.map (·.id)).Nodup
  fresh : ∀ so ∈ s.orders, so.id < s.nextId
  lp : ∀ x, s.lastPrice = some x → 0 < x

theorem map_ids {l : List SOrder} (f : SOrder → SOrder) (hf : ∀ so, (f so).id = so.id) :
    (l.map f).map (·.id) = l.map (·.id) := by
  induction l with
  | nil => rfl
  | cons x xs ih => simp [hf x, ih]

/-- **one batch** (convert the live orders with `NewUserOrder`, match, write back with `ApplyMatchResult`, expire) keeps every stored
order within its amount, its offer coin and its limit -/
theorem batchStep_inv (prec : Nat) (hprec : 10 ^ prec < 2 ^ 300 - 1) (s : KState) (now : Int) (h : KInv prec s) :
    KInv prec (batchStep s prec now) := by
  -- the three status-only passes
  have e_id : ∀ so, (expireBefore now so).id = so.id := fun so => by obtain ⟨st, e⟩ := expireBefore_eq now so; rw [e]
  have g_id : ∀ so : SOrder, (if so.status.live then markExecuted so else so).id = so.id := fun so => by
    split
    · obtain ⟨st, e⟩ := markExecuted_eq so; rw [e]
    · rfl
  have a_id : ∀ so, (expireAfter now so).id = so.id := fun so => by obtain ⟨st, e⟩ := expireAfter_eq now so; rw [e]
  -- os1
  have inv1 : ∀ so ∈ s.orders.map (expireBefore now), SInv prec so := by
    intro so hm
    rw [List.mem_map] at hm
    obtain ⟨so0, h0, rfl⟩ := hm
    obtain ⟨st, e⟩ := expireBefore_eq now so0
    rw [e]; exact (h.inv so0 h0).status st
  have ids1 : ((s.orders.map (expireBefore now)).map (·.id)).Nodup := by rw [map_ids _ e_id]; exact h.ids
  generalize hos1 : s.orders.map (expireBefore now) = os1 at *
  -- the converted orders
  have hwc : ∀ o ∈ (os1.filter (fun (so : SOrder) => so.status.live)).map newUserOrder, Wf o := by
    intro o ho
    rw [List.mem_map] at ho
    obtain ⟨so, hso, rfl⟩ := ho
    exact newUserOrder_wf (inv1 so (List.mem_filter.mp hso).1)
  have hgc : GridOrders ((os1.filter (fun (so : SOrder) => so.status.live)).map newUserOrder) prec := by
    intro o ho
    rw [List.mem_map] at ho
    obtain ⟨so, hso, rfl⟩ := ho
    exact (inv1 so (List.mem_filter.mp hso).1).grid
  -- os2
  have inv2 : ∀ so ∈ os1.map (fun (so : SOrder) => if so.status.live then markExecuted so else so), SInv prec so := by
    intro so hm
    rw [List.mem_map] at hm
    obtain ⟨so1, h1, rfl⟩ := hm
    split
    · obtain ⟨st, e⟩ := markExecuted_eq so1
      rw [e]; exact (inv1 so1 h1).status st
    · exact inv1 so1 h1
  unfold batchStep
  simp only
  rw [hos1]
  cases hrm : runMatcher (newBook ((os1.filter (fun (so : SOrder) => so.status.live)).map newUserOrder)) s.lastPrice prec with
  | none =>
    simp only
    refine ⟨?_, ?_, ?_, h.lp⟩
    · intro so hm
      rw [List.mem_map] at hm
      obtain ⟨so2, h2, rfl⟩ := hm
      obtain ⟨st, e⟩ := expireAfter_eq now so2
      rw [e]; exact (inv2 so2 h2).status st
    · rw [map_ids _ a_id, map_ids _ g_id]; exact ids1
    · intro so hm
      have : so.id ∈ ((os1.map (fun (so : SOrder) => if so.status.live then markExecuted so else so)).map (expireAfter now)).map (·.id) :=
        List.mem_map.mpr ⟨so, hm, rfl⟩
      rw [map_ids _ a_id, map_ids _ g_id, ← hos1, map_ids _ e_id] at this
      obtain ⟨so0, h0, e0⟩ := List.mem_map.mp this
      have := h.fresh so0 h0
      show so.id < s.nextId
      omega
  | some r =>
    obtain ⟨b', mp⟩ := r
    simp only
    obtain ⟨hmp, hdelta⟩ := runMatcher_delta prec hprec _ hwc hgc s.lastPrice h.lp b' mp hrm
    have w_id : ∀ so : SOrder, (if so.status.live then writeBack so b'.orders else so).id = so.id := fun so => by
      split
      · exact writeBack_id so _
      · rfl
    refine ⟨?_, ?_, ?_, ?_⟩
    · intro so hm
      rw [List.mem_map] at hm
      obtain ⟨so3, h3, rfl⟩ := hm
      obtain ⟨st, e⟩ := expireAfter_eq now so3
      rw [e]
      apply SInv.status
      rw [List.mem_map] at h3
      obtain ⟨so2, h2, rfl⟩ := h3
      split
      · rename_i hlive2
        apply writeBack_inv (inv2 so2 h2)
        intro o' ho' hid
        obtain ⟨o, ho, d⟩ := hdelta o' ho'
        rw [List.mem_map] at ho
        obtain ⟨soc, hsoc, rfl⟩ := ho
        have hsoc1 := (List.mem_filter.mp hsoc).1
        -- so2 comes from some so1 ∈ os1 with the same id and amounts
        rw [List.mem_map] at h2
        obtain ⟨so1, h1, e2⟩ := h2
        have hid1 : so2.id = so1.id := by rw [← e2]; exact g_id so1
        have hidc : soc.id = so1.id := by
          have := d.id_eq
          rw [(newUserOrder_fields soc).1] at this
          omega
        have : soc = so1 := eq_of_nodup_ids ids1 hsoc1 h1 hidc
        subst this
        have e3 : newUserOrder so2 = newUserOrder soc := by
          rw [← e2]
          split
          · obtain ⟨st', e'⟩ := markExecuted_eq soc
            rw [e']; rfl
          · rfl
        rw [e3]; exact d
      · exact inv2 so2 h2
    · rw [map_ids _ a_id, map_ids _ w_id, map_ids _ g_id]; exact ids1
    · intro so hm
      have : so.id ∈ (((os1.map (fun (so : SOrder) => if so.status.live then markExecuted so else so)).map
          (fun (so : SOrder) => if so.status.live then writeBack so b'.orders else so)).map (expireAfter now)).map (·.id) :=
        List.mem_map.mpr ⟨so, hm, rfl⟩
      rw [map_ids _ a_id, map_ids _ w_id, map_ids _ g_id, ← hos1, map_ids _ e_id] at this
      obtain ⟨so0, h0, e0⟩ := List.mem_map.mp this
      have := h.fresh so0 h0
      show so.id < s.nextId
      omega
    · intro x hx
      simp only [Option.some.injEq] at hx
      omega

theorem prune_inv (prec : Nat) (s : KState) (h : KInv prec s) : KInv prec (prune s) := by
  unfold prune
  refine ⟨?_, ?_, ?_, h.lp⟩
  · intro so hm; exact h.inv so (List.mem_filter.mp hm).1
  · exact List.Nodup.sublist ((List.filter_sublist).map _) h.ids
  · intro so hm; exact h.fresh so (List.mem_filter.mp hm).1

/-- what `ValidateMsgLimitOrder` lets through: a non-negative amount and a price that, fitted to the tick grid, is a positive tick -/
def PlaceOk (prec : Nat) (d : Dir) (msgPrice amount : Int) : Prop :=
  0 ≤ amount ∧
  let price := match d with | .buy => priceToDownTick msgPrice prec | .sell => priceToUpTick msgPrice prec
  0 < price ∧ ∃ k, k ≤ hiIdx prec ∧ price = ((T prec k : Nat) : Int)

theorem freshOrder_inv (prec id : Nat) (d : Dir) (price amount : Int) (batch : Nat) (exp : Int) (hp : 0 < price)
    (hg : ∃ k, k ≤ hiIdx prec ∧ price = ((T prec k : Nat) : Int)) (ha : 0 ≤ amount) :
    SInv prec { id := id, dir := d, price := price, amount := amount, openAmt := amount,
                offer := offerCoinAmount d price amount, remaining := offerCoinAmount d price amount, received := 0,
                batchId := batch, expireAt := exp, status := .notExecuted } := by
  have hoff : 0 ≤ offerCoinAmount d price amount := by
    cases d with
    | buy => exact quoteCeil_nonneg price amount (by omega) ha
    | sell => exact ha
  refine ⟨hp, hg, ha, Int.le_refl _, hoff, Int.le_refl _, Int.le_refl _, ?_, ?_, ?_, ?_⟩
  · intro _; simp
  · intro hs
    simp only at hs
    subst hs
    simp [offerCoinAmount]
  · intro _; simp
  · intro _; simp

theorem placeOrder_inv (prec : Nat) (s : KState) (d : Dir) (msgPrice amount expireAt : Int) (h : KInv prec s)
    (hok : PlaceOk prec d msgPrice amount) : KInv prec (placeOrder s prec d msgPrice amount expireAt).1 := by
  obtain ⟨ha, hp, hg⟩ := hok
  unfold placeOrder
  simp only
  refine ⟨?_, ?_, ?_, h.lp⟩
  · intro so hm
    rcases List.mem_append.mp hm with hm | hm
    · exact h.inv so hm
    · simp only [List.mem_singleton] at hm
      subst hm
      exact freshOrder_inv prec _ d _ amount _ _ hp hg ha
  · rw [List.map_append, List.nodup_append]
    refine ⟨h.ids, by simp, ?_⟩
    intro a ha' b hb hab
    simp only [List.map_cons, List.map_nil, List.mem_singleton] at hb
    obtain ⟨so, hso, rfl⟩ := List.mem_map.mp ha'
    have := h.fresh so hso
    omega
  · intro so hm
    rcases List.mem_append.mp hm with hm | hm
    · have := h.fresh so hm
      show so.id < s.nextId + 1
      omega
    · simp only [List.mem_singleton] at hm
      subst hm
      show s.nextId < s.nextId + 1
      omega

theorem placeAll_inv (prec : Nat) (s : KState) (l : List (Dir × Int × Int × Int)) (h : KInv prec s)
    (hok : ∀ x ∈ l, PlaceOk prec x.1 x.2.1 x.2.2.1) : KInv prec (placeAll s prec l) := by
  induction l generalizing s with
  | nil => exact h
  | cons x xs ih =>
    obtain ⟨d, p, a, e⟩ := x
    unfold placeAll
    exact ih _ (placeOrder_inv prec s d p a e h (hok (d, p, a, e) (by simp))) (fun y hy => hok y (by simp [hy]))

/-- **any number of batches** -/
theorem runBatches_inv (prec : Nat) (hprec : 10 ^ prec < 2 ^ 300 - 1) (s : KState) (bs : List Batch) (h : KInv prec s)
    (hok : ∀ b ∈ bs, ∀ x ∈ b.placed, PlaceOk prec x.1 x.2.1 x.2.2.1) : KInv prec (runBatches s prec bs) := by
  induction bs generalizing s with
  | nil => exact h
  | cons b bs ih =>
    unfold runBatches
    apply ih
    · exact prune_inv prec _ (batchStep_inv prec hprec _ b.now (placeAll_inv prec s b.placed h (hok b (by simp))))
    · intro b' hb'; exact hok b' (by simp [hb'])

theorem KInv.init (prec : Nat) : KInv prec KState.init :=
  ⟨by simp [KState.init], by simp [KState.init], by simp [KState.init], by simp [KState.init]⟩


/-- a buy order's message price between the lowest and the highest tick is fitted to a positive tick of the grid -/
theorem placeOk_buy (prec : Nat) (x : Nat) (amount : Int) (ha : 0 ≤ amount) (h1 : 10 ^ prec ≤ x) (h2 : x ≤ 2 ^ 300 - 1) :
    PlaceOk prec .buy (x : Int) amount := by
  refine ⟨ha, ?_⟩
  simp only
  rw [priceToDownTick_nat prec x h1]
  obtain ⟨c1, c2, _⟩ := grid_cell prec x h1
  obtain ⟨_, _, d3, _⟩ := grid_cell prec (2 ^ 300 - 1) (Nat.le_trans h1 h2)
  have hpos : 0 < T prec (idx prec x) := Nat.lt_of_lt_of_le (Nat.pow_pos (by omega)) (T_pos prec _)
  refine ⟨by rw [c1]; exact_mod_cast hpos, idx prec x, ?_, by rw [c1]⟩
  unfold hiIdx
  by_contra hc
  have := T_mono prec (by omega : idx prec (2 ^ 300 - 1) + 1 ≤ idx prec x)
  omega

end Comdex.Amm
