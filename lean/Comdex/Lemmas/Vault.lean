import Comdex.Model.Vault
/-! Helper lemmas for the vault ledger invariants (C01/C02). Core Lean only. -/
namespace Comdex.Vault

/-! ### net effect of bank calls on the vault module account and on supply -/

def BankOp.dVm : BankOp → Nat → Int
  | .send a b d0 x, d => if d = d0 then (if b = vm then x else 0) - (if a = vm then x else 0) else 0
  | .sendPos a b d0 x, d => if x > 0 ∧ d = d0 then (if b = vm then x else 0) - (if a = vm then x else 0) else 0
  | .mint d0 x, d => if d = d0 then x else 0
  | .burn d0 x, d => if d = d0 then -x else 0
  | .burnPos d0 x, d => if x > 0 ∧ d = d0 then -x else 0

def BankOp.dSup : BankOp → Nat → Int
  | .mint d0 x, d => if d = d0 then x else 0
  | .burn d0 x, d => if d = d0 then -x else 0
  | .burnPos d0 x, d => if x > 0 ∧ d = d0 then -x else 0
  | .send .., _ => 0
  | .sendPos .., _ => 0

def netVm (ops : List BankOp) (d : Nat) : Int := (ops.map (fun o => o.dVm d)).sum
def netSup (ops : List BankOp) (d : Nat) : Int := (ops.map (fun o => o.dSup d)).sum

/-- a bank call changes balances and supply only -/
structure SameRecords (s s' : State) : Prop where
  vaults : s'.vaults = s.vaults
  stables : s'.stables = s.stables
  locked : s'.locked = s.locked
  coll : s'.coll = s.coll
  minted : s'.minted = s.minted
  vaultIds : s'.vaultIds = s.vaultIds
  nextVault : s'.nextVault = s.nextVault
  nextStable : s'.nextStable = s.nextStable
  length : s'.length = s.length
  unsolicited : s'.unsolicited = s.unsolicited
  extSupply : s'.extSupply = s.extSupply
  redeem : s'.redeem = s.redeem

theorem SameRecords.refl (s : State) : SameRecords s s := ⟨rfl, rfl, rfl, rfl, rfl, rfl, rfl, rfl, rfl, rfl, rfl, rfl⟩

theorem SameRecords.trans {a b c : State} (h1 : SameRecords a b) (h2 : SameRecords b c) : SameRecords a c :=
  ⟨h2.vaults.trans h1.vaults, h2.stables.trans h1.stables, h2.locked.trans h1.locked, h2.coll.trans h1.coll,
   h2.minted.trans h1.minted, h2.vaultIds.trans h1.vaultIds, h2.nextVault.trans h1.nextVault,
   h2.nextStable.trans h1.nextStable, h2.length.trans h1.length, h2.unsolicited.trans h1.unsolicited,
   h2.extSupply.trans h1.extSupply, h2.redeem.trans h1.redeem⟩

structure BankEffect (s s' : State) (dv ds : Nat → Int) : Prop where
  same : SameRecords s s'
  vmBal : ∀ d, s'.bal vm d = s.bal vm d + dv d
  supply : ∀ d, s'.supply d = s.supply d + ds d

theorem sendRaw_effect (s s' : State) (a b d0 : Nat) (x : Int) (h : sendRaw s a b d0 x = some s') :
    BankEffect s s' (BankOp.dVm (.send a b d0 x)) (fun _ => 0) := by
  unfold sendRaw at h
  split at h; · cases h
  split at h; · cases h
  cases h
  refine ⟨⟨rfl, rfl, rfl, rfl, rfl, rfl, rfl, rfl, rfl, rfl, rfl, rfl⟩, ?_, fun _ => by simp⟩
  intro d
  simp only [upd2, BankOp.dVm, vm]
  by_cases hd : d = d0
  · subst hd
    by_cases ha : a = 0
    · subst ha
      by_cases hb : b = 0
      · subst hb; simp
      · have hb' : ¬ 0 = b := fun h => hb h.symm
        simp [hb, hb']; omega
    · have ha' : ¬ 0 = a := fun h => ha h.symm
      by_cases hb : b = 0
      · subst hb; simp [ha, ha']
      · have hb' : ¬ 0 = b := fun h => hb h.symm
        simp [ha, ha', hb, hb']
  · simp [hd]

theorem mintRaw_effect (s s' : State) (d0 : Nat) (x : Int) (h : mintRaw s d0 x = some s') :
    BankEffect s s' (BankOp.dVm (.mint d0 x)) (BankOp.dSup (.mint d0 x)) := by
  unfold mintRaw at h
  split at h; · cases h
  cases h
  refine ⟨⟨rfl, rfl, rfl, rfl, rfl, rfl, rfl, rfl, rfl, rfl, rfl, rfl⟩, ?_, ?_⟩
  · intro d; simp only [upd2, BankOp.dVm]; by_cases hd : d = d0 <;> simp [hd]
  · intro d; simp only [upd1, BankOp.dSup]; by_cases hd : d = d0 <;> simp [hd]

theorem burnRaw_effect (s s' : State) (d0 : Nat) (x : Int) (h : burnRaw s d0 x = some s') :
    BankEffect s s' (BankOp.dVm (.burn d0 x)) (BankOp.dSup (.burn d0 x)) := by
  unfold burnRaw at h
  split at h; · cases h
  split at h; · cases h
  cases h
  refine ⟨⟨rfl, rfl, rfl, rfl, rfl, rfl, rfl, rfl, rfl, rfl, rfl, rfl⟩, ?_, ?_⟩
  · intro d; simp only [upd2, BankOp.dVm]; by_cases hd : d = d0 <;> simp [hd] <;> omega
  · intro d; simp only [upd1, BankOp.dSup]; by_cases hd : d = d0 <;> simp [hd] <;> omega

theorem op_effect (s s' : State) (op : BankOp) (h : op.run s = some s') :
    BankEffect s s' (op.dVm) (op.dSup) := by
  cases op with
  | send a b d x => exact sendRaw_effect s s' a b d x h
  | mint d x => exact mintRaw_effect s s' d x h
  | burn d x => exact burnRaw_effect s s' d x h
  | sendPos a b d x =>
    simp only [BankOp.run] at h
    by_cases hx : x > 0
    · simp only [hx, if_true] at h
      have := sendRaw_effect s s' a b d x h
      refine ⟨this.same, ?_, this.supply⟩
      intro d'; rw [this.vmBal d']; simp [BankOp.dVm, hx]
    · simp only [hx, if_false] at h; cases h
      exact ⟨SameRecords.refl _, fun d' => by simp [BankOp.dVm, hx], fun _ => by simp [BankOp.dSup]⟩
  | burnPos d x =>
    simp only [BankOp.run] at h
    by_cases hx : x > 0
    · simp only [hx, if_true] at h
      have := burnRaw_effect s s' d x h
      refine ⟨this.same, ?_, ?_⟩
      · intro d'; rw [this.vmBal d']; simp [BankOp.dVm, hx]
      · intro d'; rw [this.supply d']; simp [BankOp.dSup, hx]
    · simp only [hx, if_false] at h; cases h
      exact ⟨SameRecords.refl _, fun d' => by simp [BankOp.dVm, hx], fun d' => by simp [BankOp.dSup, hx]⟩

theorem runBank_effect (ops : List BankOp) (s s' : State) (h : runBank s ops = some s') :
    BankEffect s s' (netVm ops) (netSup ops) := by
  induction ops generalizing s with
  | nil => simp [runBank] at h; cases h; exact ⟨SameRecords.refl _, fun d => by simp [netVm], fun d => by simp [netSup]⟩
  | cons op ops ih =>
    simp only [runBank] at h
    cases hop : op.run s with
    | none => rw [hop] at h; cases h
    | some s1 =>
      rw [hop] at h
      have e1 := op_effect s s1 op hop
      have e2 := ih s1 h
      refine ⟨e1.same.trans e2.same, ?_, ?_⟩
      · intro d; rw [e2.vmBal, e1.vmBal]; simp [netVm]; omega
      · intro d; rw [e2.supply, e1.supply]; simp [netSup]; omega

end Comdex.Vault

/-! ### sums over keyed record lists -/
namespace Comdex.Vault

theorem sumBy_nil {α : Type} (f : α → Int) : sumBy f [] = 0 := rfl
theorem sumBy_cons {α : Type} (f : α → Int) (a : α) (l : List α) : sumBy f (a :: l) = f a + sumBy f l := by
  simp [sumBy]
theorem sumBy_append {α : Type} (f : α → Int) (l₁ l₂ : List α) : sumBy f (l₁ ++ l₂) = sumBy f l₁ + sumBy f l₂ := by
  simp [sumBy, List.sum_append]
theorem sumBy_snoc {α : Type} (f : α → Int) (l : List α) (a : α) : sumBy f (l ++ [a]) = sumBy f l + f a := by
  rw [sumBy_append, sumBy_cons, sumBy_nil]; omega

theorem setBy_not_mem {α : Type} (idf : α → Nat) (l : List α) (v : α) (h : idf v ∉ l.map idf) :
    setBy idf l v = l := by
  induction l with
  | nil => rfl
  | cons a t ih =>
    simp only [List.map_cons, List.mem_cons, not_or] at h
    have : ¬ idf a = idf v := fun e => h.1 e.symm
    simp only [setBy, List.map_cons, this, if_false]
    congr 1
    exact ih h.2

theorem delBy_not_mem {α : Type} (idf : α → Nat) (l : List α) (id : Nat) (h : id ∉ l.map idf) :
    delBy idf l id = l := by
  induction l with
  | nil => rfl
  | cons a t ih =>
    simp only [List.map_cons, List.mem_cons, not_or] at h
    have : idf a ≠ id := fun e => h.1 e.symm
    simp only [delBy, List.filter_cons, this, ne_eq, not_false_eq_true, decide_true, if_true]
    congr 1
    exact ih h.2

theorem sumBy_setBy {α : Type} (idf : α → Nat) (f : α → Int) (l : List α) (v0 v : α)
    (hnd : (l.map idf).Nodup) (hm : v0 ∈ l) (hid : idf v = idf v0) :
    sumBy f (setBy idf l v) = sumBy f l - f v0 + f v := by
  induction l with
  | nil => cases hm
  | cons a t ih =>
    simp only [List.map_cons, List.nodup_cons] at hnd
    rcases List.mem_cons.mp hm with rfl | hmt
    · -- the head is the record
      have hset : setBy idf (v0 :: t) v = v :: t := by
        have := setBy_not_mem idf t v (by rw [hid]; exact hnd.1)
        simp only [setBy, List.map_cons, hid, if_true] at this ⊢
        rw [this]
      rw [hset, sumBy_cons, sumBy_cons]; omega
    · have hne : ¬ idf a = idf v := by
        intro e
        apply hnd.1
        rw [e, hid]; exact List.mem_map_of_mem hmt
      have hset : setBy idf (a :: t) v = a :: setBy idf t v := by
        simp only [setBy, List.map_cons, hne, if_false]
      rw [hset, sumBy_cons, sumBy_cons, ih hnd.2 hmt]; omega

theorem sumBy_delBy {α : Type} (idf : α → Nat) (f : α → Int) (l : List α) (v0 : α)
    (hnd : (l.map idf).Nodup) (hm : v0 ∈ l) :
    sumBy f (delBy idf l (idf v0)) = sumBy f l - f v0 := by
  induction l with
  | nil => cases hm
  | cons a t ih =>
    simp only [List.map_cons, List.nodup_cons] at hnd
    rcases List.mem_cons.mp hm with rfl | hmt
    · have := delBy_not_mem idf t (idf v0) hnd.1
      have hdel : delBy idf (v0 :: t) (idf v0) = t := by
        simp only [delBy, List.filter_cons, ne_eq, not_true_eq_false, decide_false] at this ⊢
        simpa using this
      rw [hdel, sumBy_cons]; omega
    · have hne : idf a ≠ idf v0 := by
        intro e; apply hnd.1; rw [e]; exact List.mem_map_of_mem hmt
      have hdel : delBy idf (a :: t) (idf v0) = a :: delBy idf t (idf v0) := by
        simp only [delBy, List.filter_cons, hne, ne_eq, not_false_eq_true, decide_true, if_true]
      rw [hdel, sumBy_cons, sumBy_cons, ih hnd.2 hmt]; omega

theorem map_id_setBy {α : Type} (idf : α → Nat) (l : List α) (v : α) : (setBy idf l v).map idf = l.map idf := by
  induction l with
  | nil => rfl
  | cons a t ih =>
    simp only [setBy, List.map_cons] at ih ⊢
    rw [ih]
    by_cases h : idf a = idf v <;> simp [h]

theorem mem_setBy {α : Type} (idf : α → Nat) (l : List α) (v w : α) (h : w ∈ setBy idf l v) :
    w = v ∨ w ∈ l := by
  simp only [setBy, List.mem_map] at h
  obtain ⟨a, ha, rfl⟩ := h
  by_cases e : idf a = idf v <;> simp [e, ha]

theorem mem_delBy {α : Type} (idf : α → Nat) (l : List α) (id : Nat) (w : α) (h : w ∈ delBy idf l id) : w ∈ l := by
  simp only [delBy, List.mem_filter] at h; exact h.1

theorem nodup_delBy {α : Type} (idf : α → Nat) (l : List α) (id : Nat) (h : (l.map idf).Nodup) :
    ((delBy idf l id).map idf).Nodup := by
  unfold delBy
  exact List.Nodup.sublist (List.Sublist.map idf (List.filter_sublist (l := l))) h

theorem find_mem {α : Type} (idf : α → Nat) (l : List α) (id : Nat) (v : α)
    (h : l.find? (fun w => decide (idf w = id)) = some v) : v ∈ l ∧ idf v = id := by
  refine ⟨List.mem_of_find?_eq_some h, ?_⟩
  have := List.find?_some h
  simpa using this

end Comdex.Vault

/-! ### the fee split -/
namespace Comdex.Vault
open Comdex

theorem P_pos : (0 : Int) < Dec.P := by unfold Dec.P; omega

theorem chopRound_mul_P (k : Int) (hk : 0 ≤ k) : Dec.chopRound (k * Dec.P) = k := by
  have hP := P_pos
  have h0 : ¬ (k * Dec.P < 0) := by
    have := Int.mul_nonneg hk (Int.le_of_lt hP); omega
  unfold Dec.chopRound
  rw [if_neg h0]
  unfold Dec.chopRoundNonneg
  simp only [Int.mul_tmod_left, if_true]
  exact Int.mul_tdiv_cancel k (by omega)

theorem feeOf_eq (amt rate : Int) (ha : 0 ≤ amt) (hr : 0 ≤ rate) : feeOf amt rate = (amt * rate) / Dec.P := by
  unfold feeOf Dec.truncateInt Dec.mul Dec.ofInt
  have e : amt * Dec.P * rate = (amt * rate) * Dec.P := by
    rw [Int.mul_assoc, Int.mul_comm Dec.P rate, ← Int.mul_assoc]
  rw [e, chopRound_mul_P _ (Int.mul_nonneg ha hr)]
  exact Int.tdiv_eq_ediv_of_nonneg (Int.mul_nonneg ha hr)

theorem feeOf_nonneg (amt rate : Int) (ha : 0 ≤ amt) (hr : 0 ≤ rate) : 0 ≤ feeOf amt rate := by
  rw [feeOf_eq amt rate ha hr]
  exact Int.ediv_nonneg (Int.mul_nonneg ha hr) (Int.le_of_lt P_pos)

theorem feeOf_le (amt rate : Int) (ha : 0 ≤ amt) (hr : 0 ≤ rate) (hr1 : rate ≤ Dec.P) : feeOf amt rate ≤ amt := by
  rw [feeOf_eq amt rate ha hr]
  exact Int.ediv_le_of_le_mul P_pos (Int.mul_le_mul_of_nonneg_left hr1 ha)

theorem feeOf_lt (amt rate : Int) (ha : 0 < amt) (hr : 0 ≤ rate) (hr1 : rate < Dec.P) : feeOf amt rate < amt := by
  rw [feeOf_eq amt rate (Int.le_of_lt ha) hr]
  exact Int.ediv_lt_of_lt_mul P_pos (Int.mul_lt_mul_of_pos_left hr1 ha)

/-- admissible product configuration (enforced when an extended pair vault is registered:
x/asset/keeper/pairs_vault.go:153-165): fees in [0,1), non-negative floor, positive asset decimals. -/
def ProductOk (p : Product) : Prop :=
  0 ≤ p.drawDownFee ∧ p.drawDownFee < Dec.P ∧ 0 ≤ p.closingFee ∧ 0 ≤ p.debtFloor ∧ 0 < p.decIn ∧ 0 < p.decOut ∧
  0 ≤ p.debtCeiling

def CfgOk (cfg : Nat → Option Product) : Prop := ∀ pr p, cfg pr = some p → p.id = pr ∧ ProductOk p

/-- net effect of mint-and-split on the vault module account: everything minted leaves again -/
theorem mintAndSplit_netVm (p : Product) (user : Nat) (amt : Int) (hu : user ≠ vm) (hp : ProductOk p)
    (ha : 0 < amt) (d : Nat) : netVm (mintAndSplit p user amt) d = 0 := by
  obtain ⟨h0, h1, _, _, _, _, _⟩ := hp
  have hs0 := feeOf_nonneg amt p.drawDownFee (Int.le_of_lt ha) h0
  have hs1 := feeOf_lt amt p.drawDownFee ha h0 h1
  unfold mintAndSplit
  have hcm : cm ≠ vm := by decide
  by_cases hf : p.drawDownFee = 0
  · simp [hf, ha, netVm, BankOp.dVm, hu]
    by_cases hd : d = p.denomOut <;> simp [hd] <;> omega
  · simp only [hf, false_and, if_false, netVm, List.map_cons, List.map_nil, List.sum_cons, List.sum_nil, BankOp.dVm,
      hcm, hu, if_true, if_false]
    by_cases hd : d = p.denomOut
    · simp only [hd, if_true, and_true]
      by_cases hsp : feeOf amt p.drawDownFee > 0
      · have : amt - feeOf amt p.drawDownFee > 0 := by omega
        simp [hsp]; omega
      · have hz : feeOf amt p.drawDownFee = 0 := by omega
        simp [hz, ha]; omega
    · simp [hd]

theorem mintAndSplit_netSup (p : Product) (user : Nat) (amt : Int) (d : Nat) :
    netSup (mintAndSplit p user amt) d = if d = p.denomOut then amt else 0 := by
  unfold mintAndSplit
  by_cases hf : p.drawDownFee = 0 ∧ amt > 0
  · simp [hf, netSup, BankOp.dSup]
  · simp [hf, netSup, BankOp.dSup]

end Comdex.Vault

/-! ### non-negativity of the conversions -/
namespace Comdex.Vault
open Comdex

theorem chopRound_nonneg (x : Int) (hx : 0 ≤ x) : 0 ≤ Dec.chopRound x := by
  unfold Dec.chopRound
  rw [if_neg (by omega)]
  unfold Dec.chopRoundNonneg
  have hq : 0 ≤ x.tdiv Dec.P := by
    rw [Int.tdiv_eq_ediv_of_nonneg hx]; exact Int.ediv_nonneg hx (Int.le_of_lt P_pos)
  simp only
  split
  · exact hq
  · split
    · exact hq
    · split
      · omega
      · split <;> omega

theorem decMul_nonneg (a b : Int) (ha : 0 ≤ a) (hb : 0 ≤ b) : 0 ≤ Dec.mul a b :=
  chopRound_nonneg _ (Int.mul_nonneg ha hb)

theorem decQuo_nonneg (a b : Int) (ha : 0 ≤ a) (hb : 0 < b) : 0 ≤ Dec.quo a b := by
  unfold Dec.quo
  apply chopRound_nonneg
  have h1 : 0 ≤ a * Dec.PP := by
    unfold Dec.PP; exact Int.mul_nonneg ha (Int.mul_nonneg (Int.le_of_lt P_pos) (Int.le_of_lt P_pos))
  rw [Int.tdiv_eq_ediv_of_nonneg h1]
  exact Int.ediv_nonneg h1 (Int.le_of_lt hb)

theorem otherToken_nonneg (amt dec1 dec2 : Int) (ha : 0 ≤ amt) (h1 : 0 < dec1) (h2 : 0 < dec2) :
    0 ≤ otherToken amt dec1 dec2 := by
  unfold otherToken Dec.truncateInt
  have hP := P_pos
  have hone : (0 : Int) < Dec.one := hP
  have e1 : 0 ≤ Dec.mul (Dec.ofInt amt) Dec.one :=
    decMul_nonneg _ _ (Int.mul_nonneg ha (Int.le_of_lt hP)) (Int.le_of_lt hone)
  have e2 : 0 ≤ Dec.quo (Dec.mul (Dec.ofInt amt) Dec.one) (Dec.ofInt dec1) :=
    decQuo_nonneg _ _ e1 (Int.mul_pos h1 hP)
  have e3 := decQuo_nonneg _ Dec.one e2 hone
  have e4 := decMul_nonneg _ (Dec.ofInt dec2) e3 (Int.mul_nonneg (Int.le_of_lt h2) (Int.le_of_lt hP))
  simp only
  rw [Int.tdiv_eq_ediv_of_nonneg e4]
  exact Int.ediv_nonneg e4 (Int.le_of_lt hP)

theorem netVm_cons (op : BankOp) (ops : List BankOp) (d : Nat) : netVm (op :: ops) d = op.dVm d + netVm ops d := by
  simp [netVm]
theorem netSup_cons (op : BankOp) (ops : List BankOp) (d : Nat) : netSup (op :: ops) d = op.dSup d + netSup ops d := by
  simp [netSup]

theorem runBank_cons (s s' : State) (op : BankOp) (ops : List BankOp) (h : runBank s (op :: ops) = some s') :
    ∃ s1, op.run s = some s1 ∧ runBank s1 ops = some s' := by
  simp only [runBank] at h
  cases hop : op.run s with
  | none => rw [hop] at h; cases h
  | some s1 => rw [hop] at h; exact ⟨s1, rfl, h⟩

theorem mintAndSplit_pos (s s' : State) (p : Product) (u : Nat) (x : Int)
    (h : runBank s (mintAndSplit p u x) = some s') : 0 < x := by
  unfold mintAndSplit at h
  obtain ⟨s1, h1, _⟩ := runBank_cons _ _ _ _ h
  simp only [BankOp.run, mintRaw] at h1
  split at h1
  · cases h1
  · omega

end Comdex.Vault

namespace Comdex.Vault
theorem eq_of_nodup_map {α : Type} (f : α → Nat) (l : List α) (h : (l.map f).Nodup) (a b : α)
    (ha : a ∈ l) (hb : b ∈ l) (e : f a = f b) : a = b := by
  induction l with
  | nil => cases ha
  | cons x t ih =>
    simp only [List.map_cons, List.nodup_cons] at h
    rcases List.mem_cons.mp ha with rfl | ha' <;> rcases List.mem_cons.mp hb with rfl | hb'
    · rfl
    · exact absurd (e ▸ List.mem_map_of_mem hb') h.1
    · exact absurd (e ▸ List.mem_map_of_mem ha') h.1
    · exact ih h.2 ha' hb'
end Comdex.Vault
