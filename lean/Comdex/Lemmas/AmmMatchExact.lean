import Comdex.Lemmas.AmmMatchAccount
/-!
Lemmas for C05, part 9: the exact characterisation of defect D2.  At every level (pro-rata distribution, group loop, tick,
ticks, `MatchAtSinglePrice`, the two-sided loop, `Match`) the sell side is handed at most what it should get, and exactly that
**iff** the decidable ghost `lossless` / `groupsLossless` / `ticksLossless` / `matchLossless` holds.
-/
namespace Comdex.Amm
open Comdex

/-! ## exactly when a distribution loses a remainder -/

/-- `DistributeOrderAmountToOrders` never hands out more than `amt`, and hands out exactly `amt` **iff** `lossless` -/
theorem planOrders_sum_iff (fuel : Nat) (os : List Order) (amt p : Int) (hp : 0 < p) (hamt : 0 ≤ amt)
    (hw : ∀ o ∈ os, Wf o) (plan : List (Order × Int)) (h : planOrders fuel os amt p = some plan) :
    planSum plan ≤ amt ∧ (planSum plan = amt ↔ lossless fuel os amt p = true) := by
  induction fuel generalizing os with
  | zero => simp [planOrders] at h
  | succ fuel ih =>
    unfold planOrders at h
    unfold lossless
    rw [no_div_by_zero os p hp hw] at h
    simp only [Bool.false_eq_true, if_false] at h ⊢
    by_cases h1 : (List.filter (fun oa => shareOk oa.1 oa.2 p) (shares os amt p)).length = (shares os amt p).length
    · rw [if_pos h1] at h ⊢
      cases h
      rw [shares_sum os amt p hp hw hamt]
      simp only [decide_eq_true_eq]
      constructor
      · omega
      · constructor <;> intro hh <;> omega
    · rw [if_neg h1] at h ⊢
      split at h
      · rename_i he
        rw [if_pos he]
        exact ih os.dropLast (fun o ho => hw o (List.dropLast_subset os ho)) h
      · rename_i he
        rw [if_neg he]
        refine ih _ ?_ h
        intro o ho
        rw [List.mem_map] at ho
        obtain ⟨oa, hoa, rfl⟩ := ho
        exact hw _ (shares_mem os amt p hp hw hamt oa (List.mem_filter.mp hoa).1).1

/-- the group loop of `DistributeOrderAmountToTick`: never more than `rem`, exactly `rem` iff `groupsLossless` -/
theorem planGroups_sum_iff (gs : List (List Order)) (rem p : Int) (hp : 0 < p) (hrem : 0 ≤ rem)
    (hw : ∀ g ∈ gs, ∀ o ∈ g, Wf o) (plan : List (Order × Int)) (h : planGroups gs rem p = some plan) :
    planSum plan ≤ rem ∧ (planSum plan = rem ↔ groupsLossless gs rem p = true) := by
  induction gs generalizing rem plan with
  | nil =>
    simp only [planGroups, Option.some.injEq] at h
    subst h
    simp only [groupsLossless, decide_eq_true_eq, planSum, List.map_nil, sumInt]
    constructor
    · omega
    · constructor <;> intro hh <;> omega
  | cons g gs ih =>
    have hwg : ∀ o ∈ g, Wf o := hw g (by simp)
    have hw' : ∀ g' ∈ gs, ∀ o ∈ g', Wf o := fun g' hg' => hw g' (by simp [hg'])
    have hful_sum : planSum (fulfillPlan g p) = totalMatchable g p :=
      planSum_fulfillPlan g p (fun o ho => matchable_nonneg o p (hwg o ho) hp)
    unfold planGroups at h
    unfold groupsLossless
    simp only at h ⊢
    by_cases h0 : totalMatchable g p = 0
    · rw [if_pos h0] at h ⊢; exact ih rem hrem hw' plan h
    · rw [if_neg h0] at h ⊢
      by_cases hge : rem ≥ totalMatchable g p
      · rw [if_pos hge] at h ⊢
        by_cases hz : rem - totalMatchable g p = 0
        · rw [if_pos hz] at h ⊢
          cases h
          rw [hful_sum]
          exact ⟨by omega, by constructor <;> intro _ <;> first | rfl | omega⟩
        · rw [if_neg hz] at h ⊢
          cases hr : planGroups gs (rem - totalMatchable g p) p with
          | none => rw [hr] at h; cases h
          | some rest =>
            rw [hr] at h
            cases h
            obtain ⟨i1, i2⟩ := ih (rem - totalMatchable g p) (by omega) hw' rest hr
            rw [planSum_append, hful_sum]
            refine ⟨by omega, ?_⟩
            constructor
            · intro hh; exact i2.mp (by omega)
            · intro hh; have := i2.mpr hh; omega
      · rw [if_neg hge] at h ⊢
        have hws : ∀ o ∈ sortOrders g, Wf o := fun o ho => hwg o ((mem_sortOrders o g).mp ho)
        exact planOrders_sum_iff _ _ rem p hp hrem hws plan h

/-- **`DistributeOrderAmountToTick` moves at most the amount it was given, and exactly that amount iff nothing is lost** -/
theorem distributeToTick_exact (os : List Order) (amt p : Int) (hp : 0 < p) (hamt : 0 ≤ amt)
    (hw : ∀ o ∈ os, Wf o) (hnd : os.Nodup) (os' : List Order) (q : Int)
    (h : distributeToTick os amt p = some (os', q)) :
    q = quoteOf os os' ∧ filledOf os os' ≤ amt ∧
    (filledOf os os' = amt ↔ groupsLossless (groupOrders os) amt p = true) := by
  unfold distributeToTick at h
  cases hpl : planGroups (groupOrders os) amt p with
  | none => rw [hpl] at h; cases h
  | some plan =>
    rw [hpl] at h
    simp only at h
    obtain ⟨a1, a2⟩ := applyPlan_account os plan p os' q h
    have hwg : ∀ g ∈ groupOrders os, ∀ o ∈ g, Wf o := fun g hg o ho => hw o (mem_groupOrders os g hg o ho)
    obtain ⟨k1, k2, _⟩ := planGroups_account (groupOrders os) amt p hp hamt hwg
      (groupOrders_nodup os hnd) (groupOrders_disjoint os) plan hpl
    obtain ⟨s1, s2⟩ := planGroups_sum_iff (groupOrders os) amt p hp hamt hwg plan hpl
    have hsum : filledOf os os' = planSum plan := by
      rw [a1, sum_lookup os plan hnd k1 ?_]
      intro oa hoa
      obtain ⟨g, hg, hkg⟩ := k2 oa.1 (List.mem_map.mpr ⟨oa, hoa, rfl⟩)
      exact mem_groupOrders os g hg _ hkg
    rw [hsum]
    exact ⟨a2, s1, s2⟩

/-- **`distributeToTicks`: at most `x`, exactly `x` iff nothing is lost** -/
theorem distTicks_exact (ts : List Tick) (x p : Int) (hp : 0 < p) (hx : 0 ≤ x)
    (hw : ∀ t ∈ ts, ∀ o ∈ t.orders, Wf o) (hnd : ∀ t ∈ ts, t.orders.Nodup) (ts' : List Tick) (q : Int)
    (h : distTicks ts x p = some (ts', q)) :
    ticksFilled ts ts' ≤ x ∧ (ticksFilled ts ts' = x ↔ ticksLossless ts x p = true) := by
  induction ts generalizing x ts' q with
  | nil =>
    simp only [distTicks, Option.some.injEq, Prod.mk.injEq] at h
    obtain ⟨rfl, rfl⟩ := h
    simp only [ticksLossless, decide_eq_true_eq, ticksFilled, List.zipWith_nil_left, sumInt]
    exact ⟨hx, by constructor <;> intro hh <;> omega⟩
  | cons t ts ih =>
    have hwt : ∀ o ∈ t.orders, Wf o := hw t (by simp)
    have hw' : ∀ t' ∈ ts, ∀ o ∈ t'.orders, Wf o := fun t' ht' => hw t' (by simp [ht'])
    have hnd' : ∀ t' ∈ ts, t'.orders.Nodup := fun t' ht' => hnd t' (by simp [ht'])
    unfold distTicks at h
    unfold ticksLossless
    simp only at h ⊢
    by_cases hle : totalMatchable t.orders p ≤ x
    · rw [if_pos hle] at h ⊢
      cases hf : fulfillOrders t.orders p with
      | none => rw [hf] at h; cases h
      | some r =>
        obtain ⟨os', q1⟩ := r
        rw [hf] at h
        simp only at h
        obtain ⟨f1, _⟩ := fulfillOrders_account t.orders p (fun o ho => matchable_nonneg o p (hwt o ho) hp) os' q1 hf
        by_cases hz : x - totalMatchable t.orders p = 0
        · rw [if_pos hz] at h ⊢
          simp only [Option.some.injEq, Prod.mk.injEq] at h
          obtain ⟨rfl, rfl⟩ := h
          rw [ticksFilled_cons, ticksFilled_self]; dsimp only
          exact ⟨by omega, by constructor <;> intro _ <;> first | rfl | omega⟩
        · rw [if_neg hz] at h ⊢
          cases hr : distTicks ts (x - totalMatchable t.orders p) p with
          | none => rw [hr] at h; cases h
          | some r2 =>
            obtain ⟨ts2, q2⟩ := r2
            rw [hr] at h
            simp only [Option.some.injEq, Prod.mk.injEq] at h
            obtain ⟨rfl, rfl⟩ := h
            obtain ⟨i1, i2⟩ := ih (x - totalMatchable t.orders p) (by omega) hw' hnd' ts2 q2 hr
            rw [ticksFilled_cons]; dsimp only
            refine ⟨by omega, ?_⟩
            constructor
            · intro hh; exact i2.mp (by omega)
            · intro hh; have := i2.mpr hh; omega
    · rw [if_neg hle] at h ⊢
      cases hd : distributeToTick t.orders x p with
      | none => rw [hd] at h; cases h
      | some r =>
        obtain ⟨os', q1⟩ := r
        rw [hd] at h
        simp only [Option.some.injEq, Prod.mk.injEq] at h
        obtain ⟨rfl, rfl⟩ := h
        obtain ⟨_, d1, d2⟩ := distributeToTick_exact t.orders x p hp hx hwt (hnd t (by simp)) os' q1 hd
        rw [ticksFilled_cons, ticksFilled_self]; dsimp only
        refine ⟨by omega, ?_⟩
        constructor
        · intro hh; exact d2.mp (by omega)
        · intro hh; have := d2.mpr hh; omega

/-- **`MatchAtSinglePrice`**: the sell side pays at most what the buy side receives (`x`), and exactly that iff nothing is lost -/
theorem matchAtSinglePrice_exact (b : Book) (p : Int) (hp : 0 < p) (hb : BookOk b)
    (hnd : (∀ t ∈ b.buys, t.orders.Nodup) ∧ (∀ t ∈ b.sells, t.orders.Nodup))
    (b' : Book) (q : Int) (h : matchAtSinglePrice b p = .ok b' q) :
    ∃ x, findMatchableAmount b p = some x ∧ ticksFilled b.buys b'.buys = x ∧ ticksFilled b.sells b'.sells ≤ x ∧
      (ticksFilled b.sells b'.sells = x ↔ ticksLossless b.sells x p = true) := by
  obtain ⟨x, h1, h2, _, h4, _⟩ := matchAtSinglePrice_account b p hp hb hnd b' q h
  refine ⟨x, h1, h4, ?_⟩
  unfold matchAtSinglePrice at h
  rw [h1] at h
  simp only at h
  cases hd1 : distTicks b.buys x p with
  | none => rw [hd1] at h; cases h
  | some r1 =>
    obtain ⟨buys', q1⟩ := r1
    rw [hd1] at h
    simp only at h
    cases hd2 : distTicks b.sells x p with
    | none => rw [hd2] at h; cases h
    | some r2 =>
      obtain ⟨sells', q2⟩ := r2
      rw [hd2] at h
      simp only [SRes.ok.injEq] at h
      obtain ⟨rfl, rfl⟩ := h
      exact distTicks_exact b.sells x p hp (by omega) (fun t ht o ho => (hb.2 t ht o ho).1) hnd.2 sells' q2 hd2

/-- **the two-sided loop of `Match`**: sellers never pay more base coin than buyers receive, and exactly as much **iff** no
sell-side distribution lost a remainder (`r.lossless`) -/
theorem matchLoop_exact (fuel : Nat) (incr : Bool) (bs ss : List Tick)
    (hb : ∀ t ∈ bs, TickOk .buy t) (hs : ∀ t ∈ ss, TickOk .sell t)
    (hbn : ∀ t ∈ bs, (t.orders.map (·.id)).Nodup) (hsn : ∀ t ∈ ss, (t.orders.map (·.id)).Nodup)
    (r : LoopRes) (h : matchLoop fuel incr bs ss = some r) :
    ticksFilled ss r.sells ≤ ticksFilled bs r.buys ∧
    (ticksFilled bs r.buys = ticksFilled ss r.sells ↔ r.lossless = true) := by
  have base : ∀ (bs ss : List Tick), ticksFilled ss ss ≤ ticksFilled bs bs ∧
      (ticksFilled bs bs = ticksFilled ss ss ↔ true = true) := by
    intro bs ss
    simp [ticksFilled_self]
  induction fuel generalizing bs ss r with
  | zero => unfold matchLoop at h; cases h; exact base bs ss
  | succ fuel ih =>
    cases bs with
    | nil => unfold matchLoop at h; cases h; exact base _ _
    | cons bt bts =>
      cases ss with
      | nil => unfold matchLoop at h; cases h; exact base _ _
      | cons st sts =>
        have hbt := hb bt (by simp)
        have hst := hs st (by simp)
        have hbts : ∀ t ∈ bts, TickOk .buy t := fun t ht => hb t (by simp [ht])
        have hsts : ∀ t ∈ sts, TickOk .sell t := fun t ht => hs t (by simp [ht])
        have hbnt := hbn bt (by simp)
        have hsnt := hsn st (by simp)
        have hbnts : ∀ t ∈ bts, (t.orders.map (·.id)).Nodup := fun t ht => hbn t (by simp [ht])
        have hsnts : ∀ t ∈ sts, (t.orders.map (·.id)).Nodup := fun t ht => hsn t (by simp [ht])
        unfold matchLoop at h
        simp only at h
        generalize hpd : (if incr = true then st.price else bt.price) = p at *
        split at h
        · cases h; exact base _ _
        · rename_i hcross
          split at h
          · -- the buy tick has nothing matchable: skip it
            cases hr : matchLoop fuel incr bts (st :: sts) with
            | none => rw [hr] at h; cases h
            | some r' =>
              rw [hr] at h
              cases h
              obtain ⟨i1, i2⟩ := ih bts (st :: sts) hbts hs hbnts hsn r' hr
              simp only [ticksFilled_cons, filledOf_self]
              refine ⟨by omega, ?_⟩
              constructor
              · intro hh; exact i2.mp (by omega)
              · intro hh; have := i2.mpr hh; omega
          · rename_i hbo
            split at h
            · cases hr : matchLoop fuel incr (bt :: bts) sts with
              | none => rw [hr] at h; cases h
              | some r' =>
                rw [hr] at h
                cases h
                obtain ⟨i1, i2⟩ := ih (bt :: bts) sts hb hsts hbn hsnts r' hr
                simp only [ticksFilled_cons, filledOf_self]
                refine ⟨by omega, ?_⟩
                constructor
                · intro hh; exact i2.mp (by omega)
                · intro hh; have := i2.mpr hh; omega
            · rename_i hso
              have hbo' : 0 < totalMatchable bt.orders p := by omega
              have hso' : 0 < totalMatchable st.orders p := by omega
              have hbp := tick_price_pos hbt p hbo'
              have hsp := tick_price_pos hst p hso'
              have hp : 0 < p := by rw [← hpd]; split <;> assumption
              have hpb : p ≤ bt.price := by rw [← hpd]; split <;> omega
              have hps : st.price ≤ p := by rw [← hpd]; split <;> omega
              have hwb := within_of_tickOk hbt p (fun _ => hpb) (fun h => by cases h)
              have hws := within_of_tickOk hst p (fun h => by cases h) (fun _ => hps)
              generalize hXb : (if totalMatchable bt.orders p ≤ totalMatchable st.orders p then totalMatchable bt.orders p
                 else totalMatchable st.orders p) = Xb at *
              generalize hXs : (if totalMatchable st.orders p ≤ totalMatchable bt.orders p then totalMatchable st.orders p
                 else totalMatchable bt.orders p) = Xs at *
              have hXb0 : 0 ≤ Xb := by rw [← hXb]; split <;> omega
              have hXs0 : 0 ≤ Xs := by rw [← hXs]; split <;> omega
              have hXeq : Xb = Xs := by rw [← hXb, ← hXs]; split <;> split <;> omega
              have hXble : Xb ≤ totalMatchable bt.orders p := by rw [← hXb]; split <;> omega
              obtain ⟨bos, q1, hd1, rb⟩ := distributeToTick_ok bt.orders Xb p hp hXb0 hwb
              obtain ⟨sos, q2, hd2, rs⟩ := distributeToTick_ok st.orders Xs p hp hXs0 hws
              rw [hd1] at h; simp only at h; rw [hd2] at h; simp only at h
              obtain ⟨_, _, a2⟩ := distributeToTick_exact bt.orders Xb p hp hXb0 (fun o ho => (hwb o ho).1)
                (nodup_of_ids hbnt) bos q1 hd1
              obtain ⟨_, c0, c2⟩ := distributeToTick_exact st.orders Xs p hp hXs0 (fun o ho => (hws o ho).1)
                (nodup_of_ids hsnt) sos q2 hd2
              have hbl : groupsLossless (groupOrders bt.orders) Xb p = true := by
                apply groupsLossless_buys _ Xb p hp hXb0
                · intro g hg o ho
                  have := hbt o (mem_groupOrders bt.orders g hg o ho)
                  exact ⟨this.1, this.2.1⟩
                · rw [sum_groupOrders]; exact hXble
              have hbf := a2.mpr hbl
              have rbt : TickReach bt { bt with orders := bos } := ⟨rfl, rb⟩
              have rst : TickReach st { st with orders := sos } := ⟨rfl, rs⟩
              have hbt' := tickOk_of_reach hbt rbt
              have hst' := tickOk_of_reach hst rst
              have hbn' := tickIds_of_reach hbt rbt hbnt
              have hsn' := tickIds_of_reach hst rst hsnt
              by_cases k1 : totalMatchable bt.orders p ≤ totalMatchable st.orders p
              · by_cases k2 : totalMatchable st.orders p ≤ totalMatchable bt.orders p
                · simp only [k1, k2, if_true] at h
                  cases hr : matchLoop fuel incr bts sts with
                  | none => rw [hr] at h; cases h
                  | some r' =>
                    rw [hr] at h
                    cases h
                    obtain ⟨i1, i2⟩ := ih bts sts hbts hsts hbnts hsnts r' hr
                    simp only [ticksFilled_cons, Bool.and_eq_true]
                    refine ⟨by omega, ?_⟩
                    constructor
                    · intro hh; exact ⟨c2.mp (by omega), i2.mp (by omega)⟩
                    · intro hl
                      have := i2.mpr hl.2
                      have := c2.mpr hl.1
                      omega
                · simp only [k1, k2, if_true, if_false] at h
                  cases hr : matchLoop fuel incr bts ({ st with orders := sos } :: sts) with
                  | none => rw [hr] at h; cases h
                  | some r' =>
                    rw [hr] at h
                    cases h
                    have hs2 : ∀ t ∈ ({ st with orders := sos } : Tick) :: sts, TickOk .sell t := by
                      intro t ht; rcases List.mem_cons.mp ht with rfl | ht; exact hst'; exact hsts t ht
                    have hsn2 : ∀ t ∈ ({ st with orders := sos } : Tick) :: sts, (t.orders.map (·.id)).Nodup := by
                      intro t ht; rcases List.mem_cons.mp ht with rfl | ht; exact hsn'; exact hsnts t ht
                    obtain ⟨i1, i2⟩ := ih bts _ hbts hs2 hbnts hsn2 r' hr
                    obtain ⟨r'', hr'', _, rr2⟩ := matchLoop_ok fuel incr bts _ hbts hs2
                    rw [hr] at hr''; cases hr''
                    obtain ⟨t1, t2⟩ := ticks_head_trans st sos sts r'.sells hst rs rr2
                    simp only [ticksFilled_cons, Bool.and_eq_true]
                    refine ⟨by omega, ?_⟩
                    constructor
                    · intro hh; exact ⟨c2.mp (by omega), i2.mp (by omega)⟩
                    · intro hl
                      have := i2.mpr hl.2
                      have := c2.mpr hl.1
                      omega
              · have k2 : totalMatchable st.orders p ≤ totalMatchable bt.orders p := by omega
                simp only [k1, k2, if_true, if_false] at h
                cases hr : matchLoop fuel incr ({ bt with orders := bos } :: bts) sts with
                | none => rw [hr] at h; cases h
                | some r' =>
                  rw [hr] at h
                  cases h
                  have hb2 : ∀ t ∈ ({ bt with orders := bos } : Tick) :: bts, TickOk .buy t := by
                    intro t ht; rcases List.mem_cons.mp ht with rfl | ht; exact hbt'; exact hbts t ht
                  have hbn2 : ∀ t ∈ ({ bt with orders := bos } : Tick) :: bts, (t.orders.map (·.id)).Nodup := by
                    intro t ht; rcases List.mem_cons.mp ht with rfl | ht; exact hbn'; exact hbnts t ht
                  obtain ⟨i1, i2⟩ := ih _ sts hb2 hsts hbn2 hsnts r' hr
                  obtain ⟨r'', hr'', rr1, _⟩ := matchLoop_ok fuel incr _ sts hb2 hsts
                  rw [hr] at hr''; cases hr''
                  obtain ⟨t1, t2⟩ := ticks_head_trans bt bos bts r'.buys hbt rb rr1
                  simp only [ticksFilled_cons, Bool.and_eq_true]
                  refine ⟨by omega, ?_⟩
                  constructor
                  · intro hh; exact ⟨c2.mp (by omega), i2.mp (by omega)⟩
                  · intro hl
                    have := i2.mpr hl.2
                    have := c2.mpr hl.1
                    omega




/-- **`OrderBook.Match`: base coin, exactly.** Sellers never pay more base coin than buyers receive; they pay exactly as
much **iff** no sell-side distribution lost a remainder (`matchLossless`): this characterises defect D2 -/
theorem matchBook_exact (b : Book) (lp : Int) (hlp : 0 < lp) (hb : BookOk b)
    (hn : (∀ t ∈ b.buys, (t.orders.map (·.id)).Nodup) ∧ (∀ t ∈ b.sells, (t.orders.map (·.id)).Nodup))
    (b' : Book) (mp q : Int) (h : matchBook b lp = .ok b' mp q) :
    ticksFilled b.sells b'.sells ≤ ticksFilled b.buys b'.buys ∧
    (ticksFilled b.buys b'.buys = ticksFilled b.sells b'.sells ↔ matchLossless b lp = true) := by
  have hnd : (∀ t ∈ b.buys, t.orders.Nodup) ∧ (∀ t ∈ b.sells, t.orders.Nodup) :=
    ⟨fun t ht => nodup_of_ids (hn.1 t ht), fun t ht => nodup_of_ids (hn.2 t ht)⟩
  unfold matchBook at h
  unfold matchLossless
  split at h
  · cases h
  · rcases matchAtSinglePrice_ok b lp hlp hb with hs | ⟨b1, q0, hs, r0⟩
    · -- nothing matched at the last price
      have hfn : findMatchableAmount b lp = none := by
        unfold matchAtSinglePrice at hs
        cases hf : findMatchableAmount b lp with
        | none => rfl
        | some x =>
          rw [hf] at hs
          simp only at hs
          cases h1 : distTicks b.buys x lp with
          | none => rw [h1] at hs; cases hs
          | some r1 =>
            rw [h1] at hs
            simp only at hs
            cases h2 : distTicks b.sells x lp with
            | none => rw [h2] at hs; cases hs
            | some r2 => rw [h2] at hs; cases hs
      rw [hs] at h ⊢
      rw [hfn]
      simp only at h ⊢
      split at h
      · cases h
      · rename_i hdir
        rw [if_neg hdir]
        cases hr : matchLoop (b.buys.length + b.sells.length) (priceDirection b lp == PDir.increasing) b.buys b.sells with
        | none => rw [hr] at h; cases h
        | some r =>
          rw [hr] at h
          simp only at h ⊢
          obtain ⟨a1, a2⟩ := matchLoop_exact _ _ b.buys b.sells hb.1 hb.2 hn.1 hn.2 r hr
          cases hl : r.last with
          | none => rw [hl] at h; simp at h
          | some m =>
            rw [hl] at h
            simp only [MRes.ok.injEq] at h
            obtain ⟨rfl, rfl, rfl⟩ := h
            refine ⟨a1, ?_⟩
            simp only [Bool.true_and]
            exact a2
    · obtain ⟨x, hx1, hx4, hx5a, hx5⟩ := matchAtSinglePrice_exact b lp hlp hb hnd b1 q0 hs
      rw [hs] at h ⊢
      rw [hx1]
      simp only at h ⊢
      split at h
      · rename_i hdir
        rw [if_pos hdir]
        simp only [MRes.ok.injEq] at h
        obtain ⟨rfl, rfl, rfl⟩ := h
        refine ⟨by omega, ?_⟩
        constructor
        · intro hh; exact hx5.mp (by omega)
        · intro hh; have := hx5.mpr hh; omega
      · rename_i hdir
        rw [if_neg hdir]
        have hb1 := bookOk_of_reach hb r0
        have hn1 : (∀ t ∈ b1.buys, (t.orders.map (·.id)).Nodup) ∧ (∀ t ∈ b1.sells, (t.orders.map (·.id)).Nodup) := by
          constructor
          · intro t' ht'
            obtain ⟨t, ht, r⟩ := all2_mem_right r0.1 ht'
            exact tickIds_of_reach (hb.1 t ht) r (hn.1 t ht)
          · intro t' ht'
            obtain ⟨t, ht, r⟩ := all2_mem_right r0.2 ht'
            exact tickIds_of_reach (hb.2 t ht) r (hn.2 t ht)
        cases hr : matchLoop (b1.buys.length + b1.sells.length) (priceDirection b lp == PDir.increasing) b1.buys b1.sells with
        | none => rw [hr] at h; cases h
        | some r =>
          rw [hr] at h
          simp only at h ⊢
          obtain ⟨a1, a2⟩ := matchLoop_exact _ _ b1.buys b1.sells hb1.1 hb1.2 hn1.1 hn1.2 r hr
          obtain ⟨r', hr', rr1, rr2⟩ := matchLoop_ok (b1.buys.length + b1.sells.length)
            (priceDirection b lp == PDir.increasing) b1.buys b1.sells hb1.1 hb1.2
          rw [hr] at hr'; cases hr'
          obtain ⟨tb1, tb2⟩ := ticks_trans hb.1 r0.1 rr1
          obtain ⟨ts1, ts2⟩ := ticks_trans hb.2 r0.2 rr2
          have hfin : (match r.last with
              | some mp => MRes.ok ⟨r.buys, r.sells⟩ mp (q0 + r.q)
              | none => if true = true then MRes.ok ⟨r.buys, r.sells⟩ lp (q0 + r.q) else MRes.noMatch) = MRes.ok b' mp q → 
              b' = ⟨r.buys, r.sells⟩ ∧ q = q0 + r.q := by
            intro hh
            cases hl : r.last with
            | none => rw [hl] at hh; simp at hh; exact ⟨hh.1.symm, hh.2.2.symm⟩
            | some m => rw [hl] at hh; simp at hh; exact ⟨hh.1.symm, hh.2.2.symm⟩
          obtain ⟨rfl, rfl⟩ := hfin h
          simp only [Bool.and_eq_true]
          refine ⟨by omega, ?_⟩
          constructor
          · intro hh; exact ⟨hx5.mp (by omega), a2.mp (by omega)⟩
          · intro hl
            have := a2.mpr hl.2
            have := hx5.mpr hl.1
            omega





end Comdex.Amm
