import Lean
/-! `#audit_ns Foo.Bar` prints, for every theorem whose name starts with the given namespace, one line
`AXIOMS <name> <axiom> <axiom> …` (the output of `#print axioms`, machine readable). Used by /verif/check. -/
open Lean Elab Command

elab "#audit_ns " ns:ident : command => do
  let env ← getEnv
  let prefixName := ns.getId
  let mut names : Array Name := #[]
  for (n, ci) in env.constants.toList do
    if prefixName.isPrefixOf n && !n.isInternalDetail then
      if let .thmInfo _ := ci then
        let last := match n with | .str _ s => s | _ => ""
        -- skip compiler-generated equation / injectivity lemmas
        if !(last.startsWith "eq_" || last == "injEq" || last == "inj" || last == "sizeOf_spec"
              || last.startsWith "match_" || last == "noConfusion") then
          names := names.push n
  let sorted := names.qsort (fun a b => a.toString < b.toString)
  for n in sorted do
    let axs ← liftCoreM (collectAxioms n)
    let axl := axs.toList.map (·.toString)
    let axsSorted := (axl.toArray.qsort (· < ·)).toList
    logInfo m!"AXIOMS {n} {" ".intercalate axsSorted}"
  logInfo m!"AUDITED {prefixName} {sorted.size}"
