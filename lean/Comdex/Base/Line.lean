/-! Line protocol helpers (core only). -/
namespace Comdex.Line

def splitTab (s : String) : List String := s.splitOn "\t"

def parseInt? (s : String) : Option Int := s.toInt?
def parseNat? (s : String) : Option Nat := s.toNat?

def parseNatList (s : String) : Option (List Nat) :=
  if s = "" then some [] else (s.splitOn ",").mapM (·.toNat?)

def parseIntList (s : String) : Option (List Int) :=
  if s = "" then some [] else (s.splitOn ",").mapM (·.toInt?)

def showNatList (l : List Nat) : String := ",".intercalate (l.map toString)
def showIntList (l : List Int) : String := ",".intercalate (l.map toString)

def parseBool? (s : String) : Option Bool :=
  if s = "true" || s = "1" then some true else if s = "false" || s = "0" then some false else none

/-- look up `key=value` among fields -/
def field? (fs : List String) (key : String) : Option String :=
  fs.findSome? fun f =>
    match f.splitOn "=" with
    | k :: rest => if k = key then some ("=".intercalate rest) else none
    | _ => none

end Comdex.Line
