/-!
Model of cosmossdk.io/math v1.1.2 `LegacyDec` (18-digit fixed point over big.Int) and `Int`.
A `Dec` is represented by its raw integer (value × 10^18).  Every function mirrors `dec.go`
line by line; `big.Int.Quo/QuoRem` are truncated (T-) division = `Int.tdiv/tmod`.
The library's overflow rule (`BitLen > 315 ⇒ panic "Int overflow"`) is `Dec.fits`; the models that
need it call it explicitly.  Core Lean only.
-/
namespace Comdex

abbrev Dec := Int

namespace Dec

def P : Int := 1000000000000000000            -- 10^18, precisionReuse
def half : Int := 500000000000000000          -- fivePrecision
def PP : Int := P * P                         -- squaredPrecisionReuse

def ofInt (i : Int) : Dec := i * P            -- LegacyNewDecFromInt
def one : Dec := P
def zero : Dec := 0

/-- chopPrecisionAndRound: drop 18 digits, banker's rounding, sign handled by negation. -/
def chopRoundNonneg (x : Int) : Int :=
  let q := x.tdiv P
  let r := x.tmod P
  if r = 0 then q
  else if r < half then q
  else if r > half then q + 1
  else if q % 2 = 0 then q else q + 1

def chopRound (x : Int) : Int :=
  if x < 0 then - chopRoundNonneg (-x) else chopRoundNonneg x

/-- chopPrecisionAndRoundUp -/
def chopRoundUp (x : Int) : Int :=
  if x < 0 then - ((-x).tdiv P)
  else if x.tmod P = 0 then x.tdiv P else x.tdiv P + 1

/-- chopPrecisionAndTruncate -/
def chopTrunc (x : Int) : Int := x.tdiv P

def add (a b : Dec) : Dec := a + b
def sub (a b : Dec) : Dec := a - b
def mul (a b : Dec) : Dec := chopRound (a * b)
def mulTruncate (a b : Dec) : Dec := chopTrunc (a * b)
def mulRoundUp (a b : Dec) : Dec := chopRoundUp (a * b)
def mulInt (a : Dec) (i : Int) : Dec := a * i
/-- `Quo` panics on a zero divisor (big.Int division by zero); callers guard. -/
def quo (a b : Dec) : Dec := chopRound ((a * PP).tdiv b)
def quoTruncate (a b : Dec) : Dec := chopTrunc ((a * PP).tdiv b)
def quoRoundUp (a b : Dec) : Dec := chopRoundUp ((a * PP).tdiv b)
def quoInt (a : Dec) (i : Int) : Dec := a.tdiv i

def truncateInt (a : Dec) : Int := a.tdiv P
def roundInt (a : Dec) : Int := chopRound a
def truncateDec (a : Dec) : Dec := (a.tdiv P) * P
def ceil (a : Dec) : Dec :=
  let q := a.tdiv P
  let r := a.tmod P
  if r = 0 then q * P else if r < 0 then q * P else (q + 1) * P
def isInteger (a : Dec) : Bool := a.tmod P = 0

/-- big.Int BitLen of |x| -/
def bitLen (x : Int) : Nat := Nat.log2 x.natAbs + (if x = 0 then 0 else 1)

/-- the overflow rule of `Dec` results -/
def fits (x : Dec) : Bool := x.natAbs < 2 ^ 315
/-- the overflow rule of `sdk.Int` results -/
def fitsInt (x : Int) : Bool := x.natAbs < 2 ^ 256

/-- `PowerMut` (square and multiply with `mul` rounding at every step). -/
def powerLoop : Nat → Nat → Dec → Dec → Dec × Dec
  | 0, _, d, tmp => (d, tmp)
  | fuel+1, i, d, tmp =>
    if i > 1 then
      let tmp' := if i % 2 ≠ 0 then mul tmp d else tmp
      powerLoop fuel (i / 2) (mul d d) tmp'
    else (d, tmp)

def power (d : Dec) (n : Nat) : Dec :=
  if n = 0 then one else
    let (d', tmp) := powerLoop 64 n d one
    mul d' tmp

/-- `ApproxRoot(2)` = `ApproxSqrt`, for non-negative input: Newton iteration, at most 300 rounds,
stops when |delta| ≤ 1 ulp. `delta.i.Rsh(delta.i, 1)` on a big.Int is an arithmetic shift (floor). -/
def sqrtLoop : Nat → Dec → Dec → Dec → Dec
  | 0, _, guess, _ => guess
  | fuel+1, d, guess, delta =>
    if delta.natAbs > 1 then
      let prev := if guess = 0 then 1 else guess
      let delta1 := quo d prev - guess
      let delta2 := delta1 / 2            -- floor division = arithmetic shift right
      sqrtLoop fuel d (guess + delta2) delta2
    else guess

def approxSqrt (d : Dec) : Dec :=
  if d < 0 then 0   -- not used on negatives by the modelled code
  else if d = 0 ∨ d = one then d
  else sqrtLoop 300 d one one

end Dec
end Comdex
