import Comdex.Base.Dec
/-!
# Semantics of the Go / cosmossdk.io/math primitives used by the translated arithmetic kernels

`extract/pure` translates a subset of Go into Lean `do`-notation in the monad `GoSem.M = Except Fail`; every Go
primitive the translated functions call is a definition of this file (name scheme: `<receiver kind><Method>`).
The file is part of the trusted base: each definition was written from the library source named beside it
(cosmossdk.io/math v1.1.2 `dec.go` / `int.go`, Go 1.2x `math/bits`, the Go spec for machine integers on a 64-bit
platform) on top of `Comdex.Dec` (`Base/Dec.lean`, validated against the real library by `harness/dec_test.go`).

Representation: `sdk.Int` = `Int`; `LegacyDec` = `Dec` (raw integer × 10^18); `uint64` = `Nat` below 2^64;
`int`, `int64` = `Int` in [-2^63, 2^63) (the chain runs on 64-bit platforms: Go `int` is 64 bits); `bool` = `Bool`
in value position and a `Prop` in condition position; `[]T` = `List T`; `*big.Int` = `Int` (unbounded).

A step that can panic returns `M α`.  `Fail.overflow` = a panic whose value `utils.IsOverflow` (types/utils.go:
a string containing "overflow" or ending in "out of bound") recognises, i.e. the panics `utils.SafeMath` turns into
its `onOverflow` branch; `Fail.panic` = every other panic (run-time errors: integer / big.Int division by zero, index
out of range, `bits.Div64` overflow; string panics with another text; explicit `panic(...)`).
Machine-integer operations are total and wrap (Go spec "Integer overflow"); only `/` and `%` by zero panic.
Core Lean only (imported by `Comdex/Gen/Pure.lean`; nothing here is linked into the driver).
-/
namespace Comdex.GoSem
open Comdex

/-- why a Go computation did not return normally -/
inductive Fail where
  | overflow   -- a panic that `utils.IsOverflow` recognises
  | panic      -- any other panic
  deriving DecidableEq, Repr

abbrev M := Except Fail

/-- `BitLen > 315 ⇒ panic("Int overflow")` (dec.go, every checked `LegacyDec` result) -/
def chkDec (x : Dec) : M Dec := if Dec.fits x then .ok x else .error .overflow
/-- `BitLen > 256 ⇒ panic("Int overflow")` / `panic("NewIntFromBigInt() out of bound")` (int.go) -/
def chkInt (x : Int) : M Int := if Dec.fitsInt x then .ok x else .error .overflow

/-- `utils.SafeMath(f, onOverflow)` (types/utils.go:211-224): an overflow-class panic of `f` runs `onOverflow`,
any other panic is re-thrown.  The translator passes the captured variables through the result (see notes/PURE.md). -/
def safeMath {α : Type} (f onOverflow : M α) : M α :=
  match f with
  | .ok a => .ok a
  | .error .overflow => onOverflow
  | .error .panic => .error .panic

/-- explicit `panic(...)` with a value that is not an overflow string -/
def goPanic {α : Type} : M α := .error .panic

/-! ## machine integers -/

def two64 : Nat := 18446744073709551616
def two63 : Int := 9223372036854775808
def fitsI64 (x : Int) : Bool := decide (-two63 ≤ x) && decide (x < two63)
def fitsU64 (x : Int) : Bool := decide (0 ≤ x) && decide (x < (two64 : Int))

/-- two's-complement wrap of a mathematical integer into int64 / int -/
def wrapI64 (x : Int) : Int := (x + two63) % (two64 : Int) - two63
/-- wrap of a mathematical integer into uint64 -/
def wrapU64 (x : Int) : Nat := (x % (two64 : Int)).toNat

def u64Add (a b : Nat) : Nat := (a + b) % two64
def u64Sub (a b : Nat) : Nat := wrapU64 ((a : Int) - (b : Int))
def u64Mul (a b : Nat) : Nat := (a * b) % two64
def u64Div (a b : Nat) : M Nat := if b = 0 then .error .panic else .ok (a / b)
def u64Mod (a b : Nat) : M Nat := if b = 0 then .error .panic else .ok (a % b)

def i64Add (a b : Int) : Int := wrapI64 (a + b)
def i64Sub (a b : Int) : Int := wrapI64 (a - b)
def i64Mul (a b : Int) : Int := wrapI64 (a * b)
/-- Go `/` on signed integers truncates toward zero; `MinInt64 / -1` wraps (spec) -/
def i64Div (a b : Int) : M Int := if b = 0 then .error .panic else .ok (wrapI64 (a.tdiv b))
def i64Mod (a b : Int) : M Int := if b = 0 then .error .panic else .ok (a.tmod b)
def i64Neg (a : Int) : Int := wrapI64 (-a)

/-- conversions between machine integer types (Go spec "Conversions between numeric types": wrap / reinterpret) -/
def u64ToI64 (a : Nat) : Int := wrapI64 (a : Int)      -- int(x), int64(x) of a uint64
def i64ToU64 (a : Int) : Nat := wrapU64 a              -- uint64(x) of an int / int64

/-- `bits.Add64(x, y, carry)` = (sum, carryOut) -/
def bitsAdd64 (x y c : Nat) : Nat × Nat := ((x + y + c) % two64, (x + y + c) / two64)
/-- `bits.Div64(hi, lo, y)` = (quo, rem); panics (run-time error) for `y = 0` and for `y ≤ hi` -/
def bitsDiv64 (hi lo y : Nat) : M (Nat × Nat) :=
  if y = 0 then .error .panic else if y ≤ hi then .error .panic
  else .ok ((hi * two64 + lo) / y, (hi * two64 + lo) % y)

/-! ## slices -/

/-- `for i := a; i < b; i++` over `uint64` (the translator checks that the body assigns neither `i` nor the bound) -/
def rangeU64 (a b : Nat) : List Nat := List.range' a (b - a)
/-- the same over `int` / `int64` -/
def rangeI64 (a b : Int) : List Int := (List.range (b - a).toNat).map (fun (k : Nat) => a + (k : Int))
/-- `xs[i]`, `i` an `int`: index out of range is a run-time panic -/
def indexI {α : Type} (xs : List α) (i : Int) : M α :=
  if i < 0 then .error .panic else match xs[i.toNat]? with | some v => .ok v | none => .error .panic
/-- `xs[i]`, `i` a `uint64` -/
def indexU {α : Type} (xs : List α) (i : Nat) : M α :=
  match xs[i]? with | some v => .ok v | none => .error .panic
/-- `len(xs)` as an `int` -/
def lenI {α : Type} (xs : List α) : Int := (xs.length : Int)
/-- `for i, v := range xs` -/
def enumI {α : Type} (xs : List α) : List (Int × α) := ((List.range xs.length).map (fun (k : Nat) => (k : Int))).zip xs

/-! ## `sdk.Int` (int.go) -/

def intZero : Int := 0                                  -- ZeroInt()
def intOne : Int := 1                                   -- OneInt()
def intNew (n : Int) : Int := n                         -- NewInt(int64)
def intNewFromUint64 (n : Nat) : Int := (n : Int)       -- NewIntFromUint64
/-- `NewIntFromBigInt`: `BitLen > 256 ⇒ panic("NewIntFromBigInt() out of bound")` (overflow class) -/
def intNewFromBigInt (b : Int) : M Int := chkInt b
def intAdd (a b : Int) : M Int := chkInt (a + b)
def intSub (a b : Int) : M Int := chkInt (a - b)
/-- `Mul`: the pre-check `BitLen(a)+BitLen(b)-1 > 256`, then the product's own check -/
def intMul (a b : Int) : M Int :=
  if Dec.bitLen a + Dec.bitLen b > 257 then .error .overflow else chkInt (a * b)
/-- `Quo`: `panic("Division by zero")` is not an overflow string; big.Int `Quo` truncates -/
def intQuo (a b : Int) : M Int := if b = 0 then .error .panic else .ok (a.tdiv b)
/-- `Mod`: `panic("division-by-zero")`; big.Int `Mod` is the Euclidean modulus -/
def intMod (a b : Int) : M Int := if b = 0 then .error .panic else .ok (a.emod b)
def intNeg (a : Int) : Int := -a
def intAbs (a : Int) : Int := (a.natAbs : Int)
def intMin (a b : Int) : Int := if a < b then a else b  -- MinInt (value of `min` on big.Int)
def intMax (a b : Int) : Int := if a < b then b else a
/-- `Int64()`: `panic("Int64() out of bound")` — ends in "out of bound": overflow class -/
def intInt64 (a : Int) : M Int := if fitsI64 a then .ok a else .error .overflow
/-- `Uint64()`: `panic("Uint64() out of bounds")` — does NOT end in "out of bound": ordinary panic -/
def intUint64 (a : Int) : M Nat := if fitsU64 a then .ok a.toNat else .error .panic
def intToDec (a : Int) : Dec := Dec.ofInt a             -- ToLegacyDec / LegacyNewDecFromInt: no check
/-- `len(x.BigInt().Text(10))`: decimal digits plus the sign -/
def intTextLen (a : Int) : Int := ((toString a.natAbs).length + (if a < 0 then 1 else 0) : Nat)

/-! ## `*big.Int` where the translated code uses it directly -/

def bigNew (n : Int) : Int := n                         -- big.NewInt(int64)
/-- `z.Exp(x, y, nil)`: `x**y`, and 1 for `y ≤ 0` (math/big) -/
def bigExp (x y : Int) : Int := if y ≤ 0 then 1 else x ^ y.toNat

/-! ## `LegacyDec` (dec.go) -/

def decZero : Dec := 0                                  -- LegacyZeroDec()
def decOne : Dec := Dec.P                               -- LegacyOneDec()
def decNew (n : Int) : Dec := Dec.ofInt n               -- LegacyNewDec(int64): no check
def decAdd (a b : Dec) : M Dec := chkDec (Dec.add a b)
def decSub (a b : Dec) : M Dec := chkDec (Dec.sub a b)
def decMul (a b : Dec) : M Dec := chkDec (Dec.mul a b)
def decMulTruncate (a b : Dec) : M Dec := chkDec (Dec.mulTruncate a b)
def decMulRoundUp (a b : Dec) : M Dec := chkDec (Dec.mulRoundUp a b)
def decMulInt (a : Dec) (i : Int) : M Dec := chkDec (Dec.mulInt a i)
def decMulInt64 (a : Dec) (i : Int) : M Dec := chkDec (Dec.mulInt a i)
/-- big.Int `Quo` by zero: run-time panic (not an overflow string) -/
def decQuo (a b : Dec) : M Dec := if b = 0 then .error .panic else chkDec (Dec.quo a b)
def decQuoTruncate (a b : Dec) : M Dec := if b = 0 then .error .panic else chkDec (Dec.quoTruncate a b)
def decQuoRoundUp (a b : Dec) : M Dec := if b = 0 then .error .panic else chkDec (Dec.quoRoundUp a b)
/-- `QuoInt`, `QuoInt64`: truncating big.Int `Quo`, no overflow check -/
def decQuoInt (a : Dec) (i : Int) : M Dec := if i = 0 then .error .panic else .ok (Dec.quoInt a i)
def decQuoInt64 (a : Dec) (i : Int) : M Dec := if i = 0 then .error .panic else .ok (Dec.quoInt a i)
def decNeg (a : Dec) : Dec := -a
def decAbs (a : Dec) : Dec := (a.natAbs : Int)
def decCeil (a : Dec) : Dec := Dec.ceil a               -- no check
def decTruncateDec (a : Dec) : Dec := Dec.truncateDec a
def decTruncateInt (a : Dec) : M Int := chkInt (Dec.truncateInt a)
def decRoundInt (a : Dec) : M Int := chkInt (Dec.roundInt a)
/-- `TruncateInt64` / `RoundInt64`: `panic("Int64() out of bound")` — overflow class -/
def decTruncateInt64 (a : Dec) : M Int := if fitsI64 (Dec.truncateInt a) then .ok (Dec.truncateInt a) else .error .overflow
def decRoundInt64 (a : Dec) : M Int := if fitsI64 (Dec.roundInt a) then .ok (Dec.roundInt a) else .error .overflow
def decMin (a b : Dec) : Dec := if a < b then a else b  -- LegacyMinDec
def decMax (a b : Dec) : Dec := if a < b then b else a  -- LegacyMaxDec

end Comdex.GoSem
