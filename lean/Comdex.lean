import Comdex.Model.Twa
