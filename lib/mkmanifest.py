#!/usr/bin/env python3
"""Regenerates /verif/MANIFEST.json from lib/props.py + lib/manifest_meta.py."""
import json, os, sys
ROOT = os.path.dirname(os.path.dirname(os.path.abspath(__file__)))
sys.path.insert(0, os.path.join(ROOT, "lib"))
from props import PROPS, META
from manifest_meta import NOT_APPLICABLE, HOOKS, NOTES, PENDING

ALL = ["C%02d" % i for i in range(1, 21)]
checks = []
for pid in ALL:
    if pid not in PROPS or pid not in META or pid in PENDING:
        continue
    m = META[pid]
    checks.append({
        "property_id": pid,
        "quick_cmd": "./check %s --tier quick" % pid,
        "thorough_cmd": "./check %s --tier thorough" % pid,
        "evidence_file": "/verif/evidence/%s.json" % pid,
        "replay_cmd_template": "./check %s --replay {path}" % pid,
        "engine": "lean4-proof+correspondence",
        "level_claimed": {"category": m.get("category", "proof"), "text": m["text"], "design_ref": m["design_ref"]},
        "level_note": m["note"],
        "technique": m["technique"],
    })
na = []
for pid in ALL:
    if pid in PROPS and pid in META and pid not in PENDING:
        continue
    if pid in PENDING:
        na.append({"property_id": pid, "reason": PENDING[pid]})
        continue
    na.append({"property_id": pid, "reason": NOT_APPLICABLE.get(pid, "check not built yet in this round; no claim is made for this property")})
man = {
    "version": 1,
    "setup_cmd": "./check --setup",
    "hooks": HOOKS,
    "engines": [{
        "name": "lean4-proof+correspondence", "path": "/verif/check",
        "serves_properties": [c["property_id"] for c in checks],
        "kind_free_text": "Lean 4 models + kernel-checked theorems (lean/), tied to /repo on every run by a Go correspondence "
                          "harness that drives the real keepers (harness/, build tag verif) and a Lean line-protocol driver that "
                          "replays the same operations on the model and evaluates the decidable property monitors on the real results; "
                          "fact tables regenerated from the Go source by extract/ for the table properties"}],
    "checks": checks,
    "notes": NOTES,
    "not_applicable": na,
}
json.dump(man, open(os.path.join(ROOT, "MANIFEST.json"), "w"), indent=1)
print("MANIFEST.json: %d checks, %d not claimed" % (len(checks), len(na)))
