"""Fact-table regeneration (DESIGN.md §2 'Extractor').

A table plug-in is a Go program `extract/<name>/main.go` (package main, module `verifextract`, own go.mod — it reads
/repo's source as DATA with go/parser, go/ast (and go/types through golang.org/x/tools/go/packages v0.29.0 when
types are needed); it never imports comdex). It is invoked as
    <binary> -repo <path to repo> -out <path>/lean/Comdex/Gen/<Name>.lean
and must write a Lean file (core Lean only, namespace Comdex.Gen.<Name>) containing finite tables as plain `def`s.
`PROP["gen"] = ["<name>", …]` in lib/props/Cxx.py makes ./check rebuild and rerun the extractor on every run,
BEFORE `lake build`, after deleting the previous output."""
import os, subprocess, time

ROOT = os.path.dirname(os.path.dirname(os.path.abspath(__file__)))
REPO = os.environ.get("VERIF_REPO", "/repo")
EXTR = os.path.join(ROOT, "extract")
CACHE = os.path.join(ROOT, ".cache")
GEN = os.path.join(ROOT, "lean", "Comdex", "Gen")


def _env():
    e = dict(os.environ)
    e.update(GOFLAGS="-mod=mod", GOPROXY="off", GOSUMDB="off", GOTOOLCHAIN="local")
    return e


def _name(n):
    return n[0].upper() + n[1:]


def all_names():
    if not os.path.isdir(EXTR):
        return []
    return sorted(d for d in os.listdir(EXTR) if os.path.isfile(os.path.join(EXTR, d, "main.go")))


def build_extractor(names):
    names = names or all_names()
    os.makedirs(CACHE, exist_ok=True)
    for n in names:
        p = subprocess.run(["go", "build", "-o", os.path.join(CACHE, "extract_" + n), "./" + n], cwd=EXTR, env=_env(),
                           stdout=subprocess.PIPE, stderr=subprocess.STDOUT, text=True)
        if p.returncode != 0:
            print(p.stdout[-3000:])
            return False
    return True


def regenerate(names, log):
    os.makedirs(GEN, exist_ok=True)
    t0 = time.time()
    if not build_extractor(names):
        return False, "extractor build failed"
    for n in names:
        out = os.path.join(GEN, _name(n) + ".lean")
        if os.path.exists(out):
            os.remove(out)
        p = subprocess.run([os.path.join(CACHE, "extract_" + n), "-repo", REPO, "-out", out], cwd=EXTR, env=_env(),
                           stdout=subprocess.PIPE, stderr=subprocess.STDOUT, text=True, timeout=1800)
        if p.returncode != 0 or not os.path.exists(out):
            log.append("extract %s: rc=%d %s" % (n, p.returncode, p.stdout[-300:]))
            return False, "extractor %s failed: %s" % (n, p.stdout[-600:])
    log.append("regenerated fact tables %s from %s (%.1fs)" % (",".join(names), REPO, time.time() - t0))
    return True, ""


def regenerate_all(log):
    names = all_names()
    if not names:
        return True, ""
    return regenerate(names, log)
