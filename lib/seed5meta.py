#!/usr/bin/env python3
"""writes seeded/<id>/meta.json for the round-5 seeds from the table below (results are filled in by the integrator)"""
import json, os, glob
R = os.path.join(os.path.dirname(os.path.dirname(os.path.abspath(__file__))), "seeded")
T = {
 "s81": ("C10", "auctionsV2 AuctionIterator, ESM branch flattened: a non-vault V2 Dutch auction past its end time under emergency shutdown keeps being price-updated (price falls below the end price, to 0 and negative)", "lend / external-keeper initiated V2 Dutch auction, ESM executed for its app while the auction is alive, block time past EndTime, further begin-blockers", ["C10"], ""),
 "s82": ("C02", "first-generation CloseDutchAuction burns (collected - penalty) instead of the locked vault's principal; with the collector-covered shortfall of the sold-out branch never added to the collected amount, a loss-making close burns less than the principal it retires", "vault liquidated by x/liquidation, collateral sold out below the target, collector net fees cover the shortfall, closing bid", ["C02", "C10", "C01"], ""),
 "s83": ("C01", "esm SetUpCollateralRedemptionForVault writes the vault counter once after the loop: an error exit in the middle of the loop (swallowed by the begin-blocker) leaves the counter too high by the vaults already redeemed", "ESM executed, cool-off over, >= 2 open vaults, a non-first vault fails mid-loop (second debt asset without a redemption rate)", ["C01", "C15"], ""),
 "s84": ("C08", "lend DrawAsset: interest accrual (IterateBorrow + re-read) moved after the LTV verification", "idle borrow with unbooked interest >= 1, direct MsgDraw with headroom < draw <= headroom + unbooked interest", ["C08"], ""),
 "s85": ("C03", "MsgRepay debt-floor guard checks principal + accumulated closing fee", "product with a non-zero closing fee, partial repay landing in [floor - closingFee, floor)", ["C03", "C01"], ""),
 "s86": ("C09", "liquidationsV2 LiquidateIndividualVault: liquidation check on principal + interest without the closing fee", "product with non-zero closing fee and a price in the band between the two ratios", ["C09"], ""),
 "s87": ("C07", "liquidity store migration 1->2 (legacy/v2 MigrateOrders) copies OfferCoin into RemainingOfferCoin", "a partially filled order alive while the registered 1->2 store migration runs, later cancel / expiry", ["C07", "C04", "C20"], ""),
 "s88": ("C06", "liquidity keeper ExecuteWithdrawRequest goes through the valuation helper CalculateXYFromPoolCoin (zero fee hard-coded): the configured withdraw fee is ignored", "app WithdrawFeeRate > 0 (non-default generic param)", ["C06", "C04"], ""),
 "s89": ("C13", "auctionsV2 closing bid books FeeToBeCollected (full penalty) as net fees although the keeper incentive was deducted before the transfer", "MsgLiquidateInternalKeeper with KeeeperIncentive > 0, V2 auction closed by a bid", ["C13", "C10"], ""),
 "s90": ("C04", "liquidity genesis export: queued-farmer record exported with PoolId = pool.PairId", "pool whose id differs from its pair's id with coins in the farming queue at export time, export/import", ["C04", "C20"], ""),
 "s91": ("C17", "bandoracle AddFetchPriceRecords (FetchPriceProposal handler) deletes TWA data by ScriptID instead of AssetID: a second proposal with a changed window size no longer clears the windows", "second fetch-price proposal with changed TwaBatchSize while prices exist, further oracle rounds", ["C17", "C15"], ""),
 "s92": ("C05", "DistributeOrderAmountToOrders: the retry no longer drops the lowest-priority order when nobody qualified (empty matched set: sellers get nothing, buyer already filled)", "price < 1, partially filled sell tick with >= 2 same-batch orders whose individual shares are worth < 1 quote unit", ["C05", "C04"], ""),
 "s93": ("C11", "auctionsV2 LimitOrderBid (deposit > remaining debt branch): the reduced limit-bid record is written under the mirrored (collateral, debt) key, the original keeps the full spent deposit", "limit deposit at a premium, Dutch auction of the pair decaying to that premium, deposit > remaining debt, then cancel / withdraw", ["C11", "C10"], ""),
 "s94": ("C18", "collector WasmUpdateCollectorLookupTable: the 0 -> non-zero saving-rate branch (re-stamp of Collector.BlockTime) removed: an idle locker is credited the new rate for the whole zero-rate window", "rate set to 0 by governance, later re-enabled, a locker idle through the window", ["C18", "C13"], ""),
 "s95": ("C14", "liquidationsV2 LiquidateIndividualVault: breaker test gated by the found-flag of the ESM status lookup", "breaker enabled for an app that never had an ESM status record, unsafe vault, V2 sweep or keeper message", ["C14", "C09"], ""),
 "s96": ("C19", "rewards DistributeExtRewardLend: eligible total reset per programme while the weight arrays accumulate across programmes: the n-th lend programme of a block pays n x its allocation", ">= 2 active lend external reward programmes due in the same BeginBlock with eligible borrowers", ["C19"], ""),
 "s97": ("C12", "liquidity CancelAllOrders with explicit pair ids iterates the orders of the pair (all orderers) instead of the signer's", "MsgCancelAllOrders with non-empty pair_ids while another trader's order from an earlier batch rests in the pair", ["C12", "C07"], ""),
 "s98": ("C20", "app InitGenesis order: esm before asset: every kill-switch record is refused (unknown app) and silently skipped", "an engaged kill switch, whole-application export / InitChain", ["C20"], ""),
 "s99": ("C15", "liquidity BeginBlocker: the per-app loop moved inside ONE ApplyFuncIfNoError wrapper", ">= 2 apps, one app's begin-block work panics (nil LastPrice with coins on the swap-fee collector) at a height multiple of 150", ["C15", "C04"], ""),
 "s100": ("C16", "rewards TriggerAndUpdateEpochInfos, chain-halt branch: missed epochs from time.Since (wall clock) instead of the block time", "an epoch in store, block-time jump > 2 epoch durations, replicas executing the block at different wall-clock moments", ["C16"], ""),
}
RES = json.load(open(os.path.join(R, "round5_results.json"))) if os.path.exists(os.path.join(R, "round5_results.json")) else {}
for sid, (prop, what, needs, checks, _) in T.items():
    ds = glob.glob(os.path.join(R, sid + "-*"))
    if not ds:
        print("missing", sid); continue
    d = ds[0]
    def txt(n):
        p = os.path.join(d, n)
        return open(p).read() if os.path.exists(p) else ""
    suite_bad = [l for l in txt("suite_with.txt").split("\n") if l.strip() and not l.startswith("ok")]
    meta = {"property": prop, "round": 5, "what": what, "needs_to_manifest": needs,
            "written_by": "fresh sub-agent given only the property text, a hint listing what the earlier seeds for this property had touched, and a scratch git worktree of /repo (nothing from /verif)",
            "confirmed": {"compiles": True, "existing_suite_passes_with_change": not suite_bad,
                          "demo_fails_with_change": "FAIL" in txt("demo_with.txt"), "demo_passes_without_change": "ok" in txt("demo_without.txt") and "FAIL" not in txt("demo_without.txt"),
                          "how": "lib/seedeval.sh in a scratch clone of /repo (demo_with.txt / demo_without.txt, suite_with.txt)"},
            "checks_run": checks, "result": RES.get(sid, "see check_*.log"),
            "logs": sorted(os.path.basename(p) for p in glob.glob(os.path.join(d, "check_*.log")))}
    json.dump(meta, open(os.path.join(d, "meta.json"), "w"), indent=1)
    c = meta["confirmed"]
    print(sid, prop, "suite_ok=%s demo_with_fails=%s demo_without_ok=%s" % (c["existing_suite_passes_with_change"], c["demo_fails_with_change"], c["demo_passes_without_change"]))
