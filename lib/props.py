"""Per-property configuration of /verif/check."""

DEC_TB = "Base/Dec.lean as a model of cosmossdk.io/math LegacyDec (validated by differential testing only)"
KERNEL_TB = "Lean 4.33.0 kernel; axioms audited per theorem: only propext, Classical.choice, Quot.sound accepted"
HARNESS_TB = "the Go correspondence harness and its generators (what is not generated is not compared)"

PROPS = {
    "C17": dict(
        title="Oracle price averaging",
        lean_modules=["Comdex.Props.C17"],
        namespaces=["Comdex.C17"],
        required_theorems=["Comdex.C17.no_panic", "Comdex.C17.refines_spec", "Comdex.C17.active_mean",
                           "Comdex.C17.active_only_after_N_positive", "Comdex.C17.zero_sample_deactivates",
                           "Comdex.C17.inactive_valuation_refused", "Comdex.C17.latest_price_in_bounds",
                           "Comdex.C17.mean_fits_word"],
        harness_tests=["TestC17"],
        trusted_base=[KERNEL_TB, HARNESS_TB,
                      "Model/Twa.lean is hand-written from x/market/keeper/oracle.go:67-170 and x/market/abci.go:24-60; "
                      "tied by running real UpdatePriceList/GetLatestPrice/CalcAssetPrice on a real store and comparing the "
                      "stored record field by field after every call",
                      "protobuf (de)serialisation and the KV store are exercised, not modelled"],
        assumptions=["block heights are positive (the chain starts at height 1)",
                     "the window size N is fixed over a history (as the property states) and N >= 1",
                     "the band-oracle feeding path (x/market/abci.go) is represented by its per-record effects"],
        rule="each case is one generated sample sequence (window size 1-12, accepted gap, zero/boundary/MaxUint64/repeated samples, "
             "height gaps around the accepted gap, discard-all and deactivate events, reader calls) run on the real market keeper; "
             "distinct = distinct trace text, non-trivial = at least one call returned normally",
    ),
}
