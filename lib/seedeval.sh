#!/bin/bash
# usage: seedeval.sh <seed-name> <property-id> <seedwork-dir> [check ids...]
# Confirms a seeded change in a scratch clone of /repo (compiles, existing tests pass, demo fails with / passes without),
# runs the given checks against it and records everything in /verif/seeded/<seed-name>/.
set -u
NAME=$1; PID=$2; SW=$3; shift 3; CHECKS=${@:-$PID}
export GOFLAGS=-mod=mod GOPROXY=off GOSUMDB=off GOTOOLCHAIN=local
S=/var/tmp/seedeval-$NAME
rm -rf $S; git clone -q /repo $S || exit 2
cd $S
OUT=/verif/seeded/$NAME; mkdir -p $OUT
cp $SW/patch.diff $OUT/patch.diff
DEMO=$(ls $SW/*_test.go | head -1); cp $DEMO $OUT/; [ -f $SW/README.md ] && cp $SW/README.md $OUT/README.agent.md
PKGDIR=$(grep -m1 '^+++ b/' $SW/patch.diff | sed 's|+++ b/||' | xargs dirname)
# the demo test lives next to the package's tests (the README says where); find the package by its `package` clause + path hint
DEMODIR=$(grep -l "zz_seed_demo_test.go" -r $SW/README.md >/dev/null 2>&1; grep -o '[a-zA-Z0-9_/.-]*zz_seed_demo_test.go' $SW/README.md | grep -v '^/tmp/seedwork' | head -1 | sed 's|^/tmp/seed[234]\?-[A-Z0-9]*/||' | xargs dirname 2>/dev/null)
[ -z "$DEMODIR" ] || [ "$DEMODIR" = "." ] && DEMODIR=$PKGDIR
[ -f $SW/DEMODIR ] && DEMODIR=$(tr -d " \n" < $SW/DEMODIR)
[ -n "${SEED_DEMODIR:-}" ] && DEMODIR=$SEED_DEMODIR   # override when the README heuristics pick the wrong package
echo "package dir: $PKGDIR ; demo dir: $DEMODIR"
cp $DEMO $DEMODIR/zz_seed_demo_test.go
if grep -qE "^func \(.*TestSuite\) Test" $DEMO; then RUNARGS="-run Test.*Suite -testify.m SeedDemo"; else RUNARGS="-run SeedDemo"; fi
echo "== demo WITHOUT change"; go test ./$DEMODIR/ -vet=off -count=1 $RUNARGS 2>&1 | tail -3 | tee $OUT/demo_without.txt
git apply $SW/patch.diff || { echo "patch does not apply"; exit 2; }
echo "== build"; go build ./... 2>&1 | tail -3
echo "== demo WITH change"; go test ./$DEMODIR/ -vet=off -count=1 $RUNARGS 2>&1 | tail -4 | tee $OUT/demo_with.txt
rm $DEMODIR/zz_seed_demo_test.go
echo "== existing suite WITH change"; go test -vet=off -count=1 ./... 2>&1 | grep -v "no test files" | grep -v "^ok" | tail -5 | tee $OUT/suite_with.txt
cd /verif
for c in $CHECKS; do
  echo "== ./check $c against the seeded tree"
  VERIF_REPO=$S ./check $c > $OUT/check_$c.log 2>&1; echo "exit=$?" | tee -a $OUT/check_$c.log
  grep -E "^VIOLATION|^KNOWN|obligations" $OUT/check_$c.log | cut -c1-220
done
rm -rf $S; rm -f /verif/.cache/harness-*.test
