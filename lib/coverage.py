#!/usr/bin/env python3
"""Generator-quality measurement (NOT a proof, NOT part of a verdict): which statements of the code a property is
anchored in does that property's correspondence harness never execute?

  lib/coverage.py [Cxx ...] [--tier quick|thorough] [--seed N]

Builds the harness with Go coverage instrumentation of /repo's x/... and types/... packages (in a scratch copy of
harness/ under .cache/cov so that a concurrent ./check is not disturbed), runs the harness tests of each property with
-test.coverprofile, and writes notes/coverage/Cxx.md: per anchored file (properties.jsonl `anchors.files` plus the files
listed in lib/props/Cxx.py `coverage_files`) the statement coverage and the uncovered statement ranges with the first
source line of each range.  Unexecuted code is where a change to comdex cannot be noticed by the correspondence run:
the lists are work lists for the generators (DESIGN.md §13)."""
import sys, os, json, subprocess, re, shutil, argparse, collections

ROOT = os.path.dirname(os.path.dirname(os.path.abspath(__file__)))
REPO = os.environ.get("VERIF_REPO", "/repo")
sys.path.insert(0, os.path.join(ROOT, "lib"))
from props import PROPS  # noqa: E402

COV = os.path.join(ROOT, ".cache", "cov")
BIN = os.path.join(COV, "harness.cover.test")
MOD = "github.com/comdex-official/comdex/"


def goenv():
    e = dict(os.environ)
    e.update(GOFLAGS="-mod=mod", GOPROXY="off", GOSUMDB="off", GOTOOLCHAIN="local")
    return e


def build():
    h = os.path.join(COV, "harness")
    if os.path.exists(h):
        shutil.rmtree(h)
    os.makedirs(COV, exist_ok=True)
    shutil.copytree(os.path.join(ROOT, "harness"), h, ignore=shutil.ignore_patterns("go.mod", "go.sum"))
    src = open(os.path.join(REPO, "go.mod")).read()
    i = src.index("require (")
    open(os.path.join(h, "go.mod"), "w").write(
        "module verifharness\n\ngo 1.20\n\n" + src[i:] +
        "\nrequire github.com/comdex-official/comdex v0.0.0\n\nreplace github.com/comdex-official/comdex => %s\n" % REPO)
    shutil.copyfile(os.path.join(REPO, "go.sum"), os.path.join(h, "go.sum"))
    p = subprocess.run(["go", "test", "-c", "-tags", "verif", "-cover", "-covermode=set",
                        "-coverpkg=%sx/...,%stypes/..." % (MOD, MOD), "-o", BIN, "."], cwd=h, env=goenv(),
                       stdout=subprocess.PIPE, stderr=subprocess.STDOUT, text=True)
    if p.returncode != 0:
        print(p.stdout[-3000:])
        sys.exit(2)


def run(pid, tier, seed):
    cfg = PROPS[pid]
    blocks = {}  # (file, sl, sc, el, ec) -> [nstmt, hit]
    for test in cfg.get("harness_tests", []):
        prof = os.path.join(COV, "%s.%s.prof" % (pid, test))
        e = goenv()
        e.update(VERIF_SEED=str(seed), VERIF_TIER=tier, VERIF_OUT=os.path.join(COV, "%s.trace" % test),
                 VERIF_STATS=os.path.join(COV, "%s.stats.json" % test), VERIF_ROOT=ROOT, VERIF_REPO=REPO)
        subprocess.run([BIN, "-test.run", "^%s$" % test, "-test.timeout", "0", "-test.coverprofile", prof],
                       cwd=os.path.join(COV, "harness"), env=e, stdout=subprocess.DEVNULL, stderr=subprocess.DEVNULL)
        if not os.path.exists(prof):
            continue
        for line in open(prof):
            m = re.match(r"(.+):(\d+)\.(\d+),(\d+)\.(\d+) (\d+) (\d+)$", line.strip())
            if not m:
                continue
            f = m.group(1)
            if f.startswith(MOD):
                f = f[len(MOD):]
            k = (f, int(m.group(2)), int(m.group(3)), int(m.group(4)), int(m.group(5)))
            b = blocks.setdefault(k, [int(m.group(6)), 0])
            b[1] |= 1 if int(m.group(7)) > 0 else 0
        os.remove(prof)
    return blocks


DEFI = ["vault", "locker", "lend", "liquidity", "liquidation", "liquidationsV2", "auction", "auctionsV2", "collector", "esm",
        "market", "bandoracle", "rewards", "tokenmint", "asset"]


def all_files(blocks):
    fs = sorted(set(k[0] for k in blocks))
    keep = []
    for f in fs:
        parts = f.split("/")
        if len(parts) < 3 or parts[0] != "x" or parts[1] not in DEFI:
            continue
        if f.endswith(".pb.go") or f.endswith(".pb.gw.go") or "/client/" in f or "/simulation/" in f or "/testutil" in f:
            continue
        keep.append(f)
    return keep


def report(pid, blocks, tier, seed):
    anchors = []
    if pid == "ALL":
        anchors = all_files(blocks)
        tests = "of ALL properties (union)"
    else:
        for l in open(os.path.join(ROOT, "properties.jsonl")):
            p = json.loads(l)
            if p["id"] == pid:
                anchors = list(p["anchors"]["files"])
        anchors += [f for f in PROPS[pid].get("coverage_files", []) if f not in anchors]
        tests = ", ".join(PROPS[pid].get("harness_tests", []))
    out = ["# %s - statements of the anchored code the correspondence harness never executes" % pid, "",
           "Measured by `lib/coverage.py %s --tier %s --seed %s` (Go statement coverage of the harness tests %s on /repo)."
           % (pid, tier, seed, tests),
           "This is a generator-quality measurement, not a proof and not part of the verdict: a change to comdex inside an",
           "unexecuted range can be noticed only by a regenerated table or a proof obligation, never by the correspondence run.", ""]
    summary = []
    for f in anchors:
        fb = sorted((k, v) for k, v in blocks.items() if k[0] == f)
        if not fb:
            out += ["## %s" % f, "", "not linked into the harness run (no coverage data)", ""]
            summary.append((f, 0, 0))
            continue
        tot = sum(v[0] for _, v in fb)
        hit = sum(v[0] for _, v in fb if v[1])
        summary.append((f, hit, tot))
        out += ["## %s - %d / %d statements executed (%.0f %%)" % (f, hit, tot, 100.0 * hit / max(tot, 1)), ""]
        try:
            src = open(os.path.join(REPO, f)).read().split("\n")
        except OSError:
            src = []
        # merge adjacent uncovered blocks
        ranges = []
        for k, v in fb:
            if v[1] or v[0] == 0:
                continue
            if ranges and k[1] <= ranges[-1][1] + 1:
                ranges[-1][1] = max(ranges[-1][1], k[3])
                ranges[-1][2] += v[0]
            else:
                ranges.append([k[1], k[3], v[0]])
        # enclosing function names
        funcs = []
        for i, line in enumerate(src, 1):
            m = re.match(r"func\s+(\([^)]*\)\s*)?([A-Za-z0-9_]+)", line)
            if m:
                funcs.append((i, m.group(2)))

        def fn(line):
            name = "?"
            for i, n in funcs:
                if i <= line:
                    name = n
            return name
        for a, b, n in ranges:
            first = src[a - 1].strip() if 0 < a <= len(src) else ""
            out.append("* %d-%d (%d stmts) in `%s`: `%s`" % (a, b, n, fn(a), first[:110]))
        out.append("")
    os.makedirs(os.path.join(ROOT, "notes", "coverage"), exist_ok=True)
    with open(os.path.join(ROOT, "notes", "coverage", pid + ".md"), "w") as f:
        f.write("\n".join(out) + "\n")
    return summary


def main():
    ap = argparse.ArgumentParser()
    ap.add_argument("props", nargs="*")
    ap.add_argument("--tier", default="quick")
    ap.add_argument("--seed", default="1")
    ap.add_argument("--nobuild", action="store_true")
    a = ap.parse_args()
    if not a.nobuild or not os.path.exists(BIN):
        build()
    union = {}
    for pid in (a.props or sorted(PROPS)):
        blocks = run(pid, a.tier, a.seed)
        for k, v in blocks.items():
            u = union.setdefault(k, [v[0], 0])
            u[1] |= v[1]
        for f, hit, tot in report(pid, blocks, a.tier, a.seed):
            print("%s %-55s %5d / %5d  %3.0f%%" % (pid, f, hit, tot, 100.0 * hit / max(tot, 1)))
    if not a.props:
        for f, hit, tot in report("ALL", union, a.tier, a.seed):
            print("ALL %-55s %5d / %5d  %3.0f%%" % (f, hit, tot, 100.0 * hit / max(tot, 1)))


if __name__ == "__main__":
    main()
