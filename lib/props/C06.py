from props import KERNEL_TB, HARNESS_TB, DEC_TB

PROP = dict(
    title="Pool shares are fair: deposits and withdrawals cannot extract value from a pool",
    lean_modules=["Comdex.Props.C06"],
    namespaces=["Comdex.C06"],
    required_theorems=["Comdex.C06.deposit_total", "Comdex.C06.deposit_takes_at_most_offered",
                       "Comdex.C06.deposit_rate_not_better", "Comdex.C06.deposit_dust_goes_to_depositor",
                       "Comdex.C06.reserves_per_share_nondecreasing_deposit",
                       "Comdex.C06.withdraw_total", "Comdex.C06.withdraw_at_most_prorata",
                       "Comdex.C06.reserves_per_share_nondecreasing_withdraw",
                       "Comdex.C06.reserves_per_share_nondecreasing", "Comdex.C06.last_share_gets_all",
                       "Comdex.C06.deposit_overflow_returns_zeros", "Comdex.C06.withdraw_overflow_returns_zeros",
                       "Comdex.C06.deposit_overflow_reachable_within_bounds",
                       "Comdex.C06.deposit_no_overflow_of_small_mint", "Comdex.C06.withdraw_no_overflow_within_bounds",
                       "Comdex.C06.create_ok_implies_admissible",
                       "Comdex.C06.ranged_price_in_range_counterexample",
                       "Comdex.C06.ranged_price_above_max_counterexample",
                       "Comdex.C06.ranged_price_far_below_min_counterexample",
                       "Comdex.C06.ranged_price_between_curve_endpoints_partial",
                       "Comdex.C06.keeper_deposit_moves_amm_result", "Comdex.C06.keeper_deposit_takes_at_most_offered",
                       "Comdex.C06.keeper_deposit_rate_not_better", "Comdex.C06.keeper_withdraw_moves_amm_result",
                       "Comdex.C06.keeper_withdraw_at_most_prorata_minus_fee", "Comdex.C06.keeper_last_share_gets_all",
                       "Comdex.C06.keeper_exec_total", "Comdex.C06.keeper_exec_total_basic", "Comdex.C06.keeper_reserves_per_share_nondecreasing",
                       "Comdex.C06.keeper_batch_reserves_per_share", "Comdex.C06.keeper_deposit_and_farm",
                       "Comdex.C06.keeper_unfarm_and_withdraw",
                       "Comdex.C06.ranged_price_within_endpoints_fixed_translation",
                       "Comdex.C06.ranged_price_monotone_fixed_translation", "Comdex.C06.rederive_is_fresh_pool",
                       "Comdex.C06.rederive_same_iff_translation_fixpoint",
                       "Comdex.C06.rederive_moves_endpoint_counterexample"],
    harness_tests=["TestC06", "TestC06Keeper"],
    monitors=["deposit_no_panic", "deposit_takes_at_most_offered", "deposit_rate_not_better", "deposit_reserves_per_share",
              "withdraw_no_panic", "withdraw_at_most_prorata", "withdraw_reserves_per_share", "last_share_gets_all",
              "ranged_price_in_range", "ranged_create_takes_at_most_offered",
              "ranged_fixed_translation_kept", "ranged_price_within_own_endpoints", "ranged_rederive_is_fresh",
              "keeper_withdraw_prorata", "keeper_last_share", "keeper_deposit_rate", "keeper_reserves_per_share",
              "keeper_failed_moves_nothing", "keeper_transfers_match_records", "keeper_batch_reserves_consistent",
              "keeper_fee_in_range"],
    coverage_files=["x/liquidity/keeper/pool.go"],
    trusted_base=[KERNEL_TB, HARNESS_TB, DEC_TB,
                  "Model/Pool.lean is hand-written from x/liquidity/amm/pool.go:231-294,331-336,477-584,675-682 and "
                  "types/utils.go:211-232 (SafeMath); tied by calling the real amm.Deposit, amm.Withdraw, amm.CreateRangedPool, "
                  "amm.NewRangedPool (DeriveTranslation) and RangedPool.Price on every generated argument tuple and comparing "
                  "every output integer / raw Dec bit for bit (ok / panic, amounts, supply, translation, price)",
                  "Model/PoolKeeper.lean is hand-written from x/liquidity/keeper/pool.go:365-669, 863-944 and batch.go:34-53 (which "
                  "balances, supply, request coins and fee rate reach amm.Deposit / amm.Withdraw, what is transferred, minted, burnt, "
                  "refunded, request status, pool disabling); tied by TestC06Keeper: the real liquidity keeper driven through the "
                  "message router and the real End/BeginBlocker, WithdrawFeeRate set through the real governance proposal handler; "
                  "request records, reserve balances, pool coin supply and every balance delta of LP wallets, GlobalEscrow and the "
                  "module account are compared with the model, and the fairness laws are evaluated on the real values",
                  "inputs of a keeper step taken from the real chain, not modelled here: the effect of the order matching on the "
                  "reserves (C05 / C04), pool creation through the keeper, farming records, wallet balances before a message; "
                  "x/bank moves exactly what it is told (custody is property C04)"],
    assumptions=["arguments of amm.Deposit: reserves >= 0 and not both zero, pool coin supply > 0, offered amounts >= 0 "
                 "(keeper: the pool is not depleted, coins are validated non-negative)",
                 "arguments of amm.Withdraw: reserves >= 0, supply > 0, 0 <= withdrawn shares <= supply, 0 <= fee rate <= 1",
                 "no upper bound on any amount is assumed by the fairness theorems (the overflow arm is part of the model)"],
    rule="each case is one call of the real amm function on one argument tuple: exhaustive over all (rx,ry,ps,x,y) <= 8 "
         "(thorough: 12) for Deposit and all (rx,ry,ps,pc) <= 8 (12) x 7 fee rates for Withdraw, plus boundary-directed random "
         "tuples up to 10^40 and beyond (to 10^76), ranged-pool creations over on-tick and off-tick price triples in "
         "[10^-15, 10^20], NewRangedPool over arbitrary reserves and SetBalances (translation kept / re-derived) at the ends "
         "of the pool's curve, on it and anywhere; distinct = distinct trace line, non-trivial = the call returned normally. "
         "TestC06Keeper: a case is one history (pkeep.begin) of a real chain instance: 2 apps, 1-2 pairs, basic and ranged "
         "pools, 30-80 blocks of MsgDeposit / MsgWithdraw / MsgDepositAndFarm / MsgUnfarmAndWithdraw / donations / orders / "
         "fee proposals through the real handlers and blockers",
)

META = dict(
    technique="Lean 4 proof over an executable model of the 18-digit fixed-point share arithmetic (floor / half-even / "
              "ceiling lemmas, nonlinear integer inequalities) and of the keeper's request execution (guards, transfers, batch "
              "order; invariant + induction over histories) + bit-for-bit differential correspondence with the real amm "
              "functions and with the real liquidity keeper driven through router and blockers; the laws are also evaluated "
              "by the Lean driver on the real outputs / transfers",
    design_ref="DESIGN.md §5 C06",
    text="Kernel-checked for ALL integer arguments on the stated domains (no upper bound needed, the SafeMath overflow arm "
         "returns zeros): Deposit accepts 0 <= ax <= x, 0 <= ay <= y; minted shares satisfy pc/ps <= a/r + (10^18+2)/(2*10^36) "
         "for both coins (tight: the half-even rounding of mintProportion can favour the depositor by that dust, witness "
         "proved); reserves per share after a deposit >= (1-10^-17) x before; Withdraw returns x*ps*10^18 <= rx*pc*(10^18-fee) "
         "(exact) and reserves per share never decrease; pc = ps returns exactly the reserves; neither function panics on "
         "its domain; overflow is reachable inside the 10^40 bounds for Deposit (returns zeros) and impossible for Withdraw. "
         "The ranged-pool clause 'price always within [min,max]' is FALSE of the code (counterexample theorems, replayed on "
         "the real code first in every run: one ulp outside at everyday prices, 85 % below min at prices near 10^20); proved "
         "instead: price lies between the end-point prices of the pool's own translated curve (partial); with the translation "
         "kept (SetBalances derive=false) every reserve pair of the reachable box prices between the two curve ends and the "
         "price moves with the swap; re-derivation (derive=true, every later block) yields exactly NewRangedPool on the new "
         "reserves and does not preserve the end points (fixed-point characterisation + counterexample on the pool's own "
         "curve: the D15 mechanism). KEEPER LEVEL (Model/PoolKeeper.lean), for every execution of a deposit / withdraw "
         "request on basic and ranged pools, from the end-block batch or inside MsgDepositAndFarm / MsgUnfarmAndWithdraw: a "
         "succeeded execution moved exactly amm.Deposit / amm.Withdraw of the pool's own reserve balances, bank supply, the "
         "request's coins and the app's WithdrawFeeRate; accepted + refund = offered; paid out <= pro rata x (1 - fee); burn + "
         "refund = requested pool coin; the whole supply redeems the entire reserves and disables the pool; reserves per share "
         "do not decrease over ANY history of executed requests ((1-10^-17)^k for k deposits), per pool of a batch.",
    note="Trusted: Lean kernel, Base/Dec.lean as validated by TestDec, the hand-written models as far as the correspondence "
         "runs exercise them (TestC06: pure amm functions; TestC06Keeper: the real keeper through router and blockers). Monitor "
         "ranged_price_in_range fails on the unchanged tree (finding D15, see notes/C06.md).",
)
