from props import KERNEL_TB, HARNESS_TB, DEC_TB

PROP = dict(
    title="Pool shares are fair",
    lean_modules=["Comdex.Props.C06"],
    namespaces=["Comdex.C06"],
    required_theorems=[],
    harness_tests=["TestC06"],
    trusted_base=[KERNEL_TB, HARNESS_TB, DEC_TB],
)
