from props import KERNEL_TB, HARNESS_TB, DEC_TB

PROP = dict(
    title="Incentive payouts never exceed their funding and follow farmed share",
    lean_modules=["Comdex.Props.C19"],
    namespaces=["Comdex.C19"],
    required_theorems=["Comdex.C19.split_sums_to_total", "Comdex.C19.split_lengths", "Comdex.C19.split_each_within_one",
                       "Comdex.C19.epoch_pays_le_allocation", "Comdex.C19.cumulative_le_deposit",
                       "Comdex.C19.farmer_share_le_prorata", "Comdex.C19.master_child_share_le_prorata",
                       "Comdex.C19.weight_is_min_of_master_and_child_sum", "Comdex.C19.custody_ge_remaining",
                       "Comdex.C19.f64_satisfies_float_hypothesis", "Comdex.C19.farmer_share_le_prorata_1e12_partial",
                       "Comdex.C19.farmer_share_1e12_counterexample", "Comdex.C19.accepted_gauge_split_sums",
                       "Comdex.C19.every_gauge_split_sums", "Comdex.C19.split_zero_epochs_panics",
                       "Comdex.C19.ext_overpay_counterexample", "Comdex.C19.custody_ge_active_remaining",
                       "Comdex.C19.ext_share_epoch_bound", "Comdex.C19.ext_share_epoch_cap_partial",
                       "Comdex.C19.ext_lend_block_each_programme_bounded", "Comdex.C19.ext_lend_weights_vs_total",
                       "Comdex.C19.ext_lend_daily_value", "Comdex.C19.ext_lend_value_at_par", "Comdex.C19.ext_lend_epoch_cap_partial",
                       "Comdex.C19.ext_lend_value_as_amount_counterexample", "Comdex.C19.ext_lend_truncated_total_counterexample",
                       "Comdex.C19.ext_share_visit_valid", "Comdex.C19.ext_cumulative_is_funding_minus_available",
                       "Comdex.C19.ext_epochs_le_duration", "Comdex.C19.ext_one_epoch_per_visit", "Comdex.C19.ext_not_due_twice",
                       "Comdex.C19.ext_available_nonneg_of_epoch_caps", "Comdex.C19.ext_accepted_programme_funded",
                       "Comdex.C19.sf_epoch_pays_le_collected", "Comdex.C19.sf_gauge_leak_counterexample",
                       "Comdex.C19.epoch_clock_halt_realigns", "Comdex.C19.epoch_clock_no_burst"],
    harness_tests=["TestC19"],
    monitors=["split_sum", "zero_epochs", "epoch_cap", "cumulative_cap", "farmer_share", "farmer_share_1e12", "custody",
              "custody_ext_overpaid", "float_hyp", "ext_epoch_cap", "ext_epoch_bound", "ext_cumulative_cap", "ext_available_nonneg",
              "ext_schedule", "ext_share_total", "ext_lend_value_as_amount", "ext_lend_truncated_total",
              "sf_epoch_cap", "sf_leak", "custody_sf_leak"],
    trusted_base=[KERNEL_TB, HARNESS_TB, DEC_TB,
                  "Model/Gauge.lean is hand-written from x/rewards/keeper/{utils,gauge,distribution,epochs,iter}.go and "
                  "x/liquidity/keeper/rewards.go:168-307; tied by running the real SplitTotalAmountPerEpoch, GetFarmingRewardsData, "
                  "MsgCreateGauge, the rewards BeginBlocker and the bank on a real store and comparing gauge records, epoch clocks, "
                  "module balances and per-farmer payouts after every block",
                  "float64: theorems about the share computation assume FloatUpper (relative error <= 2^-53 upwards) of the Dec->float64 "
                  "conversion; Lean proves it for the exact round-to-nearest-even function f64; that Go's strconv.ParseFloat IS that "
                  "function is TESTED (gauge.f64 lines, bit-for-bit, plus the inequality itself on every real conversion), not proved",
                  "int64(math.Floor(x)) for x >= 2^63 is taken to yield a negative number (amd64) so that sdk.NewCoin panics",
                  "the redeemable amount of a farmed position (pool coin -> reserves, amm.Withdraw) is an input printed by the real keeper "
                  "functions (its correctness belongs to C06); the valuation (amount x TWA / decimals x 2), the SUM over child pools and "
                  "min(master, child sum) are computed by the model from per-(farmer, pool) amounts and prices, not taken from "
                  "GetAggregatedChildPoolContributions",
                  "external reward programmes (Model/ExtReward.lean, hand-written from x/rewards/keeper/iter.go:15-342 and keeper.go:122-340): "
                  "locker, vault and lend distributions are modelled with eligibility (min lock-up, last day), per-user weights, the daily "
                  "amount, the accumulation of addrArr / amountArr / totalAmount across the lend programmes of one block, EpochTime "
                  "(StartingTime, Count), kill switch / ESM return; their inputs (lookup tables, positions, creation times, oracle "
                  "records, farmed pool coins via CalculateXYFromPoolCoin) are printed by the harness from the keepers' getters before "
                  "each begin blocker; the stable-mint-vault programme (DistributeExtRewardStableVault, CombinePSMUserPositions) is NOT "
                  "modelled and never created by the harness",
                  "swap-fee gauges: the outcome of TransferFundsForSwapFeeDistribution (error, or the amount that arrives) is an input "
                  "obtained by running the real function on a throw-away branch of the state, gauge by gauge in the order of the begin "
                  "blocker; the split of a pair's fees among its pools and the 150-block conversion belong to the liquidity module"],
    assumptions=["one denomination per ledger (the real module account is checked per denomination)",
                 "a change of the liquidity parameter SwapFeeDistrDenom while swap-fee gauges hold coins is not modelled (gauge.go:277-279, "
                 "291-293) and not exercised",
                 "block times are such that Duration*2 does not overflow int64"],
    rule="a case is one line of a pure check (split / float / share computation on a real farmer population) or one generated gauge "
         "lifecycle (fresh app, 1-6 farmers in master and child pools, 1-5 gauges incl. malformed creations, optional external locker "
         "programme, 8-60 blocks with gaps from 1 h to 200 h incl. skipped epochs, farm/unfarm/price changes/donations in between), one "
         "external-programme world (0-5 locker, 0-4 vault, 0-5 lend programmes mostly activated together, lockers / vaults / borrowers "
         "that farm or not, 6-30 blocks incl. pauses, kill switch / ESM, price changes) or one swap-fee world (swaps with fees, "
         "conversion blocks, ranged pool, oracle prices switched off); "
         "distinct = distinct trace text, non-trivial = at least one call returned normally",
)

META = dict(
    technique="Lean 4 proof (closed-form split, inductive gauge and ledger invariants, rounding analysis of Dec quo/mul + exact binary64 "
              "conversion) + differential correspondence with the real rewards/liquidity keepers and BeginBlocker",
    design_ref="DESIGN.md §5 C19",
    text="Kernel-checked for all totals, epoch counts, histories and farmed values: the split sums to the deposit (1 <= epochs <= total), "
         "each trigger pays at most the epoch's allocation, the cumulative amount stays within the deposit under any timing, every "
         "farmer's payout is at most (1+2^-53)(pro-rata + (value+1)/2 ulp), the module account covers all remainders; every accepted "
         "gauge has >= 1 epoch (zero-epoch gauges are refused since the repair) so the split clause applies to all of them. The "
         "literal 1e-12 clause and the external programmes' missing `paid <= available` guard are refuted by concrete "
         "counterexamples replayed on the real code (known findings D21, D20). External programmes: the three distributions are "
         "modelled; proved for any number of programmes per block and any history: the exact per-epoch bounds (rounding excess for "
         "locker / vault, (D/T)*sum(w) for lend), cumulative paid = funding - AvailableRewards, at most DurationDays epochs, "
         "AvailableRewards >= 0 under the literal epoch cap; the literal caps are refuted for lend programmes by two new findings "
         "(D35 value paid as amount, D36 truncated total). Swap-fee gauges are in the custody theorem; D37: a failed fee transfer "
         "after a paid distribution makes the gauge pay its deposit again every epoch.",
    note="Trusted: Lean kernel, the hand-written model as far as the correspondence run exercises it, Base/Dec, Go's ParseFloat being "
         "correctly rounded (tested bit-for-bit). Open findings: D20 custody_ext_overpaid, D21 farmer_share_1e12, D35 ext_lend_value_as_amount, D36 ext_lend_truncated_total, D37 sf_leak; zero_epochs repaired in the repository (regression witness kept).",
)
