from props import KERNEL_TB, HARNESS_TB

_TB = [KERNEL_TB, HARNESS_TB,
       "extract/guards flattening rules (shared with C12, notes/C12.md); sweeps: only the first test of BreakerEnable in each named "
       "sweep / starter function is interpreted",
       "message atomicity = baseapp message cache, modelled by applyIfNoError and re-enacted by the harness (branch written back only on success)",
       "oracle: the model of GetLatestPrice / CalcAssetPrice is `found && active`; C17 proves when a record is active",
       "ESM price snapshot: Model/EsmSnapshot.lean (`snapshotStep` = one esm BeginBlocker block of SnapshotOfPrices) is tied to the real "
       "BeginBlocker block by block (TestC14Snapshot); which snapshot entries a consumer needs = the entries the real handler was "
       "observed to read (store tracer)"]

PROP = dict(
    title="Emergency controls fail closed: breaker and shutdown stop position changes",
    lean_modules=["Comdex.Props.C14", "Comdex.Props.C14Snapshot"],
    namespaces=["Comdex.C14"],
    gen=["guards"],
    required_theorems=["Comdex.C14.breaker_blocks", "Comdex.C14.esm_blocks", "Comdex.C14.inactive_price_fails_closed",
                       "Comdex.C14.withdraw_only_until_cooloff", "Comdex.C14.withdraw_refused_after_cooloff",
                       "Comdex.C14.breaker_list_guarded", "Comdex.C14.esm_list_guarded", "Comdex.C14.cooloff_list_guarded",
                       "Comdex.C14.breaker_rejected_on_every_route", "Comdex.C14.esm_rejected_on_every_route",
                       "Comdex.C14.no_price_error_swallowed", "Comdex.C14.price_errors_never_overwritten",
                       "Comdex.C14.price_errors_ignored_pinned", "Comdex.C14.twa_reads_test_own_activity",
                       "Comdex.C14.twa_reads_pinned", "Comdex.C14.price_swallow_reviewed_tight", "Comdex.C14.price_guard_pinned",
                       "Comdex.C14.sweeps_skip_controlled", "Comdex.C14.sweeps_pinned", "Comdex.C14.spec_lists",
                       "Comdex.C14.position_writers_breaker_guarded", "Comdex.C14.breaker_unguarded_writers_tight",
                       "Comdex.C14.breaker_list_writes_positions", "Comdex.C14.liquidation_vault_tied_to_checked_app", "Comdex.C14.app_ties_pinned", "Comdex.C14.nonmsg_position_writers_pinned",
                       "Comdex.C14.snapshot_entries_only_from_active", "Comdex.C14.snapshot_completes_only_when_all_active",
                       "Comdex.C14.snapshot_status_false_while_inactive", "Comdex.C14.snapshot_price_only_from_active",
                       "Comdex.C14.never_active_no_snapshot_price", "Comdex.C14.never_active_unavailable",
                       "Comdex.C14.snapshot_entry_never_changes", "Comdex.C14.snapshot_monitor_sound"],
    harness_tests=["TestC14", "TestC14Snapshot"],
    monitors=["owner_only", "rejected_no_change", "admin_only", "wasm_guard", "position_consistent", "privileged_only", "precondition_enforced",
              "breaker_closed", "esm_closed", "cooloff", "cooloff_closed", "price_fail_closed", "sweep_skips", "snapshot_only_from_active"],
    trusted_base=_TB,
    assumptions=["'draw from' is read as drawing debt (vault MsgDraw, lend Draw): withdrawing from a locker or a lend position under the "
                 "breaker is not demanded by the text (lend withdraw is guarded anyway, locker withdraw/close is not; both recorded)",
                 "'mint new debt' = the vault handlers that mint the debt asset (create, draw, deposit-and-draw, stable-mint create/deposit)"],
    rule="each case is one real message delivered on a fresh branch of a populated app under one control setting (breaker on/off x ESM "
         "none / executed within cool-off / after cool-off x price feeds: all on, all off, and per price-reading handler every single "
         "needed asset off / all needed off / only the unneeded off (thorough: every non-empty subset), each as inactive and as missing "
         "record; the needed set is the handler's observed read set of TWA records), one price-reading begin-block unit (V2 sweep of a "
         "fixed-price-debt vault, auction price update / restart of both generations) under the same feed subsets, or one real "
         "BeginBlocker sweep; TestC14Snapshot: one case = one shut-down app (real MsgExecuteESM) whose feeds follow a schedule "
         "(directed: each needed / an unneeded / all feeds inactive or missing from the shutdown on, never back or back with a fresh price; "
         "random schedules) while the real esm.BeginBlocker runs block after block, with the vault withdrawals inside the cool-off, the "
         "redemption set-up and MsgCollateralRedemption after it; distinct = "
         "distinct trace text, non-trivial = the same message succeeds with all controls clear",
)

META = dict(
    technique="Lean 4 proof over fact tables regenerated from the Go source (breaker / ESM / cool-off / price guards of every handler, "
              "control tests of sweeps) + dynamic control matrix on the real app with full-store diff",
    design_ref="DESIGN.md §5 C14",
    text="Kernel-checked: a breaker / ESM / cool-off / price-lookup guard on the way makes the delivery fail with the state unchanged "
         "(also when writes precede it); vault withdraw after ESM runs until the cool-off ends and is refused afterwards. Over the table "
         "regenerated from /repo: every handler the text names has the breaker guard (18) resp. the ESM guard (5 debt-minting handlers) "
         "on every route to success before its first write; no price-lookup error is swallowed; all 7 liquidation sweeps / auction starters and the 3 guarded reward-payout units "
         "test the breaker in the skipping direction before any write. The harness runs every handler under every control "
         "setting on the real app and the real BeginBlockers for a controlled app. After a shutdown: the price snapshot only ever "
         "takes the TWA of a found, active feed and completes only in a block without an inactive feed, for every sequence of blocks "
         "and feed states (induction); the real esm.BeginBlocker is replayed on that model block by block and the snapshot's consumers "
         "(vault withdraw, redemption set-up, collateral redemption) are refused while a price they need has never been active.",
    note="Trusted: Lean kernel, extractor flattening, baseapp message cache (modelled), harness generators. Reading of 'draw from' see assumptions.",
)
