from props import KERNEL_TB, HARNESS_TB, DEC_TB

VAULT_TB = ("Model/Vault.lean is hand-written from x/vault/keeper/msg_server.go + vault.go (eleven messages), the bank calls of each "
            "handler, the seizure hand-over of both liquidation generations (x/liquidationsV2 LiquidateIndividualVault, x/liquidation MsgLiquidateVault) "
            "and the vault-side bookkeeping of both generations' Dutch auction close (auctionsV2 bid.go:188-190, x/auction dutch.go CloseDutchAuction / "
            "UpdateProtocolData), and the emergency-shutdown steps of x/esm (esm.go:267-575, keeper.go:182-268); tied on every run by delivering generated multi-user histories through the "
            "real message router (ValidateBasic + handler on a cache context) and comparing every vault, stable-mint vault, product total, "
            "counter, module/user balance and supply after every message")
EFFECTS_TB = ("extract/effects (go/ast, no type checking): the ordered bank calls / record writes of every vault handler with their path conditions, "
              "texts normalised (locals replaced by their defining expressions, module-name constants resolved, callees inlined); tied to Model/Vault.lean "
              "by Props/C01Effects.lean through reviewed role tables (5 + 4 texts) and condition tables (7 + 6 texts), incl. the liquidationsV2 / esm hand-overs out of vault custody; amount expressions are not compared "
              "(the correspondence runs do that); the order / names of record writes are pinned against a literal list only")
VAULT_ASSUME = ["a rejected message leaves no writes (baseapp message atomicity; the harness delivers on a cache context written back only on success)",
                "what a handler reads from other modules (ESM / breaker flags, oracle prices, accrued interest) is an input of the step, printed by the harness from the real chain state; the theorems hold for every value of these inputs",
                "admissible product configuration (enforced at registration, x/asset/keeper/pairs_vault.go:153-165): fees in [0,1), debt floor >= 0, ceiling >= 0, positive asset decimals",
                "the vault-side bookkeeping of second-generation auction settlement is modelled as the code does it (finding D13); what the auction does with bidders' coins and the penalty is C10's model; partial fills of an auction move only bidder and auction-custody coins (state adopted from the chain on those lines); emergency shutdown (x/esm begin-blocker: vault, stable-mint vault and collector redemption; MsgCollateralRedemption) is modelled at the ledger level (what the holder is paid out of the esm account is not); the redemption of a stable-mint vault leaves its record behind (finding D29) and the theorems over histories exclude that one step (EsmRegular), with the exact resulting offsets as a theorem; the wind-down of first-generation auctions under emergency shutdown (dutch.go:517-640) is modelled in both branches (principal recovered = settle1; less collected = esmReturn1, which keeps every ledger equation but may re-create a vault below the debt floor, so it is excluded from the history theorems like esmStable and stated as a one-step theorem); the hand-back of a SECOND-generation auction that runs out under emergency shutdown (auctionsV2 TriggerEsm, auctions.go:487-534) is modelled as the code is (esmReturn2: the owner's vault is credited, no coin reaches custody, auction and locked vault stay — finding D39) and excluded from the history theorems in the same way, with its exact effect as a theorem (trigger_esm_effect) and a kernel-checked witness",
                "the product configuration may change between any two messages (WasmUpdatePairsVault, x/asset proposals): the reconfiguration theorems assume only that a product keeps its id and its two assets (CfgExt - no update path can change them; an asset's denom can be changed by UpdateAssetRecords, which would orphan every coin of the old denom and is outside the model) and that the new parameters are admissible (CfgOk; WasmUpdatePairsVault itself checks nothing, the harness generates admissible values)"]

PROP = dict(
    title="CDP vault custody and published totals",
    lean_modules=["Comdex.Props.C01", "Comdex.Props.C01Effects"],
    gen=["effects"],
    namespaces=["Comdex.C01"],
    required_theorems=["Comdex.C01.custody_eq", "Comdex.C01.count_eq", "Comdex.C01.totals_eq", "Comdex.C01.totals_coll_eq",
                       "Comdex.C01.totals_minted_le", "Comdex.C01.totals_after_settlement", "Comdex.C01.totals_eq_settlement_counterexample",
                       "Comdex.C01.invG_always", "Comdex.C01.inv_always", "Comdex.C01.rejected_no_change",
                       "Comdex.C01.totals_eq_gen1_settlement_example", "Comdex.C01.custody_after_esm_stable",
                       "Comdex.C01.esm_stable_counterexample", "Comdex.C01.esm_vault_example",
                       "Comdex.C01.wind_down_return_keeps_ledger", "Comdex.C01.wind_down_return_example",
                       # effect skeleton of the eleven handlers regenerated from the Go source = the model's op lists (Props/C01Effects.lean)
                       "Comdex.C01.vault_go_all", "Comdex.C01.create_effects", "Comdex.C01.deposit_effects", "Comdex.C01.withdraw_effects",
                       "Comdex.C01.draw_effects", "Comdex.C01.repay_effects", "Comdex.C01.close_effects", "Comdex.C01.depositAndDraw_effects",
                       "Comdex.C01.stableCreate_effects", "Comdex.C01.stableDeposit_effects", "Comdex.C01.stableWithdraw_effects",
                       "Comdex.C01.interestCalc_effects", "Comdex.C01.close_runs_ops", "Comdex.C01.repay_runs_ops", "Comdex.C01.create_runs_ops",
                       "Comdex.C01.deposit_runs_ops", "Comdex.C01.withdraw_runs_ops", "Comdex.C01.draw_runs_ops",
                       "Comdex.C01.vault_all_classified", "Comdex.C01.vault_writes_after_bank", "Comdex.C01.vault_own_writes",
                       "Comdex.C01.vault_table_shape", "Comdex.C01.custody_go_all", "Comdex.C01.seize_effects", "Comdex.C01.esm_effects",
                       "Comdex.C01.sweep_cached", "Comdex.C01.esm_pins",
                       "Comdex.C01.apply_invL", "Comdex.C01.apply_invL_any", "Comdex.C01.invL_always_reconfig", "Comdex.C01.ledger_eq_reconfig",
                       "Comdex.C01.trigger_esm_effect", "Comdex.C01.trigger_esm_counterexample"],
    harness_tests=["TestC01"],
    monitors=["custody_eq", "count_eq", "totals_eq"],
    trusted_base=[KERNEL_TB, HARNESS_TB, DEC_TB, VAULT_TB, EFFECTS_TB],
    assumptions=VAULT_ASSUME,
    rule="each case is one generated history (2-5 users, 4 products over 2 apps, mixed asset decimals, zero/non-zero fees, price moves and "
         "deactivations, time gaps up to a year, boundary amounts at floor / ceiling / min-CR, wrong owner / app / product) delivered to the real "
         "vault message server; distinct = distinct trace text, non-trivial = at least one message accepted",
)

META = dict(
    technique="Lean 4 inductive invariant over all message histories of a ledger state-machine model + differential correspondence with the real vault message server",
    design_ref="DESIGN.md §5 C01",
    text="Kernel-checked: for every finite history of the eleven vault messages (plus unsolicited sends, outside funding, liquidation "
         "seizure) with arbitrary amounts, users, products and environment inputs, vault custody per denom = recorded collateral + "
         "unsolicited coins, the vault count = number of open vaults, and the per-product totals = sums over open + stable-mint + "
         "awaiting-auction vaults (one inductive invariant, relative to offsets that only auction settlement moves: custody, count and "
         "collateral totals are proved for EVERY history incl. seizures and settlements; the minted total is proved <= the recorded principal "
         "always and = in histories without settlement, with a kernel-checked counterexample for the equality after a settlement - finding D13). "
         "The model is tied to the code by replaying generated "
         "histories on the real message router and comparing the full ledger projection after every message; the invariants are also "
         "evaluated by the Lean driver on the real chain state.",
    note="Trusted: Lean kernel; the model's faithfulness as far as the correspondence exercises it; message atomicity; admissible product "
         "configuration. Partial: minted-totals equality only without second-generation auction settlement (the code violates it: D13); three "
         "emergency-shutdown steps are outside the history theorems and stated as one-step theorems with their exact effect (esmStable D29, "
         "esmReturn1 floor premise, esmReturn2 = auctionsV2 TriggerEsm D39). Configuration changes in the middle of a history are covered "
         "(ledger_eq_reconfig) and generated by the harness through the real update paths.",
)
