from props import KERNEL_TB, HARNESS_TB, DEC_TB

PROP = dict(
    title="Interest and savings accrual is non-negative, monotone and zero over zero time",
    lean_modules=["Comdex.Props.C18"],
    namespaces=["Comdex.C18"],
    required_theorems=[],
    harness_tests=["TestC18"],
    trusted_base=[KERNEL_TB, HARNESS_TB, DEC_TB],
    assumptions=[],
)
META = dict(technique="", design_ref="DESIGN.md §5 C18", text="", note="")
