from props import KERNEL_TB, HARNESS_TB, DEC_TB

PROP = dict(
    title="Interest and savings accrual is non-negative, monotone and zero over zero time",
    lean_modules=["Comdex.Props.C18"],
    namespaces=["Comdex.C18"],
    required_theorems=[
        # family (a): x/lend, pure fixed point — proved for all admissible parameters
        "Comdex.C18.rates_defined", "Comdex.C18.utilisation_in_unit_interval",
        "Comdex.C18.borrow_rate_mono_in_util", "Comdex.C18.rate_at_zero_is_base", "Comdex.C18.rate_continuous_at_kink",
        "Comdex.C18.lend_rate_le_borrow_rate", "Comdex.C18.accrual_functions",
        "Comdex.C18.reward_nonneg", "Comdex.C18.reward_zero_at_zero_time", "Comdex.C18.reward_mono",
        "Comdex.C18.stable_interest_mono", "Comdex.C18.two_step_le_one_step_plus_rounding",
        "Comdex.C18.stable_two_step_le_one_step_plus_rounding",
        # family (b): x/rewards CalculationOfRewards (float64 math.Pow) — relative to tested hypotheses (PARTIAL)
        "Comdex.C18.calcRewards_ok", "Comdex.C18.hypotheses_consistent",
        "Comdex.C18.interest_nonneg", "Comdex.C18.interest_zero_at_zero_time", "Comdex.C18.interest_mono_partial",
        "Comdex.C18.interest_mono_time_counterexample", "Comdex.C18.interest_mono_rate_counterexample",
        "Comdex.C18.tracker_never_negative", "Comdex.C18.whole_units_paid_fraction_carried",
        "Comdex.C18.more_frequent_accrual_not_more",
        # state level: the vault bookkeeping around CalculationOfRewards (time base, BlockHeight == 0 flag, tracker, stamps)
        "Comdex.C18.vault_calc_books_interest", "Comdex.C18.vault_next_interval_starts_here",
        "Comdex.C18.accrual_subadditive", "Comdex.C18.more_frequent_triggering_not_more", "Comdex.C18.fee_toggle_restarts_clock",
        "Comdex.C18.fee_zero_window_touched_counterexample",
        # state level: the locker bookkeeping (collector rate + stamp, locker stamp + BlockHeight == 0 flag, tracker), all histories
        "Comdex.C18.savings_only_for_time_at_positive_rate", "Comdex.C18.savings_time_budget_from_any_state",
        "Comdex.C18.zero_rate_window_touched_counterexample", "Comdex.C18.savings_only_for_time_at_positive_rate_repaired",
        "Comdex.C18.locker_calc_books_interest", "Comdex.C18.locker_move_books_interest", "Comdex.C18.rate_change_restarts_clock",
        "Comdex.C18.zero_rate_window_earns_nothing", "Comdex.C18.locker_more_frequent_triggering_not_more",
        "Comdex.C18.accrual_subadditive_across_rate_change",
        # state level: the clocks of the x/lend positions (LastInteractionTime, own index copy)
        "Comdex.C18.lend_interaction_restarts_clock", "Comdex.C18.borrow_two_interactions_not_more",
        "Comdex.C18.lend_reward_interaction_restarts_clock", "Comdex.C18.stable_rebalance_spec",
    ],
    harness_tests=["TestC18"],
    coverage_files=["x/locker/keeper/msg_server.go", "x/asset/keeper/pairs_vault.go"],
    trusted_base=[KERNEL_TB, HARNESS_TB, DEC_TB,
                  "Model/LendRates.lean is hand-written from x/lend/keeper/maths.go:9-90 and iter.go:186-265; tied on every run by calling "
                  "the real GetUtilisationRatioByPoolIDAndAssetID / GetBorrowAPRByAssetID / GetLendAPRByAssetIDAndPoolID on a real store "
                  "and the real CalculateLendReward / CalculateBorrowInterest / CalculateStableInterest / IterateLends, compared bit for bit",
                  "Model/Accrual.lean models everything in x/rewards CalculationOfRewards EXCEPT math.Pow exactly (decimal->float64, float64 "
                  "subtraction and multiplication, FormatFloat('f',18), NewDecFromStr, tracker carry): the harness prints the IEEE-754 bit "
                  "pattern math.Pow returned for the same arguments, the model decodes it exactly and must reproduce the real result of "
                  "CalculationOfRewards / CalculateVaultInterest / CalculateLockerRewards bit for bit",
                  "Model/VaultAccrual.lean is hand-written from x/rewards/keeper/rewards.go:639-698 (CalculateVaultInterest), "
                  "x/vault/keeper/msg_server.go:1432-1453 (MsgVaultInterestCalc) and x/asset/keeper/pairs_vault.go:240-366 (WasmUpdatePairsVault, "
                  "VaultIterateRewards): state = pair (fee, stamp), vault (principal, interest, BlockHeight flag, BlockTime), tracker; tied by "
                  "delivering the real MsgVaultInterestCalc through the message router, calling CalculateVaultInterest and WasmUpdatePairsVault "
                  "on real records and comparing every record field after every call; the single calculation over the combined interval is run "
                  "on a discarded branch of the same real state for the monitor accrual_subadditive",
                  "Model/LockerAccrual.lean is hand-written from x/rewards/keeper/rewards.go:538-637 (CalculateLockerRewards), "
                  "x/locker/keeper/msg_server.go:26-399 (the five locker messages and what they stamp), x/collector/keeper/collector.go:679-811 "
                  "(WasmUpdateCollectorLookupTable, LockerIterateRewards) and :41-61 (DecreaseNetFeeCollectedData): state = collector entry "
                  "(rate, stamp), locker (balance, returns, BlockHeight flag, BlockTime), tracker, net fees, rewards whitelist; tied by delivering "
                  "the real locker messages through the message router and the rate / whitelist changes as JSON through the app's wasm "
                  "CustomMessenger (DispatchMsg) on one real collector entry and locker, every record field compared after every call; the "
                  "monitors zero_time / zero_rate_window / accrued_interval compare the REAL credited amount with the formula over the interval "
                  "that a specification ghost (time of the last rate update, time the locker was last settled; kept independently by the harness "
                  "and by the Lean driver, never reading the stamps) allows",
                  "Go's math.Pow itself is NOT modelled: the family-(b) theorems assume the explicit hypotheses FloatOps (pow >= 1, "
                  "pow x 0 = 1, quasi-multiplicative within 2^-40) and PowMonoTime / PowMonoRate; the harness TESTS them on 3*10^6 (quick) / "
                  "10^8 (thorough) points per hypothesis (rates in [0,10], 0..50 years) - a test, not a proof. PowMonoTime/PowMonoRate "
                  "FAIL in the last bit (reproduced defect, see notes/C18.md)",
                  "amd64 float64 semantics of Go (no fused multiply-add in `(p - 1) * a`), strconv.FormatFloat/ParseFloat correctly rounded"],
    assumptions=["admissible interest-rate-model parameters: 0 < uOptimal < 1, base and slopes >= 0, 0 <= reserve factor <= 1 "
                 "(AssetRatesParams.Validate only enforces > 0; uOptimal = 1 at full utilisation divides by zero - modelled as panic, exercised)",
                 "principal is an integer (sdk.Int printed with String(), as every caller does), 0 <= principal; global indices >= 1.0 "
                 "(they start at 1.0 and only grow) for the two-interval law; rates >= 0; elapsed time >= 0",
                 "family (b): principal within int64 (the code panics otherwise - modelled), results finite"],
    rule="(vault flows: one case = one sequence of fee updates / interest calculations on one real vault; locker flows: one case = one "
         "history of create / deposit / withdraw / close / reward-calc messages and saving-rate / whitelist changes through the wasm "
         "bindings on one real collector entry, with zero-rate windows of days to years, idle and touched lockers, switch-on and accrual "
         "in one block) "
         "each case is one group of related calls on the real code (same inputs varied in elapsed time / principal / rate, two consecutive "
         "intervals against the combined interval, same parameters at several utilisations incl. 0, the kink, its neighbours and 1) or one "
         "accrual sequence on a real vault / locker / lend position; distinct = distinct trace text, non-trivial = at least one call returned ok",
)

META = dict(
    category="proof",
    technique="Lean 4 proofs about an executable fixed-point model (x/lend) and an exact IEEE-754 model of everything around math.Pow "
              "(x/rewards), + bit-for-bit differential correspondence with the real keepers and relational monitors on real outputs",
    design_ref="DESIGN.md §5 C18",
    text="(a) x/lend - kernel-checked for ALL admissible parameters, utilisations, principals, rates, times: variable and stable borrow "
         "rate non-decreasing in utilisation, equal to base at 0, both branch formulas agree exactly at the kink and the rate approaches it "
         "from below within slope1*(uOpt-u)/uOpt + (slope1+1) ulp, lend rate <= borrow rate, no division by zero; lend reward / borrow "
         "interest / reserve share / stable interest are >= 0, = 0 at zero time, monotone in time, principal and rate, and two consecutive "
         "intervals never exceed the combined interval by more than 4e-18 per unit of principal (1e-18 for the stable rate). "
         "(b) x/rewards CalculationOfRewards (vault stability fee, locker savings) - PARTIAL: kernel-checked relative to explicit, tested "
         "hypotheses about Go's math.Pow: >= 0, 0 at zero time, monotone in principal, two-interval law with explicit error term, tracker "
         "never negative and pays exactly the whole units; at the level of the vault records (which interval is accrued: vault stamp or, "
         "when the vault's BlockHeight flag is 0, the pair's stamp; tracker; whole units; stamps) two consecutive calculations never book "
         "more than a single calculation over the combined interval beyond the explicit float slack, from any start stamp, and the flag is "
         "consumed by every calculation (accrual_subadditive, more_frequent_triggering_not_more); at the level of the LOCKER records, "
         "over all histories of locker messages and saving-rate changes: for every rate value r != 0 the time credited at r plus the time "
         "still claimable never exceeds the time the rate has been r (no savings for a zero-rate window, none twice, none at another "
         "rate: savings_only_for_time_at_positive_rate - PARTIAL: histories without deposit / withdraw while the rate is zero, because "
         "the code then credits the zero-rate window, zero_rate_window_touched_counterexample, reproduced, monitors *_touched), each "
         "accruing call books exactly the formula over [clock, now] at the rate in force, every rate change restarts the clock, an idle "
         "locker earns nothing over a zero-rate window and nothing in the block of the switch-on, and triggering more often - also "
         "across a rate change - earns no more beyond the float slack; monotonicity in time and rate is proved only under PowMonoTime/PowMonoRate, "
         "which the harness shows to be false of math.Pow in the last bit - the real function then returns LESS interest for one more "
         "second / a higher rate (kernel-checked counterexamples on the observed values; monitors mono_time_pow / mono_rate_pow).",
    note="Trusted: Lean kernel; Base/Dec.lean (differentially tested); the harness generators. Family (b) is PARTIAL: math.Pow is an "
         "input of the model, its assumed properties are tested (3e6 / 1e8 points per hypothesis), not proved. Reproduced defect: "
         "CalculationOfRewards is not monotone in elapsed time and in the rate (1 ulp of float64, ~2e-16 of the principal); the check "
         "reports it as VIOLATION until it is entered in known_findings.json (monitors mono_time_pow, mono_rate_pow).",
)
