from props import KERNEL_TB, HARNESS_TB, DEC_TB

PROP = dict(
    title="Batch matching conserves coins and never fills an order beyond its limits",
    lean_modules=["Comdex.Props.C05"],
    namespaces=["Comdex.C05"],
    required_theorems=["Comdex.C05.fill_within_limits", "Comdex.C05.fill_within_limits_single",
                       "Comdex.C05.fill_within_limits_distribute", "Comdex.C05.fill_price_within_limit",
                       "Comdex.C05.fill_price_within_limit_engine", "Comdex.C05.fill_price_within_limit_single",
                       "Comdex.C05.matched_receives_positive", "Comdex.C05.matched_receives_positive_single",
                       "Comdex.C05.quote_dust_bounds", "Comdex.C05.quote_dust_bounds_rounds",
                       "Comdex.C05.quote_dust_bounds_match", "Comdex.C05.quote_dust_bounds_single",
                       "Comdex.C05.quote_dust_counterexample",
                       "Comdex.C05.base_conserved_partial", "Comdex.C05.base_conserved_partial_buys",
                       "Comdex.C05.base_conserved_partial_single", "Comdex.C05.base_conserved_partial_step",
                       "Comdex.C05.base_conserved_partial_match",
                       "Comdex.C05.found_price_in_spread", "Comdex.C05.found_price_iff_crossing",
                       "Comdex.C05.found_price_amounts_positive", "Comdex.C05.found_price_unmatchable_counterexample",
                       "Comdex.C05.limit_respected_first_batch", "Comdex.C05.price_uniform_first_batch",
                       "Comdex.C05.limit_respected_first_batch_pools",
                       "Comdex.C05.base_conserved_iff_lossless", "Comdex.C05.base_conserved_iff_lossless_single",
                       "Comdex.C05.distribution_exact_iff_lossless",
                       "Comdex.C05.order_within_amount", "Comdex.C05.order_within_amount_after_batch",
                       "Comdex.C05.order_within_amount_step", "Comdex.C05.offered_amount_within_open",
                       "Comdex.C05.place_ok_limit_order", "Comdex.C05.order_within_amount_validated",
                       "Comdex.C05.placed_price_within_limit",
                       "Comdex.C05.market_order_price_on_grid", "Comdex.C05.mm_order_ticks_on_grid",
                       "Comdex.C05.order_within_amount_all_orders",
                       "Comdex.C05.pool_buy_amount_on_curve", "Comdex.C05.pool_sell_amount_on_curve",
                       "Comdex.C05.pool_buy_orders_within_reserves_and_curve",
                       "Comdex.C05.pool_sell_orders_within_reserves_and_curve", "Comdex.C05.pool_offers_within_reserves",
                       "Comdex.C05.ranged_buy_amount_on_curve", "Comdex.C05.ranged_sell_amount_on_curve",
                       "Comdex.C05.ranged_buy_keeps_product", "Comdex.C05.ranged_sell_keeps_product",
                       "Comdex.C05.ranged_pool_buy_orders_within_reserves_and_curve",
                       "Comdex.C05.ranged_pool_sell_orders_within_reserves_and_curve",
                       "Comdex.C05.ranged_limit_orders_covered", "Comdex.C05.ranged_pool_offers_within_reserves",
                       "Comdex.C05.base_conserved_counterexample"],
    harness_tests=["TestC05", "TestC05Keeper"],
    monitors=["base_conserved", "base_conserved_unexplained", "quote_dust", "quote_dust_exceeds_fills", "fill_within_limits",
              "fill_price_within_limit", "matched_receives_positive", "found_price_in_spread", "found_price_iff_crossing",
              "pool_within_reserves_and_curve", "order_within_amount", "order_limit_respected", "placed_price_within_limit"],
    trusted_base=[KERNEL_TB, HARNESS_TB, DEC_TB,
                  "Model/AmmMatch.lean is hand-written from x/liquidity/amm/{match,orderbook,util,order}.go and "
                  "x/liquidity/types/order.go (HasPriority); tied by running the real NewOrderBook / Match / MatchAtSinglePrice / "
                  "FindMatchableAmountAtSinglePrice / PriceDirection / SortOrders / DistributeOrderAmountToOrders / MatchableAmount / "
                  "FillOrder / FindMatchPrice / MakeView amounts / tick.go primitives / BasicPool and RangedPool curve functions / "
                  "DeriveTranslation / PoolBuyOrders / PoolSellOrders on real BaseOrder / UserOrder / PoolOrder / BasicPool / RangedPool "
                  "objects; Model/AmmOrders.lean (market order price, MMOrderTicks, cancelMMOrder) by real MsgMarketOrder / MsgMMOrder "
                  "through the message router; Model/AmmKeeper.lean (NewUserOrder, "
                  "ApplyMatchResult write-back, expiry, pruning) is tied by driving the real liquidity keeper over several batches "
                  "(MsgLimitOrder through the message router, EndBlocker / BeginBlocker) and comparing every stored order after every batch and comparing every order's (open, paid, received, "
                  "matched), quoteCoinDiff, match price, direction and outcome on every call",
                  "Dec / Int overflow panics (>315 / >256 bits) are not modelled: unreachable for amounts <= 10^40 and tick prices in "
                  "[10^-14, 10^20] (the generator range, no panic observed); a zero price is not modelled (ticks are positive)"],
    assumptions=["order objects of one book are pairwise distinct (the code keys its map by pointer); the model gives every order an id",
                 "prices are positive; order states are well-formed (0 <= paid, 0 <= open <= amount, the remaining offer coin covers "
                 "what MatchableAmount allows: buy paid <= offer, sell paid + open <= offer) — what NewUserOrder/NewPoolOrder establish",
                 "FindMatchPrice theorems: order prices are ticks of the precision used (OnGrid), 10^prec < 2^300; with pool curves in the "
                 "view (MultipleOrderViews) the price is modelled and compared bit for bit, the found_price_* theorems cover the "
                 "order-book view only",
                 "keeper-level theorems (order_within_amount*): one pair without pools; limit, market and MM orders (no cancel messages, "
                 "no bank transfers and swap fees); the price stored for an order is a positive grid tick (PlaceOk / GridPrice: proved "
                 "for limit orders of both directions with lowestTick <= price <= highestTick, for market orders when last*(1+-ratio) "
                 "is in that range, for MM ladders whose range ends are grid ticks)",
                 "pool theorems: basic pools with price limits within [10^-15, 10^18]; ranged pools for every price, for any translation "
                 "with non-negative virtual reserves (monitored on every real pool, not proved of DeriveTranslation); the BuyAmountTo / "
                 "SellAmountTo order at the price limit is proved covered by the reserves and otherwise monitored only",
                 "the dust clause is proved in the form that is true of the code: dust*10^18 <= hi*L + fills*(10^18-1) with L the base coin "
                 "dropped by defect D2; the clause as written (dust < fills) is refuted (quote_dust_counterexample) and holds iff L = 0"],
    rule="TestC05Keeper: each case is one fresh pair on the real keeper with 3-8 batches of real MsgLimitOrders, MsgMarketOrders and "
         "MsgMMOrders (lifespans 0 / a few blocks / 1 h; directed: carried-over orders partially filled at better-than-limit prices, "
         "later opposite liquidity, MM ladders re-placed in a later / the same batch); "
         "TestC05: each case is one generated order book (1-12 real order objects: tick prices 1e-14..1e20 at precision 1-4, amounts "
         "straddling one quote unit / equal groups / tiny / huge, batch ids 0-3, user+pool or plain orders, offers exact/short/surplus) "
         "with one or more calls of the real engine on it; distinct = distinct trace text, non-trivial = at least one call matched",
)

META = dict(
    technique="Lean 4 proof over an executable model of the matching engine (per-order reachability by guarded fills; induction over "
              "ticks, groups, the pro-rata recursion and both matching loops) + differential correspondence with the real amm package",
    design_ref="DESIGN.md §5 C05, §7 D2",
    text="Kernel-checked for every list of well-formed orders, every positive price and last price: Match / MatchAtSinglePrice / "
         "DistributeOrderAmountToTick / DistributeOrderAmountToOrders never reach FillOrder's panic, terminate and never divide by zero; "
         "every order stays within offer and amount; every fill is at a price within the order's limit, so buyers pay at most and sellers "
         "receive at least the limit value up to one quote unit per fill; a filled order receives a positive amount; the quoteCoinDiff "
         "returned by Match / MatchAtSinglePrice is exactly buyers' payments minus sellers' receipts, never negative, and at most the value "
         "of the base coin defect D2 dropped plus less than one quote unit per individual fill - composed over all ticks, groups and rounds "
         "(dust < #fills wherever base coin is conserved; refuted in general by a kernel-checked counterexample). Base conservation is proved for the buy side always and for the whole Match when no sell-side distribution loses a "
         "remainder (decidable ghost), and REFUTED in general by a kernel-checked counterexample (defect D2: "
         "DistributeOrderAmountToOrders drops the remainder after a re-run) and characterised exactly (equality iff matchLossless). "
         "FindMatchPrice is modelled: a found price is a positive tick within [lowest sell, highest buy], found iff the book crosses; "
         "the first batch at that price respects every limit and fills at one price. Basic- and ranged-pool order generation is "
         "modelled bit for bit (including DeriveTranslation): every order of the tick loops is within the running real reserves and not "
         "beyond the (virtual) constant-product curve, so a filled pool order cannot lower the pool's product except by the rounding of "
         "one quote unit. The keeper's glue is modelled (stored order -> NewUserOrder -> matcher -> ApplyMatchResult -> expiry) for "
         "limit, market and MM orders: over any number of batches no stored order is filled beyond its amount, pays more than its offer "
         "coin, or trades worse than its limit; the limit-order price fitting is proved for both directions.",
    note="Trusted: Lean kernel, Base/Dec.lean (differentially tested), the hand-written model as far as the correspondence run exercises "
         "it, distinct order objects, no 315-bit overflow. Ranged pools: non-negative virtual reserves are a hypothesis (monitored); "
         "with pool curves in FindMatchPrice's view the price is compared, not covered by the found_price theorems.",
)
