from props import KERNEL_TB, HARNESS_TB

PROP = dict(
    title="Dutch auctions settle completely and sell at the posted, falling price",
    lean_modules=["Comdex.Props.C10", "Comdex.Props.C10Effects"],
    gen=["effects"],
    namespaces=["Comdex.C10"],
    required_theorems=[
        "Comdex.C10.c10_pins", "Comdex.C10.c10_table",  # golden effect skeleton (Props/C10Effects.lean)
        "Comdex.C10.start_price_is_oracle_times_premium",
        "Comdex.C10.price_nonincreasing", "Comdex.C10.price_nonincreasing_v1", "Comdex.C10.price_nonincreasing_v2",
        "Comdex.C10.price_le_start", "Comdex.C10.price_le_start_v1", "Comdex.C10.price_le_start_v2",
        "Comdex.C10.window_within_time_to_zero",
        "Comdex.C10.price_ge_end_minus_slack_v1", "Comdex.C10.price_ge_end_minus_slack_v2",
        "Comdex.C10.price_ge_end_counterexample",
        "Comdex.C10.bidders_pay_le_target_partial", "Comdex.C10.bidders_receive_le_collateral_partial",
        "Comdex.C10.bidders_pay_le_target_counterexample", "Comdex.C10.bidders_receive_le_collateral_counterexample",
        "Comdex.C10.open_books_exact", "Comdex.C10.bid_moves_exactly",
        "Comdex.C10.bid_at_posted_price", "Comdex.C10.bid_at_posted_price_exhausted", "Comdex.C10.bid_at_posted_price_exhausted_requested",
        "Comdex.C10.close_proceeds_distributed", "Comdex.C10.lend_close_split", "Comdex.C10.close_custody_accounted",
        "Comdex.C10.close_distributes_all_partial", "Comdex.C10.close_distributes_all_counterexample",
        "Comdex.C10.v1_bidders_pay_le_target_and_receive_le_collateral", "Comdex.C10.v1_custody_exact",
        "Comdex.C10.v1_bid_moves_and_close_distributes", "Comdex.C10.v1_bid_at_posted_price", "Comdex.C10.v1_esm_winddown_empties_custody",
        "Comdex.C10.l1_bidders_pay_le_target_and_receive_le_seized", "Comdex.C10.l1_close_custody_partial",
        "Comdex.C10.l1_bid_moves_and_close_distributes", "Comdex.C10.l1_close_custody_counterexample",
        "Comdex.C10.price_in_band_every_reachable_state", "Comdex.C10.esm_leaves_nonvault_auction_untouched_past_end",
        "Comdex.C10.trigger_esm_moves", "Comdex.C10.esm_trigger_repeats_counterexample", "Comdex.C10.debt_custody_every_history",
        "Comdex.C10.vault_close_distributes", "Comdex.C10.external_close_distributes", "Comdex.C10.lend_close_distributes",
        "Comdex.C10.l1_close_distributes_all",
    ],
    harness_tests=["TestC10"],
    monitors=["pay_le_target", "receive_le_collateral", "books_exact", "close_distributes", "posted_price", "price_monotone", "price_in_range",
              "price_in_range_slack", "price_below_end_at_T", "start_price", "start_record", "reserve_draw_skipped", "limit_fill_overcharge",
              "proceeds_forwarded", "lend_bonus_stranded", "leftover_to_owner", "bid_refused", "leftover_to_owner_after_d7",
              "books_exact_after_d7", "pay_le_target_after_d7", "receive_le_collateral_after_d7", "close_distributes_after_d7",
              "esm_payout_le_proceeds", "close_distributes_after_esm_trigger", "leftover_to_owner_after_esm_trigger", "lend_close_books", "bid_wrong_denom_refused", "close_branch_split"],
    trusted_base=[KERNEL_TB, HARNESS_TB,
                  "extract/effects (go/ast, no type checking): ordered bank calls of auctionsV2.PlaceDutchAuctionBid, auction.PlaceDutchAuctionBid, auction.CloseDutchAuction with path conditions, texts normalised; PINNED in "
                  "Props/C10Effects.lean against a reviewed literal (abstract party / denomination texts, positivity class, condition hashes) — "
                  "golden skeleton, not derived from the model (its bank calls are not data); amounts not compared",
                  "Base/Dec.lean (model of sdk.Dec, validated separately against the real library by harness/dec_test.go)",
                  "Model/DutchPrice.lean is hand-written from x/auction/keeper/math.go:11-31 + dutch.go:495-503,639-656 and "
                  "x/auctionsV2/keeper/maths.go:9-25 + auctions.go:240-335; tied by calling the real exported V2 helpers and by running the "
                  "real V2 UpdateDutchAuction and the real v1 RestartDutchAuctions on stored auctions over wide and boundary inputs",
                  "Model/DutchV2.lean is hand-written from x/auctionsV2/keeper/bid.go:14-293, auctions.go:143-335,535-605, "
                  "x/vault/keeper/vault.go:679-697 and x/liquidationsV2/keeper/liquidate.go:605-633; tied by replaying generated "
                  "operation sequences on positions seized by the real liquidationsV2 keeper and comparing the auction record, "
                  "eleven account balances, collector fees, booked fees, reserve record and supply after every operation",
                  "Model/DutchV1.lean is hand-written from x/auction/keeper/dutch.go:164-463,465-663 and x/collector/keeper/collector.go:14-39; "
                  "tied by replaying generated bid / block-hook sequences on vaults seized by the real first-generation liquidation keeper",
                  "Model/DutchV1Lend.lean + Model/DutchV1LendBook.lean are hand-written from x/auction/keeper/dutch_lend.go:136-497 and "
                  "x/liquidation/keeper/liquidate_borrow.go:241-341,354-607 (same-pool branch); tied by real x/liquidation borrow liquidations "
                  "(MsgLiquidateBorrow, sweep; borrows aged up to a year with their interest booked) and MsgPlaceDutchLendBid, comparing after "
                  "every line the auction record, pool / lend-module / auction-module / owner / bidder balances, the locked vault, the borrow "
                  "position, the interest tracker and three cToken balances; only the oracle prices of the block of the bid are inputs",
                  "second-generation lend close: penalty, reserve interest and bridge amount are external values read from the lend stores; "
                  "cTokens are not tracked",
                  "x/bank (send/burn semantics, module accounts), protobuf and the KV store are exercised, not modelled beyond balances"],
    assumptions=["asset decimals are positive; premium >= 0; 0 <= discount <= 1; oracle values fit the uint64 they are stored in",
                 "bidders, owner, keeper, initiator, collector, reserve and module accounts are distinct accounts",
                 "auction parameters (window, premium, discount) do not change while an auction is open",
                 "block times are whole seconds in the harness (the code truncates elapsed time to whole seconds)",
                 "emergency shutdown of the app: the iterator's ESM branch is modelled and driven (price band for every initiator kind, "
                 "TriggerEsm for vault-initiated auctions); the exact ledger theorems cover shutdown blocks for lend- / externally initiated "
                 "auctions only (TriggerEsm pays the proceeds out while the auction stays open: finding D39); kill switch: C14"],
    rule="pure part: each line is one call of a real price helper or one real price update on a stored auction of either generation "
         "(boundary and random start prices, discounts, windows, elapsed times 0, 1, T/3, T/2, T-1, T, beyond); sequence part: each case is "
         "one position seized by the real liquidationsV2 keeper (vault sweep, keeper message, external liquidation or lend borrow; five asset pairs with "
         "decimals 10^6/10^8/10^12/10^18) followed by 3-14 generated operations (tiny, partial, exact, over-sized, dust-boundary and "
         "collateral-boundary market bids by four bidders one of them poor, block hooks with time before/at/after the end of the window and "
         "oracle moves / outages, limit deposits aimed at the current premium, reserve top-ups), or one vault seized by the first-generation "
         "liquidation keeper followed by generated MsgPlaceDutchBid / BeginBlocker operations; distinct = distinct trace text, "
         "non-trivial = at least one operation succeeded",
)

META = dict(
    technique="Lean 4 proofs over an executable model of the Dec arithmetic price functions and of the second-generation bid state machine "
              "(invariant by induction over all operation sequences) + differential correspondence with the real keepers and Lean-evaluated "
              "monitors on the real balances",
    design_ref="DESIGN.md §5 C10, §7 D7 D8",
    text="Kernel-checked for all inputs: the posted price of both generations is non-increasing in elapsed time, never above the start price "
         "(= premium x oracle price, exact), inside the window never negative and never below end - (start-end)/tau - 1e-18 (the exact bound "
         "'>= end' is false at the last second of the window: counterexample theorem, D8). For every sequence of market bids by any bidders, "
         "price updates, restarts, reserve top-ups and limit fills with at most one limit bid per premium: bidders pay <= target and receive <= "
         "seized collateral (books exact while open), each bid gets at most one unit more collateral than paid+bonus buys at the posted price, "
         "the closing bid sends exactly target to burn/collector/keeper/initiator/pool/booked fees and the unsold collateral to the owner, and "
         "module custody is exact up to an explicit reserve-shortfall term. The same ledger, custody, distribution and posted-price theorems "
         "hold for the first-generation vault auctions without exception. Counterexample theorems (replayed on the real code): two limit bids "
         "at one premium (D7) break pay<=target and receive<=collateral; an insufficient app reserve is silently ignored and other users' funds "
         "in the module account pay for the close. Also found by the monitors: a limit fill clipped by exhausted collateral debits the whole "
         "remaining target from the deposit (limit_fill_overcharge).",
    note="Partial: first-generation lend close is modelled for same-pool borrows (cross-pool: the bridge-asset settlement of CreteNewBorrow is "
         "not driven); second-generation lend close takes penalty / reserve interest / bridge amount as values read from the lend stores. The exact "
         "V2 ledger theorems carry 'at most one limit bid per premium' because the code is wrong without it (D7); debt_custody_every_history "
         "states what holds without it. First-generation lend custody is exact only up to the unpaid bonus pot (D32). Emergency shutdown: the "
         "iterator's branch is modelled; TriggerEsm repeats every block (D39).",
)
