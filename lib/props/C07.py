from props import KERNEL_TB, HARNESS_TB

PROP = dict(
    title="Every order is settled exactly: fills, refunds and swap fees add up",
    lean_modules=["Comdex.Props.C07"],
    namespaces=["Comdex.C07"],
    required_theorems=["Comdex.C07.placement_takes_exactly", "Comdex.C07.taken_eq_offer_plus_fee", "Comdex.C07.finish_moves_exactly",
                       "Comdex.C07.fill_pays_demand_coins", "Comdex.C07.terminated_settled", "Comdex.C07.escrow_holds_only_live_orders",
                       "Comdex.C07.cancellable_after_batch", "Comdex.C07.cancellable_after_batch_of_conserving", "Comdex.C07.lostOf_zero_of_modelled", "Comdex.C07.cancel_all_cancels_every_old_order", "Comdex.C07.order_keys_unique", "Comdex.C07.mm_index_complete", "Comdex.C07.mm_cancel_cancels_all", "Comdex.C07.mm_replace_cancels_all", "Comdex.C07.mm_cancel_cancels_indexed", "Comdex.C07.migration_preserves_orders", "Comdex.C07.fee_collector_exact", "Comdex.C07.pruning_moves_nothing", "Comdex.C07.ended_order_accounts",
                       "Comdex.C07.mm_cancel_cancels_all_counterexample"],
    harness_tests=["TestC07"],
    trusted_base=[KERNEL_TB, HARNESS_TB,
                  "Model/LiqLedger.lean (shared with C04) is hand-written from x/liquidity/keeper/swap.go, batch.go, store.go; tied by "
                  "replaying every generated message / block hook on the real app and comparing ok / not-ok and the full projection "
                  "(orders with offer / remaining / received / open / status / batch, MM indexes, all tracked balances) after every "
                  "message and block; app ids (1-3) and pair ids (1-4) are drawn independently",
                  "per-order fills, pool flows, dust and match price of the matching engine are observed inputs (C05); the tick-fitted "
                  "order price, the price limits, MMOrderTicks and the denom checks are computed by the model from the message",
                  "the store migration 1->2 is run by the harness on a store it re-encodes in the legacy/v1 layout (version-1 worlds: "
                  "no MM orders, no ranged pools)",
                  "the model's order lookup in cancelMMOrder is the REPAIRED one (appId, pairId, id); the lookup as it stands in "
                  "swap.go:559 is kept as a switch of the model only to prove the counterexample and to recognise D4 in the run"],
    assumptions=["per-app generic params (swap fee rate) are fixed over a history",
                 "cancellable_after_batch: the match results of THAT pair lost nothing (lostOf a p ops = 0; proved for lossless runs "
                 "of C05's modelled matcher, lostOf_zero_of_modelled); else the escrow may lack the refund (D2)",
                 "heights stay below 150 (swap-fee conversion hook not exercised); block times are whole seconds"],
    rule="each case is one generated history on a fresh app (see C04), with more market-making and cancel traffic; the D4 witness "
         "(app 2 / pair 1, 20 MM orders, next batch, MsgCancelMMOrder) is replayed first; distinct = distinct trace text, "
         "non-trivial = at least one message succeeded",
)

META = dict(
    technique="Lean 4 inductive invariant (per-order ledger) over all operation lists of the x/liquidity ledger model + differential "
              "correspondence with the real app; monitors on the real order / balance records",
    design_ref="DESIGN.md §5 C07",
    text="Kernel-checked for every finite history: a successful limit / market order takes exactly offer + floor(offer*feeRate) from the "
         "orderer into the pair escrow (MM orders: the offer coins); ending a live order pays the owner exactly remaining + (reserve - "
         "fee on the executed part) and forwards exactly the fee on the executed part; every ended order satisfies taken = executed "
         "+ refunded + forwarded and the pair escrow holds only the claims of live orders; the owner's cancel of a live order "
         "placed in an earlier batch always succeeds (given conserving match results); index completeness (unique order keys, every "
         "live MM order in its owner's index) is an inductive invariant of every history, hence MsgCancelMMOrder / MsgMMOrder end EVERY "
         "market-making order of the owner in the pair (no premise about the index) for every app id / pair id with the repaired lookup, "
         "and a concrete counterexample (app 2 / pair 1) for the lookup as it stands in swap.go:559 (D4); the pair's swap-fee collector "
         "moves in every step by exactly the fee on the executed portions of the orders that ended; the store migration 1->2 is the "
         "identity on every order amount. Monitors on real data: every user's balance change is explained by the "
         "order / request / farm records, escrow and fee collector exactness, cancellability, MM cancel completeness.",
    note="D4 (swap.go:559 swapped lookup) was found by this check and is fixed in /repo; before the fix the run reported DIFF + MON mm_cancel_all.",
)
