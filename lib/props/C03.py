from props import KERNEL_TB, HARNESS_TB, DEC_TB
from props.C01 import VAULT_TB, VAULT_ASSUME

PROP = dict(
    title="Vault risk limits",
    lean_modules=["Comdex.Props.C03"],
    namespaces=["Comdex.C03"],
    required_theorems=["Comdex.C03.create_accepted_ratio", "Comdex.C03.draw_accepted_ratio", "Comdex.C03.withdraw_accepted_ratio",
                       "Comdex.C03.depositAndDraw_accepted_ratio", "Comdex.C03.floor_kept", "Comdex.C03.ceiling_kept",
                       "Comdex.C03.inactive_price_rejects"],
    harness_tests=["TestC01"],
    monitors=["ratio_ok", "floor_kept", "ceiling_kept", "price_fail_closed"],
    trusted_base=[KERNEL_TB, HARNESS_TB, DEC_TB, VAULT_TB],
    assumptions=VAULT_ASSUME + ["the collateral ratio clause is proved for the ratio as the chain computes it (three 18-digit fixed-point roundings); the distance to the exact rational is not bounded by a theorem"],
    rule="same generated histories as C01; amounts are boundary-directed: the harness solves amountIn for ratio == minCr and emits it and its "
         "neighbours (create, withdraw), amounts at debt floor +-1 and at the remaining ceiling +-1; prices are moved and deactivated between messages",
)

META = dict(
    technique="Lean 4 proof of the accept/reject decision (computed ratio >= minCr), inductive floor/ceiling invariants + differential correspondence at boundary amounts",
    design_ref="DESIGN.md §5 C03",
    text="Kernel-checked: an accepted create / draw / withdraw / deposit-and-draw outside shutdown implies the collateral ratio as computed by "
         "the chain exists and is >= minCr (against principal + interest + closing fee for draw/withdraw); after every history every open "
         "vault's principal >= its product's debt floor and every product's outstanding principal <= its debt ceiling; with the required "
         "price inactive these messages are rejected. Tied by the C01 correspondence run with boundary-directed amounts (ratio exactly minCr +- 1 unit), "
         "and the same decisions are re-evaluated by the Lean driver on the real post-state.",
    note="Partial: the exact-rational form of the ratio clause (rounding slack of three Dec operations) is not proved. Trusted: Lean kernel, "
         "Dec model (differentially tested), model faithfulness via correspondence.",
)
