from props import KERNEL_TB, HARNESS_TB, DEC_TB
from props.C01 import VAULT_TB, VAULT_ASSUME

PROP = dict(
    title="Vault risk limits",
    lean_modules=["Comdex.Props.C03"],
    namespaces=["Comdex.C03"],
    required_theorems=["Comdex.C03.create_accepted_ratio", "Comdex.C03.draw_accepted_ratio", "Comdex.C03.withdraw_accepted_ratio",
                       "Comdex.C03.depositAndDraw_accepted_ratio", "Comdex.C03.floor_kept", "Comdex.C03.ceiling_kept",
                       "Comdex.C03.inactive_price_rejects",
                       "Comdex.C03.ratioOk_exact", "Comdex.C03.ratioOk_exact_scales", "Comdex.C03.ratioOk_exact_tight",
                       "Comdex.C03.create_accepted_ratio_exact", "Comdex.C03.draw_accepted_ratio_exact",
                       "Comdex.C03.withdraw_accepted_ratio_exact",
                       "Comdex.C03.ceiling_excess_never_increases", "Comdex.C03.floor_deficit_never_increases", "Comdex.C03.limits_kept_from"],
    harness_tests=["TestC01"],
    monitors=["ratio_ok", "ratio_exact", "floor_kept", "ceiling_kept", "ceiling_backed", "price_fail_closed"],
    trusted_base=[KERNEL_TB, HARNESS_TB, DEC_TB, VAULT_TB],
    assumptions=VAULT_ASSUME + ["the exact-rational form of the ratio clause carries the rounding slack of the chain's arithmetic explicitly: minCr - 1/2 * 10^-18 for decimal scales dividing 10^18 (only the final division rounds; the slack is attained, ratioOk_exact_tight), half a unit per value computation more for other scales"],
    rule="same generated histories as C01; amounts are boundary-directed: the harness solves amountIn for ratio == minCr and emits it and its "
         "neighbours (create, withdraw), amounts at debt floor +-1 and at the remaining ceiling +-1; prices are moved and deactivated between messages",
)

META = dict(
    technique="Lean 4 proof of the accept/reject decision (computed ratio >= minCr) and of its exact-rational content, inductive floor/ceiling invariants + differential correspondence at boundary amounts",
    design_ref="DESIGN.md §5 C03",
    text="Kernel-checked: an accepted create / draw / withdraw / deposit-and-draw outside shutdown implies the collateral ratio as computed by "
         "the chain exists and is >= minCr (against principal + interest + closing fee for draw/withdraw); after every history every open "
         "vault's principal >= its product's debt floor and every product's outstanding principal <= its debt ceiling; with the required "
         "price inactive these messages are rejected. Tied by the C01 correspondence run with boundary-directed amounts (ratio exactly minCr +- 1 unit), "
         "and the same decisions are re-evaluated by the Lean driver on the real post-state.",
    note="The ratio clause is proved both for the ratio as the chain computes it and multiplied out over the integers for the exact products "
         "(ratioOk_exact: explicit slack of the three roundings; ratioOk_exact_scales: exact ratio >= minCr - 1/2 * 10^-18 for decimal scales 10^k, k <= 18; "
         "ratioOk_exact_tight: that half unit is attained, so the literal clause 'at least minCr' is false of the code by < 10^-18 — the monitor ratio_exact "
         "checks the proved bound on the real vaults). Trusted: Lean kernel, "
         "Dec model (differentially tested), model faithfulness via correspondence.",
)
