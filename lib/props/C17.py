from props import KERNEL_TB, HARNESS_TB

PROP = dict(
    title="Oracle price averaging",
    lean_modules=["Comdex.Props.C17"],
    namespaces=["Comdex.C17"],
    required_theorems=["Comdex.C17.no_panic", "Comdex.C17.refines_spec", "Comdex.C17.active_mean",
                       "Comdex.C17.active_only_after_N_positive", "Comdex.C17.zero_sample_deactivates",
                       "Comdex.C17.inactive_valuation_refused", "Comdex.C17.latest_price_in_bounds",
                       "Comdex.C17.mean_fits_word"],
    harness_tests=["TestC17"],
    trusted_base=[KERNEL_TB, HARNESS_TB,
                  "Model/Twa.lean is hand-written from x/market/keeper/oracle.go:67-170 and x/market/abci.go:24-60; "
                  "tied by running real UpdatePriceList/GetLatestPrice/CalcAssetPrice on a real store and comparing the "
                  "stored record field by field after every call",
                  "protobuf (de)serialisation and the KV store are exercised, not modelled"],
    assumptions=["block heights are positive (the chain starts at height 1)",
                 "the window size N is fixed over a history (as the property states) and N >= 1",
                 "the band-oracle feeding path (x/market/abci.go) is represented by its per-record effects"],
    rule="each case is one generated sample sequence (window size 1-12, accepted gap, zero/boundary/MaxUint64/repeated samples, "
         "height gaps around the accepted gap, discard-all and deactivate events, reader calls) run on the real market keeper; "
         "distinct = distinct trace text, non-trivial = at least one call returned normally",
)

META = dict(
    technique="Lean 4 refinement proof (ring buffer refines sliding-window spec, induction over op lists) + differential correspondence with the real market keeper",
    design_ref="DESIGN.md §5 C17",
    text="Kernel-checked: for every window size N>=1, accepted gap and finite op list from the empty store the model of "
         "UpdatePriceList never panics/indexes out of range, refines a sliding-window specification (window = last N positive "
         "samples since the last reset), publishes exactly floor(sum/N) when active, activates only after N positive samples, "
         "a zero sample deactivates, inactive valuation is refused. The model is tied to the code by replaying generated sample "
         "sequences on the real keeper and comparing every stored record field by field.",
    note="Trusted: Lean kernel (axioms propext, Quot.sound only), the hand-written model's faithfulness as far as the "
         "correspondence run exercises it, heights>0, fixed N. The band-oracle feed is represented by per-record effects.",
)
