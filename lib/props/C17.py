from props import KERNEL_TB, HARNESS_TB

PROP = dict(
    title="Oracle price averaging",
    lean_modules=["Comdex.Props.C17", "Comdex.Props.C17Feed", "Comdex.Props.C17Reconf"],
    namespaces=["Comdex.C17"],
    required_theorems=["Comdex.C17.no_panic", "Comdex.C17.refines_spec", "Comdex.C17.active_mean",
                       "Comdex.C17.active_only_after_N_positive", "Comdex.C17.zero_sample_deactivates",
                       "Comdex.C17.inactive_valuation_refused", "Comdex.C17.latest_price_in_bounds",
                       "Comdex.C17.mean_fits_word",
                       "Comdex.C17.market_begin_total", "Comdex.C17.validated_feed_assigns_by_rank", "Comdex.C17.fedWith_eq_rank",
                       "Comdex.C17.discard_clears_every_window_first", "Comdex.C17.no_sampling_block_changes_nothing",
                       "Comdex.C17.unvalidated_feed_refuses_every_valuation", "Comdex.C17.band_validation_iff_new_request",
                       "Comdex.C17.band_discard_only_after_long_outage", "Comdex.C17.band_discard_when_long_outage",
                       "Comdex.C17.band_short_outage_forgotten",
                       "Comdex.C17.reconfigure_restarts_every_window", "Comdex.C17.every_segment_is_a_fresh_run",
                       "Comdex.C17.no_oob_across_reconfigurations", "Comdex.C17.segment_refines_spec", "Comdex.C17.segment_active_mean",
                       "Comdex.C17.activation_needs_N_fresh_positive", "Comdex.C17.chain_never_panics", "Comdex.C17.chain_window_history",
                       "Comdex.C17.chain_activation_needs_N_fresh_positive", "Comdex.C17.unconfigured_chain_only_switches_off",
                       "Comdex.C17.stale_full_window_not_wf", "Comdex.C17.stale_window_oob_counterexample",
                       "Comdex.C17.stale_window_early_activation_counterexample", "Comdex.C17.delete_by_script_keeps_windows",
                       "Comdex.C17.chain_stale_counterexample", "Comdex.C17.strict_readers_fail_closed",
                       "Comdex.C17.readers_refuse_after_reconfigure", "Comdex.C17.stale_tolerant_readers_counterexample",
                       "Comdex.C17.stale_tolerant_readers_answer_iff"],
    harness_tests=["TestC17", "TestC17Feed"],
    coverage_files=["x/bandoracle/keeper/gov.go", "x/bandoracle/handler.go", "x/bandoracle/oracle.go", "x/bandoracle/genesis.go", "x/market/genesis.go"],
    monitors=["wf", "no_panic", "spec", "active_only_after_N", "reconfigure_clears", "fail_closed", "stale_reader_values_inactive",
              "feed_by_rank", "unvalidated_refused", "band_validation", "band_discard"],
    trusted_base=[KERNEL_TB, HARNESS_TB,
                  "Model/Twa.lean is hand-written from x/market/keeper/oracle.go:67-170 and x/market/abci.go:24-60; "
                  "tied by running real UpdatePriceList/GetLatestPrice/CalcAssetPrice on a real store and comparing the "
                  "stored record field by field after every call",
                  "Model/Feed.lean is hand-written from x/market/abci.go:15-75 and x/bandoracle/abci.go + oracle.go (request id / result / "
                  "discard bookkeeping); tied by running the REAL begin-blockers of both modules and the real IBC acknowledgment / response "
                  "handlers of the band module and comparing the band state and every stored window after every block",
                  "the governance (re)configuration (x/bandoracle/keeper/oracle.go:167-177 AddFetchPriceRecords incl. its delete loop), the asset-list "
                  "re-arm (x/asset/keeper/asset.go:212,278,322) and the genesis import of windows (x/market/genesis.go, x/bandoracle/genesis.go) are "
                  "hand-written into Model/Feed.lean (Chain / ChainOp); tied by running the REAL FetchPriceProposal handler (after ValidateBasic), the real "
                  "asset proposal handlers and the real InitGenesis in the middle of the begin-blocker histories and comparing the band state and ALL stored "
                  "windows (GetAllTwa) after each; Model/Feed.lean Reader.answers is hand-written from the seven readers named there and compared with the "
                  "real keepers' answers on every feed.reader line",
                  "protobuf (de)serialisation, the KV store and the IBC send of FetchPrice (no effect on this state; never executed: no channel capability) "
                  "are not modelled"],
    assumptions=["block heights are positive (the chain starts at height 1)",
                 "the window size N is fixed between two fetch-price proposals (the property's premise; Props/C17Reconf proves the chain keeps it by "
                 "deleting every window at each proposal) and N >= 1 (FetchPriceProposal.ValidateBasic, exercised)",
                 "asset ids are distinct (they are store keys)"],
    rule="each case is one generated sample sequence (window size 1-12, accepted gap, zero/boundary/MaxUint64/repeated samples, "
         "height gaps around the accepted gap, discard-all and deactivate events, reader calls) run on the real market keeper; "
         "plus generated feeds (1-6 assets with and without oracle pricing, result lists shorter / longer than the asset list, zero and maximal "
         "rates, oracle outages shorter and longer than the accepted gap, sampling and non-sampling blocks, feed never configured; 0-3 fetch-price "
         "proposals per feed with the window size growing / shrinking / equal at every ring phase and script ids equal / unequal to asset ids, asset "
         "proposals adding assets and toggling the oracle flag, genesis imports of windows of any shape, seven real consumers) through the "
         "real begin-blockers and proposal handlers; distinct = distinct trace text, non-trivial = at least one call returned normally",
)

META = dict(
    technique="Lean 4 refinement proof (ring buffer refines sliding-window spec, induction over op lists) + differential correspondence with the real market keeper",
    design_ref="DESIGN.md §5 C17",
    text="Kernel-checked: for every window size N>=1, accepted gap and finite op list from the empty store the model of "
         "UpdatePriceList never panics/indexes out of range, refines a sliding-window specification (window = last N positive "
         "samples since the last reset), publishes exactly floor(sum/N) when active, activates only after N positive samples, "
         "a zero sample deactivates, inactive valuation is refused; and for the feed around it: the market begin-blocker never panics for any "
         "result list / asset list, gives every oracle-priced asset exactly one update with the rate at its rank (every other window untouched), "
         "clears every window first when a discard is pending, changes nothing outside sampling blocks, switches every listed price off (refused to "
         "consumers) while the feed is not validated; the band side validates iff a new request was acknowledged and orders a discard only after an "
         "outage of at least the accepted gap. Across governance: a fetch-price proposal deletes every stored window, so the window stored after any "
         "history with reconfigurations is the fresh run of the last segment under that segment's N (no panic, well-formed for the N in force, sliding-window "
         "spec, activation only after N' fresh positive samples) - per window and, through a proved projection, for every asset of every chain history from "
         "any genesis; without the deletion a full window is well-formed for no other N (counterexamples: out-of-window write, panic, early activation). "
         "The four readers that test the activity flag fail closed; three reward-weighting readers do not (finding D35). "
         "The model is tied to the code by replaying generated sample "
         "sequences on the real keeper and comparing every stored record field by field.",
    note="Trusted: Lean kernel (axioms propext, Quot.sound only), the hand-written model's faithfulness as far as the "
         "correspondence run exercises it, heights>0, N fixed between proposals.",
)
