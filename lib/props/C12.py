from props import KERNEL_TB, HARNESS_TB

_TB = [KERNEL_TB, HARNESS_TB,
       "extract/guards/entry.go: the inventory of entry points is found by NAME conventions of the source tree (the `MsgServer` "
       "interfaces of x/*/types/*.pb.go, functions returning govtypes.Handler in x/*/handler.go, govRouter.AddRoute / SetUpgradeHandler in "
       "app/app.go, `comdexMsg.X != nil` arms of DispatchMsg, IBCModule.On*, BeginBlocker/EndBlocker of x/*/abci.go, cfg.RegisterMigration, "
       "CreateUpgradeHandler* under app/upgrades); an entry point wired in another way is not seen (the dynamic run routes through the real "
       "msg-service router / gov message server / DispatchMsg, so a mis-named one shows as a BAD line); cosmos-sdk's gov message server "
       "(authority test of MsgExecLegacyContent) and IBC core are exercised, not modelled",
       "extract/guards (go/ast, no type checking) flattens every MsgServer method into guards / writes / position reads / ok-exits, "
       "inlining keeper functions whose error the caller propagates; its flattening rules are trusted (notes/C12.md lists them); "
       "position reads hidden in helper functions that return no error are not followed (the dynamic matrix is the complement)",
       "message atomicity (a rejected message leaves no trace) is cosmos-sdk baseapp's runTx / msg-service-router cache: MODELLED by "
       "applyIfNoError, exercised by the harness through a branched CacheContext written back only on success",
       "wasm: only the chain-id / sender guard at the top of each custom handler is modelled; the keeper call behind it is exercised, not modelled"]

PROP = dict(
    title="Only the rightful party can act: owners on positions, authorities on controls",
    lean_modules=["Comdex.Props.C12"],
    namespaces=["Comdex.C12"],
    gen=["guards"],
    required_theorems=["Comdex.C12.owner_guard_blocks", "Comdex.C12.run_simple", "Comdex.C12.deliver_unchanged_of_error",
                       "Comdex.C12.position_handlers_owner_guarded", "Comdex.C12.ownerless_tight",
                       "Comdex.C12.nonowner_rejected_on_every_route", "Comdex.C12.owner_after_write_pinned",
                       "Comdex.C12.position_consistency_guarded", "Comdex.C12.no_weak_consistency_guard",
                       "Comdex.C12.consistency_rows_pinned",
                       "Comdex.C12.wasm_guards_expected", "Comdex.C12.wasm_authorized_iff_designated",
                       "Comdex.C12.admin_only_killswitch", "Comdex.C12.admin_guard_blocks",
                       "Comdex.C12.table_sizes", "Comdex.C12.handler_names_pinned", "Comdex.C12.every_handler_has_exit",
                       "Comdex.C12.entry_points_classified", "Comdex.C12.entry_point_counts", "Comdex.C12.msg_entry_points_complete",
                       "Comdex.C12.position_naming_entry_points_guarded", "Comdex.C12.nonmsg_position_readers_pinned",
                       "Comdex.C12.privileged_entry_points_guarded", "Comdex.C12.privileged_entry_points_pinned",
                       "Comdex.C12.proposals_pinned", "Comdex.C12.unwired_entry_points_pinned", "Comdex.C12.ibc_callbacks_pinned",
                       "Comdex.C12.privileged_targets_reach_pinned", "Comdex.C12.gov_only_blocks", "Comdex.C12.spot_entry_points"],
    harness_tests=["TestC12"],
    trusted_base=_TB,
    assumptions=["a position is named by the ids carried in the message; signer = the address in the message's GetSigners field "
                 "(signature verification itself is the ante handler's job and is not part of this property)",
                 "on chain ids other than comdex-1 / comdex-test3 the custom wasm handlers accept any contract (development networks): "
                 "the property text restricts only the main and test networks"],
    monitors=["owner_only", "rejected_no_change", "admin_only", "wasm_guard", "position_consistent", "privileged_only", "precondition_enforced",
              "breaker_closed", "esm_closed", "cooloff", "cooloff_closed", "price_fail_closed", "sweep_skips", "snapshot_only_from_active"],
    rule="each case is one real message (or custom wasm dispatch, or proposal content inside MsgExecLegacyContent / MsgSubmitProposal, or IBC callback) delivered on a fresh branch of a populated app: position kind x message "
         "type x signer (owner / two strangers / another position's owner) resp. custom variant x sender x chain id; distinct = distinct "
         "trace text, non-trivial = the owner's / designated contract's own message succeeded",
)

META = dict(
    technique="Lean 4 proof over fact tables regenerated from the Go source (guard order of every MsgServer method, wasm sender guards) "
              "+ dynamic authorisation matrix on the real app with full-store diff",
    design_ref="DESIGN.md §5 C12",
    text="Kernel-checked: in the execution model (guards and writes in sequence, first failing guard returns, message cache) an owner "
         "/ admin guard anywhere on the way makes a non-owner's delivery fail with the state unchanged. Over the table regenerated from "
         "/repo on every run: every one of the 70 MsgServer methods of ALL comdex modules (= the methods of the protobuf MsgServer "
         "interfaces) that reads a position not keyed by the signer executes the owner comparison on every route to success (11 "
         "reviewed ownerless handlers listed and justified in Props/C12.lean); all 20 custom wasm handlers carry exactly the expected "
         "chain-id/contract guard; the kill switch is admin-only before any write. Inventory of 164 entry points (70 messages, 26 governance "
         "proposal contents, 20 wasm variants, 9 IBC callbacks, 13 block hooks, 3 migrations, 23 upgrade handlers): each is classified by who "
         "may call it, every position-naming one is owner-guarded or reviewed, each of the 47 privileged ones has its authority guard before "
         "its first write (admin test / gov router as the only caller of the keeper function / contract comparison first), the 71 keeper "
         "functions behind them are reachable from no message handler except two reviewed fee-paying ones. The harness executes every "
         "proposal content through the real gov message server with non-gov authorities, and delivers every position-naming message "
         "with non-owner signers and every custom message with wrong senders on the real app and requires error + empty store/bank diff.",
    note="Trusted: Lean kernel, the extractor's flattening rules, baseapp's message cache (modelled), the harness generators.",
)
