from props import KERNEL_TB, HARNESS_TB

PROP = dict(
    title="Genesis export and re-import preserves every live position and counter",
    gen=["genesis"],
    lean_modules=["Comdex.Props.C20"],
    namespaces=["Comdex.C20"],
    required_theorems=["Comdex.C20.roundtrip_id", "Comdex.C20.tables_wf", "Comdex.C20.roundtrip_modules",
                       "Comdex.C20.table_size", "Comdex.C20.table_prefix_counts", "Comdex.C20.table_spot_vault",
                       "Comdex.C20.table_spot_liquidity", "Comdex.C20.table_spot_market",
                       "Comdex.C20.store_coverage_full", "Comdex.C20.import_faithful_full", "Comdex.C20.import_total_full", "Comdex.C20.import_accepts_full", "Comdex.C20.validate_keys_match_store_keys", "Comdex.C20.validate_keys_pinned", "Comdex.C20.derived_sourced_full",
                       "Comdex.C20.counters_exact_full", "Comdex.C20.fields_used_full",
                       "Comdex.C20.export_helpers_copy_ids_faithfully", "Comdex.C20.export_helpers_copy_fields_by_name", "Comdex.C20.copies_pinned",
                       "Comdex.C20.migrate_fresh_id", "Comdex.C20.migrate_shared_counterexample", "Comdex.C20.migrate_shared_id_partial",
                       "Comdex.C20.knownGaps_are_gaps", "Comdex.C20.suspectedGaps_are_gaps", "Comdex.C20.allowList_are_gaps",
                       "Comdex.C20.benign_counters", "Comdex.C20.counter_counterexample", "Comdex.C20.store_counterexample"],
    # store migrations are not part of the genesis round trip the property speaks about: the migration run is kept as a
    # measurement (observations M1 / M2 in notes/C20.md, DESIGN.md §7), its monitors never decide the verdict
    informational_monitors=["migration_*"],
    harness_tests=["TestC20", "TestC20Migrations"],
    # (no `monitors` key: the monitor names are generated per module / prefix / operation — store_roundtrip:<module>.<prefix>,
    #  counter_roundtrip:<module>.<counter>.<rule>, continuation_equal:<op>, custody_roundtrip, import_accepts_export:<module>,
    #  migration_keeps:<module>.<prefix>, migration_continuation:<op>, migration_runs:<migrator> — every MON line of the two tests counts)
    trusted_base=[KERNEL_TB, HARNESS_TB,
                  "extract/genesis (go/ast only, ~2000 lines): attributes every store access of x/<m>/keeper to a prefix of "
                  "x/<m>/types/keys.go, follows calls from ExportGenesis / InitGenesis, classifies how InitGenesis restores each id "
                  "counter, records which source expression feeds which field of every record constructed field by field on the "
                  "export / import / migration path (names compared word-wise; ids passed as call arguments are not covered). A wrong table makes a table obligation vacuous; mitigations: expected size and spot entries are pinned in "
                  "Props/C20.lean, and the driver attributes every key of the REAL dumped stores to the table's prefixes and compares "
                  "the model's prediction (init . export by the extracted rules) with the re-imported store (DIFF)",
                  "Model/Genesis.lean treats record values as opaque and index stores as rebuilt by an abstract function; what a module's "
                  "InitGenesis does to a record's fields is observed (store diff), not modelled",
                  "the second-generation oracle cycle state of x/bandoracle and IBC are represented by the effects of their keeper "
                  "calls; baseapp/IAVL/protobuf are exercised, not modelled"],
    assumptions=["the round-trip theorem speaks about one module store at a time; cross-module consistency is observed by the "
                 "continuation workload only",
                 "recomputed counters are accepted as exact when no keeper function deletes from the record prefix (ids handed out by "
                 "incrementing the counter, big-endian id keys) - theorem benign_counters lists them",
                 "the continuation workload runs on a second re-imported chain on which the oracle validation result (lost by the round "
                 "trip, finding G15) is set again, so that differences are attributable to the other modules; the faithful first block "
                 "is probed separately"],
    rule="one case = one rich application state (positions in every DeFi module, built by user messages and block processing over "
         "five blocks) exported with app.ExportAppStateAndValidators and re-imported with InitChain into a fresh application; every "
         "KV pair of the 15 DeFi module stores and of their parameter subspaces on both sides is a compared observation, plus one "
         "line per continuation operation; distinct = distinct trace text",
)

META = dict(
    technique="Lean 4 round-trip law over a store model (induction over the store) + decide over a genesis coverage table regenerated "
              "from the Go source on every run + real export/InitChain round trip with store-by-store diff and continuation workload",
    design_ref="DESIGN.md §5 C20",
    text="Kernel-checked: for every well-formed coverage table and every module store whose prefixes are all carried or rebuilt and "
         "whose recomputed counters satisfy the recomputation rule, init(export s) answers every look-up like s. The coverage table "
         "(prefixes written by keepers / read by ExportGenesis / written by InitGenesis / genesis field flow / restoration rule of every "
         "id counter) is regenerated from the source on every run; five table obligations (store coverage, faithful import, no silent "
         "abort, exact counters, all fields used) are discharged by decide over the table minus explicit, named lists of reproduced and "
         "suspected gaps, which are themselves proved to be gaps. The real application is exported and re-imported; every module store "
         "is diffed key by key against the original and against the model's prediction, and a continuation workload compares outcomes, "
         "newly assigned ids and balances.",
    note="The property is FALSE of the unchanged tree: 15 reproduced findings of the round trip (G01-G15) and 2 of the registered store "
         "migrations (M1, M2) - see notes/C20.md. Trusted: Lean kernel, the extractor, the harness fixtures; the population report "
         "(every exported list non-empty in some state, every pair of id fields different in some record, every message type accepted "
         "by the continuation) turns holes of the fixture into BAD lines.",
)
