"""Per-property configuration: one module lib/props/Cxx.py per property, each defining PROP (check
configuration) and META (MANIFEST text). Loaded by /verif/check and lib/mkmanifest.py."""
import importlib, os, glob

DEC_TB = "Base/Dec.lean as a model of cosmossdk.io/math v1.1.2 LegacyDec, validated by differential testing only (harness TestDec: every primitive, exhaustive small raws around rounding points + random up to the 315-bit overflow limit)"
KERNEL_TB = "Lean 4.33.0 kernel; axioms audited per theorem on every run: only propext, Classical.choice, Quot.sound accepted"
HARNESS_TB = "the Go correspondence harness and its generators (what is not generated is not compared); measured distribution in coverage.generator_distribution"

PROPS = {}
META = {}
for _p in sorted(glob.glob(os.path.join(os.path.dirname(__file__), "C[0-9][0-9].py"))):
    _name = os.path.basename(_p)[:-3]
    _m = importlib.import_module("props." + _name)
    PROPS[_name] = _m.PROP
    if hasattr(_m, "META"):
        META[_name] = _m.META
