from props import KERNEL_TB, HARNESS_TB

PROP = dict(
    title="Determinism: same blocks, same state",
    gen=["determinism"],
    lean_modules=["Comdex.Props.C16"],
    namespaces=["Comdex.C16"],
    required_theorems=[
        "Comdex.C16.site_ModuleAccountAddrs_perm_invariant",
        "Comdex.C16.site_DistributeOrderAmountToOrders_perm_invariant",
        "Comdex.C16.site_OrderBookString_perm_invariant",
        "Comdex.C16.site_TransferFundsForSwapFeeDistribution_perm_invariant",
        "Comdex.C16.swapFeeTotal_closed_form",
        "Comdex.C16.appendInOrder_order_dependent", "Comdex.C16.firstMatch_order_dependent",
        "Comdex.C16.site_SortOrders_perm_invariant", "Comdex.C16.isSort_goSortStable", "Comdex.C16.sortOrders_amountOnly_order_dependent",
        "Comdex.C16.table_sortSites_reviewed", "Comdex.C16.table_sortSites_safe", "Comdex.C16.table_sortSites_text",
        "Comdex.C16.table_floatUses", "Comdex.C16.table_floatUses_size", "Comdex.C16.table_reflectUses", "Comdex.C16.table_syncUses",
        "Comdex.C16.table_zoneUses", "Comdex.C16.table_spot_entries_vocabulary",
        "Comdex.C16.table_mapRangeSites_proven", "Comdex.C16.table_mapRangeSites_size", "Comdex.C16.table_mapRangeSites_text", "Comdex.C16.table_provenSites_live",
        "Comdex.C16.table_goStatements", "Comdex.C16.table_selectStmts", "Comdex.C16.table_chanOps",
        "Comdex.C16.table_wallClockUses", "Comdex.C16.table_randUses", "Comdex.C16.table_randUses_not_in_keepers",
        "Comdex.C16.table_taintedCallers", "Comdex.C16.table_envUses", "Comdex.C16.table_unsafeUses",
        "Comdex.C16.table_mapArgsExternal", "Comdex.C16.no_mutable_package_state", "Comdex.C16.table_mutablePackageState_size", "Comdex.C16.table_scan_coverage", "Comdex.C16.table_spot_entries",
    ],
    harness_tests=["TestC16"],
    monitors=["replay_equal", "results_equal", "site_stable"],
    trusted_base=[KERNEL_TB, HARNESS_TB,
                  "extract/determinism (Go, go/packages + go/types over the working tree): finds every `range` over a map-typed "
                  "expression, go/select/channel statements, wall-clock, time-zone, rand, env / runtime, unsafe, reflect, sync and floating-point "
                  "uses and every sort call (comparison text, stability, origin of the input order) in non-test, non-generated files "
                  "of x/…, app/…, types/… (client, simulation, testutil excluded) and classifies each map-range body into a shape; "
                  "regenerated on every run, pinned by spot entries and coverage bounds",
                  "Model/MapLoops.lean: each of the 4 map-range loop bodies hand-written as a fold from the Go source; tied to the "
                  "code by (file, function, body-shape) keys of the regenerated table and by running the real functions repeatedly "
                  "(det.site lines)",
                  "sort.Strings / sort.Slice are assumed to meet their contract (output is a sorted rearrangement of the input); the "
                  "theorems hold for every function meeting it",
                  "outside the model: Go scheduler and runtime, cosmos-sdk / CometBFT / IAVL / wasmvm code, float arithmetic, 256-bit "
                  "overflow of the quoteCoinDiff accumulator; Go's sort algorithms are deterministic functions of their input; the replay "
                  "comparison (two in-process instances + three OS processes, one with its wall clock shifted by patching time.Now in "
                  "its own process image and TZ=UTC+14) is a test"],
    assumptions=["a Go map iteration visits every entry exactly once, keys pairwise distinct, in an arbitrary order (language spec)",
                 "values stored in poolLiquidityMap are positive (guard at x/liquidity/keeper/pool.go:731-734, part of the model's hypothesis)",
                 "orders inside one matching batch have pairwise distinct (kind, id) (hypothesis of site_SortOrders_perm_invariant)",
                 "the replay workload covers what its generator produces: every /comdex.* message type (distribution in the stats), liquidity, "
                 "vault incl. stable-mint, locker, lend, oracle updates and outages, kill switch, ESM shutdown and redemption, liquidationsV2 + "
                 "auctionsV2 dutch auctions, v1 keeper liquidations, rewards epochs incl. chain halts, external reward programmes; governance-only "
                 "configuration is written through keeper entry points inside blocks"],
    rule="each det.block case is one block of a generated workload executed through BeginBlock / signed DeliverTx / EndBlock / Commit on "
         "two fresh in-process instances and in three fresh OS processes (one with a shifted wall clock and another time zone) from one "
         "fixed genesis; compared: sha256 over an ordered dump of every IAVL store + all bank balances + app hash + validator updates "
         "(det.block / replay_equal) and, separately, over the transaction results incl. event attribute order (det.results / "
         "results_equal). Each det.site case is one real function / block hook "
         "run many times in-process on identical inputs. distinct = distinct trace text, non-trivial = the block had a successful tx",
)

META = dict(
    technique="Lean 4 proofs of permutation invariance of every map-iteration loop + decide-checked obligations over a fact table "
              "regenerated from the typed Go AST on every run; replay-equality test across instances and OS processes",
    design_ref="DESIGN.md §5 C16",
    text="Kernel-checked: each of the 4 places where consensus code ranges over a Go map (ModuleAccountAddrs, "
         "DistributeOrderAmountToOrders, OrderBook.String, TransferFundsForSwapFeeDistribution) is modelled as a fold and proved to give "
         "the same observable result for every permutation of the iteration order (sorted output for any sort meeting its contract; "
         "keyed independent updates commute, panics included; checked sum of positive decimals panics iff the total overflows). "
         "Obligations over the regenerated table: these are all the map ranges (by file, function, body shape), no go/select/channel "
         "statements, wall-clock and math/rand only in reviewed test/simulation helpers that nothing else calls, no env/unsafe uses, "
         "maps reach external code only from app wiring; every sort call has a deterministic input order or a total comparison "
         "(SortOrders: HasPriority proved a strict total order); time zone, environment, reflect, sync and floating point only at "
         "reviewed pinned places. Test: a generated workload delivering every comdex message type, with chain halts, oracle outages and "
         "an emergency shutdown, replayed on 2 in-process instances and 3 OS processes (one with a wall clock shifted by 137 days and "
         "TZ UTC+14) gives identical per-block state hashes and identical transaction results; hooks repeated in-process give one result.",
    note="Partial: the scheduler, Go runtime, SDK/CometBFT/IAVL/wasm internals and float arithmetic are outside the model; sort "
         "functions are trusted to meet their contract; the replay comparison is a test, not a proof.",
)
