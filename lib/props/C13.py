from props import KERNEL_TB, HARNESS_TB

PROP = dict(
    title="Savings and fee books are backed: locker balances and collector net fees",
    lean_modules=["Comdex.Props.C13"],
    namespaces=["Comdex.C13"],
    required_theorems=["Comdex.C13.deposited_eq_sum_netbalance", "Comdex.C13.locker_custody_ge_deposited",
                       "Comdex.C13.locker_custody_ge_each_deposited", "Comdex.C13.withdraw_pays_exactly",
                       "Comdex.C13.close_pays_exactly", "Comdex.C13.netfees_nonneg",
                       "Comdex.C13.collector_shortfall_bounded", "Comdex.C13.collector_custody_ge_sum_netfees_partial",
                       "Comdex.C13.collector_custody_ge_sum_netfees_counterexample",
                       "Comdex.C13.collector_custody_ge_sum_netfees_counterexample_debt",
                       "Comdex.C13.netfees_delta_exact_partial", "Comdex.C13.netfees_delta_exact_counterexample",
                       "Comdex.C13.repaired_surplus_close_exact", "Comdex.C13.repaired_debt_close_exact"],
    harness_tests=["TestC13"],
    trusted_base=[KERNEL_TB, HARNESS_TB,
                  "Model/Locker.lean is hand-written from x/locker/keeper/msg_server.go, x/locker/keeper/locker.go, "
                  "x/rewards/keeper/rewards.go:538-637, x/collector/keeper/collector.go, the fee call sites of x/vault, x/auction, "
                  "x/auctionsV2, x/liquidationsV2; tied by replaying every generated message / keeper call on the real app and "
                  "comparing the outcome and the complete projection (all lockers, lookup tables, net-fee records, lockerV1 / "
                  "collectorV1 balances, user balances) after every call",
                  "the accrued savings reward (float64 math.Pow in CalculationOfRewards) and the vault fee amounts are external inputs: "
                  "printed by the harness from the real keepers, checked >= 0 by the driver, universally quantified in the theorems",
                  "x/bank: no vesting / blocked / send-disabled accounts are created; protobuf and the KV store are exercised, not modelled"],
    assumptions=["ESM and kill-switch are off (their guards are property C14)",
                 "every asset has its own denomination (the harness gives each asset id a distinct denom)",
                 "fee inflows are modelled as 'the collector receives x and records x'; where the coins come from (vault, auction "
                 "escrow) is the subject of C01/C02/C11",
                 "WasmMsgGetSurplusFund is called with the coin of the asset it names (trusted governance contract)"],
    rule="each case is one generated history on a fresh branch of a real app: 1-4 whitelisted (app, asset) pairs with random saving rates, "
         "5 locker users, 10-70 (thorough 10-160) steps of locker create/deposit/withdraw/close/reward-calc messages, saving-rate "
         "changes, real vault create/draw/repay/close messages, liquidation penalties, auction returns, GetAmountFromCollector, raw "
         "decreases, surplus funds, with time gaps from 0 s to 200 days and boundary-directed amounts; plus second-generation surplus "
         "and debt auctions run end to end; distinct = distinct trace text, non-trivial = at least one accepted call",
)

META = dict(
    technique="Lean 4 inductive invariants over all operation lists (keyed-store ledger model of locker and collector books) + "
              "differential correspondence with the real app, full state projection compared after every call",
    design_ref="DESIGN.md §5 C13",
    text="Kernel-checked for every configuration, every finite history and every value of the external inputs: the locker lookup total "
         "equals the sum of the lockers' net balances; the locker custody account covers the totals; a withdrawal pays exactly the "
         "requested amount and a close exactly the full net balance; recorded net fees never go negative; the collector's custody "
         "covers the recorded net fees up to a shortfall bounded by the second-generation auction closes, hence fully for histories "
         "without them; every other operation moves record and custody by exactly the same amount. The unrestricted collector-custody "
         "clause is FALSE of the code: CloseEnglishAuction (surplus and debt branch) is proved to break it on concrete witnesses which "
         "the harness replays on the real chain code first in every run.",
    note="Trusted: Lean kernel, the hand-written model as far as the correspondence run exercises it, the harness. External inputs "
         "(accrued reward, vault fee amounts) are taken from the real keepers and only assumed non-negative (checked on every line).",
)
