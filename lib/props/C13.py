from props import KERNEL_TB, HARNESS_TB

PROP = dict(
    title="Savings and fee books are backed: locker balances and collector net fees",
    lean_modules=["Comdex.Props.C13", "Comdex.Props.C13Effects"],
    gen=["effects"],
    namespaces=["Comdex.C13"],
    required_theorems=["Comdex.C13.deposited_eq_sum_netbalance", "Comdex.C13.locker_custody_ge_deposited",
                       "Comdex.C13.locker_custody_ge_each_deposited", "Comdex.C13.withdraw_pays_exactly",
                       "Comdex.C13.close_pays_exactly", "Comdex.C13.netfees_nonneg",
                       "Comdex.C13.collector_shortfall_bounded", "Comdex.C13.collector_custody_ge_sum_netfees_partial",
                       "Comdex.C13.collector_custody_ge_sum_netfees_counterexample",
                       "Comdex.C13.collector_custody_ge_sum_netfees_counterexample_debt",
                       "Comdex.C13.netfees_delta_exact_partial", "Comdex.C13.netfees_delta_exact_counterexample",
                       "Comdex.C13.repaired_surplus_close_exact", "Comdex.C13.repaired_debt_close_exact",
                       # savings reward computed inside the model
                       "Comdex.C13.reward_paid_pos", "Comdex.C13.accrued_nonneg", "Comdex.C13.accrued_zero_rate",
                       "Comdex.C13.accrued_zero_time", "Comdex.C13.accrued_mono_balance", "Comdex.C13.reward_le_netfees",
                       "Comdex.C13.reward_unpayable_rejects", "Comdex.C13.reward_calc_le_netfees", "Comdex.C13.reachableT_inv",
                       "Comdex.C13.deposited_eq_sum_netbalance_timed", "Comdex.C13.locker_custody_ge_deposited_timed",
                       "Comdex.C13.netfees_nonneg_timed", "Comdex.C13.collector_custody_timed_partial",
                       # auction start decisions, emergency guards
                       "Comdex.C13.surplus_start_only_above_threshold", "Comdex.C13.debt_start_only_below_threshold",
                       "Comdex.C13.no_start_when_switched_off", "Comdex.C13.activation_sweep_keeps_books",
                       "Comdex.C13.shutdown_blocks_create_deposit_whitelist",
                       # first-generation surplus / debt auctions: bids, restart, every close path
                       "Comdex.C13.gen1_close_keeps_books", "Comdex.C13.gen1_close_collector_effect",
                       "Comdex.C13.gen1_begin_block_keeps_books", "Comdex.C13.gen1_bids_keep_books",
                       # second-generation liquidation penalty: exact since fix d8b6c2e (finding D34); what the unrepaired code did
                       "Comdex.C13.v2_penalty_exact", "Comdex.C13.v2_penalty_before_fix_counterexample",
                       # effect skeleton regenerated from the Go source (Props/C13Effects.lean): locker messages and vault fee inflows tied
                       # to named op lists of the model, collector / rewards entry points pinned
                       "Comdex.C13.reward_bank", "Comdex.C13.create_bank", "Comdex.C13.deposit_bank", "Comdex.C13.withdraw_bank",
                       "Comdex.C13.close_bank", "Comdex.C13.rewardCalc_bank", "Comdex.C13.locker_go_all", "Comdex.C13.locker_effects",
                       "Comdex.C13.feeVault_runs", "Comdex.C13.feeClose_runs", "Comdex.C13.vault_fee_inflows",
                       "Comdex.C13.collector_pins", "Comdex.C13.locker_table"],
    harness_tests=["TestC13"],
    trusted_base=[KERNEL_TB, HARNESS_TB,
                  "extract/effects (go/ast, no type checking): ordered bank calls / record writes of the locker messages, the vault handlers' "
                  "transfers into the collector and the collector / rewards entry points, texts normalised; tied by Props/C13Effects.lean to op "
                  "lists that are PROVED to be what Model/Locker.lean's step does (semantic anchor, the model file is not edited) through a "
                  "reviewed role table (5 texts) and condition table (4 patterns); GetAmountFromCollector, WasmMsgGetSurplusFund, "
                  "LockerIterateRewards, CalculateLockerRewards only pinned against a literal (golden skeleton); amounts not compared",
                  "Model/Locker.lean is hand-written from x/locker/keeper/msg_server.go, x/locker/keeper/locker.go, "
                  "x/rewards/keeper/rewards.go:538-637, x/collector/keeper/collector.go, the fee call sites of x/vault, x/auction, "
                  "x/auctionsV2, x/liquidationsV2; tied by replaying every generated message / keeper call on the real app and "
                  "comparing the outcome and the complete projection (all lockers, lookup tables, net-fee records, lockerV1 / "
                  "collectorV1 balances, user balances) after every call",
                  "the savings reward is computed INSIDE the model (Model/Accrual.lean of C18: exact IEEE-754 arithmetic, tracker, time "
                  "stamps); the only input is the value of the one math.Pow call of CalculationOfRewards, mirrored by the harness with its two "
                  "arguments (the driver recomputes the arguments from the model state and diffs them); vault fee amounts remain external "
                  "inputs (>= 0 checked by the driver, universally quantified in the theorems)",
                  "theorems about the accrued amount assume pow >= 1.0 and pow(x, 0) = 1.0 (monitors pow_ge_one, pow_zero_exp on every real "
                  "call); the ledger invariants assume nothing about the power value",
                  "monitor savings_zero_rate_window: the bound is the rational inequality (1+r)^y <= (1+r)^floor(y) * (1 + r*frac(y)) applied to "
                  "the interval a specification ghost allows (last rate update / last settlement of the locker, read from the accepted trace "
                  "lines, never from the stamps) plus float slack; it is a test oracle on real amounts, the statement it samples is proved in "
                  "C18 (savings_only_for_time_at_positive_rate, zero_rate_window_earns_nothing)",
                  "x/bank: no vesting / blocked / send-disabled accounts are created; protobuf and the KV store are exercised, not modelled"],
    assumptions=["surplus and debt flag of an auction-mapping entry are mutually exclusive (enforced by SetAuctionMappingForApp); both assets "
                 "of a collector entry exist; first-generation auction parameters exist for the app",
                 "first-generation auctions: only the collector-asset side is booked (the secondary asset - surplus bids, minted tokens of debt "
                 "auctions - never touches the collector and lies outside the projection); auction duration, bid duration and bid factor are the "
                 "same for every app / entry of a history; second-generation bidding is not modelled",
                 "every asset has its own denomination (the harness gives each asset id a distinct denom)",
                 "fee inflows are modelled as 'the collector receives x and records x'; where the coins come from (vault, auction "
                 "escrow) is the subject of C01/C02/C11",
                 "WasmMsgGetSurplusFund is called with the coin of the asset it names (trusted governance contract)"],
    rule="each case is one generated history on a fresh branch of a real app: 1-4 whitelisted (app, asset) pairs with random saving rates, "
         "5 locker users, 10-70 (thorough 10-160) steps of locker create/deposit/withdraw/close/reward-calc messages, saving-rate "
         "changes, real vault create/draw/repay/close messages, liquidation penalties, auction returns, GetAmountFromCollector, raw "
         "decreases, surplus funds, ESM / kill-switch toggles, with time gaps from 0 s to 200 days and boundary-directed amounts; plus "
         "second-generation surplus and debt auctions run end to end; plus activation histories: four collector entries with random "
         "thresholds and lot sizes, net fees steered to surplusThreshold+lot / debtThreshold-lot and their neighbours, the real "
         "x/auction and liquidationsV2 begin-blockers deciding, real MsgPlaceSurplusBid / MsgPlaceDebtBid bids (boundary amounts), ESM "
         "toggles and time jumps past the bid / auction windows so that every first-generation close path and the restart occur; plus 8 "
         "directed histories, one per close path (surplus|debt x bid|no bid x shutdown|window over); plus zero-rate-window histories: "
         "several lockers, the saving rate switched off and on again through the real wasm binding, idle / touched / newly created "
         "lockers, reward calculation in the block of the switch-on; vault products closing fee "
         "{0, 0.005, 0.02, 0.3} x stability fee {0, 0.25} x draw-down fee {0, 0.01} and two stable-mint products, with same-block "
         "create+close and repay-all-interest+close bursts; penalty histories: a real vault is liquidated by either generation and bought "
         "out through the real Dutch auctions (statistics cell:<inflow>:<component>=0|>0 enumerate the inflow cells reached); distinct = distinct trace text, "
         "non-trivial = at least one accepted call",
)

META = dict(
    technique="Lean 4 inductive invariants over all operation lists (keyed-store ledger model of locker and collector books) + "
              "differential correspondence with the real app, full state projection compared after every call",
    design_ref="DESIGN.md §5 C13",
    text="Kernel-checked for every configuration, every finite history and every value of the external inputs: the locker lookup total "
         "equals the sum of the lockers' net balances; the locker custody account covers the totals; a withdrawal pays exactly the "
         "requested amount and a close exactly the full net balance; recorded net fees never go negative; the collector's custody "
         "covers the recorded net fees up to a shortfall bounded by the second-generation auction closes, hence fully for histories "
         "without them; every other operation moves record and custody by exactly the same amount; the savings reward is computed in "
         "the model from balance, rate, time stamps, tracker and the math.Pow value (paid >= 1 unit, <= the recorded net fees, zero for zero "
         "rate or zero time, monotone in the balance, a message whose reward the collector cannot pay is rejected as a whole); a surplus "
         "auction starts only at net fees >= threshold + lot and takes exactly the lot, a debt auction only at net fees <= threshold - lot; "
         "after an emergency shutdown or with the kill switch on, create / deposit / whitelist are rejected. The unrestricted collector-custody "
         "clause is FALSE of the code: CloseEnglishAuction (surplus and debt branch) is proved to break it on concrete witnesses which "
         "the harness replays on the real chain code first in every run.",
    note="Trusted: Lean kernel, the hand-written model as far as the correspondence run exercises it, the harness. External inputs "
         "(accrued reward, vault fee amounts) are taken from the real keepers and only assumed non-negative (checked on every line).",
)
