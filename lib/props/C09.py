from props import KERNEL_TB, HARNESS_TB, DEC_TB

PROP = dict(
    title="Liquidation is safe and live",
    lean_modules=["Comdex.Props.C09"],
    namespaces=["Comdex.C09"],
    required_theorems=["Comdex.C09.safe_never_seized", "Comdex.C09.guarded_vault_never_seized", "Comdex.C09.guards_reject",
                       "Comdex.C09.unsafe_test_is_strict",
                       "Comdex.C09.ratio_test_safe_side_exact", "Comdex.C09.borrow_ratio_test_safe_side_exact",
                       "Comdex.C09.borrow_threshold_cases", "Comdex.C09.borrow_at_or_below_threshold_is_safe",
                       "Comdex.C09.vault_safe_after_accrual_not_seized", "Comdex.C09.vault_decision_is_on_recorded_debt",
                       "Comdex.C09.borrow_decision_after_accrual",
                       "Comdex.C09.slice_in_bounds", "Comdex.C09.slice_panics_iff_counter_exceeds_list",
                       "Comdex.C09.panic_reachable_if_counter_gt_length", "Comdex.C09.pass_follows_abstract_sweep",
                       "Comdex.C09.sweep_live_partial", "Comdex.C09.two_sweeps_if_one_shift",
                       "Comdex.C09.two_sweeps_counterexample", "Comdex.C09.unsafe_processed_is_seized",
                       "Comdex.C09.v2_vault_offset_independent_of_borrow_pass", "Comdex.C09.v2_witness_seized",
                       "Comdex.C09.borrow_step_atomic", "Comdex.C09.failing_step_leaves_no_writes",
                       "Comdex.C09.flagged_borrow_is_backed", "Comdex.C09.v2_borrow_witness_atomic",
                       "Comdex.C09.seize_moves_exactly_collateral", "Comdex.C09.seize_opens_one_auction",
                       "Comdex.C09.v1_selloff_records", "Comdex.C09.v1_selloff_can_exceed_collateral_counterexample",
                       "Comdex.C09.v1_borrow_safe_never_seized", "Comdex.C09.v1_msg_borrow_ignored_emode_before_fix_counterexample",
                       "Comdex.C09.v1_borrow_seizure_effect", "Comdex.C09.auction_type_follows_whitelisting",
                       "Comdex.C09.external_liquidation_touches_no_position", "Comdex.C09.keeper_message_is_step_plus_mark",
                       "Comdex.C09.sweep_live_varbatch_partial", "Comdex.C09.zero_batch_processes_nothing"],
    harness_tests=["TestC09"],
    monitors=["safe_never_seized", "slice_bounds", "seized_within_bound", "seized_within_two_sweeps", "seized_late_after_divergence",
              "gen1_app3_offset_collision", "gen1_selloff_exceeds_collateral", "seize_exact_collateral", "one_auction", "store_order",
              "auction_type", "external_keeper_isolated", "batch_validated"],
    trusted_base=[KERNEL_TB, HARNESS_TB, DEC_TB,
                  "Model/Liquidation.lean is hand-written from x/liquidation (liquidate_vaults.go, msg_server.go, liquidate_borrow.go "
                  "offset bookkeeping, types/liquidations.go), x/liquidationsV2 (liquidate.go, offset.go, msg_server.go), "
                  "x/vault CalculateCollateralizationRatio, x/market CalcAssetPrice, x/lend CalculateCollateralizationRatio, "
                  "types/utils.go ApplyFuncIfNoError and the auction starts; tied by running the real BeginBlockers, the real "
                  "liquidate messages (router, cache context) and the pure helpers and comparing vault list, counter, offsets, "
                  "module custody, id counters, new locked vaults and new auctions after every block / message",
                  "interest accrued inside a seizure (x/rewards float arithmetic, x/lend indexes) is an external value obtained from the real "
                  "keeper at the state in which the code asks for it; everything computed from it (debt, fee, bonus, target, ratio on the "
                  "locked vault and the auction) is modelled and compared bit for bit",
                  "Go slicing beyond len but within cap reads phantom entries instead of panicking; the model uses len "
                  "(only reachable with an inconsistent counter)",
                  "generation-1 borrow liquidation is modelled end to end (LiquidateBorrows sweep body, MsgLiquidateBorrow, CreateLockedBorrow, "
                  "UpdateLockedBorrows = sellOffV1, LendDutchActivator / StartLendDutchAuction) and compared through the real BeginBlocker and the "
                  "real message; additionally the sell-off amounts through a direct keeper call on a branch. Generation-2 English auctions, "
                  "MsgLiquidateExternalKeeper, MsgAppReserveFunds and SetParams(batch) are modelled and compared through the router / parameter store",
                  "not modelled: UnLiquidateLockedBorrows / MsgCloseDutchAuctionForBorrow (auction wind-down), stable-rate rebalancing, the collector's "
                  "surplus / debt auctions"],
    assumptions=["vault ids / borrow ids are unique (they are store keys)",
                 "amounts are non-negative and below 2^63 where the code calls Int64()",
                 "every vault's product, pair and assets exist (stores are referentially consistent)",
                 "surplus/debt auctions of the collector (LiquidateForSurplusAndDebt) are not configured in the harness"],
    rule="each case is one generated population (1-3 apps, 1-3 collateral assets with 6/8/18 decimals, 1-2 debt assets, 1-3 products "
         "per app with random liquidation ratios, batch size 1-7, 3-22 vaults, optionally 2-6 lend borrows) run for 8-60 blocks on the "
         "real app with closes, creates, aimed prices of collateral OR debt (ratio at threshold +-), aimed ratios and borrow thresholds "
         "(= ratio +- 1 ulp), interest, price (de)activation, ESM / kill switch / whitelisting / auction-type toggles, batch-size changes, "
         "liquidate messages of both generations for vaults and borrows, external-keeper and reserve-funds messages between blocks, plus the "
         "replayed witnesses and the pure-helper calls; generation-1 populations carry the lend fixture too (s % 4 = 2); distinct = distinct trace text, non-trivial = at least one real call returned ok",
)

META = dict(
    technique="Lean 4 proofs over an executable model of both liquidation generations (invariants over folds, induction over block "
              "histories for the sweep offset, kernel-evaluated counterexamples) + differential correspondence with the real BeginBlockers, "
              "messages and pure helpers; decidable monitors evaluated on the real pre/post states",
    design_ref="DESIGN.md §5 C09",
    text="Kernel-checked for all states/inputs: every vault removed by either generation's block hook or liquidate message satisfies "
         "the code's strict test CR(amountIn, principal+interest+closing fee) < MinCr, safe unflagged borrows are untouched; the Dec "
         "roundings never move an exactly safe ratio to the failing side; GetSliceStartEndForLiquidations stays within [0,len] for all "
         "arguments and the slice panics exactly when the independent counter exceeds the list; a sweep hands position i to the step "
         "within i/batch blocks of its start if nothing before it is deleted, two sweeps suffice under one shift; the unrestricted "
         "two-sweeps claim is refuted (D9 schedule, replayed on the real code: known finding); the generation-2 vault offset is "
         "independent of the borrow pass and every flagged borrow is backed by a locked vault and an auction (fixes 16be2e4, c15713f); "
         "a processed unsafe position is seized under the property's enabling conditions; seizure moves exactly "
         "amountIn into auction custody and opens exactly one auction, of the type the whitelisting selects (nothing is seized when no type is "
         "enabled); generation-1 borrows: neither the sweep nor anybody's MsgLiquidateBorrow touches a borrow that is safe under the applicable "
         "(e-mode aware) threshold (one test for both paths since fix f18ae51, finding D38; the pre-fix message is refuted by a kernel-evaluated "
         "witness about an explicitly named pre-fix function), the effect of a sell-off is exactly SeizedV1 (one locked vault, one lend "
         "auction); external-keeper / reserve messages touch no position; liveness also for batch sizes "
         "changed between blocks (any positive sizes).",
    note="Liveness is partial by necessity (the stated two-sweeps bound is false of the code); the refutation is replayed on the real code on "
         "every run and reported under the monitor name seized_within_two_sweeps. Trusted: Lean kernel, hand-written model as far as the correspondence exercises it, Dec model (differentially tested).",
)
