from props import KERNEL_TB, HARNESS_TB, DEC_TB
from props.C01 import VAULT_TB, VAULT_ASSUME, EFFECTS_TB

PROP = dict(
    title="No unbacked stablecoin",
    lean_modules=["Comdex.Props.C02", "Comdex.Props.C02Effects"],
    gen=["effects"],
    namespaces=["Comdex.C02"],
    required_theorems=["Comdex.C02.supply_eq_principal", "Comdex.C02.supply_le_principal", "Comdex.C02.supply_moves_with_principal",
                       "Comdex.C02.mint_delivers_create", "Comdex.C02.mint_delivers_draw", "Comdex.C02.mint_delivers_stable",
                       "Comdex.C02.esmVault_registers_principal", "Comdex.C02.esmBurn_burns_registered",
                       # the regenerated mint / burn sites of the vault handlers are the model's (Props/C02Effects.lean, on top of C01Effects)
                       "Comdex.C02.supply_create", "Comdex.C02.supply_draw", "Comdex.C02.supply_repay", "Comdex.C02.supply_close",
                       "Comdex.C02.supply_depositAndDraw", "Comdex.C02.supply_stableCreate", "Comdex.C02.supply_stableDeposit",
                       "Comdex.C02.supply_stableWithdraw", "Comdex.C02.supply_untouched", "Comdex.C02.vault_mint_burn_sites",
                       "Comdex.C02.supply_moves_exactly", "Comdex.C02.interest_not_minted", "Comdex.C02.burn_exact_repay", "Comdex.C02.burn_exact_close",
                       "Comdex.C02.burn_exact_stableWithdraw", "Comdex.C02.liquidation_paths_never_mint", "Comdex.C02.mint_delivers_depositAndDraw",
                       "Comdex.C02.mint_delivers_stableDeposit", "Comdex.C02.supply_le_principal_reconfig"],
    harness_tests=["TestC01"],
    monitors=["supply_eq_principal", "mint_delivers", "burn_exact", "interest_not_minted"],
    trusted_base=[KERNEL_TB, HARNESS_TB, DEC_TB, VAULT_TB, EFFECTS_TB],
    assumptions=VAULT_ASSUME + ["supply minted outside the vault module (test funding) is tracked as a ghost quantity extSupply; for an asset minted only through vaults it is zero"],
    rule="same generated histories as C01 (every sequence mixes asset decimal scales 10^0..10^18 and zero / non-zero draw-down, closing and "
         "stability fees); distinct = distinct trace text, non-trivial = at least one message accepted",
)

META = dict(
    technique="Lean 4 inductive invariant (supply = recorded principal) + per-message delivery theorems + differential correspondence with the real vault message server",
    design_ref="DESIGN.md §5 C02",
    text="Kernel-checked for every history / fee configuration / decimal pair: supply of a debt denom = principal recorded on open, stable-mint "
         "and awaiting-auction vaults (+ outside funding); across any accepted message supply moves by exactly the change of recorded principal "
         "(repay/close burn exactly what they retire; interest and closing fees never mint); an accepted create/draw/stable mint credits the user "
         "with exactly the new principal less floor(principal*fee) and the collector with the fee. Tied to the code by the C01 correspondence run; "
         "supply and delivery monitors are evaluated on real balances.",
    note="The inequality supply <= principal is proved for every history incl. liquidation seizures and auction settlements (the burn at "
         "settlement is modelled); equality for histories without settlement. Emergency redemption (x/esm) is modelled: redeeming a vault moves exactly its principal to the register without touching the supply, a holder's redemption burns exactly what it takes off the register and never more than is registered (the register is compared with the chain's AssetToAmount on every state line). "
         "Trusted: Lean kernel, model faithfulness via correspondence, message atomicity.",
)
