from props import KERNEL_TB, HARNESS_TB, DEC_TB

PROP = dict(
    title="Bidders' funds are safe: standing bid held, losers refunded, own deposit only",
    lean_modules=["Comdex.Props.C11", "Comdex.Props.C11Effects"],
    gen=["effects"],
    namespaces=["Comdex.C11"],
    required_theorems=["Comdex.C11.c11_pins", "Comdex.C11.c11_table",  # golden effect skeleton (Props/C11Effects.lean)
                       "Comdex.C11.custody_holds_standing_bid", "Comdex.C11.bid_improves_by_factor",
                       "Comdex.C11.bid_factor_is_at_least_the_factor", "Comdex.C11.bid_never_worsens",
                       "Comdex.C11.debt_lots_stay_nonneg", "Comdex.C11.debt_bid_improves_counterexample",
                       "Comdex.C11.outbid_refunded_in_full", "Comdex.C11.emergency_close_refunds_bidder",
                       "Comdex.C11.bid_moves_only_the_two_bidders", "Comdex.C11.exactly_one_winner",
                       "Comdex.C11.no_close_without_a_bid", "Comdex.C11.closed_auctions_have_a_winner",
                       "Comdex.C11.user_ledger", "Comdex.C11.losers_whole",
                       "Comdex.C11.limit_withdraw_le_own_deposit", "Comdex.C11.limit_cancel_own_deposit",
                       "Comdex.C11.limit_payout_exact", "Comdex.C11.limit_cancel_exact",
                       "Comdex.C11.bidvalue_eq_sum_deposits", "Comdex.C11.bidvalue_in_custody",
                       "Comdex.C11.market_total_covered", "Comdex.C11.limit_withdraw_le_own_deposit_counterexample",
                       "Comdex.C11.fill_bidvalue_eq_sum_deposits_partial", "Comdex.C11.fill_bidvalue_exact_counterexample",
                       "Comdex.C11.fill_bidvalue_in_custody", "Comdex.C11.fill_deposits_covered",
                       "Comdex.C11.fill_touches_only_the_bucket", "Comdex.C11.fill_withdraw_le_own_deposit",
                       "Comdex.C11.fill_overcharge_counterexample"],
    harness_tests=["TestC11", "TestC11Fill"],
    trusted_base=[KERNEL_TB, HARNESS_TB, DEC_TB,
                  "extract/effects (go/ast, no type checking): ordered bank calls of the English-auction and limit-bid entry points of x/auctionsV2 and the surplus / debt auction entry points of x/auction (10 functions) with path conditions, texts normalised; PINNED in "
                  "Props/C11Effects.lean against a reviewed literal (abstract party / denomination texts, positivity class, condition hashes) — "
                  "golden skeleton, not derived from the model (its bank calls are not data); amounts not compared",
                  "Model/English.lean is hand-written from x/auction/keeper/surplus.go:147-349, debt.go:144-349, "
                  "x/auctionsV2/keeper/bid.go:321-403, auctions.go:222-233,337-485 and Model/LimitBid.lean from "
                  "x/auctionsV2/keeper/bid.go:496-675, types/tx.go:20-152, types/keys.go:78-80; both are tied by running the real "
                  "message handlers (ValidateBasic + MsgServiceRouter handler on a cache written back on success) and the real "
                  "BeginBlockers on a real app and comparing, after every message and block, the accept/reject outcome, every tracked "
                  "balance, every live auction record, every limit-bid record and every BidValue total",
                  "x/bank for plain and module accounts (no vesting, no blocklist) is represented by an association list with "
                  "send/mint/burn; tokenmint's burn/mint bookkeeping is outside the model (the harness gives it ample supply)",
                  "Model/LimitFill.lean is hand-written from x/auctionsV2/keeper/auctions.go:535-605 (LimitOrderBid) and bid.go:496-683 on top of "
                  "Model/DutchV2.lean; tied by TestC11Fill: positions seized by the real liquidationsV2 keeper, then generated deposits / "
                  "withdrawals / cancels / market bids / reserve top-ups and REAL begin-blocks of x/auctionsV2 (several bidders at one "
                  "premium, all three branches of the fill, fills that close the auction, cancel / withdraw right after a fill, emergency "
                  "shutdown), comparing auction record, fifteen balances, fee and reserve records, every limit-bid record and BidValue "
                  "after every line",
                  "protobuf (de)serialisation and the KV store are exercised, not modelled"],
    assumptions=["user messages are never signed by a module account (UsersOnly): the custody account has no key",
                 "the asset registry (asset id -> denomination) and the fee / bid-factor parameters are fixed over a history",
                 "the automatic fill of limit bids by a Dutch auction is covered by the JOINT model Model/LimitFill.lean (one market, one "
                 "Dutch auction of that pair, the shared module account; theorems fill_*; harness TestC11Fill through the real "
                 "begin-blocker); Model/LimitBid.lean covers deposit / partial withdraw / cancel over several markets and their "
                 "interleaving with English auctions in the same module account; two auctions of one pair filling from one book in the "
                 "same block are not modelled",
                 "bidders' address strings are distinct; their order (the store's iteration order inside one premium) is static data of a run",
                 "what MsgPlaceDebtBid.ValidateBasic demands of the bid amount (nothing / non-negative / positive) is read off the real "
                 "ValidateBasic by the harness and passed to the model (debtFloor); on the tree as found negative debt bids are "
                 "accepted and the monitor bid_monotone fires (see notes/C11.md)",
                 "WithdrawLimitAuctionBid is modelled with the repaired guard (amount <= own deposit, deposited denomination); on "
                 "the unrepaired tree the check reports the divergence and the monitors fire (defect D5)"],
    rule="each case is one generated sequence on the real app (fresh state branch): 0-3 real surplus/debt auctions of x/auction or "
         "x/auctionsV2 started by the real activators, 2-5 bidders with random funds, 10-40 (thorough 10-120) messages with "
         "boundary-directed amounts (threshold-1/threshold/threshold+1, equal, zero, negative, above balance), wrong denominations, "
         "wrong ids, limit-bid deposit/withdraw/cancel with amounts around the own deposit and the market total, and blocks whose "
         "time steps straddle the bid and auction windows, emergency-shutdown flips in 15 % of the sequences; distinct = distinct trace text, non-trivial = at least one message accepted",
)

META = dict(
    technique="Lean 4 invariant proofs over all op histories (custody = standing bids, user ledger, BidValue = sum of deposits, custody "
              "covers deposits) + differential correspondence with the real auction and auctionsV2 keepers",
    design_ref="DESIGN.md §5 C11",
    text="Kernel-checked for every finite history of auction starts, bids by any number of bidders with any amounts and denominations, "
         "block times and hook decisions: the auction module account holds exactly its initial balance plus the standing bids (plus the "
         "lot of first-generation surplus auctions); an accepted bid improves on the standing one by ceil(factor*standing) exactly as the "
         "code rounds it (mirrored for debt auctions); the outbid bidder's balance grows by exactly its stake in the same step and no third "
         "account moves; at close exactly the standing bidder receives exactly the lot (under emergency shutdown the standing bidder is "
         "refunded exactly its stake instead); every user who holds no standing bid and won nothing has exactly its initial balance. For limit bids: an accepted withdraw/cancel is covered by the caller's own record, paid in the "
         "deposited denomination, amount minus the fee as computed by the code, other records untouched; BidValue of every market equals the "
         "sum of its deposits; custody = initial + standing English bids + all deposits + retained fees. The models are tied to the code by "
         "replaying generated message/block sequences on the real app and comparing outcome, balances and records after every step; the "
         "property's decidable forms are evaluated on the real states.",
    note="Trusted: Lean kernel (propext, Classical.choice, Quot.sound only), the hand-written models as far as the correspondence run "
         "exercises them, Base/Dec as a model of LegacyDec. Limit bids auto-filled by a Dutch auction: joint model, for EVERY history "
         "(several bidders at one premium, fills clipped by exhausted collateral, shutdown): BidValue = sum of records + deposits consumed "
         "by exact fills (the code forgets to reduce BidValue there: finding D40), custody = initial + records + fees + named remainders "
         "(over: D24, paid beyond target: D7) - skipped reserve draws (D23) - TriggerEsm payouts (D39). "
         "WithdrawLimitAuctionBid is modelled with the repaired guard (D5).",
)
