from props import KERNEL_TB, HARNESS_TB

PROP = dict(
    title="Block hooks never halt the chain and never leave half-applied steps",
    lean_modules=["Comdex.Props.C15"],
    namespaces=["Comdex.C15"],
    gen=["hooks"],
    required_theorems=["Comdex.C15.wrapped_unit_atomic", "Comdex.C15.good_shape_is_applyIfNoError", "Comdex.C15.source_wrapper_is_good",
                       "Comdex.C15.source_wrapper_atomic", "Comdex.C15.remaining_units_run", "Comdex.C15.failing_unit_skipped",
                       "Comdex.C15.fault_point_irrelevant", "Comdex.C15.blocker_total", "Comdex.C15.blocker_all_started",
                       "Comdex.C15.slice_in_bounds", "Comdex.C15.slice_wrap_counterexample", "Comdex.C15.sweep_total_if_counter_le_cap", "Comdex.C15.borrow_sweep_total",
                       "Comdex.C15.d3_counterexample", "Comdex.C15.d3_panics_when_counter_exceeds_cap",
                       "Comdex.C15.unwrapped_loop_leaks_counterexample", "Comdex.C15.unwrapped_calls_reviewed",
                       "Comdex.C15.units_of_work_wrapped", "Comdex.C15.wrapped_units_propagate_errors",
                       "Comdex.C15.wrapper_sites_and_their_loops", "Comdex.C15.per_item_loop_processes_ok_items",
                       "Comdex.C15.blocker_splits_per_item", "Comdex.C15.one_wrapper_all_or_nothing", "Comdex.C15.one_wrapper_for_all_counterexample",
                       "Comdex.C15.kickoff_leaks_counterexample", "Comdex.C15.kickoff_repeats", "Comdex.C15.kickoff_wrapped_is_atomic",
                       "Comdex.C15.units_use_their_cache_context", "Comdex.C15.per_item_units_can_report_failure", "Comdex.C15.sweep_bounds_read_with_list", "Comdex.C15.table_pins"],
    harness_tests=["TestC15"],
    trusted_base=[KERNEL_TB, HARNESS_TB,
                  "extract/hooks (go/ast, syntactic, no type information): its expansion policy (host functions and unwrapped "
                  "non-accessor keeper calls are expanded three levels, everything else is a leaf) and its reading of "
                  "types/utils.go as five booleans; the table is regenerated from the working tree on every run and pinned",
                  "the reviewed totality lists written out in Props/C15.lean (store accessors, pure helpers, expanded calls, "
                  "operators) are a human review; the entries under reviewedUnproved are read and exercised, not proved",
                  "Model/Hooks.lean is hand-written from types/utils.go:241-264 and the sweep preludes; tied to the code by the "
                  "fault-injection runs (a Go panic escaping / what a real store write does is exhibited there, not proved)",
                  "store accesses are identified by the flat gas charges of cosmos-sdk gaskv (ReadFlat, WriteFlat, Has, Delete, "
                  "IterNextFlat); unit boundaries by CacheMultiStore()/Write() on a wrapping MultiStore plus a call-stack check"],
    assumptions=["a begin/end blocker runs with an infinite gas meter on chain, so faults are injected only inside wrapped units",
                 "reachable states are those the harness builds from governance configuration, user messages through the message "
                 "router, oracle prices and real blocker runs; the environment faults of the property statement are prepared on them",
                 "KV stores hold what the keepers' setters wrote (MustUnmarshal of a stored record does not panic)"],
    rule="each case is one (scenario state, real blocker) pair: a baseline run plus one fault run per selected store access of every "
         "wrapped unit (quick: first, last and strided accesses; thorough: every access), or one environment-fault run; "
         "distinct = distinct trace text of the case, non-trivial = the blocker returned; per-app cases (hooks.items.single): one real "
         "liquidity blocker run with a fault in app k (natural poison or the j-th store access of app k's work), judged against the "
         "real one-app runs; kick-off cases (hooks.kick.single): one (block, auction-mapping entry) of the real liquidationsV2.BeginBlocker",
)

META = dict(
    technique="Lean 4 proof of the ApplyFuncIfNoError wrapper logic and of table obligations over a regenerated go/ast fact table "
              "(which calls of every Begin/EndBlocker sit inside a wrapper) + fault-injection correspondence on the real blockers "
              "(crash-point enumeration with a counting GasMeter and a MultiStore wrapper; environment faults prepared in state)",
    design_ref="DESIGN.md §5 C15, §3.3",
    text="Kernel-checked: a failing wrapped unit leaves the state unchanged, the loop continues and the crash point is irrelevant; a "
         "blocker whose unwrapped parts are total returns; the wrapper in types/utils.go has the shape the model assumes "
         "(regenerated facts); every call or panicking operator that the 12 Begin/EndBlockers of the 10 DeFi modules reach outside "
         "a wrapper is on a reviewed list (with slice-bound theorems for the sweeps) or on one of two defect lists. Partial: the "
         "run-time part (what a Go panic and a store write do) is exhibited by injecting a fault at store accesses of every wrapped "
         "unit of the real blockers and comparing full state dumps; part of the review list is unproved.",
    note="Found with this check and since repaired in /repo: D3 (vault counter incremented twice by an ESM-closed first-generation "
         "auction; the second-generation liquidation BeginBlocker then panicked with a slice bound out of range in every block; e29235a) "
         "and D6 (second-generation borrow liquidations ran unwrapped; c15713f). The table also demands that every error produced inside a "
         "wrapped closure is returned (wrapped_units_propagate_errors) and the harness produces error-returning late failures per unit "
         "(natural failures, per-item step oracle); monitors no_panic, unit_atomic, remaining_run. The table records for every wrapper "
         "site the loop it sits in and the loops inside its closure (units_of_work_wrapped, wrapper_sites_and_their_loops) and multi-app "
         "liquidity worlds check per-app granularity against the real one-app runs (seed s99). OPEN finding D-C15-1: the surplus kick-off "
         "of liquidationsV2.BeginBlocker runs unwrapped, moves the lot out of the collector before it knows an English auction can start "
         "and returns at the first failing entry (monitors kickoff_atomic, kickoff_remaining; known_findings.d/C15.json; patch in notes/C15.md).",
)
