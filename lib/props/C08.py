from props import KERNEL_TB, HARNESS_TB, DEC_TB

PROP = dict(
    title="Lending books balance and borrowing is bounded by loan-to-value",
    lean_modules=["Comdex.Props.C08", "Comdex.Props.C08Effects"],
    gen=["effects"],
    namespaces=["Comdex.C08"],
    required_theorems=["Comdex.C08.lend_pins", "Comdex.C08.lend_table",  # golden effect skeleton of the 14 messages (Props/C08Effects.lean)
                       "Comdex.C08.totalLend_eq", "Comdex.C08.totalLend_eq_partial", "Comdex.C08.totalLend_handover_counterexample",
                       "Comdex.C08.totalBorrowed_eq", "Comdex.C08.totalStable_eq",
                       "Comdex.C08.borrow_respects_ltv", "Comdex.C08.draw_respects_ltv", "Comdex.C08.borrow_msg_cases",
                       "Comdex.C08.ltv_exact", "Comdex.C08.borrow_accepted_ltv_exact", "Comdex.C08.draw_accepted_ltv_exact",
                       "Comdex.C08.ltv_exact_tight", "Comdex.C08.interpool_borrow_respects_transit_ltv", "Comdex.C08.interpool_borrow_ltv_exact",
                       "Comdex.C08.borrow_respects_ltv_pledged",
                       "Comdex.C08.borrow_requires_pool_funds", "Comdex.C08.draw_requires_pool_funds",
                       "Comdex.C08.withdraw_never_releases_pledged", "Comdex.C08.closeLend_never_releases_pledged",
                       "Comdex.C08.repay_split", "Comdex.C08.closeBorrow_split",
                       "Comdex.C08.accrual_split", "Comdex.C08.accrual_zero_elapsed", "Comdex.C08.reward_tracker_conserved", "Comdex.C08.reward_source",
                       "Comdex.C08.rejected_no_change", "Comdex.C08.killswitch_rejects_lend_ops", "Comdex.C08.killswitch_rejects_borrow_ops",
                       "Comdex.C08.guards_reject_new_positions", "Comdex.C08.guards_reject_borrow", "Comdex.C08.depreciation_rejects",
                       # depth round 2: id lists, life after the hand-over
                       "Comdex.C08.ids_consistent", "Comdex.C08.id_lists_ascending", "Comdex.C08.delId_binary_search", "Comdex.C08.delId_needs_ascending",
                       "Comdex.C08.lend_listed_exactly", "Comdex.C08.borrow_listed_exactly", "Comdex.C08.no_dangling_ids",
                       "Comdex.C08.auctionClose_books", "Comdex.C08.auctionBid_books", "Comdex.C08.auctionClose_needs_lend",
                       "Comdex.C08.auctionClose_stuck_counterexample",
                       "Comdex.C08.reserve_ledger", "Comdex.C08.reserve_halves_step", "Comdex.C08.reserve_halves_drift_counterexample",
                       "Comdex.C08.reserve_ledger_poolsweep_counterexample", "Comdex.C08.beginBlock_dead_after_deletion",
                       "Comdex.C08.beginBlock_keeps_pending",
                       "Comdex.C08.books_across_migration", "Comdex.C08.reserve_ledger_across_migration", "Comdex.C08.migration_switches_off",
                       "Comdex.C08.migration_leak_counterexample"],
    # laws of the extended model that are not clauses of C08 (reserve book-keeping records, flags rewritten by the store
    # migration): reported in the evidence, never a verdict; observations D36 / D37 in notes/C08.md and DESIGN.md §7
    informational_monitors=["reserve_ledger", "reserve_ledger_poolsweep", "reserve_halves", "migration_leak"],
    harness_tests=["TestC08"],
    monitors=["total_lend", "total_lend_orphaned", "total_borrowed", "total_stable", "ltv", "ltv_exact", "pool_funds", "pledged_safe",
              "ids_consistent", "reserve_ledger", "reserve_ledger_poolsweep", "reserve_halves", "migration_leak"],
    trusted_base=[KERNEL_TB, HARNESS_TB, DEC_TB,
                  "extract/effects (go/ast, no type checking): ordered bank calls of the fourteen lend messages with path conditions, texts "
                  "normalised; PINNED in Props/C08Effects.lean against a reviewed literal by party / denomination role (13 + 13 abstract texts), "
                  "positivity class and condition hashes — golden skeleton, not derived from Model/Lend.lean (its bank calls are not data); "
                  "amounts not compared",
                  "Model/Lend.lean is hand-written from x/lend/keeper/{keeper,funds,rates,iter}.go and x/liquidationsV2/keeper/liquidate.go:360-404; "
                  "tied by delivering generated messages to the real app (ValidateBasic + MsgServiceRouter handler on a cache context) and comparing "
                  "outcome, every lend / borrow record, every pool-asset total and every tracked balance after every message",
                  "external inputs printed by the harness from the real keeper: the RATES each accrual uses (borrow APR, reserve rate, lend APR; "
                  "and the creation-time indices / stable rate of a new position, which are rates too) — their laws are property C18. The "
                  "AMOUNTS (interest, reserve share, whole-token reward), the global indices, interaction times and the reward tracker are "
                  "recomputed by Model/LendAccrual.lean (index arithmetic of C18's Model/LendRates.lean) and compared bit for bit with the "
                  "real records after every message; the ledger theorems still quantify over all amounts",
                  "bank module (x/bank), protobuf (de)serialisation and the KV store are exercised, not modelled; the model's bank is an association list",
                  "the liquidation DECISION (which borrow is handed over, C09) and the auction-side arithmetic of a bid (C10) are not modelled: the "
                  "amounts a bid moves between bidder, auction module, owner and app reserve are inputs of the ops bid / auctionClose; the lend side of "
                  "the hand-over (UpdateLockedBorrows) and of the close (MsgCloseDutchAuctionForBorrow) is modelled exactly and compared",
                  "the first generation (x/liquidation LiquidateBorrows / CreteNewBorrow, x/auction dutch_lend.go) is not modelled"],
    assumptions=[
                 "ESM kill switch and pool depreciation are modelled as state and guards (toggled by the harness); their governance paths are not",
                 "amounts below 2^63 and Dec values below the 315-bit overflow limit (harness amounts are below 10^14)",
                 "static configuration (assets, rates params, pools, pairs) over a history; oracle prices may change between messages",
                 "denominations are in one-to-one correspondence with asset ids"],
    rule="each case is one generated history (24 quick / 300 thorough, 45-160 messages each, plus eleven fixed histories: defect witnesses and directed coverage of the auction "
         "close, e-mode, isolated collateral, the second transit asset, the block hook and the store migration) on a fresh "
         "app: 4 users, 2 pools x 3 assets, 18 pairs (same-pool, cross-pool via transit assets, one e-mode pair, optional isolated / "
         "stable-rate collateral, optional tight supply cap), time gaps of seconds to a year, price moves, V2 liquidations (keeper call, keeper message, "
         "real sweep), real bids on the resulting Dutch auctions (partial fills, closing bids), the store migration in every fourth history; amounts solved "
         "for equality of every comparison (availableToBorrow, AmountIn, pool balance, LTV, bridged LTV, repayment branches) and their "
         "neighbours; 18 % malformed messages (wrong owner / denom / app / pool / ids, zero and negative amounts, above-limit amounts); "
         "distinct = distinct trace text, non-trivial = at least one message accepted",
)

META = dict(
    technique="Lean 4 inductive invariants over all op lists (keyed-store sums) + decision-form guard theorems + differential correspondence "
              "with the real lend keeper and V2 liquidation hand-over",
    design_ref="DESIGN.md §5 C08",
    text="Kernel-checked over the executable model of x/lend: for every configuration, genesis bank, prices, external interest/reward amounts "
         "and every history of user messages the published total lent equals the sum over lend positions of availableToBorrow plus collateral "
         "pledged to borrows not handed over to liquidation; total borrowed / stable borrowed equal the principal sums (hand-overs included); "
         "an accepted borrow or draw has Dec ratio <= LTV (with an exact-rational corollary) and is covered by the pool's balance; withdraw / "
         "close never exceed availableToBorrow and never change a borrow record; the LTV decision is also stated exactly over the integers with "
         "half an ulp of slack per rounding (ExactLtv, scales, tight witness, cross-pool bridged chain); every repayment splits into reserve "
         "share + lender share + principal + at most one token of dust; the accrual bookkeeping (amounts from rates, indices, reward tracker) is "
         "in the model and loses nothing; kill switch / depreciated pool reject every guarded message without change. One defect of the real code is reproduced and carried as a "
         "kernel-checked counterexample and known finding D19: a liquidation hand-over deletes a lend position that still has availableToBorrow "
         "(total lent no longer matches). Depth round 2: histories go on through partial fills and the closing bid of the second-generation auction "
         "(the borrow disappears, the lend stays debited, identities hold throughout); the LendIds / BorrowIds lists of every pool-asset record are exactly "
         "the ids of its live positions, ascending (binary-search removal proved exact); the reserve module balance equals genesis plus recorded inflows "
         "minus recorded outflows for every asset over all histories without block-hook runs; the store migration 2->3 keeps all books. Findings D36 (block "
         "hook sweeps pool funds into the reserve unrecorded and is dead afterwards) and D37 (migration leaks flags between records) are carried as "
         "counterexamples and known findings. A second one (BorrowAsset accepted a pair registered for another asset of the pool, valuing the pledged "
         "cTokens at the wrong price) was found by this check and is repaired in the tree; the model carries the guard and a regression example.",
    note="Trusted: Lean kernel, the Dec model (differentially tested), the hand-written model as far as the correspondence run exercises it. "
         "Rates are inputs; the liquidation decision, the auction-side amounts of a bid and the first generation are outside the model.",
)
