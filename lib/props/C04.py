from props import KERNEL_TB, HARNESS_TB

PROP = dict(
    title="Liquidity custody: escrows, reserves and farmed pool coins are fully backed",
    lean_modules=["Comdex.Props.C04"],
    namespaces=["Comdex.C04"],
    required_theorems=["Comdex.C04.escrow_ge_requests", "Comdex.C04.escrow_eq_requests", "Comdex.C04.pair_escrow_exact",
                       "Comdex.C04.pair_escrow_ge_orders", "Comdex.C04.pair_escrow_ge_orders_offset", "Comdex.C04.pair_escrow_ge_orders_modelled",
                       "Comdex.C04.modelled_match_quote_exact", "Comdex.C04.modelled_match_base_offset", "Comdex.C04.modelled_match_deficit",
                       "Comdex.C04.d2_offset_witness", "Comdex.C04.pair_escrow_ge_orders_counterexample",
                       "Comdex.C04.coins_conserved", "Comdex.C04.bank_keys_unique", "Comdex.C04.batch_conserves_coins",
                       "Comdex.C04.batch_dust_exact", "Comdex.C04.batch_reserve_exact", "Comdex.C04.batch_fee_collector_exact", "Comdex.C04.farm_custody_exact", "Comdex.C04.unfarm_newest_first", "Comdex.C04.maturation_exact",
                       "Comdex.C04.no_mature_entry_after_batch", "Comdex.C04.deposit_refunded_if_pool_disabled",
                       "Comdex.C04.withdraw_refunded_if_pool_disabled", "Comdex.C04.zero_supply_disabled",
                       "Comdex.C04.poolcoin_supply_only_by_pool_ops", "Comdex.C04.poolcoin_supply_exact",
                       "Comdex.C04.poolcoin_supply_fixed_without_executed_request", "Comdex.C04.poolcoin_supply_create_and_prune"],
    harness_tests=["TestC04"],
    trusted_base=[KERNEL_TB, HARNESS_TB,
                  "Model/LiqLedger.lean is hand-written from x/liquidity/keeper/{pool,swap,batch,rewards,pair}.go and abci.go; tied by "
                  "replaying every generated message / block hook on the real app (ValidateBasic + MsgServiceRouter handler on a "
                  "CacheContext, real BeginBlocker / EndBlocker) and comparing ok / not-ok and the full projection (all requests, "
                  "orders, MM indexes, farmers, pools, pairs, every tracked balance) after every message and block",
                  "results of the matching engine (per-order fills, per-pool flows, dust, match price), of amm.Deposit / amm.Withdraw / "
                  "amm.Create*Pool, the asset white-list of MsgCreatePair and the coin-denom checks of deposit / withdraw / farm "
                  "messages are observed inputs of the model (the theorems quantify over them); the matching engine is the subject of "
                  "C05, the pool maths of C06.  The price limits, tick fitting, MMOrderTicks and denom checks of limit / market / MM "
                  "orders are computed by the model from the message (round 5)",
                  "the store migration 1->2 is run by the harness on a store it re-encodes in the legacy/v1 layout (only from states "
                  "without MM orders / ranged pools, which that layout cannot hold)",
                  "x/bank SendCoins / InputOutputCoins, protobuf (de)serialisation and the KV store are exercised, not modelled; no "
                  "vesting accounts, no unsolicited MsgSend to module-owned addresses (app.go builds the bank keeper without blocked "
                  "addresses, so a plain MsgSend of pool coins to the liquidity module account would make custody exceed the records)"],
    assumptions=["per-app generic params are fixed over a history; MinInitialPoolCoinSupply > 0 (validateMinInitialPoolCoinSupply)",
                 "pair_escrow_ge_orders_offset has no premise (explicit offset lostOf); pair_escrow_ge_orders_modelled is for match "
                 "results that are lossless runs of C05's modelled matcher with non-negative quoteCoinDiff (conservation proved via "
                 "Lemmas/LiqAmmBridge.lean from C05's matchBook_account); pair_escrow_ge_orders keeps the MatchConserving form; the "
                 "real fills are compared with the ledger, C05's own harness ties its matcher model to the real matcher",
                 "the swap-fee conversion hook of BeginBlocker (every 150th block) is not exercised: heights stay below 150",
                 "block times are whole seconds"],
    rule="each case is one generated history on a fresh app (apps 1-3 with different fee rates / batch sizes, 1-4 pairs per app, basic "
         "and ranged pools, 5 accounts, 45-110 blocks of 0-6 messages, times advancing from seconds to more than a day), preceded by "
         "the D4 witness; distinct = distinct trace text, non-trivial = at least one message succeeded",
)

META = dict(
    technique="Lean 4 inductive invariant over all operation lists of a ledger model of x/liquidity (bank + requests + orders + MM index "
              "+ farmers + pools) + differential correspondence with the real app through the message router and the real block hooks",
    design_ref="DESIGN.md §5 C04",
    text="Kernel-checked for every finite history of liquidity messages and block hooks from any genesis: the global escrow holds "
         "exactly the coins of pending deposit / withdrawal requests; each pair escrow holds exactly the remaining offer coins and fee "
         "reserves of its live orders plus the net of what matching took in and handed out, hence at least the remaining offer coins "
         "up to an explicit offset (what the pair's match results handed out beyond what they took in; 0 for lossless runs of "
         "C05's modelled matcher, exactly the dropped remainder for D2); no ordinary coin is minted or burnt by any message or "
         "hook, the dust collector and pool reserves move by exactly the named amounts in a batch; the module "
         "account holds exactly the farmed pool coins (queued + active); zero supply implies disabled; the recorded pool-coin supply "
         "is changed only by pool creation, the app's batch execution and deposit-and-farm / unfarm-and-withdraw on that pool, and in "
         "every step by exactly the pool coins minted / burnt by the requests of that pool that newly succeeded; the swap-fee collector "
         "of every pair moves by exactly the fee on the executed portions of the orders that ended in the step; the store migration "
         "1->2 keeps the invariant; "
         "unfarm takes from the newest queue entries first, maturation moves exactly the mature entries, requests executed "
         "against a disabled pool are refunded in full. The "
         "model is tied to the code by replaying generated histories on the real app and comparing outcome and full state after "
         "every message and block; the monitors and the repository's own AllInvariants are evaluated on the real state.",
    note="Trusted: Lean kernel, the model's faithfulness as far as the correspondence run exercises it, fixed params. Matching and "
         "pool-maths results are observed inputs. pair_escrow_ge_orders is relative to the matcher's conservation law (C05).",
)
