HOOKS = {
    "guard": "verif",
    "enable": "go test -c -tags verif in /verif/harness (module verifharness with `replace github.com/comdex-official/comdex => /repo`); "
              "all harness code lives in /verif/harness, no hook is committed to /repo",
    "baseline_off_cmd": "cd /repo && go test -mod=mod -vet=off -count=1 -timeout 25m ./...",
    "source_commits": [],
    "add_only": True,
}
NOTES = ("Technique family: machine-checked proof in Lean 4. Each check = kernel-checked theorems about a hand-written executable "
         "model + a correspondence run of the same model against the real Go code on every run (see DESIGN.md). "
         "fix: commits in /repo and recorded findings are listed in known_findings.json.")
NOT_APPLICABLE = {}
META = {
    "C17": dict(
        technique="Lean 4 refinement proof (ring buffer refines sliding-window spec, induction over op lists) + differential correspondence with the real market keeper",
        design_ref="DESIGN.md §5 C17",
        text="Kernel-checked: for every window size N>=1, accepted gap and finite op list from the empty store the model of "
             "UpdatePriceList never panics/indexes out of range, refines a sliding-window specification (window = last N positive "
             "samples since the last reset), publishes exactly floor(sum/N) when active, activates only after N positive samples, "
             "a zero sample deactivates, inactive valuation is refused. The model is tied to the code by replaying generated sample "
             "sequences on the real keeper and comparing every stored record field by field.",
        note="Trusted: Lean kernel (axioms propext, Quot.sound only), the hand-written model's faithfulness as far as the "
             "correspondence run exercises it, heights>0, fixed N. The band-oracle feed is represented by per-record effects.",
    ),
}
