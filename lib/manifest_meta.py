HOOKS = {
    "guard": "verif",
    "enable": "go test -c -tags verif in /verif/harness (module verifharness with `replace github.com/comdex-official/comdex => /repo`); "
              "all harness code lives in /verif/harness, no hook is committed to /repo",
    "baseline_off_cmd": "cd /repo && go test -mod=mod -vet=off -count=1 -timeout 25m ./...",
    "source_commits": [],
    "add_only": True,
}
NOTES = ("Technique family: machine-checked proof in Lean 4. Each check = kernel-checked theorems about a hand-written executable "
         "model + a correspondence run of the same model against the real Go code on every run (see DESIGN.md). "
         "fix: commits in /repo and recorded findings are listed in known_findings.json.")
NOT_APPLICABLE = {}

# properties whose check exists but is being adapted right now (not claimed in MANIFEST until it is green again)
PENDING = {}
