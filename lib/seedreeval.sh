#!/bin/bash
# usage: seedreeval.sh <seed-dir-name> <check ids...>  — re-runs checks against the seeded tree after a strengthening;
# writes seeded/<name>/check_<id>.after.log (the first evaluation's logs are kept)
NAME=$1; shift
S=/var/tmp/seedreeval-$NAME
rm -rf $S; git clone -q /repo $S || exit 2
(cd $S && git apply /verif/seeded/$NAME/patch.diff) || { echo "patch does not apply"; exit 2; }
cd /verif
for c in "$@"; do
  VERIF_REPO=$S ./check $c > seeded/$NAME/check_$c.after.log 2>&1; echo "exit=$?" >> seeded/$NAME/check_$c.after.log
  echo "$NAME $c: $(tail -1 seeded/$NAME/check_$c.after.log) $(grep -E '^VIOLATION' seeded/$NAME/check_$c.after.log | head -3 | cut -c1-150 | tr '\n' ' ')"
done
rm -rf $S; rm -f /verif/.cache/harness-*.test
