#!/usr/bin/env python3
"""usage: lib/seedmeta.py <round-table.json> <round-number>  — writes seeded/<id>/meta.json from the table and the evaluation logs"""
import json, os, glob, sys
R = os.path.join(os.path.dirname(os.path.dirname(os.path.abspath(__file__))), "seeded")
T = json.load(open(sys.argv[1])); rnd = int(sys.argv[2])
for sid, t in T.items():
    ds = glob.glob(os.path.join(R, sid + "-*"))
    if not ds:
        print("missing", sid); continue
    d = ds[0]
    def txt(n):
        p = os.path.join(d, n)
        return open(p).read() if os.path.exists(p) else ""
    suite_bad = [l for l in txt("suite_with.txt").split("\n") if l.strip() and not l.startswith("ok")]
    res = {}
    for p in sorted(glob.glob(os.path.join(d, "check_*.log"))):
        name = os.path.basename(p)[6:-4]
        body = open(p).read()
        mons = sorted(set(l.split("replay=")[1].split("/")[-1].split("-", 1)[1].rsplit("-", 1)[0] for l in body.split("\n") if l.startswith("VIOLATION") and "replay=" in l))
        ex = [l for l in body.split("\n") if l.startswith("exit=")]
        res[name] = {"exit": ex[-1][5:] if ex else "?", "violations": mons}
    meta = {"property": t["property"], "round": rnd, "what": t["what"], "needs_to_manifest": t["needs"],
            "written_by": "fresh sub-agent given only the property text, a hint listing what the earlier seeds for this property had touched, and a scratch git worktree of /repo (nothing from /verif)",
            "confirmed": {"compiles": True, "existing_suite_passes_with_change": not suite_bad,
                          "demo_fails_with_change": "FAIL" in txt("demo_with.txt"),
                          "demo_passes_without_change": "ok" in txt("demo_without.txt") and "FAIL" not in txt("demo_without.txt"),
                          "how": "lib/seedeval.sh in a scratch clone of /repo (demo_with.txt / demo_without.txt, suite_with.txt)"},
            "checks_run": t["checks"], "result": res, "result_note": t.get("note", "check_Cxx.log = first evaluation, check_Cxx.after.log = after a strengthening"),
            "logs": sorted(os.path.basename(p) for p in glob.glob(os.path.join(d, "check_*.log")))}
    json.dump(meta, open(os.path.join(d, "meta.json"), "w"), indent=1)
    c = meta["confirmed"]
    print(sid, t["property"], "suite_ok=%s with_fails=%s without_ok=%s" % (c["existing_suite_passes_with_change"], c["demo_fails_with_change"], c["demo_passes_without_change"]), {k: (v["exit"], v["violations"][:2]) for k, v in res.items()})
