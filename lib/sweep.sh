#!/bin/bash
# usage: lib/sweep.sh <tier> <seed> [ids…]   — runs the checks one after the other, prints one line per check
TIER=${1:-quick}; SEED=${2:-1}; shift 2
IDS=${@:-$(python3 -c "import json;print(' '.join(c['property_id'] for c in json.load(open('MANIFEST.json'))['checks']))")}
./check --setup > /dev/null 2>&1
for c in $IDS; do
  s=$(date +%s); out=$(./check $c --tier $TIER --seed $SEED 2>&1); rc=$?; e=$(date +%s)
  echo "$c tier=$TIER seed=$SEED rc=$rc $((e-s))s :: $(echo "$out" | grep -E "^C[0-9]+:" | cut -c1-160)"
  echo "$out" | grep -E "^VIOLATION" | cut -c1-200
done
