import re,subprocess,sys
root='/var/tmp/wk/EFFECTS/lean'
p=root+'/Comdex/Props/C08Effects.lean'
s=open(p).read()
# build a temp copy of the props file without the theorems (so that it compiles) and run the generator against it
tmp=s
i=tmp.index('/-- **Golden skeleton of the fourteen lend messages**')
j=tmp.index('/-! ## non-vacuity -/')
stub=tmp[:i]+'end Comdex.C08\n'
open('/var/tmp/EFFECTS/scratch/C08stub.lean','w').write(stub.replace('namespace Comdex.C08','namespace Comdex.C08'))
gen=open('/var/tmp/wk/EFFECTS/notes/effects-regen/pins_c08.lean').read().replace('import Comdex.Props.C08Effects','')
gen=gen.split('#eval (lendPairs')[0]
open('/var/tmp/EFFECTS/scratch/regen08.lean','w').write(stub.replace('end Comdex.C08\n','')+gen.replace('open Comdex.Effects Comdex.Gen.Effects Comdex.C08','')+'\nend Comdex.C08\n')
out=subprocess.run(['lake','env','lean','/var/tmp/EFFECTS/scratch/regen08.lean'],cwd=root,capture_output=True,text=True).stdout
exp=out.split('=====EXP\n')[1].split('=====LEGEND\n')[0].strip()+'\n'
leg=out.split('=====LEGEND\n')[1].strip().replace('-/','- /')
a=s.index('/-! ## the reviewed literals -/')
b=s.index('/-- the pairs (regenerated, reviewed) -/')
s=s[:a]+'/-! ## the reviewed literals -/\n\n'+exp+'\n'+s[b:]
a=s.index('| h | kind | text |\n|---|---|---|\n')+len('| h | kind | text |\n|---|---|---|\n')
b=s.index('-/\nnamespace Comdex.C08')
s=s[:a]+leg+'\n'+s[b:]
open(p,'w').write(s)
