import Comdex.Model.Effects
import Comdex.Gen.Effects
open Comdex.Effects Comdex.Gen.Effects
def fb (b : Bool) : String := if b then "true" else "false"
def fq (s : String) : String := "\"" ++ (s.replace "\\" "\\\\").replace "\"" "\\\"" ++ "\""
def fc (l : List (Bool × Nat)) : String := "[" ++ ", ".intercalate (l.map fun p => s!"({fb p.1}, {p.2})") ++ "]"
def fp (p : APin) : String := s!"⟨{fq p.op}, {fq p.src}, {fq p.dst}, {fq p.denom}, {fb p.pos}, {fc p.conds}, {fb p.loop}, {fb p.cache}⟩"
def fh (h : Handler) : String := s!"def exp_{h.module}_{h.name} : List APin := [\n  " ++ ",\n  ".intercalate ((apins h).map fp) ++ "]\n"
def uniqP (l : List (Nat × String × String)) : List (Nat × String × String) := l.foldl (fun acc x => if acc.any (·.1 == x.1) then acc else acc ++ [x]) []
def legend (hs : List Handler) : String := "\n".intercalate ((uniqP ((hs.flatMap bankItems).flatMap fun it => it.conds.map fun c => (c.h, c.kind, c.text))).map fun p => s!"| {p.1} | {p.2.1} | `{p.2.2}` |")
def sel (names : List (String × String)) : List Handler := names.filterMap fun n => handlers.find? fun h => h.module == n.1 && h.name == n.2
def c10 := sel [("auctionsV2", "PlaceDutchAuctionBid"), ("auction", "PlaceDutchAuctionBid"), ("auction", "CloseDutchAuction")]
def c11 := sel [("auctionsV2", "PlaceEnglishAuctionBid"), ("auctionsV2", "CloseEnglishAuction"), ("auctionsV2", "DepositLimitAuctionBid"), ("auctionsV2", "CancelLimitAuctionBid"), ("auctionsV2", "WithdrawLimitAuctionBid"), ("auctionsV2", "LimitOrderBid"), ("auction", "PlaceSurplusAuctionBid"), ("auction", "closeSurplusAuction"), ("auction", "PlaceDebtAuctionBid"), ("auction", "closeDebtAuction")]
#eval IO.println ("=====C10\n" ++ "\n".intercalate (c10.map fh) ++ "=====LEGEND\n" ++ legend c10)
#eval IO.println ("=====C11\n" ++ "\n".intercalate (c11.map fh) ++ "=====LEGEND\n" ++ legend c11)
