import Comdex.Props.C08Effects
/-! Regenerates the reviewed literals of Props/C08Effects.lean (`exp_<Msg>`) and the legend of condition hashes from the current
generated table: `cd lean && lake env lean ../notes/effects-regen/pins_c08.lean`, then REVIEW the diff before pasting. -/
open Comdex.Effects Comdex.Gen.Effects Comdex.C08
def fk : BKind → String | .send => ".send" | .mint => ".mint" | .burn => ".burn"
def fr : Option LRole → String
  | none => "none" | some .signer => "some .signer" | some .lendOwner => "some .lendOwner" | some .pool => "some .pool"
  | some .outPool => "some .outPool" | some .reserve => "some .reserve" | some .auction => "some .auction" | some .cmdx => "some .cmdx"
def fd : LDen → String
  | .asset => ".asset" | .cAsset => ".cAsset" | .msgCoin => ".msgCoin" | .posCoin => ".posCoin" | .assetOut => ".assetOut" | .auctionCoin => ".auctionCoin"
def fb (b : Bool) : String := if b then "true" else "false"
def fc (l : List (Bool × Nat)) : String := "[" ++ ", ".intercalate (l.map fun p => s!"({fb p.1}, {p.2})") ++ "]"
def fp (p : RPin LRole LDen) : String := s!"⟨{fk p.kind}, {fr p.src}, {fr p.dst}, {fd p.denom}, {fb p.pos}, {fc p.conds}, {fb p.loop}, {fb p.cache}⟩"
def fh (h : Handler) : String := s!"def exp_{h.name} : List LPin := [\n  " ++ ",\n  ".intercalate (((rpins lendRoles h).getD []).map fp) ++ "]\n"
def uniqP (l : List (Nat × String × String)) : List (Nat × String × String) := l.foldl (fun acc x => if acc.any (·.1 == x.1) then acc else acc ++ [x]) []
#eval IO.println ("=====EXP\n" ++ "\n".intercalate (handlers_lend.map fh))
#eval IO.println ("=====LEGEND\n" ++ "\n".intercalate ((uniqP ((handlers_lend.flatMap bankItems).flatMap fun it => it.conds.map fun c => (c.h, c.kind, c.text))).map fun p => s!"| {p.1} | {p.2.1} | `{p.2.2}` |"))
#eval (lendPairs.filter fun p => p.2.1 != some p.2.2).map (·.1)
