//go:build verif

package harness

import (
	"fmt"
	"testing"
	"time"

	esm "github.com/comdex-official/comdex/x/esm"
	esmtypes "github.com/comdex-official/comdex/x/esm/types"
	vaulttypes "github.com/comdex-official/comdex/x/vault/types"
	abci "github.com/cometbft/cometbft/abci/types"
	sdk "github.com/cosmos/cosmos-sdk/types"
	authtypes "github.com/cosmos/cosmos-sdk/x/auth/types"
)

func TestZZEsmProbe(t *testing.T) {
	tr := OpenTrace(t, "probe.trace")
	defer tr.Close(t)
	w := c01NewWorld(t, tr, NewRng(7))
	user := w.users[0]
	var ps, pn c01Product
	for _, p := range w.products {
		if p.isStable {
			ps = p
		} else if pn.id == 0 {
			pn = p
		}
	}
	w.fund(user, ps.assetIn, sdk.NewInt(5_000_000_000))
	w.fund(user, pn.assetIn, sdk.NewInt(5_000_000_000))
	ok := w.deliver(&vaulttypes.MsgCreateStableMintRequest{From: user.String(), AppId: ps.app, ExtendedPairVaultId: ps.id, Amount: sdk.NewInt(2_000_000_000)})
	ok2 := w.deliver(&vaulttypes.MsgCreateRequest{From: user.String(), AppId: pn.app, ExtendedPairVaultId: pn.id, AmountIn: sdk.NewInt(3_000_000_000), AmountOut: sdk.NewInt(2_000_000)})
	fmt.Println("created", ok, ok2)
	vm := authtypes.NewModuleAddress(vaulttypes.ModuleName)
	dump := func(tag string) {
		fmt.Println(tag, "stable vaults:", w.app.VaultKeeper.GetStableMintVaults(w.ctx))
		fmt.Println(tag, "vaults:", len(w.app.VaultKeeper.GetVaults(w.ctx)), "len", w.app.VaultKeeper.GetLengthOfVault(w.ctx))
		fmt.Println(tag, "vm balances:", w.app.BankKeeper.GetAllBalances(w.ctx, vm))
		for _, m := range w.app.VaultKeeper.GetAllAppExtendedPairVaultMapping(w.ctx) {
			fmt.Println(tag, "map", m.ExtendedPairId, m.CollateralLockedAmount, m.TokenMintedAmount, m.VaultIds)
		}
	}
	dump("before")
	var rates []esmtypes.DebtAssetsRates
	for _, id := range w.assetIDs {
		rates = append(rates, esmtypes.DebtAssetsRates{AssetID: id, Rates: 1000000})
	}
	w.app.EsmKeeper.SetESMTriggerParams(w.ctx, esmtypes.ESMTriggerParams{AppId: ps.app, TargetValue: sdk.NewCoin("uharbor", sdk.NewInt(1)), CoolOffPeriod: 1, AssetsRates: rates})
	for _, id := range w.assetIDs {
		w.app.EsmKeeper.SetSnapshotOfPrices(w.ctx, ps.app, id, 1000000)
	}
	w.app.EsmKeeper.SetESMStatus(w.ctx, esmtypes.ESMStatus{AppId: ps.app, Status: true, StartTime: w.now, EndTime: w.now.Add(time.Hour), SnapshotStatus: true})
	w.now = w.now.Add(2 * time.Hour)
	w.ctx = w.ctx.WithBlockTime(w.now)
	esm.BeginBlocker(w.ctx, abci.RequestBeginBlock{}, w.app.EsmKeeper, w.app.AssetKeeper)
	dump("after1")
	st, _ := w.app.EsmKeeper.GetESMStatus(w.ctx, ps.app)
	fmt.Printf("status %+v\n", st)
	fmt.Println("esm assets", w.app.EsmKeeper.GetAllAssetToAmount(w.ctx, ps.app))
}
