//go:build verif

package harness

// C16 — determinism: the replay comparison (a TEST, reported as a test; the proofs are in lean/Comdex/Props/C16.lean).
//
// One generated workload (a pure function of VERIF_SEED) over the DeFi modules is executed from the SAME genesis on
//   A, B            two fresh in-process application instances, sequentially in ONE process (own MemDB each); between A
//                   and B a different WARM-UP workload runs on a throw-away instance (twin-flipped fixture), so that B
//                   starts from another process history than A and than the children; thorough adds C after a longer one
//   childA, childB  two fresh OS processes: this test binary re-executed with VERIF_C16_CHILD=<seed>:<blocks>:<tier>
//                   (childA with GOMAXPROCS=1, childB with the default and GOGC=20, so that scheduler and GC differ)
//   childF          a third OS process whose WALL CLOCK is shifted by +137 d 5 h 17 min (c16_clock_test.go) and whose
//                   time zone is UTC+14 (TZ=Pacific/Kiritimati): what a node sees that syncs / replays the chain later
//   B additionally sleeps a few hundred milliseconds before the chain-halt blocks and some others (wall-clock jitter
//   between validators). The workload contains CHAIN HALTS (header-time gaps of several days, > 2 epoch durations, with
//   12 h and 24 h epochs in the store), which send the x/rewards BeginBlocker through its halt-recovery branch.
// Blocks go through the real ABCI surface: BeginBlock (all module BeginBlockers), signed transactions through
// DeliverTx (ante handler, message router, atomic commit of a successful tx), EndBlock, Commit. Governance-only
// configuration (asset / app / pair records, lend pools, white-lists) and oracle prices are written with the keepers'
// own Add…/Wasm…/SetTwa entry points inside a block — they are part of the replayed block content on every instance.
// After every Commit: an ordered dump of EVERY IAVL store of the multistore (all module KV stores, bank balances
// included), all bank balances again through the bank keeper, the IAVL app hash and validator updates are hashed
// (STATE hash); separately the block's transaction RESULTS (code, codespace, data, gas wanted/used, every event with its
// attributes in the order emitted, of every DeliverTx) are hashed. Trace lines per block:
//   det.block    height  ok|empty  txOk txFail  hashA hashB hashChildA hashChildB hashChildF [hashC]
//   det.results  height  nTx  resA resB resChildA resChildB resChildF [resC]
// Monitors (Lean driver): `replay_equal` — all state hashes equal; `results_equal` — all result hashes equal.
//
// In addition the four map-iteration sites are hammered directly: each real function is run many times on identical
// inputs in one process (Go re-randomizes the order for every `range`), the results are hashed: `det.site name runs
// distinct-hashes`; monitor `site_stable`: distinct = 1.

import (
	"bufio"
	"bytes"
	"crypto/sha256"
	"encoding/binary"
	"encoding/hex"
	"encoding/json"
	"fmt"
	"math/rand"
	"os"
	"os/exec"
	"sort"
	"strconv"
	"strings"
	"testing"
	"time"

	dbm "github.com/cometbft/cometbft-db"
	abci "github.com/cometbft/cometbft/abci/types"
	tmed "github.com/cometbft/cometbft/crypto/ed25519"
	"github.com/cometbft/cometbft/libs/log"
	tmproto "github.com/cometbft/cometbft/proto/tendermint/types"
	tmtypes "github.com/cometbft/cometbft/types"
	codectypes "github.com/cosmos/cosmos-sdk/codec/types"
	cryptocodec "github.com/cosmos/cosmos-sdk/crypto/codec"
	"github.com/cosmos/cosmos-sdk/baseapp"
	"github.com/cosmos/cosmos-sdk/crypto/keys/secp256k1"
	"github.com/cosmos/cosmos-sdk/store/rootmulti"
	storetypes "github.com/cosmos/cosmos-sdk/store/types"
	simtestutil "github.com/cosmos/cosmos-sdk/testutil/sims"
	sdk "github.com/cosmos/cosmos-sdk/types"
	authtypes "github.com/cosmos/cosmos-sdk/x/auth/types"
	banktypes "github.com/cosmos/cosmos-sdk/x/bank/types"
	stakingtypes "github.com/cosmos/cosmos-sdk/x/staking/types"

	chain "github.com/comdex-official/comdex/app"
)

const (
	c16ChainID   = "c16-replay"
	c16GenesisTS = 1_700_000_000
	c16FirstH    = 140 // the chain starts just below a multiple of 150 (liquidity BeginBlocker converts swap fees every 150 blocks)
	c16Users     = 8
)

type c16TxRes struct {
	Code      uint32
	Codespace string
	Data      []byte
	GasWanted int64
	GasUsed   int64
	Events    []abci.Event
}

type c16Inst struct {
	t       testing.TB
	app     *chain.App
	home    string
	txCfg   func() (sdk.TxEncoder, interface{})
	enc     chain.EncodingConfig
	privs   []*secp256k1.PrivKey
	addrs   []sdk.AccAddress
	valAddr []byte
	height  int64
	now     time.Time
	ctx     sdk.Context // deliver-state context of the block being built
	header  tmproto.Header
	memoRng *rand.Rand
	// per block
	txRes   []c16TxRes
	txOk    int
	txFail  int
	stats   map[string]int
	lastDump map[string]string // store name -> hash (for diagnostics)
	resHash  string            // hash of the block's transaction results
	jitter   *Rng              // != nil: sleep before selected blocks (wall-clock jitter between replicas)
	slept    time.Duration
}

func c16Priv(i int) *secp256k1.PrivKey {
	return secp256k1.GenPrivKeyFromSecret([]byte("c16-user-" + strconv.Itoa(i)))
}

// c16NewInst builds an application from a FIXED genesis: fixed validator key, fixed accounts, fixed genesis time.
// (app.Setup is not usable here: it draws a random validator key, a random account and the wall clock.)
func c16NewInst(t testing.TB) *c16Inst {
	home, err := os.MkdirTemp(c16Scratch(), "home-")
	if err != nil {
		t.Fatal(err)
	}
	enc := chain.MakeEncodingConfig()
	app := chain.New(log.NewNopLogger(), dbm.NewMemDB(), nil, true, map[int64]bool{}, home, 5, enc,
		simtestutil.EmptyAppOptions{}, chain.GetWasmEnabledProposals(), chain.EmptyWasmOpts, baseapp.SetChainID(c16ChainID))
	in := &c16Inst{t: t, app: app, home: home, enc: enc, stats: map[string]int{}, memoRng: rand.New(rand.NewSource(16))}

	valPriv := tmed.GenPrivKeyFromSecret([]byte("c16-validator"))
	val := tmtypes.NewValidator(valPriv.PubKey(), 1)
	in.valAddr = val.Address

	genesis := chain.NewDefaultGenesisState(app.AppCodec())
	var genAccs []authtypes.GenesisAccount
	var balances []banktypes.Balance
	for i := 0; i < c16Users; i++ {
		p := c16Priv(i)
		in.privs = append(in.privs, p)
		a := sdk.AccAddress(p.PubKey().Address())
		in.addrs = append(in.addrs, a)
		genAccs = append(genAccs, authtypes.NewBaseAccount(a, nil, 0, 0))
		balances = append(balances, banktypes.Balance{Address: a.String(), Coins: sdk.NewCoins(sdk.NewCoin("ucmdx", sdk.NewInt(1_000_000_000_000_000)))})
	}
	genesis[authtypes.ModuleName] = app.AppCodec().MustMarshalJSON(authtypes.NewGenesisState(authtypes.DefaultParams(), genAccs))

	pk, err := cryptocodec.FromTmPubKeyInterface(val.PubKey)
	if err != nil {
		t.Fatal(err)
	}
	pkAny, err := codectypes.NewAnyWithValue(pk)
	if err != nil {
		t.Fatal(err)
	}
	bond := sdk.DefaultPowerReduction
	validator := stakingtypes.Validator{
		OperatorAddress: sdk.ValAddress(val.Address).String(), ConsensusPubkey: pkAny, Status: stakingtypes.Bonded, Tokens: bond,
		DelegatorShares: sdk.OneDec(), UnbondingTime: time.Unix(0, 0).UTC(),
		Commission: stakingtypes.NewCommission(sdk.ZeroDec(), sdk.ZeroDec(), sdk.ZeroDec()), MinSelfDelegation: sdk.ZeroInt(),
	}
	delegation := stakingtypes.NewDelegation(genAccs[0].GetAddress(), val.Address.Bytes(), sdk.OneDec())
	stParams := stakingtypes.DefaultParams()
	stParams.BondDenom = "ucmdx"
	genesis[stakingtypes.ModuleName] = app.AppCodec().MustMarshalJSON(
		stakingtypes.NewGenesisState(stParams, []stakingtypes.Validator{validator}, []stakingtypes.Delegation{delegation}))
	balances = append(balances, banktypes.Balance{Address: authtypes.NewModuleAddress(stakingtypes.BondedPoolName).String(), Coins: sdk.Coins{sdk.NewCoin("ucmdx", bond)}})
	total := sdk.NewCoins()
	for _, b := range balances {
		total = total.Add(b.Coins...)
	}
	genesis[banktypes.ModuleName] = app.AppCodec().MustMarshalJSON(
		banktypes.NewGenesisState(banktypes.DefaultGenesisState().Params, balances, total, []banktypes.Metadata{}, []banktypes.SendEnabled{}))

	stateBytes, err := json.MarshalIndent(genesis, "", " ")
	if err != nil {
		t.Fatal(err)
	}
	cp := *chain.DefaultConsensusParams
	blk := *cp.Block
	blk.MaxGas = -1
	cp.Block = &blk
	in.now = time.Unix(c16GenesisTS, 0).UTC()
	app.InitChain(abci.RequestInitChain{
		ChainId: c16ChainID, Validators: []abci.ValidatorUpdate{}, ConsensusParams: &cp, AppStateBytes: stateBytes,
		Time: in.now, InitialHeight: c16FirstH,
	})
	// as on a real chain: no Commit between InitChain and the first block (the genesis writes are committed with it)
	in.height = c16FirstH - 1
	return in
}

func (in *c16Inst) close() {
	os.RemoveAll(in.home)
}

// c16Scratch: where the per-instance home directories (wasm cache) live; removed again by close().
func c16Scratch() string {
	d := "/var/tmp/C16"
	if r := os.Getenv("VERIF_ROOT"); r != "" {
		d = r + "/.cache/c16-homes"
	}
	if err := os.MkdirAll(d, 0o755); err != nil {
		panic(err)
	}
	return d
}

// begin opens the next block: `dt` seconds after the previous one.
func (in *c16Inst) begin(dt int64) {
	in.height++
	in.now = in.now.Add(time.Duration(dt) * time.Second)
	in.header = tmproto.Header{
		ChainID: c16ChainID, Height: in.height, Time: in.now, AppHash: in.app.LastCommitID().Hash, ProposerAddress: in.valAddr,
	}
	in.txRes = nil
	in.txOk, in.txFail = 0, 0
	bb := in.app.BeginBlock(abci.RequestBeginBlock{
		Header: in.header,
		// no votes: the genesis validator is written by the staking genesis directly (no gentx), so it has no
		// slashing signing-info; the repository's own test chain does the same
		LastCommitInfo: abci.CommitInfo{},
	})
	for _, e := range bb.Events {
		in.stats["beginblock-event:"+e.Type]++
	}
	in.ctx = in.app.BaseApp.NewContext(false, in.header)
}

// tx signs msg with the key of user `who` and pushes it through the real DeliverTx.
func (in *c16Inst) tx(who int, kind string, msgs ...sdk.Msg) bool {
	acc := in.app.AccountKeeper.GetAccount(in.ctx, in.addrs[who])
	if acc == nil {
		in.t.Fatalf("c16: no account for user %d", who)
	}
	tx, err := simtestutil.GenSignedMockTx(in.memoRng, in.enc.TxConfig, msgs, sdk.NewCoins(), 50_000_000, c16ChainID,
		[]uint64{acc.GetAccountNumber()}, []uint64{acc.GetSequence()}, in.privs[who])
	if err != nil {
		in.t.Fatalf("c16: sign: %v", err)
	}
	bz, err := in.enc.TxConfig.TxEncoder()(tx)
	if err != nil {
		in.t.Fatalf("c16: encode: %v", err)
	}
	r := in.app.DeliverTx(abci.RequestDeliverTx{Tx: bz})
	in.txRes = append(in.txRes, c16TxRes{r.Code, r.Codespace, r.Data, r.GasWanted, r.GasUsed, r.Events})
	if r.Code == 0 {
		in.txOk++
		in.stats["tx:"+kind+":ok"]++
		for _, m := range msgs {
			in.stats["msg-ok:"+sdk.MsgTypeURL(m)]++
		}
		return true
	}
	for _, m := range msgs {
		in.stats["msg-fail:"+sdk.MsgTypeURL(m)]++
	}
	in.txFail++
	in.stats["tx:"+kind+":fail"]++
	if os.Getenv("VERIF_C16_DEBUG") != "" {
		fmt.Fprintf(os.Stderr, "c16 h=%d tx %s failed: %s\n", in.height, kind, r.Log)
	}
	return false
}

// end closes the block, commits and returns the block hash (see file comment).
func (in *c16Inst) end() string {
	eb := in.app.EndBlock(abci.RequestEndBlock{Height: in.height})
	for _, e := range eb.Events {
		in.stats["endblock-event:"+e.Type]++
	}
	in.app.Commit()
	h := sha256.New()
	wr := func(b []byte) {
		var l [8]byte
		binary.BigEndian.PutUint64(l[:], uint64(len(b)))
		h.Write(l[:])
		h.Write(b)
	}
	// 1. every IAVL store, keys in store order
	cms, ok := in.app.CommitMultiStore().(*rootmulti.Store)
	if !ok {
		in.t.Fatalf("c16: unexpected multistore %T", in.app.CommitMultiStore())
	}
	byName := cms.StoreKeysByName()
	names := make([]string, 0, len(byName))
	for n := range byName {
		names = append(names, n)
	}
	sort.Strings(names)
	in.lastDump = map[string]string{}
	for _, n := range names {
		key := byName[n]
		if _, isKV := key.(*storetypes.KVStoreKey); !isKV {
			continue // transient / memory stores are not consensus state
		}
		sh := sha256.New()
		it := cms.GetKVStore(key).Iterator(nil, nil)
		cnt := 0
		for ; it.Valid(); it.Next() {
			var l [8]byte
			binary.BigEndian.PutUint64(l[:], uint64(len(it.Key())))
			sh.Write(l[:])
			sh.Write(it.Key())
			binary.BigEndian.PutUint64(l[:], uint64(len(it.Value())))
			sh.Write(l[:])
			sh.Write(it.Value())
			cnt++
		}
		it.Close()
		sum := sh.Sum(nil)
		in.lastDump[n] = hex.EncodeToString(sum[:8]) + "/" + strconv.Itoa(cnt)
		wr([]byte(n))
		wr(sum)
	}
	// 2. all bank balances through the keeper
	bctx := in.app.BaseApp.NewUncachedContext(false, in.header)
	bh := sha256.New()
	in.app.BankKeeper.IterateAllBalances(bctx, func(a sdk.AccAddress, c sdk.Coin) bool {
		bh.Write(a)
		bh.Write([]byte(c.String()))
		bh.Write([]byte{0})
		return false
	})
	bsum := bh.Sum(nil)
	in.lastDump["~balances"] = hex.EncodeToString(bsum[:8])
	wr(bsum)
	// 3. app hash
	wr(in.app.LastCommitID().Hash)
	in.lastDump["~apphash"] = hex.EncodeToString(in.app.LastCommitID().Hash[:8])
	// 4. EndBlock: validator updates are consensus data; EndBlock/BeginBlock *events* are not transaction results and are
	// not part of any hash the chain agrees on — the property does not speak about them
	vh := sha256.New()
	for _, vu := range eb.ValidatorUpdates {
		fmt.Fprintf(vh, "vu|%s|%d|", vu.PubKey.String(), vu.Power)
	}
	wr(vh.Sum(nil))
	// 5. separately: the transaction results (code, codespace, data, gas, events with their attributes in emitted order)
	rh := sha256.New()
	for _, r := range in.txRes {
		fmt.Fprintf(rh, "%d|%s|%x|%d|%d|", r.Code, r.Codespace, r.Data, r.GasWanted, r.GasUsed)
		c16HashEvents(rh, r.Events)
	}
	rsum := rh.Sum(nil)
	in.lastDump["~results"] = hex.EncodeToString(rsum[:8])
	in.resHash = hex.EncodeToString(rsum[:16])
	return hex.EncodeToString(h.Sum(nil)[:16])
}

func c16HashEvents(w interface{ Write([]byte) (int, error) }, evs []abci.Event) {
	for _, e := range evs {
		w.Write([]byte(e.Type))
		w.Write([]byte{1})
		for _, a := range e.Attributes {
			w.Write([]byte(a.Key))
			w.Write([]byte{2})
			w.Write([]byte(a.Value))
			w.Write([]byte{3})
		}
	}
}

func c16DumpString(m map[string]string) string {
	ks := make([]string, 0, len(m))
	for k := range m {
		ks = append(ks, k)
	}
	sort.Strings(ks)
	var b strings.Builder
	for _, k := range ks {
		b.WriteString(k + "=" + m[k] + " ")
	}
	return b.String()
}

// c16DumpDiff: the entries (store=hash/count) of dump b that differ from dump a
func c16DumpDiff(a, b string) string {
	in := map[string]bool{}
	for _, f := range strings.Fields(a) {
		in[f] = true
	}
	var out []string
	for _, f := range strings.Fields(b) {
		if !in[f] {
			out = append(out, f)
		}
	}
	if len(out) == 0 {
		return "-"
	}
	return strings.Join(out, " ")
}

type c16BlockRec struct {
	Height       int64
	Hash         string
	TxOk, TxFail int
	Dump         string
	ResHash      string
}

// c16Opts: how a replica differs from the others in everything that must NOT matter.
type c16Opts struct {
	variant int  // 0 = the replayed workload; 1 = warm-up (see c16Warmup)
	jitter  bool // sleep 50-400 ms of wall-clock time before every chain-halt block and before every 9th block
}

// c16Run executes the workload for `seed` on a fresh instance and returns one record per block.
func c16Run(t testing.TB, seed uint64, blocks int, thor bool) ([]c16BlockRec, map[string]int) {
	return c16RunVariant(t, seed, blocks, thor, c16Opts{})
}

func c16RunVariant(t testing.TB, seed uint64, blocks int, thor bool, o c16Opts) ([]c16BlockRec, map[string]int) {
	in := c16NewInst(t)
	defer in.close()
	w := c16NewWorkload(in, seed, thor)
	w.variant = o.variant
	if o.variant == 0 {
		w.total = blocks
	}
	if o.jitter {
		in.jitter = NewRng(seed ^ 0x5eed)
	}
	var out []c16BlockRec
	for b := 0; b < blocks; b++ {
		dt := w.blockGap(b)
		if in.jitter != nil && (w.isHalt(b) || b%9 == 4) && in.slept < 3*time.Second {
			d := time.Duration(50+in.jitter.Intn(350)) * time.Millisecond
			time.Sleep(d)
			in.slept += d
		}
		in.begin(dt)
		w.block(b)
		hash := in.end()
		w.probe(b)
		out = append(out, c16BlockRec{in.height, hash, in.txOk, in.txFail, c16DumpString(in.lastDump), in.resHash})
	}
	return out, in.stats
}

// c16Warmup gives the PROCESS a different history between two replays of the same blocks: the twin-flipped fixture
// (variant 1, three blocks, no orders) on a throw-away instance — its last ranged-pool evaluations agree with the first
// ones of the next replay in all but one argument. Anything that survives an application instance (package-level
// memo, cache, counter) is in a different state afterwards than in a fresh process.
func c16Warmup(t testing.TB, seed uint64) {
	c16RunVariant(t, seed, 3, false, c16Opts{variant: 1})
}

func c16Child(t *testing.T, spec string) {
	parts := strings.Split(spec, ":")
	if len(parts) != 3 {
		t.Fatalf("bad VERIF_C16_CHILD %q", spec)
	}
	seed, _ := strconv.ParseUint(parts[0], 10, 64)
	blocks, _ := strconv.Atoi(parts[1])
	shifted := false
	if off := os.Getenv("VERIF_C16_CLOCK_OFFSET"); off != "" {
		d, err := time.ParseDuration(off)
		if err != nil {
			t.Fatalf("bad VERIF_C16_CLOCK_OFFSET %q", off)
		}
		shifted = c16ShiftClock(d)
	}
	// what this process sees as "now" and as its local time zone (the parent checks that the shift took effect)
	nowSeen := time.Now()
	_, zoneOff := nowSeen.Zone()
	sinceSeen := time.Since(time.Unix(c16GenesisTS, 0))
	recs, _ := c16Run(t, seed, blocks, parts[2] == "thorough")
	w := bufio.NewWriter(os.Stdout)
	fmt.Fprintf(w, "C16CLOCK\t%d\t%d\t%d\t%v\n", nowSeen.Unix(), int64(sinceSeen/time.Second), zoneOff, shifted)
	for _, r := range recs {
		fmt.Fprintf(w, "C16HASH\t%d\t%s\t%d\t%d\t%s\t%s\n", r.Height, r.Hash, r.TxOk, r.TxFail, r.Dump, r.ResHash)
	}
	w.Flush()
}

// c16ChildClock: what a child reported about its clock
type c16ChildClock struct {
	now, since, zone int64
	shifted          bool
}

func c16Spawn(t *testing.T, seed uint64, blocks int, thor bool, extraEnv ...string) ([]c16BlockRec, error) {
	r, _, err := c16SpawnClock(t, seed, blocks, thor, extraEnv...)
	return r, err
}

func c16SpawnClock(t *testing.T, seed uint64, blocks int, thor bool, extraEnv ...string) ([]c16BlockRec, c16ChildClock, error) {
	var clk c16ChildClock
	tier := "quick"
	if thor {
		tier = "thorough"
	}
	cmd := exec.Command(os.Args[0], "-test.run", "^TestC16$", "-test.timeout", "0")
	cmd.Env = append(os.Environ(), fmt.Sprintf("VERIF_C16_CHILD=%d:%d:%s", seed, blocks, tier))
	cmd.Env = append(cmd.Env, extraEnv...)
	var stdout, stderr bytes.Buffer
	cmd.Stdout = &stdout
	cmd.Stderr = &stderr
	if err := cmd.Run(); err != nil {
		return nil, clk, fmt.Errorf("child: %v: %s %s", err, c16Tail(stdout.String()), c16Tail(stderr.String()))
	}
	var recs []c16BlockRec
	for _, line := range strings.Split(stdout.String(), "\n") {
		f := strings.Split(line, "\t")
		if len(f) == 5 && f[0] == "C16CLOCK" {
			clk.now, _ = strconv.ParseInt(f[1], 10, 64)
			clk.since, _ = strconv.ParseInt(f[2], 10, 64)
			clk.zone, _ = strconv.ParseInt(f[3], 10, 64)
			clk.shifted = f[4] == "true"
		}
		if len(f) < 7 || f[0] != "C16HASH" {
			continue
		}
		h, _ := strconv.ParseInt(f[1], 10, 64)
		ok, _ := strconv.Atoi(f[3])
		fail, _ := strconv.Atoi(f[4])
		recs = append(recs, c16BlockRec{h, f[2], ok, fail, f[5], f[6]})
	}
	return recs, clk, nil
}

func c16Tail(s string) string {
	if len(s) > 1500 {
		return s[len(s)-1500:]
	}
	return s
}

// TestC16 — see the file comment.
func TestC16(t *testing.T) {
	if spec := os.Getenv("VERIF_C16_CHILD"); spec != "" {
		c16Child(t, spec)
		return
	}
	tr := OpenTrace(t, "c16.trace")
	defer tr.Close(t)
	thor := thorough()
	nSeeds := scale(1, 3)
	blocks := scale(60, 150)
	if os.Getenv("VERIF_SEARCH") != "" {
		nSeeds, blocks = 2, 120
	}
	if v := envInt("VERIF_C16_BLOCKS", 0); v > 0 {
		blocks = v
	}
	const clockOffset = 137*24*time.Hour + 5*time.Hour + 17*time.Minute
	for s := 0; s < nSeeds; s++ {
		sd := seed()*1000 + uint64(s)
		tr.Count("seeds")
		type res struct {
			recs []c16BlockRec
			clk  c16ChildClock
			err  error
		}
		chA := make(chan res, 1)
		chB := make(chan res, 1)
		chF := make(chan res, 1)
		// the children run while the in-process instances run (they are separate OS processes)
		go func() { r, e := c16Spawn(t, sd, blocks, thor, "GOMAXPROCS=1"); chA <- res{r, c16ChildClock{}, e} }()
		go func() { r, e := c16Spawn(t, sd, blocks, thor, "GOGC=20"); chB <- res{r, c16ChildClock{}, e} }()
		go func() {
			r, c, e := c16SpawnClock(t, sd, blocks, thor, "VERIF_C16_CLOCK_OFFSET="+clockOffset.String(), "TZ=Pacific/Kiritimati")
			chF <- res{r, c, e}
		}()
		parentNow := time.Now()
		recA, stats := c16Run(t, sd, blocks, thor)
		// instance B replays the same blocks in the same process AFTER instance A and after a different warm-up workload,
		// with wall-clock jitter before the chain-halt blocks
		c16Warmup(t, sd)
		recB, _ := c16RunVariant(t, sd, blocks, thor, c16Opts{jitter: true})
		// thorough, first seed: a third replay after a longer, unrelated history (another seed's workload)
		var recC []c16BlockRec
		if thor && s == 0 {
			c16Run(t, sd+500, 12, thor)
			c16Warmup(t, sd+1)
			recC, _ = c16Run(t, sd, blocks, thor)
		}
		ra, rb, rf := <-chA, <-chB, <-chF
		if ra.err != nil || rb.err != nil || rf.err != nil {
			t.Fatalf("c16 child failed: %v %v %v", ra.err, rb.err, rf.err)
		}
		// control: the shifted-clock child really saw another wall clock (time.Now AND time.Since) and another time zone
		{
			distinct := 1
			dNow := time.Duration(rf.clk.now-parentNow.Unix()) * time.Second
			dSince := time.Duration(rf.clk.since)*time.Second - parentNow.Sub(time.Unix(c16GenesisTS, 0))
			if rf.clk.shifted && dNow > clockOffset-time.Hour && dSince > clockOffset-time.Hour {
				distinct = 2
			}
			tr.Line("det.sanity", "shifted-clock", "ok", "2", strconv.Itoa(distinct))
			tr.Set(fmt.Sprintf("shifted-clock-seed-%d", sd), map[string]string{"now-shift": dNow.String(), "since-shift": dSince.String(),
				"zone-offset-seconds": i64(rf.clk.zone), "patched": fmt.Sprint(rf.clk.shifted)})
		}
		for k, v := range stats {
			tr.Stats[k] += v
		}
		if s == nSeeds-1 {
			never, neverOK := c16MissingMsgTypes(tr.Stats)
			tr.Set("msg-types-never-delivered", never)
			tr.Set("msg-types-never-succeeded", neverOK)
			tr.Stats["msg-types-never-delivered"] = len(never)
			tr.Stats["msg-types-never-succeeded"] = len(neverOK)
		}
		firstDiff := true
		for i := range recA {
			get := func(r []c16BlockRec) c16BlockRec {
				if i < len(r) {
					return r[i]
				}
				return c16BlockRec{Hash: "missing", ResHash: "missing"}
			}
			reps := []c16BlockRec{recA[i], get(recB), get(ra.recs), get(rb.recs), get(rf.recs)}
			if recC != nil {
				reps = append(reps, get(recC))
			}
			outcome := "empty"
			if recA[i].TxOk > 0 {
				outcome = "ok"
			}
			fields := []string{i64(recA[i].Height), outcome, strconv.Itoa(recA[i].TxOk), strconv.Itoa(recA[i].TxFail)}
			rfields := []string{i64(recA[i].Height), strconv.Itoa(recA[i].TxOk + recA[i].TxFail)}
			same := true
			for _, r := range reps {
				fields = append(fields, r.Hash)
				rfields = append(rfields, r.ResHash)
				same = same && r.Hash == recA[i].Hash && r.ResHash == recA[i].ResHash
			}
			tr.Line("det.block", fields...)
			tr.Line("det.results", rfields...)
			tr.Count("blocks")
			if firstDiff && !same {
				firstDiff = false
				tr.Count("diverging-seeds")
				names := []string{"A", "B(after warm-up, jitter)", "childA(GOMAXPROCS=1)", "childB(GOGC=20)", "childF(shifted clock, UTC+14)", "C(after long history)"}
				d := map[string]string{"height": i64(recA[i].Height), "block-index": strconv.Itoa(i), "A": recA[i].Dump}
				for k := 1; k < len(reps); k++ {
					d[names[k]+" differs from A in"] = c16DumpDiff(recA[i].Dump, reps[k].Dump)
				}
				tr.Set(fmt.Sprintf("first-divergence-seed-%d", sd), d)
			}
		}
	}
	c16Sites(t, tr)
}
