//go:build verif

package harness

import (
	"math/big"
	"strconv"
	"strings"
	"testing"

	sdkmath "cosmossdk.io/math"

	"github.com/comdex-official/comdex/x/liquidity/amm"
	liqtypes "github.com/comdex-official/comdex/x/liquidity/types"
)

// C05 — batch matching. The harness builds order books out of REAL order objects (amm.BaseOrder,
// liquidity/types.UserOrder, liquidity/types.PoolOrder), runs the real amm.NewOrderBook / OrderBook.Match /
// MatchAtSinglePrice / FindMatchableAmountAtSinglePrice / PriceDirection / DistributeOrderAmountToOrders /
// FillOrder / MatchableAmount and prints, per call, the inputs and every order's (open, paid, received, matched)
// plus quoteCoinDiff. Trace format: see lean/Comdex/Drv/AmmMatch.lean.

type c05Order struct {
	id    int
	kind  int // 0 user, 1 pool, 2 plain BaseOrder
	oid   uint64
	batch uint64
	o     amm.Order
}

func c05Raw(d sdkmath.LegacyDec) string { return d.BigInt().String() }

func c05Dir(d amm.OrderDirection) string {
	if d == amm.Buy {
		return "1"
	}
	return "2"
}

func c05New(id, kind int, oid, batch uint64, dir amm.OrderDirection, price sdkmath.LegacyDec, amt, offer sdkmath.Int) *c05Order {
	base := amm.NewBaseOrder(dir, price, amt, offer)
	var o amm.Order
	switch kind {
	case 0:
		o = &liqtypes.UserOrder{BaseOrder: base, OrderID: oid, BatchID: batch}
	case 1:
		o = &liqtypes.PoolOrder{BaseOrder: base, PoolID: oid}
		batch = 0
	default:
		o = base
		batch = 0
	}
	return &c05Order{id: id, kind: kind, oid: oid, batch: batch, o: o}
}

func c05OrderLine(tr *Trace, x *c05Order) {
	o := x.o
	tr.Line("amm.order", strconv.Itoa(x.id), strconv.Itoa(x.kind), u(x.oid), c05Dir(o.GetDirection()), c05Raw(o.GetPrice()),
		o.GetAmount().String(), o.GetOfferCoinAmount().String(), o.GetOpenAmount().String(),
		o.GetPaidOfferCoinAmount().String(), o.GetReceivedDemandCoinAmount().String(), u(o.GetBatchID()))
}

func c05Results(os []*c05Order) string {
	ss := make([]string, len(os))
	for i, x := range os {
		m := "0"
		if x.o.IsMatched() {
			m = "1"
		}
		ss[i] = strconv.Itoa(x.id) + ":" + x.o.GetOpenAmount().String() + ":" + x.o.GetPaidOfferCoinAmount().String() + ":" +
			x.o.GetReceivedDemandCoinAmount().String() + ":" + m
	}
	return strings.Join(ss, ";")
}

func c05Objs(os []*c05Order) []amm.Order {
	r := make([]amm.Order, len(os))
	for i, x := range os {
		r[i] = x.o
	}
	return r
}

// base coin received by buyers / paid by sellers since the snapshot (for generator statistics only; the verdict is the Lean monitor's)
type c05Snap struct{ open, paid, recv []sdkmath.Int }

func c05Snapshot(os []*c05Order) c05Snap {
	var s c05Snap
	for _, x := range os {
		s.open = append(s.open, x.o.GetOpenAmount())
		s.paid = append(s.paid, x.o.GetPaidOfferCoinAmount())
		s.recv = append(s.recv, x.o.GetReceivedDemandCoinAmount())
	}
	return s
}

func c05Stats(tr *Trace, os []*c05Order, s c05Snap, book bool) {
	buyRecv, sellPaid := sdkmath.ZeroInt(), sdkmath.ZeroInt()
	nm, npart := 0, 0
	for i, x := range os {
		if x.o.GetOpenAmount().LT(s.open[i]) {
			nm++
			if x.o.GetOpenAmount().IsPositive() {
				npart++
			}
		}
		if x.o.GetDirection() == amm.Buy {
			buyRecv = buyRecv.Add(x.o.GetReceivedDemandCoinAmount().Sub(s.recv[i]))
		} else {
			sellPaid = sellPaid.Add(x.o.GetPaidOfferCoinAmount().Sub(s.paid[i]))
		}
	}
	switch {
	case nm == 0:
		tr.Count("filled-orders:0")
	case nm <= 2:
		tr.Count("filled-orders:1-2")
	case nm <= 5:
		tr.Count("filled-orders:3-5")
	default:
		tr.Count("filled-orders:6+")
	}
	if npart > 0 {
		tr.Count("has-partial-fill")
	}
	if !buyRecv.Equal(sellPaid) && book {
		tr.Count("base-not-conserved(stat)")
	}
}

func c05OpSingle(tr *Trace, os []*c05Order, p sdkmath.LegacyDec) {
	snap := c05Snapshot(os)
	var fma, outcome, qcd = "none", "", "-"
	panicked, _ := try(func() {
		ob := amm.NewOrderBook(c05Objs(os)...)
		a, found := ob.FindMatchableAmountAtSinglePrice(p)
		if found {
			fma = a.String()
		}
		q, matched := ob.MatchAtSinglePrice(p)
		if matched {
			outcome = "ok"
			qcd = q.String()
		} else {
			outcome = "nomatch"
		}
	})
	if panicked {
		outcome = "panic"
	}
	tr.Count("single:" + outcome)
	c05Stats(tr, os, snap, true)
	tr.Line("amm.op", "single", c05Raw(p), fma, outcome, qcd, c05Results(os))
}

// the keeper's first batch of a pair (no last price): FindMatchPrice on the book's view, then MatchAtSinglePrice at that price
func c05OpFirst(tr *Trace, os []*c05Order, prec int) {
	snap := c05Snapshot(os)
	var fmp, outcome, qcd = "none", "", "-"
	panicked, _ := try(func() {
		ob := amm.NewOrderBook(c05Objs(os)...)
		mp, found := amm.FindMatchPrice(ob.MakeView(), prec)
		if !found {
			outcome = "nomatch"
			return
		}
		fmp = c05Raw(mp)
		q, matched := ob.MatchAtSinglePrice(mp)
		if matched {
			outcome = "ok"
			qcd = q.String()
		} else {
			outcome = "nomatch"
		}
	})
	if panicked {
		outcome = "panic"
	}
	if fmp == "none" {
		tr.Count("first:price-none")
	} else {
		tr.Count("first:price-found:" + outcome)
	}
	c05Stats(tr, os, snap, true)
	tr.Line("amm.op", "first", strconv.Itoa(prec), fmp, outcome, qcd, c05Results(os))
}

// read-only checks of the order-book view and of FindMatchPrice (kind amm.fmpx: a precision other than the one the order
// prices are ticks of — compared, not monitored)
func c05ViewLines(tr *Trace, g *c05Gen, os []*c05Order) {
	r := g.rng
	ob := amm.NewOrderBook(c05Objs(os)...)
	v := ob.MakeView()
	sh := func(d sdkmath.LegacyDec, f bool) string {
		if !f {
			return "none"
		}
		return c05Raw(d)
	}
	n := 1 + r.Intn(3)
	for k := 0; k < n; k++ {
		p := g.opPrice(os)
		if r.Chance(20) {
			p = p.Add(sdkmath.LegacyNewDecWithPrec(int64(r.Intn(3)-1), 18)) // one raw unit off a tick
		}
		hb, f1 := v.HighestBuyPrice()
		ls, f2 := v.LowestSellPrice()
		tr.Line("amm.view", c05Raw(p), sh(hb, f1), sh(ls, f2), v.BuyAmountOver(p, true).String(), v.SellAmountUnder(p, true).String())
	}
	mp, found := amm.FindMatchPrice(v, g.prec)
	tr.Line("amm.fmp", strconv.Itoa(g.prec), sh(mp, found))
	if found {
		tr.Count("fmp:found")
	} else {
		tr.Count("fmp:none")
	}
	if r.Chance(30) {
		prec := 1 + r.Intn(5)
		if prec != g.prec {
			var mp2 sdkmath.LegacyDec
			found2 := false
			panicked, _ := try(func() { mp2, found2 = amm.FindMatchPrice(v, prec) })
			if !panicked {
				tr.Line("amm.fmpx", strconv.Itoa(prec), sh(mp2, found2))
				tr.Count("fmp:other-precision")
			}
		}
	}
}

// tick.go primitives on boundary-directed and random arguments
func c05TickLines(tr *Trace, r *Rng, n int) {
	for k := 0; k < n; k++ {
		prec := r.Intn(6)
		if k%7 == 0 {
			tr.Line("amm.tk", "hi", strconv.Itoa(prec), "0", c05Raw(amm.HighestTick(prec)))
			tr.Line("amm.tk", "lo", strconv.Itoa(prec), "0", c05Raw(amm.LowestTick(prec)))
		}
		// a price: 10^e * m with m around interesting mantissas, then small raw perturbations
		e := r.Intn(40)
		var raw sdkmath.Int
		switch r.Intn(5) {
		case 0:
			raw = c05Pow10(e)
		case 1:
			raw = c05Pow10(e).MulRaw(int64(1 + r.Intn(9)))
		case 2:
			raw = c05Pow10(e).MulRaw(int64(1 + r.Intn(999999)))
		case 3:
			raw = c05Pow10(e + 1).SubRaw(1)
		default:
			raw = sdkmath.NewIntFromUint64(r.U64() >> uint(r.Intn(60))).AddRaw(1)
		}
		raw = raw.AddRaw(int64(r.Intn(5) - 2))
		if !raw.IsPositive() {
			raw = sdkmath.OneInt()
		}
		price := sdkmath.LegacyNewDecFromIntWithPrec(raw, 18)
		ps, rs := strconv.Itoa(prec), raw.String()
		for _, fn := range []string{"down", "up", "ptup", "dn", "round", "toidx"} {
			var out string
			panicked, _ := try(func() {
				switch fn {
				case "down":
					out = c05Raw(amm.PriceToDownTick(price, prec))
				case "up":
					out = c05Raw(amm.UpTick(price, prec))
				case "ptup":
					out = c05Raw(amm.PriceToUpTick(price, prec))
				case "dn":
					out = c05Raw(amm.DownTick(price, prec))
				case "round":
					out = c05Raw(amm.RoundPrice(price, prec))
				case "toidx":
					out = strconv.Itoa(amm.TickToIndex(amm.PriceToDownTick(price, prec), prec))
					rs = c05Raw(amm.PriceToDownTick(price, prec))
				}
			})
			if panicked {
				tr.Count("tk:panic:" + fn)
				continue
			}
			if fn == "round" && raw.LT(c05Pow10(prec)) {
				continue // below the lowest tick RoundPrice indexes a negative tick (never reached: prices are >= the lowest tick)
			}
			tr.Line("amm.tk", fn, ps, rs, out)
			rs = raw.String()
		}
		// indices: random, decade boundaries, and -1 (evaluated by the downward walk of FindMatchPrice at index 0)
		hi := amm.TickToIndex(amm.HighestTick(prec), prec)
		p10 := 1
		for q := 0; q < prec; q++ {
			p10 *= 10
		}
		var idx int
		switch r.Intn(4) {
		case 0:
			idx = r.Intn(hi + 1)
		case 1:
			idx = 9*p10*r.Intn(40) + r.Intn(3) - 1
		case 2:
			idx = -1
		default:
			idx = hi - r.Intn(5)
		}
		tr.Line("amm.tk", "fromidx", ps, strconv.Itoa(idx), c05Raw(amm.TickFromIndex(idx, prec)))
	}
}

// edge prices for the curve functions: below MinPoolPrice / above MaxPoolPrice (the clamps), one unit of the last decimal
// beside the pool price (dx not positive although price < Price(): the pool price is a rounded quotient)
func c05EdgePrice(tr *Trace, r *Rng, price sdkmath.LegacyDec, poolPrice func() sdkmath.LegacyDec) sdkmath.LegacyDec {
	switch r.Intn(40) {
	case 0:
		tr.Count("edge-price:below-min-pool-price")
		return sdkmath.LegacyNewDecWithPrec(int64(1+r.Intn(9)), 16)
	case 1:
		tr.Count("edge-price:above-max-pool-price")
		return amm.MaxPoolPrice.MulInt64(int64(2 + r.Intn(5)))
	case 2, 3, 4:
		var pp sdkmath.LegacyDec
		if panicked, _ := try(func() { pp = poolPrice() }); panicked {
			return price
		}
		tr.Count("edge-price:beside-pool-price")
		return pp.Add(sdkmath.LegacyNewDecWithPrec(int64(r.Intn(5)-2), 18))
	}
	return price
}

// directed: reserves / prices at which the amount exceeds MaxCoinAmount (the cap), basic and ranged
func c05PoolCapLines(tr *Trace) {
	rx, ry := c05Pow10(35), c05Pow10(20)
	bp := amm.NewBasicPool(rx, ry, sdkmath.OneInt())
	minP, maxP := c05Dec("100000000000000"), c05Dec("10000000000000000")
	for _, ps := range []string{"0.00000000000001", "0.0000000000000005", "1000000000000000", "999999999999999"} {
		price := c05Dec(ps)
		for _, fn := range []string{"bo", "bt", "su", "st"} {
			out, rout := "panic", "panic"
			try(func() {
				switch fn {
				case "bo":
					out = bp.BuyAmountOver(price, true).String()
				case "bt":
					out = bp.BuyAmountTo(price).String()
				case "su":
					out = bp.SellAmountUnder(price, true).String()
				case "st":
					out = bp.SellAmountTo(price).String()
				}
			})
			tr.Line("amm.bp", fn, rx.String(), ry.String(), c05Raw(price), out)
			try(func() {
				rp := amm.NewRangedPool(rx, ry, sdkmath.OneInt(), minP, maxP)
				switch fn {
				case "bo":
					rout = rp.BuyAmountOver(price, true).String()
				case "bt":
					rout = rp.BuyAmountTo(price).String()
				case "su":
					rout = rp.SellAmountUnder(price, true).String()
				case "st":
					rout = rp.SellAmountTo(price).String()
				}
			})
			tr.Line("amm.rp", fn, rx.String(), ry.String(), c05Raw(minP), c05Raw(maxP), c05Raw(price), rout)
			if out == amm.MaxCoinAmount.String() || rout == amm.MaxCoinAmount.String() {
				tr.Count("pool:amount-capped")
			}
		}
	}
}

// basic pools: the curve functions and the order generation of PoolBuyOrders / PoolSellOrders on real BasicPools
func c05PoolLines(tr *Trace, r *Rng, n int) {
	list := func(os []amm.Order) string {
		ss := make([]string, len(os))
		for i, o := range os {
			ss[i] = c05Raw(o.GetPrice()) + ":" + o.GetAmount().String()
		}
		return strings.Join(ss, ",")
	}
	for k := 0; k < n; k++ {
		prec := 2 + r.Intn(3)
		lo := amm.TickToIndex(c05Dec("0.0000000001"), prec)
		hi := amm.TickToIndex(c05Dec("10000000000"), prec)
		lp := amm.TickFromIndex(lo+r.Intn(hi-lo+1), prec)
		lowest, highest := liqtypes.PriceLimits(lp, sdkmath.LegacyNewDecWithPrec(1, 1), prec)
		// pool price within a few percent of the last price; sometimes outside the limits (BuyAmountTo / SellAmountTo branch)
		dev := int64(r.Intn(61) - 30)
		switch r.Intn(6) {
		case 0:
			dev = int64(r.Intn(601) - 300)
		case 1:
			dev = 0
		}
		pp := lp.Mul(sdkmath.LegacyNewDec(1000 + dev)).QuoInt64(1000)
		var ry sdkmath.Int
		switch r.Intn(5) {
		case 0:
			ry = sdkmath.NewInt(int64(1 + r.Intn(3000))) // tiny reserves: orders below MinCoinAmount, early breaks
		case 1:
			ry = c05Pow10(20 + r.Intn(15)).MulRaw(int64(1 + r.Intn(9)))
		default:
			ry = c05Pow10(3 + r.Intn(12)).MulRaw(int64(1 + r.Intn(999))).AddRaw(int64(r.Intn(1000)))
		}
		rx := pp.MulInt(ry).TruncateInt().AddRaw(int64(r.Intn(3)))
		if r.Chance(3) {
			rx = sdkmath.ZeroInt()
		}
		if r.Chance(3) {
			ry = sdkmath.ZeroInt()
		}
		pool := amm.NewBasicPool(rx, ry, sdkmath.OneInt())
		// curve functions at prices around the pool price
		for q := 0; q < 3; q++ {
			price := amm.TickFromIndex(amm.TickToIndex(lp, prec)+r.Intn(81)-40, prec)
			if r.Chance(10) {
				price = price.Add(sdkmath.LegacyNewDecWithPrec(int64(r.Intn(3)-1), 18))
			}
			price = c05EdgePrice(tr, r, price, func() sdkmath.LegacyDec { return pool.Price() })
			for _, fn := range []string{"price", "bo", "su", "bt", "st"} {
				out := "panic"
				try(func() {
					switch fn {
					case "price":
						out = c05Raw(pool.Price())
					case "bo":
						out = pool.BuyAmountOver(price, true).String()
					case "su":
						out = pool.SellAmountUnder(price, true).String()
					case "bt":
						out = pool.BuyAmountTo(price).String()
					case "st":
						out = pool.SellAmountTo(price).String()
					}
				})
				tr.Line("amm.bp", fn, rx.String(), ry.String(), c05Raw(price), out)
			}
		}
		buys := amm.PoolBuyOrders(pool, amm.DefaultOrderer, lowest, highest, prec)
		sells := amm.PoolSellOrders(pool, amm.DefaultOrderer, lowest, highest, prec)
		switch {
		case len(buys) == 0 && len(sells) == 0:
			tr.Count("pool-orders:none")
		case len(buys)+len(sells) < 20:
			tr.Count("pool-orders:1-19")
		default:
			tr.Count("pool-orders:20+")
		}
		tr.Line("amm.pool", rx.String(), ry.String(), c05Raw(lowest), c05Raw(highest), strconv.Itoa(prec), list(buys), list(sells))
	}
}

func c05OpMatch(tr *Trace, os []*c05Order, lp sdkmath.LegacyDec) {
	snap := c05Snapshot(os)
	var dir, outcome, mp, qcd = "0", "", "-", "-"
	panicked, _ := try(func() {
		ob := amm.NewOrderBook(c05Objs(os)...)
		dir = strconv.Itoa(int(ob.PriceDirection(lp)))
		matchPrice, q, matched := ob.Match(lp)
		if matched {
			outcome = "ok"
			mp = c05Raw(matchPrice)
			qcd = q.String()
		} else {
			outcome = "nomatch"
		}
	})
	if panicked {
		outcome = "panic"
	}
	tr.Count("match:" + outcome + ":dir" + dir)
	c05Stats(tr, os, snap, true)
	tr.Line("amm.op", "match", c05Raw(lp), dir, outcome, mp, qcd, c05Results(os))
}

func c05OpDist(tr *Trace, os []*c05Order, amt sdkmath.Int, p sdkmath.LegacyDec) {
	snap := c05Snapshot(os)
	var outcome, qcd = "", "-"
	panicked, _ := try(func() {
		list := c05Objs(os)
		amm.SortOrders(list)
		q := amm.DistributeOrderAmountToOrders(list, amt, p)
		outcome = "ok"
		qcd = q.String()
	})
	if panicked {
		outcome = "panic"
	}
	tr.Count("dist:" + outcome)
	c05Stats(tr, os, snap, false)
	tr.Line("amm.op", "dist", amt.String(), c05Raw(p), outcome, qcd, c05Results(os))
}

func c05OpFill(tr *Trace, os []*c05Order, idx int, amt sdkmath.Int, p sdkmath.LegacyDec) {
	var outcome, qcd, mat = "", "-", "-"
	panicked, _ := try(func() {
		mat = amm.MatchableAmount(os[idx].o, p).String()
		q := amm.FillOrder(os[idx].o, amt, p)
		outcome = "ok"
		qcd = q.String()
	})
	if panicked {
		outcome = "panic"
	}
	tr.Count("fill:" + outcome)
	tr.Line("amm.op", "fill", strconv.Itoa(os[idx].id), amt.String(), c05Raw(p), mat, outcome, qcd, c05Results(os))
}

func c05Begin(tr *Trace, os []*c05Order) {
	tr.Line("amm.begin")
	for _, x := range os {
		c05OrderLine(tr, x)
	}
}

func c05Dec(s string) sdkmath.LegacyDec { return sdkmath.LegacyMustNewDecFromStr(s) }

func c05Pow10(e int) sdkmath.Int {
	x := big.NewInt(10)
	x.Exp(x, big.NewInt(int64(e)), nil)
	return sdkmath.NewIntFromBigInt(x)
}

// ceil(1/p): the smallest amount whose quote value reaches one unit
func c05UnitAmount(p sdkmath.LegacyDec) sdkmath.Int {
	return sdkmath.LegacyOneDec().QuoRoundUp(p).Ceil().TruncateInt()
}

type c05Gen struct {
	rng      *Rng
	prec     int
	loIdx    int
	hiIdx    int
	center   int
	lastAmts []sdkmath.Int
}

func (g *c05Gen) tick(delta int) sdkmath.LegacyDec {
	i := g.center + delta
	if i < g.loIdx {
		i = g.loIdx
	}
	if i > g.hiIdx {
		i = g.hiIdx
	}
	return amm.TickFromIndex(i, g.prec)
}

func (g *c05Gen) amount(tr *Trace, p sdkmath.LegacyDec) sdkmath.Int {
	r := g.rng
	unit := c05UnitAmount(p)
	var a sdkmath.Int
	c := r.Intn(100)
	switch {
	case c < 22 && len(g.lastAmts) > 0: // equal-amount groups
		a = g.lastAmts[r.Intn(len(g.lastAmts))]
		tr.Count("amt:equal-to-earlier")
	case c < 45: // p·a straddling k quote units
		k := int64(1 + r.Intn(4))
		a = unit.MulRaw(k).AddRaw(int64(r.Intn(3) - 1))
		tr.Count("amt:straddle-unit")
	case c < 55: // a little below twice the unit: half of it is worth nothing (D2 shape)
		a = unit.MulRaw(2).SubRaw(int64(1 + r.Intn(3)))
		tr.Count("amt:below-2-units")
	case c < 67:
		a = sdkmath.NewInt(int64(1 + r.Intn(200)))
		tr.Count("amt:tiny")
	case c < 85:
		a = sdkmath.NewInt(int64(100 + r.Intn(10000000)))
		tr.Count("amt:mid")
	case c < 93: // around the unit amount times a random factor
		a = unit.MulRaw(int64(1 + r.Intn(1000))).AddRaw(int64(r.Intn(1000)))
		tr.Count("amt:unit-multiple")
	default:
		e := 20 + r.Intn(20)
		a = c05Pow10(e).MulRaw(int64(1 + r.Intn(9))).AddRaw(int64(r.Intn(1000)))
		if a.GT(amm.MaxCoinAmount) {
			a = amm.MaxCoinAmount
		}
		tr.Count("amt:huge")
	}
	if !a.IsPositive() {
		a = sdkmath.OneInt()
	}
	if a.GT(amm.MaxCoinAmount) {
		a = amm.MaxCoinAmount
	}
	g.lastAmts = append(g.lastAmts, a)
	return a
}

func (g *c05Gen) book(tr *Trace) []*c05Order {
	r := g.rng
	g.prec = 1 + r.Intn(4)
	g.loIdx = amm.TickToIndex(c05Dec("0.00000000000001"), g.prec)
	g.hiIdx = amm.TickToIndex(c05Dec("100000000000000000000"), g.prec)
	switch r.Intn(10) {
	case 0:
		g.center = g.loIdx + r.Intn(30)
	case 1:
		g.center = g.hiIdx - r.Intn(30)
	case 2, 3: // around 1.0, the usual place
		g.center = amm.TickToIndex(c05Dec("1"), g.prec) + r.Intn(200) - 100
	default:
		g.center = g.loIdx + r.Intn(g.hiIdx-g.loIdx+1)
	}
	g.lastAmts = nil
	typed := r.Chance(70) // user/pool orders with batch ids; otherwise plain BaseOrders
	if typed {
		tr.Count("book:user+pool-orders")
	} else {
		tr.Count("book:base-orders")
	}
	spread := 1 + r.Intn(4)
	crossed := r.Chance(85)
	nb, ns := 1+r.Intn(6), 1+r.Intn(6)
	if r.Chance(5) {
		if r.Chance(50) {
			nb = 0
		} else {
			ns = 0
		}
	}
	var os []*c05Order
	mk := func(dir amm.OrderDirection) {
		var delta int
		d := r.Intn(spread + 1)
		if (dir == amm.Buy) == crossed {
			delta = d
		} else {
			delta = -d
		}
		if r.Chance(10) {
			delta = -delta
		}
		if r.Chance(3) {
			delta *= 1 + r.Intn(2000)
		}
		price := g.tick(delta)
		amt := g.amount(tr, price)
		offer := amm.OfferCoinAmount(dir, price, amt)
		switch c := r.Intn(100); {
		case c < 12: // more offer coin than needed
			offer = offer.AddRaw(int64(1 + r.Intn(5)))
			tr.Count("offer:surplus")
		case c < 24 && dir == amm.Buy: // less than needed (a remainder of an earlier batch)
			offer = offer.SubRaw(int64(1 + r.Intn(3)))
			if !offer.IsPositive() {
				offer = sdkmath.OneInt()
			}
			tr.Count("offer:short")
		default:
			tr.Count("offer:exact")
		}
		kind, oid, batch := 2, uint64(0), uint64(0)
		if typed {
			if r.Chance(15) {
				kind, oid = 1, uint64(1+r.Intn(3))
				tr.Count("order:pool")
			} else {
				kind, oid = 0, uint64(1+r.Intn(40))
				switch r.Intn(4) {
				case 0:
					batch = 0
				default:
					batch = uint64(r.Intn(4))
				}
				tr.Count("order:user:batch" + u(batch))
			}
		}
		os = append(os, c05New(len(os), kind, oid, batch, dir, price, amt, offer))
	}
	for i := 0; i < nb; i++ {
		mk(amm.Buy)
	}
	for i := 0; i < ns; i++ {
		mk(amm.Sell)
	}
	// shuffle insertion order
	for i := len(os) - 1; i > 0; i-- {
		j := r.Intn(i + 1)
		os[i], os[j] = os[j], os[i]
	}
	for i := range os {
		os[i].id = i
	}
	return os
}

func (g *c05Gen) opPrice(os []*c05Order) sdkmath.LegacyDec {
	r := g.rng
	switch c := r.Intn(100); {
	case c < 30 && len(os) > 0:
		return os[r.Intn(len(os))].o.GetPrice()
	case c < 55 && len(os) > 1:
		// a tick between the prices of two orders (inside the spread when they are a crossing buy and sell)
		a := amm.TickToIndex(os[r.Intn(len(os))].o.GetPrice(), g.prec)
		b := amm.TickToIndex(os[r.Intn(len(os))].o.GetPrice(), g.prec)
		if a > b {
			a, b = b, a
		}
		return amm.TickFromIndex(a+r.Intn(b-a+1), g.prec)
	case c < 90:
		return g.tick(r.Intn(9) - 4)
	default:
		return g.tick((r.Intn(9) - 4) * (1 + r.Intn(3000)))
	}
}

func (g *c05Gen) op(tr *Trace, os []*c05Order) {
	r := g.rng
	switch c := r.Intn(100); {
	case c < 45:
		c05OpMatch(tr, os, g.opPrice(os))
	case c < 80:
		if r.Chance(40) {
			c05OpFirst(tr, os, g.prec)
		} else {
			c05OpSingle(tr, os, g.opPrice(os))
		}
	case c < 92:
		// DistributeOrderAmountToOrders directly on the orders of one side, at a common price
		p := g.opPrice(os)
		total := sdkmath.ZeroInt()
		for _, x := range os {
			total = total.Add(amm.MatchableAmount(x.o, p))
		}
		var amt sdkmath.Int
		switch r.Intn(6) {
		case 0:
			amt = total
		case 1:
			amt = total.AddRaw(int64(r.Intn(3)))
		case 2:
			amt = sdkmath.NewInt(int64(r.Intn(5)))
		default:
			if total.IsPositive() {
				amt = total.MulRaw(int64(r.Intn(1000))).QuoRaw(1000)
			} else {
				amt = sdkmath.ZeroInt()
			}
		}
		c05OpDist(tr, os, amt, p)
	default:
		if len(os) == 0 {
			return
		}
		idx := r.Intn(len(os))
		p := g.opPrice(os)
		m := amm.MatchableAmount(os[idx].o, p)
		var amt sdkmath.Int
		switch r.Intn(6) {
		case 0:
			amt = m
		case 1:
			amt = m.AddRaw(1) // panics
		case 2:
			amt = sdkmath.OneInt()
		default:
			if m.IsPositive() {
				amt = m.MulRaw(int64(r.Intn(1000))).QuoRaw(1000)
			} else {
				amt = sdkmath.ZeroInt()
			}
		}
		c05OpFill(tr, os, idx, amt, p)
	}
}

// a keeper-shaped book (keeper/swap.go Match with a last price): user orders around the last price plus the orders that the
// REAL amm.PoolOrders generates for one or two real pools inside the price limits; returns the book and the last price
func (g *c05Gen) poolBook(tr *Trace) ([]*c05Order, sdkmath.LegacyDec) {
	r := g.rng
	g.prec = 3 + r.Intn(2)
	g.loIdx = amm.TickToIndex(c05Dec("0.00000000000001"), g.prec)
	g.hiIdx = amm.TickToIndex(c05Dec("100000000000000000000"), g.prec)
	lo := amm.TickToIndex(c05Dec("0.000001"), g.prec)
	hi := amm.TickToIndex(c05Dec("1000000"), g.prec)
	g.center = lo + r.Intn(hi-lo+1)
	g.lastAmts = nil
	lp := g.tick(0)
	lowest, highest := liqtypes.PriceLimits(lp, sdkmath.LegacyNewDecWithPrec(1, 1), g.prec)
	var os []*c05Order
	npools := 1 + r.Intn(2)
	for pi := 0; pi < npools; pi++ {
		// pool price near the last price (within a few percent, sometimes outside the limits)
		dev := int64(r.Intn(61) - 30) // per mille
		if r.Chance(10) {
			dev = int64(r.Intn(401) - 200)
		}
		pp := lp.Mul(sdkmath.LegacyNewDec(1000 + dev)).QuoInt64(1000)
		ry := c05Pow10(3 + r.Intn(9)).MulRaw(int64(1 + r.Intn(9)))
		rx := pp.MulInt(ry).TruncateInt()
		if !rx.IsPositive() {
			continue
		}
		var pool amm.Pool
		if r.Chance(50) {
			bp, err := amm.CreateBasicPool(rx, ry)
			if err != nil {
				tr.Count("pool:basic-rejected")
				continue
			}
			pool = bp
			tr.Count("pool:basic")
		} else {
			minP := amm.PriceToDownTick(pp.Mul(c05Dec("0.9")), g.prec)
			maxP := amm.PriceToUpTick(pp.Mul(c05Dec("1.1")), g.prec)
			rp, err := amm.CreateRangedPool(rx, ry, minP, maxP, pp)
			if err != nil {
				tr.Count("pool:ranged-rejected")
				continue
			}
			pool = rp
			tr.Count("pool:ranged")
			// the orders this ranged pool contributes to the book are checked against the model too
			if r.Chance(scale(25, 30)) {
				prx, pry := rp.Balances()
				c05RangedPoolLine(tr, prx, pry, minP, maxP, lowest, highest, g.prec)
			}
		}
		orderer := liqtypes.NewPoolOrderer(pool, uint64(pi+1), nil, "base", "quote")
		var pos []amm.Order
		panicked, _ := try(func() { pos = amm.PoolOrders(pool, orderer, lowest, highest, g.prec) })
		if panicked {
			tr.Count("pool:orders-panic")
			continue
		}
		if len(pos) > 60 { // keep the books readable: the first orders on each side are the ones that trade
			var nb, ns int
			var kept []amm.Order
			for _, o := range pos {
				if o.GetDirection() == amm.Buy && nb < 30 {
					nb++
					kept = append(kept, o)
				} else if o.GetDirection() == amm.Sell && ns < 30 {
					ns++
					kept = append(kept, o)
				}
			}
			pos = kept
		}
		for _, o := range pos {
			os = append(os, &c05Order{id: len(os), kind: 1, oid: uint64(pi + 1), o: o})
			tr.Count("order:pool-generated")
		}
	}
	nu := 1 + r.Intn(8)
	for i := 0; i < nu; i++ {
		dir := amm.Buy
		if r.Chance(50) {
			dir = amm.Sell
		}
		delta := r.Intn(41) - 20
		if (dir == amm.Buy) == r.Chance(70) {
			if delta < 0 {
				delta = -delta
			}
		}
		price := g.tick(delta)
		if price.LT(lowest) {
			price = lowest
		}
		if price.GT(highest) {
			price = highest
		}
		amt := g.amount(tr, price)
		if amt.GT(c05Pow10(14)) {
			amt = c05Pow10(3 + r.Intn(10))
		}
		offer := amm.OfferCoinAmount(dir, price, amt)
		os = append(os, c05New(len(os), 0, uint64(1+r.Intn(40)), uint64(r.Intn(3)), dir, price, amt, offer))
		tr.Count("order:user:with-pools")
	}
	return os, lp
}

// one-sided list for direct DistributeOrderAmountToOrders calls: same direction, same price, batch mix
func (g *c05Gen) oneSided(tr *Trace) []*c05Order {
	os := g.book(tr)
	if len(os) == 0 {
		return os
	}
	dir := os[0].o.GetDirection()
	var r []*c05Order
	for _, x := range os {
		if x.o.GetDirection() == dir {
			x.id = len(r)
			r = append(r, x)
		}
	}
	return r
}

func TestC05(t *testing.T) {
	tr := OpenTrace(t, "c05.trace")
	defer tr.Close(t)
	rng := NewRng(seed())

	// ---- corpus: witness of defect D2 (DESIGN.md §7) first ------------------------------------------------
	{
		p1, p2, lp := c05Dec("0.0001"), c05Dec("0.0002"), c05Dec("0.00009")
		os := []*c05Order{
			c05New(0, 2, 0, 0, amm.Sell, p1, sdkmath.NewInt(15000), sdkmath.NewInt(15000)),
			c05New(1, 2, 0, 0, amm.Sell, p1, sdkmath.NewInt(15000), sdkmath.NewInt(15000)),
			c05New(2, 2, 0, 0, amm.Buy, p2, sdkmath.NewInt(16000), amm.OfferCoinAmount(amm.Buy, p2, sdkmath.NewInt(16000))),
		}
		c05Begin(tr, os)
		c05OpMatch(tr, os, lp)
		// the same shape through MatchAtSinglePrice (first batch of a pair: no last price) and with user orders of one batch
		os = []*c05Order{
			c05New(0, 0, 1, 3, amm.Sell, p1, sdkmath.NewInt(15000), sdkmath.NewInt(15000)),
			c05New(1, 0, 2, 3, amm.Sell, p1, sdkmath.NewInt(15000), sdkmath.NewInt(15000)),
			c05New(2, 0, 3, 3, amm.Buy, p2, sdkmath.NewInt(16000), amm.OfferCoinAmount(amm.Buy, p2, sdkmath.NewInt(16000))),
		}
		c05Begin(tr, os)
		c05OpSingle(tr, os, p1)
	}
	// ---- corpus: the dust clause as written (dust < #fills) fails on a D2 book — quote_dust_counterexample -------------
	// sells 1000 @ 0.1 and 5 x 10 @ 0.1 (one batch), buy 1045 @ 0.2, last price 0.09: quoteCoinDiff 5 after 2 fills (45 base dropped)
	{
		p1, p2, lp := c05Dec("0.1"), c05Dec("0.2"), c05Dec("0.09")
		os := []*c05Order{c05New(0, 2, 0, 0, amm.Sell, p1, sdkmath.NewInt(1000), sdkmath.NewInt(1000))}
		for i := 1; i <= 5; i++ {
			os = append(os, c05New(i, 2, 0, 0, amm.Sell, p1, sdkmath.NewInt(10), sdkmath.NewInt(10)))
		}
		os = append(os, c05New(6, 2, 0, 0, amm.Buy, p2, sdkmath.NewInt(1045), amm.OfferCoinAmount(amm.Buy, p2, sdkmath.NewInt(1045))))
		c05Begin(tr, os)
		c05OpMatch(tr, os, lp)
		// the same through MatchAtSinglePrice at 0.1 with user orders of one batch
		os = []*c05Order{c05New(0, 0, 1, 2, amm.Sell, p1, sdkmath.NewInt(1000), sdkmath.NewInt(1000))}
		for i := 1; i <= 5; i++ {
			os = append(os, c05New(i, 0, uint64(i+1), 2, amm.Sell, p1, sdkmath.NewInt(10), sdkmath.NewInt(10)))
		}
		os = append(os, c05New(6, 0, 7, 2, amm.Buy, p2, sdkmath.NewInt(1045), amm.OfferCoinAmount(amm.Buy, p2, sdkmath.NewInt(1045))))
		c05Begin(tr, os)
		c05OpSingle(tr, os, p1)
	}
	// a few books of the repository's own tests (match_test.go) as anchors
	{
		one := c05Dec("1.0")
		os := []*c05Order{
			c05New(0, 2, 0, 0, amm.Buy, c05Dec("1.1"), sdkmath.NewInt(10000), amm.OfferCoinAmount(amm.Buy, c05Dec("1.1"), sdkmath.NewInt(10000))),
			c05New(1, 2, 0, 0, amm.Sell, c05Dec("0.9"), sdkmath.NewInt(10000), sdkmath.NewInt(10000)),
		}
		c05Begin(tr, os)
		c05OpMatch(tr, os, one)
	}

	c05TickLines(tr, rng, scale(3000, 60000))
	c05PoolCapLines(tr)
	c05PoolLines(tr, rng, scale(1200, 10000))
	c05RangedLines(tr, rng, scale(300, 5000))

	g := &c05Gen{rng: rng}
	books := scale(36000, 400000)
	for b := 0; b < books; b++ {
		var os []*c05Order
		if rng.Chance(6) {
			var lp sdkmath.LegacyDec
			os, lp = g.poolBook(tr)
			tr.Count("case:pool-book")
			c05Begin(tr, os)
			c05OpMatch(tr, os, lp)
			continue
		}
		if rng.Chance(3) {
			tr.Count("case:first-batch-with-pools")
			g.firstPoolsCase(tr)
			continue
		}
		if rng.Chance(12) {
			os = g.oneSided(tr)
			tr.Count("case:one-sided")
		} else {
			os = g.book(tr)
			tr.Count("case:book")
		}
		c05Begin(tr, os)
		if rng.Chance(35) {
			c05ViewLines(tr, g, os)
		}
		g.op(tr, os)
		for rng.Chance(25) { // further calls on the mutated orders (states with paid > 0, open < amount)
			tr.Count("op:follow-up")
			g.op(tr, os)
		}
	}
}
