//go:build verif

package harness

// C11 — bidders' funds in English-style auctions (x/auction surplus + debt, x/auctionsV2 English) and
// limit-bid deposits (x/auctionsV2). Drives the REAL app: auctions are started and closed by the real
// BeginBlockers, user messages go through ValidateBasic + app.MsgServiceRouter().Handler(msg) on a
// CacheContext that is written back only on success. One trace line per message / block, each followed by
// the full state projection (balances, live auction records, limit-bid records, BidValue totals).
//
// Accounts in the trace are small integers: 0 = the auction module account (custody), 1 = the collector
// module account, 2.. = users.  Denominations are indices into c11Denoms.

import (
	"fmt"
	"math"
	"sort"
	"strings"
	"testing"
	"time"

	chain "github.com/comdex-official/comdex/app"
	"github.com/comdex-official/comdex/app/wasm/bindings"
	assettypes "github.com/comdex-official/comdex/x/asset/types"
	"github.com/comdex-official/comdex/x/auction"
	auctiontypes "github.com/comdex-official/comdex/x/auction/types"
	"github.com/comdex-official/comdex/x/auctionsV2"
	auctionsV2types "github.com/comdex-official/comdex/x/auctionsV2/types"
	collectortypes "github.com/comdex-official/comdex/x/collector/types"
	esmtypes "github.com/comdex-official/comdex/x/esm/types"
	"github.com/comdex-official/comdex/x/liquidationsV2"
	liquidationsV2types "github.com/comdex-official/comdex/x/liquidationsV2/types"
	tokenmintkeeper "github.com/comdex-official/comdex/x/tokenmint/keeper"
	tokenminttypes "github.com/comdex-official/comdex/x/tokenmint/types"
	abci "github.com/cometbft/cometbft/abci/types"
	tmproto "github.com/cometbft/cometbft/proto/tendermint/types"
	sdk "github.com/cosmos/cosmos-sdk/types"
)

// asset ids 1..4 are created in this order; index in c11Denoms = asset id - 1; index 4 is a denom nobody holds
var c11Denoms = []string{"ucmdx", "ucmst", "uharbor", "uother", "ufoo"}

const c11T0 = int64(1700000000)

type c11Mapping struct {
	asset     uint64 // collector asset id
	secondary uint64
	debt      bool // debt auction (else surplus)
	lot       int64
	debtLot   int64
	factor    sdk.Dec
}

type c11Env struct {
	t       *testing.T
	tr      *Trace
	rng     *Rng
	app     *chain.App
	ver     int
	ctx     sdk.Context
	now     int64
	height  int64
	accts   []sdk.AccAddress // 0 custody, 1 collector, 2.. users
	acctIdx map[string]int
	nUsers  int
	// V2 limit-bid universe
	pairs    [][2]uint64 // (debt asset, collateral asset)
	premiums []int64
	dur      int64
	bidDur   int64
}

func c11DenomIdx(d string) int {
	for i, x := range c11Denoms {
		if x == d {
			return i
		}
	}
	return 99
}

func c11User(i int) sdk.AccAddress { return sdk.AccAddress([]byte(fmt.Sprintf("c11user%013d", i))) }

func c11Must(t *testing.T, err error, what string) {
	if err != nil {
		t.Fatalf("%s: %v", what, err)
	}
}

// c11Base builds an app with the assets, one app record (id 1) that may genesis-mint cmst and harbor (so that
// tokenmint burn / mint at auction close work), and funds nobody.
func c11Base(t *testing.T) (*chain.App, sdk.Context) {
	app := chain.Setup(t, false)
	ctx := app.BaseApp.NewContext(false, tmproto.Header{Height: 1, Time: time.Unix(c11T0, 0).UTC()})
	treasury := sdk.AccAddress([]byte("c11treasury000000001"))
	huge, _ := sdk.NewIntFromString("1000000000000000000000000000000")
	c11Must(t, app.AssetKeeper.AddAppRecords(ctx, assettypes.AppData{
		Name: "cswap", ShortName: "cswap", MinGovDeposit: sdk.NewInt(0), GovTimeInSeconds: 0,
		GenesisToken: []assettypes.MintGenesisToken{
			{AssetId: 3, GenesisSupply: huge, IsGovToken: true, Recipient: treasury.String()},
			{AssetId: 2, GenesisSupply: huge, IsGovToken: false, Recipient: treasury.String()},
		},
	}), "app")
	for i, n := range []string{"CMDX", "CMST", "HARBOR", "OTHER"} {
		c11Must(t, app.AssetKeeper.AddAssetRecords(ctx, assettypes.Asset{
			Name: n, Denom: c11Denoms[i], Decimals: sdk.NewInt(1000000), IsOnChain: true, IsCdpMintable: true,
		}), "asset")
	}
	srv := tokenmintkeeper.NewMsgServer(app.TokenmintKeeper)
	for _, a := range []uint64{3, 2} {
		_, err := srv.MsgMintNewTokens(sdk.WrapSDKContext(ctx), &tokenminttypes.MsgMintNewTokensRequest{From: treasury.String(), AppId: 1, AssetId: a})
		c11Must(t, err, "tokenmint genesis")
	}
	return app, ctx
}

func (e *c11Env) fund(addr sdk.AccAddress, denom string, amt int64) {
	if amt <= 0 {
		return
	}
	c := sdk.NewCoins(sdk.NewCoin(denom, sdk.NewInt(amt)))
	c11Must(e.t, e.app.BankKeeper.MintCoins(e.ctx, liquidationsV2types.ModuleName, c), "mint")
	c11Must(e.t, e.app.BankKeeper.SendCoinsFromModuleToAccount(e.ctx, liquidationsV2types.ModuleName, addr, c), "fund")
}

func (e *c11Env) fundModule(module, denom string, amt int64) {
	c := sdk.NewCoins(sdk.NewCoin(denom, sdk.NewInt(amt)))
	c11Must(e.t, e.app.BankKeeper.MintCoins(e.ctx, liquidationsV2types.ModuleName, c), "mint")
	c11Must(e.t, e.app.BankKeeper.SendCoinsFromModuleToModule(e.ctx, liquidationsV2types.ModuleName, module, c), "fund module")
}

// setMapping installs one collector lookup table + auction mapping and sets the net fees so that the real
// activator starts an auction of the wanted kind in the next block (and `rounds` more after each close).
func (e *c11Env) setMapping(m c11Mapping, rounds int64) {
	surplusThr, debtThr := int64(1000000), int64(1000000000000)
	c11Must(e.t, e.app.CollectorKeeper.WasmSetCollectorLookupTable(e.ctx, &bindings.MsgSetCollectorLookupTable{
		AppID: 1, CollectorAssetID: m.asset, SecondaryAssetID: m.secondary,
		SurplusThreshold: sdk.NewInt(surplusThr), DebtThreshold: sdk.NewInt(debtThr),
		LockerSavingRate: sdk.ZeroDec(), LotSize: sdk.NewInt(m.lot), BidFactor: m.factor, DebtLotSize: sdk.NewInt(m.debtLot),
	}), "lookup table")
	c11Must(e.t, e.app.CollectorKeeper.WasmSetAuctionMappingForApp(e.ctx, &bindings.MsgSetAuctionMappingForApp{
		AppID: 1, AssetIDs: m.asset, IsSurplusAuctions: !m.debt, IsDebtAuctions: m.debt, AssetOutPrices: 1000000,
	}), "auction mapping")
	denom := c11Denoms[m.asset-1]
	if m.debt {
		// net fees <= debtThreshold - lot; each close adds lot
		nf := debtThr - m.lot*(rounds+1)
		if nf < 0 {
			nf = 0
		}
		c11Must(e.t, e.app.CollectorKeeper.SetNetFeeCollectedData(e.ctx, 1, m.asset, sdk.NewInt(nf)), "net fees")
	} else {
		// net fees >= surplusThreshold + lot; each start takes lot. The second generation sends the lot a second
		// time at close (and parks the first copy in the x/auction module), so the collector is funded generously.
		c11Must(e.t, e.app.CollectorKeeper.SetNetFeeCollectedData(e.ctx, 1, m.asset, sdk.NewInt(surplusThr+m.lot*(rounds+1)+1)), "net fees")
		e.fundModule(collectortypes.ModuleName, denom, (m.lot+1)*(2*rounds+4))
	}
}

func (e *c11Env) setup(ver int, maps []c11Mapping, rounds int64, cf, wf sdk.Dec, v2factor sdk.Dec, funds [][]int64) {
	e.ver = ver
	e.now = c11T0
	e.height = 1
	custody := auctiontypes.ModuleName
	if ver == 2 {
		custody = auctionsV2types.ModuleName
	}
	e.accts = []sdk.AccAddress{e.app.AccountKeeper.GetModuleAddress(custody), e.app.AccountKeeper.GetModuleAddress(collectortypes.ModuleName)}
	for i := 0; i < e.nUsers; i++ {
		e.accts = append(e.accts, c11User(i))
	}
	e.acctIdx = map[string]int{}
	for i, a := range e.accts {
		e.acctIdx[a.String()] = i
	}
	if ver == 1 {
		e.app.AuctionKeeper.SetAuctionParams(e.ctx, auctiontypes.AuctionParams{
			AppId: 1, AuctionDurationSeconds: uint64(e.dur), Buffer: sdk.MustNewDecFromStr("1.2"), Cusp: sdk.MustNewDecFromStr("0.6"),
			Step: sdk.NewIntFromUint64(1), PriceFunctionType: 1, SurplusId: 1, DebtId: 2, DutchId: 3, BidDurationSeconds: uint64(e.bidDur),
		})
	} else {
		e.app.NewaucKeeper.SetAuctionParams(e.ctx, auctionsV2types.AuctionParams{
			AuctionDurationSeconds: uint64(e.dur), Step: sdk.MustNewDecFromStr("0.1"), WithdrawalFee: wf, ClosingFee: cf,
			MinUsdValueLeft: 100000, BidFactor: v2factor, LiquidationPenalty: sdk.MustNewDecFromStr("0.1"), AuctionBonus: sdk.ZeroDec(),
		})
		e.app.NewliqKeeper.SetLiquidationWhiteListing(e.ctx, liquidationsV2types.LiquidationWhiteListing{
			AppId: 1, Initiator: true, IsDutchActivated: false, IsEnglishActivated: true,
			EnglishAuctionParam: &liquidationsV2types.EnglishAuctionParam{DecrementFactor: sdk.NewInt(1)}, KeeeperIncentive: sdk.ZeroDec(),
		})
	}
	for _, m := range maps {
		e.setMapping(m, rounds)
	}
	for i := 0; i < e.nUsers; i++ {
		for d := 0; d < 4; d++ {
			e.fund(e.accts[2+i], c11Denoms[d], funds[i][d])
		}
	}
}

func (e *c11Env) who(addr string) int {
	if i, ok := e.acctIdx[addr]; ok {
		return i
	}
	return -2
}

type c11Auc struct {
	app, mapping, id     uint64
	kind                 int // 0 surplusV1 1 debtV1 2 surplusV2 3 debtV2
	payDenom, lotDenom   int
	pay, lot, lot0       sdk.Int
	bidder               int
	nbids                int
	factor               sdk.Dec
	endT, bidEndT        int64
	payDenomS, lotDenomS string
}

func (e *c11Env) auctions() []c11Auc {
	var out []c11Auc
	if e.ver == 1 {
		for _, a := range e.app.AuctionKeeper.GetSurplusAuctions(e.ctx, 1) {
			b := -1
			if a.Bidder != nil {
				b = e.who(a.Bidder.String())
			}
			out = append(out, c11Auc{app: a.AppId, mapping: a.AuctionMappingId, id: a.AuctionId, kind: 0,
				payDenom: c11DenomIdx(a.Bid.Denom), lotDenom: c11DenomIdx(a.SellToken.Denom), pay: a.Bid.Amount, lot: a.SellToken.Amount,
				lot0: a.SellToken.Amount, bidder: b, nbids: len(a.BiddingIds), factor: a.BidFactor, endT: a.EndTime.Unix(), bidEndT: a.BidEndTime.Unix(),
				payDenomS: a.Bid.Denom, lotDenomS: a.SellToken.Denom})
		}
		for _, a := range e.app.AuctionKeeper.GetDebtAuctions(e.ctx, 1) {
			b := -1
			if a.Bidder != nil {
				b = e.who(a.Bidder.String())
			}
			out = append(out, c11Auc{app: a.AppId, mapping: a.AuctionMappingId, id: a.AuctionId, kind: 1,
				payDenom: c11DenomIdx(a.ExpectedUserToken.Denom), lotDenom: c11DenomIdx(a.ExpectedMintedToken.Denom), pay: a.ExpectedUserToken.Amount,
				lot: a.ExpectedMintedToken.Amount, lot0: a.AuctionedToken.Amount, bidder: b, nbids: len(a.BiddingIds), factor: a.BidFactor,
				endT: a.EndTime.Unix(), bidEndT: a.BidEndTime.Unix(), payDenomS: a.ExpectedUserToken.Denom, lotDenomS: a.ExpectedMintedToken.Denom})
		}
	} else {
		params, _ := e.app.NewaucKeeper.GetAuctionParams(e.ctx)
		for _, a := range e.app.NewaucKeeper.GetAuctions(e.ctx) {
			if a.AuctionType {
				continue
			}
			lv, _ := e.app.NewliqKeeper.GetLockedVault(e.ctx, a.AppId, a.LockedVaultId)
			kind := 2
			if lv.InitiatorType == auctionsV2types.DebtAuctionInitiator {
				kind = 3
			}
			b := -1
			if a.ActiveBiddingId != 0 {
				ub, err := e.app.NewaucKeeper.GetUserBid(e.ctx, a.ActiveBiddingId)
				if err == nil {
					b = e.who(ub.BidderAddress)
				} else {
					b = -2
				}
			}
			out = append(out, c11Auc{app: a.AppId, mapping: 0, id: a.AuctionId, kind: kind,
				payDenom: c11DenomIdx(a.DebtToken.Denom), lotDenom: c11DenomIdx(a.CollateralToken.Denom), pay: a.DebtToken.Amount, lot: a.CollateralToken.Amount,
				lot0: sdk.ZeroInt(), bidder: b, nbids: len(a.BiddingIds), factor: params.BidFactor, endT: a.EndTime.Unix(), bidEndT: a.EndTime.Unix(),
				payDenomS: a.DebtToken.Denom, lotDenomS: a.CollateralToken.Denom})
		}
	}
	sort.Slice(out, func(i, j int) bool { return out[i].id < out[j].id })
	return out
}

// state prints the projection the property's invariants range over.
func (e *c11Env) state() string {
	var bank []string
	for ai, a := range e.accts {
		for di, d := range c11Denoms {
			b := e.app.BankKeeper.GetBalance(e.ctx, a, d).Amount
			if !b.IsZero() {
				bank = append(bank, fmt.Sprintf("%d:%d:%s", ai, di, b.String()))
			}
		}
	}
	var aucs []string
	for _, a := range e.auctions() {
		aucs = append(aucs, fmt.Sprintf("%d:%d:%d:%d:%d:%d:%s:%s:%s:%d:%d:%s:%d:%d:%d:%d", a.app, a.mapping, a.id, a.kind, a.payDenom, a.lotDenom,
			a.pay.String(), a.lot.String(), a.lot0.String(), a.bidder, a.nbids, a.factor.BigInt().String(), a.endT, a.bidEndT, e.dur, e.bidDur))
	}
	var deps, bv []string
	if e.ver == 2 {
		type dep struct {
			debt, coll uint64
			prem       int64
			who        int
			s          string
		}
		var ds []dep
		pairs := append([][2]uint64{}, e.pairs...)
		sort.Slice(pairs, func(i, j int) bool {
			return pairs[i][0] < pairs[j][0] || pairs[i][0] == pairs[j][0] && pairs[i][1] < pairs[j][1]
		})
		for _, p := range pairs {
			for _, pr := range e.premiums {
				recs, _ := e.app.NewaucKeeper.GetUserLimitBidDataByPremium(e.ctx, p[0], p[1], sdk.NewInt(pr))
				for _, r := range recs {
					w := e.who(r.BidderAddress)
					ds = append(ds, dep{p[0], p[1], pr, w, fmt.Sprintf("%d:%d:%d:%d:%d:%s", p[0], p[1], pr, w, c11DenomIdx(r.DebtToken.Denom), r.DebtToken.Amount.String())})
				}
			}
			pd, found := e.app.NewaucKeeper.GetLimitBidProtocolDataByAssetID(e.ctx, p[0], p[1])
			if found {
				bv = append(bv, fmt.Sprintf("%d:%d:%s", p[0], p[1], pd.BidValue.String()))
			}
		}
		sort.Slice(ds, func(i, j int) bool {
			a, b := ds[i], ds[j]
			if a.debt != b.debt {
				return a.debt < b.debt
			}
			if a.coll != b.coll {
				return a.coll < b.coll
			}
			if a.prem != b.prem {
				return a.prem < b.prem
			}
			return a.who < b.who
		})
		for _, d := range ds {
			deps = append(deps, d.s)
		}
	}
	return "bank=" + strings.Join(bank, ",") + "|aucs=" + strings.Join(aucs, ";") + "|deps=" + strings.Join(deps, ",") + "|bv=" + strings.Join(bv, ",")
}

// deliver re-enacts baseapp's message discipline: ValidateBasic, routed handler on a cache, write on success.
func (e *c11Env) deliver(msg sdk.Msg) string {
	if err := msg.ValidateBasic(); err != nil {
		e.tr.Count("outcome:reject-validatebasic")
		return "err"
	}
	h := e.app.MsgServiceRouter().Handler(msg)
	if h == nil {
		e.t.Fatalf("no route for %T", msg)
	}
	cctx, write := e.ctx.CacheContext()
	var err error
	panicked, _ := try(func() { _, err = h(cctx, msg) })
	if panicked {
		e.tr.Count("outcome:panic")
		return "panic"
	}
	if err != nil {
		e.tr.Count("outcome:err")
		return "err"
	}
	write()
	e.tr.Count("outcome:ok")
	return "ok"
}

func (e *c11Env) block(dt int64) {
	e.now += dt
	e.height++
	e.ctx = e.ctx.WithBlockTime(time.Unix(e.now, 0).UTC()).WithBlockHeight(e.height)
	outcome := "ok"
	panicked, _ := try(func() {
		if e.ver == 1 {
			auction.BeginBlocker(e.ctx, e.app.AuctionKeeper, e.app.AssetKeeper, e.app.CollectorKeeper, e.app.EsmKeeper)
		} else {
			liquidationsV2.BeginBlocker(e.ctx, abci.RequestBeginBlock{}, e.app.NewliqKeeper)
			auctionsV2.BeginBlocker(e.ctx, e.app.NewaucKeeper)
		}
	})
	if panicked {
		outcome = "panic"
	}
	e.tr.Line("eng.tick", i64(e.now), outcome, e.state())
}

// esm sets the emergency-shutdown status of the app the way x/esm stores it (environment event)
func (e *c11Env) esm(on bool) {
	e.app.EsmKeeper.SetESMStatus(e.ctx, esmtypes.ESMStatus{AppId: 1, Status: on})
	flag := "0"
	if on {
		flag = "1"
	}
	e.tr.Line("eng.esm", flag, e.state())
	e.tr.Count("esm:" + flag)
}

func c11Coin(denomIdx int, amt sdk.Int) sdk.Coin {
	return sdk.Coin{Denom: c11Denoms[denomIdx], Amount: amt}
}

func (e *c11Env) bid(who int, a c11Auc, denom int, amt sdk.Int, expDenom int, expAmt sdk.Int, mapping uint64) {
	addr := e.accts[who].String()
	var out string
	switch {
	case e.ver == 1 && a.kind == 1:
		out = e.deliver(&auctiontypes.MsgPlaceDebtBidRequest{Bidder: addr, AuctionId: a.id, Bid: c11Coin(denom, amt), ExpectedUserToken: c11Coin(expDenom, expAmt), AppId: a.app, AuctionMappingId: mapping})
		e.tr.Line("eng.dbid", itoa(who), u(a.app), u(mapping), u(a.id), itoa(denom), amt.String(), itoa(expDenom), expAmt.String(), out, e.state())
	case e.ver == 1:
		out = e.deliver(&auctiontypes.MsgPlaceSurplusBidRequest{Bidder: addr, AuctionId: a.id, Amount: c11Coin(denom, amt), AppId: a.app, AuctionMappingId: mapping})
		e.tr.Line("eng.bid", itoa(who), u(a.app), u(mapping), u(a.id), itoa(denom), amt.String(), out, e.state())
	default:
		out = e.deliver(auctionsV2types.NewMsgPlaceMarketBid(addr, a.id, c11Coin(denom, amt)))
		e.tr.Line("eng.bid", itoa(who), u(a.app), u(0), u(a.id), itoa(denom), amt.String(), out, e.state())
	}
	e.tr.Count(fmt.Sprintf("bid:kind%d:%s", a.kind, out))
}

func (e *c11Env) deposit(who int, coll, debt uint64, prem int64, denom int, amt sdk.Int) string {
	out := e.deliver(auctionsV2types.NewMsgDepositLimitBid(e.accts[who].String(), coll, debt, sdk.NewInt(prem), c11Coin(denom, amt)))
	e.tr.Line("eng.dep", itoa(who), u(coll), u(debt), i64(prem), itoa(denom), amt.String(), out, e.state())
	e.tr.Count("dep:" + out)
	return out
}

func (e *c11Env) cancel(who int, coll, debt uint64, prem int64) string {
	out := e.deliver(auctionsV2types.NewMsgCancelLimitBid(e.accts[who].String(), coll, debt, sdk.NewInt(prem)))
	e.tr.Line("eng.cancel", itoa(who), u(coll), u(debt), i64(prem), out, e.state())
	e.tr.Count("cancel:" + out)
	return out
}

func (e *c11Env) withdraw(who int, coll, debt uint64, prem int64, denom int, amt sdk.Int) string {
	out := e.deliver(auctionsV2types.NewMsgWithdrawLimitBid(e.accts[who].String(), coll, debt, sdk.NewInt(prem), c11Coin(denom, amt)))
	e.tr.Line("eng.wd", itoa(who), u(coll), u(debt), i64(prem), itoa(denom), amt.String(), out, e.state())
	e.tr.Count("wd:" + out)
	return out
}

func itoa(i int) string { return fmt.Sprintf("%d", i) }

func (e *c11Env) begin(cf, wf sdk.Dec) {
	assets := []string{}
	for i := 0; i < 4; i++ {
		assets = append(assets, fmt.Sprintf("%d:%d", i+1, i))
	}
	e.tr.Line("eng.begin", itoa(e.ver), itoa(e.nUsers), cf.BigInt().String(), wf.BigInt().String(), strings.Join(assets, ","), i64(e.now), c11DebtBidFloor(), e.state())
}

// c11DebtBidFloor reads off the real MsgPlaceDebtBidRequest.ValidateBasic what it demands of the bid amount:
// "-" nothing (negative bids reach the keeper), "0" non-negative, "1" positive.
func c11DebtBidFloor() string {
	probe := func(x int64) bool {
		m := auctiontypes.MsgPlaceDebtBidRequest{Bidder: c11User(0).String(), AuctionId: 1, AppId: 1, AuctionMappingId: 2,
			Bid: sdk.Coin{Denom: "uharbor", Amount: sdk.NewInt(x)}, ExpectedUserToken: sdk.Coin{Denom: "ucmst", Amount: sdk.NewInt(5)}}
		return m.ValidateBasic() == nil
	}
	switch {
	case probe(-1):
		return "-"
	case probe(0):
		return "0"
	}
	return "1"
}

// change = factor.MulInt(x).Ceil().TruncateInt() exactly as the handlers compute it
func c11Change(f sdk.Dec, x sdk.Int) sdk.Int { return f.MulInt(x).Ceil().TruncateInt() }

var c11Factors = []string{"0", "0.000000000000000001", "0.01", "0.1", "0.333333333333333333", "0.05", "1", "2.5"}
var c11Fees = []string{"0", "0", "0.01", "0.005", "0.333333333333333333", "0.000000000000000001", "1", "1.5"}
var c11Lots = []int64{1, 7, 1000, 200000, 1000000000}

func (e *c11Env) newBranch(base sdk.Context) {
	e.ctx, _ = base.CacheContext()
}

// ---------------------------------------------------------------------------------------------------
// corpus: fixed witnesses, first in the run
// ---------------------------------------------------------------------------------------------------

func (e *c11Env) corpus(base sdk.Context) {
	richFunds := func(n int) [][]int64 {
		f := make([][]int64, n)
		for i := range f {
			f[i] = []int64{1000000, 1000000, 1000000, 1000000}
		}
		return f
	}
	zero := sdk.ZeroDec()
	// D5 (amount): A deposits 100, B deposits 900 at the same key, A withdraws 600
	e.newBranch(base)
	e.nUsers, e.dur, e.bidDur = 3, 300, 300
	e.pairs, e.premiums = [][2]uint64{{3, 2}, {2, 1}}, []int64{0, 5}
	e.setup(2, nil, 0, zero, zero, sdk.MustNewDecFromStr("0.1"), richFunds(3))
	e.begin(zero, zero)
	e.deposit(2, 2, 3, 5, 2, sdk.NewInt(100))
	e.deposit(3, 2, 3, 5, 2, sdk.NewInt(900))
	e.withdraw(2, 2, 3, 5, 2, sdk.NewInt(600))
	e.withdraw(3, 2, 3, 5, 2, sdk.NewInt(900))
	e.tr.Count("corpus:D5-amount")
	// D5 (denom): A deposits 100 harbor in market (3,2); B deposits 500 cmst in market (2,1); A withdraws 50 cmst from (3,2)
	e.newBranch(base)
	e.setup(2, nil, 0, zero, zero, sdk.MustNewDecFromStr("0.1"), richFunds(3))
	e.begin(zero, zero)
	e.deposit(2, 2, 3, 5, 2, sdk.NewInt(100))
	e.deposit(3, 1, 2, 0, 1, sdk.NewInt(500))
	e.withdraw(2, 2, 3, 5, 1, sdk.NewInt(50))
	e.cancel(3, 1, 2, 0)
	e.tr.Count("corpus:D5-denom")
	// D5 (drains a standing English bid): C holds the best bid of a second-generation surplus auction, A deposits 10 and withdraws 700
	e.newBranch(base)
	e.setup(2, []c11Mapping{{asset: 2, secondary: 3, debt: false, lot: 200000, debtLot: 2000000, factor: sdk.MustNewDecFromStr("0.01")}}, 1, zero, zero, sdk.MustNewDecFromStr("0.1"), richFunds(3))
	e.begin(zero, zero)
	e.block(1)
	if as := e.auctions(); len(as) == 1 {
		e.bid(4, as[0], 2, sdk.NewInt(1000), 0, sdk.ZeroInt(), 0)
		e.deposit(2, 2, 3, 5, 2, sdk.NewInt(10))
		e.withdraw(2, 2, 3, 5, 2, sdk.NewInt(700))
		e.block(301)
		e.block(1)
	} else {
		e.t.Fatalf("corpus: expected one V2 surplus auction, got %d", len(as))
	}
	e.tr.Count("corpus:D5-english")
	// negative debt bids (x/auction): −1000 is accepted, then −990 (higher than the standing bid) is accepted too; the winner gets nothing
	e.newBranch(base)
	e.setup(1, []c11Mapping{{asset: 2, secondary: 3, debt: true, lot: 200000, debtLot: 2000000, factor: sdk.MustNewDecFromStr("0.01")}}, 1, zero, zero, zero, richFunds(3))
	e.begin(zero, zero)
	e.block(1)
	if as := e.auctions(); len(as) == 1 {
		a := as[0]
		e.bid(2, a, 2, sdk.NewInt(2000000), 1, a.pay, a.mapping)
		e.bid(3, a, 2, sdk.NewInt(-1000), 1, a.pay, a.mapping)
		e.bid(4, a, 2, sdk.NewInt(-990), 1, a.pay, a.mapping)
		e.bid(2, a, 2, sdk.NewInt(5), 1, a.pay, a.mapping)
		e.block(301)
		e.block(1)
	} else {
		e.t.Fatalf("corpus: expected one V1 debt auction, got %d", len(as))
	}
	e.tr.Count("corpus:v1-debt-negative-bids")
	// the same with a bid factor of 250 %: after −3 000 000 a bid of 4 500 000 is accepted and minted at close (2 000 000 were on offer)
	e.newBranch(base)
	e.setup(1, []c11Mapping{{asset: 2, secondary: 3, debt: true, lot: 200000, debtLot: 2000000, factor: sdk.MustNewDecFromStr("2.5")}}, 1, zero, zero, zero, richFunds(3))
	e.begin(zero, zero)
	e.block(1)
	if as := e.auctions(); len(as) == 1 {
		a := as[0]
		e.bid(2, a, 2, sdk.NewInt(2000000), 1, a.pay, a.mapping)
		e.bid(3, a, 2, sdk.NewInt(-3000000), 1, a.pay, a.mapping)
		e.bid(4, a, 2, sdk.NewInt(4500000), 1, a.pay, a.mapping)
		e.block(301)
		e.block(1)
	} else {
		e.t.Fatalf("corpus: expected one V1 debt auction, got %d", len(as))
	}
	e.tr.Count("corpus:v1-debt-negative-bids-factor-above-one")
	// plain V1 surplus with equal / barely improving / non-improving bids, then close
	e.newBranch(base)
	e.setup(1, []c11Mapping{{asset: 2, secondary: 3, debt: false, lot: 200000, debtLot: 2000000, factor: sdk.MustNewDecFromStr("0.01")}}, 1, zero, zero, zero, richFunds(3))
	e.begin(zero, zero)
	e.block(1)
	if as := e.auctions(); len(as) == 1 {
		a := as[0]
		e.bid(2, a, 2, sdk.NewInt(0), 0, sdk.ZeroInt(), a.mapping)
		e.bid(2, a, 2, sdk.NewInt(1000), 0, sdk.ZeroInt(), a.mapping)
		e.bid(3, a, 2, sdk.NewInt(1000), 0, sdk.ZeroInt(), a.mapping)
		e.bid(3, a, 2, sdk.NewInt(1009), 0, sdk.ZeroInt(), a.mapping)
		e.bid(3, a, 2, sdk.NewInt(1010), 0, sdk.ZeroInt(), a.mapping)
		e.bid(4, a, 1, sdk.NewInt(5000), 0, sdk.ZeroInt(), a.mapping)
		e.block(301)
		e.block(1)
	} else {
		e.t.Fatalf("corpus: expected one V1 surplus auction, got %d", len(as))
	}
	e.tr.Count("corpus:v1-surplus")
	// plain V1 debt
	e.newBranch(base)
	e.setup(1, []c11Mapping{{asset: 2, secondary: 3, debt: true, lot: 200000, debtLot: 2000000, factor: sdk.MustNewDecFromStr("0.01")}}, 1, zero, zero, zero, richFunds(3))
	e.begin(zero, zero)
	e.block(1)
	if as := e.auctions(); len(as) == 1 {
		a := as[0]
		e.bid(2, a, 2, sdk.NewInt(2000001), 1, a.pay, a.mapping)
		e.bid(2, a, 2, sdk.NewInt(2000000), 1, a.pay, a.mapping)
		e.bid(3, a, 2, sdk.NewInt(1980001), 1, a.pay, a.mapping)
		e.bid(3, a, 2, sdk.NewInt(1980000), 1, a.pay, a.mapping)
		e.bid(4, a, 2, sdk.NewInt(100), 1, a.pay.AddRaw(1), a.mapping)
		e.block(301)
		e.block(1)
	} else {
		e.t.Fatalf("corpus: expected one V1 debt auction, got %d", len(as))
	}
	e.tr.Count("corpus:v1-debt")
	// emergency shutdown with standing bids: one surplus and one debt auction, both refunded at the next block
	e.newBranch(base)
	e.setup(1, []c11Mapping{{asset: 2, secondary: 3, debt: false, lot: 200000, debtLot: 2000000, factor: sdk.MustNewDecFromStr("0.01")},
		{asset: 1, secondary: 3, debt: true, lot: 1000, debtLot: 7, factor: sdk.MustNewDecFromStr("0.1")}}, 1, zero, zero, zero, richFunds(3))
	e.begin(zero, zero)
	e.block(1)
	if as := e.auctions(); len(as) == 2 {
		for _, a := range as {
			if a.kind == 0 {
				e.bid(2, a, a.payDenom, sdk.NewInt(5000), 0, sdk.ZeroInt(), a.mapping)
				e.bid(3, a, a.payDenom, sdk.NewInt(6000), 0, sdk.ZeroInt(), a.mapping)
			} else {
				e.bid(4, a, a.lotDenom, sdk.NewInt(5), a.payDenom, a.pay, a.mapping)
			}
		}
		e.esm(true)
		e.block(1)
		e.block(1)
		e.esm(false)
		e.block(1)
	} else {
		e.t.Fatalf("corpus: expected two V1 auctions, got %d", len(as))
	}
	e.tr.Count("corpus:v1-esm")
}

// ---------------------------------------------------------------------------------------------------
// generated sequences
// ---------------------------------------------------------------------------------------------------

func (e *c11Env) pickAmount(cands []sdk.Int) sdk.Int { return cands[e.rng.Intn(len(cands))] }

// threshold of the next acceptable bid on the real record: smallest accepted amount for increasing bids,
// largest accepted amount for decreasing ones — computed with the library exactly as the handler does
func c11Threshold(a c11Auc) sdk.Int {
	if a.kind == 0 || a.kind == 2 {
		if a.bidder != -1 {
			return a.pay.Add(c11Change(a.factor, a.pay))
		}
		if a.kind == 0 {
			return a.pay.AddRaw(1)
		}
		if a.pay.IsZero() {
			return sdk.OneInt()
		}
		return a.pay
	}
	if a.bidder != -1 {
		return a.lot.Sub(c11Change(a.factor, a.lot))
	}
	if a.kind == 3 {
		return a.lot
	}
	return a.lot0
}

func (e *c11Env) genBid(valid bool) {
	as := e.auctions()
	if len(as) == 0 {
		e.tr.Count("bid:no-live-auction")
		return
	}
	a := as[e.rng.Intn(len(as))]
	increasing := a.kind == 0 || a.kind == 2
	thr := c11Threshold(a)
	mapping := a.mapping
	denom := a.payDenom
	if !increasing {
		denom = a.lotDenom
	}
	expDenom, expAmt := a.payDenom, a.pay
	who := 2 + e.rng.Intn(e.nUsers)
	var amt sdk.Int
	if valid {
		// a bidder that can afford it, if there is one
		need := a.pay
		if increasing {
			need = thr
		}
		for try := 0; try < 6; try++ {
			if e.app.BankKeeper.GetBalance(e.ctx, e.accts[who], a.payDenomS).Amount.GTE(need) {
				break
			}
			who = 2 + e.rng.Intn(e.nUsers)
		}
		bal := e.app.BankKeeper.GetBalance(e.ctx, e.accts[who], a.payDenomS).Amount
		if increasing {
			amt = e.pickAmount([]sdk.Int{thr, thr, thr.AddRaw(1), thr.AddRaw(int64(e.rng.Intn(50))), thr.AddRaw(int64(e.rng.Intn(5000))), thr.MulRaw(3).QuoRaw(2).AddRaw(1)})
			if e.rng.Chance(4) && bal.GT(thr) {
				amt = bal
			}
		} else {
			amt = e.pickAmount([]sdk.Int{thr, thr, thr.SubRaw(1), thr.SubRaw(int64(e.rng.Intn(50))), thr.MulRaw(9).QuoRaw(10), thr.QuoRaw(2)})
			if amt.IsNegative() || (a.kind == 3 && !amt.IsPositive()) {
				amt = thr
			}
		}
		e.tr.Count("bid:valid-stream")
	} else {
		e.tr.Count("bid:malformed-stream")
		bal := e.app.BankKeeper.GetBalance(e.ctx, e.accts[who], a.payDenomS).Amount
		switch e.rng.Intn(9) {
		case 0:
			mapping = 3 - mapping // wrong mapping id (x/auction) — the lookup must fail
			amt = thr
			e.tr.Count("bid:wrong-mapping")
		case 1:
			a.id += 17 // unknown auction
			amt = thr
			e.tr.Count("bid:unknown-auction")
		case 2:
			denom = e.rng.Intn(len(c11Denoms))
			amt = thr
			e.tr.Count("bid:random-denom")
		case 3:
			amt = thr
			if a.kind == 1 {
				switch e.rng.Intn(3) {
				case 0:
					expAmt = expAmt.SubRaw(1)
				case 1:
					expAmt = expAmt.AddRaw(1)
				default:
					expDenom = e.rng.Intn(len(c11Denoms))
				}
				e.tr.Count("bid:wrong-expected-user-token")
			} else {
				amt = bal.AddRaw(1) // more than the bidder owns
				e.tr.Count("bid:above-balance")
			}
		default:
			if increasing {
				amt = e.pickAmount([]sdk.Int{thr.SubRaw(1), thr.SubRaw(1), a.pay, a.pay.AddRaw(1), a.pay.SubRaw(1), sdk.ZeroInt(), sdk.OneInt(), bal.AddRaw(1), thr.SubRaw(int64(1 + e.rng.Intn(100)))})
			} else {
				amt = e.pickAmount([]sdk.Int{thr.AddRaw(1), thr.AddRaw(1), a.lot, a.lot.AddRaw(1), sdk.ZeroInt(), sdk.NewInt(-1), thr.AddRaw(int64(1 + e.rng.Intn(100)))})
			}
		}
	}
	if a.bidder == -1 {
		e.tr.Count("bid:on-fresh-auction")
	} else if a.bidder == who {
		e.tr.Count("bid:against-own-standing-bid")
	} else {
		e.tr.Count("bid:against-other-bidder")
	}
	e.tr.Count("bid:amount-vs-threshold:" + c11Cmp(amt, thr))
	e.bid(who, a, denom, amt, expDenom, expAmt, mapping)
}

func c11Cmp(a, b sdk.Int) string {
	switch {
	case a.LT(b):
		return "below"
	case a.Equal(b):
		return "equal"
	}
	return "above"
}

func (e *c11Env) ownDeposit(who int, coll, debt uint64, prem int64) (sdk.Int, bool) {
	if prem < 0 {
		return sdk.ZeroInt(), false // the key encoder panics on a negative premium
	}
	r, found := e.app.NewaucKeeper.GetUserLimitBidData(e.ctx, debt, coll, sdk.NewInt(prem), e.accts[who].String())
	if !found {
		return sdk.ZeroInt(), false
	}
	return r.DebtToken.Amount, true
}

type c11Rec struct {
	who        int
	debt, coll uint64
	prem       int64
	amt        sdk.Int
}

func (e *c11Env) records() []c11Rec {
	var out []c11Rec
	for w := 2; w < 2+e.nUsers; w++ {
		for _, p := range e.pairs {
			for _, pr := range e.premiums {
				if amt, ok := e.ownDeposit(w, p[1], p[0], pr); ok {
					out = append(out, c11Rec{w, p[0], p[1], pr, amt})
				}
			}
		}
	}
	return out
}

func (e *c11Env) genLimit(valid bool) {
	recs := e.records()
	if valid {
		e.tr.Count("limit:valid-stream")
		r := e.rng.Intn(100)
		switch {
		case r < 40 || len(recs) == 0:
			p := e.pairs[e.rng.Intn(len(e.pairs))]
			prem := e.premiums[e.rng.Intn(len(e.premiums))]
			denom := int(p[0] - 1)
			who := 2 + e.rng.Intn(e.nUsers)
			for try := 0; try < 6; try++ {
				if e.app.BankKeeper.GetBalance(e.ctx, e.accts[who], c11Denoms[denom]).Amount.GTE(sdk.NewInt(1000)) {
					break
				}
				who = 2 + e.rng.Intn(e.nUsers)
			}
			bal := e.app.BankKeeper.GetBalance(e.ctx, e.accts[who], c11Denoms[denom]).Amount
			amt := e.pickAmount([]sdk.Int{sdk.NewInt(100), sdk.NewInt(900), sdk.NewInt(int64(1 + e.rng.Intn(100000))), sdk.NewInt(int64(1 + e.rng.Intn(1000))), sdk.NewInt(3), sdk.NewInt(1)})
			if amt.GT(bal) && bal.IsPositive() {
				amt = bal
			}
			if _, has := e.ownDeposit(who, p[1], p[0], prem); has {
				e.tr.Count("dep:top-up")
			} else {
				e.tr.Count("dep:new-record")
			}
			e.deposit(who, p[1], p[0], prem, denom, amt)
		case r < 70:
			c := recs[e.rng.Intn(len(recs))]
			amt := c.amt.QuoRaw(int64(2 + e.rng.Intn(3)))
			if e.rng.Chance(25) {
				amt = c.amt.SubRaw(1)
			}
			if !amt.IsPositive() {
				amt = c.amt
			}
			if amt.Equal(c.amt) {
				e.tr.Count("wd:full")
			} else {
				e.tr.Count("wd:partial")
			}
			e.withdraw(c.who, c.coll, c.debt, c.prem, int(c.debt-1), amt)
		case r < 82:
			c := recs[e.rng.Intn(len(recs))]
			e.tr.Count("wd:full")
			e.withdraw(c.who, c.coll, c.debt, c.prem, int(c.debt-1), c.amt)
		default:
			c := recs[e.rng.Intn(len(recs))]
			e.cancel(c.who, c.coll, c.debt, c.prem)
		}
		return
	}
	e.tr.Count("limit:malformed-stream")
	who := 2 + e.rng.Intn(e.nUsers)
	p := e.pairs[e.rng.Intn(len(e.pairs))]
	debt, coll := p[0], p[1]
	prem := e.premiums[e.rng.Intn(len(e.premiums))]
	if len(recs) > 0 && e.rng.Chance(70) {
		c := recs[e.rng.Intn(len(recs))]
		debt, coll, prem = c.debt, c.coll, c.prem
		if e.rng.Chance(60) {
			who = c.who
		}
	}
	if e.rng.Chance(8) {
		prem = []int64{31, -1, 30}[e.rng.Intn(3)]
		e.tr.Count("limit:odd-premium")
	}
	if e.rng.Chance(6) {
		debt = 9
		e.tr.Count("limit:unknown-asset")
	}
	rightDenom := 4
	if debt >= 1 && debt <= 4 {
		rightDenom = int(debt - 1)
	}
	own, has := e.ownDeposit(who, coll, debt, prem)
	switch r := e.rng.Intn(100); {
	case r < 25:
		denom := rightDenom
		if e.rng.Chance(50) {
			denom = e.rng.Intn(len(c11Denoms))
			e.tr.Count("dep:random-denom")
		}
		bal := e.app.BankKeeper.GetBalance(e.ctx, e.accts[who], c11Denoms[denom]).Amount
		amt := e.pickAmount([]sdk.Int{bal.AddRaw(1), sdk.ZeroInt(), sdk.NewInt(-5), sdk.NewInt(7), bal})
		e.deposit(who, coll, debt, prem, denom, amt)
	case r < 85:
		denom := rightDenom
		if e.rng.Chance(40) {
			denom = e.rng.Intn(len(c11Denoms))
			e.tr.Count("wd:random-denom")
		}
		bv := sdk.ZeroInt()
		if pd, f := e.app.NewaucKeeper.GetLimitBidProtocolDataByAssetID(e.ctx, debt, coll); f {
			bv = pd.BidValue
		}
		cust := e.app.BankKeeper.GetBalance(e.ctx, e.accts[0], c11Denoms[denom]).Amount
		amt := e.pickAmount([]sdk.Int{own.AddRaw(1), own.AddRaw(1), own.MulRaw(2), bv, bv.AddRaw(1), cust, cust.AddRaw(1), sdk.OneInt(), sdk.NewInt(int64(1 + e.rng.Intn(1000))), sdk.ZeroInt(), own})
		if has {
			e.tr.Count("wd:amount-vs-own:" + c11Cmp(amt, own))
		} else {
			e.tr.Count("wd:no-record")
		}
		e.withdraw(who, coll, debt, prem, denom, amt)
	default:
		if has {
			e.tr.Count("cancel:own-record")
		} else {
			e.tr.Count("cancel:no-record")
		}
		e.cancel(who, coll, debt, prem)
	}
}

func (e *c11Env) genSequence(base sdk.Context, s int) {
	e.newBranch(base)
	ver := 1 + e.rng.Intn(2)
	e.nUsers = e.rng.Range(2, 5)
	e.dur = []int64{10, 60, 300}[e.rng.Intn(3)]
	e.bidDur = []int64{5, 30, 1000}[e.rng.Intn(3)]
	funds := make([][]int64, e.nUsers)
	for i := range funds {
		funds[i] = make([]int64, 4)
		for d := range funds[i] {
			funds[i][d] = []int64{0, 500, 1000000, 1000000000000, 1000000000000, 1000000000000}[e.rng.Intn(6)]
		}
	}
	dec := func(xs []string) sdk.Dec { return sdk.MustNewDecFromStr(xs[e.rng.Intn(len(xs))]) }
	// 0..3 mappings; collector assets are distinct; the secondary asset differs from the collector asset
	cands := []c11Mapping{{asset: 2, secondary: 3}, {asset: 1, secondary: 3}, {asset: 4, secondary: 2}}
	nm := e.rng.Range(1, 3)
	if ver == 2 && e.rng.Chance(20) {
		nm = 0 // limit bids only
	}
	var maps []c11Mapping
	for i := 0; i < nm; i++ {
		m := cands[i]
		m.debt = e.rng.Chance(50)
		m.lot = c11Lots[e.rng.Intn(len(c11Lots))]
		m.debtLot = c11Lots[e.rng.Intn(len(c11Lots))]
		m.factor = dec(c11Factors)
		maps = append(maps, m)
		e.tr.Count(fmt.Sprintf("mapping:ver%d:debt=%v", ver, m.debt))
	}
	cf, wf, v2f := sdk.ZeroDec(), sdk.ZeroDec(), sdk.ZeroDec()
	if ver == 2 {
		cf, wf, v2f = dec(c11Fees), dec(c11Fees), dec(c11Factors)
		e.pairs = [][2]uint64{{3, 2}, {2, 1}, {3, 1}}
		e.premiums = []int64{0, 5, 30}
		if !cf.IsZero() || !wf.IsZero() {
			e.tr.Count("fees:nonzero")
		}
	}
	e.setup(ver, maps, 3, cf, wf, v2f, funds)
	e.begin(cf, wf)
	e.block(1)
	nops := e.rng.Range(10, scale(40, 120))
	limitPct := 0
	if ver == 2 {
		limitPct = []int{30, 60, 100}[e.rng.Intn(3)]
		if nm == 0 {
			limitPct = 100
		}
	}
	esmAt, esmOff := -1, -1
	if e.rng.Chance(15) {
		esmAt = e.rng.Intn(nops)
		if e.rng.Chance(40) {
			esmOff = esmAt + 1 + e.rng.Intn(10)
		}
	}
	for o := 0; o < nops; o++ {
		if o == esmAt {
			e.esm(true)
			if live := e.auctions(); len(live) > 0 {
				e.tr.Count(fmt.Sprintf("esm:on-with-%d-live-auctions", len(live)))
			}
		}
		if o == esmOff {
			e.esm(false)
		}
		r := e.rng.Intn(100)
		valid := e.rng.Chance(78)
		switch {
		case r < 18:
			dts := []int64{e.bidDur - 1, e.bidDur, e.bidDur + 1, e.dur - 1, e.dur, e.dur + 1, e.dur / 2, 3}
			dt := int64(1 + e.rng.Intn(2))
			if e.rng.Chance(40) {
				dt = dts[e.rng.Intn(len(dts))]
			}
			if dt < 1 {
				dt = 1
			}
			before := e.auctions()
			e.block(dt)
			after := map[uint64]c11Auc{}
			for _, a := range e.auctions() {
				after[a.id] = a
			}
			for _, a := range before {
				if b, ok := after[a.id]; !ok {
					e.tr.Count("tick:closed-an-auction")
				} else if b.endT != a.endT {
					e.tr.Count("tick:restarted-an-auction")
				}
			}
			if len(after) > 1 {
				e.tr.Count("tick:several-live-auctions")
			}
		case e.rng.Intn(100) < limitPct:
			e.genLimit(valid)
		default:
			e.genBid(valid)
		}
	}
	// let everything end: two long blocks close (or restart) whatever is open
	e.block(e.dur + e.bidDur + 1)
	e.block(1)
}

func TestC11(t *testing.T) {
	tr := OpenTrace(t, "c11.trace")
	defer tr.Close(t)
	app, base := c11Base(t)
	e := &c11Env{t: t, tr: tr, rng: NewRng(seed()), app: app}
	e.corpus(base)
	seqs := scale(300, 4000)
	for s := 0; s < seqs; s++ {
		e.genSequence(base, s)
	}
}


// ---------------------------------------------------------------------------------------------------
// C11, limit bids auto-filled by Dutch auctions: the limit-bid book joined with one second-generation Dutch auction and the module
// account, driven through the REAL begin-blocker of x/auctionsV2 (AuctionIterator + LimitOrderBid).  The seized position comes
// from the C10 fixture (c10newFix / c10start: real vault + real liquidation, asset ids of collateral and debt differ in every
// pair); everything after the seizure is printed as `lfill.*` lines for the joint model (Model/LimitFill.lean).
// ---------------------------------------------------------------------------------------------------

type c11fill struct {
	*c10seq
	cf, wf sdk.Dec
}

// book prints the records of the market in the store's order and the recorded total
func (s *c11fill) book() string {
	bv := "none"
	if pd, found := s.f.app.NewaucKeeper.GetLimitBidProtocolDataByAssetID(s.ctx, s.p.debt.id, s.p.coll.id); found {
		bv = pd.BidValue.String()
	}
	lb := s.limitBids()
	if lb == "-" {
		lb = ""
	}
	return "deps=" + lb + "|bv=" + bv
}

func c11fillStart(t *testing.T, f *c10fix, tr *Trace, cfg c10cfg, cf, wf string) *c11fill {
	s0 := c10start(t, f, tr, cfg)
	if s0 == nil {
		return nil
	}
	s := &c11fill{c10seq: s0, cf: c10dec(cf), wf: c10dec(wf)}
	p, _ := f.app.NewaucKeeper.GetAuctionParams(s.ctx)
	p.ClosingFee, p.WithdrawalFee = s.cf, s.wf
	f.app.NewaucKeeper.SetAuctionParams(s.ctx, p)
	// the store iterates the records of one premium in the order of the bidders' address STRINGS
	names := []string{"b1", "b2", "b3", "b4"}
	sort.Slice(names, func(i, j int) bool { return c10addr(names[i]).String() < c10addr(names[j]).String() })
	tr.Line("lfill.begin", s.env, fmt.Sprintf("cf=%s;wf=%s;order=%s", c10raw(s.cf), c10raw(s.wf), strings.Join(names, ",")), s.state(), s.book())
	tr.Count("fill:begin:" + cfg.kind)
	if s.p.coll.id == s.p.debt.id {
		t.Fatalf("collateral and debt asset ids must differ")
	}
	return s
}

func (s *c11fill) own(who string, prem int64) (sdk.Int, bool) {
	r, found := s.f.app.NewaucKeeper.GetUserLimitBidData(s.ctx, s.p.debt.id, s.p.coll.id, sdk.NewInt(prem), c10addr(who).String())
	if !found {
		return sdk.ZeroInt(), false
	}
	return r.DebtToken.Amount, true
}

func (s *c11fill) fbid(who string, amt sdk.Int) {
	dt, _ := s.debtTwa()
	_, cl := c10deliver(s.f.app, s.ctx, auctionsV2types.NewMsgPlaceMarketBid(c10addr(who).String(), s.aucID, sdk.Coin{Denom: s.p.debt.denom, Amount: amt}))
	s.tr.Count("fill:bid:" + cl)
	s.tr.Line("lfill.bid", who, amt.String(), u(dt), cl, s.state(), s.book())
}

func (s *c11fill) fdep(who string, prem int64, amt sdk.Int) {
	_, cl := c10deliver(s.f.app, s.ctx, auctionsV2types.NewMsgDepositLimitBid(c10addr(who).String(), s.p.coll.id, s.p.debt.id, sdk.NewInt(prem), sdk.Coin{Denom: s.p.debt.denom, Amount: amt}))
	s.tr.Count("fill:dep:" + cl)
	s.tr.Line("lfill.dep", who, i64(prem), amt.String(), cl, s.state(), s.book())
}

func (s *c11fill) fcancel(who string, prem int64) {
	_, cl := c10deliver(s.f.app, s.ctx, auctionsV2types.NewMsgCancelLimitBid(c10addr(who).String(), s.p.coll.id, s.p.debt.id, sdk.NewInt(prem)))
	s.tr.Count("fill:cancel:" + cl)
	s.tr.Line("lfill.cancel", who, i64(prem), cl, s.state(), s.book())
}

func (s *c11fill) fwd(who string, prem int64, amt sdk.Int) {
	_, cl := c10deliver(s.f.app, s.ctx, auctionsV2types.NewMsgWithdrawLimitBid(c10addr(who).String(), s.p.coll.id, s.p.debt.id, sdk.NewInt(prem), sdk.Coin{Denom: s.p.debt.denom, Amount: amt}))
	s.tr.Count("fill:wd:" + cl)
	s.tr.Line("lfill.wd", who, i64(prem), amt.String(), cl, s.state(), s.book())
}

func (s *c11fill) freserve(amt sdk.Int) {
	_, cl := c10deliver(s.f.app, s.ctx, liquidationsV2types.NewMsgAppReserveFundsRequest(c10addr("b4").String(), s.f.appID, s.p.debt.id, sdk.NewCoin(s.p.debt.denom, amt)))
	s.tr.Line("lfill.reserve", "b4", amt.String(), cl, s.state(), s.book())
}

// ftick advances the block time and runs the real BeginBlocker of auctionsV2; returns the bidders whose record it debited
func (s *c11fill) ftick(dt time.Duration) []string {
	s.now = s.now.Add(dt)
	s.h++
	s.ctx = s.ctx.WithBlockTime(s.now).WithBlockHeight(s.h)
	tc, ac := s.collTwa()
	td, ad := s.debtTwa()
	before := s.limitBids()
	aBefore, openBefore := s.auction()
	panicked, _ := try(func() { auctionsV2.BeginBlocker(s.ctx, s.f.app.NewaucKeeper) })
	cl := "ok"
	if panicked {
		cl = "panic"
	}
	b := func(x bool) string {
		if x {
			return "1"
		}
		return "0"
	}
	// which branch of the loop each debited record took (distribution only)
	var filled []string
	if before != "-" && openBefore {
		perPrem := map[int64]int{}
		for _, it := range strings.Split(before, ",") {
			var prem int64
			var name, amtS string
			parts := strings.Split(it, ":")
			if len(parts) != 3 {
				continue
			}
			fmt.Sscanf(parts[0], "%d", &prem)
			name, amtS = parts[1], parts[2]
			amt, _ := sdk.NewIntFromString(amtS)
			after, found := s.own(name, prem)
			if found && after.Equal(amt) {
				continue
			}
			filled = append(filled, fmt.Sprintf("%s:%d", name, prem))
			perPrem[prem]++
			switch {
			case amt.LT(aBefore.DebtToken.Amount):
				s.tr.Count("fill:branch:deposit<debt")
			case amt.Equal(aBefore.DebtToken.Amount):
				s.tr.Count("fill:branch:deposit=debt")
			default:
				s.tr.Count("fill:branch:deposit>debt")
			}
		}
		for _, n := range perPrem {
			if n >= 2 {
				s.tr.Count("fill:several-bidders-in-one-bucket")
			}
		}
		if len(filled) > 0 {
			s.tr.Count("fill:block-with-fill")
			if _, open := s.auction(); !open {
				s.tr.Count("fill:fill-closes-auction")
			} else {
				s.tr.Count("fill:partial-fill")
			}
		}
	}
	s.tr.Line("lfill.tick", b(s.esmOn), i64(s.now.Unix()), u(tc), b(ac), u(td), b(ad), cl, s.state(), s.book())
	return filled
}

// the premium bucket the auction is in right now (what LimitOrderBid will compute if the price does not move)
func c11bucket(a auctionsV2types.Auction) int64 {
	if !a.CollateralTokenOraclePrice.IsPositive() || !a.CollateralTokenOraclePrice.GT(a.CollateralTokenAuctionPrice) {
		return -1
	}
	return a.CollateralTokenOraclePrice.Sub(a.CollateralTokenAuctionPrice).Quo(a.CollateralTokenOraclePrice).MulInt64(100).TruncateInt64()
}

// aim: seconds from now until the posted price is in the middle of bucket k (0 if unreachable inside the window)
func (s *c11fill) aim(a auctionsV2types.Auction, cfg c10cfg, k int64) int64 {
	disc := c10dec(cfg.discount)
	T := int64(cfg.T)
	el := int64(s.now.Sub(a.StartTime) / time.Second)
	if !a.CollateralTokenInitialPrice.IsPositive() || !disc.LT(sdk.OneDec()) {
		return 0
	}
	want := a.CollateralTokenOraclePrice.Mul(sdk.NewDec(200 - 2*k - 1)).QuoInt64(200)
	tauD := sdk.NewDec(T).Quo(sdk.OneDec().Sub(disc))
	dur := tauD.Mul(sdk.OneDec().Sub(want.Quo(a.CollateralTokenInitialPrice))).TruncateInt64()
	if dur > el && dur <= T {
		return dur - el
	}
	return 0
}

func (s *c11fill) randomOps(rng *Rng, cfg c10cfg) {
	bidders := []string{"b1", "b2", "b3", "b4"}
	nops := 5 + rng.Intn(14)
	var lastFilled []string
	// emergency shutdown of the app in some sequences (the iterator's shutdown branch; TriggerEsm for vault-initiated auctions)
	esmAt := -1
	if rng.Chance(12) {
		esmAt = rng.Intn(nops)
	}
	if a, open := s.auction(); open && rng.Chance(30) {
		// two to four bidders wait at ONE premium (some of them below the remaining debt, so that the loop goes on after them)
		prem := c11bucket(a) + 1 + int64(rng.Intn(3))
		if prem < 0 {
			prem = int64(1 + rng.Intn(3))
		}
		nb := 2 + rng.Intn(3)
		perm := []string{"b1", "b2", "b3", "b4"}
		for i := 0; i < nb; i++ {
			amt := a.DebtToken.Amount.MulRaw(int64(5 + rng.Intn(40))).QuoRaw(100)
			if i == nb-1 && rng.Chance(35) {
				amt = a.DebtToken.Amount.MulRaw(int64(60 + rng.Intn(100))).QuoRaw(100) // the last one may be large (may close, may exceed)
			}
			if !amt.IsPositive() {
				amt = sdk.NewInt(1)
			}
			s.fdep(perm[(i+int(prem))%4], prem, amt)
		}
		if d := s.aim(a, cfg, prem); d > 0 {
			s.tr.Count("fill:tick:aimed-at-shared-premium")
			lastFilled = s.ftick(time.Duration(d) * time.Second)
		}
	}
	for o := 0; o < nops; o++ {
		if o == esmAt {
			s.esm(true)
			s.tr.Count("fill:esm-on:" + s.kind)
		}
		a, open := s.auction()
		// after an auto-fill: the debited depositors come back for the rest (cancel / withdraw right after the begin-block)
		if len(lastFilled) > 0 && rng.Chance(70) {
			var who string
			var prem int64
			fmt.Sscanf(strings.Replace(lastFilled[rng.Intn(len(lastFilled))], ":", " ", 1), "%s %d", &who, &prem)
			lastFilled = nil
			own, has := s.own(who, prem)
			switch {
			case !has || rng.Chance(40):
				s.tr.Count("fill:cancel-after-fill")
				s.fcancel(who, prem)
			case rng.Chance(50):
				s.tr.Count("fill:withdraw-all-after-fill")
				s.fwd(who, prem, own)
			default:
				s.tr.Count("fill:withdraw-part-after-fill")
				s.fwd(who, prem, own.QuoRaw(2).AddRaw(1))
			}
			continue
		}
		lastFilled = nil
		if !open {
			// the auction is gone: the book must still be consistent; let the depositors leave
			recs := s.limitBids()
			if recs == "-" || rng.Chance(30) {
				s.ftick(time.Duration(1+rng.Intn(100)) * time.Second)
				if recs == "-" {
					return
				}
				continue
			}
			it := strings.Split(strings.Split(recs, ",")[rng.Intn(len(strings.Split(recs, ",")))], ":")
			var prem int64
			fmt.Sscanf(it[0], "%d", &prem)
			if rng.Chance(50) {
				s.fcancel(it[1], prem)
			} else {
				own, _ := s.own(it[1], prem)
				s.fwd(it[1], prem, own.QuoRaw(int64(1+rng.Intn(3))).AddRaw(int64(rng.Intn(2))))
			}
			continue
		}
		D := a.DebtToken.Amount
		cur := c11bucket(a)
		r := rng.Intn(100)
		switch {
		case r < 34:
			// deposit aimed at the bucket the auction is in or will reach; several bidders at one premium are wanted
			prem := cur + int64(rng.Intn(4))
			if prem < 0 {
				prem = int64(rng.Intn(3))
			}
			joined := false
			if recs := s.limitBids(); recs != "-" && rng.Chance(45) {
				fmt.Sscanf(strings.Split(recs, ",")[rng.Intn(len(strings.Split(recs, ",")))], "%d:", &prem) // join somebody's premium
				s.tr.Count("fill:dep:joins-existing-premium")
				joined = true
			}
			if rng.Chance(6) {
				prem = []int64{31, 30, -1}[rng.Intn(3)]
			}
			var amt sdk.Int
			switch rng.Intn(10) {
			case 0, 1, 2:
				amt = D // exactly the remaining debt
				s.tr.Count("fill:dep:amount=debt")
			case 3, 4, 5:
				amt = D.MulRaw(int64(101 + rng.Intn(200))).QuoRaw(100).AddRaw(1) // more than the remaining debt
				s.tr.Count("fill:dep:amount>debt")
			case 6:
				amt = D.AddRaw(int64(rng.Intn(3)) - 1)
				s.tr.Count("fill:dep:amount~debt")
			default:
				amt = D.MulRaw(int64(5 + rng.Intn(90))).QuoRaw(100) // less
				s.tr.Count("fill:dep:amount<debt")
			}
			if joined && rng.Chance(60) {
				// several small deposits at one premium: all of them are filled in one block (D7: against the value read before the loop)
				amt = D.MulRaw(int64(5 + rng.Intn(28))).QuoRaw(100)
			}
			if !amt.IsPositive() {
				amt = sdk.NewInt(1)
			}
			s.fdep(bidders[rng.Intn(4)], prem, amt)
		case r < 62:
			// a block, mostly aimed at the premium of a waiting record
			T := int64(cfg.T)
			el := int64(s.now.Sub(a.StartTime) / time.Second)
			dt := int64(1 + rng.Intn(int(T)/4+1))
			if recs := s.limitBids(); recs != "-" && rng.Chance(80) {
				var k int64
				fmt.Sscanf(strings.Split(recs, ",")[rng.Intn(len(strings.Split(recs, ",")))], "%d:", &k)
				if d := s.aim(a, cfg, k); d > 0 {
					dt = d
					s.tr.Count("fill:tick:aimed")
				}
			} else if rng.Chance(15) {
				dt = T - el + 1 // restart
			}
			if dt < 1 {
				dt = 1
			}
			if rng.Chance(8) {
				tc, _ := s.collTwa()
				nt := tc * uint64(85+rng.Intn(31)) / 100
				if nt == 0 {
					nt = 1
				}
				s.setColl(nt, !rng.Chance(15))
			}
			lastFilled = s.ftick(time.Duration(dt) * time.Second)
		case r < 76:
			// market bid: changes the remaining debt under the waiting records
			var amt sdk.Int
			switch rng.Intn(6) {
			case 0:
				amt = D
			case 1:
				amt = D.MulRaw(2)
			default:
				amt = D.MulRaw(int64(1 + rng.Intn(80))).QuoRaw(100)
			}
			if !amt.IsPositive() {
				amt = sdk.NewInt(1)
			}
			s.fbid(bidders[rng.Intn(4)], amt)
		case r < 90:
			recs := s.limitBids()
			if recs == "-" {
				s.fcancel(bidders[rng.Intn(4)], cur) // no record
				continue
			}
			it := strings.Split(strings.Split(recs, ",")[rng.Intn(len(strings.Split(recs, ",")))], ":")
			var prem int64
			fmt.Sscanf(it[0], "%d", &prem)
			own, _ := s.own(it[1], prem)
			switch rng.Intn(6) {
			case 0:
				s.fcancel(it[1], prem)
			case 1:
				s.fwd(it[1], prem, own) // full amount: the cancel path
			case 2:
				s.fwd(it[1], prem, own.AddRaw(1)) // one more than the own record: must be refused
				s.tr.Count("fill:wd:own+1")
			case 3:
				s.fwd(bidders[rng.Intn(4)], prem, own) // maybe somebody else's record
			default:
				x := own.QuoRaw(int64(2 + rng.Intn(3)))
				if !x.IsPositive() {
					x = own
				}
				s.fwd(it[1], prem, x)
			}
		default:
			s.freserve(D.MulRaw(int64(1 + rng.Intn(50))).QuoRaw(100).AddRaw(1))
		}
	}
}

func c11fillCfg(f *c10fix, rng *Rng) c10cfg {
	cfg := c10genCfg(f, rng)
	if cfg.kind == "external" && rng.Chance(50) {
		cfg.kind = "vault"
	}
	cfg.second, cfg.trackSecond = false, false // one auction per market: the book is shared by every auction of the pair
	cfg.T = []uint64{600, 3600, 3600, 86400}[rng.Intn(4)]
	cfg.discount = []string{"0.7", "0.7", "0.5", "0.6"}[rng.Intn(4)]
	// the app reserve can always cover an exhausted collateral (a short reserve is C10's D23)
	cfg.reserve = math.MaxInt64 / 8
	if cfg.kind == "external" {
		cfg.incentive = "0"
	}
	return cfg
}

func TestC11Fill(t *testing.T) {
	tr := OpenTrace(t, "c11fill.trace")
	defer tr.Close(t)
	rng := NewRng(seed()<<40 + 11)
	f := c10newFix(t)
	base := c10cfg{pair: 0, kind: "vaultkeeper", amountIn: sdk.NewInt(1000000), amountOut: sdk.NewInt(1000000), dropTo: 1400000, T: 3600,
		premium: "1.2", discount: "0.7", incentive: "0.1", minUsd: 100000, bonusRate: "0", penaltyExt: "0.1", reserve: 100000000}
	// ---- corpus 1: deposit = remaining debt — the record is deleted, BidValue keeps counting it
	if s := c11fillStart(t, f, tr, base, "0", "0"); s != nil {
		s.fdep("b1", 9, sdk.NewInt(1120000))
		s.fdep("b2", 20, sdk.NewInt(500000))
		s.ftick(2950 * time.Second)
		s.fcancel("b2", 20)
		tr.Count("corpus:fill-exact")
	}
	// ---- corpus 2: deposit > remaining debt, then the depositor cancels the rest; a second depositor must stay whole
	if s := c11fillStart(t, f, tr, base, "0.01", "0.005"); s != nil {
		s.fdep("b1", 9, sdk.NewInt(3000000))
		s.fdep("b2", 20, sdk.NewInt(600000))
		s.ftick(2950 * time.Second)
		s.fwd("b1", 9, sdk.NewInt(880001)) // more than what is left of the own deposit (1 880 000 − … ): refused
		s.fwd("b1", 9, sdk.NewInt(1880001))
		s.fcancel("b1", 9)
		s.fcancel("b2", 20)
		tr.Count("corpus:fill-greater")
	}
	// ---- corpus 3: deposit < remaining debt, two bidders at one premium (D7: both filled against the value read before the loop)
	if s := c11fillStart(t, f, tr, base, "0", "0"); s != nil {
		s.fdep("b1", 9, sdk.NewInt(400000))
		s.fdep("b2", 9, sdk.NewInt(400000))
		s.fdep("b3", 10, sdk.NewInt(250000))
		s.ftick(2950 * time.Second)
		s.ftick(50 * time.Second)
		s.fcancel("b3", 10)
		s.fbid("b4", sdk.NewInt(5000000))
		tr.Count("corpus:fill-two-at-one-premium")
	}
	// ---- corpus 4: a fill clipped by exhausted collateral debits the whole remaining target (D24)
	cfg := base
	cfg.dropTo = 1000000
	if s := c11fillStart(t, f, tr, cfg, "0", "0"); s != nil {
		s.fdep("b1", 1, sdk.NewInt(2000000))
		s.ftick(2100 * time.Second)
		s.fcancel("b1", 1)
		tr.Count("corpus:fill-clipped")
	}
	// ---- corpus 5: emergency shutdown, vault-initiated auction past its window: TriggerEsm forwards the 100 000 b1 paid, and then
	// forwards 100 000 again every block — out of b4's limit deposit, which b4 can then no longer cancel (D39)
	if s := c11fillStart(t, f, tr, base, "0", "0"); s != nil {
		s.fbid("b1", sdk.NewInt(100000))
		s.fdep("b4", 30, sdk.NewInt(250000))
		s.esm(true)
		s.ftick(61 * time.Minute)
		s.ftick(1 * time.Minute)
		s.ftick(1 * time.Minute)
		s.ftick(1 * time.Minute)
		s.fcancel("b4", 30)
		tr.Count("corpus:fill-esm-trigger")
	}
	n := scale(260, 6000)
	for i := 0; i < n; i++ {
		cfg := c11fillCfg(f, rng)
		fees := []string{"0", "0", "0.01", "0.005", "0.333333333333333333", "0.000000000000000001"}
		s := c11fillStart(t, f, tr, cfg, fees[rng.Intn(len(fees))], fees[rng.Intn(len(fees))])
		if s == nil {
			continue
		}
		s.randomOps(rng, cfg)
	}
}
