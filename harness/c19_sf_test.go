//go:build verif

package harness

// C19 — swap-fee gauges that hold something: real swaps with fees (limit orders against the pools, executed by the liquidity
// EndBlocker), the conversion of the accumulated fees into the distribution denomination by the liquidity BeginBlocker every 150
// blocks, the transfer from the pair's fee collector into the rewards module account at the gauge's epoch and the distribution
// to the pool's farmers one epoch later — all through the real begin / end blockers.

import (
	"testing"
	"time"

	sdkmath "cosmossdk.io/math"
	liqtypes "github.com/comdex-official/comdex/x/liquidity/types"
	rewardstypes "github.com/comdex-official/comdex/x/rewards/types"
	sdk "github.com/cosmos/cosmos-sdk/types"
)

// sfInputs prints, for every swap-fee gauge in the order `InitateGaugesForDuration` visits them, the inputs of the share
// computation on its deposit (gauge.dist) and the outcome of `TransferFundsForSwapFeeDistribution` (gauge.sfxfer).  The
// transfers are evaluated one after the other on ONE throw-away branch of the state, because a pool's share of a pair's fees
// depends on the transfers already made for the pair's earlier pools; a gauge whose distribution fails is not transferred to.
func (w *c19World) sfInputs() {
	sim, _ := w.ctx.CacheContext()
	for _, g := range w.app.Rewardskeeper.GetAllGauges(w.ctx) {
		if !g.ForSwapFee {
			continue
		}
		meta := g.GetLiquidityMetaData()
		if meta == nil {
			continue
		}
		distOK := true
		if g.DepositAmount.IsPositive() {
			d := w.computeDist(*meta, g.DepositAmount)
			w.tr.Line("gauge.dist", u(g.Id), g.DepositAmount.Amount.String(), d.mode, c19csvS(d.mpos), "-", d.outcome, c19csvS(d.recv), c19csvS(d.rewards))
			sum := sdk.ZeroInt()
			for _, r := range d.rewards {
				v, _ := sdk.NewIntFromString(r)
				sum = sum.Add(v)
			}
			if d.outcome != "ok" || sum.GT(g.DepositAmount.Amount) {
				distOK = false
				w.tr.Count("sfgauge:dist-refused")
			}
		}
		if !distOK {
			w.tr.Line("gauge.sfxfer", u(g.Id), "err", "0", g.DepositAmount.Denom) // not reached by the code
			continue
		}
		var coin sdk.Coin
		var err error
		panicked, _ := try(func() { coin, err = w.app.LiquidityKeeper.TransferFundsForSwapFeeDistribution(sim, g.AppId, meta.PoolId) })
		switch {
		case panicked || err != nil:
			w.tr.Line("gauge.sfxfer", u(g.Id), "err", "0", g.DepositAmount.Denom)
			w.tr.Count("sfxfer:err")
		default:
			if coin.Denom != g.DepositAmount.Denom {
				w.tr.Count("sfxfer:denom-changed")
				if g.DepositAmount.IsPositive() {
					w.tr.Count("sfxfer:denom-changed-with-remainder")
				}
			}
			w.tr.Line("gauge.sfxfer", u(g.Id), "ok", coin.Amount.String(), coin.Denom)
			if coin.Amount.IsPositive() {
				w.tr.Count("sfxfer:ok-positive")
			} else {
				w.tr.Count("sfxfer:ok-zero")
			}
		}
	}
}

// a limit order that crosses the pool price of pair `pairIx` (price 2 % beyond parity), paying the 0.3 % swap fee in the offer coin
func (w *c19World) swap(who sdk.AccAddress, pairIx int, buy bool, amt int64) {
	pair := w.pairs[pairIx]
	a := sdk.NewInt(amt)
	var msg sdk.Msg
	if buy {
		price := sdk.MustNewDecFromStr("1.05")
		offer := sdk.NewCoin(pair.QuoteCoinDenom, price.MulInt(a).MulInt64(101).QuoInt64(100).Ceil().TruncateInt())
		w.fund(who, sdk.NewCoins(offer))
		msg = liqtypes.NewMsgLimitOrder(w.appID, who, pair.Id, liqtypes.OrderDirectionBuy, offer, pair.BaseCoinDenom, price, a, 30*time.Second)
	} else {
		price := sdk.MustNewDecFromStr("0.95")
		offer := sdk.NewCoin(pair.BaseCoinDenom, a.MulRaw(101).QuoRaw(100))
		w.fund(who, sdk.NewCoins(offer))
		msg = liqtypes.NewMsgLimitOrder(w.appID, who, pair.Id, liqtypes.OrderDirectionSell, offer, pair.QuoteCoinDenom, price, a, 30*time.Second)
	}
	if err := w.deliver(msg); err != nil {
		w.tr.Count("swap:err")
	} else if buy {
		w.tr.Count("swap:buy")
	} else {
		w.tr.Count("swap:sell")
	}
}

func (w *c19World) rangedPool(pairIx int, amt int64) bool {
	pair := w.pairs[pairIx]
	creator := w.acct(0)
	params, err := w.app.LiquidityKeeper.GetGenericParams(w.ctx, w.appID)
	w.must(err)
	dep := sdk.NewCoins(sdk.NewCoin(pair.BaseCoinDenom, sdk.NewInt(amt)), sdk.NewCoin(pair.QuoteCoinDenom, sdk.NewInt(amt)))
	w.fund(creator, params.PoolCreationFee)
	w.fund(creator, dep)
	_, err = w.app.LiquidityKeeper.CreateRangedPool(w.ctx, liqtypes.NewMsgCreateRangedPool(w.appID, creator, pair.Id, dep,
		sdkmath.LegacyMustNewDecFromStr("0.9"), sdkmath.LegacyMustNewDecFromStr("1.1"), sdkmath.LegacyMustNewDecFromStr("1")))
	w.noteSfGauges()
	if err != nil {
		w.tr.Count("rangedpool:err")
		return false
	}
	w.tr.Count("rangedpool:ok")
	return true
}

// a gauge whose start lies far in the future: somebody else's coins in the same module account
func (w *c19World) ballastGauge(denom string, amt int64) {
	w.fund(w.acct(55), sdk.NewCoins(sdk.NewCoin(denom, sdk.NewInt(amt))))
	w.createGauge(c19GaugeSpec{creator: 55, denom: denom, deposit: sdk.NewInt(amt), total: 10, start: w.ctx.BlockTime().Add(100000 * time.Hour), dur: 24 * time.Hour, pool: 1, typeID: rewardstypes.LiquidityGaugeTypeID})
}

// S1 (regression; finding D44 repaired in the repository by b0fa4d4): before the fix a swap-fee gauge paid the same deposit
// again every epoch.  Pool 1 collects fees (uasset1), its gauge is
// funded at an epoch; then a second (ranged) pool is created on the pair and the oracle price of the other side goes away:
// the distribution to the farmers still works (one price suffices), `TransferFundsForSwapFeeDistribution` fails (it wants
// both), and the loop used to `continue` before `SetGauge`, so every following epoch paid the deposit again — out of the coins
// of an ordinary gauge in the same account.  Now the payment is booked at once; `sf_leak` / `custody_sf_leak` must stay silent.
func c19WitnessSfLeak(t *testing.T, tr *Trace) {
	w := c19NewWorldOpt(t, tr, 100000000, 1000000, [4]uint64{1000000, 1000000, 1000000, 1000000}, "uasset1")
	f := w.acct(1)
	pc := w.deposit(f, w.pools[0], 10000000)
	w.must(w.farm(f, w.pools[0], pc.Amount))
	w.settle(25 * time.Hour)
	w.ballastGauge("uasset1", 50000000)
	w.block(time.Hour)
	w.swap(w.acct(2), 0, false, 12000000) // sells uasset1: the fee is collected in uasset1, the distribution denomination
	w.swap(w.acct(3), 0, true, 3000000)
	w.block(25 * time.Hour) // (orders executed by the end blocker of this block)
	w.block(25 * time.Hour) // the gauge is funded from the fee collector
	w.rangedPool(0, 100000000)
	w.setPrice(2, 0, false)
	w.block(25 * time.Hour) // paid and (since the fix) booked although the transfer fails
	w.block(25 * time.Hour) // nothing left to pay
	w.block(25 * time.Hour)
	w.setPrice(2, 1000000, true)
	w.block(25 * time.Hour) // with both prices back the epoch is booked
	w.block(25 * time.Hour)
	tr.Count("witness:sf_leak")
}

// S2 (directed, no defect): change of `SwapFeeDistrDenom` while a swap-fee gauge holds an undistributed remainder.  Pool 1 has
// no farmer at first: its gauge collects uasset1 fees and cannot distribute them.  The parameter is changed to uasset2 through
// the real UpdateGenericParams; the next epoch's fees arrive in uasset2 and REPLACE the deposit (the uasset1 remainder stays in
// the account, owed to nobody).  An unrelated gauge holds uasset2 in the same account; later epochs pay a farmer.  (Seeded s117:
// the remainder relabelled as uasset2 is owed without being held.)
func c19SfDenomChangeCase(t *testing.T, tr *Trace) {
	w := c19NewWorldOpt(t, tr, 100000000, 1000000, [4]uint64{1000000, 1000000, 1000000, 1000000}, "uasset1")
	w.denoms = append(w.denoms, "uasset2")
	f := w.acct(1)
	pc := w.deposit(f, w.pools[0], 10000000) // holds pool coins, farms only later
	w.block(time.Hour)
	w.swap(w.acct(2), 0, false, 12000000) // fee in uasset1
	w.block(25 * time.Hour)
	w.block(25 * time.Hour) // gauge 1 funded with uasset1
	w.swap(w.acct(2), 0, false, 8000000)
	w.block(25 * time.Hour) // no farmer: nothing distributed, the deposit grows
	w.must(w.app.LiquidityKeeper.UpdateGenericParams(w.ctx, w.appID, []string{"SwapFeeDistrDenom"}, []string{"uasset2"}))
	w.ballastGauge("uasset2", 1000000)
	w.swap(w.acct(3), 0, true, 9000000) // fee in uasset2
	w.must(w.farm(f, w.pools[0], pc.Amount))
	w.block(25 * time.Hour) // (farmer still queued) fees arrive in uasset2: the deposit is replaced
	w.swap(w.acct(3), 0, true, 5000000)
	w.block(25 * time.Hour)
	w.block(25 * time.Hour)
	w.block(25 * time.Hour)
	tr.Count("corpus:sf-denom-change")
}

func c19SfWorld(t *testing.T, tr *Trace, rng *Rng) {
	reserve := []int64{100000000, 10000000000, 1000000000000}[rng.Intn(3)]
	w := c19NewWorldOpt(t, tr, reserve, 1000000, [4]uint64{1000000, []uint64{1000000, 2000000}[rng.Intn(2)], 1000000, 1000000}, "uasset1")
	nF := rng.Range(1, 4)
	for i := 1; i <= nF; i++ {
		for _, pi := range []int{0, 1, 3} { // pools whose pair contains uasset1
			if rng.Chance(70) {
				pc := w.deposit(w.acct(i), w.pools[pi], int64(rng.Range(1, 1000))*100000)
				if pc.Amount.IsPositive() {
					w.farm(w.acct(i), w.pools[pi], pc.Amount)
				}
			}
		}
	}
	w.settle(25 * time.Hour)
	if rng.Chance(60) {
		w.ballastGauge("uasset1", int64(rng.Range(1, 1000))*100000)
	}
	if rng.Chance(40) { // an ordinary gauge paying in the same denomination
		s := c19GaugeSpec{creator: 56, denom: "uasset1", deposit: sdk.NewInt(int64(rng.Range(10, 100000))), total: uint64(rng.Range(1, 6)), start: w.ctx.BlockTime(), dur: 24 * time.Hour, pool: 1, typeID: 1}
		w.fund(w.acct(56), sdk.NewCoins(sdk.NewCoin("uasset1", s.deposit)))
		w.createGauge(s)
	}
	ranged := false
	nBlocks := rng.Range(8, scale(16, 40))
	for b := 0; b < nBlocks; b++ {
		// swaps in both directions on the pairs that contain the distribution denomination, and on one that does not
		for i, n := 0, rng.Intn(4); i < n; i++ {
			pi := []int{0, 0, 1, 3, 2}[rng.Intn(5)]
			w.swap(w.acct(10+rng.Intn(3)), pi, rng.Chance(50), int64(rng.Range(1, 1000))*int64([]int{1000, 100000}[rng.Intn(2)]))
		}
		if rng.Chance(25) { // land on a multiple of 150: the liquidity begin blocker converts the accumulated fees
			h := w.ctx.BlockHeight()
			w.ctx = w.ctx.WithBlockHeight(h + (150 - h%150) - 1)
			tr.Count("sfworld:conversion-block")
		}
		gap := []time.Duration{time.Hour, 13 * time.Hour, 25 * time.Hour, 25 * time.Hour, 49 * time.Hour}[rng.Intn(5)]
		w.block(gap)
		switch rng.Intn(10) {
		case 0:
			if !ranged {
				ranged = w.rangedPool(0, int64(rng.Range(1, 100))*1000000)
			}
		case 1:
			w.setPrice(2, 0, false)
			tr.Count("sfworld:price-off")
		case 2:
			w.setPrice(2, 1000000, true)
		case 3:
			f := rng.Range(1, nF)
			if af, found := w.app.LiquidityKeeper.GetActiveFarmer(w.ctx, w.appID, 1, w.acct(f)); found {
				w.unfarm(w.acct(f), w.pools[0], af.FarmedPoolCoin.Amount.QuoRaw(int64(rng.Range(1, 3))))
			}
		case 4:
			w.donate(w.acct(70), "uasset1", int64(rng.Range(1, 1000)))
		case 5: // no oracle price for either side of pair 1: the distribution of the gauge's deposit errors, the epoch is not counted
			w.setPrice(1, 0, false)
			w.setPrice(2, 0, false)
			tr.Count("sfworld:both-prices-off")
		case 6:
			w.setPrice(1, 1000000, true)
			w.setPrice(2, 1000000, true)
		}
	}
}

func c19SfWorlds(t *testing.T, tr *Trace, rng *Rng) {
	n := scale(10, 200)
	for i := 0; i < n; i++ {
		c19SfWorld(t, tr, rng)
	}
}

// developer aid (not part of the check)
func TestC19SfOnly(t *testing.T) {
	tr := OpenTrace(t, "c19sf.trace")
	defer tr.Close(t)
	rng := NewRng(seed())
	c19WitnessSfLeak(t, tr)
	c19SfDenomChangeCase(t, tr)
	c19SfWorlds(t, tr, rng)
}
