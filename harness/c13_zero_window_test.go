//go:build verif

package harness

import (
	"encoding/json"
	"strings"
	"time"

	wasmvmtypes "github.com/CosmWasm/wasmvm/types"
	cwasm "github.com/comdex-official/comdex/app/wasm"
	"github.com/comdex-official/comdex/app/wasm/bindings"
	lockertypes "github.com/comdex-official/comdex/x/locker/types"
	sdk "github.com/cosmos/cosmos-sdk/types"
)

// ---------------------------------------------------------------------------------------------
// C13 directed histories: savings paid out of the net fees across zero-rate windows (seeded change s94 was reported only as a
// correspondence break). Several lockers of one (app, asset); the saving rate is switched off and on again through the REAL wasm
// binding (MsgUpdateCollectorLookupTable dispatched as JSON through the app's CustomMessenger); idle lockers, a locker touched in
// the window (reproduced defect D45), lockers created in the window; reward calculation in the block of the switch-on. Same `lk.*`
// lines as the main histories; the driver's ghost monitor `savings_zero_rate_window` judges what the REAL calls credited.
// ---------------------------------------------------------------------------------------------

func (e *c13Env) zwDispatch(ctx sdk.Context, m bindings.ComdexMessages) string {
	messenger := cwasm.CustomMessageDecorator(e.app.LockerKeeper, e.app.Rewardskeeper, e.app.AssetKeeper, e.app.CollectorKeeper, e.app.LiquidationKeeper,
		e.app.AuctionKeeper, e.app.TokenmintKeeper, e.app.EsmKeeper, e.app.VaultKeeper, e.app.LiquidityKeeper)(c18Sink{})
	raw, err := json.Marshal(m)
	if err != nil {
		e.t.Fatal(err)
	}
	return e.atomic(ctx, func(cc sdk.Context) error {
		_, _, derr := messenger.DispatchMsg(cc, c13Addr("govcontract", 0), "", wasmvmtypes.CosmosMsg{Custom: raw})
		return derr
	})
}

type c13ZW struct {
	e        *c13Env
	ctx      sdk.Context
	app, as  uint64
	lockerOf map[int]uint64
}

func (z *c13ZW) advance(gap int64) {
	z.ctx = z.ctx.WithBlockTime(z.ctx.BlockTime().Add(time.Duration(gap) * time.Second)).WithBlockHeight(z.ctx.BlockHeight() + 1 + gap/6)
}

func (z *c13ZW) sameBlockNextTx() {
	z.ctx = z.ctx.WithBlockHeight(z.ctx.BlockHeight() + 1)
}

func (z *c13ZW) create(ui int, amt int64) {
	e := z.e
	out := e.deliver(z.ctx, lockertypes.NewMsgCreateLockerRequest(e.users[ui].String(), sdk.NewInt(amt), z.as, z.app))
	t1, t2 := c13T(z.ctx)
	e.tr.Line("lk.create", t1, t2, u(uint64(ui)), u(z.app), u(z.as), i64(amt), out, e.state(z.ctx))
	m, _ := e.app.LockerKeeper.GetUserLockerAssetMapping(z.ctx, e.users[ui].String(), z.app, z.as)
	z.lockerOf[ui] = m.LockerId
	e.tr.Count("zw:create:" + out)
}

func (z *c13ZW) calc(ui int) {
	e := z.e
	id := z.lockerOf[ui]
	pw := e.powField(z.ctx, z.app, z.as, id, nil)
	t0 := e.totalRewards(z.ctx, z.app, z.as)
	out := e.deliver(z.ctx, lockertypes.NewMsgLockerRewardCalcRequest(e.users[ui].String(), z.app, id))
	obs := "-"
	if out == "ok" {
		obs = e.totalRewards(z.ctx, z.app, z.as).Sub(t0).String()
	}
	t1, t2 := c13T(z.ctx)
	e.tr.Line("lk.rewardcalc", t1, t2, u(z.app), u(id), pw, obs, out, e.state(z.ctx))
	e.tr.Count("zw:calc:" + out)
	if obs != "-" && obs != "0" {
		e.tr.Count("zw:calc:paid")
	}
}

func (z *c13ZW) move(kind string, ui int, amt int64) {
	e := z.e
	id := z.lockerOf[ui]
	pw := e.powField(z.ctx, z.app, z.as, id, nil)
	t0 := e.totalRewards(z.ctx, z.app, z.as)
	var out string
	switch kind {
	case "deposit":
		out = e.deliver(z.ctx, lockertypes.NewMsgDepositAssetRequest(e.users[ui].String(), id, sdk.NewInt(amt), z.as, z.app))
	case "withdraw":
		out = e.deliver(z.ctx, lockertypes.NewMsgWithdrawAssetRequest(e.users[ui].String(), id, sdk.NewInt(amt), z.as, z.app))
	}
	obs := "-"
	if out == "ok" {
		obs = e.totalRewards(z.ctx, z.app, z.as).Sub(t0).String()
	}
	t1, t2 := c13T(z.ctx)
	e.tr.Line("lk."+kind, t1, t2, u(uint64(ui)), u(z.app), u(z.as), u(id), i64(amt), pw, obs, out, e.state(z.ctx))
	e.tr.Count("zw:" + kind + ":" + out)
}

func (z *c13ZW) close(ui int) {
	e := z.e
	id := z.lockerOf[ui]
	pw := e.powField(z.ctx, z.app, z.as, id, nil)
	t0 := e.totalRewards(z.ctx, z.app, z.as)
	out := e.deliver(z.ctx, lockertypes.NewMsgCloseLockerRequest(e.users[ui].String(), z.app, z.as, id))
	obs := "-"
	if out == "ok" {
		obs = e.totalRewards(z.ctx, z.app, z.as).Sub(t0).String()
	}
	t1, t2 := c13T(z.ctx)
	e.tr.Line("lk.close", t1, t2, u(uint64(ui)), u(z.app), u(z.as), u(id), pw, obs, out, e.state(z.ctx))
	e.tr.Count("zw:close:" + out)
}

// lsr changes the saving rate through the real wasm binding
func (z *c13ZW) lsr(newRate sdk.Dec) {
	e := z.e
	ck := e.app.CollectorKeeper
	cl, _ := ck.GetCollectorLookupTable(z.ctx, z.app, z.as)
	var rws []string
	lk, _ := e.app.LockerKeeper.GetLockerLookupTable(z.ctx, z.app, z.as)
	old := cl.LockerSavingRate
	for _, id := range lk.LockerIds {
		rws = append(rws, e.powField(z.ctx, z.app, z.as, id, &old))
	}
	out := e.zwDispatch(z.ctx, bindings.ComdexMessages{MsgUpdateCollectorLookupTable: &bindings.MsgUpdateCollectorLookupTable{AppID: z.app, AssetID: z.as,
		DebtThreshold: cl.DebtThreshold, SurplusThreshold: cl.SurplusThreshold, LotSize: cl.LotSize, DebtLotSize: cl.DebtLotSize, BidFactor: cl.BidFactor, LSR: newRate}})
	t1, t2 := c13T(z.ctx)
	e.tr.Line("lk.lsr", t1, t2, u(z.app), u(z.as), newRate.BigInt().String(), cl.SurplusThreshold.String(), cl.DebtThreshold.String(),
		cl.LotSize.String(), cl.DebtLotSize.String(), strings.Join(rws, ","), out, e.state(z.ctx))
	switch {
	case newRate.IsZero() && !old.IsZero():
		e.tr.Count("zw:lsr:r_to_0")
	case newRate.IsZero():
		e.tr.Count("zw:lsr:0_to_0")
	case old.IsZero():
		e.tr.Count("zw:lsr:0_to_r")
	default:
		e.tr.Count("zw:lsr:r_to_r")
	}
}

// zeroWindowSequence: variant 0 = the history of s94 (idle lockers, a year at rate zero, switch-on and trigger in one block),
// variant 1 = one of the lockers is deposited into during the window (defect D45), variant 2 = lockers created during the window and
// a change r -> r' afterwards; variant >= 3: random lengths, rates and amounts.
func (e *c13Env) zeroWindowSequence(base sdk.Context, variant int) {
	ctx, _ := base.CacheContext()
	app, tr, rng := e.app, e.tr, e.rng
	day := int64(86400)
	rate0, rate1 := sdk.MustNewDecFromStr("0.1"), sdk.MustNewDecFromStr("0.1")
	window, first, amt := 365*day, day, int64(1000000)
	if variant >= 3 {
		rate0, rate1 = c13Rate(rng), c13Rate(rng)
		if rate0.IsZero() {
			rate0 = sdk.MustNewDecFromStr("0.03")
		}
		if rate1.IsZero() {
			rate1 = sdk.MustNewDecFromStr("0.5")
		}
		window = []int64{0, 1, 3600, day, 30 * day, 200 * day, 700 * day}[rng.Intn(7)]
		first = []int64{0, 6, day, 40 * day}[rng.Intn(4)]
		amt = int64(1 + rng.Intn(2000000000))
	}
	z := &c13ZW{e: e, ctx: ctx, app: 1, as: c13AssetCmst, lockerOf: map[int]uint64{}}
	startRate := rate0
	if variant == 2 {
		startRate = sdk.ZeroDec()
	}
	e.setCollectorLookup(z.ctx, z.app, z.as, startRate, 200000, 2000000)
	tr.Line("lk.begin", "assets=1,2,3,4", "apps=1,2", e.collkField(z.ctx))
	tr.Count("seq:zero_window")
	out := e.atomic(z.ctx, func(cc sdk.Context) error {
		_, err := app.LockerKeeper.AddWhiteListedAsset(cc, &lockertypes.MsgAddWhiteListedAssetRequest{From: e.users[0].String(), AppId: z.app, AssetId: z.as})
		return err
	})
	tr.Line("lk.whitelist", u(z.app), u(z.as), out, e.state(z.ctx))
	out = e.atomic(z.ctx, func(cc sdk.Context) error { return app.Rewardskeeper.WhitelistAssetForInternalRewards(cc, z.app, z.as) })
	tr.Line("lk.wlreward", u(z.app), u(z.as), out, e.state(z.ctx))
	for ui := 0; ui < 3; ui++ {
		x := sdk.NewInt(4 * amt)
		e.mint(z.ctx, e.users[ui], "", z.as, x)
		tr.Line("lk.fund", u(uint64(ui)), u(z.as), x.String(), "ok", e.state(z.ctx))
	}
	{ // fees already collected, enough to pay every reward of the history
		x := sdk.NewInt(amt).MulRaw(1000)
		out := e.atomic(z.ctx, func(cc sdk.Context) error {
			e.mint(cc, nil, "auctionV1", z.as, x)
			if err := app.BankKeeper.SendCoinsFromModuleToModule(cc, "auctionV1", "collectorV1", sdk.NewCoins(sdk.NewCoin(c13Denom[z.as], x))); err != nil {
				return err
			}
			return app.CollectorKeeper.SetNetFeeCollectedData(cc, z.app, z.as, x)
		})
		tr.Line("lk.penalty", u(z.app), u(z.as), x.String(), out, e.state(z.ctx))
	}
	if variant == 2 {
		z.advance(10)
		z.create(0, amt)
		z.advance(40 * day)
		z.create(1, amt/2+1)
		z.advance(window / 3)
		z.lsr(rate0) // 0 -> r
		z.sameBlockNextTx()
		z.calc(0)
		z.sameBlockNextTx()
		z.calc(1)
		z.advance(7 * day)
		z.calc(0)
		z.advance(3 * day)
		z.lsr(rate1) // r -> r'
		z.sameBlockNextTx()
		z.calc(0)
		z.sameBlockNextTx()
		z.calc(1)
		z.advance(5 * day)
		z.move("withdraw", 1, 1)
		z.advance(2 * day)
		z.close(0)
		return
	}
	z.create(0, amt)
	z.advance(6)
	z.create(1, amt/3+1)
	z.advance(first)
	z.lsr(sdk.ZeroDec()) // r -> 0: every locker settled and flagged
	z.advance(window / 4)
	z.calc(0) // a trigger during the window: nothing
	if variant == 1 || (variant >= 3 && rng.Chance(35)) {
		z.advance(day)
		z.move("deposit", 1, 1) // touched in the window
		tr.Count("zw:touched")
	}
	if variant >= 3 && rng.Chance(40) {
		z.advance(10)
		z.create(2, amt/5+1) // created in the window
	}
	if variant >= 3 && rng.Chance(30) {
		z.advance(window / 8)
		z.lsr(sdk.ZeroDec()) // 0 -> 0
	}
	z.advance(window - window/4)
	z.lsr(rate1) // 0 -> r
	for ui := 0; ui < 3; ui++ {
		if _, ok := z.lockerOf[ui]; ok {
			z.sameBlockNextTx()
			z.calc(ui) // in the block of the switch-on: zero seconds at a non-zero rate
		}
	}
	z.advance(30 * day)
	z.calc(0)
	z.advance(6)
	z.move("withdraw", 1, 1)
	z.advance(day)
	z.close(0)
}
