//go:build verif

package harness

// C16, second part: the map-iteration sites and the block hooks around them are executed MANY times in one process on
// identical inputs (Go draws a fresh iteration order for every `range` over a map), the observable result of every
// repetition is hashed. Trace: det.site <name> ok <runs> <distinct hashes>; monitor site_stable: distinct = 1.

import (
	"crypto/sha256"
	"encoding/hex"
	"fmt"
	"sort"
	"strconv"
	"testing"
	"time"

	abci "github.com/cometbft/cometbft/abci/types"
	sdk "github.com/cosmos/cosmos-sdk/types"
	banktypes "github.com/cosmos/cosmos-sdk/x/bank/types"

	"github.com/comdex-official/comdex/x/liquidity"
	"github.com/comdex-official/comdex/x/liquidity/amm"
	liquiditytypes "github.com/comdex-official/comdex/x/liquidity/types"
	"github.com/comdex-official/comdex/x/rewards"
	rewardstypes "github.com/comdex-official/comdex/x/rewards/types"
)

func c16Distinct(runs int, f func(i int) string) int {
	seen := map[string]bool{}
	for i := 0; i < runs; i++ {
		seen[f(i)] = true
	}
	return len(seen)
}

func c16StoreHash(ctx sdk.Context, in *c16Inst, names ...string) string {
	h := sha256.New()
	for _, n := range names {
		key := in.app.GetKey(n)
		if key == nil {
			in.t.Fatalf("c16: no store key %q", n)
		}
		it := ctx.KVStore(key).Iterator(nil, nil)
		for ; it.Valid(); it.Next() {
			h.Write(it.Key())
			h.Write([]byte{0})
			h.Write(it.Value())
			h.Write([]byte{1})
		}
		it.Close()
	}
	return hex.EncodeToString(h.Sum(nil)[:12])
}

func c16Sites(t *testing.T, tr *Trace) {
	rng := NewRng(seed() + 77)
	runs := scale(200, 2000)


	// --- sanity of the method: an order-DEPENDENT loop must be visible as such (guards against a vacuous site test)
	{
		m := map[int]int{}
		for i := 0; i < 6; i++ {
			m[i] = i * i
		}
		d := c16Distinct(runs, func(int) string {
			s := ""
			for k := range m {
				s += strconv.Itoa(k) + ","
			}
			return s
		})
		tr.Line("det.sanity", "unsorted-map-keys", "ok", strconv.Itoa(runs), strconv.Itoa(d))
	}

	// --- x/liquidity/amm/match.go DistributeOrderAmountToOrders: several orders of one side at one price, partial fill
	cases := scale(60, 600)
	worst := 1
	for c := 0; c < cases; c++ {
		n := 2 + rng.Intn(6)
		buy := rng.Chance(50)
		price := sdk.NewDecWithPrec(int64(5000+rng.Intn(20000)), 4)
		amts := make([]int64, n)
		var total int64
		for i := range amts {
			amts[i] = int64(1 + rng.Intn(5000))
			if rng.Chance(20) {
				amts[i] = int64(1 + rng.Intn(3)) // tiny orders: the "matched amount rounds to zero" branch and the recursion
			}
			total += amts[i]
		}
		fill := 1 + rng.Intn(int(total))
		d := c16Distinct(runs/10+2, func(int) string {
			orders := make([]amm.Order, n)
			for i := range orders {
				dir := amm.Sell
				if buy {
					dir = amm.Buy
				}
				orders[i] = amm.NewBaseOrder(dir, price, sdk.NewInt(amts[i]), amm.OfferCoinAmount(dir, price, sdk.NewInt(amts[i])))
			}
			var diff sdk.Int
			panicked, _ := try(func() { diff = amm.DistributeOrderAmountToOrders(orders, sdk.NewInt(int64(fill)), price) })
			s := fmt.Sprint(panicked)
			if !panicked {
				s += diff.String()
			}
			for _, o := range orders {
				s += "|" + o.GetOpenAmount().String() + "," + o.GetPaidOfferCoinAmount().String() + "," + o.GetReceivedDemandCoinAmount().String()
			}
			return s
		})
		if d > worst {
			worst = d
		}
		tr.Count("site:distribute:case")
	}
	tr.Line("det.site", "amm.DistributeOrderAmountToOrders", "ok", strconv.Itoa(cases*(runs/10+2)), strconv.Itoa(worst))

	// --- x/liquidity/amm/orderbook.go OrderBook.String
	{
		ob := amm.NewOrderBook()
		for i := 0; i < 12; i++ {
			price := sdk.NewDecWithPrec(int64(9000+rng.Intn(30)*100), 4)
			dir := amm.Buy
			if i%2 == 1 {
				dir = amm.Sell
			}
			ob.AddOrder(amm.NewBaseOrder(dir, price, sdk.NewInt(int64(100+i)), amm.OfferCoinAmount(dir, price, sdk.NewInt(int64(100+i)))))
		}
		d := c16Distinct(runs, func(int) string { return ob.String() })
		tr.Line("det.site", "amm.OrderBook.String", "ok", strconv.Itoa(runs), strconv.Itoa(d))
	}

	// --- an instance with some history: pools, swap fees in the collectors, pending orders, farmers, gauges
	in := c16NewInst(t)
	defer in.close()
	w := c16NewWorkload(in, seed()*1000, thorough())
	warm := 14
	for b := 0; b < warm; b++ {
		in.begin(w.blockGap(b))
		w.block(b)
		in.end()
	}

	// --- app/app.go App.ModuleAccountAddrs
	{
		d := c16Distinct(runs, func(int) string {
			m := in.app.ModuleAccountAddrs()
			ks := make([]string, 0, len(m))
			for k, v := range m {
				ks = append(ks, k+"="+fmt.Sprint(v))
			}
			sort.Strings(ks)
			return fmt.Sprint(ks)
		})
		tr.Line("det.site", "app.ModuleAccountAddrs", "ok", strconv.Itoa(runs), strconv.Itoa(d))
	}

	// further blocks; inside each of them, on throw-away branches of the block's state, repeat the hooks
	hookRuns := scale(12, 60)
	blocks := scale(10, 30)
	worstFee, worstEnd, worstBegin, worstEpoch := 1, 1, 1, 1
	nFee, nEnd, nBegin, nEpoch := 0, 0, 0, 0
	stores := []string{liquiditytypes.StoreKey, rewardstypes.StoreKey, banktypes.StoreKey}
	for b := warm; b < warm+blocks; b++ {
		in.begin(w.blockGap(b))
		w.block(b)
		// (a) x/liquidity/keeper/pool.go TransferFundsForSwapFeeDistribution, every pool of the multi-pool pairs
		for _, poolID := range []uint64{1, 2, 5, 6, 8, 10} {
			d := c16Distinct(hookRuns, func(int) string {
				cc, _ := in.ctx.CacheContext()
				coin, err := in.app.LiquidityKeeper.TransferFundsForSwapFeeDistribution(cc, c16AppSwap, poolID)
				return fmt.Sprint(coin.String(), err != nil, c16StoreHash(cc, in, banktypes.StoreKey))
			})
			nFee += hookRuns
			if d > worstFee {
				worstFee = d
			}
		}
		// (b) the liquidity EndBlocker (batch matching of this block's orders, deposits, withdrawals, queued farmers)
		d := c16Distinct(hookRuns, func(int) string {
			cc, _ := in.ctx.CacheContext()
			liquidity.EndBlocker(cc, in.app.LiquidityKeeper, in.app.AssetKeeper)
			return c16StoreHash(cc, in, stores...)
		})
		nEnd += hookRuns
		if d > worstEnd {
			worstEnd = d
		}
		// (c) the liquidity BeginBlocker at a height that is a multiple of 150 (swap-fee conversion through the pools)
		d = c16Distinct(hookRuns, func(int) string {
			cc, _ := in.ctx.CacheContext()
			cc = cc.WithBlockHeight(150 * ((in.height / 150) + 1))
			liquidity.BeginBlocker(cc, in.app.LiquidityKeeper, in.app.AssetKeeper)
			return c16StoreHash(cc, in, stores...)
		})
		nBegin += hookRuns
		if d > worstBegin {
			worstBegin = d
		}
		// (d) the rewards BeginBlocker one epoch later (gauges: farming rewards, swap-fee distribution over several pools,
		// external locker / vault / lend rewards)
		d = c16Distinct(hookRuns, func(int) string {
			cc, _ := in.ctx.CacheContext()
			cc = cc.WithBlockTime(in.now.Add(25 * time.Hour))
			rewards.BeginBlocker(cc, abci.RequestBeginBlock{}, in.app.Rewardskeeper)
			return c16StoreHash(cc, in, stores...)
		})
		nEpoch += hookRuns
		if d > worstEpoch {
			worstEpoch = d
		}
		in.end()
	}
	tr.Line("det.site", "liquidity.TransferFundsForSwapFeeDistribution", "ok", strconv.Itoa(nFee), strconv.Itoa(worstFee))
	tr.Line("det.site", "liquidity.EndBlocker", "ok", strconv.Itoa(nEnd), strconv.Itoa(worstEnd))
	tr.Line("det.site", "liquidity.BeginBlocker@150", "ok", strconv.Itoa(nBegin), strconv.Itoa(worstBegin))
	tr.Line("det.site", "rewards.BeginBlocker@epoch", "ok", strconv.Itoa(nEpoch), strconv.Itoa(worstEpoch))
	for k, v := range in.stats {
		tr.Stats["sites:"+k] += v
	}
}
