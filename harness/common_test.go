//go:build verif

// Package harness drives the real comdex keepers in-process and writes trace lines for the Lean
// driver (see /verif/DESIGN.md §3.4). All randomness derives from VERIF_SEED through splitmix64.
package harness

import (
	"bufio"
	"encoding/json"
	"fmt"
	"os"
	"sort"
	"strconv"
	"strings"
	"testing"
)

type Rng struct{ s uint64 }

// NewRng scrambles the seed first: splitmix64 streams started from states that differ by a multiple of the increment are
// shifts of one another, so the raw seed must not be used as the state.
func NewRng(seed uint64) *Rng {
	z := seed + 0x632BE59BD9B4E019
	z = (z ^ (z >> 33)) * 0xFF51AFD7ED558CCD
	z = (z ^ (z >> 33)) * 0xC4CEB9FE1A85EC53
	z ^= z >> 33
	return &Rng{s: z}
}

func (r *Rng) U64() uint64 {
	r.s += 0x9E3779B97F4A7C15
	z := r.s
	z = (z ^ (z >> 30)) * 0xBF58476D1CE4E5B9
	z = (z ^ (z >> 27)) * 0x94D049BB133111EB
	return z ^ (z >> 31)
}
func (r *Rng) Intn(n int) int {
	if n <= 0 {
		return 0
	}
	return int(r.U64() % uint64(n))
}
func (r *Rng) Range(lo, hi int) int { return lo + r.Intn(hi-lo+1) }
func (r *Rng) Chance(pct int) bool  { return r.Intn(100) < pct }
func (r *Rng) Pick(xs []uint64) uint64 {
	return xs[r.Intn(len(xs))]
}

func envInt(name string, def int) int {
	if v := os.Getenv(name); v != "" {
		if n, err := strconv.Atoi(v); err == nil {
			return n
		}
	}
	return def
}

func seed() uint64 { return uint64(envInt("VERIF_SEED", 1)) }
func thorough() bool { return os.Getenv("VERIF_TIER") == "thorough" }

// scale picks the quick or the thorough budget.
func scale(quick, thor int) int {
	if thorough() {
		return thor
	}
	return quick
}

type Trace struct {
	f     *os.File
	w     *bufio.Writer
	seq   int
	Stats map[string]int
	extra map[string]interface{}
}

func OpenTrace(t *testing.T, def string) *Trace {
	path := os.Getenv("VERIF_OUT")
	if path == "" {
		path = def
	}
	f, err := os.Create(path)
	if err != nil {
		t.Fatal(err)
	}
	return &Trace{f: f, w: bufio.NewWriterSize(f, 1<<20), Stats: map[string]int{}, extra: map[string]interface{}{}}
}

// Line writes `seq <TAB> kind <TAB> fields…`.
func (tr *Trace) Line(kind string, fields ...string) {
	tr.seq++
	tr.w.WriteString(strconv.Itoa(tr.seq))
	tr.w.WriteByte('\t')
	tr.w.WriteString(kind)
	for _, f := range fields {
		tr.w.WriteByte('\t')
		tr.w.WriteString(f)
	}
	tr.w.WriteByte('\n')
	tr.Stats["lines"]++
	tr.Stats["kind:"+kind]++
}
func (tr *Trace) Count(key string)              { tr.Stats[key]++ }
func (tr *Trace) Set(key string, v interface{}) { tr.extra[key] = v }

func (tr *Trace) Close(t *testing.T) {
	tr.w.Flush()
	tr.f.Close()
	if p := os.Getenv("VERIF_STATS"); p != "" {
		keys := make([]string, 0, len(tr.Stats))
		for k := range tr.Stats {
			keys = append(keys, k)
		}
		sort.Strings(keys)
		out := map[string]interface{}{"stats": tr.Stats, "extra": tr.extra}
		b, _ := json.MarshalIndent(out, "", " ")
		if err := os.WriteFile(p, b, 0o644); err != nil {
			t.Fatal(err)
		}
	}
}

func u(x uint64) string { return strconv.FormatUint(x, 10) }
func i64(x int64) string { return strconv.FormatInt(x, 10) }
func joinU(xs []uint64) string {
	ss := make([]string, len(xs))
	for i, x := range xs {
		ss[i] = u(x)
	}
	return strings.Join(ss, ",")
}

// try runs f and reports a Go panic as an outcome instead of killing the process.
func try(f func()) (panicked bool, msg string) {
	defer func() {
		if r := recover(); r != nil {
			panicked = true
			msg = fmt.Sprint(r)
		}
	}()
	f()
	return false, ""
}

// alphaName returns a distinct upper-case name (asset names must match ^[A-Z]+$).
func alphaName(i int) string {
	s := "A"
	for {
		s += string(rune('A' + i%26))
		i /= 26
		if i == 0 {
			return s
		}
	}
}
