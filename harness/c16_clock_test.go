//go:build verif

package harness

// C16 — a replica with a SHIFTED WALL CLOCK, without any change to the code under test.
//
// A wall-clock read in consensus code (time.Now / time.Since / time.Until …) whose result is quantised before it reaches
// the state (a day count, a number of missed epochs) gives the same value on two replicas that run within the same
// second, minute or day: sleeping between replicas shows only the fine-grained dependences. A replica whose clock is
// months away shows all of them. libfaketime does not work for Go (the runtime reads the vDSO, not libc), the system
// clock is shared with everything else on the machine and Linux time namespaces do not cover CLOCK_REALTIME.
// So the child process that is to see another time overwrites the entry of `time.Now` IN ITS OWN PROCESS IMAGE with
// a jump to c16ShiftedNow (12 bytes: movabs rax, imm64; jmp rax), which reads the real clock with gettimeofday(2) and
// adds the offset. `time.Since` / `time.Until` reach the clock through `time.Now` for every Time value that carries no
// monotonic reading (everything that came out of a store, a header or the shifted clock itself). Timers, sleeps and
// the scheduler use the runtime's monotonic clock and are not affected.
// This is test-harness machinery for linux/amd64; the parent checks that it worked (`det.sanity shifted-clock`: the
// child must report a clock that is at least the offset minus an hour away from the parent's), so a toolchain in which
// `time.Now` is inlined or laid out differently is reported as BAD instead of silently comparing nothing.

import (
	"reflect"
	"runtime"
	"syscall"
	"time"
	"unsafe"
)

var c16ClockOffset time.Duration

func c16ShiftedNow() time.Time {
	var tv syscall.Timeval
	_ = syscall.Gettimeofday(&tv)
	return time.Unix(tv.Sec, int64(tv.Usec)*1000).Add(c16ClockOffset)
}

// c16ShiftClock makes time.Now() of THIS process return the real time plus `offset`. Returns false where unsupported.
func c16ShiftClock(offset time.Duration) bool {
	if runtime.GOOS != "linux" || runtime.GOARCH != "amd64" {
		return false
	}
	c16ClockOffset = offset
	from := reflect.ValueOf(time.Now).Pointer()
	to := reflect.ValueOf(c16ShiftedNow).Pointer()
	code := []byte{0x48, 0xB8, 0, 0, 0, 0, 0, 0, 0, 0, 0xFF, 0xE0}
	for i := 0; i < 8; i++ {
		code[2+i] = byte(uint64(to) >> (8 * i))
	}
	const pageSize = 4096
	page := from &^ (pageSize - 1)
	n := pageSize
	if from+uintptr(len(code)) > page+pageSize {
		n = 2 * pageSize
	}
	mem := unsafe.Slice((*byte)(unsafe.Pointer(page)), n)
	if err := syscall.Mprotect(mem, syscall.PROT_READ|syscall.PROT_WRITE|syscall.PROT_EXEC); err != nil {
		return false
	}
	copy(unsafe.Slice((*byte)(unsafe.Pointer(from)), len(code)), code)
	_ = syscall.Mprotect(mem, syscall.PROT_READ|syscall.PROT_EXEC)
	return true
}
