//go:build verif

package harness

// C20 — genesis export / re-import round trip on the REAL application.
//
// One chain A is driven through user messages and block processing of every DeFi module (fixtures follow the
// repository's own keeper tests), committed, exported with app.ExportAppStateAndValidators (every module's real
// ExportGenesis), and a FRESH application B is initialised from the exported genesis with InitChain (every module's
// real InitGenesis, bank/auth included). Then
//   (i)  every DeFi module KV store is dumped on both sides (`gen.kv` lines: side, module, key, value) — the Lean driver
//        classifies the keys by the regenerated prefix table, runs the model's init∘export on A's dump, compares with
//        B's dump (DIFF) and evaluates the round-trip monitors (MON);
//   (ii) the same continuation workload is applied to both chains (`gen.op` lines: op, outcome/ids/balances on A and B).

import (
	"encoding/hex"
	"encoding/json"
	"fmt"
	"os"
	"runtime/debug"
	"sort"
	"strings"
	"testing"
	"time"

	chain "github.com/comdex-official/comdex/app"
	"github.com/comdex-official/comdex/app/wasm/bindings"
	assettypes "github.com/comdex-official/comdex/x/asset/types"
	"github.com/comdex-official/comdex/x/auction"
	auctiontypes "github.com/comdex-official/comdex/x/auction/types"
	auctionsV2types "github.com/comdex-official/comdex/x/auctionsV2/types"
	bandtypes "github.com/comdex-official/comdex/x/bandoracle/types"
	collectortypes "github.com/comdex-official/comdex/x/collector/types"
	esmtypes "github.com/comdex-official/comdex/x/esm/types"
	lendtypes "github.com/comdex-official/comdex/x/lend/types"
	liquidationtypes "github.com/comdex-official/comdex/x/liquidation/types"
	liqV2types "github.com/comdex-official/comdex/x/liquidationsV2/types"
	liquiditytypes "github.com/comdex-official/comdex/x/liquidity/types"
	lockertypes "github.com/comdex-official/comdex/x/locker/types"
	markettypes "github.com/comdex-official/comdex/x/market/types"
	rewardstypes "github.com/comdex-official/comdex/x/rewards/types"
	tokenminttypes "github.com/comdex-official/comdex/x/tokenmint/types"
	vaulttypes "github.com/comdex-official/comdex/x/vault/types"
	dbm "github.com/cometbft/cometbft-db"
	abci "github.com/cometbft/cometbft/abci/types"
	"github.com/cometbft/cometbft/libs/log"
	tmproto "github.com/cometbft/cometbft/proto/tendermint/types"
	simtestutil "github.com/cosmos/cosmos-sdk/testutil/sims"
	sdk "github.com/cosmos/cosmos-sdk/types"
	"github.com/cosmos/cosmos-sdk/types/module"
)

// store keys of the DeFi modules (module directory -> KV store key)
var c20Stores = [][2]string{
	{"vault", "vaultV1"}, {"locker", "lockerV1"}, {"lend", "lendV2"}, {"collector", "collectorV1"},
	{"liquidation", "liquidationV1"}, {"liquidationsV2", "liquidationsV2"}, {"auction", "auctionV1"},
	{"auctionsV2", "auctionsV2"}, {"rewards", "rewardsV1"}, {"liquidity", "liquidityV1"}, {"market", "marketV1"},
	{"asset", "assetv1"}, {"esm", "esmV1"}, {"tokenmint", "tokenmint"}, {"bandoracle", "bandoracleV1"},
}

type c20KV struct{ k, v []byte }

var c20Pop *c20Population

// set by the migration cases: the two chains come from two app.Setup calls
var c20SeparateSetups bool

// c20MatchForeignAccounts renames, in bb, every address that holds something on one side only to the address on the other side
// that holds exactly the same coins (the random genesis account of app.Setup); unmatched ones stay and are reported as differences.
func c20MatchForeignAccounts(ba, bb map[string]string) {
	holdings := func(m map[string]string, other map[string]string) map[string][]string {
		addrs := map[string]bool{}
		for k := range other {
			addrs[strings.SplitN(k, "/", 2)[0]] = true
		}
		out := map[string][]string{}
		for k, v := range m {
			p := strings.SplitN(k, "/", 2)
			if !addrs[p[0]] {
				out[p[0]] = append(out[p[0]], p[1]+"="+v)
			}
		}
		for a := range out {
			sort.Strings(out[a])
		}
		return out
	}
	ha, hb := holdings(ba, bb), holdings(bb, ba)
	used := map[string]bool{}
	var bs []string
	for b := range hb {
		bs = append(bs, b)
	}
	sort.Strings(bs)
	var as []string
	for a := range ha {
		as = append(as, a)
	}
	sort.Strings(as)
	for _, b := range bs {
		for _, a := range as {
			if !used[a] && strings.Join(ha[a], ",") == strings.Join(hb[b], ",") {
				used[a] = true
				for _, dv := range hb[b] {
					d := strings.SplitN(dv, "=", 2)
					bb[a+"/"+d[0]] = d[1]
					delete(bb, b+"/"+d[0])
				}
				break
			}
		}
	}
}

// is this genesis key (= module name) one of the 15 DeFi modules?
func c20IsDefi(name string) bool {
	for _, s := range c20Stores {
		if s[1] == name {
			return true
		}
	}
	return false
}

// module directory of a module (= store) name; other modules keep their name
func c20ModuleDir(name string) string {
	for _, s := range c20Stores {
		if s[1] == name {
			return s[0]
		}
	}
	return name
}

// c20TryStack runs f; a panic is an outcome, attributed to the first comdex module (x/<dir>/) on the panicking stack.
func c20TryStack(f func()) (panicked bool, msg, module string) {
	defer func() {
		if r := recover(); r != nil {
			panicked, msg, module = true, fmt.Sprint(r), "app"
			st := string(debug.Stack())
			if i := strings.Index(st, "comdex/x/"); i >= 0 {
				rest := st[i+len("comdex/x/"):]
				if j := strings.IndexAny(rest, "/."); j > 0 {
					module = rest[:j]
				}
			}
		}
	}()
	f()
	return false, "", ""
}

func c20Dump(app *chain.App, ctx sdk.Context, storeKey string) []c20KV {
	st := ctx.KVStore(app.GetKey(storeKey))
	it := st.Iterator(nil, nil)
	defer it.Close()
	var out []c20KV
	for ; it.Valid(); it.Next() {
		out = append(out, c20KV{append([]byte{}, it.Key()...), append([]byte{}, it.Value()...)})
	}
	return out
}

// c20World is one application under construction.
type c20World struct {
	t    *testing.T
	tr   *Trace
	app  *chain.App
	ctx  sdk.Context
	u    []sdk.AccAddress
	fail []string
	skip []string // construction steps left out in this case (name prefixes)
}

func (w *c20World) skipped(name string) bool {
	for _, p := range w.skip {
		if strings.HasPrefix(name, p) {
			return true
		}
	}
	return false
}

func c20Addr(i int) sdk.AccAddress {
	b := []byte(fmt.Sprintf("c20-user-%02d---------", i))
	return sdk.AccAddress(b[:20])
}

func c20Dec(s string) sdk.Dec { return sdk.MustNewDecFromStr(s) }

// deliver sends a user message the way the chain does: ValidateBasic, then the routed handler on a cache context that
// is written back only on success.
func (w *c20World) deliver(msg sdk.Msg) (ok bool, detail string) {
	return c20Deliver(w.app, w.ctx, msg)
}

// message types delivered by the continuation workload on the ORIGINAL chain (type URL -> accepted / refused)
var (
	c20ContApp  *chain.App
	c20ContMsgs = map[string]*[2]int{}
)

func c20Deliver(app *chain.App, ctx sdk.Context, msg sdk.Msg) (ok bool, detail string) {
	if app == c20ContApp && app != nil {
		defer func() {
			st := c20ContMsgs[sdk.MsgTypeURL(msg)]
			if st == nil {
				st = &[2]int{}
				c20ContMsgs[sdk.MsgTypeURL(msg)] = st
			}
			if ok {
				st[0]++
			} else {
				st[1]++
			}
		}()
	}
	if err := msg.ValidateBasic(); err != nil {
		return false, "validate: " + err.Error()
	}
	h := app.MsgServiceRouter().Handler(msg)
	if h == nil {
		return false, "no handler"
	}
	cctx, write := ctx.CacheContext()
	var err error
	pan, pmsg := try(func() { _, err = h(cctx, msg) })
	if pan {
		return false, "panic: " + pmsg
	}
	if err != nil {
		return false, err.Error()
	}
	write()
	return true, ""
}

// step runs one construction step; construction failures are recorded (the fixture must build completely).
func (w *c20World) step(name string, f func() error) {
	if w.skipped(name) {
		w.tr.Count("build:skipped")
		return
	}
	var err error
	pan, pmsg := try(func() { err = f() })
	switch {
	case pan:
		w.fail = append(w.fail, name+": panic: "+pmsg)
		w.tr.Count("build:fail")
	case err != nil:
		w.fail = append(w.fail, name+": "+err.Error())
		w.tr.Count("build:fail")
	default:
		w.tr.Count("build:ok")
	}
}

func (w *c20World) msg(name string, m sdk.Msg) {
	w.step(name, func() error {
		ok, d := w.deliver(m)
		if !ok {
			return fmt.Errorf("%s", d)
		}
		return nil
	})
}

func (w *c20World) fund(addr sdk.AccAddress, denom string, amt int64) {
	w.step("fund", func() error {
		c := sdk.NewCoins(sdk.NewCoin(denom, sdk.NewInt(amt)))
		if err := w.app.BankKeeper.MintCoins(w.ctx, auctionsV2types.ModuleName, c); err != nil {
			return err
		}
		return w.app.BankKeeper.SendCoinsFromModuleToAccount(w.ctx, auctionsV2types.ModuleName, addr, c)
	})
}

func (w *c20World) asset(name, denom string, twa uint64) uint64 {
	var id uint64
	w.step("asset "+name, func() error {
		if err := w.app.AssetKeeper.AddAssetRecords(w.ctx, assettypes.Asset{Name: name, Denom: denom, Decimals: sdk.NewInt(1000000),
			IsOnChain: true, IsOraclePriceRequired: true, IsCdpMintable: true}); err != nil {
			return err
		}
		for _, a := range w.app.AssetKeeper.GetAssets(w.ctx) {
			if a.Denom == denom {
				id = a.Id
			}
		}
		w.price(id, twa)
		return nil
	})
	return id
}

func (w *c20World) price(id, twa uint64) {
	w.app.MarketKeeper.SetTwa(w.ctx, markettypes.TimeWeightedAverage{AssetID: id, ScriptID: 12, Twa: twa, CurrentIndex: 0,
		IsPriceActive: true, PriceValue: []uint64{twa}})
}

func (w *c20World) appRec(name, short string) {
	w.step("app "+name, func() error {
		return w.app.AssetKeeper.AddAppRecords(w.ctx, assettypes.AppData{Name: name, ShortName: short, MinGovDeposit: sdk.NewInt(0),
			GovTimeInSeconds: 0, GenesisToken: []assettypes.MintGenesisToken{}})
	})
}

func (w *c20World) extPair(appID, pairID uint64, name string, stable bool, drawDown string) {
	w.step("extpair "+name, func() error {
		return w.app.AssetKeeper.WasmAddExtendedPairsVaultRecords(w.ctx, &bindings.MsgAddExtendedPairsVault{
			AppID: appID, PairID: pairID, StabilityFee: c20Dec("0.01"), ClosingFee: c20Dec("0"), LiquidationPenalty: c20Dec("0.12"),
			DrawDownFee: c20Dec(drawDown), IsVaultActive: true, DebtCeiling: sdk.NewInt(1000000000000), DebtFloor: sdk.NewInt(1000000),
			IsStableMintVault: stable, MinCr: c20Dec("1.5"), PairName: name, AssetOutOraclePrice: true, AssetOutPrice: 1000000,
			MinUsdValueLeft: 1000000})
	})
}

// ---- phase 1: assets, prices, lending, vaults (incl. closed + stable-mint), second-generation liquidation + auctions ----

func (w *c20World) buildBase() {
	a1 := w.asset("ASSETONE", "uasset1", 2000000)
	a2 := w.asset("ASSETTWO", "uasset2", 2000000)
	a3 := w.asset("ASSETTHREE", "uasset3", 1000000)
	a4 := w.asset("ASSETFOUR", "uasset4", 2000000)
	c1 := w.asset("CASSETONE", "ucasset1", 1000000)
	c2 := w.asset("CASSETTWO", "ucasset2", 2000000)
	c3 := w.asset("CASSETTHRE", "ucasset3", 2000000)
	c4 := w.asset("CASSETFOUR", "ucasset4", 2000000)
	w.asset("STABLEIN", "ustablein", 1000000)        // 9
	a5 := w.asset("ASSETFIVE", "uasset5", 2000000)   // 10
	c5 := w.asset("CASSETFIVE", "ucasset5", 2000000) // 11
	pool1 := []*lendtypes.AssetDataPoolMapping{
		{AssetID: a1, AssetTransitType: 3, SupplyCap: sdk.NewDec(5000000000000000000)},
		{AssetID: a2, AssetTransitType: 1, SupplyCap: sdk.NewDec(1000000000000000000)},
		{AssetID: a3, AssetTransitType: 2, SupplyCap: sdk.NewDec(5000000000000000000)}}
	pool2 := []*lendtypes.AssetDataPoolMapping{
		{AssetID: a4, AssetTransitType: 1, SupplyCap: sdk.NewDec(3000000000000000000)}, pool1[0], pool1[2]}
	rates := func(id uint64, uopt, base, s1, s2 string, stable bool, sb, ss1, ss2, ltv, lt, lp, lb, rf string, cid uint64) lendtypes.AssetRatesParams {
		return lendtypes.AssetRatesParams{AssetID: id, UOptimal: c20Dec(uopt), Base: c20Dec(base), Slope1: c20Dec(s1), Slope2: c20Dec(s2),
			EnableStableBorrow: stable, StableBase: c20Dec(sb), StableSlope1: c20Dec(ss1), StableSlope2: c20Dec(ss2), Ltv: c20Dec(ltv),
			LiquidationThreshold: c20Dec(lt), LiquidationPenalty: c20Dec(lp), LiquidationBonus: c20Dec(lb), ReserveFactor: c20Dec(rf), CAssetID: cid}
	}
	w.step("lend rates 3", func() error {
		return w.app.LendKeeper.AddAssetRatesParams(w.ctx, rates(a3, "0.8", "0.002", "0.06", "0.6", true, "0.04", "0.04", "0.06", "0.8", "0.85", "0.025", "0.025", "0.1", c3))
	})
	w.step("lend rates 1", func() error {
		return w.app.LendKeeper.AddAssetRatesParams(w.ctx, rates(a1, "0.75", "0.002", "0.07", "1.25", false, "0.0", "0.0", "0.0", "0.7", "0.75", "0.05", "0.05", "0.2", c1))
	})
	poolPairs := func(r lendtypes.AssetRatesParams, module, cpool string, data []*lendtypes.AssetDataPoolMapping) error {
		return w.app.LendKeeper.AddAssetRatesPoolPairs(w.ctx, lendtypes.AssetRatesPoolPairs{AssetID: r.AssetID, UOptimal: r.UOptimal, Base: r.Base,
			Slope1: r.Slope1, Slope2: r.Slope2, EnableStableBorrow: r.EnableStableBorrow, StableBase: r.StableBase, StableSlope1: r.StableSlope1,
			StableSlope2: r.StableSlope2, Ltv: r.Ltv, LiquidationThreshold: r.LiquidationThreshold, LiquidationPenalty: r.LiquidationPenalty,
			LiquidationBonus: r.LiquidationBonus, ReserveFactor: r.ReserveFactor, CAssetID: r.CAssetID, ModuleName: module, CPoolName: cpool,
			AssetData: data, MinUsdValueLeft: 1000000})
	}
	w.step("lend pool 1", func() error {
		return poolPairs(rates(a2, "0.5", "0.002", "0.08", "2.0", false, "0.0", "0.0", "0.0", "0.5", "0.55", "0.05", "0.05", "0.2", c2), "cmdx", "CMDX-ATOM-CMST", pool1)
	})
	w.step("lend pool 2", func() error {
		return poolPairs(rates(a4, "0.65", "0.002", "0.08", "1.5", false, "0.0", "0.0", "0.0", "0.6", "0.65", "0.05", "0.05", "0.2", c4), "osmo", "OSMO-ATOM-CMST", pool2)
	})
	// a third lending pool without positions: depreciated by governance and deleted by the begin blocker (the pool id counter is
	// then ahead of every live pool)
	w.step("lend pool 3", func() error {
		return poolPairs(rates(a5, "0.65", "0.002", "0.08", "1.5", false, "0.0", "0.0", "0.0", "0.6", "0.65", "0.05", "0.05", "0.2", c5), "atom", "ATOM-CMDX-CMST",
			[]*lendtypes.AssetDataPoolMapping{{AssetID: a5, AssetTransitType: 1, SupplyCap: sdk.NewDec(3000000000000000000)}, pool1[0], pool1[2]})
	})
	w.appRec("cswap", "cswap")
	w.appRec("harbor", "hbr")
	w.appRec("commodo", "cmdo")
	w.appRec("legacy", "lgc")
	for _, u := range w.u {
		for _, d := range []string{"uasset1", "uasset2", "uasset3", "uasset4", "ustablein", "ucmdx"} {
			w.fund(u, d, 1000000000000000)
		}
	}
}

// ---- phase 1b: positions (after the liquidity farms of phase 3a have matured) -----------------------------------------------

func (w *c20World) buildPositions() {
	a1, a2, a3, a4 := uint64(1), uint64(2), uint64(3), uint64(4)
	u1, u2, u3, u4 := w.u[0].String(), w.u[1].String(), w.u[2].String(), w.u[3].String()
	coin := func(d string, n int64) sdk.Coin { return sdk.NewCoin(d, sdk.NewInt(n)) }
	// lending: positions 1-5 stay (user 1 lends in two pools and borrows on two pairs), position 6 and its borrow are closed
	// again (the id counters then exceed every live id)
	w.msg("lend 1", lendtypes.NewMsgLend(u1, a1, coin("uasset1", 3000000000), 1, 3))
	w.msg("lend 2", lendtypes.NewMsgLend(u1, a2, coin("uasset2", 10000000000), 1, 3))
	w.msg("lend 3", lendtypes.NewMsgLend(u2, a1, coin("uasset1", 10000000000), 1, 3))
	w.msg("lend 4", lendtypes.NewMsgLend(u4, a1, coin("uasset1", 4000000000), 1, 3))
	w.msg("lend 5 (pool 2)", lendtypes.NewMsgLend(u1, a4, coin("uasset4", 2000000000), 2, 3))
	w.msg("lend 6", lendtypes.NewMsgLend(u3, a1, coin("uasset1", 5000000000), 1, 3))
	w.msg("fund mod 1/1", lendtypes.NewMsgFundModuleAccounts(1, a1, u1, coin("uasset1", 10000000000)))
	w.msg("fund mod 1/2", lendtypes.NewMsgFundModuleAccounts(1, a2, u1, coin("uasset2", 10000000000)))
	w.msg("fund mod 1/3", lendtypes.NewMsgFundModuleAccounts(1, a3, u1, coin("uasset3", 120000000)))
	w.msg("fund mod 2/1", lendtypes.NewMsgFundModuleAccounts(2, a1, u1, coin("uasset1", 10000000000)))
	w.msg("fund mod 2/4", lendtypes.NewMsgFundModuleAccounts(2, a4, u1, coin("uasset4", 10000000000)))
	w.msg("fund reserve", lendtypes.NewMsgFundReserveAccounts(a1, u1, coin("uasset1", 1000000)))
	w.msg("fund reserve a2", lendtypes.NewMsgFundReserveAccounts(a2, u1, coin("uasset2", 100000000)))
	w.msg("fund reserve a4", lendtypes.NewMsgFundReserveAccounts(a4, u1, coin("uasset4", 100000000)))
	w.msg("borrow 1", lendtypes.NewMsgBorrow(u1, 1, 1, false, coin("ucasset1", 100000000), coin("uasset2", 70000000)))
	w.msg("borrow 2", lendtypes.NewMsgBorrow(u2, 3, 1, false, coin("ucasset1", 1000000000), coin("uasset2", 700000000)))
	w.msg("borrow 3", lendtypes.NewMsgBorrow(u4, 4, 1, false, coin("ucasset1", 500000000), coin("uasset2", 350000000)))
	for _, lp := range w.app.LendKeeper.GetLendPairs(w.ctx) {
		if lp.AssetIn == a2 && lp.AssetOut == a1 && !lp.IsInterPool {
			w.msg("borrow 4 (second pair)", lendtypes.NewMsgBorrow(u1, 2, lp.Id, false, coin("ucasset2", 100000000), coin("uasset1", 1000000)))
			break
		}
	}
	w.msg("borrow 5", lendtypes.NewMsgBorrow(u3, 6, 1, false, coin("ucasset1", 1000000000), coin("uasset2", 100000000)))
	w.msg("close borrow 5", lendtypes.NewMsgCloseBorrow(u3, 5))
	w.msg("close lend 6", lendtypes.NewMsgCloseLend(u3, 6))

	// vaults of app 2 (harbor): ids 1,2 will be liquidated, 3 is safe, 4 is closed by its owner
	w.step("pair 1", func() error {
		return w.app.AssetKeeper.AddPairsRecords(w.ctx, assettypes.Pair{AssetIn: a2, AssetOut: a3})
	})
	w.step("pair 2", func() error {
		return w.app.AssetKeeper.AddPairsRecords(w.ctx, assettypes.Pair{AssetIn: 9, AssetOut: a3})
	})
	w.extPair(2, 1, "CMDX-B", false, "0.01")
	w.extPair(2, 2, "STABLE-A", true, "0.01")
	w.extPair(4, 1, "CMDX-OLD", false, "0.01")
	mk := func(u sdk.AccAddress, app, ext uint64, in, out int64) sdk.Msg {
		return vaulttypes.NewMsgCreateRequest(u, app, ext, sdk.NewInt(in), sdk.NewInt(out))
	}
	w.msg("vault 1", mk(w.u[0], 2, 1, 1000000, 1000000))
	w.msg("vault 2", mk(w.u[1], 2, 1, 1000000, 1000000))
	w.msg("vault 3", mk(w.u[3], 2, 1, 100000000, 1000000))
	w.msg("vault 4", mk(w.u[2], 2, 1, 2000000, 1000000))
	w.msg("close vault 4", &vaulttypes.MsgCloseRequest{From: u3, AppId: 2, ExtendedPairVaultId: 1, UserVaultId: 4})
	// stable-mint vault with reward records (external stable-mint rewards active for the app)
	w.msg("ext rewards stable", rewardstypes.NewMsgActivateExternalRewardsStableVault(2, 1, 3, coin("ucmdx", 1000000), 10, 100, w.u[0]))
	w.msg("stable mint create", vaulttypes.NewMsgCreateStableMintRequest(w.u[0], 2, 2, sdk.NewInt(50000000)))
	w.msg("stable mint deposit", vaulttypes.NewMsgDepositStableMintRequest(w.u[1], 2, 2, sdk.NewInt(7000000), 1))

	// second-generation liquidation and auctions
	dp := liqV2types.DutchAuctionParam{Premium: c20Dec("1.2"), Discount: c20Dec("0.7"), DecrementFactor: sdk.NewInt(1)}
	ep := liqV2types.EnglishAuctionParam{DecrementFactor: sdk.NewInt(1)}
	w.app.NewliqKeeper.SetLiquidationWhiteListing(w.ctx, liqV2types.LiquidationWhiteListing{AppId: 2, Initiator: true, IsDutchActivated: true,
		DutchAuctionParam: &dp, IsEnglishActivated: true, EnglishAuctionParam: &ep, KeeeperIncentive: c20Dec("0.0")})
	w.app.NewliqKeeper.SetLiquidationWhiteListing(w.ctx, liqV2types.LiquidationWhiteListing{AppId: 3, Initiator: true, IsDutchActivated: true,
		DutchAuctionParam: &dp, IsEnglishActivated: false, EnglishAuctionParam: nil, KeeeperIncentive: c20Dec("0.1")})
	w.app.NewaucKeeper.SetAuctionParams(w.ctx, auctionsV2types.AuctionParams{AuctionDurationSeconds: 3600, Step: c20Dec("0.1"),
		WithdrawalFee: c20Dec("0.0"), ClosingFee: c20Dec("0.0"), MinUsdValueLeft: 100000, BidFactor: c20Dec("0.1"),
		LiquidationPenalty: c20Dec("0.1"), AuctionBonus: c20Dec("0.0")})
	// first-generation liquidation + auctions run on app 4 (legacy): vaults 5,6 get liquidated in the next BeginBlock
	w.step("V1 whitelist", func() error { return w.app.LiquidationKeeper.WasmWhitelistAppIDLiquidation(w.ctx, 4) })
	w.step("V1 auction params", func() error {
		return w.app.AuctionKeeper.AddAuctionParams(w.ctx, &bindings.MsgAddAuctionParams{AppID: 4, AuctionDurationSeconds: 300, Buffer: c20Dec("1.2"),
			Cusp: c20Dec("0.6"), Step: 1, PriceFunctionType: 1, SurplusID: 1, DebtID: 2, DutchID: 3, BidDurationSeconds: 300})
	})
	w.step("lend auction params", func() error {
		return w.app.LendKeeper.AddAuctionParamsData(w.ctx, lendtypes.AuctionParams{AppId: 3, AuctionDurationSeconds: 21600, Buffer: c20Dec("1.2"),
			Cusp: c20Dec("0.7"), Step: sdk.NewInt(360), PriceFunctionType: 1, DutchId: 3, BidDurationSeconds: 3600})
	})
	w.msg("vault 5 (V1)", mk(w.u[0], 4, 3, 1000000, 1000000))
	w.msg("vault 6 (V1)", mk(w.u[1], 4, 3, 1000000, 1000000))
	w.msg("vault 7 (V1)", mk(w.u[2], 4, 3, 1000000, 1000000))
	// (the epoch counter is shared by all kinds of external rewards: record ids, epoch ids, app and product ids run apart)
	w.msg("ext rewards lend 2", rewardstypes.NewMsgActivateExternalRewardsLend(3, 2, []uint64{4}, 1, 1, coin("uasset4", 3000000), 1, 10, 1, w.u[0]))
	w.msg("ext rewards vault", rewardstypes.NewMsgActivateExternalRewardsVault(4, 3, coin("ucmdx", 2000000), 10, 1, w.u[0]))
	w.step("whitelist vault interest", func() error { return w.app.Rewardskeeper.WhitelistAppIDVault(w.ctx, 2) })

	w.price(a2, 1000000)
	w.step("liquidate V2", func() error { return w.app.NewliqKeeper.Liquidate(w.ctx) })
	w.msg("market bid partial", auctionsV2types.NewMsgPlaceMarketBid(u2, 1, coin("uasset3", 100000)))
	w.msg("limit bid", auctionsV2types.NewMsgDepositLimitBid(u3, a2, a3, sdk.NewInt(2), coin("uasset3", 1000000)))
	w.msg("limit bid 2", auctionsV2types.NewMsgDepositLimitBid(u4, a2, a3, sdk.NewInt(3), coin("uasset3", 2000000)))
	w.msg("limit bid 3 (same bidder, other premium)", auctionsV2types.NewMsgDepositLimitBid(u3, a2, a3, sdk.NewInt(5), coin("uasset3", 1500000)))
	w.msg("limit bid 4 (cancelled)", auctionsV2types.NewMsgDepositLimitBid(u2, a2, a3, sdk.NewInt(4), coin("uasset3", 800000)))
	w.msg("limit bid 4 cancel", auctionsV2types.NewMsgCancelLimitBid(u2, a2, a3, sdk.NewInt(4)))
	w.msg("app reserve funds", liqV2types.NewMsgAppReserveFundsRequest(u1, 2, a3, coin("uasset3", 5000000)))
	// borrow 1 is liquidated through the second generation, borrow 2 and vaults 5,6 through the first generation: its
	// sweeps no longer run in BeginBlock (x/liquidation/module.go, x/auction/module.go) but its user messages are still routed
	w.price(a1, 600000)
	w.msg("liquidate borrow 1 (V2)", liqV2types.NewMsgLiquidateInternalKeeperRequest(w.u[3], 1, 1))
	// vault and borrow liquidations alternate: locked vault ids and auction ids of one kind run apart (dutch auction 2 = locked
	// vault 3, lend auction 1 = locked vault 2)
	w.msg("V1 liquidate vault 5", liquidationtypes.NewMsgLiquidateRequest(w.u[3], 4, 5))
	w.msg("V1 liquidate borrow 2", liquidationtypes.NewMsgLiquidateBorrowRequest(w.u[3], 2))
	w.msg("V1 liquidate vault 6", liquidationtypes.NewMsgLiquidateRequest(w.u[3], 4, 6))
	w.msg("V1 liquidate borrow 3", liquidationtypes.NewMsgLiquidateBorrowRequest(w.u[2], 3))
	w.msg("V1 liquidate vault 7", liquidationtypes.NewMsgLiquidateRequest(w.u[3], 4, 7))
	w.step("lend pool 3 depreciate", func() error {
		return w.app.LendKeeper.AddPoolDepreciate(w.ctx, lendtypes.PoolDepreciate{IndividualPoolDepreciate: []lendtypes.IndividualPoolDepreciate{{PoolID: 3, IsPoolDepreciated: false}}})
	})
	// what x/lend BeginBlocker does at every height divisible by 14400 (x/lend/abci.go:16-17)
	w.step("lend pool 3 delete", func() error { return w.app.LendKeeper.DeletePoolAndTransferInterest(w.ctx) })
}

// ---- phase 2: locker, collector, rewards ------------------------------------------------------------------------------

func (w *c20World) buildLocker() {
	u1, u2 := w.u[0].String(), w.u[1].String()
	coin := func(d string, n int64) sdk.Coin { return sdk.NewCoin(d, sdk.NewInt(n)) }
	// as on the live chain the secondary asset of app 2 is one of its genesis tokens; app 4 uses a secondary asset that is not
	// (the run-time path WasmSetCollectorLookupTable accepts that, the genesis path SetCollectorLookupTable does not)
	var hbr uint64
	w.step("asset HARBOR", func() error {
		if err := w.app.AssetKeeper.AddAssetRecords(w.ctx, assettypes.Asset{Name: "HARBOR", Denom: "uharbor", Decimals: sdk.NewInt(1000000), IsOnChain: true}); err != nil {
			return err
		}
		a, _ := w.app.AssetKeeper.GetAssetForDenom(w.ctx, "uharbor")
		hbr = a.Id
		return w.app.AssetKeeper.AddAssetInAppRecords(w.ctx, assettypes.AppData{Id: 2, GenesisToken: []assettypes.MintGenesisToken{
			{AssetId: hbr, GenesisSupply: sdk.NewInt(1000000000), IsGovToken: false, Recipient: u1}}})
	})
	w.step("collector lookup 4/3", func() error {
		return w.app.CollectorKeeper.WasmSetCollectorLookupTable(w.ctx, &bindings.MsgSetCollectorLookupTable{AppID: 4, CollectorAssetID: 3,
			SecondaryAssetID: 1, SurplusThreshold: sdk.NewInt(10000000), DebtThreshold: sdk.NewInt(5000000), LockerSavingRate: c20Dec("0.0"),
			LotSize: sdk.NewInt(2000000), BidFactor: c20Dec("0.01"), DebtLotSize: sdk.NewInt(2000000)})
	})
	w.step("collector lookup 2/3", func() error {
		return w.app.CollectorKeeper.WasmSetCollectorLookupTable(w.ctx, &bindings.MsgSetCollectorLookupTable{AppID: 2, CollectorAssetID: 3,
			SecondaryAssetID: hbr, SurplusThreshold: sdk.NewInt(10000000), DebtThreshold: sdk.NewInt(5000000), LockerSavingRate: c20Dec("0.1"),
			LotSize: sdk.NewInt(2000000), BidFactor: c20Dec("0.01"), DebtLotSize: sdk.NewInt(2000000)})
	})
	w.step("collector auction mapping", func() error {
		return w.app.CollectorKeeper.WasmSetAuctionMappingForApp(w.ctx, &bindings.MsgSetAuctionMappingForApp{AppID: 2, AssetIDs: 3,
			IsSurplusAuctions: false, IsDebtAuctions: false, IsDistributor: false, AssetOutOraclePrices: false, AssetOutPrices: 1000000})
	})
	w.step("locker whitelist", func() error {
		_, err := w.app.LockerKeeper.AddWhiteListedAsset(w.ctx, &lockertypes.MsgAddWhiteListedAssetRequest{From: u1, AppId: 2, AssetId: 3})
		return err
	})
	w.step("locker rewards whitelist", func() error { return w.app.Rewardskeeper.WhitelistAssetForInternalRewards(w.ctx, 2, 3) })
	w.msg("locker 1", lockertypes.NewMsgCreateLockerRequest(u1, sdk.NewInt(500000000), 3, 2))
	w.msg("locker 2", lockertypes.NewMsgCreateLockerRequest(u2, sdk.NewInt(3000000), 3, 2))
	w.msg("locker 3", lockertypes.NewMsgCreateLockerRequest(w.u[2].String(), sdk.NewInt(2000000), 3, 2))
	// the same depositor with a locker in a second asset of the same app
	w.step("collector lookup 2/1", func() error {
		return w.app.CollectorKeeper.WasmSetCollectorLookupTable(w.ctx, &bindings.MsgSetCollectorLookupTable{AppID: 2, CollectorAssetID: 1,
			SecondaryAssetID: hbr, SurplusThreshold: sdk.NewInt(10000000), DebtThreshold: sdk.NewInt(5000000), LockerSavingRate: c20Dec("0.05"),
			LotSize: sdk.NewInt(2000000), BidFactor: c20Dec("0.01"), DebtLotSize: sdk.NewInt(2000000)})
	})
	w.step("locker whitelist asset 1", func() error {
		_, err := w.app.LockerKeeper.AddWhiteListedAsset(w.ctx, &lockertypes.MsgAddWhiteListedAssetRequest{From: u1, AppId: 2, AssetId: 1})
		return err
	})
	w.msg("locker 1 deposit", lockertypes.NewMsgDepositAssetRequest(u1, 1, sdk.NewInt(1000000), 3, 2))
	w.msg("close locker 3", lockertypes.NewMsgCloseLockerRequest(w.u[2].String(), 2, 3, 3))
	w.msg("locker 4 (asset 1)", lockertypes.NewMsgCreateLockerRequest(u1, sdk.NewInt(4000000), 1, 2))
	w.msg("locker 5", lockertypes.NewMsgCreateLockerRequest(w.u[3].String(), sdk.NewInt(1000000), 1, 2))
	w.msg("close locker 5", lockertypes.NewMsgCloseLockerRequest(w.u[3].String(), 2, 1, 5))
	// a locker opened while the saving rate of its asset is ZERO (it accrues from the lookup record's anchor, not from its own); the
	// rate is switched on a block later (v2Bids): the savings of this locker depend on the lookup record's BlockTime surviving
	w.step("collector lookup 2/2 (zero rate)", func() error {
		if err := w.app.CollectorKeeper.WasmSetCollectorLookupTable(w.ctx, &bindings.MsgSetCollectorLookupTable{AppID: 2, CollectorAssetID: 2,
			SecondaryAssetID: hbr, SurplusThreshold: sdk.NewInt(10000000000), DebtThreshold: sdk.NewInt(5000000), LockerSavingRate: c20Dec("0.0"),
			LotSize: sdk.NewInt(2000000), BidFactor: c20Dec("0.01"), DebtLotSize: sdk.NewInt(2000000)}); err != nil {
			return err
		}
		if _, err := w.app.LockerKeeper.AddWhiteListedAsset(w.ctx, &lockertypes.MsgAddWhiteListedAssetRequest{From: u1, AppId: 2, AssetId: 2}); err != nil {
			return err
		}
		if err := w.app.Rewardskeeper.WhitelistAssetForInternalRewards(w.ctx, 2, 2); err != nil {
			return err
		}
		if err := w.app.CollectorKeeper.SetNetFeeCollectedData(w.ctx, 2, 2, sdk.NewInt(50000000)); err != nil {
			return err
		}
		c := sdk.NewCoins(coin("uasset2", 50000000))
		if err := w.app.BankKeeper.MintCoins(w.ctx, auctionsV2types.ModuleName, c); err != nil {
			return err
		}
		return w.app.BankKeeper.SendCoinsFromModuleToModule(w.ctx, auctionsV2types.ModuleName, collectortypes.ModuleName, c)
	})
	w.msg("locker 6 (zero rate)", lockertypes.NewMsgCreateLockerRequest(w.u[3].String(), sdk.NewInt(2000000000), 2, 2))
	w.msg("ext rewards locker", rewardstypes.NewMsgActivateExternalRewardsLockers(2, 3, coin("ucmdx", 3000000), 10, 1, w.u[0]))
}

// ---- phase 3: liquidity ------------------------------------------------------------------------------------------------

func (w *c20World) buildLiquidity() {
	coins := func(s string) sdk.Coins { c, _ := sdk.ParseCoinsNormalized(s); return c }
	w.msg("liq pair", liquiditytypes.NewMsgCreatePair(1, w.u[0], "uasset1", "uasset2"))
	w.msg("liq pair 2", liquiditytypes.NewMsgCreatePair(1, w.u[0], "uasset3", "uasset4"))
	w.msg("liq pair 3 (no pool)", liquiditytypes.NewMsgCreatePair(1, w.u[0], "uasset1", "uasset3")) // pair and pool counters differ
	w.msg("liq pool", liquiditytypes.NewMsgCreatePool(1, w.u[0], 1, coins("1000000000000uasset1,1000000000000uasset2")))
	w.msg("liq pool 2", liquiditytypes.NewMsgCreatePool(1, w.u[0], 2, coins("1000000000000uasset3,1000000000000uasset4")))
	// a ranged pool next to the basic pool of pair 1 (pool id 3 != pair id 1) and a fourth pair without pool (pair counter 4, pool counter 3)
	w.msg("liq ranged pool 3 (pair 1)", liquiditytypes.NewMsgCreateRangedPool(1, w.u[0], 1, coins("500000000000uasset1,500000000000uasset2"),
		c20Dec("0.5"), c20Dec("2.0"), c20Dec("1.0")))
	w.msg("liq pair 4 (no pool)", liquiditytypes.NewMsgCreatePair(1, w.u[0], "uasset2", "uasset3"))
	// the same farmer in the pools of one app (these positions are active by the time of the export), a second farmer in two
	w.msg("liq farm u1", liquiditytypes.NewMsgFarm(1, 1, w.u[0], sdk.NewCoin("pool1-1", sdk.NewInt(1000000000))))
	w.msg("liq farm u1 pool 2", liquiditytypes.NewMsgFarm(1, 2, w.u[0], sdk.NewCoin("pool1-2", sdk.NewInt(700000000))))
	w.msg("liq farm u1 pool 3", liquiditytypes.NewMsgFarm(1, 3, w.u[0], sdk.NewCoin("pool1-3", sdk.NewInt(600000000))))
	w.step("liq transfer pool coin", func() error {
		if err := w.app.BankKeeper.SendCoins(w.ctx, w.u[0], w.u[1], sdk.NewCoins(sdk.NewCoin("pool1-1", sdk.NewInt(50000000)), sdk.NewCoin("pool1-3", sdk.NewInt(40000000)))); err != nil {
			return err
		}
		return w.app.BankKeeper.SendCoins(w.ctx, w.u[0], w.u[2], sdk.NewCoins(sdk.NewCoin("pool1-3", sdk.NewInt(20000000))))
	})
	w.msg("liq farm u2", liquiditytypes.NewMsgFarm(1, 1, w.u[1], sdk.NewCoin("pool1-1", sdk.NewInt(30000000))))
	w.msg("liq farm u2 pool 3", liquiditytypes.NewMsgFarm(1, 3, w.u[1], sdk.NewCoin("pool1-3", sdk.NewInt(25000000))))
	w.msg("liq crossing order (last price)", liquiditytypes.NewMsgLimitOrder(1, w.u[3], 1, liquiditytypes.OrderDirectionBuy, sdk.NewCoin("uasset2", sdk.NewInt(1023060)),
		"uasset1", c20Dec("1.02"), sdk.NewInt(1000000), 0))
	w.msg("ext rewards lend", rewardstypes.NewMsgActivateExternalRewardsLend(3, 1, []uint64{1, 2}, 1, 1, sdk.NewCoin("uasset4", sdk.NewInt(5000000)), 1, 10, 1, w.u[0]))
	w.msg("gauge master pool", &rewardstypes.MsgCreateGauge{From: w.u[0].String(), AppId: 1, StartTime: w.ctx.BlockTime().Add(2 * time.Hour), GaugeTypeId: 1,
		TriggerDuration: 24 * time.Hour, DepositAmount: sdk.NewCoin("ucmdx", sdk.NewInt(20000000)), TotalTriggers: 4,
		Kind: &rewardstypes.MsgCreateGauge_LiquidityMetaData{LiquidityMetaData: &rewardstypes.LiquidtyGaugeMetaData{PoolId: 3, IsMasterPool: true, ChildPoolIds: []uint64{1, 2}}}})
	w.msg("gauge", &rewardstypes.MsgCreateGauge{From: w.u[0].String(), AppId: 1, StartTime: w.ctx.BlockTime().Add(time.Hour), GaugeTypeId: 1,
		TriggerDuration: 24 * time.Hour, DepositAmount: sdk.NewCoin("ucmdx", sdk.NewInt(10000000)), TotalTriggers: 5,
		Kind: &rewardstypes.MsgCreateGauge_LiquidityMetaData{LiquidityMetaData: &rewardstypes.LiquidtyGaugeMetaData{PoolId: 1, IsMasterPool: false}}})
}

// requests that are still pending when the state is exported
func (w *c20World) buildLiquidityPending() {
	coins := func(s string) sdk.Coins { c, _ := sdk.ParseCoinsNormalized(s); return c }
	w.msg("liq deposit", liquiditytypes.NewMsgDeposit(1, w.u[1], 1, coins("50000000uasset1,50000000uasset2")))
	w.msg("liq withdraw", liquiditytypes.NewMsgWithdraw(1, w.u[0], 1, sdk.NewCoin("pool1-1", sdk.NewInt(1000000))))
	// requests against the ranged pool (request id != pool id, two deposits and one withdrawal: the pool's request counters differ)
	w.msg("liq deposit pool 3", liquiditytypes.NewMsgDeposit(1, w.u[1], 3, coins("20000000uasset1,20000000uasset2")))
	w.msg("liq deposit pool 3 (2)", liquiditytypes.NewMsgDeposit(1, w.u[3], 3, coins("7000000uasset1,7000000uasset2")))
	w.msg("liq deposit pool 3 (3)", liquiditytypes.NewMsgDeposit(1, w.u[2], 3, coins("3000000uasset1,3000000uasset2")))
	w.msg("liq withdraw pool 3", liquiditytypes.NewMsgWithdraw(1, w.u[0], 3, sdk.NewCoin("pool1-3", sdk.NewInt(2000000))))
	w.msg("liq withdraw pool 3 (2)", liquiditytypes.NewMsgWithdraw(1, w.u[1], 3, sdk.NewCoin("pool1-3", sdk.NewInt(1500000))))
	w.msg("liq order sell", liquiditytypes.NewMsgLimitOrder(1, w.u[2], 1, liquiditytypes.OrderDirectionSell, sdk.NewCoin("uasset1", sdk.NewInt(1003000)),
		"uasset2", c20Dec("1.05"), sdk.NewInt(1000000), 10*time.Hour))
	w.msg("liq order buy", liquiditytypes.NewMsgLimitOrder(1, w.u[3], 1, liquiditytypes.OrderDirectionBuy, sdk.NewCoin("uasset2", sdk.NewInt(952850)),
		"uasset1", c20Dec("0.95"), sdk.NewInt(1000000), 10*time.Hour))
	w.msg("liq mm order", liquiditytypes.NewMsgMMOrder(1, w.u[1], 1, c20Dec("1.09"), c20Dec("1.06"), sdk.NewInt(3000000), c20Dec("0.94"), c20Dec("0.91"),
		sdk.NewInt(3000000), 10*time.Hour))
	// orders of a second pair (pair id != app id)
	w.msg("liq order sell pair 2", liquiditytypes.NewMsgLimitOrder(1, w.u[2], 2, liquiditytypes.OrderDirectionSell, sdk.NewCoin("uasset3", sdk.NewInt(2006000)),
		"uasset4", c20Dec("1.04"), sdk.NewInt(2000000), 10*time.Hour))
	w.msg("liq mm order pair 2", liquiditytypes.NewMsgMMOrder(1, w.u[3], 2, c20Dec("1.10"), c20Dec("1.06"), sdk.NewInt(3000000), c20Dec("0.94"), c20Dec("0.90"),
		sdk.NewInt(3000000), 10*time.Hour))
	// … and the same farmer queued again in all three pools; a farmer who is ONLY queued, in the ranged pool
	w.msg("liq farm again", liquiditytypes.NewMsgFarm(1, 1, w.u[0], sdk.NewCoin("pool1-1", sdk.NewInt(500000))))
	w.msg("liq farm again pool 2", liquiditytypes.NewMsgFarm(1, 2, w.u[0], sdk.NewCoin("pool1-2", sdk.NewInt(300000))))
	w.msg("liq farm again pool 3", liquiditytypes.NewMsgFarm(1, 3, w.u[0], sdk.NewCoin("pool1-3", sdk.NewInt(200000))))
	w.msg("liq farm u3 pool 3 (queued only)", liquiditytypes.NewMsgFarm(1, 3, w.u[2], sdk.NewCoin("pool1-3", sdk.NewInt(15000000))))
	// interactions some blocks after the positions were opened book interest / rewards: vault interest tracker, borrow interest
	// tracker, total locker rewards per app and asset
	w.msg("vault 3 late deposit", vaulttypes.NewMsgDepositRequest(w.u[3], 2, 1, 3, sdk.NewInt(500000)))
	w.msg("lend interest calc", lendtypes.NewMsgCalculateInterestAndRewards(w.u[0].String()))
	w.msg("lend borrow 4 late deposit", lendtypes.NewMsgDepositBorrow(w.u[0].String(), 4, sdk.NewCoin("ucasset2", sdk.NewInt(1000))))
	w.msg("locker 1 late deposit", lockertypes.NewMsgDepositAssetRequest(w.u[0].String(), 1, sdk.NewInt(1000), 3, 2))
	// the most recently created vault is closed again: the vault id counter is ahead of every live vault
	w.msg("vault last", vaulttypes.NewMsgCreateRequest(w.u[2], 2, 1, sdk.NewInt(300000000), sdk.NewInt(1000000)))
	w.msg("close vault last", &vaulttypes.MsgCloseRequest{From: w.u[2].String(), AppId: 2, ExtendedPairVaultId: 1, UserVaultId: w.app.VaultKeeper.GetIDForVault(w.ctx)})
}

// ---- phase 4: token mint, emergency shutdown, kill switch ---------------------------------------------------------------

func (w *c20World) buildEsm() {
	u1 := w.u[0].String()
	w.step("asset GOVTKN", func() error {
		return w.app.AssetKeeper.AddAssetRecords(w.ctx, assettypes.Asset{Name: "GOVTKN", Denom: "ugov", Decimals: sdk.NewInt(1000000), IsOnChain: true})
	})
	w.step("app esmapp", func() error {
		return w.app.AssetKeeper.AddAppRecords(w.ctx, assettypes.AppData{Name: "esmapp", ShortName: "esm", MinGovDeposit: sdk.NewInt(10000000), GovTimeInSeconds: 900})
	})
	w.step("app killapp", func() error {
		return w.app.AssetKeeper.AddAppRecords(w.ctx, assettypes.AppData{Name: "killer", ShortName: "kll", MinGovDeposit: sdk.NewInt(0), GovTimeInSeconds: 0})
	})
	gov, _ := w.app.AssetKeeper.GetAssetForDenom(w.ctx, "ugov")
	w.step("gov token for app 5", func() error {
		return w.app.AssetKeeper.AddAssetInAppRecords(w.ctx, assettypes.AppData{Id: 5, GenesisToken: []assettypes.MintGenesisToken{
			{AssetId: gov.Id, GenesisSupply: sdk.NewInt(1000000000), IsGovToken: true, Recipient: u1}}})
	})
	w.msg("tokenmint", tokenminttypes.NewMsgMintNewTokensRequest(u1, 5, gov.Id))
	w.extPair(5, 1, "CMDX-E", false, "0.01")
	w.msg("vault 8 (esm app)", vaulttypes.NewMsgCreateRequest(w.u[0], 5, 4, sdk.NewInt(100000000), sdk.NewInt(1000000)))
	// (ActExternalRewardsVaults accepts an app only if ALL its extended pairs equal the given one: app 5 has exactly one)
	w.msg("ext rewards vault 2", rewardstypes.NewMsgActivateExternalRewardsVault(5, 4, sdk.NewCoin("ucmdx", sdk.NewInt(1500000)), 10, 1, w.u[0]))
	w.step("esm trigger params", func() error {
		return w.app.EsmKeeper.AddESMTriggerParamsForApp(w.ctx, &bindings.MsgAddESMTriggerParams{AppID: 5, TargetValue: sdk.NewCoin("ugov", sdk.NewInt(1000000)),
			CoolOffPeriod: 1, AssetID: []uint64{2, 3}, Rates: []uint64{1000000, 1000000}})
	})
	w.step("esm trigger params app 2", func() error {
		return w.app.EsmKeeper.AddESMTriggerParamsForApp(w.ctx, &bindings.MsgAddESMTriggerParams{AppID: 2, TargetValue: sdk.NewCoin("ugov", sdk.NewInt(900000000)),
			CoolOffPeriod: 3600, AssetID: []uint64{2, 3}, Rates: []uint64{1000000, 1000000}})
	})
	w.msg("esm deposit", esmtypes.NewMsgDeposit(u1, 5, sdk.NewCoin("ugov", sdk.NewInt(2000000))))
	w.msg("esm execute", esmtypes.NewMsgExecute(u1, 5))
	w.step("esm admin param", func() error {
		w.app.EsmKeeper.SetParams(w.ctx, esmtypes.NewParams([]string{w.u[4].String()}))
		return nil
	})
	w.extPair(4, 2, "STABLE-OLD", true, "0.01")
	w.step("asset GOVB", func() error {
		return w.app.AssetKeeper.AddAssetRecords(w.ctx, assettypes.Asset{Name: "GOVB", Denom: "ugovb", Decimals: sdk.NewInt(1000000), IsOnChain: true})
	})
	w.step("app govapp", func() error {
		return w.app.AssetKeeper.AddAppRecords(w.ctx, assettypes.AppData{Name: "govapp", ShortName: "gva", MinGovDeposit: sdk.NewInt(10000000), GovTimeInSeconds: 900})
	})
	govb, _ := w.app.AssetKeeper.GetAssetForDenom(w.ctx, "ugovb")
	w.step("gov token for app 7", func() error {
		return w.app.AssetKeeper.AddAssetInAppRecords(w.ctx, assettypes.AppData{Id: 7, GenesisToken: []assettypes.MintGenesisToken{
			{AssetId: govb.Id, GenesisSupply: sdk.NewInt(1000000000), IsGovToken: true, Recipient: u1}}})
	})
	w.msg("tokenmint app 7", tokenminttypes.NewMsgMintNewTokensRequest(u1, 7, govb.Id))
	w.extPair(7, 1, "CMDX-G", false, "0.01")
	w.msg("vault 9 (gov app)", vaulttypes.NewMsgCreateRequest(w.u[1], 7, 6, sdk.NewInt(100000000), sdk.NewInt(1000000)))
	w.step("esm trigger params app 7", func() error {
		return w.app.EsmKeeper.AddESMTriggerParamsForApp(w.ctx, &bindings.MsgAddESMTriggerParams{AppID: 7, TargetValue: sdk.NewCoin("ugovb", sdk.NewInt(1000000)),
			CoolOffPeriod: 3600, AssetID: []uint64{2, 3}, Rates: []uint64{1000000, 1000000}})
	})
	w.msg("esm deposit app 7", esmtypes.NewMsgDeposit(u1, 7, sdk.NewCoin("ugovb", sdk.NewInt(300000))))
	w.msg("stable mint create 2", vaulttypes.NewMsgCreateStableMintRequest(w.u[1], 4, 5, sdk.NewInt(30000000)))
	w.msg("kill switch app 6", esmtypes.NewMsgKillRequest(w.u[4], esmtypes.KillSwitchParams{AppId: 6, BreakerEnable: true}))
}

// ---- oracle feed configuration (governance proposal path) ----------------------------------------------------------------

func (w *c20World) buildOracle() {
	w.step("band fetch price proposal", func() error {
		return w.app.BandoracleKeeper.AddFetchPriceRecords(w.ctx, bandtypes.MsgFetchPriceData{Creator: w.u[0].String(), OracleScriptID: 112,
			SourceChannel: "channel-0", AskCount: 4, MinCount: 3, FeeLimit: sdk.NewCoins(sdk.NewCoin("uband", sdk.NewInt(250000))),
			PrepareGas: 600000, ExecuteGas: 600000, ClientID: "1", TwaBatchSize: 5, AcceptedHeightDiff: 6000})
	})
	// effects of the oracle packet acknowledgement / result packet (x/bandoracle/oracle.go)
	w.step("band result", func() error {
		w.app.BandoracleKeeper.SetLastFetchPriceID(w.ctx, 7)
		w.app.BandoracleKeeper.SetFetchPriceResult(w.ctx, 7, bandtypes.FetchPriceResult{Rates: []uint64{2000000, 2000000}})
		// effects of the module's own 20-block cycle while the oracle is live (x/bandoracle/abci.go); without a positive
		// validation result x/market/abci.go deactivates every price in every block
		w.app.BandoracleKeeper.SetTempFetchPriceID(w.ctx, 6)
		w.app.BandoracleKeeper.SetCheckFlag(w.ctx, true)
		w.app.BandoracleKeeper.SetOracleValidationResult(w.ctx, true)
		return nil
	})
}

// second-generation bids (block 4)
func (w *c20World) v2Bids() {
	coin := func(d string, n int64) sdk.Coin { return sdk.NewCoin(d, sdk.NewInt(n)) }
	w.step("collector lookup 2/2 rate on", func() error {
		return w.app.CollectorKeeper.WasmUpdateCollectorLookupTable(w.ctx, &bindings.MsgUpdateCollectorLookupTable{AppID: 2, AssetID: 2,
			SurplusThreshold: sdk.NewInt(10000000000), DebtThreshold: sdk.NewInt(5000000), LSR: c20Dec("0.2"), LotSize: sdk.NewInt(2000000),
			BidFactor: c20Dec("0.01"), DebtLotSize: sdk.NewInt(2000000)})
	})
	w.msg("V2 market bid 2", auctionsV2types.NewMsgPlaceMarketBid(w.u[2].String(), 2, coin("uasset3", 1120000)))
	// an externally initiated liquidation and a full bid on it (fee statistics of external initiators)
	w.msg("V2 external liquidation", liqV2types.NewMsgLiquidateExternalKeeperRequest(w.u[3], 2, w.u[3].String(), coin("uasset2", 1000000),
		coin("uasset3", 500000), 2, 3, false))
	extID := w.app.NewaucKeeper.GetAuctionID(w.ctx)
	w.msg("V2 bid on external", auctionsV2types.NewMsgPlaceMarketBid(w.u[2].String(), extID, coin("uasset3", 550000)))
}

// first-generation begin blocker and bids (block 5, a minute later). x/auction's BeginBlocker is no longer called by the module
// (x/auction/module.go:167-169) but the records it wrote exist on a chain with history: it is run once here — it starts a surplus
// auction (app 2, asset 4) and a debt auction (app 2, asset 3) from the collector's books and lets the dutch auction prices decay.
func (w *c20World) v1Bids() {
	coin := func(d string, n int64) sdk.Coin { return sdk.NewCoin(d, sdk.NewInt(n)) }
	w.step("V1 auction params app 2", func() error {
		return w.app.AuctionKeeper.AddAuctionParams(w.ctx, &bindings.MsgAddAuctionParams{AppID: 2, AuctionDurationSeconds: 300, Buffer: c20Dec("1.2"),
			Cusp: c20Dec("0.6"), Step: 1, PriceFunctionType: 1, SurplusID: 1, DebtID: 2, DutchID: 3, BidDurationSeconds: 300})
	})
	w.step("V1 surplus/debt mappings", func() error {
		if err := w.app.CollectorKeeper.WasmSetAuctionMappingForApp(w.ctx, &bindings.MsgSetAuctionMappingForApp{AppID: 2, AssetIDs: 3,
			IsSurplusAuctions: false, IsDebtAuctions: true, IsDistributor: false, AssetOutOraclePrices: false, AssetOutPrices: 1000000}); err != nil {
			return err
		}
		hbr, _ := w.app.AssetKeeper.GetAssetForDenom(w.ctx, "uharbor")
		if err := w.app.CollectorKeeper.WasmSetCollectorLookupTable(w.ctx, &bindings.MsgSetCollectorLookupTable{AppID: 2, CollectorAssetID: 4,
			SecondaryAssetID: hbr.Id, SurplusThreshold: sdk.NewInt(10000000), DebtThreshold: sdk.NewInt(5000000), LockerSavingRate: c20Dec("0.0"),
			LotSize: sdk.NewInt(2000000), BidFactor: c20Dec("0.01"), DebtLotSize: sdk.NewInt(2000000)}); err != nil {
			return err
		}
		if err := w.app.CollectorKeeper.WasmSetAuctionMappingForApp(w.ctx, &bindings.MsgSetAuctionMappingForApp{AppID: 2, AssetIDs: 4,
			IsSurplusAuctions: true, IsDebtAuctions: false, IsDistributor: false, AssetOutOraclePrices: false, AssetOutPrices: 1000000}); err != nil {
			return err
		}
		// the collector's books: net fees of (app 2, asset 4) above the surplus threshold, of (app 4, asset 3) enough to cover an auction loss
		if err := w.app.CollectorKeeper.SetNetFeeCollectedData(w.ctx, 2, 4, sdk.NewInt(15000000)); err != nil {
			return err
		}
		if err := w.app.CollectorKeeper.SetNetFeeCollectedData(w.ctx, 4, 3, sdk.NewInt(5000000)); err != nil {
			return err
		}
		c := sdk.NewCoins(coin("uasset4", 15000000), coin("uasset3", 5000000))
		if err := w.app.BankKeeper.MintCoins(w.ctx, auctionsV2types.ModuleName, c); err != nil {
			return err
		}
		return w.app.BankKeeper.SendCoinsFromModuleToModule(w.ctx, auctionsV2types.ModuleName, collectortypes.ModuleName, c)
	})
	w.step("V1 auction begin blocker", func() error {
		auction.BeginBlocker(w.ctx, w.app.AuctionKeeper, w.app.AssetKeeper, w.app.CollectorKeeper, w.app.EsmKeeper)
		return nil
	})
	w.msg("V1 dutch bid partial", auctiontypes.NewMsgPlaceDutchBid(w.u[2].String(), 1, coin("uasset2", 50000), 4, 3))
	// the most recent dutch auction is bought completely after its price has decayed below the debt: the collector covers the loss
	w.msg("V1 dutch bid full", auctiontypes.NewMsgPlaceDutchBid(w.u[3].String(), 3, coin("uasset2", 1000000), 4, 3))
	w.msg("V1 dutch lend bid partial", auctiontypes.NewMsgPlaceDutchLendBid(w.u[2].String(), 1, coin("uasset1", 10000000), 3, 3))
	if la, err := w.app.AuctionKeeper.GetDutchLendAuction(w.ctx, 3, 3, 2); err == nil {
		w.msg("V1 dutch lend bid full", auctiontypes.NewMsgPlaceDutchLendBid(w.u[3].String(), 2, la.OutflowTokenCurrentAmount, 3, 3))
	} else {
		w.fail = append(w.fail, "lend auction 2 not found")
	}
	// bids on the first-generation surplus auction (the bids themselves are not exported: G07)
	w.fund(w.u[2], "uharbor", 1000000000)
	w.fund(w.u[5], "uharbor", 1000000000)
	if sas := w.app.AuctionKeeper.GetSurplusAuctions(w.ctx, 2); len(sas) > 0 {
		w.msg("V1 surplus bid", auctiontypes.NewMsgPlaceSurplusBid(w.u[2].String(), sas[0].AuctionId, sdk.NewCoin(sas[0].BuyToken.Denom, sas[0].Bid.Amount.AddRaw(1000)), 2, sas[0].AuctionMappingId))
	} else if !w.skipped("V1 ") {
		w.fail = append(w.fail, "no first-generation surplus auction was started")
	}
	if das := w.app.AuctionKeeper.GetDebtAuctions(w.ctx, 2); len(das) > 0 {
		w.msg("V1 debt bid", auctiontypes.NewMsgPlaceDebtBid(w.u[3].String(), das[0].AuctionId, sdk.NewCoin(das[0].ExpectedMintedToken.Denom, das[0].AuctionedToken.Amount.SubRaw(1000)),
			das[0].ExpectedUserToken, 2, das[0].AuctionMappingId))
	} else if !w.skipped("V1 ") {
		w.fail = append(w.fail, "no first-generation debt auction was started")
	}
}

// nextBlock ends the current block, commits, and begins the next one dt later.
func (w *c20World) nextBlock(dt time.Duration) {
	h := w.ctx.BlockHeight()
	now := w.ctx.BlockTime()
	pan, msg := try(func() {
		w.app.EndBlock(abci.RequestEndBlock{Height: h})
		w.app.Commit()
		w.app.BeginBlock(abci.RequestBeginBlock{Header: tmproto.Header{Height: h + 1, Time: now.Add(dt)}})
	})
	if pan {
		w.fail = append(w.fail, fmt.Sprintf("block %d -> %d: panic: %s", h, h+1, msg))
	}
	w.ctx = w.app.BaseApp.NewContext(false, tmproto.Header{Height: h + 1, Time: now.Add(dt)})
}

func c20Summary(t *testing.T, name string, kvs []c20KV) {
	cnt := map[string]int{}
	for _, kv := range kvs {
		p := hex.EncodeToString(kv.k[:1])
		if strings.HasPrefix(name, "bandoracle") && len(kv.k) > 4 {
			p = strings.TrimRight(string(kv.k), "\x00\x01\x02\x03\x04\x05\x06\x07\x08")
		}
		cnt[p]++
	}
	var ks []string
	for k := range cnt {
		ks = append(ks, k)
	}
	sort.Strings(ks)
	var sb strings.Builder
	for _, k := range ks {
		fmt.Fprintf(&sb, " %s:%d", k, cnt[k])
	}
	t.Logf("%-17s%s", name, sb.String())
}

// ---- round trip -------------------------------------------------------------------------------------------------------

func c20DumpAll(tr *Trace, side string, app *chain.App, ctx sdk.Context, bytes map[string]map[string]bool) int {
	n := 0
	for _, s := range c20Stores {
		for _, kv := range c20Dump(app, ctx, s[1]) {
			tr.Line("gen.kv", side, s[0], hex.EncodeToString(kv.k), hex.EncodeToString(kv.v))
			tr.Count("kv:" + side + ":" + s[0])
			if bytes[s[0]] == nil {
				bytes[s[0]] = map[string]bool{}
			}
			bytes[s[0]][hex.EncodeToString(kv.k[:1])] = true
			n++
		}
	}
	// module parameters live in the params store, one subspace per module
	for _, kv := range c20Dump(app, ctx, "params") {
		k := string(kv.k)
		sub := k
		if i := strings.Index(k, "/"); i >= 0 {
			sub = k[:i]
		}
		for _, s := range c20Stores {
			if sub == s[1] {
				tr.Line("gen.param", side, s[0], hex.EncodeToString(kv.k), hex.EncodeToString(kv.v))
			}
		}
	}
	return n
}

type c20Op struct {
	name string
	run  func(app *chain.App, ctx sdk.Context) string
}

// which DeFi modules' restored state a continuation operation exercises (printed as a matrix in the statistics)
var c20OpModules = map[string][]string{
	"new_vault_id": {"vault", "asset", "market", "collector"}, "vault_deposit_draw": {"vault", "market", "collector", "rewards"},
	"stable_mint_deposit": {"vault", "rewards"}, "new_locker_id": {"locker", "collector"},
	"locker_withdraw": {"locker"}, "locker_deposit": {"locker", "rewards"}, "locker_reward_calc": {"locker", "collector", "rewards"},
	"new_lend_id": {"lend"}, "new_borrow_id": {"lend", "market"}, "lend_deposit_withdraw": {"lend"},
	"new_order_id": {"liquidity"}, "new_pair_id": {"liquidity"}, "cancel_order": {"liquidity"}, "liq_deposit_request_id": {"liquidity"},
	"liq_unfarm": {"liquidity"}, "liq_unfarm_queued": {"liquidity"}, "v2_limit_bid_id": {"auctionsV2"}, "v2_limit_bid_withdraw": {"auctionsV2"},
	"v2_market_bid_id": {"auctionsV2", "liquidationsV2", "market"}, "v2_liquidate_vault_id": {"liquidationsV2", "auctionsV2", "vault", "market"},
	"v1_dutch_bid_id": {"auction", "liquidation", "vault"}, "v1_lend_bid": {"auction", "liquidation", "lend"},
	"new_gauge_id": {"rewards", "liquidity"}, "ext_rewards_locker_id": {"rewards", "locker"}, "ext_rewards_stable_id": {"rewards"},
	"second_gov_token": {"asset"}, "asset_new_ids": {"asset"}, "tokenmint_new": {"tokenmint", "asset"}, "esm_redeem": {"esm"},
	"esm_deposit": {"esm", "tokenmint"}, "market_prices": {"market"},
	"faithful.active_prices": {"market", "bandoracle"}, "faithful.oracle_feed_config": {"bandoracle"}, "faithful.new_vault": {"vault", "market", "bandoracle"},
}

func c20Balances(app *chain.App, ctx sdk.Context) map[string]string {
	out := map[string]string{}
	app.BankKeeper.IterateAllBalances(ctx, func(addr sdk.AccAddress, c sdk.Coin) bool {
		out[addr.String()+"/"+c.Denom] = c.Amount.String()
		return false
	})
	return out
}

// one case = one application state, exported, re-imported, compared, continued
type c20Case struct {
	name        string
	skip        []string
	extraBlocks int
}

func c20Cases() []c20Case {
	groups := map[string][]string{
		"no-close":       {"close "},
		"no-bids":        {"market bid", "limit bid", "V2 market bid", "V2 bid", "V1 dutch"},
		"good-secondary": {"collector lookup 4/3"},
		"no-esm-exec":    {"esm execute"},
		"no-v1":          {"V1 "},
		"no-rewards":     {"ext rewards"},
		"no-pending":     {"liq deposit", "liq withdraw", "liq order", "liq mm"},
	}
	names := []string{"no-close", "no-bids", "good-secondary", "no-esm-exec", "no-v1", "no-rewards", "no-pending"}
	cases := []c20Case{{name: "rich-state"}} // the witness state first
	for _, n := range names[:5] {
		cases = append(cases, c20Case{name: n, skip: groups[n]})
	}
	rng := NewRng(seed())
	for i := 0; i < scale(2, 40); i++ {
		c := c20Case{name: "mix", extraBlocks: rng.Intn(4)}
		for _, n := range names {
			if rng.Chance(35) {
				c.name += "+" + n
				c.skip = append(c.skip, groups[n]...)
			}
		}
		cases = append(cases, c)
	}
	return cases
}

func TestC20(t *testing.T) {
	tr := OpenTrace(t, "c20.trace")
	defer tr.Close(t)
	c20Pop = c20NewPopulation()
	for _, c := range c20Cases() {
		c20RunCase(t, tr, c)
		tr.Count("case:" + strings.SplitN(c.name, "+", 2)[0])
	}
	c20Pop.report(tr)
	c20MsgReport(tr)
	// which continuation operations exercise which module's restored state
	matrix := map[string][]string{}
	for _, s := range c20Stores {
		matrix[s[0]] = []string{}
	}
	for op, ms := range c20OpModules {
		for _, m := range ms {
			matrix[m] = append(matrix[m], op)
		}
	}
	for m := range matrix {
		sort.Strings(matrix[m])
	}
	tr.Set("continuation_matrix", matrix)
}

// c20BuildWorld drives a fresh application through the construction blocks of a case (everything up to, not including, the end of
// the last block); the construction is deterministic: two worlds of one case are identical
func c20BuildWorld(t *testing.T, tr *Trace, cs c20Case, report bool) *c20World {
	a := chain.Setup(t, false)
	h := a.LastBlockHeight() + 1
	now := time.Unix(2000000000, 0).UTC()
	w := &c20World{t: t, tr: tr, app: a, ctx: a.BaseApp.NewContext(false, tmproto.Header{Height: h, Time: now}), skip: cs.skip}
	for i := 1; i <= 6; i++ {
		w.u = append(w.u, c20Addr(i))
	}
	w.buildOracle()
	w.buildBase()
	w.buildLiquidity()
	w.nextBlock(25 * time.Hour) // block 3, a day later: the farming queue (24 h) matures at the end of this block
	w.buildPositions()
	w.buildLocker()
	w.buildEsm()
	w.nextBlock(6 * time.Second) // block 4: ESM price snapshot; bids on the second auction generation
	w.v2Bids()
	w.nextBlock(60 * time.Second) // block 5: ESM cool-off over; first-generation begin blocker and bids
	w.v1Bids()
	w.nextBlock(6 * time.Second)
	for i := 0; i <= cs.extraBlocks; i++ {
		w.nextBlock(6 * time.Second)
	}
	w.buildLiquidityPending()
	for _, f := range w.fail {
		if !report {
			break
		}
		if os.Getenv("C20_VERBOSE") != "" {
			t.Logf("BUILD FAIL %s: %s", cs.name, f)
		}
		tr.Line("gen.note", "build step failed: "+strings.ReplaceAll(f, "\t", " "))
	}
	return w
}

func c20RunCase(t *testing.T, tr *Trace, cs c20Case) {
	tr.Line("gen.begin", cs.name, u(seed()))
	w := c20BuildWorld(t, tr, cs, true)
	a := w.app
	h := w.ctx.BlockHeight()
	now := w.ctx.BlockTime()
	a.EndBlock(abci.RequestEndBlock{Height: h})
	a.Commit()

	// export with every module's ExportGenesis, import into a fresh application with every module's InitGenesis
	exp, err := a.ExportAppStateAndValidators(false, nil, nil)
	if err != nil {
		t.Fatal(err)
	}
	tr.Set("exported_bytes", len(exp.AppState))
	// every module must accept (ValidateGenesis) and import (InitGenesis) what it exported itself; a refusal or panic of ANY
	// module is reported under that module's name and ends the case (nothing can be compared on a chain that does not start)
	var genesisMap map[string]json.RawMessage
	if err := json.Unmarshal(exp.AppState, &genesisMap); err != nil {
		t.Fatal(err)
	}
	for n, raw := range genesisMap {
		if c20IsDefi(n) {
			c20Pop.addState(tr, c20ModuleDir(n), raw)
		}
	}
	enc := chain.MakeEncodingConfig()
	refused := false
	var names []string
	for n := range genesisMap {
		names = append(names, n)
	}
	sort.Strings(names)
	for _, n := range names {
		mb0, ok := chain.ModuleBasics[n]
		if !ok {
			continue
		}
		mb, ok := mb0.(module.HasGenesisBasics)
		if !ok {
			continue
		}
		var err error
		pan, msg, _ := c20TryStack(func() { err = mb.ValidateGenesis(enc.Marshaler, enc.TxConfig, genesisMap[n]) })
		if pan {
			err = fmt.Errorf("panic: %s", msg)
		}
		if err != nil && c20ModuleDir(n) == n && n != "tokenmint" && n != "liquidationsV2" && n != "auctionsV2" {
			// not a DeFi module (ibc's stand-alone ValidateGenesis dislikes the localhost connection id that InitChain accepts): noted
			tr.Line("gen.note", "ValidateGenesis of non-DeFi module "+n+": "+strings.ReplaceAll(err.Error(), "\t", " "))
		} else if err != nil {
			tr.Line("gen.validate", c20ModuleDir(n), "err", strings.ReplaceAll(err.Error(), "\t", " "))
			refused = true
		} else {
			tr.Count("validate:ok")
		}
	}
	fresh := func() *chain.App {
		b := chain.New(log.NewNopLogger(), dbm.NewMemDB(), nil, true, map[int64]bool{}, chain.DefaultNodeHome, 5, chain.MakeEncodingConfig(),
			simtestutil.EmptyAppOptions{}, chain.GetWasmEnabledProposals(), chain.EmptyWasmOpts)
		pan, msg, mod := c20TryStack(func() {
			b.InitChain(abci.RequestInitChain{Validators: []abci.ValidatorUpdate{}, ConsensusParams: chain.DefaultConsensusParams,
				AppStateBytes: exp.AppState, Time: now, InitialHeight: exp.Height})
		})
		if pan {
			tr.Line("gen.import", "panic", mod, strings.ReplaceAll(msg, "\t", " "))
			return nil
		}
		return b
	}
	b := fresh()
	if b == nil || refused {
		if b != nil {
			tr.Line("gen.note", "InitChain went through although ValidateGenesis refused the exported state")
		}
		tr.Count("import:refused")
		return
	}
	tr.Line("gen.import", "ok", "-", "-")
	hdr := tmproto.Header{Height: exp.Height, Time: now.Add(6 * time.Second)}
	// (i) store by store, before anything else runs (as in the ABCI flow InitChain is followed directly by BeginBlock)
	ca := a.BaseApp.NewUncachedContext(false, hdr)
	cb := b.BaseApp.NewContext(false, hdr)
	firstBytes := map[string]map[string]bool{}
	nA := c20DumpAll(tr, "A", a, ca, firstBytes)
	nB := c20DumpAll(tr, "B", b, cb, firstBytes)
	for _, s := range c20Stores {
		var bs []string
		for x := range firstBytes[s[0]] {
			bs = append(bs, x)
		}
		sort.Strings(bs)
		for _, x := range bs {
			tr.Line("gen.check", s[0], x)
		}
		tr.Line("gen.params", s[0])
	}
	if os.Getenv("C20_VERBOSE") != "" {
		for _, s := range c20Stores {
			c20Summary(t, s[0]+" A", c20Dump(a, ca, s[1]))
			c20Summary(t, s[0]+" B", c20Dump(b, cb, s[1]))
		}
	}
	tr.Line("gen.end", u(uint64(nA)), u(uint64(nB)))
	// custody: every bank balance (users and module accounts) right after the import
	{
		ba, bb := c20Balances(a, ca), c20Balances(b, cb)
		nd := 0
		for k, v := range ba {
			if bb[k] != v {
				nd++
			}
		}
		for k := range bb {
			if _, ok := ba[k]; !ok {
				nd++
			}
		}
		tr.Line("gen.custody", u(uint64(len(ba))), u(uint64(len(bb))), u(uint64(nd)))
	}

	// (ii) continuation. First the faithful probe: the first block on the original and on the re-imported chain, and what a
	// price-dependent user message does afterwards (on branches that are thrown away).
	begin := func(app *chain.App, side string) sdk.Context {
		p, m := try(func() { app.BeginBlock(abci.RequestBeginBlock{Header: hdr}) })
		if p {
			tr.Line("gen.op", "begin_block_"+side, "panic "+strings.ReplaceAll(m, "\t", " "), "-")
		}
		return app.BaseApp.NewContext(false, hdr)
	}
	var ctxs [2]sdk.Context
	ctxs[0], ctxs[1] = begin(a, "A"), begin(b, "B")
	probe := []c20Op{
		{"faithful.active_prices", func(app *chain.App, c sdk.Context) string {
			n := 0
			for _, tw := range app.MarketKeeper.GetAllTwa(c) {
				if tw.IsPriceActive {
					n++
				}
			}
			return u(uint64(n))
		}},
		{"faithful.oracle_feed_config", func(app *chain.App, c sdk.Context) string {
			msg := app.BandoracleKeeper.GetFetchPriceMsg(c)
			return fmt.Sprintf("script=%d/batch=%d/last=%d/valid=%t", msg.OracleScriptID, msg.TwaBatchSize, app.BandoracleKeeper.GetLastBlockHeight(c),
				app.BandoracleKeeper.GetOracleValidationResult(c))
		}},
		{"faithful.new_vault", func(app *chain.App, c sdk.Context) string {
			ok, _ := c20Deliver(app, c, vaulttypes.NewMsgCreateRequest(w.u[5], 2, 1, sdk.NewInt(100000000), sdk.NewInt(1000000)))
			if !ok {
				return "err"
			}
			return "ok"
		}},
	}
	for _, op := range probe {
		c0, _ := ctxs[0].CacheContext()
		c1, _ := ctxs[1].CacheContext()
		tr.Line("gen.op", op.name, op.run(a, c0), op.run(b, c1))
	}
	// Then the workload proper on a second re-imported chain on which the oracle module's validation result — lost by the round
	// trip (finding bandoracle/OracleValidationResultKey), without it x/market deactivates every price in the first block — is set
	// again before the first block, so that the remaining differences are attributable to the other modules.
	b2 := fresh()
	if b2 == nil {
		return
	}
	b2.BandoracleKeeper.SetOracleValidationResult(b2.BaseApp.NewContext(false, hdr), true)
	tr.Line("gen.note", "workload runs on a second re-imported chain with the oracle validation result re-established")
	b = b2
	ctxs[1] = begin(b, "B2")
	c20RunContinuation(tr, w.u, a, b, ctxs, hdr)
}

// c20RunContinuation applies the continuation workload to both chains (block `hdr` has begun on both), processes two more blocks
// (one a day later) and compares all balances.
func c20RunContinuation(tr *Trace, us []sdk.AccAddress, a, b *chain.App, ctxs [2]sdk.Context, hdr tmproto.Header) {
	ops := c20Continuation(us)
	c20ContApp = a
	defer func() { c20ContApp = nil }()
	for _, op := range ops {
		ra, rb := op.run(a, ctxs[0]), op.run(b, ctxs[1])
		tr.Line("gen.op", op.name, ra, rb)
		if ra == rb {
			tr.Count("cont:equal")
		} else {
			tr.Count("cont:different")
		}
		if strings.HasPrefix(ra, "err") || strings.HasPrefix(ra, "false") || ra == "none" {
			tr.Count("cont:A-refused")
		} else {
			tr.Count("cont:A-accepted")
		}
	}
	hdr2 := tmproto.Header{Height: hdr.Height + 1, Time: hdr.Time.Add(25 * time.Hour)}
	for i, app := range []*chain.App{a, b} {
		p, m := try(func() {
			app.EndBlock(abci.RequestEndBlock{Height: hdr.Height})
			app.Commit()
			app.BeginBlock(abci.RequestBeginBlock{Header: hdr2})
			app.EndBlock(abci.RequestEndBlock{Height: hdr2.Height})
		})
		if p {
			tr.Line("gen.op", "blocks", []string{"A", "B"}[i]+" panic "+strings.ReplaceAll(m, "\t", " "), "-")
		}
		ctxs[i] = app.BaseApp.NewContext(false, hdr2)
	}
	ba, bb := c20Balances(a, ctxs[0]), c20Balances(b, ctxs[1])
	if c20SeparateSetups {
		// two applications from two app.Setup calls (migration cases) differ in the randomly generated genesis / validator account:
		// accounts that exist on one side only are matched by what they hold
		c20MatchForeignAccounts(ba, bb)
	}
	keys := map[string]bool{}
	for k := range ba {
		keys[k] = true
	}
	for k := range bb {
		keys[k] = true
	}
	var ks []string
	for k := range keys {
		ks = append(ks, k)
	}
	sort.Strings(ks)
	nd := 0
	for _, k := range ks {
		if ba[k] != bb[k] {
			nd++
			va, vb := ba[k], bb[k]
			if va == "" {
				va = "0"
			}
			if vb == "" {
				vb = "0"
			}
			tr.Line("gen.bal", k, va, vb)
		}
	}
	tr.Line("gen.balances", u(uint64(len(ks))), u(uint64(nd)))
}
