//go:build verif

package harness

// C19 — incentive payouts.  Drives the REAL code:
//   * rewardskeeper.SplitTotalAmountPerEpoch            (gauge.split lines, exhaustive + random)
//   * LegacyDec.MustFloat64                             (gauge.f64 lines: TEST of the float hypothesis of the Lean theorems)
//   * liquidity keeper GetFarmingRewardsData            (gauge.shares / gauge.dist lines)
//   * the gauge lifecycle: MsgCreateGauge / MsgFarm / MsgUnfarm through the message router, epochs through the real
//     rewards BeginBlocker (TriggerAndUpdateEpochInfos → InitateGaugesForDuration → BeginRewardDistributions → bank),
//     external locker reward programmes through the same BeginBlocker; liquidity EndBlocker moves queued farmers.
// The Lean driver recomputes everything with the model, and evaluates the monitors on the REAL values.

import (
	"math"
	"math/big"
	"sort"
	"strconv"
	"strings"
	"testing"
	"time"

	sdkmath "cosmossdk.io/math"
	chain "github.com/comdex-official/comdex/app"
	"github.com/comdex-official/comdex/app/wasm/bindings"
	assettypes "github.com/comdex-official/comdex/x/asset/types"
	"github.com/comdex-official/comdex/x/liquidity"
	liqtypes "github.com/comdex-official/comdex/x/liquidity/types"
	lockertypes "github.com/comdex-official/comdex/x/locker/types"
	markettypes "github.com/comdex-official/comdex/x/market/types"
	"github.com/comdex-official/comdex/x/rewards"
	rewardskeeper "github.com/comdex-official/comdex/x/rewards/keeper"
	rewardstypes "github.com/comdex-official/comdex/x/rewards/types"
	abci "github.com/cometbft/cometbft/abci/types"
	tmproto "github.com/cometbft/cometbft/proto/tendermint/types"
	sdk "github.com/cosmos/cosmos-sdk/types"
)

// ---------------------------------------------------------------------------------------------
// pure functions
// ---------------------------------------------------------------------------------------------

func c19SplitLine(tr *Trace, total, epochs uint64) {
	var res []uint64
	panicked, _ := try(func() { res = rewardskeeper.SplitTotalAmountPerEpoch(total, epochs) })
	if panicked {
		tr.Count("split:panic")
		tr.Line("gauge.split.single", u(total), u(epochs), "panic", "")
		return
	}
	switch {
	case len(res) == 0:
		tr.Count("split:empty")
	case total%epochs == 0:
		tr.Count("split:even")
	default:
		tr.Count("split:remainder")
	}
	tr.Line("gauge.split.single", u(total), u(epochs), "ok", joinU(res))
}

func c19Split(tr *Trace, rng *Rng) {
	// exhaustive: every total ≤ 400 × every epoch count ≤ 40 (including 0 epochs and total < epochs)
	for total := uint64(0); total <= 400; total++ {
		for epochs := uint64(0); epochs <= 40; epochs++ {
			c19SplitLine(tr, total, epochs)
		}
	}
	n := scale(4000, 80000)
	for i := 0; i < n; i++ {
		var total, epochs uint64
		switch rng.Intn(6) {
		case 0:
			total = rng.U64() >> 1 // up to 2^63
		case 1:
			total = rng.U64() // up to 2^64-1
		case 2:
			total = math.MaxUint64 - uint64(rng.Intn(3))
		default:
			total = rng.U64() >> uint(rng.Intn(64))
		}
		switch rng.Intn(8) {
		case 0:
			epochs = uint64(rng.Intn(3)) // 0,1,2
		case 1:
			epochs = total + 1 + uint64(rng.Intn(2)) // total < epochs ⇒ no allocations (wraps to 0 / 1 at MaxUint64)
		case 2:
			total = uint64(rng.Range(1, 2000)) // epochs = total or total-1: one unit (or two) per epoch
			epochs = total - uint64(rng.Intn(2))
		case 3:
			epochs = uint64(rng.Range(41, 1500))
		default:
			epochs = uint64(rng.Range(1, 60))
		}
		c19SplitLine(tr, total, epochs)
	}
}

func c19F64Line(tr *Trace, raw *big.Int) {
	d := sdkmath.LegacyNewDecFromBigIntWithPrec(raw, 18)
	f := d.MustFloat64()
	tr.Line("gauge.f64.single", raw.String(), u(math.Float64bits(f)))
}

func c19Float(tr *Trace, rng *Rng) {
	p18 := new(big.Int).Exp(big.NewInt(10), big.NewInt(18), nil)
	// integers that are exactly half-way between two doubles: (2^53 + odd) · 2^j  (ties → even)
	for j := 0; j < 40; j++ {
		for _, odd := range []int64{1, 3, 5, 7, 1001} {
			v := new(big.Int).Add(new(big.Int).Lsh(big.NewInt(1), 53), big.NewInt(odd))
			v.Lsh(v, uint(j))
			for _, dd := range []int64{-1, 0, 1} {
				raw := new(big.Int).Mul(v, p18)
				raw.Add(raw, big.NewInt(dd))
				c19F64Line(tr, raw)
				tr.Count("f64:tie")
			}
		}
	}
	for k := 0; k < 200; k++ { // around powers of two (mantissa renormalisation) and powers of ten
		v := new(big.Int).Lsh(big.NewInt(1), uint(k))
		for _, dd := range []int64{-2, -1, 0, 1, 2} {
			raw := new(big.Int).Add(v, big.NewInt(dd))
			if raw.Sign() > 0 {
				c19F64Line(tr, raw)
				tr.Count("f64:pow2")
			}
		}
	}
	for k := 0; k < 60; k++ {
		v := new(big.Int).Exp(big.NewInt(10), big.NewInt(int64(k)), nil)
		for _, dd := range []int64{-1, 0, 1} {
			raw := new(big.Int).Add(v, big.NewInt(dd))
			if raw.Sign() > 0 {
				c19F64Line(tr, raw)
				tr.Count("f64:pow10")
			}
		}
	}
	n := scale(20000, 300000)
	for i := 0; i < n; i++ {
		bits := rng.Range(1, 200)
		raw := new(big.Int)
		for raw.BitLen() < bits {
			raw.Lsh(raw, 64)
			raw.Or(raw, new(big.Int).SetUint64(rng.U64()))
		}
		raw.Rsh(raw, uint(raw.BitLen()-bits))
		if raw.Sign() == 0 {
			raw.SetInt64(1)
		}
		c19F64Line(tr, raw)
		tr.Count("f64:random")
	}
}

// ---------------------------------------------------------------------------------------------
// world
// ---------------------------------------------------------------------------------------------

type c19World struct {
	t       *testing.T
	tr      *Trace
	app     *chain.App
	ctx     sdk.Context
	appID   uint64
	pools   []liqtypes.Pool
	pairs   []liqtypes.Pair
	accts   []sdk.AccAddress // account number → address (farmers, gauge creators, locker owners)
	acctIx  map[string]int
	denoms  []string // reward denominations watched
	macc    sdk.AccAddress
	lockers bool
	x       *c19X // external-programme fixtures (c19_ext_test.go), nil in the plain gauge worlds
	sfSeen  map[uint64]bool
}

func c19Addr(i int) sdk.AccAddress {
	a := make(sdk.AccAddress, 20)
	a[0] = byte(i)
	a[1] = byte(i >> 8)
	a[19] = 0xC9
	return a
}

func (w *c19World) must(err error) {
	if err != nil {
		w.t.Fatal(err)
	}
}

func (w *c19World) acct(i int) sdk.AccAddress {
	for len(w.accts) <= i {
		a := c19Addr(len(w.accts))
		w.acctIx[a.String()] = len(w.accts)
		w.accts = append(w.accts, a)
	}
	return w.accts[i]
}

func (w *c19World) fund(a sdk.AccAddress, c sdk.Coins) {
	w.must(w.app.BankKeeper.MintCoins(w.ctx, lockertypes.ModuleName, c))
	w.must(w.app.BankKeeper.SendCoinsFromModuleToAccount(w.ctx, lockertypes.ModuleName, a, c))
}

// deliver re-enacts baseapp's runMsgs: ValidateBasic, routed handler on a cache context, written back only on success.
func (w *c19World) deliver(msg sdk.Msg) error {
	if err := msg.ValidateBasic(); err != nil {
		return err
	}
	h := w.app.MsgServiceRouter().Handler(msg)
	if h == nil {
		w.t.Fatalf("no handler for %T", msg)
	}
	c, write := w.ctx.CacheContext()
	var err error
	panicked, m := try(func() { _, err = h(c, msg) })
	if panicked {
		return errString("panic: " + m)
	}
	if err == nil {
		write()
	}
	return err
}

type errString string

func (e errString) Error() string { return string(e) }

func (w *c19World) setPrice(assetID uint64, twa uint64, active bool) {
	w.app.MarketKeeper.SetTwa(w.ctx, markettypes.TimeWeightedAverage{AssetID: assetID, ScriptID: 12, Twa: twa, IsPriceActive: active, PriceValue: []uint64{twa}})
}

// c19NewWorld: one app, four priced assets, pool 1 (the master pool of the gauges) and pools 2, 3, 4 (child pools).
func c19NewWorld(t *testing.T, tr *Trace, reserve int64, decimals int64, prices [4]uint64) *c19World {
	return c19NewWorldOpt(t, tr, reserve, decimals, prices, "")
}

// swapDenom != "": the denomination swap fees are distributed in (default ucmdx, which no pool of these worlds trades)
func c19NewWorldOpt(t *testing.T, tr *Trace, reserve int64, decimals int64, prices [4]uint64, swapDenom string) *c19World {
	w := &c19World{t: t, tr: tr, acctIx: map[string]int{}, denoms: []string{"urew", "urewb", "weth"}, sfSeen: map[uint64]bool{}}
	if swapDenom != "" {
		w.denoms = append(w.denoms, swapDenom)
	}
	w.app = chain.Setup(t, false)
	t0 := time.Date(2024, 1, 1, 0, 0, 0, 0, time.UTC)
	w.ctx = w.app.BaseApp.NewContext(false, tmproto.Header{Height: 1, Time: t0})
	w.macc = w.app.AccountKeeper.GetModuleAddress(rewardstypes.ModuleName)
	w.must(w.app.AssetKeeper.AddAppRecords(w.ctx, assettypes.AppData{Name: "appone", ShortName: "appone", MinGovDeposit: sdk.NewInt(0)}))
	w.appID = 1
	for i, d := range []string{"uasset1", "uasset2", "uasset3", "uasset4"} {
		w.must(w.app.AssetKeeper.AddAssetRecords(w.ctx, assettypes.Asset{Name: alphaName(i), Denom: d, Decimals: sdk.NewInt(decimals), IsOnChain: true, IsOraclePriceRequired: true}))
		w.setPrice(uint64(i+1), prices[i], true)
	}
	if swapDenom != "" {
		w.must(w.app.LiquidityKeeper.UpdateGenericParams(w.ctx, w.appID, []string{"SwapFeeDistrDenom"}, []string{swapDenom}))
	}
	params, err := w.app.LiquidityKeeper.GetGenericParams(w.ctx, w.appID)
	w.must(err)
	creator := w.acct(0)
	for _, pd := range [][2]string{{"uasset1", "uasset2"}, {"uasset1", "uasset3"}, {"uasset2", "uasset3"}, {"uasset1", "uasset4"}} {
		w.fund(creator, params.PairCreationFee)
		pair, err := w.app.LiquidityKeeper.CreatePair(w.ctx, liqtypes.NewMsgCreatePair(w.appID, creator, pd[0], pd[1]), false)
		w.must(err)
		dep := sdk.NewCoins(sdk.NewCoin(pd[0], sdk.NewInt(reserve)), sdk.NewCoin(pd[1], sdk.NewInt(reserve)))
		w.fund(creator, params.PoolCreationFee)
		w.fund(creator, dep)
		pool, err := w.app.LiquidityKeeper.CreatePool(w.ctx, liqtypes.NewMsgCreatePool(w.appID, creator, pair.Id, dep))
		w.must(err)
		w.pairs = append(w.pairs, pair)
		w.pools = append(w.pools, pool)
	}
	tr.Line("gauge.begin", i64(int64(rewardstypes.MinimumEpochDuration)))
	w.noteSfGauges()
	return w
}

// announce swap-fee gauges created since the last call (pool creation creates one, with its epoch record)
func (w *c19World) noteSfGauges() {
	for _, g := range w.app.Rewardskeeper.GetAllGauges(w.ctx) {
		if g.ForSwapFee && !w.sfSeen[g.Id] {
			w.sfSeen[g.Id] = true
			w.tr.Line("gauge.sfgauge", u(g.Id), g.DepositAmount.Denom, i64(int64(g.TriggerDuration)), i64(w.ctx.BlockTime().UnixNano()))
		}
	}
}

// deposit real coins into a pool (executed by the liquidity EndBlocker) and return the pool coins received
func (w *c19World) deposit(who sdk.AccAddress, pool liqtypes.Pool, amt int64) sdk.Coin {
	pair := w.pairs[pool.PairId-1]
	before := w.app.BankKeeper.GetBalance(w.ctx, who, pool.PoolCoinDenom)
	dep := sdk.NewCoins(sdk.NewCoin(pair.BaseCoinDenom, sdk.NewInt(amt)), sdk.NewCoin(pair.QuoteCoinDenom, sdk.NewInt(amt)))
	w.fund(who, dep)
	_, err := w.app.LiquidityKeeper.Deposit(w.ctx, liqtypes.NewMsgDeposit(w.appID, who, pool.Id, dep))
	w.must(err)
	liquidity.EndBlocker(w.ctx, w.app.LiquidityKeeper, w.app.AssetKeeper)
	after := w.app.BankKeeper.GetBalance(w.ctx, who, pool.PoolCoinDenom)
	return after.Sub(before)
}

func (w *c19World) farm(who sdk.AccAddress, pool liqtypes.Pool, pc sdkmath.Int) error {
	err := w.deliver(liqtypes.NewMsgFarm(w.appID, pool.Id, who, sdk.NewCoin(pool.PoolCoinDenom, pc)))
	if err != nil {
		w.tr.Count("farm:err")
	} else {
		w.tr.Count("farm:ok")
	}
	return err
}

func (w *c19World) unfarm(who sdk.AccAddress, pool liqtypes.Pool, pc sdkmath.Int) error {
	err := w.deliver(liqtypes.NewMsgUnfarm(w.appID, pool.Id, who, sdk.NewCoin(pool.PoolCoinDenom, pc)))
	if err != nil {
		w.tr.Count("unfarm:err")
	} else {
		w.tr.Count("unfarm:ok")
	}
	return err
}

// advance time without running the rewards begin blocker (set-up only: lets queued farmers become active)
func (w *c19World) settle(d time.Duration) {
	w.ctx = w.ctx.WithBlockHeight(w.ctx.BlockHeight() + 1).WithBlockTime(w.ctx.BlockTime().Add(d))
	liquidity.EndBlocker(w.ctx, w.app.LiquidityKeeper, w.app.AssetKeeper)
}

type c19GaugeSpec struct {
	creator  int
	denom    string
	deposit  sdkmath.Int
	total    uint64
	start    time.Time
	dur      time.Duration
	pool     uint64
	master   bool
	children []uint64
	typeID   uint64
}

func (w *c19World) createGauge(s c19GaugeSpec) (uint64, bool) {
	from := w.acct(s.creator)
	msg := rewardstypes.NewMsgCreateGauge(w.appID, from, s.start, s.typeID, s.dur, sdk.Coin{Denom: s.denom, Amount: s.deposit}, s.total)
	msg.Kind = &rewardstypes.MsgCreateGauge_LiquidityMetaData{LiquidityMetaData: &rewardstypes.LiquidtyGaugeMetaData{PoolId: s.pool, IsMasterPool: s.master, ChildPoolIds: s.children}}
	funds := w.app.BankKeeper.GetBalance(w.ctx, from, s.denom).Amount
	// the guards that involve neither amounts nor times, evaluated by the real validator on a throw-away branch
	aux := s.typeID == rewardstypes.LiquidityGaugeTypeID
	if aux {
		c, _ := w.ctx.CacheContext()
		if e := w.app.Rewardskeeper.ValidateMsgCreateGaugeLiquidityMetaData(c, w.appID, msg.Kind.(*rewardstypes.MsgCreateGauge_LiquidityMetaData), false); e != nil {
			aux = false
		}
	}
	err := w.deliver(msg)
	gid := uint64(0)
	outcome := "err"
	sp := "none"
	if err == nil {
		outcome = "ok"
		gid = w.app.Rewardskeeper.GetGaugeID(w.ctx)
		w.tr.Count("create:ok")
		if s.deposit.IsUint64() {
			var res []uint64
			panicked, _ := try(func() { res = rewardskeeper.SplitTotalAmountPerEpoch(s.deposit.Uint64(), s.total) })
			if panicked {
				sp = "panic"
			} else {
				sp = "ok:" + c19csvU(res)
			}
		}
	} else {
		w.tr.Count("create:err")
	}
	w.tr.Line("gauge.create", u(gid), s.denom, s.deposit.String(), u(s.total), i64(s.start.UnixNano()), i64(w.ctx.BlockTime().UnixNano()),
		i64(int64(s.dur)), funds.String(), strconv.FormatBool(aux), outcome, sp)
	return gid, err == nil
}

func c19csvU(xs []uint64) string {
	if len(xs) == 0 {
		return "-"
	}
	return joinU(xs)
}

func c19csvS(xs []string) string {
	if len(xs) == 0 {
		return "-"
	}
	return strings.Join(xs, ",")
}

func (w *c19World) donate(who sdk.AccAddress, denom string, amt int64) {
	c := sdk.NewCoins(sdk.NewCoin(denom, sdk.NewInt(amt)))
	w.fund(who, c)
	w.must(w.app.BankKeeper.SendCoinsFromAccountToModule(w.ctx, who, rewardstypes.ModuleName, c))
	w.tr.Line("gauge.fund", denom, i64(amt))
}

// the inputs of the share computation — per farmer of the gauge's pool its position there and its positions in every
// child pool, each as (redeemable amount of the priced asset, that asset's TWA, its decimals), obtained with the keeper's
// low-level functions (NOT with GetAggregatedChildPoolContributions: summing over child pools is the model's job) — and
// the real result
type c19Dist struct {
	mode    string
	mpos    []string
	cpos    []string
	values  []sdkmath.LegacyDec // value of the master position (harness-internal, for directed searches only)
	recv    []string
	outcome string
	rewards []string
}

// position of `addr` in pool `poolID` as the valuation sees it; ok=false when the code would skip it
func (w *c19World) position(c sdk.Context, poolID uint64, addr sdk.AccAddress) (pos string, val sdkmath.LegacyDec, ok bool) {
	k := w.app.LiquidityKeeper
	kit, err := k.GetPoolTokenDesrializerKit(c, w.appID, poolID)
	if err != nil {
		return "", sdkmath.LegacyDec{}, false
	}
	pair := kit.Pair
	asset, err := k.GetAssetWhoseOraclePriceExists(c, pair.QuoteCoinDenom, pair.BaseCoinDenom)
	if err != nil {
		return "", sdkmath.LegacyDec{}, false
	}
	af, found := k.GetActiveFarmer(c, w.appID, poolID, addr)
	if !found {
		return "", sdkmath.LegacyDec{}, false
	}
	x, y, err := k.CalculateXYFromPoolCoin(c, kit, af.FarmedPoolCoin)
	if err != nil {
		return "", sdkmath.LegacyDec{}, false
	}
	amt := y
	if pair.QuoteCoinDenom == asset.Denom {
		amt = x
	}
	twa := uint64(0)
	if t, found := w.app.MarketKeeper.GetTwa(c, asset.Id); found {
		twa = t.Twa
	}
	v, _ := k.CalcAssetPrice(c, asset.Id, amt)
	return amt.String() + ":" + u(twa) + ":" + asset.Decimals.String(), v.Mul(sdkmath.LegacyNewDec(2)), true
}

func (w *c19World) shareInputs(c sdk.Context, meta rewardstypes.LiquidtyGaugeMetaData) (d c19Dist, addrs []sdk.AccAddress, ok bool) {
	k := w.app.LiquidityKeeper
	d.mode = "0"
	kit, err := k.GetPoolTokenDesrializerKit(c, w.appID, meta.PoolId)
	if err != nil {
		return d, nil, false
	}
	if _, err := k.GetAssetWhoseOraclePriceExists(c, kit.Pair.QuoteCoinDenom, kit.Pair.BaseCoinDenom); err != nil {
		return d, nil, false
	}
	for _, af := range k.GetAllActiveFarmers(c, w.appID, kit.Pool.Id) {
		addr, err := sdk.AccAddressFromBech32(af.Farmer)
		if err != nil {
			continue
		}
		pos, val, ok := w.position(c, meta.PoolId, addr)
		if !ok {
			continue
		}
		addrs = append(addrs, addr)
		d.mpos = append(d.mpos, pos)
		d.values = append(d.values, val)
		ix, known := w.acctIx[addr.String()]
		if !known {
			ix = 9999
		}
		d.recv = append(d.recv, strconv.Itoa(ix))
	}
	if meta.IsMasterPool {
		var childIDs []uint64
		if len(meta.ChildPoolIds) == 0 {
			for _, p := range k.GetAllPools(c, w.appID) {
				if p.Id != meta.PoolId && !p.Disabled {
					childIDs = append(childIDs, p.Id)
				}
			}
		} else {
			for _, id := range meta.ChildPoolIds {
				if id != meta.PoolId {
					childIDs = append(childIDs, id)
				}
			}
		}
		if len(childIDs) != 0 {
			d.mode = "1"
			if len(childIDs) >= 2 {
				w.tr.Count("dist:children>=2")
			} else {
				w.tr.Count("dist:children=1")
			}
			for i, a := range addrs {
				var ps []string
				sum := sdkmath.LegacyZeroDec()
				last := sdkmath.LegacyZeroDec()
				for _, id := range childIDs {
					if pos, val, ok := w.position(c, id, a); ok {
						ps = append(ps, pos)
						sum = sum.Add(val)
						last = val
					}
				}
				if len(ps) == 0 {
					d.cpos = append(d.cpos, "0")
					w.tr.Count("farmer:no-child")
				} else {
					d.cpos = append(d.cpos, strings.Join(ps, "+"))
					if len(ps) >= 2 {
						w.tr.Count("farmer:child-positions>=2")
						// the situations in which dropping or overwriting a child pool changes the weight
						if last.LT(sum) && last.LT(d.values[i]) {
							w.tr.Count("farmer:last-child-below-min(master,sum)")
						}
					} else {
						w.tr.Count("farmer:child-positions=1")
					}
					if d.values[i].LTE(sum) {
						w.tr.Count("bind:master")
					} else {
						w.tr.Count("bind:child-sum")
					}
				}
			}
		}
	}
	return d, addrs, true
}

func (w *c19World) computeDist(meta rewardstypes.LiquidtyGaugeMetaData, coin sdk.Coin) c19Dist {
	c, _ := w.ctx.CacheContext()
	d, addrs, _ := w.shareInputs(c, meta)
	var data []rewardstypes.RewardDistributionDataCollector
	var err error
	panicked, _ := try(func() { data, err = w.app.LiquidityKeeper.GetFarmingRewardsData(c, w.appID, coin, meta) })
	switch {
	case panicked:
		d.outcome = "panic"
		w.tr.Count("dist:panic")
	case err != nil:
		d.outcome = "err"
		w.tr.Count("dist:err")
	default:
		d.outcome = "ok"
		if len(data) == 0 {
			w.tr.Count("dist:ok-empty")
		} else {
			w.tr.Count("dist:ok-mode" + d.mode)
			sum := sdk.ZeroInt()
			for _, r := range data {
				sum = sum.Add(r.RewardCoin.Amount)
			}
			if sum.GT(coin.Amount) { // only the sum-of-shares guard of BeginRewardDistributions stands between this and an over-payment
				w.tr.Count("dist:sum-exceeds-alloc")
			} else if sum.Equal(coin.Amount) {
				w.tr.Count("dist:sum-equals-alloc")
			}
		}
		if len(data) > 0 {
			if d.mode == "0" {
				for _, r := range data {
					d.rewards = append(d.rewards, r.RewardCoin.Amount.String())
				}
			} else {
				by := map[string]string{}
				for _, r := range data {
					by[r.RewardReceiver.String()] = r.RewardCoin.Amount.String()
				}
				for _, a := range addrs {
					if v, found := by[a.String()]; found {
						d.rewards = append(d.rewards, v)
					} else {
						d.rewards = append(d.rewards, "0")
					}
				}
			}
		}
	}
	return d
}

func (w *c19World) balSnap() map[string]sdkmath.Int {
	m := map[string]sdkmath.Int{}
	for i, a := range w.accts {
		for _, d := range w.denoms {
			m[d+":"+strconv.Itoa(i)] = w.app.BankKeeper.GetBalance(w.ctx, a, d).Amount
		}
	}
	return m
}

// one block: the real rewards BeginBlocker at now+gap, then the liquidity EndBlocker
func (w *c19World) block(gap time.Duration) {
	tr := w.tr
	w.ctx = w.ctx.WithBlockHeight(w.ctx.BlockHeight() + 1).WithBlockTime(w.ctx.BlockTime().Add(gap))
	now := w.ctx.BlockTime()
	tr.Line("gauge.block", i64(now.UnixNano()))
	w.sfInputs()
	for _, g := range w.app.Rewardskeeper.GetAllGauges(w.ctx) {
		if g.ForSwapFee || !g.IsActive || now.Before(g.StartTime) || g.TriggeredCount == g.TotalTriggers || !g.DepositAmount.Amount.IsUint64() {
			continue
		}
		sp := rewardskeeper.SplitTotalAmountPerEpoch(g.DepositAmount.Amount.Uint64(), g.TotalTriggers)
		if len(sp) <= int(g.TriggeredCount) {
			continue
		}
		alloc := sp[g.TriggeredCount]
		meta := g.GetLiquidityMetaData()
		if meta == nil {
			continue
		}
		d := w.computeDist(*meta, sdk.NewCoin(g.DepositAmount.Denom, sdk.NewIntFromUint64(alloc)))
		child := "-"
		if d.mode == "1" {
			child = c19csvS(d.cpos)
		}
		tr.Line("gauge.dist", u(g.Id), u(alloc), d.mode, c19csvS(d.mpos), child, d.outcome, c19csvS(d.recv), c19csvS(d.rewards))
	}
	w.xSnapshot()
	xBefore := w.xCounts()
	balBefore := w.balSnap()
	gaugesBefore := map[uint64]uint64{}
	for _, g := range w.app.Rewardskeeper.GetAllGauges(w.ctx) {
		gaugesBefore[g.Id] = g.TriggeredCount
	}

	rewards.BeginBlocker(w.ctx, abci.RequestBeginBlock{}, w.app.Rewardskeeper)

	balAfter := w.balSnap()
	liquidity.BeginBlocker(w.ctx, w.app.LiquidityKeeper, w.app.AssetKeeper) // every 150 blocks: accumulated swap fees → SwapFeeDistrDenom
	tr.Line("gauge.run", "ok")

	var es []string
	for _, e := range w.app.Rewardskeeper.GetAllEpochInfos(w.ctx) {
		fresh := e.StartTime == time.Time{} && e.CurrentEpoch == 0
		es = append(es, i64(int64(e.Duration))+":"+i64(e.CurrentEpochStartTime.UnixNano())+":"+i64(e.CurrentEpoch)+":"+strconv.FormatBool(fresh))
	}
	tr.Line("gauge.epochs", strings.Join(es, ";"))
	var gs []string
	for _, g := range w.app.Rewardskeeper.GetAllGauges(w.ctx) {
		gs = append(gs, strings.Join([]string{u(g.Id), g.DepositAmount.Denom, g.DepositAmount.Amount.String(), g.DistributedAmount.Amount.String(),
			u(g.TriggeredCount), u(g.TotalTriggers), strconv.FormatBool(g.IsActive), strconv.FormatBool(g.ForSwapFee), i64(int64(g.TriggerDuration)), i64(g.StartTime.UnixNano()), g.DistributedAmount.Denom}, ":"))
		if g.ForSwapFee {
			if g.DepositAmount.IsPositive() {
				tr.Count("sfgauge:holds-coins")
			}
			if g.TriggeredCount > gaugesBefore[g.Id] {
				tr.Count("sfgauge:triggered")
			}
			if g.DistributedAmount.IsPositive() {
				tr.Count("sfgauge:has-distributed")
			}
		}
		if !g.ForSwapFee {
			switch {
			case g.TriggeredCount > gaugesBefore[g.Id]:
				tr.Count("gauge:triggered")
			case !g.IsActive:
				tr.Count("gauge:inactive")
			default:
				tr.Count("gauge:waiting")
			}
			if g.TriggeredCount == g.TotalTriggers && g.TriggeredCount > gaugesBefore[g.Id] {
				tr.Count("gauge:completed")
			}
		}
	}
	tr.Line("gauge.gauges", strings.Join(gs, ";"))
	w.xRecords(xBefore)
	var bs []string
	for _, c := range w.app.BankKeeper.GetAllBalances(w.ctx, w.macc) {
		bs = append(bs, c.Denom+":"+c.Amount.String())
	}
	if len(bs) == 0 {
		bs = []string{"-"}
	}
	tr.Line("gauge.bals", strings.Join(bs, ";"))
	var ps []string
	keys := make([]string, 0, len(balAfter))
	for k := range balAfter {
		keys = append(keys, k)
	}
	sort.Strings(keys)
	for _, k := range keys {
		dlt := balAfter[k].Sub(balBefore[k])
		if !dlt.IsZero() {
			ps = append(ps, k+":"+dlt.String())
			tr.Count("paid:nonzero")
		}
	}
	if len(ps) == 0 {
		ps = []string{"-"}
	}
	tr.Line("gauge.paid", strings.Join(ps, ";"))

	liquidity.EndBlocker(w.ctx, w.app.LiquidityKeeper, w.app.AssetKeeper)
}

// external locker programme fixture: collector table, whitelisted asset 1, n lockers with the given balances
func (w *c19World) setupLockers(nets []int64) {
	w.must(w.app.CollectorKeeper.WasmSetCollectorLookupTable(w.ctx, &bindings.MsgSetCollectorLookupTable{AppID: 1, CollectorAssetID: 1, SecondaryAssetID: 3,
		SurplusThreshold: sdk.NewInt(10000000), DebtThreshold: sdk.NewInt(5000000), LockerSavingRate: sdk.MustNewDecFromStr("0.1"),
		LotSize: sdk.NewInt(2000000), BidFactor: sdk.MustNewDecFromStr("0.01"), DebtLotSize: sdk.NewInt(2000000)}))
	_, err := w.app.LockerKeeper.AddWhiteListedAsset(w.ctx, &lockertypes.MsgAddWhiteListedAssetRequest{From: w.acct(0).String(), AppId: 1, AssetId: 1})
	w.must(err)
	for i, n := range nets {
		o := w.acct(100 + i)
		w.fund(o, sdk.NewCoins(sdk.NewCoin("uasset1", sdk.NewInt(n))))
		w.must(w.deliver(&lockertypes.MsgCreateLockerRequest{Depositor: o.String(), Amount: sdk.NewInt(n), AssetId: 1, AppId: 1}))
	}
	w.lockers = true
}

func (w *c19World) createExt(creator int, denom string, amount sdkmath.Int, days int64, fundIt bool) bool {
	return w.createProg(c19ProgSpec{kind: "L", creator: creator, denom: denom, amount: amount, days: days, minLock: 1, fundIt: fundIt, asset: 1})
}

// find the pool-coin amount whose redeemable quote amount is exactly x (the real CalculateXYFromPoolCoin is monotone)
func (w *c19World) poolCoinFor(pool liqtypes.Pool, x int64) sdkmath.Int {
	kit, err := w.app.LiquidityKeeper.GetPoolTokenDesrializerKit(w.ctx, w.appID, pool.Id)
	w.must(err)
	val := func(pc *big.Int) int64 {
		xx, _, err := w.app.LiquidityKeeper.CalculateXYFromPoolCoin(w.ctx, kit, sdk.NewCoin(pool.PoolCoinDenom, sdkmath.NewIntFromBigInt(pc)))
		if err != nil {
			return 0
		}
		return xx.Int64()
	}
	lo, hi := big.NewInt(1), new(big.Int).Set(kit.PoolCoinSupply.BigInt())
	for lo.Cmp(hi) < 0 {
		mid := new(big.Int).Add(lo, hi)
		mid.Rsh(mid, 1)
		if val(mid) < x {
			lo.Add(mid, big.NewInt(1))
		} else {
			hi.Set(mid)
		}
	}
	if val(lo) != x {
		w.t.Fatalf("cannot realise quote amount %d (got %d)", x, val(lo))
	}
	return sdkmath.NewIntFromBigInt(lo)
}

// ---------------------------------------------------------------------------------------------
// witnesses of the defects described in notes/C19.md (replayed first in every run)
// ---------------------------------------------------------------------------------------------

// W1: the literal 10^-12 clause.  Values 599 999 999 998 and 59 400 000 000 002 (total 6·10^13), allocation 4 000 000.
func c19Witness1e12(t *testing.T, tr *Trace) {
	w := c19NewWorld(t, tr, 100000000000000, 1000000, [4]uint64{1000000, 1000000, 1000000, 1000000})
	a := w.acct(1)
	w.deposit(a, w.pools[0], 1000000000000)
	// quote amounts 3·10^11 − 1 and 3·10^13 − 3·10^11 + 1; value = 2 · amount · price / decimals
	pcA := w.poolCoinFor(w.pools[0], 299999999999)
	pcC := w.poolCoinFor(w.pools[0], 29700000000001)
	w.must(w.farm(a, w.pools[0], pcA))
	w.must(w.farm(w.acct(0), w.pools[0], pcC))
	w.settle(25 * time.Hour)
	w.fund(w.acct(2), sdk.NewCoins(sdk.NewCoin("urew", sdk.NewInt(4000000))))
	w.createGauge(c19GaugeSpec{creator: 2, denom: "urew", deposit: sdk.NewInt(4000000), total: 1, start: w.ctx.BlockTime(), dur: 24 * time.Hour, pool: 1, typeID: 1})
	w.block(time.Hour)
	w.block(25 * time.Hour)
	w.block(25 * time.Hour)
	tr.Count("witness:1e12")
}

// W2 (regression; defect repaired in the repository by `fix: reject a reward gauge with zero epochs`): a gauge with
// TotalTriggers = 0 must be REJECTED by ValidateBasic; if it is accepted again the monitor zero_epochs fires and the
// model (which refuses it) diverges.
func c19WitnessZeroEpochs(t *testing.T, tr *Trace) {
	w := c19NewWorld(t, tr, 1000000000000, 1000000, [4]uint64{1000000, 1000000, 1000000, 1000000})
	w.must(w.farm(w.acct(0), w.pools[0], sdk.NewInt(1000000000)))
	w.settle(25 * time.Hour)
	w.fund(w.acct(2), sdk.NewCoins(sdk.NewCoin("urew", sdk.NewInt(7))))
	w.createGauge(c19GaugeSpec{creator: 2, denom: "urew", deposit: sdk.NewInt(7), total: 0, start: w.ctx.BlockTime(), dur: 24 * time.Hour, pool: 1, typeID: 1})
	w.block(time.Hour)
	w.block(25 * time.Hour)
	w.block(25 * time.Hour)
	w.block(25 * time.Hour)
	tr.Count("witness:zero_epochs")
}

// W3: an external locker programme pays 18 base units more than it has; the shortfall comes out of a gauge's money.
func c19WitnessExtOverpay(t *testing.T, tr *Trace) {
	w := c19NewWorld(t, tr, 1000000000000, 1000000, [4]uint64{1000000, 1000000, 1000000, 1000000})
	w.setupLockers([]int64{1000000000, 1000000000, 1000000000, 1000000000, 1000000000, 1000000000})
	w.must(w.farm(w.acct(0), w.pools[0], sdk.NewInt(1000000000)))
	w.fund(w.acct(2), sdk.NewCoins(sdk.NewCoin("weth", sdk.NewInt(1000))))
	w.createGauge(c19GaugeSpec{creator: 2, denom: "weth", deposit: sdk.NewInt(1000), total: 10, start: w.ctx.BlockTime().Add(1000 * time.Hour), dur: 24 * time.Hour, pool: 1, typeID: 1})
	amt, _ := sdk.NewIntFromString("9000000000000000000")
	w.createExt(3, "weth", amt, 1, true)
	w.block(time.Hour)
	w.block(25 * time.Hour)
	w.block(25 * time.Hour)
	tr.Count("witness:ext_overpay")
}

// G1 (directed, no defect): farmed values so large that the floored rewards add up to MORE than the allocation; only the
// sum-of-shares guard of BeginRewardDistributions (distribution.go:84) stands between that and an over-payment. The real
// trigger must refuse the epoch (not counted, nothing paid). The allocation is found by asking the real share computation.
func c19GuardCase(t *testing.T, tr *Trace) {
	w := c19NewWorld(t, tr, 1000000000000, 1, [4]uint64{65000000000, 65000000000, 65000000000, 65000000000})
	a := w.acct(1)
	pc := w.deposit(a, w.pools[0], 900000000000)
	w.must(w.farm(a, w.pools[0], pc.Amount))
	bal := w.app.BankKeeper.GetBalance(w.ctx, w.acct(0), w.pools[0].PoolCoinDenom).Amount
	w.must(w.farm(w.acct(0), w.pools[0], bal))
	w.settle(25 * time.Hour)
	meta := rewardstypes.LiquidtyGaugeMetaData{PoolId: 1}
	found := uint64(0)
	// multiplier = alloc/S rounds UP to 10^-18 as soon as alloc/S ≥ ½·10^-18: start just above S_raw / (2·10^36)
	c0, _ := w.ctx.CacheContext()
	in, _, _ := w.shareInputs(c0, meta)
	sRaw := new(big.Int)
	for _, v := range in.values {
		sRaw.Add(sRaw, v.BigInt())
	}
	start := new(big.Int).Quo(sRaw, new(big.Int).Mul(big.NewInt(2), new(big.Int).Exp(big.NewInt(10), big.NewInt(36), nil))).Uint64() + 1
	for alloc := start; alloc < start+50 && found == 0; alloc++ {
		d := w.computeDist(meta, sdk.NewCoin("urew", sdk.NewIntFromUint64(alloc)))
		sum := uint64(0)
		for _, r := range d.rewards {
			v, _ := strconv.ParseUint(r, 10, 64)
			sum += v
		}
		if d.outcome == "ok" && sum > alloc {
			found = alloc
		}
	}
	if found == 0 {
		tr.Count("guardcase:not-found")
		return
	}
	tr.Count("guardcase:found")
	w.fund(w.acct(2), sdk.NewCoins(sdk.NewCoin("urew", sdk.NewIntFromUint64(found*3))))
	w.createGauge(c19GaugeSpec{creator: 2, denom: "urew", deposit: sdk.NewIntFromUint64(found * 3), total: 3, start: w.ctx.BlockTime(), dur: 24 * time.Hour, pool: 1, typeID: 1})
	w.block(time.Hour)
	w.block(25 * time.Hour)
	w.block(25 * time.Hour)
	w.block(25 * time.Hour)
}

// populate: farmers 1..nF with varied master/child configurations — master pool only, child pools only, both with the
// master side binding, both with the child sum binding, the last child pool smaller / larger than the others
func (w *c19World) populate(rng *Rng, nF int) {
	for i := 1; i <= nF; i++ {
		a := w.acct(i)
		base := int64(1000000)<<uint(rng.Intn(18)) + int64(rng.Intn(999999))
		profile := rng.Intn(7)
		w.tr.Count("profile:" + []string{"master-only", "children-only", "master-binds", "child-sum-binds", "last-child-small", "last-child-large", "random"}[profile])
		master := int64(0)
		child := [3]int64{} // pools 2, 3, 4
		switch profile {
		case 0:
			master = base
		case 1:
			for j := range child {
				if rng.Chance(60) {
					child[j] = base / int64(rng.Range(1, 4))
				}
			}
		case 2: // small master position, large child positions
			master = base
			child = [3]int64{base * 2, base * int64(rng.Range(1, 3)), 0}
		case 3: // large master position, child positions adding up to less
			master = base * 8
			child = [3]int64{base, base / 2, base / 3}
		case 4: // the child pool processed last is the smallest
			master = base * 4
			child = [3]int64{base * 3, base * 2, base / int64(rng.Range(2, 50))}
		case 5:
			master = base * 4
			child = [3]int64{base / int64(rng.Range(2, 50)), base / 3, base * 3}
		default:
			master = base
			for j := range child {
				if rng.Chance(50) {
					child[j] = int64(1000000) << uint(rng.Intn(18))
				}
			}
		}
		if master > 0 {
			pc := w.deposit(a, w.pools[0], master)
			part := pc.Amount
			if rng.Chance(30) {
				part = part.MulRaw(int64(rng.Range(1, 99))).QuoRaw(100).AddRaw(1)
			}
			w.farm(a, w.pools[0], part)
		}
		for j, amt := range child {
			if amt >= 1000000 {
				pc := w.deposit(a, w.pools[1+j], amt)
				if pc.Amount.IsPositive() {
					w.farm(a, w.pools[1+j], pc.Amount)
				}
			}
		}
	}
}

// child pool sets of a master-pool gauge: none given (= every other pool), one, two, three, in either order
func c19Children(rng *Rng) []uint64 {
	return [][]uint64{nil, {2}, {3}, {2, 3}, {3, 2}, {2, 4}, {4, 3}, {2, 3, 4}, {4, 3, 2}, {3, 4}}[rng.Intn(10)]
}

// M1 (directed, no defect): a master-pool gauge with child pools 2 and 3. A farms 500 in the master pool and 500 in pool 2;
// B farms 500 in the master pool, 300 in pool 2 and 200 in pool 3 (the pool processed last holds the least); C farms only in
// child pools and D only in the master pool (both get nothing). Equal weights min(master, Σ children) ⇒ A and B are paid the same.
func c19MasterChildCase(t *testing.T, tr *Trace) {
	w := c19NewWorld(t, tr, 1000000000000, 1000000, [4]uint64{1000000, 1000000, 1000000, 1000000})
	type pos struct {
		who  int
		pool int
		amt  int64
	}
	for _, p := range []pos{{1, 0, 500000000}, {1, 1, 500000000}, {2, 0, 500000000}, {2, 1, 300000000}, {2, 2, 200000000},
		{3, 1, 400000000}, {3, 2, 400000000}, {4, 0, 250000000}} {
		pc := w.deposit(w.acct(p.who), w.pools[p.pool], p.amt)
		w.must(w.farm(w.acct(p.who), w.pools[p.pool], pc.Amount))
	}
	w.settle(25 * time.Hour)
	w.fund(w.acct(5), sdk.NewCoins(sdk.NewCoin("urew", sdk.NewInt(3000000000))))
	w.createGauge(c19GaugeSpec{creator: 5, denom: "urew", deposit: sdk.NewInt(3000000000), total: 3, start: w.ctx.BlockTime(), dur: 24 * time.Hour,
		pool: 1, master: true, children: []uint64{2, 3}, typeID: 1})
	w.block(time.Hour)
	w.block(25 * time.Hour)
	w.block(25 * time.Hour)
	w.block(25 * time.Hour)
	tr.Count("corpus:master-child")
}

// ---------------------------------------------------------------------------------------------
// generated lifecycles
// ---------------------------------------------------------------------------------------------

func c19Lifecycle(t *testing.T, tr *Trace, rng *Rng, seqNo int) {
	decs := []int64{1, 1000000, 100000000}
	dec := decs[rng.Intn(len(decs))]
	var prices [4]uint64
	for i := range prices {
		prices[i] = []uint64{1, 37, 1000000, 1234567, 65000000000}[rng.Intn(5)]
	}
	reserve := []int64{1000000000, 1000000000000, 100000000000000}[rng.Intn(3)]
	w := c19NewWorld(t, tr, reserve, dec, prices)
	nF := rng.Range(1, 6)
	tr.Count("farmers:" + strconv.Itoa(nF))
	w.populate(rng, nF)
	if rng.Chance(50) { // the pool creator farms too (a dominant farmer)
		bal := w.app.BankKeeper.GetBalance(w.ctx, w.acct(0), w.pools[0].PoolCoinDenom).Amount
		w.farm(w.acct(0), w.pools[0], bal.QuoRaw(int64(rng.Range(1, 1000))))
		for j := 1; j <= 3; j++ {
			if rng.Chance(40) {
				bal2 := w.app.BankKeeper.GetBalance(w.ctx, w.acct(0), w.pools[j].PoolCoinDenom).Amount
				w.farm(w.acct(0), w.pools[j], bal2.QuoRaw(int64(rng.Range(1, 1000))))
			}
		}
	}
	if rng.Chance(80) {
		w.settle(25 * time.Hour)
	}
	withExt := rng.Chance(35)
	if withExt {
		n := rng.Range(1, 5)
		nets := make([]int64, n)
		for i := range nets {
			nets[i] = int64(rng.Range(1, 1000)) * 1000000
		}
		w.setupLockers(nets)
	}
	durs := []time.Duration{12 * time.Hour, 24 * time.Hour, 36 * time.Hour}
	newGauge := func() {
		s := c19GaugeSpec{creator: 50 + rng.Intn(3), denom: []string{"urew", "urew", "urewb"}[rng.Intn(3)], pool: 1, typeID: 1}
		s.dur = durs[rng.Intn(len(durs))]
		s.total = uint64(rng.Range(1, 12))
		if rng.Chance(15) {
			s.total = uint64(rng.Range(13, 40))
		}
		// deposit: exact multiple, with remainder, equal to the epoch count, one below it (rejected)
		switch rng.Intn(7) {
		case 0:
			s.deposit = sdk.NewIntFromUint64(s.total * uint64(rng.Range(1, 1000000)))
		case 1:
			s.deposit = sdk.NewIntFromUint64(s.total)
		case 2:
			s.deposit = sdk.NewIntFromUint64(s.total).SubRaw(1)
		case 3:
			s.deposit = sdk.NewIntFromUint64(s.total + uint64(rng.Intn(int(s.total)+1)))
		default:
			s.deposit = sdk.NewIntFromUint64(rng.U64() >> uint(rng.Range(14, 62)))
		}
		if rng.Chance(2) {
			// an epoch allocation that does not fit int64 (the share computation panics when one farmer holds nearly
			// everything) or a deposit that does not fit uint64 (Uint64() panics): the begin blocker rolls back
			if rng.Chance(50) {
				s.deposit = sdk.NewIntFromUint64(1<<63 + rng.U64()>>2).MulRaw(int64(s.total))
			} else {
				s.deposit = sdk.NewIntFromUint64(math.MaxUint64).AddRaw(int64(rng.Range(1, 1000)))
			}
			tr.Count("create:huge")
		}
		s.start = w.ctx.BlockTime().Add(time.Duration(rng.Intn(4)) * 10 * time.Hour)
		s.master = rng.Chance(60)
		if s.master {
			s.children = c19Children(rng)
			if len(s.children) >= 2 || s.children == nil {
				tr.Count("create:master-children>=2")
			} else {
				tr.Count("create:master-children=1")
			}
		}
		if !s.master && rng.Chance(15) {
			s.pool = 2
		}
		fundIt := true
		// malformed stream
		switch rng.Intn(40) {
		case 0:
			s.total = 0 // must be rejected (W2)
			tr.Count("create:zero-epochs")
		case 1:
			s.start = w.ctx.BlockTime().Add(-time.Hour)
		case 2:
			s.dur = 11 * time.Hour
		case 3:
			s.deposit = sdk.ZeroInt()
		case 4:
			fundIt = false
		case 5:
			s.typeID = 2
		case 6:
			s.pool = 77
		case 7:
			s.deposit = sdk.NewInt(-5)
		case 8:
			s.master, s.children = true, []uint64{s.pool} // a child pool equal to the master pool
		case 9:
			s.master, s.children = true, []uint64{2, 99} // a child pool that does not exist
		}
		if fundIt && s.deposit.IsPositive() {
			w.fund(w.acct(s.creator), sdk.NewCoins(sdk.NewCoin(s.denom, s.deposit)))
		}
		w.createGauge(s)
	}
	for i, n := 0, rng.Range(1, 4); i < n; i++ {
		newGauge()
	}
	if withExt {
		days := int64(rng.Range(1, 4))
		amt := sdk.NewIntFromUint64(rng.U64() >> uint(rng.Range(20, 50)))
		w.createExt(60, []string{"urew", "weth"}[rng.Intn(2)], amt.AddRaw(1), days, !rng.Chance(10))
	}
	gaps := []time.Duration{time.Hour, 5 * time.Hour, 12 * time.Hour, 12*time.Hour + time.Nanosecond, 13 * time.Hour, 24 * time.Hour, 25 * time.Hour,
		36 * time.Hour, 37 * time.Hour, 49 * time.Hour, 73 * time.Hour, 200 * time.Hour}
	nBlocks := rng.Range(8, scale(30, 60))
	for b := 0; b < nBlocks; b++ {
		g := gaps[rng.Intn(len(gaps))]
		if g >= 49*time.Hour {
			tr.Count("gap:skip")
		} else {
			tr.Count("gap:normal")
		}
		w.block(g)
		// things users do between blocks
		switch rng.Intn(12) {
		case 0:
			newGauge()
		case 1:
			f := rng.Range(1, nF)
			bal := w.app.BankKeeper.GetBalance(w.ctx, w.acct(f), w.pools[0].PoolCoinDenom).Amount
			if bal.IsPositive() {
				w.farm(w.acct(f), w.pools[0], bal.QuoRaw(int64(rng.Range(1, 3))))
			}
		case 2:
			f := rng.Range(1, nF)
			af, found := w.app.LiquidityKeeper.GetActiveFarmer(w.ctx, w.appID, w.pools[0].Id, w.acct(f))
			if found {
				w.unfarm(w.acct(f), w.pools[0], af.FarmedPoolCoin.Amount.QuoRaw(int64(rng.Range(1, 3))))
			}
		case 3:
			w.setPrice(uint64(rng.Range(1, 3)), []uint64{1, 999, 1000000, 7654321}[rng.Intn(4)], true)
			tr.Count("price:change")
		case 4:
			w.setPrice(2, 0, false) // quote price gone: the base asset's price is used, or the distribution errors
			tr.Count("price:off")
		case 5:
			w.donate(w.acct(70), []string{"urew", "urewb"}[rng.Intn(2)], int64(rng.Range(1, 1000)))
		case 6:
			if rng.Chance(40) { // no oracle price for either side of the master pair: the distribution errors, the epoch is not counted
				w.setPrice(1, 0, false)
				w.setPrice(2, 0, false)
				tr.Count("price:both-off")
			}
		}
	}
	_ = seqNo
}

// direct calls of the real share computation on generated farmer populations, many allocations per population
func c19Shares(t *testing.T, tr *Trace, rng *Rng) {
	worlds := scale(6, 80)
	per := scale(150, 600)
	for wi := 0; wi < worlds; wi++ {
		dec := []int64{1, 1000000, 1000000000000000000}[rng.Intn(3)]
		prices := [4]uint64{[]uint64{1, 1000000, 3333333}[rng.Intn(3)], []uint64{1, 1000000, 999999}[rng.Intn(3)], []uint64{1000000, 250000}[rng.Intn(2)], []uint64{1000000, 7000000}[rng.Intn(2)]}
		reserve := []int64{1000000000, 1000000000000, 100000000000000}[rng.Intn(3)]
		w := c19NewWorld(t, tr, reserve, dec, prices)
		nF := rng.Range(1, 8)
		w.populate(rng, nF)
		if rng.Chance(60) {
			bal := w.app.BankKeeper.GetBalance(w.ctx, w.acct(0), w.pools[0].PoolCoinDenom).Amount
			w.farm(w.acct(0), w.pools[0], bal.QuoRaw(int64(rng.Range(1, 100))))
		}
		w.settle(25 * time.Hour)
		for j := 0; j < per; j++ {
			meta := rewardstypes.LiquidtyGaugeMetaData{PoolId: 1, IsMasterPool: rng.Chance(70)}
			if meta.IsMasterPool {
				meta.ChildPoolIds = c19Children(rng)
			}
			var alloc uint64
			switch rng.Intn(8) {
			case 0:
				alloc = uint64(rng.Range(0, 50))
			case 1:
				alloc = 1<<63 - uint64(rng.Intn(3)) // just inside int64
			case 2:
				alloc = 1<<63 + uint64(rng.Intn(1000)) // int64(math.Floor(x)) overflows when one farmer holds everything
			case 3:
				alloc = math.MaxUint64 - uint64(rng.Intn(3))
			default:
				alloc = rng.U64() >> uint(rng.Range(1, 60))
			}
			d := w.computeDist(meta, sdk.NewCoin("urew", sdk.NewIntFromUint64(alloc)))
			child := "-"
			if d.mode == "1" {
				child = c19csvS(d.cpos)
			}
			tr.Line("gauge.shares.single", d.mode, u(alloc), c19csvS(d.mpos), child, d.outcome, c19csvS(d.rewards))
		}
	}
}

func TestC19(t *testing.T) {
	tr := OpenTrace(t, "c19.trace")
	defer tr.Close(t)
	rng := NewRng(seed())
	// corpus: witnesses of the defects found (see notes/C19.md), first in every run
	c19Witness1e12(t, tr)
	c19WitnessZeroEpochs(t, tr)
	c19WitnessExtOverpay(t, tr)
	c19WitnessLendValueAsAmount(t, tr)
	c19WitnessLendTruncatedTotal(t, tr)
	c19LendSameBlockCase(t, tr)
	c19WitnessSfLeak(t, tr)
	c19SfDenomChangeCase(t, tr)
	c19GuardCase(t, tr)
	c19MasterChildCase(t, tr)
	c19Split(tr, rng)
	c19Float(tr, rng)
	c19Shares(t, tr, rng)
	n := scale(40, 1200)
	for s := 0; s < n; s++ {
		c19Lifecycle(t, tr, rng, s)
	}
	c19XWorlds(t, tr, rng)
	c19SfWorlds(t, tr, rng)
}

// developer aid (not part of the check): only the external-programme corpus and worlds
func TestC19XOnly(t *testing.T) {
	tr := OpenTrace(t, "c19x.trace")
	defer tr.Close(t)
	rng := NewRng(seed())
	c19WitnessExtOverpay(t, tr)
	c19WitnessLendValueAsAmount(t, tr)
	c19WitnessLendTruncatedTotal(t, tr)
	c19LendSameBlockCase(t, tr)
	c19WitnessSfLeak(t, tr)
	c19XWorlds(t, tr, rng)
	c19SfWorlds(t, tr, rng)
}
